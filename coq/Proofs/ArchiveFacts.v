(* ArchiveFacts.v — the archive reader and writer at the raw-entry level (Model/Archive.v):
   totality with the fuel the model supplies, extensionality in the chunk parser (so the stream
   and slice readers agree), read . write = id (pass-through reproduces the archive byte for byte),
   truncation and alteration are detected and yield exactly the entries that were complete. *)
From PNA Require Import Base Crc32 Codec Chunk Archive BaseFacts Crc32Facts CodecFacts ChunkFacts.
Require Import ZArith ZifyN ZifyNat ZifyBool.
Open Scope N_scope.

(* ---- small facts about the fixed parts ---------------------------------------------------------- *)
Lemma ahed_of_bytes_np bs : ahed_of_bytes bs <> Panic.
Proof. unfold ahed_of_bytes. do 9 (destruct bs as [|? bs]; try discriminate). Qed.

Lemma read_sig_cases bs :
  read_sig bs = Err UnexpectedEof \/ read_sig bs = Err InvalidData \/ exists r, read_sig bs = Ok r /\ bs = sig ++ r.
Proof.
  unfold read_sig. destruct (take_cases 8 bs) as [(h & r & E)| ->]; [|left; reflexivity].
  rewrite E. cbn [bind]. apply take_ok in E. destruct E as [-> _].
  destruct (bytes_eqb h sig) eqn:Eh; [|right; left; reflexivity].
  apply bytes_eqb_eq in Eh. subst h. right; right. exists r. split; reflexivity.
Qed.

Lemma read_sig_app r : read_sig (sig ++ r) = Ok r.
Proof. unfold read_sig. rewrite take_app by reflexivity. cbn [bind]. reflexivity. Qed.

(* ================================================================================================= *)
(* 8. totality: no Panic / FinPanic with the fuel the model gives                                      *)
(* ================================================================================================= *)
Section Totality.
Variable rd : reader.
Hypothesis rd_short : forall bs c r, rd bs = Ok (c, r) -> (length r < length bs)%nat.
Hypothesis rd_np : forall bs, rd bs <> Panic.

Lemma chunks_iter_np : forall fuel bs, (length bs < fuel)%nat -> snd (chunks_iter rd fuel bs) <> FinPanic.
Proof.
  induction fuel as [|fuel IH]; intros bs H; [lia|]. cbn [chunks_iter].
  destruct (rd bs) as [[c r]|e|] eqn:E.
  - destruct (ty_is c AEND); [cbn [snd]; discriminate|].
    specialize (IH r). destruct (chunks_iter rd fuel r) as [cs e]. cbn [snd] in *.
    apply IH. apply rd_short in E. lia.
  - cbn [snd]. discriminate.
  - exfalso. exact (rd_np bs E).
Qed.

Lemma chunks_no_panic bs :
  read_chunks rd bs <> Panic /\ forall cs f, read_chunks rd bs = Ok (cs, f) -> f <> FinPanic.
Proof.
  unfold read_chunks.
  destruct (read_sig_cases bs) as [-> | [-> | (r & -> & _)]]; cbn [bind];
    [split; [discriminate|intros ? ? [=]] | split; [discriminate|intros ? ? [=]] |].
  pose proof (chunks_iter_np (S (length r)) r (Nat.lt_succ_diag_r _)) as H.
  destruct (chunks_iter rd (S (length r)) r) as [cs0 f0]. cbn [snd] in H.
  split; [discriminate|]. intros cs f [= <- <-]. exact H.
Qed.

(* one raw item: never Panic, and a successful call consumes input *)
Lemma next_item_loop_spec : forall fuel bs acc nxt, (length bs < fuel)%nat ->
  match next_item_loop rd fuel bs acc nxt with
  | Ok (_, _, _, r) => (length r < length bs)%nat
  | Err _ => True
  | Panic => False
  end.
Proof.
  induction fuel as [|fuel IH]; intros bs acc nxt H; [lia|]. cbn [next_item_loop].
  destruct (rd bs) as [[c r]|e|] eqn:E; cbn [bind]; [| exact I | exact (rd_np bs E)].
  apply rd_short in E.
  destruct (ty_is c FEND || ty_is c SEND); [exact E|].
  destruct (ty_is c ANXT).
  { specialize (IH r acc true). destruct (next_item_loop rd fuel r acc true) as [[[[o b] n] r']| |]; try apply IH; lia. }
  destruct (ty_is c AEND); [exact E|].
  specialize (IH r (acc ++ [c]) nxt). destruct (next_item_loop rd fuel r (acc ++ [c]) nxt) as [[[[o b] n] r']| |]; try apply IH; lia.
Qed.

Lemma next_raw_item_spec s :
  match next_raw_item rd s with
  | Ok (_, s') => (length (r_rest s') < length (r_rest s))%nat /\ r_hdr s' = r_hdr s
  | Err _ => True
  | Panic => False
  end.
Proof.
  unfold next_raw_item.
  pose proof (next_item_loop_spec (S (length (r_rest s))) (r_rest s) (r_buf s) (r_next s) (Nat.lt_succ_diag_r _)) as H.
  destruct (next_item_loop rd (S (length (r_rest s))) (r_rest s) (r_buf s) (r_next s)) as [[[[o b] n] r']| |];
    cbn [bind]; [|exact I|exact H].
  cbn [r_rest r_hdr]. split; [exact H|reflexivity].
Qed.

Lemma raw_entries_loop_np : forall fuel s, (length (r_rest s) < fuel)%nat ->
  snd (fst (raw_entries_loop rd fuel s)) <> FinPanic.
Proof.
  induction fuel as [|fuel IH]; intros s H; [lia|]. cbn [raw_entries_loop].
  pose proof (next_raw_item_spec s) as Hs.
  destruct (next_raw_item rd s) as [[[e|] s']|e|]; [| | |contradiction]; try (cbn [fst snd]; discriminate).
  destruct Hs as [Hs _]. specialize (IH s'). destruct (raw_entries_loop rd fuel s') as [[es e'] s''].
  cbn [fst snd] in *. apply IH. lia.
Qed.

Lemma read_header_spec bs :
  match read_header rd bs with
  | Ok (_, r) => (length r < length bs)%nat
  | Err _ => True
  | Panic => False
  end.
Proof.
  unfold read_header.
  destruct (read_sig_cases bs) as [-> | [-> | (r & -> & ->)]]; cbn [bind]; try exact I.
  destruct (rd r) as [[c r']|e|] eqn:E; cbn [bind]; [|exact I|exact (rd_np r E)].
  destruct (negb (ty_is c AHED)); [exact I|].
  pose proof (ahed_of_bytes_np (cdata c)) as Hn.
  destruct (ahed_of_bytes (cdata c)); cbn [bind]; [|exact I|contradiction].
  apply rd_short in E. rewrite app_length. lia.
Qed.

Lemma open_archive_spec buf bs :
  match open_archive rd buf bs with
  | Ok s => (length (r_rest s) < length bs)%nat /\ r_buf s = buf /\ r_next s = false
  | Err _ => True
  | Panic => False
  end.
Proof.
  unfold open_archive. pose proof (read_header_spec bs) as H.
  destruct (read_header rd bs) as [[h r]|e|]; cbn [bind]; [|exact I|exact H].
  cbn [r_rest r_buf r_next]. auto.
Qed.

(* `read_no_panic` *)
Lemma raw_entries_no_panic bs :
  raw_entries rd bs <> Panic /\ forall es f st, raw_entries rd bs = Ok (es, f, st) -> f <> FinPanic.
Proof.
  unfold raw_entries. pose proof (open_archive_spec [] bs) as H.
  destruct (open_archive rd [] bs) as [s|e|]; cbn [bind]; [| split; [discriminate|intros ? ? ? [=]] | contradiction].
  destruct H as [H _].
  pose proof (raw_entries_loop_np (S (length bs)) s) as Hn.
  destruct (raw_entries_loop rd (S (length bs)) s) as [[es0 f0] st0]. cbn [fst snd] in Hn.
  split; [discriminate|]. intros es f st [= <- <- <-]. apply Hn. lia.
Qed.

Lemma read_next_archive_spec s bs :
  match read_next_archive rd s bs with
  | Ok s' => (length (r_rest s') < length bs)%nat
  | Err _ => True
  | Panic => False
  end.
Proof.
  unfold read_next_archive. pose proof (open_archive_spec (r_buf s) bs) as H.
  destruct (open_archive rd (r_buf s) bs) as [s'|e|]; cbn [bind]; [|exact I|exact H].
  destruct (_ && _); [apply H|exact I].
Qed.

Lemma read_parts_loop_np : forall parts s cur_fuel, (length (r_rest s) < cur_fuel)%nat ->
  snd (read_parts_loop rd s (fun b => S (length b)) parts cur_fuel) <> FinPanic.
Proof.
  induction parts as [|p ps IH]; intros s cur H; cbn [read_parts_loop];
    pose proof (raw_entries_loop_np cur s H) as Hn;
    destruct (raw_entries_loop rd cur s) as [[es e] s']; cbn [fst snd] in Hn;
    destruct e as [|k|]; try contradiction; try (cbn [snd]; discriminate);
    destruct (r_next s'); try (cbn [snd]; discriminate).
  pose proof (read_next_archive_spec s' p) as Hp.
  destruct (read_next_archive rd s' p) as [s2|k|]; [|cbn [snd]; discriminate|contradiction].
  specialize (IH s2 (S (length p))).
  destruct (read_parts_loop rd s2 (fun b => S (length b)) ps (S (length p))) as [es2 e2].
  cbn [snd] in *. apply IH. lia.
Qed.

Lemma read_parts_no_panic parts :
  read_parts rd parts <> Panic /\ forall es f, read_parts rd parts = Ok (es, f) -> f <> FinPanic.
Proof.
  destruct parts as [|p ps]; cbn [read_parts]; [split; [discriminate|intros ? ? [=]]|].
  pose proof (open_archive_spec [] p) as H.
  destruct (open_archive rd [] p) as [s|e|]; cbn [bind]; [| split; [discriminate|intros ? ? [=]] | contradiction].
  pose proof (read_parts_loop_np ps s (S (length p))) as Hn.
  destruct (read_parts_loop rd s (fun b => S (length b)) ps (S (length p))) as [es0 f0]. cbn [snd] in Hn.
  split; [discriminate|]. intros es f [= <- <-]. apply Hn. lia.
Qed.

(* `read_total`: everything a caller can run on an input *)
Theorem read_total :
  (forall bs, read_chunks rd bs <> Panic /\ forall cs f, read_chunks rd bs = Ok (cs, f) -> f <> FinPanic) /\
  (forall bs, raw_entries rd bs <> Panic /\ forall es f st, raw_entries rd bs = Ok (es, f, st) -> f <> FinPanic) /\
  (forall parts, read_parts rd parts <> Panic /\ forall es f, read_parts rd parts = Ok (es, f) -> f <> FinPanic) /\
  (forall s, next_raw_item rd s <> Panic).
Proof.
  split; [exact chunks_no_panic|]. split; [exact raw_entries_no_panic|]. split; [exact read_parts_no_panic|].
  intros s E. pose proof (next_raw_item_spec s) as H. rewrite E in H. exact H.
Qed.

(* the results do not depend on the fuel once it exceeds the input length *)
Lemma next_item_loop_fuel : forall f f' bs acc nxt, (length bs < f)%nat -> (length bs < f')%nat ->
  next_item_loop rd f bs acc nxt = next_item_loop rd f' bs acc nxt.
Proof.
  induction f as [|f IH]; intros f' bs acc nxt H H'; [lia|]. destruct f' as [|f']; [lia|].
  cbn [next_item_loop]. destruct (rd bs) as [[c r]|e|] eqn:E; cbn [bind]; try reflexivity.
  apply rd_short in E.
  destruct (ty_is c FEND || ty_is c SEND); [reflexivity|].
  destruct (ty_is c ANXT); [apply IH; lia|].
  destruct (ty_is c AEND); [reflexivity|]. apply IH; lia.
Qed.

Lemma raw_entries_loop_fuel : forall f f' s, (length (r_rest s) < f)%nat -> (length (r_rest s) < f')%nat ->
  raw_entries_loop rd f s = raw_entries_loop rd f' s.
Proof.
  induction f as [|f IH]; intros f' s H H'; [lia|]. destruct f' as [|f']; [lia|].
  cbn [raw_entries_loop]. pose proof (next_raw_item_spec s) as Hs.
  destruct (next_raw_item rd s) as [[[e|] s']|e|]; try reflexivity.
  destruct Hs as [Hs _]. rewrite (IH f' s') by lia. reflexivity.
Qed.
End Totality.

Definition read_no_panic := raw_entries_no_panic.

Theorem read_no_panic_stream bs :
  raw_entries read_chunk_stream bs <> Panic /\
  forall es f st, raw_entries read_chunk_stream bs = Ok (es, f, st) -> f <> FinPanic.
Proof. apply raw_entries_no_panic; [exact read_chunk_shorter|exact read_chunk_no_panic]. Qed.

Theorem read_no_panic_slice bs :
  raw_entries read_chunk_slice bs <> Panic /\
  forall es f st, raw_entries read_chunk_slice bs = Ok (es, f, st) -> f <> FinPanic.
Proof. apply raw_entries_no_panic; [exact read_chunk_shorter|exact read_chunk_no_panic]. Qed.

Definition read_total_stream := read_total read_chunk_stream read_chunk_shorter read_chunk_no_panic.
Definition read_total_slice := read_total read_chunk_slice read_chunk_shorter read_chunk_no_panic.

(* ================================================================================================= *)
(* 9. extensionality in the chunk parser (no functional-extensionality axiom)                         *)
(* ================================================================================================= *)
Section Ext.
Variables rd1 rd2 : reader.
Hypothesis rd_ext : forall bs, rd1 bs = rd2 bs.

Lemma chunks_iter_ext : forall fuel bs, chunks_iter rd1 fuel bs = chunks_iter rd2 fuel bs.
Proof.
  induction fuel as [|fuel IH]; intros bs; [reflexivity|]. cbn [chunks_iter]. rewrite rd_ext.
  destruct (rd2 bs) as [[c r]|e|]; try reflexivity. rewrite IH. reflexivity.
Qed.

Lemma read_chunks_ext bs : read_chunks rd1 bs = read_chunks rd2 bs.
Proof. unfold read_chunks. destruct (read_sig bs); cbn [bind]; try reflexivity. rewrite chunks_iter_ext. reflexivity. Qed.

Lemma next_item_loop_ext : forall fuel bs acc nxt,
  next_item_loop rd1 fuel bs acc nxt = next_item_loop rd2 fuel bs acc nxt.
Proof.
  induction fuel as [|fuel IH]; intros bs acc nxt; [reflexivity|]. cbn [next_item_loop]. rewrite rd_ext.
  destruct (rd2 bs) as [[c r]|e|]; cbn [bind]; try reflexivity. rewrite !IH. reflexivity.
Qed.

Lemma next_raw_item_ext s : next_raw_item rd1 s = next_raw_item rd2 s.
Proof. unfold next_raw_item. rewrite next_item_loop_ext. reflexivity. Qed.

Lemma raw_entries_loop_ext : forall fuel s, raw_entries_loop rd1 fuel s = raw_entries_loop rd2 fuel s.
Proof.
  induction fuel as [|fuel IH]; intros s; [reflexivity|]. cbn [raw_entries_loop]. rewrite next_raw_item_ext.
  destruct (next_raw_item rd2 s) as [[[e|] s']|e|]; try reflexivity. rewrite IH. reflexivity.
Qed.

Lemma read_header_ext bs : read_header rd1 bs = read_header rd2 bs.
Proof. unfold read_header. destruct (read_sig bs); cbn [bind]; try reflexivity. rewrite rd_ext. reflexivity. Qed.

Lemma open_archive_ext buf bs : open_archive rd1 buf bs = open_archive rd2 buf bs.
Proof. unfold open_archive. rewrite read_header_ext. reflexivity. Qed.

Lemma raw_entries_ext bs : raw_entries rd1 bs = raw_entries rd2 bs.
Proof.
  unfold raw_entries. rewrite open_archive_ext. destruct (open_archive rd2 [] bs); cbn [bind]; try reflexivity.
  rewrite raw_entries_loop_ext. reflexivity.
Qed.

Lemma read_next_archive_ext s bs : read_next_archive rd1 s bs = read_next_archive rd2 s bs.
Proof. unfold read_next_archive. rewrite open_archive_ext. reflexivity. Qed.

Lemma read_parts_loop_ext fo : forall parts s cur,
  read_parts_loop rd1 s fo parts cur = read_parts_loop rd2 s fo parts cur.
Proof.
  induction parts as [|p ps IH]; intros s cur; cbn [read_parts_loop]; rewrite raw_entries_loop_ext; [reflexivity|].
  destruct (raw_entries_loop rd2 cur s) as [[es e] s']. destruct e; try reflexivity.
  destruct (r_next s'); [|reflexivity]. rewrite read_next_archive_ext.
  destruct (read_next_archive rd2 s' p); try reflexivity. rewrite IH. reflexivity.
Qed.

Lemma read_parts_ext parts : read_parts rd1 parts = read_parts rd2 parts.
Proof.
  destruct parts as [|p ps]; cbn [read_parts]; [reflexivity|]. rewrite open_archive_ext.
  destruct (open_archive rd2 [] p); cbn [bind]; try reflexivity. rewrite read_parts_loop_ext. reflexivity.
Qed.
End Ext.

Theorem stream_slice_agree : forall bs,
  raw_entries read_chunk_slice bs = raw_entries read_chunk_stream bs /\ chunks_slice bs = chunks_stream bs.
Proof.
  intros bs. split; [apply raw_entries_ext | apply read_chunks_ext]; exact read_chunk_slice_eq.
Qed.

Theorem stream_slice_agree_parts : forall parts,
  read_parts read_chunk_slice parts = read_parts read_chunk_stream parts.
Proof. intros parts. apply read_parts_ext. exact read_chunk_slice_eq. Qed.

(* ================================================================================================= *)
(* 10. read . write = id at the raw-entry level                                                       *)
(* ================================================================================================= *)
Notation rds := read_chunk_stream.

Definition is_end (c : chunk) : bool := ty_is c FEND || ty_is c SEND.
Definition is_term (c : chunk) : bool := ty_is c FEND || ty_is c SEND || ty_is c ANXT || ty_is c AEND.

(* a raw entry as the reader delivers it: some chunks, none of them a terminator or an archive
   marker, closed by FEND or SEND *)
Definition wf_entry (cs : list chunk) : Prop :=
  exists body last, cs = body ++ [last] /\ is_end last = true /\
                    Forall wf_chunk cs /\ Forall (fun c => is_term c = false) body.

Lemma ser_chunks_nil : ser_chunks [] = [].
Proof. reflexivity. Qed.
Lemma ser_chunks_cons c cs : ser_chunks (c :: cs) = ser_chunk c ++ ser_chunks cs.
Proof. reflexivity. Qed.
Lemma ser_chunks_app a b : ser_chunks (a ++ b) = ser_chunks a ++ ser_chunks b.
Proof. unfold ser_chunks. rewrite map_app, concat_app. reflexivity. Qed.
Lemma ser_chunks_snoc a c : ser_chunks (a ++ [c]) = ser_chunks a ++ ser_chunk c.
Proof. rewrite ser_chunks_app, ser_chunks_cons, ser_chunks_nil, app_nil_r. reflexivity. Qed.

Lemma ser_chunk_length_ge c : (8 <= length (ser_chunk c))%nat.
Proof. unfold ser_chunk. rewrite !app_length, !be32_length. lia. Qed.

Lemma is_term_false c : is_term c = false ->
  (ty_is c FEND || ty_is c SEND) = false /\ ty_is c ANXT = false /\ ty_is c AEND = false.
Proof. unfold is_term. rewrite !orb_false_iff. intros [[[H1 H2] H3] H4]. rewrite H1, H2. auto. Qed.

Lemma wf_entry_inv e : wf_entry e -> exists body last, e = body ++ [last] /\ is_end last = true /\
  Forall wf_chunk body /\ wf_chunk last /\ Forall (fun c => is_term c = false) body.
Proof.
  intros (body & last & -> & He & Hw & Hb). exists body, last.
  apply Forall_app in Hw. destruct Hw as [Hw1 Hw2]. inversion Hw2; subst. auto 6.
Qed.

(* the item loop over one complete, well-formed entry *)
Lemma good_item last rest : wf_chunk last -> is_end last = true ->
  forall body fuel acc nxt, Forall wf_chunk body -> Forall (fun c => is_term c = false) body ->
  (length body < fuel)%nat ->
  next_item_loop rds fuel (ser_chunks body ++ ser_chunk last ++ rest) acc nxt =
  Ok (Some (acc ++ body ++ [last]), [], nxt, rest).
Proof.
  intros Hl He. induction body as [|c body IH]; intros fuel acc nxt Hw Hn Hf; (destruct fuel as [|fuel]; [cbn [length] in Hf; lia|]).
  - cbn [next_item_loop]. rewrite ser_chunks_nil. cbn [app]. rewrite read_chunk_ser by exact Hl. cbn [bind].
    unfold is_end in He. rewrite He. reflexivity.
  - inversion Hw as [|? ? Hc Hw']; subst. inversion Hn as [|? ? Hc' Hn']; subst.
    cbn [next_item_loop]. rewrite ser_chunks_cons, <- app_assoc. rewrite read_chunk_ser by exact Hc. cbn [bind].
    destruct (is_term_false c Hc') as (-> & -> & ->).
    rewrite IH by (try assumption; cbn [length] in Hf; lia). rewrite <- app_assoc. reflexivity.
Qed.

Lemma good_raw_item e rest s : wf_entry e -> r_rest s = ser_chunks e ++ rest -> r_buf s = [] ->
  next_raw_item rds s = Ok (Some e, {| r_rest := rest; r_buf := []; r_next := r_next s; r_hdr := r_hdr s |}).
Proof.
  intros He Hr Hb. apply wf_entry_inv in He. destruct He as (body & last & -> & He & Hw & Hl & Hn).
  unfold next_raw_item. rewrite Hr, Hb.
  rewrite (next_item_loop_fuel rds read_chunk_shorter read_chunk_no_panic _ (S (length (ser_chunks (body ++ [last]) ++ rest) + length body)))
    by lia.
  rewrite ser_chunks_snoc, <- app_assoc. rewrite (good_item last rest Hl He) by (try assumption; lia).
  cbn [bind app]. reflexivity.
Qed.

Lemma finalize_eq : finalize = ser_chunk (mk AEND []) ++ [].
Proof. unfold finalize. rewrite app_nil_r. reflexivity. Qed.

Lemma wf_chunk_aend : wf_chunk (mk AEND []).
Proof. split; [reflexivity|vm_compute; reflexivity]. Qed.

Lemma end_raw_item s : r_rest s = finalize -> r_buf s = [] ->
  next_raw_item rds s = Ok (None, {| r_rest := []; r_buf := []; r_next := r_next s; r_hdr := r_hdr s |}).
Proof.
  intros Hr Hb. unfold next_raw_item. rewrite Hr, Hb. cbn [next_item_loop].
  rewrite finalize_eq. rewrite read_chunk_ser by exact wf_chunk_aend. cbn [bind]. reflexivity.
Qed.

Definition ser_entries (es : list (list chunk)) : bytes := concat (map ser_chunks es).

Lemma ser_entries_cons e es : ser_entries (e :: es) = ser_chunks e ++ ser_entries es.
Proof. reflexivity. Qed.

Lemma add_chunks_fst e : fst (add_chunks e) = ser_chunks e.
Proof. reflexivity. Qed.

Lemma write_raw_archive_eq num es : write_raw_archive num es = write_header num ++ ser_entries es ++ finalize.
Proof. reflexivity. Qed.

Lemma good_loop : forall es fuel s, Forall wf_entry es -> r_rest s = ser_entries es ++ finalize -> r_buf s = [] ->
  (length es < fuel)%nat ->
  raw_entries_loop rds fuel s = (es, FinOk, {| r_rest := []; r_buf := []; r_next := r_next s; r_hdr := r_hdr s |}).
Proof.
  induction es as [|e es IH]; intros fuel s Hw Hr Hb Hf; (destruct fuel as [|fuel]; [cbn [length] in Hf; lia|]);
    cbn [raw_entries_loop].
  - rewrite end_raw_item by assumption. reflexivity.
  - inversion Hw as [|? ? He Hw']; subst. rewrite ser_entries_cons, <- app_assoc in Hr.
    rewrite (good_raw_item e _ s He Hr Hb).
    rewrite IH by (try assumption; try reflexivity; cbn [length] in Hf; lia). reflexivity.
Qed.

Definition hdr_chunk (num : N) : chunk := mk AHED (ahed_to_bytes {| a_major := 0; a_minor := 0; a_number := num |}).

Lemma wf_chunk_hdr num : wf_chunk (hdr_chunk num).
Proof. split; [reflexivity|]. unfold hdr_chunk, ahed_to_bytes, len. cbn [mk cdata]. rewrite app_length, be32_length. cbn. lia. Qed.

Lemma write_header_eq num : write_header num = sig ++ ser_chunk (hdr_chunk num).
Proof. reflexivity. Qed.

Lemma write_header_length num : length (write_header num) = 28%nat.
Proof.
  rewrite write_header_eq, app_length, ser_chunk_length by reflexivity.
  unfold hdr_chunk, ahed_to_bytes. cbn [mk cdata]. rewrite app_length, be32_length. reflexivity.
Qed.

Lemma open_written num buf rest : num < 2 ^ 32 ->
  open_archive rds buf (write_header num ++ rest) =
  Ok {| r_rest := rest; r_buf := buf; r_next := false; r_hdr := {| a_major := 0; a_minor := 0; a_number := num |} |}.
Proof.
  intros Hn. unfold open_archive, read_header. rewrite write_header_eq, <- app_assoc, read_sig_app. cbn [bind].
  rewrite read_chunk_ser by apply wf_chunk_hdr. cbn [bind].
  change (ty_is (hdr_chunk num) AHED) with true. cbn [negb].
  unfold hdr_chunk. cbn [mk cdata]. rewrite ahed_inv by (unfold wf_ahed; cbn; repeat split; lia || exact Hn).
  reflexivity.
Qed.

Lemma suffix_fuel {A} (a b : list A) k : (length b < S (length (a ++ b)) + k)%nat.
Proof. rewrite app_length. lia. Qed.

(* the prefix lemma: reading what the writer wrote gives the entries back and ends at AEND *)
Theorem read_written num es : num < 2 ^ 32 -> Forall wf_entry es ->
  raw_entries rds (write_raw_archive num es) =
  Ok (es, FinOk, {| r_rest := []; r_buf := []; r_next := false;
                    r_hdr := {| a_major := 0; a_minor := 0; a_number := num |} |}).
Proof.
  intros Hn Hw. unfold raw_entries. rewrite write_raw_archive_eq at 1. rewrite open_written by exact Hn. cbn [bind].
  rewrite (raw_entries_loop_fuel rds read_chunk_shorter read_chunk_no_panic _
             (S (length (write_raw_archive num es)) + length es)).
  - rewrite (good_loop es) by (try assumption; try reflexivity; lia). reflexivity.
  - cbn [r_rest]. rewrite write_raw_archive_eq, !app_length. lia.
  - cbn [r_rest]. rewrite write_raw_archive_eq, !app_length. lia.
Qed.

Corollary read_written_state num es : num < 2 ^ 32 -> Forall wf_entry es ->
  exists st, raw_entries rds (write_raw_archive num es) = Ok (es, FinOk, st) /\
             r_rest st = [] /\ r_buf st = [] /\ r_next st = false.
Proof. intros Hn Hw. eexists. split; [apply read_written; assumption|]. repeat split. Qed.

(* pass-through copy reproduces the archive byte for byte *)
Corollary raw_copy_exact num es : num < 2 ^ 32 -> Forall wf_entry es ->
  exists got st, raw_entries rds (write_raw_archive num es) = Ok (got, FinOk, st) /\
                 write_raw_archive num got = write_raw_archive num es.
Proof. intros Hn Hw. eexists _, _. split; [apply read_written; assumption|reflexivity]. Qed.

(* and for the slice reader *)
Corollary read_written_slice num es : num < 2 ^ 32 -> Forall wf_entry es ->
  raw_entries read_chunk_slice (write_raw_archive num es) =
  Ok (es, FinOk, {| r_rest := []; r_buf := []; r_next := false;
                    r_hdr := {| a_major := 0; a_minor := 0; a_number := num |} |}).
Proof. intros Hn Hw. rewrite (proj1 (stream_slice_agree _)). apply read_written; assumption. Qed.

(* ================================================================================================= *)
(* 11, 12. damaged archives: truncation and a single altered byte                                      *)
(* ================================================================================================= *)
(* number of entries that lie wholly before byte offset n (n counted from the first entry) *)
Fixpoint complete_within (es : list (list chunk)) (n : nat) : nat :=
  match es with
  | [] => 0
  | e :: r => let L := length (ser_chunks e) in
              if (L <=? n)%nat then S (complete_within r (n - L)) else 0
  end.
(* the same with n an offset into the archive file: signature + AHED chunk take 28 bytes *)
Definition entries_complete_within (num : N) (es : list (list chunk)) (n : nat) : nat :=
  complete_within es (n - 28)%nat.

(* Both kinds of damage are treated at once: `dmg bs n` damages `bs` at offset n such that the part
   before n is untouched and a chunk hit at an admissible inner offset makes the parser fail with `err`. *)
Section Damage.
Variable dmg : bytes -> nat -> bytes.
Variable good : nat -> bool.
Variable err : ekind.
Hypothesis dmg_app_r : forall A B n, (length A <= n)%nat -> dmg (A ++ B) n = A ++ dmg B (n - length A).
Hypothesis dmg_chunk : forall c rest n, wf_chunk c -> (n < length (ser_chunk c))%nat -> good n = true ->
  rds (dmg (ser_chunk c ++ rest) n) = Err err.

(* the offset falls into a chunk at an admissible inner offset *)
Fixpoint pos_ok (cs : list chunk) (n : nat) : bool :=
  match cs with
  | [] => true
  | c :: r => if (n <? length (ser_chunk c))%nat then good n else pos_ok r (n - length (ser_chunk c))
  end.

Lemma pos_ok_app_l a b : forall n, (n < length (ser_chunks a))%nat -> pos_ok (a ++ b) n = pos_ok a n.
Proof.
  induction a as [|c a IH]; intros n H; [cbn in H; lia|].
  cbn [app pos_ok]. destruct (Nat.ltb_spec n (length (ser_chunk c))); [reflexivity|].
  apply IH. rewrite ser_chunks_cons, app_length in H. lia.
Qed.

Lemma pos_ok_app_r a b : forall n, (length (ser_chunks a) <= n)%nat ->
  pos_ok (a ++ b) n = pos_ok b (n - length (ser_chunks a)).
Proof.
  induction a as [|c a IH]; intros n H.
  - cbn [app]. rewrite ser_chunks_nil. cbn [length]. rewrite Nat.sub_0_r. reflexivity.
  - rewrite ser_chunks_cons, app_length in *. cbn [app pos_ok].
    destruct (Nat.ltb_spec n (length (ser_chunk c))); [lia|].
    rewrite IH by lia. f_equal. lia.
Qed.

Lemma bad_item last rest : wf_chunk last ->
  forall body fuel acc nxt n, Forall wf_chunk body -> Forall (fun c => is_term c = false) body ->
  (n < length (ser_chunks body ++ ser_chunk last))%nat -> pos_ok (body ++ [last]) n = true ->
  (length body < fuel)%nat ->
  next_item_loop rds fuel (dmg (ser_chunks body ++ ser_chunk last ++ rest) n) acc nxt = Err err.
Proof.
  intros Hl. induction body as [|c body IH]; intros fuel acc nxt n Hw Hn Hlt Hp Hf;
    (destruct fuel as [|fuel]; [cbn [length] in Hf; lia|]); cbn [next_item_loop].
  - rewrite ser_chunks_nil in *. cbn [app pos_ok] in *.
    destruct (Nat.ltb_spec n (length (ser_chunk last))); [|lia].
    rewrite dmg_chunk by assumption. reflexivity.
  - inversion Hw as [|? ? Hc Hw']; subst. inversion Hn as [|? ? Hc' Hn']; subst.
    rewrite ser_chunks_cons, <- app_assoc. rewrite ser_chunks_cons, <- app_assoc, app_length in Hlt.
    cbn [app pos_ok] in Hp.
    destruct (Nat.ltb_spec n (length (ser_chunk c))).
    + rewrite dmg_chunk by assumption. reflexivity.
    + rewrite dmg_app_r by assumption. rewrite read_chunk_ser by exact Hc. cbn [bind].
      destruct (is_term_false c Hc') as (-> & -> & ->).
      apply IH; try assumption; [lia|cbn [length] in Hf; lia].
Qed.

Lemma bad_raw_item e rest s n : wf_entry e -> r_rest s = dmg (ser_chunks e ++ rest) n ->
  (n < length (ser_chunks e))%nat -> pos_ok e n = true -> next_raw_item rds s = Err err.
Proof.
  intros He Hr Hlt Hp. apply wf_entry_inv in He. destruct He as (body & last & -> & He & Hw & Hl & Hn).
  unfold next_raw_item. rewrite Hr.
  rewrite (next_item_loop_fuel rds read_chunk_shorter read_chunk_no_panic _
             (S (length (dmg (ser_chunks (body ++ [last]) ++ rest) n)) + length body)) by lia.
  rewrite ser_chunks_snoc in *. rewrite <- app_assoc.
  rewrite (bad_item last rest Hl) by (try assumption; lia). reflexivity.
Qed.

Lemma bad_end_item s n : r_rest s = dmg finalize n -> (n < length finalize)%nat -> good n = true ->
  next_raw_item rds s = Err err.
Proof.
  intros Hr Hlt Hg. unfold next_raw_item. rewrite Hr. cbn [next_item_loop].
  rewrite finalize_eq. rewrite dmg_chunk; [reflexivity|exact wf_chunk_aend| |exact Hg].
  rewrite finalize_eq, app_nil_r in Hlt. exact Hlt.
Qed.

Lemma bad_loop : forall es fuel s n, Forall wf_entry es -> r_buf s = [] ->
  r_rest s = dmg (ser_entries es ++ finalize) n -> (n < length (ser_entries es ++ finalize))%nat ->
  pos_ok (concat es ++ [mk AEND []]) n = true -> (length es < fuel)%nat ->
  exists s', raw_entries_loop rds fuel s = (firstn (complete_within es n) es, FinErr err, s').
Proof.
  induction es as [|e es IH]; intros fuel s n Hw Hb Hr Hlt Hp Hf;
    (destruct fuel as [|fuel]; [cbn [length] in Hf; lia|]); cbn [raw_entries_loop].
  - cbn [ser_entries map concat app] in *.
    rewrite (bad_end_item s n Hr Hlt).
    + exists s. reflexivity.
    + cbn [pos_ok] in Hp. change (ser_chunk (mk AEND [])) with finalize in Hp.
      destruct (Nat.ltb_spec n (length finalize)); [exact Hp|lia].
  - inversion Hw as [|? ? He Hw']; subst.
    rewrite ser_entries_cons, <- app_assoc in Hr, Hlt. rewrite app_length in Hlt.
    cbn [concat] in Hp. rewrite <- app_assoc in Hp.
    cbn [complete_within]. cbv zeta.
    destruct (Nat.leb_spec (length (ser_chunks e)) n) as [Hle|Hgt].
    + rewrite dmg_app_r in Hr by exact Hle. rewrite pos_ok_app_r in Hp by exact Hle.
      rewrite (good_raw_item e _ s He Hr Hb).
      destruct (IH fuel {| r_rest := dmg (ser_entries es ++ finalize) (n - length (ser_chunks e))%nat;
                           r_buf := []; r_next := r_next s; r_hdr := r_hdr s |} (n - length (ser_chunks e))%nat)
        as [s' Es']; try assumption; try reflexivity; [lia|cbn [length] in Hf; lia|].
      rewrite Es'. exists s'. reflexivity.
    + rewrite pos_ok_app_l in Hp by exact Hgt.
      rewrite (bad_raw_item e _ s n He Hr Hgt Hp). exists s. reflexivity.
Qed.

(* the damaged archive, for an offset behind the header *)
Lemma bad_archive num es n : num < 2 ^ 32 -> Forall wf_entry es ->
  (28 <= n < length (write_raw_archive num es))%nat ->
  pos_ok (concat es ++ [mk AEND []]) (n - 28)%nat = true ->
  exists st, raw_entries rds (dmg (write_raw_archive num es) n) =
             Ok (firstn (entries_complete_within num es n) es, FinErr err, st).
Proof.
  intros Hn Hw [H1 H2] Hp. unfold raw_entries.
  rewrite write_raw_archive_eq in *. rewrite app_length, write_header_length in H2.
  rewrite dmg_app_r by (rewrite write_header_length; exact H1). rewrite write_header_length.
  rewrite open_written by exact Hn. cbn [bind].
  set (s0 := {| r_rest := dmg (ser_entries es ++ finalize) (n - 28)%nat; r_buf := []; r_next := false;
                r_hdr := {| a_major := 0; a_minor := 0; a_number := num |} |}).
  set (F := S (length (write_header num ++ dmg (ser_entries es ++ finalize) (n - 28)%nat))).
  rewrite (raw_entries_loop_fuel rds read_chunk_shorter read_chunk_no_panic F (F + length es)%nat s0).
  - destruct (bad_loop es (F + length es)%nat s0 (n - 28)%nat) as [s' Es']; try assumption; try reflexivity; try lia.
    rewrite Es'. exists s'. reflexivity.
  - unfold F, s0. cbn [r_rest]. rewrite app_length. lia.
  - unfold F, s0. cbn [r_rest]. rewrite app_length. lia.
Qed.
End Damage.

(* ---- 11. truncation ------------------------------------------------------------------------------ *)
Lemma firstn_app_r {A} (a b : list A) n : (length a <= n)%nat -> firstn n (a ++ b) = a ++ firstn (n - length a) b.
Proof. intros H. rewrite firstn_app, firstn_all2 by exact H. reflexivity. Qed.

Lemma firstn_app_l {A} (a b : list A) n : (n <= length a)%nat -> firstn n (a ++ b) = firstn n a.
Proof.
  intros H. rewrite firstn_app. replace (n - length a)%nat with 0%nat by lia. cbn [firstn]. apply app_nil_r.
Qed.

Lemma trunc_chunk c rest n : wf_chunk c -> (n < length (ser_chunk c))%nat -> true = true ->
  rds (firstn n (ser_chunk c ++ rest)) = Err UnexpectedEof.
Proof. intros Hc Hn _. rewrite firstn_app_l by lia. apply read_chunk_trunc; assumption. Qed.

Lemma pos_ok_true cs : forall n, pos_ok (fun _ => true) cs n = true.
Proof. induction cs as [|c cs IH]; intros n; cbn [pos_ok]; [reflexivity|]. destruct (_ <? _)%nat; [reflexivity|apply IH]. Qed.

Lemma truncation_header num rest n : (n < 28)%nat ->
  raw_entries rds (firstn n (write_header num ++ rest)) = Err UnexpectedEof.
Proof.
  intros H. unfold raw_entries, open_archive, read_header.
  rewrite write_header_eq, <- app_assoc.
  destruct (Nat.lt_ge_cases n 8) as [H8|H8].
  - unfold read_sig. rewrite take_short; [reflexivity|]. rewrite firstn_length. lia.
  - rewrite firstn_app_r by exact H8. rewrite read_sig_app. cbn [bind].
    rewrite trunc_chunk; [reflexivity|apply wf_chunk_hdr| |reflexivity].
    change (length sig) with 8%nat.
    pose proof (write_header_length num) as L. rewrite write_header_eq, app_length in L.
    change (length sig) with 8%nat in L. lia.
Qed.

Lemma truncation_entries num es n : num < 2 ^ 32 -> Forall wf_entry es ->
  (28 <= n < length (write_raw_archive num es))%nat ->
  exists st, raw_entries rds (firstn n (write_raw_archive num es)) =
             Ok (firstn (entries_complete_within num es n) es, FinErr UnexpectedEof, st).
Proof.
  intros Hn Hw Hr.
  apply (bad_archive (fun bs n => firstn n bs) (fun _ => true) UnexpectedEof); try assumption.
  - intros A B k Hk. apply firstn_app_r. exact Hk.
  - exact trunc_chunk.
  - apply pos_ok_true.
Qed.

(* Iteration over a truncated archive ends with UnexpectedEof — never Ok, which only AEND produces —
   and yields exactly the entries that are complete *)
Theorem truncation num es n : Forall wf_entry es -> num < 2 ^ 32 ->
  (n < length (write_raw_archive num es))%nat ->
  match raw_entries rds (firstn n (write_raw_archive num es)) with
  | Err UnexpectedEof => (n < 28)%nat
  | Ok (got, FinErr UnexpectedEof, _) => (28 <= n)%nat /\ got = firstn (entries_complete_within num es n) es
  | _ => False
  end.
Proof.
  intros Hw Hn Hlt. destruct (Nat.lt_ge_cases n 28) as [H|H].
  - rewrite write_raw_archive_eq, truncation_header by exact H. exact H.
  - destruct (truncation_entries num es n Hn Hw (conj H Hlt)) as [st ->]. split; [exact H|reflexivity].
Qed.

(* ---- 12. one altered byte ------------------------------------------------------------------------- *)
(* the offset (counted from the first chunk) falls into the 4-byte length field of a chunk *)
Fixpoint in_len_field (cs : list chunk) (i : nat) : bool :=
  match cs with
  | [] => false
  | c :: r => if (i <? length (ser_chunk c))%nat then (i <? 4)%nat else in_len_field r (i - length (ser_chunk c))
  end.
Definition archive_chunks (num : N) (es : list (list chunk)) : list chunk :=
  hdr_chunk num :: concat es ++ [mk AEND []].
(* i an offset into the archive file: the chunks start behind the 8-byte signature *)
Definition in_length_field (num : N) (es : list (list chunk)) (i : nat) : bool :=
  in_len_field (archive_chunks num es) (i - 8)%nat.

Lemma ser_entries_concat es : ser_entries es = ser_chunks (concat es).
Proof.
  induction es as [|e es IH]; [reflexivity|]. rewrite ser_entries_cons, IH. cbn [concat]. rewrite ser_chunks_app. reflexivity.
Qed.

Lemma write_raw_archive_chunks num es : write_raw_archive num es = sig ++ ser_chunks (archive_chunks num es).
Proof.
  rewrite write_raw_archive_eq, write_header_eq. unfold archive_chunks.
  rewrite ser_chunks_cons, ser_chunks_snoc, ser_entries_concat, <- app_assoc. reflexivity.
Qed.

Lemma pos_ok_len_field cs : forall i, pos_ok (fun n => (4 <=? n)%nat) cs i = negb (in_len_field cs i).
Proof.
  induction cs as [|c cs IH]; intros i; cbn [pos_ok in_len_field]; [reflexivity|].
  destruct (_ <? length _)%nat; [|apply IH].
  destruct (Nat.leb_spec 4 i), (Nat.ltb_spec i 4); try reflexivity; lia.
Qed.

Section Alter.
Variable m : N.
Hypothesis m_range : 0 < m < 256.

Lemma alter_chunk c rest n : wf_chunk c -> (n < length (ser_chunk c))%nat -> (4 <=? n)%nat = true ->
  rds (xor_at (ser_chunk c ++ rest) n m) = Err InvalidData.
Proof. intros Hc Hn H4. apply Nat.leb_le in H4. apply read_chunk_altered; [exact Hc|lia|exact m_range]. Qed.

(* holds for every chunk parser: the signature check comes first *)
Theorem alter_signature (rd : reader) bs i : (i < 8)%nat ->
  raw_entries rd (xor_at (sig ++ bs) i m) = Err InvalidData.
Proof.
  intros H. unfold raw_entries, open_archive, read_header, read_sig.
  rewrite xor_at_app_l by exact H. rewrite take_app by (rewrite xor_at_length; reflexivity). cbn [bind].
  destruct (bytes_eqb (xor_at sig i m) sig) eqn:E; [|reflexivity].
  apply bytes_eqb_eq in E. exfalso. revert E. apply xor_at_neq; [exact H|exact m_range].
Qed.

Lemma alter_header num rest i : (12 <= i < 28)%nat ->
  raw_entries rds (xor_at (write_header num ++ rest) i m) = Err InvalidData.
Proof.
  intros [H1 H2]. unfold raw_entries, open_archive, read_header.
  rewrite write_header_eq, <- app_assoc. rewrite xor_at_app_r by (change (length sig) with 8%nat; lia).
  rewrite read_sig_app. cbn [bind]. change (length sig) with 8%nat.
  pose proof (write_header_length num) as L. rewrite write_header_eq, app_length in L.
  change (length sig) with 8%nat in L.
  rewrite read_chunk_altered; [reflexivity|apply wf_chunk_hdr|lia|exact m_range].
Qed.

Lemma alter_entries num es i : num < 2 ^ 32 -> Forall wf_entry es ->
  (28 <= i < length (write_raw_archive num es))%nat -> in_length_field num es i = false ->
  exists st, raw_entries rds (xor_at (write_raw_archive num es) i m) =
             Ok (firstn (entries_complete_within num es i) es, FinErr InvalidData, st).
Proof.
  intros Hn Hw Hr Hf.
  apply (bad_archive (fun bs n => xor_at bs n m) (fun n => (4 <=? n)%nat) InvalidData); try assumption.
  - intros A B k Hk. apply xor_at_app_r. exact Hk.
  - exact alter_chunk.
  - rewrite pos_ok_len_field. unfold in_length_field, archive_chunks in Hf. cbn [in_len_field] in Hf.
    pose proof (write_header_length num) as L. rewrite write_header_eq, app_length in L.
    change (length sig) with 8%nat in L.
    destruct (Nat.ltb_spec (i - 8)%nat (length (ser_chunk (hdr_chunk num)))); [lia|].
    replace (i - 28)%nat with (i - 8 - length (ser_chunk (hdr_chunk num)))%nat by lia.
    rewrite Hf. reflexivity.
Qed.
End Alter.

(* one altered byte anywhere behind the signature, outside the chunk length fields, is detected:
   the iteration ends with InvalidData and yields exactly the entries that lie wholly before it *)
Theorem alter_detected num es i m : Forall wf_entry es -> num < 2 ^ 32 -> 0 < m < 256 ->
  (8 <= i < length (write_raw_archive num es))%nat -> in_length_field num es i = false ->
  match raw_entries rds (xor_at (write_raw_archive num es) i m) with
  | Err InvalidData => (i < 28)%nat
  | Ok (got, FinErr InvalidData, _) => (28 <= i)%nat /\ got = firstn (entries_complete_within num es i) es
  | _ => False
  end.
Proof.
  intros Hw Hn Hm [H8 Hlt] Hf. destruct (Nat.lt_ge_cases i 28) as [H|H].
  - assert (12 <= i)%nat.
    { unfold in_length_field, archive_chunks in Hf. cbn [in_len_field] in Hf.
      pose proof (write_header_length num) as L. rewrite write_header_eq, app_length in L.
      change (length sig) with 8%nat in L.
      destruct (Nat.ltb_spec (i - 8)%nat (length (ser_chunk (hdr_chunk num)))); [|lia].
      destruct (Nat.ltb_spec (i - 8)%nat 4); [discriminate Hf|lia]. }
    rewrite write_raw_archive_eq, (alter_header m Hm) by lia. exact H.
  - destruct (alter_entries m Hm num es i Hn Hw (conj H Hlt) Hf) as [st ->]. split; [exact H|reflexivity].
Qed.

Theorem alter_signature_written num es i m : (i < 8)%nat -> 0 < m < 256 ->
  forall rd, raw_entries rd (xor_at (write_raw_archive num es) i m) = Err InvalidData.
Proof.
  intros H Hm rd. rewrite write_raw_archive_eq, write_header_eq, <- !app_assoc. apply alter_signature; assumption.
Qed.

(* ---- examples: a concrete two-entry archive ------------------------------------------------------- *)
Definition ex_e1 : list chunk := [mk FHED (lit "hdr1"); mk FDAT [xaa; xbb; xcc]; mk (T "zzZz") [x01]; mk FEND []].
Definition ex_e2 : list chunk := [mk SHED (lit "hdr2"); mk SDAT []; mk SEND []].
Definition ex_arch : bytes := write_raw_archive 7 [ex_e1; ex_e2].

Example ex_wf : Forall wf_entry [ex_e1; ex_e2].
Proof.
  repeat constructor.
  - exists [mk FHED (lit "hdr1"); mk FDAT [xaa; xbb; xcc]; mk (T "zzZz") [x01]], (mk FEND []).
    repeat split; repeat constructor; vm_compute; reflexivity.
  - exists [mk SHED (lit "hdr2"); mk SDAT []], (mk SEND []).
    repeat split; repeat constructor; vm_compute; reflexivity.
Qed.

Example ex_arch_length : length ex_arch = (28 + 56 + 40 + 12)%nat.
Proof. vm_compute. reflexivity. Qed.

Example ex_read : exists st, raw_entries rds ex_arch = Ok ([ex_e1; ex_e2], FinOk, st).
Proof. eexists. vm_compute. reflexivity. Qed.

(* cut inside the second entry: the first entry comes out, then UnexpectedEof *)
Example ex_trunc : entries_complete_within 7 [ex_e1; ex_e2] 120 = 1%nat /\
  exists st, raw_entries rds (firstn 120 ex_arch) = Ok ([ex_e1], FinErr UnexpectedEof, st).
Proof. split; [vm_compute; reflexivity|]. eexists. vm_compute. reflexivity. Qed.

(* cut exactly behind the last entry (AEND missing): both entries, still UnexpectedEof, not Ok *)
Example ex_trunc_no_aend : exists st,
  raw_entries rds (firstn 124 ex_arch) = Ok ([ex_e1; ex_e2], FinErr UnexpectedEof, st).
Proof. eexists. vm_compute. reflexivity. Qed.

Example ex_trunc_header : raw_entries rds (firstn 27 ex_arch) = Err UnexpectedEof.
Proof. vm_compute. reflexivity. Qed.

(* byte 105 lies in the type field of the second entry's second chunk: first entry, then InvalidData *)
Example ex_alter : in_length_field 7 [ex_e1; ex_e2] 105 = false /\
  exists st, raw_entries rds (xor_at ex_arch 105 1) = Ok ([ex_e1], FinErr InvalidData, st).
Proof. split; [vm_compute; reflexivity|]. eexists. vm_compute. reflexivity. Qed.

Example ex_alter_aend : in_length_field 7 [ex_e1; ex_e2] 129 = false /\
  exists st, raw_entries rds (xor_at ex_arch 129 255) = Ok ([ex_e1; ex_e2], FinErr InvalidData, st).
Proof. split; [vm_compute; reflexivity|]. eexists. vm_compute. reflexivity. Qed.

Example ex_alter_sig : raw_entries rds (xor_at ex_arch 3 1) = Err InvalidData.
Proof. vm_compute. reflexivity. Qed.

Example ex_len_field : in_length_field 7 [ex_e1; ex_e2] 84 = true /\ in_length_field 7 [ex_e1; ex_e2] 87 = true /\
                       in_length_field 7 [ex_e1; ex_e2] 88 = false /\ in_length_field 7 [ex_e1; ex_e2] 8 = true.
Proof. vm_compute. repeat split; reflexivity. Qed.
