(* ArchiveFacts.v — the archive reader and writer at the raw-entry level (Model/Archive.v):
   totality with the fuel the model supplies, extensionality in the chunk parser (so the stream
   and slice readers agree), read . write = id (pass-through reproduces the archive byte for byte),
   truncation and alteration are detected and yield exactly the entries that were complete. *)
From PNA Require Import Base Crc32 Codec Chunk Archive BaseFacts Crc32Facts CodecFacts ChunkFacts.
Require Import ZArith ZifyN ZifyNat ZifyBool.
Open Scope N_scope.

(* ---- small facts about the fixed parts ---------------------------------------------------------- *)
Lemma ahed_of_bytes_np bs : ahed_of_bytes bs <> Panic.
Proof. unfold ahed_of_bytes. do 9 (destruct bs as [|? bs]; try discriminate). Qed.

Lemma read_sig_cases bs :
  read_sig bs = Err UnexpectedEof \/ read_sig bs = Err InvalidData \/ exists r, read_sig bs = Ok r /\ bs = sig ++ r.
Proof.
  unfold read_sig. destruct (take_cases 8 bs) as [(h & r & E)| ->]; [|left; reflexivity].
  rewrite E. cbn [bind]. apply take_ok in E. destruct E as [-> _].
  destruct (bytes_eqb h sig) eqn:Eh; [|right; left; reflexivity].
  apply bytes_eqb_eq in Eh. subst h. right; right. exists r. split; reflexivity.
Qed.

Lemma read_sig_app r : read_sig (sig ++ r) = Ok r.
Proof. unfold read_sig. rewrite take_app by reflexivity. cbn [bind]. reflexivity. Qed.

(* ================================================================================================= *)
(* 8. totality: no Panic / FinPanic with the fuel the model gives                                      *)
(* ================================================================================================= *)
Section Totality.
Variable rd : reader.
Hypothesis rd_short : forall bs c r, rd bs = Ok (c, r) -> (length r < length bs)%nat.
Hypothesis rd_np : forall bs, rd bs <> Panic.

Lemma chunks_iter_np : forall fuel bs, (length bs < fuel)%nat -> snd (chunks_iter rd fuel bs) <> FinPanic.
Proof.
  induction fuel as [|fuel IH]; intros bs H; [lia|]. cbn [chunks_iter].
  destruct (rd bs) as [[c r]|e|] eqn:E.
  - destruct (ty_is c AEND); [cbn [snd]; discriminate|].
    specialize (IH r). destruct (chunks_iter rd fuel r) as [cs e]. cbn [snd] in *.
    apply IH. apply rd_short in E. lia.
  - cbn [snd]. discriminate.
  - exfalso. exact (rd_np bs E).
Qed.

Lemma chunks_no_panic bs :
  read_chunks rd bs <> Panic /\ forall cs f, read_chunks rd bs = Ok (cs, f) -> f <> FinPanic.
Proof.
  unfold read_chunks.
  destruct (read_sig_cases bs) as [-> | [-> | (r & -> & _)]]; cbn [bind];
    [split; [discriminate|intros ? ? [=]] | split; [discriminate|intros ? ? [=]] |].
  pose proof (chunks_iter_np (S (length r)) r (Nat.lt_succ_diag_r _)) as H.
  destruct (chunks_iter rd (S (length r)) r) as [cs0 f0]. cbn [snd] in H.
  split; [discriminate|]. intros cs f [= <- <-]. exact H.
Qed.

(* one raw item: never Panic, and a successful call consumes input *)
Lemma next_item_loop_spec : forall fuel bs acc nxt, (length bs < fuel)%nat ->
  match next_item_loop rd fuel bs acc nxt with
  | Ok (_, _, _, r) => (length r < length bs)%nat
  | Err _ => True
  | Panic => False
  end.
Proof.
  induction fuel as [|fuel IH]; intros bs acc nxt H; [lia|]. cbn [next_item_loop].
  destruct (rd bs) as [[c r]|e|] eqn:E; cbn [bind]; [| exact I | exact (rd_np bs E)].
  apply rd_short in E.
  destruct (ty_is c FEND || ty_is c SEND); [exact E|].
  destruct (ty_is c ANXT).
  { specialize (IH r acc true). destruct (next_item_loop rd fuel r acc true) as [[[[o b] n] r']| |]; try apply IH; lia. }
  destruct (ty_is c AEND); [exact E|].
  specialize (IH r (acc ++ [c]) nxt). destruct (next_item_loop rd fuel r (acc ++ [c]) nxt) as [[[[o b] n] r']| |]; try apply IH; lia.
Qed.

Lemma next_raw_item_spec s :
  match next_raw_item rd s with
  | Ok (_, s') => (length (r_rest s') < length (r_rest s))%nat /\ r_hdr s' = r_hdr s
  | Err _ => True
  | Panic => False
  end.
Proof.
  unfold next_raw_item.
  pose proof (next_item_loop_spec (S (length (r_rest s))) (r_rest s) (r_buf s) (r_next s) (Nat.lt_succ_diag_r _)) as H.
  destruct (next_item_loop rd (S (length (r_rest s))) (r_rest s) (r_buf s) (r_next s)) as [[[[o b] n] r']| |];
    cbn [bind]; [|exact I|exact H].
  cbn [r_rest r_hdr]. split; [exact H|reflexivity].
Qed.

Lemma raw_entries_loop_np : forall fuel s, (length (r_rest s) < fuel)%nat ->
  snd (fst (raw_entries_loop rd fuel s)) <> FinPanic.
Proof.
  induction fuel as [|fuel IH]; intros s H; [lia|]. cbn [raw_entries_loop].
  pose proof (next_raw_item_spec s) as Hs.
  destruct (next_raw_item rd s) as [[[e|] s']|e|]; [| | |contradiction]; try (cbn [fst snd]; discriminate).
  destruct Hs as [Hs _]. specialize (IH s'). destruct (raw_entries_loop rd fuel s') as [[es e'] s''].
  cbn [fst snd] in *. apply IH. lia.
Qed.

Lemma read_header_spec bs :
  match read_header rd bs with
  | Ok (_, r) => (length r < length bs)%nat
  | Err _ => True
  | Panic => False
  end.
Proof.
  unfold read_header.
  destruct (read_sig_cases bs) as [-> | [-> | (r & -> & ->)]]; cbn [bind]; try exact I.
  destruct (rd r) as [[c r']|e|] eqn:E; cbn [bind]; [|exact I|exact (rd_np r E)].
  destruct (negb (ty_is c AHED)); [exact I|].
  pose proof (ahed_of_bytes_np (cdata c)) as Hn.
  destruct (ahed_of_bytes (cdata c)); cbn [bind]; [|exact I|contradiction].
  apply rd_short in E. rewrite app_length. lia.
Qed.

Lemma open_archive_spec buf bs :
  match open_archive rd buf bs with
  | Ok s => (length (r_rest s) < length bs)%nat /\ r_buf s = buf /\ r_next s = false
  | Err _ => True
  | Panic => False
  end.
Proof.
  unfold open_archive. pose proof (read_header_spec bs) as H.
  destruct (read_header rd bs) as [[h r]|e|]; cbn [bind]; [|exact I|exact H].
  cbn [r_rest r_buf r_next]. auto.
Qed.

(* `read_no_panic` *)
Lemma raw_entries_no_panic bs :
  raw_entries rd bs <> Panic /\ forall es f st, raw_entries rd bs = Ok (es, f, st) -> f <> FinPanic.
Proof.
  unfold raw_entries. pose proof (open_archive_spec [] bs) as H.
  destruct (open_archive rd [] bs) as [s|e|]; cbn [bind]; [| split; [discriminate|intros ? ? ? [=]] | contradiction].
  destruct H as [H _].
  pose proof (raw_entries_loop_np (S (length bs)) s) as Hn.
  destruct (raw_entries_loop rd (S (length bs)) s) as [[es0 f0] st0]. cbn [fst snd] in Hn.
  split; [discriminate|]. intros es f st [= <- <- <-]. apply Hn. lia.
Qed.

Lemma read_next_archive_spec s bs :
  match read_next_archive rd s bs with
  | Ok s' => (length (r_rest s') < length bs)%nat
  | Err _ => True
  | Panic => False
  end.
Proof.
  unfold read_next_archive. pose proof (open_archive_spec (r_buf s) bs) as H.
  destruct (open_archive rd (r_buf s) bs) as [s'|e|]; cbn [bind]; [|exact I|exact H].
  destruct (_ && _); [apply H|exact I].
Qed.

Lemma read_parts_loop_np : forall parts s cur_fuel, (length (r_rest s) < cur_fuel)%nat ->
  snd (read_parts_loop rd s (fun b => S (length b)) parts cur_fuel) <> FinPanic.
Proof.
  induction parts as [|p ps IH]; intros s cur H; cbn [read_parts_loop];
    pose proof (raw_entries_loop_np cur s H) as Hn;
    destruct (raw_entries_loop rd cur s) as [[es e] s']; cbn [fst snd] in Hn;
    destruct e as [|k|]; try contradiction; try (cbn [snd]; discriminate);
    destruct (r_next s'); try (cbn [snd]; discriminate).
  pose proof (read_next_archive_spec s' p) as Hp.
  destruct (read_next_archive rd s' p) as [s2|k|]; [|cbn [snd]; discriminate|contradiction].
  specialize (IH s2 (S (length p))).
  destruct (read_parts_loop rd s2 (fun b => S (length b)) ps (S (length p))) as [es2 e2].
  cbn [snd] in *. apply IH. lia.
Qed.

Lemma read_parts_no_panic parts :
  read_parts rd parts <> Panic /\ forall es f, read_parts rd parts = Ok (es, f) -> f <> FinPanic.
Proof.
  destruct parts as [|p ps]; cbn [read_parts]; [split; [discriminate|intros ? ? [=]]|].
  pose proof (open_archive_spec [] p) as H.
  destruct (open_archive rd [] p) as [s|e|]; cbn [bind]; [| split; [discriminate|intros ? ? [=]] | contradiction].
  pose proof (read_parts_loop_np ps s (S (length p))) as Hn.
  destruct (read_parts_loop rd s (fun b => S (length b)) ps (S (length p))) as [es0 f0]. cbn [snd] in Hn.
  split; [discriminate|]. intros es f [= <- <-]. apply Hn. lia.
Qed.

(* `read_total`: everything a caller can run on an input *)
Theorem read_total :
  (forall bs, read_chunks rd bs <> Panic /\ forall cs f, read_chunks rd bs = Ok (cs, f) -> f <> FinPanic) /\
  (forall bs, raw_entries rd bs <> Panic /\ forall es f st, raw_entries rd bs = Ok (es, f, st) -> f <> FinPanic) /\
  (forall parts, read_parts rd parts <> Panic /\ forall es f, read_parts rd parts = Ok (es, f) -> f <> FinPanic) /\
  (forall s, next_raw_item rd s <> Panic).
Proof.
  split; [exact chunks_no_panic|]. split; [exact raw_entries_no_panic|]. split; [exact read_parts_no_panic|].
  intros s E. pose proof (next_raw_item_spec s) as H. rewrite E in H. exact H.
Qed.

(* the results do not depend on the fuel once it exceeds the input length *)
Lemma next_item_loop_fuel : forall f f' bs acc nxt, (length bs < f)%nat -> (length bs < f')%nat ->
  next_item_loop rd f bs acc nxt = next_item_loop rd f' bs acc nxt.
Proof.
  induction f as [|f IH]; intros f' bs acc nxt H H'; [lia|]. destruct f' as [|f']; [lia|].
  cbn [next_item_loop]. destruct (rd bs) as [[c r]|e|] eqn:E; cbn [bind]; try reflexivity.
  apply rd_short in E.
  destruct (ty_is c FEND || ty_is c SEND); [reflexivity|].
  destruct (ty_is c ANXT); [apply IH; lia|].
  destruct (ty_is c AEND); [reflexivity|]. apply IH; lia.
Qed.

Lemma raw_entries_loop_fuel : forall f f' s, (length (r_rest s) < f)%nat -> (length (r_rest s) < f')%nat ->
  raw_entries_loop rd f s = raw_entries_loop rd f' s.
Proof.
  induction f as [|f IH]; intros f' s H H'; [lia|]. destruct f' as [|f']; [lia|].
  cbn [raw_entries_loop]. pose proof (next_raw_item_spec s) as Hs.
  destruct (next_raw_item rd s) as [[[e|] s']|e|]; try reflexivity.
  destruct Hs as [Hs _]. rewrite (IH f' s') by lia. reflexivity.
Qed.
End Totality.

Definition read_no_panic := raw_entries_no_panic.

Theorem read_no_panic_stream bs :
  raw_entries read_chunk_stream bs <> Panic /\
  forall es f st, raw_entries read_chunk_stream bs = Ok (es, f, st) -> f <> FinPanic.
Proof. apply raw_entries_no_panic; [exact read_chunk_shorter|exact read_chunk_no_panic]. Qed.

Theorem read_no_panic_slice bs :
  raw_entries read_chunk_slice bs <> Panic /\
  forall es f st, raw_entries read_chunk_slice bs = Ok (es, f, st) -> f <> FinPanic.
Proof. apply raw_entries_no_panic; [exact read_chunk_shorter|exact read_chunk_no_panic]. Qed.

Definition read_total_stream := read_total read_chunk_stream read_chunk_shorter read_chunk_no_panic.
Definition read_total_slice := read_total read_chunk_slice read_chunk_shorter read_chunk_no_panic.

(* ================================================================================================= *)
(* 9. extensionality in the chunk parser (no functional-extensionality axiom)                         *)
(* ================================================================================================= *)
Section Ext.
Variables rd1 rd2 : reader.
Hypothesis rd_ext : forall bs, rd1 bs = rd2 bs.

Lemma chunks_iter_ext : forall fuel bs, chunks_iter rd1 fuel bs = chunks_iter rd2 fuel bs.
Proof.
  induction fuel as [|fuel IH]; intros bs; [reflexivity|]. cbn [chunks_iter]. rewrite rd_ext.
  destruct (rd2 bs) as [[c r]|e|]; try reflexivity. rewrite IH. reflexivity.
Qed.

Lemma read_chunks_ext bs : read_chunks rd1 bs = read_chunks rd2 bs.
Proof. unfold read_chunks. destruct (read_sig bs); cbn [bind]; try reflexivity. rewrite chunks_iter_ext. reflexivity. Qed.

Lemma next_item_loop_ext : forall fuel bs acc nxt,
  next_item_loop rd1 fuel bs acc nxt = next_item_loop rd2 fuel bs acc nxt.
Proof.
  induction fuel as [|fuel IH]; intros bs acc nxt; [reflexivity|]. cbn [next_item_loop]. rewrite rd_ext.
  destruct (rd2 bs) as [[c r]|e|]; cbn [bind]; try reflexivity. rewrite !IH. reflexivity.
Qed.

Lemma next_raw_item_ext s : next_raw_item rd1 s = next_raw_item rd2 s.
Proof. unfold next_raw_item. rewrite next_item_loop_ext. reflexivity. Qed.

Lemma raw_entries_loop_ext : forall fuel s, raw_entries_loop rd1 fuel s = raw_entries_loop rd2 fuel s.
Proof.
  induction fuel as [|fuel IH]; intros s; [reflexivity|]. cbn [raw_entries_loop]. rewrite next_raw_item_ext.
  destruct (next_raw_item rd2 s) as [[[e|] s']|e|]; try reflexivity. rewrite IH. reflexivity.
Qed.

Lemma read_header_ext bs : read_header rd1 bs = read_header rd2 bs.
Proof. unfold read_header. destruct (read_sig bs); cbn [bind]; try reflexivity. rewrite rd_ext. reflexivity. Qed.

Lemma open_archive_ext buf bs : open_archive rd1 buf bs = open_archive rd2 buf bs.
Proof. unfold open_archive. rewrite read_header_ext. reflexivity. Qed.

Lemma raw_entries_ext bs : raw_entries rd1 bs = raw_entries rd2 bs.
Proof.
  unfold raw_entries. rewrite open_archive_ext. destruct (open_archive rd2 [] bs); cbn [bind]; try reflexivity.
  rewrite raw_entries_loop_ext. reflexivity.
Qed.

Lemma read_next_archive_ext s bs : read_next_archive rd1 s bs = read_next_archive rd2 s bs.
Proof. unfold read_next_archive. rewrite open_archive_ext. reflexivity. Qed.

Lemma read_parts_loop_ext fo : forall parts s cur,
  read_parts_loop rd1 s fo parts cur = read_parts_loop rd2 s fo parts cur.
Proof.
  induction parts as [|p ps IH]; intros s cur; cbn [read_parts_loop]; rewrite raw_entries_loop_ext; [reflexivity|].
  destruct (raw_entries_loop rd2 cur s) as [[es e] s']. destruct e; try reflexivity.
  destruct (r_next s'); [|reflexivity]. rewrite read_next_archive_ext.
  destruct (read_next_archive rd2 s' p); try reflexivity. rewrite IH. reflexivity.
Qed.

Lemma read_parts_ext parts : read_parts rd1 parts = read_parts rd2 parts.
Proof.
  destruct parts as [|p ps]; cbn [read_parts]; [reflexivity|]. rewrite open_archive_ext.
  destruct (open_archive rd2 [] p); cbn [bind]; try reflexivity. rewrite read_parts_loop_ext. reflexivity.
Qed.
End Ext.

Theorem stream_slice_agree : forall bs,
  raw_entries read_chunk_slice bs = raw_entries read_chunk_stream bs /\ chunks_slice bs = chunks_stream bs.
Proof.
  intros bs. split; [apply raw_entries_ext | apply read_chunks_ext]; exact read_chunk_slice_eq.
Qed.

Theorem stream_slice_agree_parts : forall parts,
  read_parts read_chunk_slice parts = read_parts read_chunk_stream parts.
Proof. intros parts. apply read_parts_ext. exact read_chunk_slice_eq. Qed.

(* ================================================================================================= *)
(* 10. read . write = id at the raw-entry level                                                       *)
(* ================================================================================================= *)
Notation rds := read_chunk_stream.

Definition is_end (c : chunk) : bool := ty_is c FEND || ty_is c SEND.
Definition is_term (c : chunk) : bool := ty_is c FEND || ty_is c SEND || ty_is c ANXT || ty_is c AEND.

(* a raw entry as the reader delivers it: some chunks, none of them a terminator or an archive
   marker, closed by FEND or SEND *)
Definition wf_entry (cs : list chunk) : Prop :=
  exists body last, cs = body ++ [last] /\ is_end last = true /\
                    Forall wf_chunk cs /\ Forall (fun c => is_term c = false) body.

Lemma ser_chunks_nil : ser_chunks [] = [].
Proof. reflexivity. Qed.
Lemma ser_chunks_cons c cs : ser_chunks (c :: cs) = ser_chunk c ++ ser_chunks cs.
Proof. reflexivity. Qed.
Lemma ser_chunks_app a b : ser_chunks (a ++ b) = ser_chunks a ++ ser_chunks b.
Proof. unfold ser_chunks. rewrite map_app, concat_app. reflexivity. Qed.
Lemma ser_chunks_snoc a c : ser_chunks (a ++ [c]) = ser_chunks a ++ ser_chunk c.
Proof. rewrite ser_chunks_app, ser_chunks_cons, ser_chunks_nil, app_nil_r. reflexivity. Qed.

Lemma ser_chunk_length_ge c : (8 <= length (ser_chunk c))%nat.
Proof. unfold ser_chunk. rewrite !app_length, !be32_length. lia. Qed.

Lemma is_term_false c : is_term c = false ->
  (ty_is c FEND || ty_is c SEND) = false /\ ty_is c ANXT = false /\ ty_is c AEND = false.
Proof. unfold is_term. rewrite !orb_false_iff. intros [[[H1 H2] H3] H4]. rewrite H1, H2. auto. Qed.

Lemma wf_entry_inv e : wf_entry e -> exists body last, e = body ++ [last] /\ is_end last = true /\
  Forall wf_chunk body /\ wf_chunk last /\ Forall (fun c => is_term c = false) body.
Proof.
  intros (body & last & -> & He & Hw & Hb). exists body, last.
  apply Forall_app in Hw. destruct Hw as [Hw1 Hw2]. inversion Hw2; subst. auto 6.
Qed.

(* the item loop over one complete, well-formed entry *)
Lemma good_item last rest : wf_chunk last -> is_end last = true ->
  forall body fuel acc nxt, Forall wf_chunk body -> Forall (fun c => is_term c = false) body ->
  (length body < fuel)%nat ->
  next_item_loop rds fuel (ser_chunks body ++ ser_chunk last ++ rest) acc nxt =
  Ok (Some (acc ++ body ++ [last]), [], nxt, rest).
Proof.
  intros Hl He. induction body as [|c body IH]; intros fuel acc nxt Hw Hn Hf; (destruct fuel as [|fuel]; [cbn [length] in Hf; lia|]).
  - cbn [next_item_loop]. rewrite ser_chunks_nil. cbn [app]. rewrite read_chunk_ser by exact Hl. cbn [bind].
    unfold is_end in He. rewrite He. reflexivity.
  - inversion Hw as [|? ? Hc Hw']; subst. inversion Hn as [|? ? Hc' Hn']; subst.
    cbn [next_item_loop]. rewrite ser_chunks_cons, <- app_assoc. rewrite read_chunk_ser by exact Hc. cbn [bind].
    destruct (is_term_false c Hc') as (-> & -> & ->).
    rewrite IH by (try assumption; cbn [length] in Hf; lia). rewrite <- app_assoc. reflexivity.
Qed.

Lemma good_raw_item e rest s : wf_entry e -> r_rest s = ser_chunks e ++ rest -> r_buf s = [] ->
  next_raw_item rds s = Ok (Some e, {| r_rest := rest; r_buf := []; r_next := r_next s; r_hdr := r_hdr s |}).
Proof.
  intros He Hr Hb. apply wf_entry_inv in He. destruct He as (body & last & -> & He & Hw & Hl & Hn).
  unfold next_raw_item. rewrite Hr, Hb.
  rewrite (next_item_loop_fuel rds read_chunk_shorter read_chunk_no_panic _ (S (length (ser_chunks (body ++ [last]) ++ rest) + length body)))
    by lia.
  rewrite ser_chunks_snoc, <- app_assoc. rewrite (good_item last rest Hl He) by (try assumption; lia).
  cbn [bind app]. reflexivity.
Qed.

Lemma finalize_eq : finalize = ser_chunk (mk AEND []) ++ [].
Proof. unfold finalize. rewrite app_nil_r. reflexivity. Qed.

Lemma wf_chunk_aend : wf_chunk (mk AEND []).
Proof. split; [reflexivity|vm_compute; reflexivity]. Qed.

Lemma end_raw_item s : r_rest s = finalize -> r_buf s = [] ->
  next_raw_item rds s = Ok (None, {| r_rest := []; r_buf := []; r_next := r_next s; r_hdr := r_hdr s |}).
Proof.
  intros Hr Hb. unfold next_raw_item. rewrite Hr, Hb. cbn [next_item_loop].
  rewrite finalize_eq. rewrite read_chunk_ser by exact wf_chunk_aend. cbn [bind]. reflexivity.
Qed.

Definition ser_entries (es : list (list chunk)) : bytes := concat (map ser_chunks es).

Lemma ser_entries_cons e es : ser_entries (e :: es) = ser_chunks e ++ ser_entries es.
Proof. reflexivity. Qed.

Lemma add_chunks_fst e : fst (add_chunks e) = ser_chunks e.
Proof. reflexivity. Qed.

Lemma write_raw_archive_eq num es : write_raw_archive num es = write_header num ++ ser_entries es ++ finalize.
Proof. reflexivity. Qed.

Lemma good_loop : forall es fuel s, Forall wf_entry es -> r_rest s = ser_entries es ++ finalize -> r_buf s = [] ->
  (length es < fuel)%nat ->
  raw_entries_loop rds fuel s = (es, FinOk, {| r_rest := []; r_buf := []; r_next := r_next s; r_hdr := r_hdr s |}).
Proof.
  induction es as [|e es IH]; intros fuel s Hw Hr Hb Hf; (destruct fuel as [|fuel]; [cbn [length] in Hf; lia|]);
    cbn [raw_entries_loop].
  - rewrite end_raw_item by assumption. reflexivity.
  - inversion Hw as [|? ? He Hw']; subst. rewrite ser_entries_cons, <- app_assoc in Hr.
    rewrite (good_raw_item e _ s He Hr Hb).
    rewrite IH by (try assumption; try reflexivity; cbn [length] in Hf; lia). reflexivity.
Qed.

Definition hdr_chunk (num : N) : chunk := mk AHED (ahed_to_bytes {| a_major := 0; a_minor := 0; a_number := num |}).

Lemma wf_chunk_hdr num : wf_chunk (hdr_chunk num).
Proof. split; [reflexivity|]. unfold hdr_chunk, ahed_to_bytes, len. cbn [mk cdata]. rewrite app_length, be32_length. cbn. lia. Qed.

Lemma write_header_eq num : write_header num = sig ++ ser_chunk (hdr_chunk num).
Proof. reflexivity. Qed.

Lemma write_header_length num : length (write_header num) = 28%nat.
Proof.
  rewrite write_header_eq, app_length, ser_chunk_length by reflexivity.
  unfold hdr_chunk, ahed_to_bytes. cbn [mk cdata]. rewrite app_length, be32_length. reflexivity.
Qed.

Lemma open_written num buf rest : num < 2 ^ 32 ->
  open_archive rds buf (write_header num ++ rest) =
  Ok {| r_rest := rest; r_buf := buf; r_next := false; r_hdr := {| a_major := 0; a_minor := 0; a_number := num |} |}.
Proof.
  intros Hn. unfold open_archive, read_header. rewrite write_header_eq, <- app_assoc, read_sig_app. cbn [bind].
  rewrite read_chunk_ser by apply wf_chunk_hdr. cbn [bind].
  change (ty_is (hdr_chunk num) AHED) with true. cbn [negb].
  unfold hdr_chunk. cbn [mk cdata]. rewrite ahed_inv by (unfold wf_ahed; cbn; repeat split; lia || exact Hn).
  reflexivity.
Qed.

Lemma suffix_fuel {A} (a b : list A) k : (length b < S (length (a ++ b)) + k)%nat.
Proof. rewrite app_length. lia. Qed.

(* the prefix lemma: reading what the writer wrote gives the entries back and ends at AEND *)
Theorem read_written num es : num < 2 ^ 32 -> Forall wf_entry es ->
  raw_entries rds (write_raw_archive num es) =
  Ok (es, FinOk, {| r_rest := []; r_buf := []; r_next := false;
                    r_hdr := {| a_major := 0; a_minor := 0; a_number := num |} |}).
Proof.
  intros Hn Hw. unfold raw_entries. rewrite write_raw_archive_eq at 1. rewrite open_written by exact Hn. cbn [bind].
  rewrite (raw_entries_loop_fuel rds read_chunk_shorter read_chunk_no_panic _
             (S (length (write_raw_archive num es)) + length es)).
  - rewrite (good_loop es) by (try assumption; try reflexivity; lia). reflexivity.
  - cbn [r_rest]. rewrite write_raw_archive_eq, !app_length. lia.
  - cbn [r_rest]. rewrite write_raw_archive_eq, !app_length. lia.
Qed.

Corollary read_written_state num es : num < 2 ^ 32 -> Forall wf_entry es ->
  exists st, raw_entries rds (write_raw_archive num es) = Ok (es, FinOk, st) /\
             r_rest st = [] /\ r_buf st = [] /\ r_next st = false.
Proof. intros Hn Hw. eexists. split; [apply read_written; assumption|]. repeat split. Qed.

(* pass-through copy reproduces the archive byte for byte *)
Corollary raw_copy_exact num es : num < 2 ^ 32 -> Forall wf_entry es ->
  exists got st, raw_entries rds (write_raw_archive num es) = Ok (got, FinOk, st) /\
                 write_raw_archive num got = write_raw_archive num es.
Proof. intros Hn Hw. eexists _, _. split; [apply read_written; assumption|reflexivity]. Qed.

(* and for the slice reader *)
Corollary read_written_slice num es : num < 2 ^ 32 -> Forall wf_entry es ->
  raw_entries read_chunk_slice (write_raw_archive num es) =
  Ok (es, FinOk, {| r_rest := []; r_buf := []; r_next := false;
                    r_hdr := {| a_major := 0; a_minor := 0; a_number := num |} |}).
Proof. intros Hn Hw. rewrite (proj1 (stream_slice_agree _)). apply read_written; assumption. Qed.
