(* EditContainerFacts.v — C10 at the container level: the per-entry editing commands chmod, chown, xattr, acl,
   strip and migrate (WfTransformFacts.run_edit = run_transform_entry with the transformer of Model/Transform.v on
   the view of each entry, the answer put back with NormalEntry::with_metadata / with_xattrs / with_extra_chunks)
   on the BYTES of archive files:
     1. frame on bytes    written-form solid-free input: the output is the writer's archive of as many entries; an
                          entry that is not selected is written with the identical chunk list; a selected entry keeps
                          header, PHSF, the DATA CHUNKS (nothing is re-compressed or re-encrypted) and its recorded
                          sizes, and its metadata / xattrs / extra chunks are exactly what Transform.cmd_entry answers;
     2. logical           decoded content, name and kind of every entry are unchanged (only the decoding of the input
                          is needed: the data chunks are the same), the attributes are those of the edited entries;
     3. solid blocks      both strategies, pipeline expand / rebuild (fresh cipher context `ctx` as a parameter);
     4. idempotence       on bytes, for the commands C10_idempotent covers (chmod, chown, xattr, strip);
     5. example           chmod on one of three entries of the AES-256-CBC archive, evaluated in the kernel.
   delete is in Props/C11_container.v / C11_update.v.  stdlib only, no axioms. *)
From PNA Require Import Base Crc32 Name Codec Chunk Archive Entry Flatten Cbc Ctr Pipeline Aes Camellia
  BaseFacts NameFacts CodecFacts Crc32Facts ChunkFacts ArchiveFacts EntryFacts OffsetFacts PartsFacts
  CbcFacts PipelineFacts AesFacts CamelliaFacts.
From PNA Require Import Fs Extract CreateTransportFacts AppendContainerFacts.
From PNA Require Import Wf WfFacts WfWriterFacts WfAgreeFacts WfRewriteFacts WfPipelineFacts WfTransformFacts RecutFacts
  UpdateContainerFacts.
From PNA Require Update UpdateFacts ArchiveRun Transform TransformFacts CliCodec.
Require Import ZArith ZifyN ZifyNat ZifyBool.
Open Scope N_scope.

Lemma F2_length {A B} (R : A -> B -> Prop) l l' : Forall2 R l l' -> length l = length l'.
Proof. induction 1; cbn [length]; congruence. Qed.

(* ================================================================================================= *)
(* 1. one entry through an editing command                                                             *)
(* ================================================================================================= *)
Section Edit.
Variables hdr_tok content_tok : normal_entry -> bytes.
Hypothesis hdr_tok_attrs : forall e m xs cs,
  hdr_tok (with_extra_chunks (with_xattrs (with_metadata e m) xs) cs) = hdr_tok e.
Hypothesis content_tok_attrs : forall e m xs cs,
  content_tok (with_extra_chunks (with_xattrs (with_metadata e m) xs) cs) = content_tok e.

Notation lview := (lview hdr_tok content_tok).
Notation edit_entry := (edit_entry hdr_tok content_tok).

(* m: the entry as the reader delivers it, n': the entry the command writes.
   - header, PHSF, data chunks and the recorded sizes are m's: the stored stream is not touched;
   - the view of n' is the answer of the transformer of Model/Transform.v on the view of m, i.e. Transform.cmd_entry
     when the entry is selected (TransformFacts.step_rel: C10_effect on this entry);
   - an entry that is not selected is written as it is *)
Definition edit_rel (c : Transform.cmd) (sl : bytes -> bool) (m n' : normal_entry) : Prop :=
  n_hdr n' = n_hdr m /\ n_phsf n' = n_phsf m /\ n_data n' = n_data m /\
  m_raw_size (n_meta n') = m_raw_size (n_meta m) /\ m_compressed (n_meta n') = m_compressed (n_meta m) /\
  Transform.cmd_transformer c sl (lview m) = Ok (Some (lview n')) /\
  TransformFacts.step_rel sl c (lview m) (lview n') /\
  (TransformFacts.touched sl c (lview m) = false -> n' = m).

Lemma cmd_entry_some c l o : c <> Transform.CDelete -> Transform.cmd_entry c l = Ok o -> exists l', o = Some l'.
Proof.
  intros NE. destruct c; cbn [Transform.cmd_entry]; try (intros [= <-]; eauto).
  - destruct (Transform.cmd_migrate l); cbn [bind]; try discriminate. intros [= <-]. eauto.
  - contradiction NE. reflexivity.
Qed.

Lemma edit_entry_rel c sl m o : c <> Transform.CDelete -> edit_entry c sl m = Ok o ->
  exists n', o = Some n' /\ edit_rel c sl m n'.
Proof.
  intros NE H. pose proof (edit_entry_view hdr_tok content_tok hdr_tok_attrs content_tok_attrs c sl m o H) as V.
  unfold WfTransformFacts.edit_entry in H.
  destruct (Transform.cmd_transformer c sl (lview m)) as [ol| |] eqn:T; cbn [bind] in H; try discriminate H. injection H as <-.
  assert (exists l', ol = Some l') as (l' & ->).
  { rewrite TransformFacts.transformer_unfold in T. destruct (TransformFacts.touched sl c (lview m)); [exact (cmd_entry_some c _ _ NE T)|].
    injection T as <-. eauto. }
  cbn [option_map] in *. exists (reentry m l'). split; [reflexivity|]. injection V as V.
  split; [reflexivity|]. split; [reflexivity|]. split; [reflexivity|]. split; [reflexivity|]. split; [reflexivity|].
  split; [rewrite <- V; exact T|]. split.
  - unfold TransformFacts.step_rel. rewrite TransformFacts.transformer_unfold in T. rewrite <- V.
    destruct (TransformFacts.touched sl c (lview m)); [exact T|]. injection T as <-. reflexivity.
  - intros U. rewrite TransformFacts.transformer_unfold, U in T. injection T as <-. apply reentry_lview.
Qed.

Lemma edit_normals_rel expand rebuild keep pw c sl : c <> Transform.CDelete -> forall ms es',
  edit_archive hdr_tok content_tok expand rebuild keep pw c sl (map RNormal ms) = Ok es' ->
  exists ns', es' = map RNormal ns' /\ Forall2 (edit_rel c sl) ms ns'.
Proof.
  intros NE. induction ms as [|m ms IH]; intros es' H; cbn [map WfTransformFacts.edit_archive WfTransformFacts.edit_item] in H.
  - injection H as <-. exists []. split; [reflexivity|constructor].
  - destruct (edit_entry c sl m) as [o| |] eqn:EE; cbn [bind] in H; try discriminate H.
    destruct (edit_archive hdr_tok content_tok expand rebuild keep pw c sl (map RNormal ms)) as [r'| |] eqn:EA; cbn [bind] in H; try discriminate H.
    injection H as <-. destruct (edit_entry_rel c sl m o NE EE) as (n' & -> & R). destruct (IH r' eq_refl) as (ns' & -> & R').
    exists (n' :: ns'). split; [reflexivity|]. constructor; assumption.
Qed.

Lemma edit_rel_writable c sl ms ns' : cmd_ok c -> Forall writable_normal ms -> Forall2 (edit_rel c sl) ms ns' ->
  Forall writable_normal ns'.
Proof.
  intros CO W R. induction R as [|m n' ms ns' (H1 & H2 & H3 & H4 & H5 & T & _) _ IH]; [constructor|].
  inversion W as [|? ? Wm W']; subst. constructor; [|exact (IH W')].
  apply (edit_entry_writable hdr_tok content_tok c sl m n' CO Wm).
  unfold WfTransformFacts.edit_entry. rewrite T. cbn [bind option_map]. f_equal. f_equal.
  (* n' is determined by m and its view *)
  destruct n' as [h p x d [rs cp ct mt at' pm] xs], m as [h0 p0 x0 d0 [rs0 cp0 ct0 mt0 at0 pm0] xs0].
  cbn in H1, H2, H3, H4, H5. subst. reflexivity.
Qed.

(* ================================================================================================= *)
(* 2. frame on bytes: solid-free archives of the written form                                          *)
(* ================================================================================================= *)
Lemma filter_nonempty_idem (l : list bytes) : filter nonempty (filter nonempty l) = filter nonempty l.
Proof. induction l as [|d l IH]; [reflexivity|]. destruct d; cbn [filter nonempty]; [exact IH|]. rewrite IH. reflexivity. Qed.

Lemma normalize_fixed n : cut_data (n_data n) = n_data n -> normalize n = n.
Proof. intros H. destruct n as [h p x d mt xs]. unfold normalize. cbn [n_hdr n_phsf n_extra n_data n_meta n_xattrs] in *. rewrite H. reflexivity. Qed.

Lemma edit_rel_normal c sl n n' : edit_rel c sl (normalize n) n' -> normalize n' = n'.
Proof. intros (_ & _ & Hd & _). apply normalize_fixed. rewrite Hd. unfold normalize. cbn [n_data]. apply cut_data_idem. Qed.

Lemma written_normals_read ns : Forall writable_normal ns ->
  wf_archive (write_raw_archive 0 (map ser_normal ns)) = true /\
  read_archive (write_raw_archive 0 (map ser_normal ns)) = Ok (map RNormal (map normalize ns)).
Proof.
  intros W. assert (WR : Forall writable (map RNormal ns)).
  { apply Forall_forall. intros y Hy. apply in_map_iff in Hy. destruct Hy as (n & <- & Hn). rewrite Forall_forall in W. exact (W n Hn). }
  assert (EQ : map ser_entry (map RNormal ns) = map ser_normal ns) by (rewrite map_map; reflexivity).
  destruct (written_reads _ WR) as (WA & RA). rewrite EQ in WA, RA. split; [exact WA|]. rewrite RA, map_map.
  rewrite <- map_map with (g := RNormal) (f := normalize). reflexivity.
Qed.

Lemma ser_normals_normalize ns : map ser_normal (map normalize ns) = map ser_normal ns.
Proof. rewrite map_map. apply map_ext. intros n. apply ser_normalize. Qed.

Lemma edit_rel_all_normal c sl : forall ns ns', Forall2 (edit_rel c sl) (map normalize ns) ns' -> map normalize ns' = ns'.
Proof.
  induction ns as [|n ns IH]; intros ns' R; inversion R; subst; [reflexivity|]. cbn [map].
  rewrite (edit_rel_normal c sl n _ ltac:(eassumption)). f_equal. apply IH. assumption.
Qed.

Definition frame_rel (c : Transform.cmd) (sl : bytes -> bool) (n n' : normal_entry) : Prop :=
  edit_rel c sl (normalize n) n' /\
  (TransformFacts.touched sl c (lview (normalize n)) = false -> ser_normal n' = ser_normal n).

Lemma edit_rel_frame c sl : forall ns ns', Forall2 (edit_rel c sl) (map normalize ns) ns' -> Forall2 (frame_rel c sl) ns ns'.
Proof.
  induction ns as [|n ns IH]; intros ns' R; inversion R as [|? ? ? ? Hr R']; subst; constructor; [|apply IH; exact R'].
  split; [exact Hr|]. intros U. destruct Hr as (_ & _ & _ & _ & _ & _ & _ & Hu). rewrite (Hu U). apply ser_normalize.
Qed.

Lemma edit_rel_refl c sl m : TransformFacts.touched sl c (lview m) = false -> edit_rel c sl m m.
Proof.
  intros U. repeat (split; [reflexivity|]). split; [rewrite TransformFacts.transformer_unfold, U; reflexivity|].
  split; [unfold TransformFacts.step_rel; rewrite U; reflexivity|]. reflexivity.
Qed.

(* `frame_bytes`: ns the entries the archive was written from (writable: C14), b' what the command writes.
   (nf = 0 -> no name is selected: without patterns chmod / chown / xattr / acl return before touching the archive).
   The selection is the one the command works with (Transform.eff_sel c nf sl): the patterns', but for strip without
   FILES every entry; so an entry `strip FILES` does not select is written with the identical chunk list *)
Theorem frame_bytes expand rebuild keep pw c nf sl0 ns b' :
  Forall writable_normal ns -> c <> Transform.CDelete -> (nf = 0 -> forall n, sl0 n = false) ->
  run_edit hdr_tok content_tok expand rebuild keep pw c nf sl0 (write_raw_archive 0 (map ser_normal ns)) = Ok b' ->
  let sl := Transform.eff_sel c nf sl0 in
  exists ns', b' = write_raw_archive 0 (map ser_normal ns') /\ length ns' = length ns /\
    Forall2 (edit_rel c sl) (map normalize ns) ns' /\ Forall2 (frame_rel c sl) ns ns' /\
    (cmd_ok c -> Forall writable_normal ns') /\
    (Forall writable_normal ns' -> wf_archive b' = true /\ read_archive b' = Ok (map RNormal ns')).
Proof.
  intros W NE NF H sl. destruct (written_normals_read ns W) as (WA & RA).
  pose proof (wf_read_writable _ _ WA RA) as Wm.
  assert (Wm' : Forall writable_normal (map normalize ns)).
  { apply Forall_forall. intros m Hm. rewrite Forall_forall in Wm. exact (Wm (RNormal m) (in_map _ _ _ Hm)). }
  assert (FIN : forall ns', Forall2 (edit_rel c sl) (map normalize ns) ns' ->
    length ns' = length ns /\ Forall2 (edit_rel c sl) (map normalize ns) ns' /\ Forall2 (frame_rel c sl) ns ns' /\
    (cmd_ok c -> Forall writable_normal ns') /\
    (Forall writable_normal ns' -> wf_archive (write_raw_archive 0 (map ser_normal ns')) = true /\
                 read_archive (write_raw_archive 0 (map ser_normal ns')) = Ok (map RNormal ns'))).
  { intros ns' R. split; [pose proof (F2_length _ _ _ R) as L; rewrite map_length in L; symmetry; exact L|].
    split; [exact R|]. split; [exact (edit_rel_frame c sl ns ns' R)|].
    split; [intros CO; exact (edit_rel_writable c sl _ _ CO Wm' R)|]. intros W'.
    destruct (written_normals_read ns' W') as (WA' & RA'). split; [exact WA'|].
    rewrite RA', (edit_rel_all_normal c sl ns ns' R). reflexivity. }
  unfold run_edit in H. destruct (Transform.needs_files c && N.eqb nf 0) eqn:SC.
  - injection H as <-. apply andb_prop in SC. destruct SC as [NFc Z]. apply N.eqb_eq in Z.
    assert (Eb : write_raw_archive 0 (map ser_normal ns) = write_raw_archive 0 (map ser_normal (map normalize ns)))
      by (rewrite ser_normals_normalize; reflexivity).
    exists (map normalize ns). rewrite Eb. split; [reflexivity|]. apply FIN.
    assert (U : forall m, TransformFacts.touched sl c (lview m) = false).
    { intros m. unfold TransformFacts.touched, sl. rewrite (TransformFacts.eff_sel_needs_files c nf sl0 NFc), (NF Z).
      destruct c; try discriminate NFc; reflexivity. }
    clear -U. induction (map normalize ns) as [|m ms IH]; constructor; [apply edit_rel_refl; apply U|exact IH].
  - change (read_all (write_raw_archive 0 (map ser_normal ns))) with (read_archive (write_raw_archive 0 (map ser_normal ns))) in H.
    rewrite RA in H. cbn [bind] in H. fold sl in H.
    destruct (edit_archive hdr_tok content_tok expand rebuild keep pw c sl (map RNormal (map normalize ns))) as [es'| |] eqn:EA;
      cbn [bind] in H; try discriminate H. injection H as <-.
    destruct (edit_normals_rel expand rebuild keep pw c sl NE _ _ EA) as (ns' & -> & R).
    assert (EQ : map ser_entry (map RNormal ns') = map ser_normal ns') by (rewrite map_map; reflexivity).
    exists ns'. rewrite EQ. split; [reflexivity|]. exact (FIN ns' R).
Qed.

(* `pna strip ARCHIVE FILES...` (4d97c0da), on bytes: an entry whose name the patterns do not select is written with
   the identical chunk list; a selected one keeps header, PHSF, data chunks and sizes and is stripped; the output is
   well-formed.  (Before the repair FILES were ignored: TransformFacts.strip_ignored_patterns_unrepaired.) *)
Corollary frame_bytes_strip_patterns expand rebuild keep pw o nf sl ns b' :
  Forall writable_normal ns -> nf <> 0 ->
  run_edit hdr_tok content_tok expand rebuild keep pw (Transform.CStrip o) nf sl (write_raw_archive 0 (map ser_normal ns)) = Ok b' ->
  exists ns', b' = write_raw_archive 0 (map ser_normal ns') /\ length ns' = length ns /\
    Forall2 (fun n n' =>
      n_hdr n' = n_hdr n /\ n_phsf n' = n_phsf n /\ n_data n' = n_data (normalize n) /\
      (sl (f_name (n_hdr n)) = false -> ser_normal n' = ser_normal n) /\
      (sl (f_name (n_hdr n)) = true -> lview n' = Transform.cmd_strip o (lview (normalize n)))) ns ns' /\
    Forall writable_normal ns' /\ wf_archive b' = true /\ read_archive b' = Ok (map RNormal ns').
Proof.
  intros W NZ H.
  destruct (frame_bytes expand rebuild keep pw (Transform.CStrip o) nf sl ns b' W ltac:(discriminate)
              ltac:(intros Z; contradiction (NZ Z)) H) as (ns' & Eb & L & _ & FR & K1 & K2).
  exists ns'. split; [exact Eb|]. split; [exact L|]. pose proof (K1 I) as W'. destruct (K2 W') as (WA' & RA').
  split; [|split; [exact W'|split; [exact WA'|exact RA']]].
  apply N.eqb_neq in NZ. clear -FR NZ. induction FR as [|n n' ns ns' [(H1 & H2 & H3 & _ & _ & _ & SR & _) FU] _ IH]; constructor; [|exact IH].
  split; [exact H1|]. split; [exact H2|]. split; [exact H3|].
  assert (TE : TransformFacts.touched (Transform.eff_sel (Transform.CStrip o) nf sl) (Transform.CStrip o) (lview (normalize n))
               = sl (f_name (n_hdr n))).
  { rewrite TransformFacts.touched_strip, NZ. reflexivity. }
  split.
  - intros S. apply FU. rewrite TE. exact S.
  - intros S. unfold TransformFacts.step_rel in SR. rewrite TE, S in SR. cbn [Transform.cmd_entry] in SR. congruence.
Qed.

(* the entries the command writes are writable again: a theorem for chmod, chown, xattr, strip (cmd_ok: C14_edit_entry_writable);
   for acl set and migrate (their chunks carry owner names of unbounded length) it is a premise on the output *)
Definition out_ok (c : Transform.cmd) (sl : bytes -> bool) (ns : list normal_entry) : Prop :=
  cmd_ok c \/ forall ns', Forall2 (edit_rel c sl) (map normalize ns) ns' -> Forall writable_normal ns'.

(* ================================================================================================= *)
(* 3. idempotence on bytes                                                                             *)
(* ================================================================================================= *)
Lemma edit_rel_fixpoint c sl m n' : TransformFacts.entry_idem c (lview m) -> edit_rel c sl m n' ->
  edit_entry c sl n' = Ok (Some n').
Proof.
  intros ID (H1 & _ & _ & _ & _ & _ & SR & U).
  assert (T : Transform.cmd_transformer c sl (lview n') = Ok (Some (lview n'))).
  { rewrite TransformFacts.transformer_unfold.
    assert (TE : TransformFacts.touched sl c (lview n') = TransformFacts.touched sl c (lview m))
      by (unfold TransformFacts.touched, WfTransformFacts.lview; cbn [Transform.le_name]; rewrite H1; reflexivity).
    rewrite TE. unfold TransformFacts.step_rel in SR. destruct (TransformFacts.touched sl c (lview m)); [exact (ID _ SR)|reflexivity]. }
  unfold WfTransformFacts.edit_entry. rewrite T. cbn [bind option_map]. rewrite reentry_lview. reflexivity.
Qed.

Lemma edit_normals_fixpoint expand rebuild keep pw c sl : forall ns',
  Forall (fun n' => edit_entry c sl n' = Ok (Some n')) ns' ->
  edit_archive hdr_tok content_tok expand rebuild keep pw c sl (map RNormal ns') = Ok (map RNormal ns').
Proof.
  induction 1 as [|n' ns' Hn _ IH]; [reflexivity|]. cbn [map WfTransformFacts.edit_archive WfTransformFacts.edit_item].
  rewrite Hn. cbn [bind]. rewrite IH. reflexivity.
Qed.

(* running the same command on its own output writes the same FILE again *)
Theorem idem_bytes expand rebuild keep pw c nf sl ns b' :
  out_ok c (Transform.eff_sel c nf sl) ns -> (forall n', TransformFacts.entry_idem c (lview n')) ->
  Forall writable_normal ns -> c <> Transform.CDelete -> (nf = 0 -> forall n, sl n = false) ->
  run_edit hdr_tok content_tok expand rebuild keep pw c nf sl (write_raw_archive 0 (map ser_normal ns)) = Ok b' ->
  run_edit hdr_tok content_tok expand rebuild keep pw c nf sl b' = Ok b'.
Proof.
  intros CO ID W NE NF H. destruct (frame_bytes expand rebuild keep pw c nf sl ns b' W NE NF H) as (ns' & -> & _ & R & _ & K1 & K2).
  assert (W' : Forall writable_normal ns') by (destruct CO as [CO|CO]; [exact (K1 CO)|exact (CO ns' R)]).
  destruct (K2 W') as (WA' & RA'). unfold run_edit. destruct (Transform.needs_files c && N.eqb nf 0); [reflexivity|].
  change (read_all (write_raw_archive 0 (map ser_normal ns'))) with (read_archive (write_raw_archive 0 (map ser_normal ns'))).
  rewrite RA'. cbn [bind]. rewrite edit_normals_fixpoint.
  - cbn [bind]. rewrite map_map. reflexivity.
  - clear -R ID. induction R as [|m n' ms ns' Hr _ IH]; constructor; [|exact IH].
    exact (edit_rel_fixpoint c _ m n' (ID _) Hr).
Qed.

Corollary idem_bytes_acl_free expand rebuild keep pw c nf sl ns b' :
  cmd_ok c -> TransformFacts.acl_free c = true ->
  Forall writable_normal ns -> c <> Transform.CDelete -> (nf = 0 -> forall n, sl n = false) ->
  run_edit hdr_tok content_tok expand rebuild keep pw c nf sl (write_raw_archive 0 (map ser_normal ns)) = Ok b' ->
  run_edit hdr_tok content_tok expand rebuild keep pw c nf sl b' = Ok b'.
Proof. intros CO AF. apply idem_bytes; [left; exact CO|]. intros l. apply TransformFacts.entry_idem_acl_free. exact AF. Qed.

(* acl set / migrate: under the read-back premise of C10_idempotent_acl_partial (it cannot be dropped: known finding
   acl-modify-remove-same) and writable output *)
Corollary idem_bytes_acl_partial expand rebuild keep pw c nf sl ns b' :
  out_ok c (Transform.eff_sel c nf sl) ns -> (forall n', TransformFacts.acl_reads_back c (lview n')) ->
  Forall writable_normal ns -> c <> Transform.CDelete -> (nf = 0 -> forall n, sl n = false) ->
  run_edit hdr_tok content_tok expand rebuild keep pw c nf sl (write_raw_archive 0 (map ser_normal ns)) = Ok b' ->
  run_edit hdr_tok content_tok expand rebuild keep pw c nf sl b' = Ok b'.
Proof. intros CO RBk. apply idem_bytes; [exact CO|]. intros n'. apply TransformFacts.entry_idem_all. apply RBk. Qed.

(* ================================================================================================= *)
(* 4. the decoded view: content, name and kind of every entry are unchanged                            *)
(* ================================================================================================= *)
Section EditLogical.
Variables E D : encryption -> bytes -> bytes -> bytes.
Variable decompress : compression -> bytes -> res bytes.
Variable verify : bytes -> bytes -> res bytes.
Variable pw : bytes.
Variable rb : normal_entry -> list N.
Variable srb : solid_entry -> list N.
Notation read_entries_x := (read_entries_x E D decompress verify).
Notation read_entry_x := (read_entry_x E D decompress verify).
Notation xlogical := (xlogical E D decompress verify pw rb srb).

Definition same_content (x x' : xentry) : Prop := e_name x' = e_name x /\ e_kind x' = e_kind x /\ e_data x' = e_data x.
(* rb reads to its end every entry that carries m's data chunks (m itself and the entry written in its place) *)
Definition reads_both (m : normal_entry) : Prop := forall q, n_data q = n_data m -> drains (n_data m) (rb q).

Lemma edit_rel_read c sl m n' x : edit_rel c sl m n' -> reads_both m -> read_entry_x pw rb m = Ok x ->
  read_entry_x pw rb n' = Ok (xentry_of_normal (e_data x) n') /\ same_content x (xentry_of_normal (e_data x) n').
Proof.
  intros (H1 & H2 & H3 & _) RB Hx. unfold CreateTransportFacts.read_entry_x in *.
  assert (DE : decode_normal E D decompress verify n' pw (rb n') = decode_normal E D decompress verify m pw (rb m)).
  { unfold Pipeline.decode_normal. rewrite H1, H2, H3. apply decode_stream_cut_indep; [reflexivity|apply RB; exact H3|apply RB; reflexivity]. }
  rewrite DE. destruct (decode_normal E D decompress verify m pw (rb m)) as [content| |]; cbn [bind] in *; try discriminate Hx.
  injection Hx as <-. cbn [xentry_of_normal e_data]. split; [reflexivity|].
  unfold same_content, xentry_of_normal. cbn [e_name e_kind e_data]. rewrite H1. auto.
Qed.

Lemma x_items_normals_inv : forall l o, x_items E D decompress verify pw rb srb (map RNormal l) = Ok o -> read_entries_x pw rb l = Ok o.
Proof.
  induction l as [|n l IHl]; intros o; cbn [map x_items x_item CreateTransportFacts.read_entries_x]; [auto|].
  destruct (read_entry_x pw rb n) as [x| |]; cbn [bind]; try discriminate.
  destruct (x_items E D decompress verify pw rb srb (map RNormal l)) as [y| |] eqn:Ey; cbn [bind]; try discriminate.
  intros [= <-]. rewrite (IHl y eq_refl). reflexivity.
Qed.

Lemma edit_rel_read_all c sl : forall ms ns' old, Forall2 (edit_rel c sl) ms ns' -> Forall reads_both ms ->
  read_entries_x pw rb ms = Ok old ->
  exists new, read_entries_x pw rb ns' = Ok new /\ Forall2 same_content old new /\
    Forall2 (fun n' x' => x' = xentry_of_normal (e_data x') n') ns' new.
Proof.
  induction ms as [|m ms IH]; intros ns' old R RB H; inversion R as [|? n' ? ns1 Hr R']; subst; cbn [CreateTransportFacts.read_entries_x] in H.
  - injection H as <-. exists []. repeat split; constructor.
  - inversion RB as [|? ? RBm RB']; subst.
    destruct (read_entry_x pw rb m) as [x| |] eqn:Ex; cbn [bind] in H; try discriminate H.
    destruct (read_entries_x pw rb ms) as [xs| |] eqn:Exs; cbn [bind] in H; try discriminate H. injection H as <-.
    destruct (edit_rel_read c sl m n' x Hr RBm Ex) as (Ex' & SC). destruct (IH ns1 xs R' RB' eq_refl) as (new & Rn & SCs & At).
    exists (xentry_of_normal (e_data x) n' :: new). cbn [CreateTransportFacts.read_entries_x]. rewrite Ex'. cbn [bind]. rewrite Rn. cbn [bind].
    split; [reflexivity|]. split; constructor; assumption || reflexivity.
Qed.

(* `edit_logical`: the six per-entry editors on a solid-free written archive, decoded: no cipher or compressor law
   is needed — the data chunks of the output are those of the input *)
Theorem edit_logical expand rebuild keep pwb c nf sl ns b' old :
  out_ok c (Transform.eff_sel c nf sl) ns -> Forall writable_normal ns -> c <> Transform.CDelete -> (nf = 0 -> forall n, sl n = false) ->
  run_edit hdr_tok content_tok expand rebuild keep pwb c nf sl (write_raw_archive 0 (map ser_normal ns)) = Ok b' ->
  xlogical (write_raw_archive 0 (map ser_normal ns)) = Ok old -> Forall reads_both (map normalize ns) ->
  exists ns' new, b' = write_raw_archive 0 (map ser_normal ns') /\ Forall2 (edit_rel c (Transform.eff_sel c nf sl)) (map normalize ns) ns' /\
    xlogical b' = Ok new /\ Forall2 same_content old new /\
    Forall2 (fun n' x' => x' = xentry_of_normal (e_data x') n') ns' new.
Proof.
  intros CO W NE NF H XL RB. destruct (frame_bytes expand rebuild keep pwb c nf sl ns b' W NE NF H) as (ns' & -> & _ & R & _ & K1 & K2).
  assert (W' : Forall writable_normal ns') by (destruct CO as [CO|CO]; [exact (K1 CO)|exact (CO ns' R)]).
  destruct (K2 W') as (WA' & RA'). destruct (written_normals_read ns W) as (_ & RA).
  unfold AppendContainerFacts.xlogical in XL. rewrite RA in XL. cbn [bind] in XL. apply x_items_normals_inv in XL.
  destruct (edit_rel_read_all c _ _ ns' old R RB XL) as (new & Rn & SC & At).
  exists ns', new. split; [reflexivity|]. split; [exact R|]. split; [|split; assumption].
  unfold AppendContainerFacts.xlogical. rewrite RA'. cbn [bind]. apply (x_items_normals E D decompress verify). exact Rn.
Qed.
End EditLogical.
End Edit.

(* ================================================================================================= *)
(* 5. archives with solid blocks, both strategies                                                      *)
(* ================================================================================================= *)
(* run_edit with expand := s.entries(password) (UpdateContainerFacts.expand_p = Pipeline.decode_solid) and rebuild :=
   the pipeline's SolidEntryBuilder under a fresh cipher context ctx (WfTransformFacts.rebuild_pipeline) *)
Section EditSolid.
Variables hdr_tok content_tok : normal_entry -> bytes.
Hypothesis hdr_tok_attrs : forall e m xs cs,
  hdr_tok (with_extra_chunks (with_xattrs (with_metadata e m) xs) cs) = hdr_tok e.
Hypothesis content_tok_attrs : forall e m xs cs,
  content_tok (with_extra_chunks (with_xattrs (with_metadata e m) xs) cs) = content_tok e.
Variables E D : encryption -> bytes -> bytes -> bytes.
Variable compress : compression -> N -> list bytes -> list bytes.
Variable decompress : compression -> bytes -> res bytes.
Variable verify : bytes -> bytes -> res bytes.
Hypothesis D_len : forall a k c, len16 c -> len16 (D a k c).
Hypothesis DE : forall a k b, len16 b -> D a k (E a k b) = b.
Hypothesis E_len : forall a k b, len16 b -> len16 (E a k b).
Hypothesis compress_law : forall c lvl ws, decompress c (concat (compress c lvl ws)) = Ok (concat ws).
Hypothesis compress_det : forall c lvl (ws ws' : list bytes), concat ws = concat ws' ->
  concat (compress c lvl ws) = concat (compress c lvl ws').
Variable lvl : N.
Variable ctx : cctx.
Hypothesis ctx_strict : strict_ctx ctx.
Variable pw : bytes.
Hypothesis ctx_pw : wf_ctx verify ctx pw.
Variable rb : normal_entry -> list N.
Variable srb : solid_entry -> list N.
Variables keep pwb : bool.

Notation read_entries_x := (read_entries_x E D decompress verify).
Notation read_entry_x := (read_entry_x E D decompress verify).
Notation x_items := (x_items E D decompress verify pw rb srb).
Notation xlogical := (xlogical E D decompress verify pw rb srb).
Notation expand_p := (expand_p E D decompress verify pw srb).
Notation rebuild_p := (rebuild_pipeline E compress lvl ctx).
Notation flat_p := (flat expand_p).
Notation block_ok := (block_ok E D decompress verify pw srb pwb).
Notation srb_drains := (srb_drains srb).
Notation edit_rel := (edit_rel hdr_tok content_tok).

(* rb reads to its end every entry that carries m's data stream, however it is cut into chunks *)
Definition reads_any (m : normal_entry) : Prop :=
  forall q, concat (n_data q) = concat (n_data m) -> drains (n_data q) (rb q).

Lemma edit_rel_read_norm c sl m n' x : edit_rel c sl m n' -> reads_any m -> read_entry_x pw rb m = Ok x ->
  read_entry_x pw rb (normalize n') = Ok (xentry_of_normal (e_data x) n') /\ same_content x (xentry_of_normal (e_data x) n').
Proof.
  intros (H1 & H2 & H3 & _) RB Hx. unfold CreateTransportFacts.read_entry_x in *.
  assert (CC : concat (n_data (normalize n')) = concat (n_data m)) by (unfold normalize; cbn [n_data]; rewrite concat_cut_data, H3; reflexivity).
  assert (DEq : decode_normal E D decompress verify (normalize n') pw (rb (normalize n')) = decode_normal E D decompress verify m pw (rb m)).
  { unfold Pipeline.decode_normal. change (n_hdr (normalize n')) with (n_hdr n'). change (n_phsf (normalize n')) with (n_phsf n').
    rewrite H1, H2. apply decode_stream_cut_indep; [exact CC|apply RB; exact CC|apply RB; reflexivity]. }
  rewrite DEq. destruct (decode_normal E D decompress verify m pw (rb m)) as [content| |]; cbn [bind] in *; try discriminate Hx.
  injection Hx as <-. cbn [xentry_of_normal e_data]. split; [reflexivity|].
  unfold same_content, xentry_of_normal. cbn [e_name e_kind e_data]. rewrite H1. auto.
Qed.

Definition attrs_of (n' : normal_entry) (x' : xentry) : Prop := x' = xentry_of_normal (e_data x') n'.

Lemma edit_rel_read_norm_all c sl : forall ms ns' old, Forall2 (edit_rel c sl) ms ns' -> Forall reads_any ms ->
  read_entries_x pw rb ms = Ok old ->
  exists new, read_entries_x pw rb (map normalize ns') = Ok new /\ Forall2 same_content old new /\ Forall2 attrs_of ns' new.
Proof.
  induction ms as [|m ms IH]; intros ns' old R RB H; inversion R as [|? n' ? ns1 Hr R']; subst; cbn [CreateTransportFacts.read_entries_x] in H.
  - injection H as <-. exists []. repeat split; constructor.
  - inversion RB as [|? ? RBm RB']; subst.
    destruct (read_entry_x pw rb m) as [x| |] eqn:Ex; cbn [bind] in H; try discriminate H.
    destruct (read_entries_x pw rb ms) as [xs| |] eqn:Exs; cbn [bind] in H; try discriminate H. injection H as <-.
    destruct (edit_rel_read_norm c sl m n' x Hr RBm Ex) as (Ex' & SC). destruct (IH ns1 xs R' RB' eq_refl) as (new & Rn & SCs & At).
    exists (xentry_of_normal (e_data x) n' :: new). cbn [map CreateTransportFacts.read_entries_x]. rewrite Ex'. cbn [bind]. rewrite Rn. cbn [bind].
    split; [reflexivity|]. split; constructor; assumption || reflexivity.
Qed.

Lemma edit_list_rel c sl : c <> Transform.CDelete -> forall ms ms',
  edit_list hdr_tok content_tok c sl ms = Ok ms' -> Forall2 (edit_rel c sl) ms ms'.
Proof.
  intros NE. induction ms as [|m ms IH]; intros ms' H; cbn [edit_list] in H.
  - injection H as <-. constructor.
  - destruct (edit_entry hdr_tok content_tok c sl m) as [o| |] eqn:EE; cbn [bind] in H; try discriminate H.
    destruct (edit_list hdr_tok content_tok c sl ms) as [r'| |] eqn:EL; cbn [bind] in H; try discriminate H. injection H as <-.
    destruct (edit_entry_rel hdr_tok content_tok hdr_tok_attrs content_tok_attrs c sl m o NE EE) as (n' & -> & R).
    constructor; [exact R|exact (IH r' eq_refl)].
Qed.

Lemma F2_app {A B} (R : A -> B -> Prop) a a' b b' : Forall2 R a a' -> Forall2 R b b' -> Forall2 R (a ++ b) (a' ++ b').
Proof. induction 1; cbn [app]; [auto|]. intros H2. constructor; auto. Qed.

(* the run over the items: every entry the transformer sees is edited in place (edit_rel), what is written is
   writable, and decodes entry for entry to the same content, name and kind with the attributes of the edited entries *)
Lemma edit_archive_logical c sl : cmd_ok c -> c <> Transform.CDelete -> forall es es' ns old,
  Forall writable es -> Forall block_ok es ->
  edit_archive hdr_tok content_tok expand_p rebuild_p keep pwb c sl es = Ok es' ->
  flat_p es = Ok ns -> Forall reads_any ns -> read_entries_x pw rb ns = Ok old ->
  Forall writable es' /\
  exists ns' new, Forall2 (edit_rel c sl) ns ns' /\ Forall2 same_content old new /\ Forall2 attrs_of ns' new /\
    (Forall srb_drains es' -> x_items (map normalize_entry es') = Ok new).
Proof.
  intros CO NE. induction es as [|x es IH]; intros es' ns old W B H F RB R.
  - cbn in H, F. injection H as <-. injection F as <-. cbn in R. injection R as <-.
    split; [constructor|]. exists [], []. repeat split; constructor.
  - inversion W as [|? ? Wx W']; subst. inversion B as [|? ? Bx B']; subst.
    cbn [WfTransformFacts.edit_archive] in H.
    destruct (edit_item hdr_tok content_tok expand_p rebuild_p keep pwb c sl x) as [l| |] eqn:EI; cbn [bind] in H; try discriminate H.
    destruct (edit_archive hdr_tok content_tok expand_p rebuild_p keep pwb c sl es) as [r'| |] eqn:EA; cbn [bind] in H; try discriminate H.
    injection H as <-. destruct x as [m|s]; cbn [flat WfTransformFacts.edit_item] in *.
    + destruct (flat_p es) as [t| |] eqn:Ft; cbn [bind] in F; try discriminate F. injection F as <-.
      change (m :: t) with ([m] ++ t) in R.
      destruct (read_entries_x_split E D decompress verify pw rb [m] t old R) as (xa & xb & Ra & Rb & -> & La).
      inversion RB as [|? ? RBm RB']; subst.
      destruct (IH r' t xb W' B' eq_refl eq_refl RB' Rb) as (Wr & ns1 & new1 & R1 & SC1 & At1 & X1).
      destruct (edit_entry hdr_tok content_tok c sl m) as [o| |] eqn:EE; cbn [bind] in EI; try discriminate EI. injection EI as <-.
      destruct (edit_entry_rel hdr_tok content_tok hdr_tok_attrs content_tok_attrs c sl m o NE EE) as (n' & -> & Rm).
      assert (Wn : writable_normal n') by exact (edit_entry_writable hdr_tok content_tok c sl m n' CO Wx EE).
      destruct (edit_rel_read_norm_all c sl [m] [n'] xa (Forall2_cons _ _ Rm (Forall2_nil _)) (Forall_cons _ RBm (Forall_nil _)) Ra)
        as (new0 & Rn0 & SC0 & At0).
      split; [constructor; [exact Wn|exact Wr]|].
      exists (n' :: ns1), (new0 ++ new1). split; [constructor; assumption|]. split; [apply F2_app; assumption|].
      split; [exact (F2_app _ [n'] new0 ns1 new1 At0 At1)|].
      intros SD. inversion SD as [|? ? _ SD']; subst. cbn [map normalize_entry app].
      change (RNormal (normalize n') :: map normalize_entry r') with (map RNormal (map normalize [n']) ++ map normalize_entry r').
      apply (x_items_app E D decompress verify); [|exact (X1 SD')].
      apply (x_items_normals E D decompress verify). exact Rn0.
    + destruct Bx as [Lk Bi]. unfold locked in Lk. rewrite Lk in EI.
      destruct (expand_p s) as [inner| |] eqn:Ex; cbn [bind] in F, EI; try discriminate F.
      destruct (flat_p es) as [t| |] eqn:Ft; cbn [bind] in F; try discriminate F. injection F as <-.
      destruct (read_entries_x_split E D decompress verify pw rb inner t old R) as (xa & xb & Ra & Rb & -> & La).
      apply Forall_app in RB. destruct RB as [RBi RBt].
      destruct (IH r' t xb W' B' eq_refl eq_refl RBt Rb) as (Wr & ns1 & new1 & R1 & SC1 & At1 & X1).
      destruct (edit_list hdr_tok content_tok c sl inner) as [inner'| |] eqn:EL; cbn [bind] in EI; try discriminate EI. injection EI as <-.
      pose proof (edit_list_rel c sl NE inner inner' EL) as Ri.
      pose proof (edit_list_writable hdr_tok content_tok c sl CO inner inner' (Bi inner eq_refl) EL) as Wi.
      destruct (edit_rel_read_norm_all c sl inner inner' xa Ri RBi Ra) as (new0 & Rn0 & SC0 & At0).
      split.
      * apply Forall_app. split; [|exact Wr]. destruct keep.
        -- constructor; [|constructor]. cbn [writable] in *. destruct Wx as (_ & _ & _ & EX & _).
           unfold rebuild_pipeline. apply (rebuild_solid_writable E compress E_len); assumption.
        -- apply Forall_forall. intros y Hy. apply in_map_iff in Hy. destruct Hy as (n' & <- & Hn').
           rewrite Forall_forall in Wi. exact (Wi n' Hn').
      * exists (inner' ++ ns1), (new0 ++ new1). split; [apply F2_app; assumption|]. split; [apply F2_app; assumption|].
        split; [apply F2_app; assumption|].
        intros SD. apply Forall_app in SD. destruct SD as [SD1 SD2]. rewrite map_app.
        apply (x_items_app E D decompress verify); [|exact (X1 SD2)].
        destruct keep.
        -- inversion SD1 as [|? ? SD0 _]; subst. cbn [UpdateContainerFacts.srb_drains] in SD0.
           cbn [map normalize_entry AppendContainerFacts.x_items]. rewrite (x_item_solid E D decompress verify pw rb srb).
           rewrite (rebuilt_expands E D compress decompress verify D_len DE E_len compress_law compress_det lvl ctx pw ctx_pw srb s inner' Wi SD0).
           cbn [bind]. rewrite Rn0. cbn [bind]. rewrite app_nil_r. reflexivity.
        -- rewrite map_map. cbn [normalize_entry]. rewrite <- map_map with (g := RNormal) (f := normalize).
           apply (x_items_normals E D decompress verify). exact Rn0.
Qed.

(* `edit_solid_logical`: chmod / chown / xattr / strip (cmd_ok) on an accepted archive with solid blocks, --keep-solid or
   --unsolid, when the command really runs (with no pattern chmod / chown / xattr return at once and b' = b) *)
Theorem edit_solid_logical c nf sl b es old b' :
  cmd_ok c -> c <> Transform.CDelete -> Transform.needs_files c && N.eqb nf 0 = false ->
  wf_archive b = true -> read_archive b = Ok es -> Forall block_ok es ->
  (forall ns, flat_p es = Ok ns -> Forall reads_any ns) -> xlogical b = Ok old ->
  run_edit hdr_tok content_tok expand_p rebuild_p keep pwb c nf sl b = Ok b' ->
  exists es' ns ns' new, b' = write_raw_archive 0 (map ser_entry es') /\ Forall writable es' /\ wf_archive b' = true /\
    flat_p es = Ok ns /\ Forall2 (edit_rel c (Transform.eff_sel c nf sl)) ns ns' /\ Forall2 same_content old new /\ Forall2 attrs_of ns' new /\
    (Forall srb_drains es' -> xlogical b' = Ok new).
Proof.
  intros CO NE SC WA RA B RB XL H. pose proof (wf_read_writable b es WA RA) as W.
  unfold AppendContainerFacts.xlogical in XL. rewrite RA in XL. cbn [bind] in XL.
  destruct (x_flat E D decompress verify pw rb srb es old XL) as (ns & F & R).
  unfold run_edit in H. rewrite SC in H. change (read_all b) with (read_archive b) in H. rewrite RA in H. cbn [bind] in H.
  destruct (edit_archive hdr_tok content_tok expand_p rebuild_p keep pwb c (Transform.eff_sel c nf sl) es) as [es'| |] eqn:EA; cbn [bind] in H; try discriminate H.
  injection H as <-.
  destruct (edit_archive_logical c _ CO NE es es' ns old W B EA F (RB ns F) R) as (W' & ns' & new & Rr & SCn & At & X).
  destruct (written_reads es' W') as (WA' & RA').
  exists es', ns, ns', new. split; [reflexivity|]. split; [exact W'|]. split; [exact WA'|]. split; [exact F|].
  split; [exact Rr|]. split; [exact SCn|]. split; [exact At|].
  intros SD. unfold AppendContainerFacts.xlogical. rewrite RA'. cbn [bind]. exact (X SD).
Qed.
End EditSolid.

(* ================================================================================================= *)
(* 6. example, evaluated in the kernel                                                                 *)
(* ================================================================================================= *)
(* chmod 644 d/a.txt on the archive of UpdateContainerFacts (directory d, file d/a.txt through AES-256-CBC with an xattr,
   link d/l): the directory and the link are written with their old chunk lists; the file keeps its header, PHSF,
   and FDAT chunks (IV and ciphertext), its fPRM chunk changes *)
Definition cx_sel (n : bytes) : bool := bytes_eqb n (lit "d/a.txt").
Definition cx_j (k : nat) : normal_entry := build_job real_E_of px_compress (nth k tx_jobs ux_job).
Definition chunks_of (t : bytes) (n : normal_entry) : list chunk := filter (fun c => ty_is c t) (ser_normal n).

(* the entry written in the place of d/a.txt *)
Definition cx_n1' : normal_entry :=
  match edit_entry ex_hdr_tok ex_content_tok (Transform.CChmod (CliCodec.MNum 420)) cx_sel (cx_j 1) with
  | Ok (Some n) => n
  | _ => cx_j 1
  end.

Example chmod_ex :
  ux_arch = write_raw_archive 0 (map ser_normal [cx_j 0; cx_j 1; cx_j 2]) /\
  Forall writable_normal [cx_j 0; cx_j 1; cx_j 2] /\
  let n1' := cx_n1' in
  exists b', run_edit ex_hdr_tok ex_content_tok (fun _ => Ok []) (fun s _ => s) true true
                   (Transform.CChmod (CliCodec.MNum 420)) 1 cx_sel ux_arch = Ok b' /\
    b' = write_raw_archive 0 (map ser_normal [cx_j 0; n1'; cx_j 2]) /\
    n_hdr n1' = n_hdr (cx_j 1) /\ n_phsf n1' = n_phsf (cx_j 1) /\ n_data n1' = n_data (cx_j 1) /\
    chunks_of FDAT n1' = chunks_of FDAT (cx_j 1) /\ length (chunks_of FDAT n1') = 4%nat /\
    chunks_of FHED n1' = chunks_of FHED (cx_j 1) /\ chunks_of PHSF n1' = chunks_of PHSF (cx_j 1) /\
    chunks_of xATR n1' = chunks_of xATR (cx_j 1) /\
    chunks_of fPRM n1' <> chunks_of fPRM (cx_j 1) /\
    option_map p_mode (m_perm (n_meta (cx_j 1))) = Some 384 /\ option_map p_mode (m_perm (n_meta n1')) = Some 420 /\
    (exists new, ux_xlogical b' = Ok new /\ map e_data new = map e_data ux_tree /\ map e_name new = map e_name ux_tree /\
                 map e_perm new = [Some 448; Some 420; Some 511]) /\
    run_edit ex_hdr_tok ex_content_tok (fun _ => Ok []) (fun s _ => s) true true
             (Transform.CChmod (CliCodec.MNum 420)) 1 cx_sel b' = Ok b'.
Proof.
  split; [vm_compute; reflexivity|]. split; [exact ux_builds_writable|].
  cbv zeta. eexists. split; [vm_compute; reflexivity|]. split; [vm_compute; reflexivity|].
  split; [vm_compute; reflexivity|]. split; [vm_compute; reflexivity|]. split; [vm_compute; reflexivity|].
  split; [vm_compute; reflexivity|]. split; [vm_compute; reflexivity|]. split; [vm_compute; reflexivity|].
  split; [vm_compute; reflexivity|]. split; [vm_compute; reflexivity|].
  split; [vm_compute; intros H; discriminate H|]. split; [vm_compute; reflexivity|]. split; [vm_compute; reflexivity|].
  split; [eexists; split; [vm_compute; reflexivity|]; split; [vm_compute; reflexivity|]; split; vm_compute; reflexivity|].
  vm_compute. reflexivity.
Qed.

(* a constant buffer policy with more reads than the entry has data bytes meets reads_both / reads_any *)
Lemma const_reads_any k z m : 0 < k -> len (concat (n_data m)) < N.of_nat z -> reads_any (fun _ => repeat k z) m.
Proof.
  intros Hk Hl q Hq. split.
  - apply Forall_forall. intros x Hx. apply repeat_spec in Hx. subst x. exact Hk.
  - rewrite Hq. unfold len at 2. rewrite repeat_length. exact Hl.
Qed.

(* chmod 644 d/a.txt on the archive with a stored solid block (the three entries inside the block and again as normal
   entries): both strategies; every content is unchanged, the mode of d/a.txt changes inside the block and outside *)
Example chmod_solid_ex :
  (forall n, In n (map ux_build tx_jobs) -> reads_any tx_rb2 n) /\
  (exists b' s n1 n2 n3 new,
     run_edit ex_hdr_tok ex_content_tok ux_expand ux_rebuild true true (Transform.CChmod (CliCodec.MNum 420)) 1 cx_sel ux_solid_arch = Ok b' /\
     read_archive b' = Ok [RSolid s; RNormal n1; RNormal n2; RNormal n3] /\ wf_archive b' = true /\
     ux_xlogical b' = Ok new /\ map e_data new = map e_data (ux_tree ++ ux_tree) /\ map e_name new = map e_name (ux_tree ++ ux_tree) /\
     map e_perm new = [Some 448; Some 420; Some 511; Some 448; Some 420; Some 511]) /\
  (exists b' n1 n2 n3 n4 n5 n6 new,
     run_edit ex_hdr_tok ex_content_tok ux_expand ux_rebuild false true (Transform.CChmod (CliCodec.MNum 420)) 1 cx_sel ux_solid_arch = Ok b' /\
     read_archive b' = Ok [RNormal n1; RNormal n2; RNormal n3; RNormal n4; RNormal n5; RNormal n6] /\ wf_archive b' = true /\
     ux_xlogical b' = Ok new /\ map e_data new = map e_data (ux_tree ++ ux_tree) /\ map e_name new = map e_name (ux_tree ++ ux_tree) /\
     map e_perm new = [Some 448; Some 420; Some 511; Some 448; Some 420; Some 511]).
Proof.
  split.
  { intros n Hn. unfold tx_rb2. apply const_reads_any; [reflexivity|].
    revert n Hn. apply Forall_forall.
    match goal with |- Forall _ ?l => set (l0 := l); vm_compute in l0; subst l0 end.
    repeat (apply Forall_cons; [vm_compute; reflexivity|]). apply Forall_nil. }
  split.
  - eexists _, _, _, _, _, _. split; [vm_compute; reflexivity|]. split; [vm_compute; reflexivity|]. split; [vm_compute; reflexivity|].
    split; [vm_compute; reflexivity|]. split; [vm_compute; reflexivity|]. split; vm_compute; reflexivity.
  - eexists _, _, _, _, _, _, _, _. split; [vm_compute; reflexivity|]. split; [vm_compute; reflexivity|]. split; [vm_compute; reflexivity|].
    split; [vm_compute; reflexivity|]. split; [vm_compute; reflexivity|]. split; vm_compute; reflexivity.
Qed.
