(* OverlayExtractFacts.v — C02 continued: `pna extract` into an output directory that already holds something
   (an older extraction of the same or of another tree), with and without --overwrite.

   Model: Extract.extract_entry / extract_run on the file system of Model/Fs.v (the repaired extract.rs).
   What the code does at a destination that is occupied (ov_entry and the refusal lemmas):

                         destination holds:   nothing    regular file          directory              symbolic link
     file entry                               created    truncated IN PLACE    REFUSED (File::create)  link removed, new file
     directory entry                          created    REFUSED (mkdir)       kept (+chmod)           link removed, new directory
     symbolic-link entry                      created    file removed, link    directory removed WITH  link replaced
                                                                               ALL IT HOLDS, link
   and below a destination's ancestor that is a file (create_dir_all fails) or a link (refused by
   ensure_no_symlink_ancestor) nothing is written.  Without --overwrite every occupied destination is refused.
   "In place": the old inode is kept, so its mode (without --keep-permission) and the extended attributes that the
   new entry does not name survive (xattr::set only adds or replaces): stale_xattr_witness.

   Shape: CreateExtractFacts' simulation over the walk, with the start state generalised from the empty directory
   to any state `Base` accepts (OSim); the per-entry frame `opost` also covers removal of a directory's contents. *)
From PNA Require Import Base Name Fs Extract BaseFacts NameFacts ExtractFacts ConfineFacts CreateExtractFacts.
Require Import ZArith ZifyN ZifyNat ZifyBool Permutation Sorted.
Open Scope N_scope.

(* ---- small facts ------------------------------------------------------------------------------------- *)
Lemma path_eq_dec (a b : path) : {a = b} + {a <> b}.
Proof.
  destruct (path_eqb a b) eqn:E; [left; apply path_eqb_eq; exact E|right; apply neq_sym_path; exact E].
Qed.

Lemma strict_prefix_not_back (P a b : path) : P = a ++ b -> b <> [] -> is_prefix P a = false.
Proof.
  intros E Hb. destruct (is_prefix P a) eqn:H; [|reflexivity]. exfalso.
  apply is_prefix_ex in H. destruct H as [b' H]. subst a. rewrite <- app_assoc in E.
  apply app_inv_nil in E. apply app_eq_nil in E. tauto.
Qed.

Lemma is_prefix_trans2 a b c : is_prefix a b = true -> is_prefix b c = true -> is_prefix a c = true.
Proof.
  intros H1 H2. apply is_prefix_ex in H1. apply is_prefix_ex in H2. destruct H1 as [x ->]. destruct H2 as [y ->].
  apply is_prefix_ex. exists (x ++ y). rewrite app_assoc. reflexivity.
Qed.

Lemma is_prefix_antisym a b : is_prefix a b = true -> is_prefix b a = true -> a = b.
Proof.
  intros H1 H2. apply is_prefix_ex in H1. apply is_prefix_ex in H2. destruct H1 as [x ->]. destruct H2 as [y H2].
  rewrite <- app_assoc in H2. apply app_inv_nil in H2. apply app_eq_nil in H2. destruct H2 as [-> _].
  rewrite app_nil_r. reflexivity.
Qed.

(* the attribute table: writing attributes that are already there changes nothing *)
Lemma xattr_put_present k v : forall l, xtable l -> In (k, v) l -> xattr_put k v l = l.
Proof.
  induction l as [|[k' v'] r IH]; intros T Hin; [contradiction|].
  apply StronglySorted_inv in T. destruct T as [Tr Th]. cbn [xattr_put].
  destruct Hin as [Hin|Hin].
  - injection Hin as -> ->. rewrite bytes_eqb_refl. reflexivity.
  - rewrite Forall_forall in Th. pose proof (Th _ Hin) as Hlt. unfold key_lt in Hlt. cbn [fst] in Hlt.
    assert (E1 : bytes_eqb k k' = false).
    { destruct (bytes_eqb k k') eqn:E; [|reflexivity]. apply bytes_eqb_eq in E. subst k'. rewrite bytes_ltb_irrefl in Hlt. discriminate. }
    rewrite E1, (bytes_ltb_asym _ _ Hlt), IH by assumption. reflexivity.
Qed.

Lemma xattr_merge_present l : xtable l -> forall ys, incl ys l -> xattr_merge l ys = l.
Proof.
  intros T. unfold xattr_merge. induction ys as [|[k v] ys IH]; intros Hi; [reflexivity|]. cbn [fold_left fst snd].
  rewrite xattr_put_present; [apply IH; intros x Hx; apply Hi; right; exact Hx|exact T|apply Hi; left; reflexivity].
Qed.

Lemma xattr_merge_same l : xtable l -> xattr_merge l l = l.
Proof. intros T. apply xattr_merge_present; [exact T|apply incl_refl]. Qed.

(* ---- the state of a destination before an entry is written ---------------------------------------------- *)
Definition old_file (f : fs) (P : path) : option inode :=
  match nget (names f) P with Some (DFile i) => iget (inodes f) i | _ => None end.
Definition old_mode (f : fs) (P : path) : N :=
  match old_file f P with Some n => i_mode n | None => default_file_mode end.
Definition old_xattrs (f : fs) (P : path) : list (bytes * bytes) :=
  match old_file f P with Some n => i_xattrs n | None => [] end.

(* no two names share an inode, every named inode exists, inode numbers below `next` *)
Definition st_inj (f : fs) : Prop :=
  forall q q' i, nget (names f) q = Some (DFile i) -> nget (names f) q' = Some (DFile i) -> q = q'.
Definition st_full (f : fs) : Prop :=
  forall q i, nget (names f) q = Some (DFile i) -> exists n, iget (inodes f) i = Some n.
Definition wfst (f : fs) : Prop := fresh f /\ st_inj f /\ st_full f.

(* which occupied destinations an entry of the given kind can be written over *)
Definition dest_ok (m : list (path * dnode)) (P : path) (n : tnode) : Prop :=
  match n with
  | TFile _ _ _ _ => forall md, nget m P <> Some (DDir md)
  | TDir _ => forall i, nget m P <> Some (DFile i)
  | TLink _ => True
  end.

Lemma dest_ok_ext m m' P n : nget m P = nget m' P -> dest_ok m' P n -> dest_ok m P n.
Proof. intros E. destruct n; cbn [dest_ok]; try rewrite E; auto. Qed.

Section OV.
Variable out : path.
Hypothesis out_plain : Forall plain out.
Hypothesis out_nonnil : out <> [].
Variable c : copts.
Variable o : xopts.
Hypothesis guarded : o_guarded o = true.

(* what is at out/p after the entry for node n was written; fb is the state the entry met *)
Definition node_res (fb f : fs) (p : path) (n : tnode) : Prop :=
  match n with
  | TFile d m mt xs =>
    exists i ino, nget (names f) (out ++ p) = Some (DFile i) /\ iget (inodes f) i = Some ino /\
      i_content ino = d /\
      i_mode ino = (if kept_perm c o then mode_bits m else old_mode fb (out ++ p)) /\
      i_mtime ino = (if kept_time c o then Some mt else None) /\
      i_xattrs ino = (if kept_xattr c o then xattr_merge (old_xattrs fb (out ++ p)) xs else old_xattrs fb (out ++ p))
  | TDir m => exists md, nget (names f) (out ++ p) = Some (DDir md) /\ (kept_perm c o = true -> md = mode_bits m)
  | TLink tg => nget (names f) (out ++ p) = Some (DLink (normalize_reference (normalize_reference tg)))
  end.

(* the frame of one entry: the destination changes, its vacant ancestors become directories, what lies below it
   stays unless a directory there was replaced by a link; old inodes other than the destination's keep their content *)
Definition opost (f f' : fs) (p : path) : Prop :=
  (forall q, is_prefix q (out ++ p) = false -> is_prefix (out ++ p) q = false -> nget (names f') q = nget (names f) q) /\
  (forall q, is_prefix (out ++ p) q = true -> q <> out ++ p ->
     nget (names f') q = nget (names f) q \/
     (nget (names f') q = None /\ exists tg md, nget (names f') (out ++ p) = Some (DLink tg) /\ nget (names f) (out ++ p) = Some (DDir md))) /\
  (forall a b, out ++ p = a ++ b -> b <> [] ->
     (nget (names f) a <> None -> nget (names f') a = nget (names f) a) /\
     (a <> [] -> exists md, nget (names f') a = Some (DDir md))) /\
  (forall i, i < next f -> nget (names f) (out ++ p) <> Some (DFile i) -> iget (inodes f') i = iget (inodes f) i) /\
  next f <= next f' /\
  (forall i, nget (names f') (out ++ p) = Some (DFile i) ->
     nget (names f) (out ++ p) = Some (DFile i) \/ (next f <= i /\ i < next f')).

(* the part of extract_entry after the checks, the removal of a link at the destination and create_dir_all *)
Definition etail (e : xentry) (comps : list bytes) (p : path) (f : fs) : fs * bool :=
    dofs f <-
      (if N.eqb (e_kind e) 0 then
         dofs f <- create_file f p (e_data e);
         dofs f <- (if o_keep_time o then
                      match e_mtime e with Some t => set_mtime f p t | None => (f, true) end
                    else (f, true));
         (f, true)
       else if N.eqb (e_kind e) 1 then create_dir_all f p
       else if negb (utf8_valid (e_data e)) then (f, false)
       else if N.eqb (e_kind e) 2 then
         dofs f <- replace_existing o f p;
         symlink f (normalize_reference (e_data e)) p
       else
         let src := normalize_reference (e_data e) in
         if o_guarded o then
           match link_source comps src with
           | None => (f, false)
           | Some s =>
             if no_link_anc f out s then
               dofs f <- replace_existing o f p;
               hard_link f (out ++ s) p
             else (f, false)
           end
         else
           dofs f <- replace_existing o f p;
           hard_link f (legacy_source p src) p);
    dofs f <- (if o_keep_xattr o then lset_xattrs f p (e_xattrs e) else (f, true));
    (apply_perm o e f p, true).

Definition after_unlink (v : option dnode) : option dnode :=
  match v with Some (DLink _) => None | x => x end.

Lemma lexists_bound f P : Forall plain P -> dirs_above (names f) P -> nget (names f) P <> None -> lexists f P = true.
Proof.
  intros HP D H. unfold lexists. rewrite lstat_lit by assumption. destruct (nget (names f) P); [reflexivity|contradiction].
Qed.

Lemma ov_head f p e :
  Forall normal_component p -> p <> [] -> e_name e = path_str p ->
  clear_way (names f) (out ++ p) ->
  (nget (names f) (out ++ p) <> None -> dirs_above (names f) (out ++ p)) ->
  (nget (names f) (out ++ p) = None \/ o_overwrite o = true) ->
  exists f1, extract_entry o out e f = etail e p (out ++ p) f1 /\
    inodes f1 = inodes f /\ next f1 = next f /\ dirs_above (names f1) (out ++ p) /\
    (forall q, q <> out ++ p -> nget (names f) q <> None -> nget (names f1) q = nget (names f) q) /\
    (forall q, is_prefix q (out ++ p) = false -> nget (names f1) q = nget (names f) q) /\
    nget (names f1) (out ++ p) = after_unlink (nget (names f) (out ++ p)).
Proof.
  intros Hn Hp Hname C Hd Hov. pose proof (normal_plain_all _ Hn) as Pp.
  assert (HP : Forall plain (out ++ p)) by (apply Forall_app; split; assumption).
  unfold extract_entry. cbv zeta. rewrite Hname, (name_roundtrip _ Hn), guarded. cbn [andb].
  destruct (checks_pass out out_plain f p Pp Hp C) as (K1 & K2 & K3 & K4).
  rewrite K1, K2. cbn [andb negb].
  assert (Hlx : negb (o_overwrite o) && lexists f (out ++ p) = false).
  { destruct Hov as [H|H]; [rewrite (K4 H); apply andb_false_r|rewrite H; reflexivity]. }
  rewrite Hlx.
  (* the link at the destination, if any, is removed *)
  assert (HU : exists fa, (if is_link f (out ++ p) then unlink f (out ++ p) else (f, true)) = (fa, true) /\
                 inodes fa = inodes f /\ next fa = next f /\
                 (forall q, q <> out ++ p -> nget (names fa) q = nget (names f) q) /\
                 nget (names fa) (out ++ p) = after_unlink (nget (names f) (out ++ p))).
  { destruct (nget (names f) (out ++ p)) as [[i|md|tg]|] eqn:E.
    - rewrite K3 by (eapply nolink_file; exact E). exists f. repeat split.
      cbn [after_unlink]. exact E.
    - rewrite K3 by (eapply nolink_dir; exact E). exists f. repeat split. cbn [after_unlink]. exact E.
    - assert (D : dirs_above (names f) (out ++ p)) by (apply Hd; discriminate).
      assert (L : is_link f (out ++ p) = true) by (unfold is_link; rewrite lstat_lit by assumption; rewrite E; reflexivity).
      rewrite L. unfold unlink. rewrite resolve_nf by assumption. rewrite E.
      exists (with_names f (ndel (names f) (out ++ p))). split; [reflexivity|]. split; [reflexivity|]. split; [reflexivity|].
      split; [intros q Hq; cbn [names with_names]; apply nget_ndel_other; auto|].
      cbn [names with_names after_unlink]. apply nget_ndel_same.
    - rewrite K3 by (apply nolink_none; exact E). exists f. repeat split. cbn [after_unlink]. exact E. }
  destruct HU as (fa & EU & Ui & Un & Uq & Ud). rewrite EU. cbn [andthen].
  assert (Ca : clear_way (names fa) (out ++ p)).
  { intros a b E Ha Hb. rewrite Uq by (rewrite E; apply app_neq_strict; exact Hb). apply (C a b E Ha Hb). }
  destruct (prelude out out_plain o guarded fa p Pp Hp Ca) as (f1 & Hc & Hi & Hnx & D1 & Q1 & Q2 & Q3).
  rewrite Hc. cbn [andthen]. exists f1. split; [unfold etail; rewrite guarded; reflexivity|].
  split; [congruence|]. split; [congruence|]. split; [exact D1|].
  split; [|split].
  - intros q Hq Hb. rewrite Q1 by (rewrite Uq by exact Hq; exact Hb). apply Uq. exact Hq.
  - intros q Hq. rewrite Q2 by exact Hq. apply Uq. intros ->. rewrite is_prefix_refl in Hq. discriminate.
  - rewrite Q3. exact Ud.
Qed.

(* from the state after the parents were made to the frame of the whole entry *)
Lemma opost_intro f f1 f' p :
  inodes f1 = inodes f -> next f1 = next f -> dirs_above (names f1) (out ++ p) ->
  (forall q, q <> out ++ p -> nget (names f) q <> None -> nget (names f1) q = nget (names f) q) ->
  (forall q, is_prefix q (out ++ p) = false -> nget (names f1) q = nget (names f) q) ->
  (forall q, q <> out ++ p -> is_prefix (out ++ p) q = false -> nget (names f') q = nget (names f1) q) ->
  (forall q, is_prefix (out ++ p) q = true -> q <> out ++ p ->
     nget (names f') q = nget (names f1) q \/
     (nget (names f') q = None /\ exists tg md, nget (names f') (out ++ p) = Some (DLink tg) /\ nget (names f) (out ++ p) = Some (DDir md))) ->
  (forall i, i < next f -> nget (names f) (out ++ p) <> Some (DFile i) -> iget (inodes f') i = iget (inodes f1) i) ->
  next f <= next f' ->
  (forall i, nget (names f') (out ++ p) = Some (DFile i) ->
     nget (names f) (out ++ p) = Some (DFile i) \/ (next f <= i /\ i < next f')) ->
  opost f f' p.
Proof.
  intros Hi Hn D K1 Kpre Hq Hbelow Hino Hnx Hfr. split; [|split; [|split; [|split; [|split]]]]; try assumption.
  - intros q Hp Hp2. rewrite Hq; [apply Kpre; exact Hp| |exact Hp2]. intros ->. rewrite is_prefix_refl in Hp. discriminate.
  - intros q Hp Hne. destruct (Hbelow q Hp Hne) as [H|H]; [left|right; exact H].
    rewrite H. apply Kpre. destruct (is_prefix q (out ++ p)) eqn:E; [|reflexivity]. exfalso.
    apply Hne. apply is_prefix_antisym; assumption.
  - intros a b E Hb.
    assert (Ha : a <> out ++ p) by (rewrite E; apply app_neq_strict; exact Hb).
    assert (Hb2 : is_prefix (out ++ p) a = false) by (eapply strict_prefix_not_back; eassumption).
    split.
    + intros Hbound. rewrite Hq by assumption. apply K1; assumption.
    + intros Hne. rewrite Hq by assumption. apply (D a b E Hne Hb).
  - intros i Hlt Hni. rewrite Hino by assumption. rewrite Hi. reflexivity.
Qed.

(* ---- a regular file: over nothing, over a regular file (in place), over a link (removed first) ------------ *)
Lemma ov_file f p d m mt xs :
  Forall normal_component p -> p <> [] ->
  clear_way (names f) (out ++ p) ->
  (nget (names f) (out ++ p) <> None -> dirs_above (names f) (out ++ p)) ->
  (nget (names f) (out ++ p) = None \/ o_overwrite o = true) ->
  (forall md, nget (names f) (out ++ p) <> Some (DDir md)) ->
  (forall i, nget (names f) (out ++ p) = Some (DFile i) -> exists n0, iget (inodes f) i = Some n0) ->
  fresh f ->
  exists f', extract_entry o out (entry_of c p (TFile d m mt xs)) f = (f', true) /\ opost f f' p /\
             node_res f f' p (TFile d m mt xs).
Proof.
  intros Hn Hp C Hd Hov Hnd Hfull Hfresh. pose proof (normal_plain_all _ Hn) as Pp.
  assert (HP : Forall plain (out ++ p)) by (apply Forall_app; split; assumption).
  set (e := entry_of c p (TFile d m mt xs)).
  destruct (ov_head f p e Hn Hp (entry_name c p _) C Hd Hov) as (f1 & He & Hi & Hnx & D1 & Q1 & Q2 & Q3).
  rewrite He. unfold etail. change (N.eqb (e_kind e) 0) with true. cbv iota.
  (* File::create *)
  assert (HC : exists f2 i ino0, create_file f1 (out ++ p) (e_data e) = (f2, true) /\ file_st f2 (out ++ p) i ino0 /\
                 (forall q, q <> out ++ p -> nget (names f2) q = nget (names f1) q) /\
                 (forall j, j <> i -> iget (inodes f2) j = iget (inodes f1) j) /\
                 next f2 = next f1 + 1 /\
                 i_content ino0 = d /\ i_mode ino0 = old_mode f (out ++ p) /\ i_mtime ino0 = None /\
                 i_xattrs ino0 = old_xattrs f (out ++ p) /\
                 (nget (names f) (out ++ p) = Some (DFile i) \/ (i = next f /\ forall j, nget (names f) (out ++ p) <> Some (DFile j)))).
  { unfold create_file, old_mode, old_xattrs, old_file.
    destruct (nget (names f) (out ++ p)) as [[i|md|tg]|] eqn:E; cbn [after_unlink] in Q3.
    - destruct (Hfull i eq_refl) as [n0 I0]. rewrite resolve_fl; [|exact HP|exact D1|eapply nolink_file; exact Q3].
      rewrite Q3, Hi, I0.
      eexists. exists i. eexists. split; [reflexivity|].
      split; [split; [exact D1|split; [exact Q3|cbn [inodes]; apply iget_iset_same]]|repeat split].
      + intros j Hj. cbn [inodes]. apply iget_iset_other. auto.
      + left. reflexivity.
    - exfalso. exact (Hnd md eq_refl).
    - rewrite resolve_fl; [|exact HP|exact D1|apply nolink_none; exact Q3]. rewrite Q3.
      eexists. exists (next f1). eexists. split; [reflexivity|].
      split; [split; [|split; [cbn [names]; apply nget_nset_same|cbn [inodes]; apply iget_iset_same]]|repeat split].
      + intros a b Eab Ha Hb. destruct (D1 a b Eab Ha Hb) as [md H]. exists md. cbn [names].
        rewrite nget_nset_other; [exact H|]. rewrite Eab. apply not_eq_sym. apply app_neq_strict. exact Hb.
      + intros q Hq. cbn [names]. apply nget_nset_other. auto.
      + intros j Hj. cbn [inodes]. apply iget_iset_other. auto.
      + right. split; [exact Hnx|]. intros j. discriminate.
    - rewrite resolve_fl; [|exact HP|exact D1|apply nolink_none; exact Q3]. rewrite Q3.
      eexists. exists (next f1). eexists. split; [reflexivity|].
      split; [split; [|split; [cbn [names]; apply nget_nset_same|cbn [inodes]; apply iget_iset_same]]|repeat split].
      + intros a b Eab Ha Hb. destruct (D1 a b Eab Ha Hb) as [md H]. exists md. cbn [names].
        rewrite nget_nset_other; [exact H|]. rewrite Eab. apply not_eq_sym. apply app_neq_strict. exact Hb.
      + intros q Hq. cbn [names]. apply nget_nset_other. auto.
      + intros j Hj. cbn [inodes]. apply iget_iset_other. auto.
      + right. split; [exact Hnx|]. intros j. discriminate. }
  destruct HC as (f2 & i & ino0 & EC & S2 & N2 & I2 & X2 & C0 & M0 & T0 & A0 & Hwhich). rewrite EC. cbn [andthen].
  destruct (stage_time o e f2 (out ++ p) _ _ HP S2) as (f3 & n3 & E3 & S3 & U3 & C3 & M3 & X3 & T3). rewrite E3. cbn [andthen].
  (* extended attributes, then owner + mode *)
  destruct (stage_xattr o e f3 (out ++ p) _ _ HP S3) as (f4 & n4 & E4 & S4 & U4 & C4 & M4 & T4 & X4).
  rewrite E4. cbn [andthen].
  destruct (stage_perm o e f4 (out ++ p) _ _ HP S4) as (n5 & S5 & U5 & C5 & T5 & X5 & M5).
  set (f5 := apply_perm o e f4 (out ++ p)) in *.
  exists f5. split; [reflexivity|].
  pose proof (upd_trans _ _ _ _ (upd_trans _ _ _ _ U3 U4) U5) as (UN & UX & UI).
  assert (Hilt : forall j, j < next f -> nget (names f) (out ++ p) <> Some (DFile j) -> j <> i).
  { intros j Hj Hnj ->. destruct Hwhich as [H|[H _]]; [contradiction|lia]. }
  split.
  - eapply (opost_intro f f1 f5 p); try eassumption.
    + intros q Hq _. rewrite UN. apply N2. exact Hq.
    + intros q _ Hq. left. rewrite UN. apply N2. exact Hq.
    + intros j Hj Hnj. rewrite UI by (apply Hilt; assumption). apply I2. apply Hilt; assumption.
    + rewrite UX, X2. lia.
    + intros j. rewrite UN. destruct S2 as (_ & N2' & _). rewrite N2'. intros [= <-].
      destruct Hwhich as [H|[H _]]; [left; exact H|right; rewrite UX, X2; lia].
  - destruct S5 as (_ & N5 & I5). exists i, n5. split; [exact N5|]. split; [exact I5|].
    split; [rewrite C5, C4, C3; exact C0|].
    unfold kept_perm, kept_time, kept_xattr. split; [|split].
    + rewrite M5, M4, M3, M0. subst e. cbn [entry_of e_perm].
      destruct (c_keep_perm c), (o_keep_perm o); reflexivity.
    + rewrite T5, T4, T3, T0. subst e. cbn [entry_of e_mtime].
      destruct (c_keep_time c), (o_keep_time o); reflexivity.
    + rewrite X5, X4, X3, A0. subst e. cbn [entry_of e_xattrs].
      destruct (c_keep_xattr c), (o_keep_xattr o); reflexivity.
Qed.

(* ---- a directory: over nothing, over a directory (kept), over a link (removed first) ------------------------- *)
Lemma ov_dir f p m :
  Forall normal_component p -> p <> [] ->
  clear_way (names f) (out ++ p) ->
  (nget (names f) (out ++ p) <> None -> dirs_above (names f) (out ++ p)) ->
  (nget (names f) (out ++ p) = None \/ o_overwrite o = true) ->
  (forall i, nget (names f) (out ++ p) <> Some (DFile i)) ->
  exists f', extract_entry o out (entry_of c p (TDir m)) f = (f', true) /\ opost f f' p /\ node_res f f' p (TDir m).
Proof.
  intros Hn Hp C Hd Hov Hnf. pose proof (normal_plain_all _ Hn) as Pp.
  assert (HP : Forall plain (out ++ p)) by (apply Forall_app; split; assumption).
  set (e := entry_of c p (TDir m)).
  destruct (ov_head f p e Hn Hp (entry_name c p _) C Hd Hov) as (f1 & He & Hi & Hnx & D1 & Q1 & Q2 & Q3).
  rewrite He. unfold etail. change (N.eqb (e_kind e) 0) with false. change (N.eqb (e_kind e) 1) with true. cbv iota.
  assert (Hcl : nget (names f1) (out ++ p) = None \/ exists md, nget (names f1) (out ++ p) = Some (DDir md)).
  { rewrite Q3. destruct (nget (names f) (out ++ p)) as [[i|md|tg]|] eqn:E; cbn [after_unlink]; eauto.
    exfalso. exact (Hnf i eq_refl). }
  destruct (cda_spec (out ++ p) [] f1) as (f2 & Hc2 & Hi2 & Hn2 & J1 & J2 & J3).
  { exact HP. }
  { intros a b E Ha. destruct a; [contradiction|discriminate]. }
  { intros a b E Ha. cbn [app]. destruct b as [|y b].
    - rewrite app_nil_r in E. subst a. exact Hcl.
    - right. apply (D1 a (y :: b) E Ha). discriminate. }
  unfold create_dir_all. rewrite Hc2. cbn [andthen].
  assert (Hd2 : exists md2, nget (names f2) (out ++ p) = Some (DDir md2)).
  { destruct Hcl as [H|[md H]].
    - exists default_dir_mode. apply J2; [exact H|]. exists (out ++ p), []. rewrite app_nil_r. repeat split.
      intros E. apply app_eq_nil in E. tauto.
    - exists md. rewrite J1; [exact H|rewrite H; discriminate]. }
  assert (Hq2 : forall q, q <> out ++ p -> nget (names f2) q = nget (names f1) q).
  { intros q Hq. destruct (nget (names f1) q) eqn:E; [rewrite <- E; apply J1; rewrite E; discriminate|].
    apply J3; [exact E|]. intros (a & b & E2 & Ha & ->). cbn [app] in *. destruct b as [|y b].
    - rewrite app_nil_r in E2. auto.
    - destruct (D1 a (y :: b) E2 Ha) as [md H]; [discriminate|]. rewrite H in E. discriminate. }
  assert (D2 : dirs_above (names f2) (out ++ p)).
  { intros a b E Ha Hb. destruct (D1 a b E Ha Hb) as [md H]. exists md. rewrite Hq2; [exact H|].
    rewrite E. apply app_neq_strict. exact Hb. }
  destruct Hd2 as [md2 Hd2].
  assert (L2 : is_link f2 (out ++ p) = false).
  { unfold is_link. rewrite lstat_lit by assumption. rewrite Hd2. reflexivity. }
  change (e_xattrs e) with (@nil (bytes * bytes)). cbn [lset_xattrs]. rewrite if_same_x. cbn [andthen].
  exists (apply_perm o e f2 (out ++ p)). split; [reflexivity|].
  assert (EP : (apply_perm o e f2 (out ++ p) = f2 /\ (o_keep_perm o && c_keep_perm c = false)) \/
               (apply_perm o e f2 (out ++ p) = with_names f2 (nset (names f2) (out ++ p) (DDir (m mod 4096))))).
  { unfold apply_perm. destruct (o_keep_perm o); [|left; split; reflexivity]. subst e. cbn [entry_of e_perm].
    destruct (c_keep_perm c); [|left; split; reflexivity]. right.
    rewrite L2, andb_false_r. rewrite (chmod_dir_lit f2 (out ++ p) md2 _ HP D2 Hd2). reflexivity. }
  destruct EP as [[EP Hk]|EP]; rewrite EP.
  - split.
    + eapply (opost_intro f f1 f2 p); try eassumption.
      * intros q Hq _. apply Hq2. exact Hq.
      * intros q _ Hq. left. apply Hq2. exact Hq.
      * intros i _ _. rewrite Hi2. reflexivity.
      * lia.
      * intros i. rewrite Hd2. discriminate.
    + exists md2. split; [exact Hd2|]. unfold kept_perm. intros H. exfalso.
      rewrite andb_comm in H. congruence.
  - split.
    + eapply (opost_intro f f1 _ p); try eassumption.
      * intros q Hq _. cbn [names with_names]. rewrite nget_nset_other by auto. apply Hq2. exact Hq.
      * intros q _ Hq. left. cbn [names with_names]. rewrite nget_nset_other by auto. apply Hq2. exact Hq.
      * intros i _ _. cbn [inodes with_names]. rewrite Hi2. reflexivity.
      * cbn [next with_names]. lia.
      * intros i. cbn [names with_names]. rewrite nget_nset_same. discriminate.
    + exists (m mod 4096). split; [cbn [names with_names]; apply nget_nset_same|]. intros _. reflexivity.
Qed.

(* ---- a symbolic link: over nothing, over a link, over a regular file (removed), over a directory (removed with
   everything it holds: utils::fs::remove = remove_dir_all) ------------------------------------------------------ *)
Lemma ov_link f p tg :
  Forall normal_component p -> p <> [] -> tg <> [] -> utf8_valid tg = true ->
  clear_way (names f) (out ++ p) ->
  (nget (names f) (out ++ p) <> None -> dirs_above (names f) (out ++ p)) ->
  (nget (names f) (out ++ p) = None \/ o_overwrite o = true) ->
  exists f', extract_entry o out (entry_of c p (TLink tg)) f = (f', true) /\ opost f f' p /\ node_res f f' p (TLink tg).
Proof.
  intros Hn Hp Ht Hu C Hd Hov. pose proof (normal_plain_all _ Hn) as Pp.
  assert (HP : Forall plain (out ++ p)) by (apply Forall_app; split; assumption).
  set (e := entry_of c p (TLink tg)).
  destruct (ov_head f p e Hn Hp (entry_name c p _) C Hd Hov) as (f1 & He & Hi & Hnx & D1 & Q1 & Q2 & Q3).
  rewrite He. unfold etail.
  change (N.eqb (e_kind e) 0) with false. change (N.eqb (e_kind e) 1) with false. change (N.eqb (e_kind e) 2) with true.
  change (e_data e) with (normalize_reference tg). rewrite (utf8_valid_nr _ Hu). cbn [negb]. cbv iota.
  assert (L1 : nolink (names f1) (out ++ p)).
  { intros t0. rewrite Q3. destruct (nget (names f) (out ++ p)) as [[i|md|t1]|]; cbn [after_unlink]; discriminate. }
  (* whatever is at the destination is removed *)
  assert (HR : exists f2, replace_existing o f1 (out ++ p) = (f2, true) /\ inodes f2 = inodes f1 /\ next f2 = next f1 /\
                 nget (names f2) (out ++ p) = None /\
                 (forall q, q <> out ++ p -> is_prefix (out ++ p) q = false -> nget (names f2) q = nget (names f1) q) /\
                 (forall q, is_prefix (out ++ p) q = true -> q <> out ++ p ->
                    nget (names f2) q = nget (names f1) q \/
                    (nget (names f2) q = None /\ exists md, nget (names f) (out ++ p) = Some (DDir md)))).
  { unfold replace_existing, exists_, remove, is_dir. rewrite stat_lit by assumption.
    destruct (nget (names f) (out ++ p)) as [[i|md|t1]|] eqn:E; cbn [after_unlink] in Q3; rewrite Q3.
    - assert (Eo : o_overwrite o = true) by (destruct Hov as [H|H]; [discriminate|exact H]). rewrite Eo. cbn [andb].
      unfold unlink. rewrite resolve_nf by assumption. rewrite Q3.
      eexists. split; [reflexivity|]. split; [reflexivity|]. split; [reflexivity|].
      split; [cbn [names with_names]; apply nget_ndel_same|].
      split; [intros q Hq _|intros q _ Hq; left]; cbn [names with_names]; apply nget_ndel_other; auto.
    - assert (Eo : o_overwrite o = true) by (destruct Hov as [H|H]; [discriminate|exact H]). rewrite Eo. cbn [andb].
      unfold remove_dir_all. rewrite resolve_nf by assumption. rewrite Q3.
      eexists. split; [reflexivity|]. split; [reflexivity|]. split; [reflexivity|].
      split; [cbn [names with_names]; rewrite nget_ndel_tree, is_prefix_refl; reflexivity|].
      split.
      + intros q _ Hq. cbn [names with_names]. rewrite nget_ndel_tree, Hq. reflexivity.
      + intros q Hq _. right. split; [cbn [names with_names]; rewrite nget_ndel_tree, Hq; reflexivity|eauto].
    - rewrite andb_false_r. exists f1. repeat split; auto.
    - rewrite andb_false_r. exists f1. repeat split; auto. }
  destruct HR as (f2 & ER & Hi2 & Hn2 & V2 & R1 & R2). rewrite ER. cbn [andthen].
  assert (D2 : dirs_above (names f2) (out ++ p)).
  { intros a b E Ha Hb. destruct (D1 a b E Ha Hb) as [md H]. exists md. rewrite R1; [exact H| |].
    - rewrite E. apply app_neq_strict. exact Hb.
    - eapply strict_prefix_not_back; eassumption. }
  unfold symlink. rewrite resolve_nf by assumption. rewrite V2.
  pose proof (nr_nonnil _ (nr_nonnil _ Ht)) as Hnn.
  destruct (normalize_reference (normalize_reference tg)) as [|b0 tl0] eqn:Etg; [contradiction|]. rewrite <- Etg. cbn [andthen].
  set (f3 := with_names f2 (nset (names f2) (out ++ p) (DLink (normalize_reference (normalize_reference tg))))).
  assert (D3 : dirs_above (names f3) (out ++ p)).
  { intros a b E Ha Hb. destruct (D2 a b E Ha Hb) as [md H]. exists md. cbn [names f3 with_names].
    rewrite nget_nset_other; [exact H|]. rewrite E. apply not_eq_sym. apply app_neq_strict. exact Hb. }
  assert (L3 : is_link f3 (out ++ p) = true).
  { unfold is_link. rewrite lstat_lit by assumption. cbn [names f3 with_names]. rewrite nget_nset_same. reflexivity. }
  assert (EP : apply_perm o e f3 (out ++ p) = f3).
  { unfold apply_perm. destruct (o_keep_perm o); [|reflexivity]. destruct (e_perm e); [|reflexivity].
    rewrite guarded, L3. reflexivity. }
  change (e_xattrs e) with (@nil (bytes * bytes)). cbn [lset_xattrs]. rewrite if_same_x. cbn [andthen]. rewrite EP.
  exists f3. split; [reflexivity|]. split.
  - eapply (opost_intro f f1 f3 p); try eassumption.
    + intros q Hq Hb. cbn [names f3 with_names]. rewrite nget_nset_other by auto. apply R1; assumption.
    + intros q Hb Hq. cbn [names f3 with_names]. rewrite nget_nset_same, nget_nset_other by auto.
      destruct (R2 q Hb Hq) as [H|[H [md Hm]]]; [left; exact H|right]. split; [exact H|]. eauto.
    + intros i _ _. cbn [inodes f3 with_names]. rewrite Hi2. reflexivity.
    + cbn [next f3 with_names]. lia.
    + intros i. cbn [names f3 with_names]. rewrite nget_nset_same. discriminate.
  - cbn [node_res names f3 with_names]. apply nget_nset_same.
Qed.

(* one entry of create's archive, whatever its kind *)
Lemma ov_entry f p n :
  Forall normal_component p -> p <> [] -> node_wf n ->
  clear_way (names f) (out ++ p) ->
  (nget (names f) (out ++ p) <> None -> dirs_above (names f) (out ++ p)) ->
  (nget (names f) (out ++ p) = None \/ o_overwrite o = true) ->
  dest_ok (names f) (out ++ p) n -> st_full f -> fresh f ->
  exists f', extract_entry o out (entry_of c p n) f = (f', true) /\ opost f f' p /\ node_res f f' p n.
Proof.
  intros Hn Hp Hw C Hd Hov Hk Hfull Hfresh. destruct n as [d m mt xs|m|tg].
  - apply ov_file; try assumption. intros i H. exact (Hfull _ _ H).
  - apply ov_dir; assumption.
  - destruct Hw as [Ht Hu]. apply ov_link; assumption.
Qed.

(* without --overwrite an occupied destination is refused and nothing changes *)
Lemma ov_refused f p e :
  Forall normal_component p -> p <> [] -> e_name e = path_str p -> o_overwrite o = false ->
  clear_way (names f) (out ++ p) -> dirs_above (names f) (out ++ p) -> nget (names f) (out ++ p) <> None ->
  extract_entry o out e f = (f, false).
Proof.
  intros Hn Hp Hname Eo C D Hb. pose proof (normal_plain_all _ Hn) as Pp.
  assert (HP : Forall plain (out ++ p)) by (apply Forall_app; split; assumption).
  unfold extract_entry. cbv zeta. rewrite Hname, (name_roundtrip _ Hn), guarded. cbn [andb].
  destruct (checks_pass out out_plain f p Pp Hp C) as (K1 & K2 & _ & _).
  rewrite K1, K2, Eo, (lexists_bound f _ HP D Hb). reflexivity.
Qed.

(* ---- consequences of the frame ---------------------------------------------------------------------------------- *)
Lemma opost_keeps f f' p q : opost f f' p -> q <> out ++ p -> nget (names f) q <> None ->
  nget (names f') q = nget (names f) q \/
  (is_prefix (out ++ p) q = true /\ nget (names f') q = None /\
   exists tg md, nget (names f') (out ++ p) = Some (DLink tg) /\ nget (names f) (out ++ p) = Some (DDir md)).
Proof.
  intros (O1 & O2 & O3 & _) Hq Hb. destruct (is_prefix q (out ++ p)) eqn:E.
  - left. apply is_prefix_ex in E. destruct E as [b E]. destruct b as [|y b]; [rewrite app_nil_r in E; congruence|].
    apply (O3 q (y :: b) E); [discriminate|exact Hb].
  - destruct (is_prefix (out ++ p) q) eqn:E2; [|left; apply O1; assumption].
    destruct (O2 q E2 Hq) as [H|[H1 H2]]; [left; exact H|right]. split; [reflexivity|]. split; assumption.
Qed.

Lemma opost_back f f' p q : opost f f' p -> is_prefix q (out ++ p) = false -> nget (names f') q <> None ->
  nget (names f') q = nget (names f) q.
Proof.
  intros (O1 & O2 & _) E Hb. destruct (is_prefix (out ++ p) q) eqn:E2; [|apply O1; assumption].
  destruct (O2 q E2) as [H|[H _]]; [intros ->; rewrite is_prefix_refl in E; discriminate|exact H|contradiction].
Qed.

Lemma opost_anc_dir f f' p q b : opost f f' p -> (exists md, nget (names f) [] = Some (DDir md)) ->
  out ++ p = q ++ b -> b <> [] -> exists md, nget (names f') q = Some (DDir md).
Proof.
  intros (_ & _ & O3 & _) [md H0] E Hb. destruct q as [|x q].
  - exists md. rewrite <- H0. apply (O3 [] b E Hb). rewrite H0. discriminate.
  - apply (O3 (x :: q) b E Hb). discriminate.
Qed.

Lemma node_res_bound fb f p n : node_res fb f p n -> nget (names f) (out ++ p) <> None.
Proof.
  destruct n; cbn [node_res].
  - intros (i & ino & H & _). rewrite H. discriminate.
  - intros (md & H & _). rewrite H. discriminate.
  - intros H. rewrite H. discriminate.
Qed.

Lemma node_res_link fb f p n tg : node_res fb f p n -> nget (names f) (out ++ p) = Some (DLink tg) -> exists tg', n = TLink tg'.
Proof.
  destruct n; cbn [node_res].
  - intros (i & ino & H & _). rewrite H. discriminate.
  - intros (md & H & _). rewrite H. discriminate.
  - eauto.
Qed.

(* ---- the state after a prefix of the walk, from any start state ------------------------------------------------------ *)
Variable t : tree.
Hypothesis WF : wf_tree t.
Hypothesis TOK : tree_ok t.
Variable f0 : fs.

(* what the start state must offer: out is a directory; above every destination only directories or nothing;
   an occupied destination has its ancestors; the kind at an occupied destination can be written over *)
Record Base : Prop := {
  B_chain : forall a b, out = a ++ b -> exists md, nget (names f0) a = Some (DDir md);
  B_clear : forall p, kept c t p = true -> clear_way (names f0) (out ++ p);
  B_tree : forall p a b, kept c t p = true -> nget (names f0) (out ++ p) <> None -> p = a ++ b -> b <> [] ->
           nget (names f0) (out ++ a) <> None;
  B_dest : forall p n, tget t p = Some n -> collected c n = true -> dest_ok (names f0) (out ++ p) n;
  B_wf : wfst f0 }.

(* q lies in a directory of the start state that a link entry replaced *)
Definition dir_replaced (done : list path) (q : path) : Prop :=
  exists p tg md, In p done /\ tget t p = Some (TLink tg) /\ nget (names f0) (out ++ p) = Some (DDir md) /\
                  is_prefix (out ++ p) q = true.

Record OSim (f : fs) (done : list path) : Prop := {
  S_chain : forall a b, out = a ++ b -> exists md, nget (names f) a = Some (DDir md);
  S_keep : forall q, nget (names f0) q <> None -> (forall p, In p done -> q <> out ++ p) -> ~ dir_replaced done q ->
           nget (names f) q = nget (names f0) q /\
           (forall i, nget (names f0) q = Some (DFile i) -> iget (inodes f) i = iget (inodes f0) i);
  S_bound : forall q, nget (names f) q <> None ->
            nget (names f0) q <> None \/ exists p, In p done /\ is_prefix q (out ++ p) = true;
  S_anc : forall p a b, In p done -> p = a ++ b -> b <> [] -> exists md, nget (names f) (out ++ a) = Some (DDir md);
  S_node : forall p n, In p done -> tget t p = Some n -> node_res f0 f p n;
  S_wf : wfst f }.

Lemma kept_inv p : kept c t p = true -> exists n, tget t p = Some n /\ collected c n = true.
Proof. unfold kept. destruct (tget t p) as [n|]; [eauto|discriminate]. Qed.

Lemma kept_intro p n : tget t p = Some n -> collected c n = true -> kept c t p = true.
Proof. intros H1 H2. unfold kept. rewrite H1. exact H2. Qed.

Lemma link_no_below p q tg n : tget t p = Some (TLink tg) -> tget t q = Some n -> strictly_below p q -> False.
Proof. intros H1 H2 Hb. destruct (tget_shape t TOK p q _ _ H1 H2 Hb) as [md H]. discriminate. Qed.

Lemma file_no_below p q d m mt xs n : tget t p = Some (TFile d m mt xs) -> tget t q = Some n -> strictly_below p q -> False.
Proof. intros H1 H2 Hb. destruct (tget_shape t TOK p q _ _ H1 H2 Hb) as [md H]. discriminate. Qed.

Lemma prefix_rel a b : is_prefix (out ++ a) (out ++ b) = true -> exists x, b = a ++ x.
Proof. rewrite is_prefix_app_l. apply is_prefix_ex. Qed.

(* a proper ancestor (below out) of a kept path, in the current state *)
Lemma anc_state f done p r b :
  Base -> OSim f done -> (forall q, In q done -> kept c t q = true) -> kept c t p = true ->
  p = r ++ b -> b <> [] -> r <> [] ->
  (nget (names f) (out ++ r) = None /\ nget (names f0) (out ++ r) = None /\ forall p', In p' done -> is_prefix r p' = false) \/
  exists md, nget (names f) (out ++ r) = Some (DDir md).
Proof.
  intros B S Hd Hk E Hb Hr. destruct (kept_inv p Hk) as (n & Hp & _).
  destruct (in_dec path_eq_dec r done) as [Hin|Hnin].
  - right. destruct (kept_inv r (Hd r Hin)) as (m' & Hm' & _).
    destruct (tget_shape t TOK r p _ _ Hm' Hp) as [md ->]; [exists b; auto|].
    destruct (S_node f done S r _ Hin Hm') as (md' & H & _). eauto.
  - assert (Hstrict : forall p', In p' done -> is_prefix r p' = true -> exists md, nget (names f) (out ++ r) = Some (DDir md)).
    { intros p' Hin' Hpre. apply is_prefix_ex in Hpre. destruct Hpre as [b' ->]. destruct b' as [|y b'].
      - rewrite app_nil_r in Hin'. contradiction.
      - apply (S_anc f done S (r ++ y :: b') r (y :: b') Hin' eq_refl). discriminate. }
    destruct (nget (names f0) (out ++ r)) as [v|] eqn:E0.
    + right. destruct (S_keep f done S (out ++ r)) as [K _].
      * rewrite E0. discriminate.
      * intros p' Hin' Eq. apply app_inv_head in Eq. subst p'. contradiction.
      * intros (p' & tg & md & Hin' & Hl & _ & Hpre). apply prefix_rel in Hpre. destruct Hpre as [x ->].
        apply (link_no_below p' p tg n Hl Hp). exists (x ++ b). split; [|rewrite E, app_assoc; reflexivity].
        intros E2. apply app_eq_nil in E2. tauto.
      * rewrite K. destruct (B_clear B p Hk (out ++ r) b) as [H|H]; [rewrite E, app_assoc; reflexivity| |exact Hb| |exact H].
        -- intros E2. apply app_eq_nil in E2. tauto.
        -- rewrite E0 in H. discriminate.
    + destruct (nget (names f) (out ++ r)) as [v|] eqn:E1.
      * right. destruct (S_bound f done S (out ++ r)) as [H|(p' & Hin' & Hpre)]; [rewrite E1; discriminate|contradiction|].
        rewrite is_prefix_app_l in Hpre. apply (Hstrict p' Hin' Hpre).
      * left. split; [reflexivity|]. split; [reflexivity|]. intros p' Hin'.
        destruct (is_prefix r p') eqn:Hpre; [|reflexivity]. destruct (Hstrict p' Hin' Hpre) as [md H]. discriminate.
Qed.

(* what the state offers to the next item *)
Lemma turn f done p n :
  Base -> OSim f done -> (forall q, In q done -> kept c t q = true) ->
  tget t p = Some n -> collected c n = true -> ~ In p done ->
  clear_way (names f) (out ++ p) /\
  (nget (names f) (out ++ p) <> None -> dirs_above (names f) (out ++ p)) /\
  ((nget (names f) (out ++ p) = nget (names f0) (out ++ p) /\ old_file f (out ++ p) = old_file f0 (out ++ p)) \/
   (nget (names f0) (out ++ p) = None /\ (exists md, nget (names f) (out ++ p) = Some (DDir md)) /\
    exists q, In q done /\ strictly_below p q)).
Proof.
  intros B S Hd Hp Hc Hni. pose proof (kept_intro p n Hp Hc) as Hk.
  assert (Hanc : forall a b, out ++ p = a ++ b -> a <> [] -> b <> [] ->
            (exists md, nget (names f) a = Some (DDir md)) \/
            exists r, a = out ++ r /\ r <> [] /\ p = r ++ b).
  { intros a b E Ha Hb. apply prefix_split in E. destruct E as [(r & E1 & E2)|(r & E1 & E2)].
    - left. apply (S_chain f done S a r E1).
    - destruct r as [|x r0].
      + left. rewrite app_nil_r in E1. subst a. apply (S_chain f done S out []). rewrite app_nil_r. reflexivity.
      + right. exists (x :: r0). split; [exact E1|]. split; [discriminate|exact E2]. }
  split; [|split].
  - intros a b E Ha Hb. destruct (Hanc a b E Ha Hb) as [H|(r & -> & Hr & E2)]; [right; exact H|].
    destruct (anc_state f done p r b B S Hd Hk E2 Hb Hr) as [(H & _)|H]; [left; exact H|right; exact H].
  - intros Hbound a b E Ha Hb. destruct (Hanc a b E Ha Hb) as [H|(r & -> & Hr & E2)]; [exact H|].
    destruct (anc_state f done p r b B S Hd Hk E2 Hb Hr) as [(H1 & H2 & H3)|H]; [exfalso|exact H].
    destruct (S_bound f done S (out ++ p) Hbound) as [H|(p' & Hin' & Hpre)].
    + apply (B_tree B p r b Hk H E2 Hb). exact H2.
    + rewrite is_prefix_app_l in Hpre. specialize (H3 p' Hin').
      rewrite (is_prefix_trans2 r p p') in H3; [discriminate|apply is_prefix_ex; eauto|exact Hpre].
  - destruct (nget (names f0) (out ++ p)) as [v|] eqn:E0.
    + left. destruct (S_keep f done S (out ++ p)) as [K1 K2].
      * rewrite E0. discriminate.
      * intros p' Hin' Eq. apply app_inv_head in Eq. subst p'. contradiction.
      * intros (p' & tg & md & Hin' & Hl & _ & Hpre). apply prefix_rel in Hpre. destruct Hpre as [x ->].
        destruct x as [|y x]; [rewrite app_nil_r in Hni; contradiction|].
        apply (link_no_below p' (p' ++ y :: x) tg n Hl Hp). exists (y :: x). split; [discriminate|reflexivity].
      * rewrite E0 in K1. split; [exact K1|]. unfold old_file. rewrite K1, E0.
        destruct v as [i| |]; try reflexivity. apply K2. exact E0.
    + destruct (nget (names f) (out ++ p)) as [v|] eqn:E1.
      * right. split; [reflexivity|].
        destruct (S_bound f done S (out ++ p)) as [H|(p' & Hin' & Hpre)]; [rewrite E1; discriminate|rewrite E0 in H; contradiction|].
        apply prefix_rel in Hpre. destruct Hpre as [x ->]. destruct x as [|y x]; [rewrite app_nil_r in Hin'; contradiction|].
        split; [|exists (p ++ y :: x); split; [exact Hin'|exists (y :: x); split; [discriminate|reflexivity]]].
        rewrite <- E1. apply (S_anc f done S (p ++ y :: x) p (y :: x) Hin' eq_refl). discriminate.
      * left. split; [reflexivity|]. unfold old_file. rewrite E0, E1. reflexivity.
Qed.

Lemma OSim_step f f' done p n :
  Base -> OSim f done -> (forall q, In q done -> kept c t q = true) ->
  tget t p = Some n -> collected c n = true -> ~ In p done ->
  opost f f' p -> node_res f f' p n -> OSim f' (done ++ [p]).
Proof.
  intros B S Hd Hp Hc Hni PO NO.
  destruct (turn f done p n B S Hd Hp Hc Hni) as (_ & _ & T3).
  pose proof PO as (O1 & O2 & O3 & O4 & O5 & O6).
  destruct (S_wf f done S) as (Wfresh & Winj & Wfull).
  assert (Hne : p <> []) by (destruct TOK as (_ & K & _); apply (K p n); apply tget_In; exact Hp).
  assert (Hroot : exists md, nget (names f) [] = Some (DDir md)) by (apply (S_chain f done S [] out); reflexivity).
  (* a deletion below the destination means: a link entry over a directory of the start state *)
  assert (Hdel : forall tg md, nget (names f') (out ++ p) = Some (DLink tg) -> nget (names f) (out ++ p) = Some (DDir md) ->
            exists tg', tget t p = Some (TLink tg') /\ nget (names f0) (out ++ p) = Some (DDir md)).
  { intros tg md H1 H2. destruct (node_res_link _ _ _ _ _ NO H1) as [tg' ->]. exists tg'. split; [exact Hp|].
    destruct T3 as [[T _]|(_ & _ & q & Hq & Hb)]; [rewrite <- T; exact H2|]. exfalso.
    destruct (kept_inv q (Hd q Hq)) as (m' & Hm' & _). exact (link_no_below p q tg' m' Hp Hm' Hb). }
  (* a file name of the new state is the destination or an old file name *)
  assert (Hfile : forall q i, nget (names f') q = Some (DFile i) -> q = out ++ p \/ nget (names f) q = Some (DFile i)).
  { intros q i H. destruct (path_eq_dec q (out ++ p)) as [->|Hq]; [left; reflexivity|right].
    destruct (is_prefix q (out ++ p)) eqn:E.
    - exfalso. apply is_prefix_ex in E. destruct E as [b E]. destruct b as [|y b]; [rewrite app_nil_r in E; congruence|].
      destruct (opost_anc_dir f f' p q (y :: b) PO Hroot E) as [md H2]; [discriminate|]. congruence.
    - rewrite <- (opost_back f f' p q PO E); [exact H|rewrite H; discriminate]. }
  constructor.
  - intros a b E. destruct (S_chain f done S a b E) as [md H]. exists md. rewrite <- H.
    apply (O3 a (b ++ p)); [rewrite E, app_assoc; reflexivity| |rewrite H; discriminate].
    intros E2. apply app_eq_nil in E2. tauto.
  - intros q Hb0 Hnd Hnr.
    destruct (S_keep f done S q Hb0) as [K1 K2].
    { intros p' Hin'. apply Hnd. apply in_or_app. left. exact Hin'. }
    { intros (p' & tg & md & Hin' & H). apply Hnr. exists p', tg, md. split; [apply in_or_app; left; exact Hin'|exact H]. }
    assert (Hq : q <> out ++ p) by (apply Hnd; apply in_or_app; right; left; reflexivity).
    assert (Hsame : nget (names f') q = nget (names f) q).
    { destruct (opost_keeps f f' p q PO Hq) as [H|(Hpre & _ & tg & md & H1 & H2)]; [rewrite K1; exact Hb0|exact H|].
      exfalso. destruct (Hdel tg md H1 H2) as (tg' & Hl & H0). apply Hnr. exists p, tg', md.
      split; [apply in_or_app; right; left; reflexivity|]. split; [exact Hl|]. split; [exact H0|exact Hpre]. }
    split; [rewrite Hsame; exact K1|].
    intros i Hi. rewrite <- (K2 i Hi). rewrite Hi in K1. apply O4.
    + apply (Wfresh q i K1).
    + intros H. apply Hq. apply (Winj q (out ++ p) i K1 H).
  - intros q Hb. destruct (is_prefix q (out ++ p)) eqn:E.
    + right. exists p. split; [apply in_or_app; right; left; reflexivity|exact E].
    + rewrite (opost_back f f' p q PO E Hb) in Hb.
      destruct (S_bound f done S q Hb) as [H|(p' & Hin' & Hpre)]; [left; exact H|right].
      exists p'. split; [apply in_or_app; left; exact Hin'|exact Hpre].
  - intros p' a b Hin E Hb. apply in_app_or in Hin. destruct Hin as [Hin|[<-|[]]].
    + destruct (S_anc f done S p' a b Hin E Hb) as [md H].
      destruct (kept_inv p' (Hd p' Hin)) as (m' & Hm' & _).
      destruct (path_eq_dec (out ++ a) (out ++ p)) as [Eq|Hq].
      * apply app_inv_head in Eq. subst a.
        destruct (tget_shape t TOK p p' n m' Hp Hm') as [md' ->]; [exists b; auto|].
        destruct NO as (md2 & H2 & _). eauto.
      * destruct (opost_keeps f f' p (out ++ a) PO Hq) as [H2|(Hpre & _ & tg & md2 & H1 & H2)]; [rewrite H; discriminate|exists md; congruence|].
        exfalso. destruct (Hdel tg md2 H1 H2) as (tg' & Hl & _). apply prefix_rel in Hpre. destruct Hpre as [x ->].
        apply (link_no_below p p' tg' m' Hl Hm'). exists (x ++ b). split; [|rewrite E, app_assoc; reflexivity].
        intros E2. apply app_eq_nil in E2. tauto.
    + apply (O3 (out ++ a) b); [rewrite E, app_assoc; reflexivity|exact Hb|]. intros E2. apply app_eq_nil in E2. tauto.
  - intros p' n' Hin Hp'. apply in_app_or in Hin. destruct Hin as [Hin|[<-|[]]].
    + pose proof (S_node f done S p' n' Hin Hp') as N0.
      assert (Hq : out ++ p' <> out ++ p) by (intros E; apply app_inv_head in E; subst p'; contradiction).
      assert (Hk : nget (names f') (out ++ p') = nget (names f) (out ++ p')).
      { destruct (opost_keeps f f' p (out ++ p') PO Hq (node_res_bound _ _ _ _ N0)) as [H|(Hpre & _ & tg & md2 & H1 & H2)]; [exact H|].
        exfalso. destruct (Hdel tg md2 H1 H2) as (tg' & Hl & _). apply prefix_rel in Hpre. destruct Hpre as [x ->].
        destruct x as [|y x]; [rewrite app_nil_r in Hq; congruence|].
        apply (link_no_below p (p ++ y :: x) tg' n' Hl Hp'). exists (y :: x). split; [discriminate|reflexivity]. }
      destruct n'; cbn [node_res] in *.
      * destruct N0 as (i & ino & H1 & H2 & H3). exists i, ino. rewrite Hk. split; [exact H1|]. split; [|exact H3].
        rewrite O4; [exact H2|apply (Wfresh _ _ H1)|]. intros H. apply Hq. apply (Winj _ _ i H1 H).
      * rewrite Hk. exact N0.
      * rewrite Hk. exact N0.
    + rewrite Hp in Hp'. injection Hp' as <-. destruct n as [d m mt xs|m|tg]; cbn [node_res] in *; try exact NO.
      destruct T3 as [[_ T]|(_ & _ & q & Hq & Hb)].
      * unfold old_mode, old_xattrs in *. rewrite <- T. exact NO.
      * exfalso. destruct (kept_inv q (Hd q Hq)) as (m' & Hm' & _). exact (file_no_below p q _ _ _ _ m' Hp Hm' Hb).
  - split; [|split].
    + intros q i H. destruct (Hfile q i H) as [->|H2]; [|pose proof (Wfresh q i H2); lia].
      destruct (O6 i H) as [H2|H2]; [pose proof (Wfresh _ i H2); lia|lia].
    + intros q q' i H1 H2. destruct (Hfile q i H1) as [->|K1]; destruct (Hfile q' i H2) as [->|K2]; try reflexivity.
      * destruct (O6 i H1) as [H|H]; [apply (Winj _ _ i H K2)|pose proof (Wfresh q' i K2); lia].
      * destruct (O6 i H2) as [H|H]; [apply (Winj _ _ i K1 H)|pose proof (Wfresh q i K1); lia].
      * apply (Winj q q' i K1 K2).
    + intros q i H. destruct (path_eq_dec q (out ++ p)) as [->|Hq].
      * destruct n as [d m mt xs|m|tg]; cbn [node_res] in NO.
        -- destruct NO as (i' & ino & N1 & N2 & _). rewrite N1 in H. injection H as <-. eauto.
        -- destruct NO as (md & N1 & _). congruence.
        -- congruence.
      * destruct (Hfile q i H) as [->|H2]; [congruence|].
        destruct (Wfull q i H2) as [n0 I0]. exists n0. rewrite <- I0.
        apply O4; [apply (Wfresh q i H2)|]. intros H3. apply Hq. apply (Winj _ _ i H2 H3).
Qed.

Lemma OSim_start : Base -> OSim f0 [].
Proof.
  intros B. constructor.
  - apply (B_chain B).
  - intros q _ _ _. split; [reflexivity|intros; reflexivity].
  - intros q H. left. exact H.
  - intros p a b [].
  - intros p n [].
  - apply (B_wf B).
Qed.

(* nothing of the tree's paths is occupied (extraction into an empty directory, or next to unrelated items) *)
Definition all_vacant : Prop :=
  forall p a b, kept c t p = true -> p = a ++ b -> a <> [] -> nget (names f0) (out ++ a) = None.

(* ---- the whole walk: every entry is written (--overwrite, or nothing in the way) ----------------------------------- *)
Lemma run_ov : forall rest l1 f ok0,
  Base -> NoDup (l1 ++ rest) -> (forall p, In p (l1 ++ rest) -> exists n, tget t p = Some n) ->
  (o_overwrite o = true \/ (all_vacant /\ (c_keep_dir c = true -> parents_first (l1 ++ rest)))) ->
  OSim f (filter (kept c t) l1) ->
  exists f', extract_each o out (create_from_tree c rest t) f ok0 = (f', ok0) /\
             OSim f' (filter (kept c t) (l1 ++ rest)).
Proof.
  induction rest as [|p r IH]; intros l1 f ok0 B ND Hin Mode S.
  - exists f. rewrite app_nil_r. split; [reflexivity|exact S].
  - assert (E : l1 ++ p :: r = (l1 ++ [p]) ++ r) by (rewrite <- app_assoc; reflexivity).
    destruct (Hin p) as [n Hp]; [apply in_or_app; right; left; reflexivity|].
    cbn [create_from_tree]. rewrite Hp.
    assert (Hk : kept c t p = collected c n) by (unfold kept; rewrite Hp; reflexivity).
    destruct (collected c n) eqn:Hc.
    + assert (Hd : forall q, In q (filter (kept c t) l1) -> kept c t q = true).
      { intros q Hq. apply filter_In in Hq. tauto. }
      assert (Hni : ~ In p (filter (kept c t) l1)).
      { intros Hq. apply filter_In in Hq. apply NoDup_remove_2 in ND. apply ND. apply in_or_app. left. tauto. }
      destruct (turn f _ p n B S Hd Hp Hc Hni) as (C & Dab & T3).
      destruct (tget_ok t TOK p n Hp) as [Hne Hwf]. pose proof (tget_normal t WF p n Hp) as Hnc.
      destruct (S_wf f _ S) as (Wfresh & _ & Wfull).
      assert (Hov : nget (names f) (out ++ p) = None \/ o_overwrite o = true).
      { destruct Mode as [Eo|[AV PF]]; [right; exact Eo|left].
        destruct T3 as [[T _]|(_ & _ & q & Hq & Hb)].
        - rewrite T. apply (AV p p []); [rewrite Hk; reflexivity|rewrite app_nil_r; reflexivity|exact Hne].
        - exfalso. destruct (kept_inv q (Hd q Hq)) as (m' & Hm' & _).
          destruct (tget_shape t TOK p q _ _ Hp Hm' Hb) as [md ->]. cbn [collected] in Hc.
          apply (PF Hc l1 p r q eq_refl); [apply filter_In in Hq; tauto|exact Hb]. }
      assert (Hdest : dest_ok (names f) (out ++ p) n).
      { destruct T3 as [[T _]|(_ & [md Hm] & q & Hq & Hb)].
        - apply (dest_ok_ext _ _ _ _ T). apply (B_dest B p n Hp Hc).
        - destruct (kept_inv q (Hd q Hq)) as (m' & Hm' & _).
          destruct (tget_shape t TOK p q _ _ Hp Hm' Hb) as [md' ->]. cbn [dest_ok]. intros i. rewrite Hm. discriminate. }
      destruct (ov_entry f p n Hnc Hne Hwf C Dab Hov Hdest Wfull Wfresh) as (f1 & He & PO & NO).
      cbn [extract_each]. rewrite He. rewrite andb_true_r.
      destruct (IH (l1 ++ [p]) f1 ok0 B) as (f' & Hr & S'); [rewrite <- E; exact ND|rewrite <- E; exact Hin|rewrite <- E; exact Mode| |].
      * rewrite filter_snoc, Hk. apply (OSim_step f f1 _ p n); assumption.
      * exists f'. split; [exact Hr|rewrite E; exact S'].
    + destruct (IH (l1 ++ [p]) f ok0 B) as (f' & Hr & S'); [rewrite <- E; exact ND|rewrite <- E; exact Hin|rewrite <- E; exact Mode| |].
      * rewrite filter_snoc, Hk, app_nil_r. exact S.
      * exists f'. split; [exact Hr|rewrite E; exact S'].
Qed.

(* ---- the whole walk without --overwrite: an occupied destination is refused, the others are written ------------------ *)
Lemma run_noov : forall rest l1 f ok0 done,
  Base -> o_overwrite o = false -> NoDup (l1 ++ rest) -> (forall p, In p (l1 ++ rest) -> exists n, tget t p = Some n) ->
  OSim f done -> incl done (filter (kept c t) l1) -> (forall p, In p done -> nget (names f0) (out ++ p) = None) ->
  exists f' done' ok', extract_each o out (create_from_tree c rest t) f ok0 = (f', ok0 && ok') /\ OSim f' done' /\
    (forall p, In p done' -> nget (names f0) (out ++ p) = None) /\ incl done' (filter (kept c t) (l1 ++ rest)) /\
    ((exists p, In p rest /\ kept c t p = true /\ nget (names f0) (out ++ p) <> None) -> ok' = false).
Proof.
  induction rest as [|p r IH]; intros l1 f ok0 done B Eo ND Hin S Hincl Hvac.
  - exists f, done, true. rewrite app_nil_r, andb_true_r.
    split; [reflexivity|]. split; [exact S|]. split; [exact Hvac|]. split; [exact Hincl|].
    intros (p & H & _). destruct H.
  - assert (E : l1 ++ p :: r = (l1 ++ [p]) ++ r) by (rewrite <- app_assoc; reflexivity).
    destruct (Hin p) as [n Hp]; [apply in_or_app; right; left; reflexivity|].
    cbn [create_from_tree]. rewrite Hp.
    assert (Hk : kept c t p = collected c n) by (unfold kept; rewrite Hp; reflexivity).
    assert (Hincl1 : incl done (filter (kept c t) (l1 ++ [p]))).
    { intros q Hq. apply Hincl in Hq. apply filter_In in Hq. apply filter_In. split; [apply in_or_app; tauto|tauto]. }
    destruct (collected c n) eqn:Hc.
    + assert (Hd : forall q, In q done -> kept c t q = true).
      { intros q Hq. apply Hincl in Hq. apply filter_In in Hq. tauto. }
      assert (Hni : ~ In p done).
      { intros Hq. apply Hincl in Hq. apply filter_In in Hq. apply NoDup_remove_2 in ND. apply ND. apply in_or_app. left. tauto. }
      destruct (turn f _ p n B S Hd Hp Hc Hni) as (C & Dab & T3).
      destruct (tget_ok t TOK p n Hp) as [Hne Hwf]. pose proof (tget_normal t WF p n Hp) as Hnc.
      destruct (S_wf f _ S) as (Wfresh & _ & Wfull).
      cbn [extract_each].
      assert (Hcase : nget (names f) (out ++ p) <> None \/ nget (names f) (out ++ p) = None)
        by (destruct (nget (names f) (out ++ p)); [left; discriminate|right; reflexivity]).
      destruct Hcase as [En|En].
      * (* occupied: refused *)
        rewrite (ov_refused f p (entry_of c p n) Hnc Hne (entry_name c p n) Eo C (Dab En) En).
        destruct (IH (l1 ++ [p]) f (ok0 && false) done B Eo) as (f' & done' & ok' & Hr & S' & V' & I' & F');
          [rewrite <- E; exact ND|rewrite <- E; exact Hin|exact S|exact Hincl1|exact Hvac|].
        exists f', done', false. split; [rewrite Hr; destruct ok0; reflexivity|]. split; [exact S'|]. split; [exact V'|].
        split; [rewrite E; exact I'|]. intros _. reflexivity.
      * (* vacant: written *)
        assert (Hv0 : nget (names f0) (out ++ p) = None).
        { destruct T3 as [[T _]|(_ & [md Hm] & _)]; [rewrite <- T; exact En|congruence]. }
        assert (Hdest : dest_ok (names f) (out ++ p) n).
        { destruct n; cbn [dest_ok]; try exact I; intros x; rewrite En; discriminate. }
        destruct (ov_entry f p n Hnc Hne Hwf C Dab (or_introl En) Hdest Wfull Wfresh) as (f1 & He & PO & NO).
        rewrite He. rewrite andb_true_r.
        destruct (IH (l1 ++ [p]) f1 ok0 (done ++ [p]) B Eo) as (f' & done' & ok' & Hr & S' & V' & I' & F');
          [rewrite <- E; exact ND|rewrite <- E; exact Hin| | | |].
        -- apply (OSim_step f f1 _ p n); assumption.
        -- intros q Hq. apply in_app_or in Hq. destruct Hq as [Hq|[<-|[]]]; [apply Hincl1; exact Hq|].
           apply filter_In. split; [apply in_or_app; right; left; reflexivity|rewrite Hk; reflexivity].
        -- intros q Hq. apply in_app_or in Hq. destruct Hq as [Hq|[<-|[]]]; [apply Hvac; exact Hq|exact Hv0].
        -- exists f', done', ok'. split; [exact Hr|]. split; [exact S'|]. split; [exact V'|]. split; [rewrite E; exact I'|].
           intros (q & [<-|Hq] & Hkq & Hbq); [contradiction|]. apply F'. exists q. auto.
    + destruct (IH (l1 ++ [p]) f ok0 done B Eo) as (f' & done' & ok' & Hr & S' & V' & I' & F');
        [rewrite <- E; exact ND|rewrite <- E; exact Hin|exact S|exact Hincl1|exact Hvac|].
      exists f', done', ok'. split; [exact Hr|]. split; [exact S'|]. split; [exact V'|]. split; [rewrite E; exact I'|].
      intros (q & [<-|Hq] & Hkq & Hbq); [congruence|]. apply F'. exists q. auto.
Qed.

(* ---- reading the result -------------------------------------------------------------------------------------------- *)
(* the attributes an occupied destination already carries are among those the entry sets (otherwise they survive) *)
Definition xattrs_fit : Prop :=
  kept_xattr c o = true -> forall p d m mt xs, tget t p = Some (TFile d m mt xs) ->
  xattr_merge (old_xattrs f0 (out ++ p)) xs = xs.

(* the items `expected` lists: everything but directories that nothing asked for *)
Definition listed (p : path) (n : tnode) : Prop :=
  match n with TDir _ => c_keep_dir c || has_kept_below t p = true | _ => True end.

Lemma ov_point f order p n :
  (forall q m, In (q, m) t -> In q order) ->
  OSim f (filter (kept c t) order) -> xattrs_fit ->
  In p order -> tget t p = Some n -> listed p n ->
  enode_of c o f (out ++ p) = Some (expected_node c o n).
Proof.
  intros Hcov S XF Hp Hn HL.
  assert (Hdone : collected c n = true -> In p (filter (kept c t) order)).
  { intros H. apply filter_In. split; [exact Hp|]. unfold kept. rewrite Hn. exact H. }
  unfold enode_of, observe.
  destruct n as [d m mt xs|m|tg].
  - destruct (S_node f _ S p _ (Hdone eq_refl) Hn) as (i & ino & H1 & H2 & H3 & H4 & H5 & H6). rewrite H1, H2.
    cbn [expected_node]. rewrite H3, H4, H5, H6.
    destruct (kept_xattr c o) eqn:Kx; [rewrite (XF Kx p d m mt xs Hn)|];
      destruct (kept_perm c o); destruct (kept_time c o); reflexivity.
  - cbn [expected_node]. destruct (c_keep_dir c) eqn:Kd.
    + destruct (S_node f _ S p _ (Hdone Kd) Hn) as (md & H1 & H2). rewrite H1. cbn [orb andb] in *.
      destruct (kept_perm c o); [rewrite (H2 eq_refl)|]; reflexivity.
    + cbn [listed] in HL. rewrite Kd in HL. cbn [orb andb] in *.
      unfold has_kept_below in HL. apply existsb_exists in HL. destruct HL as ([q nq] & Hq & Hb). cbn [fst snd] in Hb.
      apply andb_true_iff in Hb. destruct Hb as [Hb Hnd]. apply andb_true_iff in Hb. destruct Hb as [Hpre Hneq].
      apply is_prefix_ex in Hpre. destruct Hpre as [b ->].
      assert (Hbn : b <> []) by (intros ->; rewrite app_nil_r, path_eqb_refl in Hneq; discriminate).
      assert (Hqd : In (p ++ b) (filter (kept c t) order)).
      { apply filter_In. split; [apply (Hcov _ _ Hq)|]. unfold kept. rewrite (In_tget t TOK _ _ Hq). destruct nq; [reflexivity|discriminate|reflexivity]. }
      destruct (S_anc f _ S (p ++ b) p b Hqd eq_refl Hbn) as [md H]. rewrite H. reflexivity.
  - rewrite (S_node f _ S p _ (Hdone eq_refl) Hn). reflexivity.
Qed.

(* a directory that nothing asked for appears only if the start state had something there *)
Lemma unlisted_vacant f order p md :
  OSim f (filter (kept c t) order) -> tget t p = Some (TDir md) -> c_keep_dir c = false -> has_kept_below t p = false ->
  nget (names f0) (out ++ p) = None -> nget (names f) (out ++ p) = None.
Proof.
  intros S Hn Kd Hb H0. destruct (nget (names f) (out ++ p)) as [v|] eqn:En; [|reflexivity]. exfalso.
  destruct (S_bound f _ S (out ++ p)) as [H|(q & Hq & Hpre)]; [rewrite En; discriminate|contradiction|].
  apply filter_In in Hq. destruct Hq as [_ Hqk]. destruct (kept_inv q Hqk) as (nq & Hnq & Hcq).
  apply prefix_rel in Hpre. destruct Hpre as [b ->]. destruct b as [|y b].
  - rewrite app_nil_r in Hnq. rewrite Hn in Hnq. injection Hnq as <-. cbn [collected] in Hcq. congruence.
  - assert (existsb (fun e => is_prefix p (fst e) && negb (path_eqb p (fst e))
                               && match snd e with TDir _ => false | _ => true end) t = true) as Hex.
    { apply existsb_exists. exists (p ++ y :: b, nq). split; [apply tget_In; exact Hnq|]. cbn [fst snd].
      rewrite (proj2 (is_prefix_ex p (p ++ y :: b))) by eauto.
      rewrite path_eqb_neq by (apply app_neq_strict; discriminate). cbn [negb andb].
      destruct nq; [reflexivity| |reflexivity]. cbn [collected] in Hcq. congruence. }
    unfold has_kept_below in Hb. congruence.
Qed.

Lemma expected_in order p en : In (p, en) (expected c o order t) ->
  In p order /\ exists n, tget t p = Some n /\ listed p n /\ en = expected_node c o n.
Proof.
  unfold expected. intros H. apply in_flat_map in H. destruct H as (q & Hq & H).
  destruct (tget t q) as [n|] eqn:Hn; [|contradiction].
  destruct n as [d m mt xs|m|tg].
  - destruct H as [[= <- <-]|[]]. split; [exact Hq|]. exists (TFile d m mt xs). repeat split. exact Hn.
  - destruct (c_keep_dir c || has_kept_below t q) eqn:HL; [|contradiction].
    destruct H as [[= <- <-]|[]]. split; [exact Hq|]. exists (TDir m). repeat split; assumption.
  - destruct H as [[= <- <-]|[]]. split; [exact Hq|]. exists (TLink tg). repeat split. exact Hn.
Qed.

Lemma tree_of_list f : forall L : list (list bytes * enode),
  (forall p en, In (p, en) L -> enode_of c o f (out ++ p) = Some en) -> tree_of c o out (map fst L) f = L.
Proof.
  unfold tree_of. induction L as [|[p en] L IH]; intros H; [reflexivity|]. cbn [map fst flat_map].
  rewrite (H p en) by (left; reflexivity). cbn [app]. f_equal. apply IH. intros q e Hq. apply H. right. exact Hq.
Qed.

(* at the paths extraction materialises: exactly what extraction into the empty directory gives *)
Lemma ov_read_listed f order :
  (forall q m, In (q, m) t -> In q order) -> OSim f (filter (kept c t) order) -> xattrs_fit ->
  tree_of c o out (map fst (expected c o order t)) f = expected c o order t.
Proof.
  intros Hcov S XF. apply tree_of_list. intros p en H. apply expected_in in H.
  destruct H as (Hp & n & Hn & HL & ->). apply (ov_point f order p n); assumption.
Qed.

(* over the whole walk order, when the directories nothing asked for are not occupied in the start state *)
Lemma ov_read_full f order :
  (forall p, In p order -> exists n, tget t p = Some n) ->
  (forall q m, In (q, m) t -> In q order) -> OSim f (filter (kept c t) order) -> xattrs_fit ->
  (forall p md, In p order -> tget t p = Some (TDir md) -> c_keep_dir c = false -> has_kept_below t p = false ->
     nget (names f0) (out ++ p) = None) ->
  tree_of c o out order f = expected c o order t.
Proof.
  intros Hin Hcov S XF Hsk. unfold tree_of, expected. apply flat_map_ext_in. intros p Hp.
  destruct (Hin p Hp) as [n Hn]. rewrite Hn.
  assert (HP : listed p n -> enode_of c o f (out ++ p) = Some (expected_node c o n))
    by (intros HL; apply (ov_point f order p n); assumption).
  destruct n as [d m mt xs|m|tg]; try (rewrite HP by exact I; reflexivity).
  destruct (c_keep_dir c || has_kept_below t p) eqn:HL; [rewrite HP by exact HL; reflexivity|].
  apply orb_false_iff in HL. destruct HL as [Kd Hb].
  unfold enode_of, observe. rewrite (unlisted_vacant f order p m S Hn Kd Hb (Hsk p m Hp Hn Kd Hb)). reflexivity.
Qed.

(* what was there and is neither a destination nor inside a replaced directory is untouched *)
Lemma ov_frame f done q : OSim f done -> nget (names f0) q <> None ->
  (forall p, In p done -> q <> out ++ p) -> ~ dir_replaced done q -> observe f q = observe f0 q.
Proof.
  intros S Hb Hnd Hnr. destruct (S_keep f done S q Hb Hnd Hnr) as [K1 K2]. unfold observe. rewrite K1.
  destruct (nget (names f0) q) as [[i|md|tg]|] eqn:E; try reflexivity. rewrite (K2 i eq_refl). reflexivity.
Qed.

End OV.

(* ================================================================================================= *)
(* the run of create's archive                                                                          *)
(* ================================================================================================= *)
Lemma run_is_each c o out order t f :
  extract_run o out (create_from_tree c order t) f = extract_each o out (create_from_tree c order t) f true.
Proof.
  unfold extract_run. rewrite (filter_all_neg is_hardlink), (filter_none is_hardlink) by apply create_no_hardlinks.
  destruct (extract_each o out (create_from_tree c order t) f true) as [f1 ok]. destruct ok; reflexivity.
Qed.

Lemma order_facts t order : tree_ok t -> Permutation (map fst t) order ->
  NoDup order /\ (forall p, In p order -> exists n, tget t p = Some n) /\ (forall p n, In (p, n) t -> In p order).
Proof.
  intros TOK Perm. split; [eapply Permutation_NoDup; [exact Perm|exact (proj1 TOK)]|]. split.
  - intros p Hp. apply (Permutation_in _ (Permutation_sym Perm)) in Hp. apply in_map_iff in Hp.
    destruct Hp as ([q n] & <- & H). exists n. apply (In_tget t TOK). exact H.
  - intros p n H. apply (Permutation_in _ Perm). apply in_map_iff. exists (p, n). auto.
Qed.

Lemma kept_in_order c t order p : tree_ok t -> Permutation (map fst t) order -> kept c t p = true ->
  In p (filter (kept c t) order).
Proof.
  intros TOK Perm Hk. apply filter_In. split; [|exact Hk]. destruct (kept_tget c t p Hk) as [n Hn].
  apply (proj2 (proj2 (order_facts t order TOK Perm)) p n). apply tget_In. exact Hn.
Qed.

(* ---- 1. --overwrite into any start state that `Base` accepts --------------------------------------------------- *)
Theorem overlay_sim : forall c o out order t f0,
  o_guarded o = true -> o_overwrite o = true -> wf_tree t -> tree_ok t -> Permutation (map fst t) order ->
  Forall plain out -> out <> [] -> Base out c t f0 ->
  snd (extract_run o out (create_from_tree c order t) f0) = true /\
  OSim out c o t f0 (extract_all o out (create_from_tree c order t) f0) (filter (kept c t) order).
Proof.
  intros c o out order t f0 G Eo WF TOK Perm OP ON B.
  destruct (order_facts t order TOK Perm) as (ND & Hin & _).
  destruct (run_ov out OP ON c o G t WF TOK f0 order [] f0 true B ND Hin (or_introl Eo) (OSim_start out c o t f0 B)) as (f' & Hr & S).
  unfold extract_all. rewrite run_is_each, Hr. cbn [fst snd]. split; [reflexivity|exact S].
Qed.

Theorem overlay_onto : forall c o out order t f0,
  o_guarded o = true -> o_overwrite o = true -> wf_tree t -> tree_ok t -> Permutation (map fst t) order ->
  Forall plain out -> out <> [] -> Base out c t f0 -> xattrs_fit out c o t f0 ->
  let f' := extract_all o out (create_from_tree c order t) f0 in
  snd (extract_run o out (create_from_tree c order t) f0) = true /\
  tree_of c o out (map fst (expected c o order t)) f' = expected c o order t /\
  (forall q, nget (names f0) q <> None -> (forall p, kept c t p = true -> q <> out ++ p) ->
     (forall p tg md, tget t p = Some (TLink tg) -> nget (names f0) (out ++ p) = Some (DDir md) -> is_prefix (out ++ p) q = false) ->
     observe f' q = observe f0 q) /\
  (forall q, nget (names f') q <> None ->
     nget (names f0) q <> None \/ exists p, kept c t p = true /\ is_prefix q (out ++ p) = true).
Proof.
  intros c o out order t f0 G Eo WF TOK Perm OP ON B XF f'.
  destruct (overlay_sim c o out order t f0 G Eo WF TOK Perm OP ON B) as [Hok S]. fold f' in S.
  destruct (order_facts t order TOK Perm) as (ND & Hin & Hcov).
  split; [exact Hok|]. split; [apply (ov_read_listed out c o t TOK f0 f' order Hcov S XF)|]. split.
  - intros q Hb Hnd Hnl. apply (ov_frame out c o t f0 f' _ q S Hb).
    + intros p Hp. apply Hnd. apply filter_In in Hp. tauto.
    + intros (p & tg & md & _ & Hl & Hd & Hpre). rewrite (Hnl p tg md Hl Hd) in Hpre. discriminate.
  - intros q Hb. destruct (S_bound out c o t f0 f' _ S q Hb) as [H|(p & Hp & Hpre)]; [left; exact H|right].
    exists p. apply filter_In in Hp. tauto.
Qed.

(* ---- 2. without --overwrite: occupied destinations are refused, nothing that existed changes --------------------- *)
Theorem no_overwrite_onto : forall c o out order t f0,
  o_guarded o = true -> o_overwrite o = false -> wf_tree t -> tree_ok t -> Permutation (map fst t) order ->
  Forall plain out -> out <> [] -> Base out c t f0 ->
  (forall q, nget (names f0) q <> None -> observe (extract_all o out (create_from_tree c order t) f0) q = observe f0 q) /\
  ((exists p, kept c t p = true /\ nget (names f0) (out ++ p) <> None) ->
   snd (extract_run o out (create_from_tree c order t) f0) = false).
Proof.
  intros c o out order t f0 G Eo WF TOK Perm OP ON B.
  destruct (order_facts t order TOK Perm) as (ND & Hin & Hcov).
  destruct (run_noov out OP ON c o G t WF TOK f0 order [] f0 true [] B Eo ND Hin (OSim_start out c o t f0 B))
    as (f' & done' & ok' & Hr & S & V & I & F); [intros x []|intros x []|].
  unfold extract_all. rewrite run_is_each, Hr. cbn [fst snd andb]. split.
  - intros q Hb. apply (ov_frame out c o t f0 f' done' q S Hb).
    + intros p Hp ->. apply Hb. apply V. exact Hp.
    + intros (p & tg & md & Hp & _ & Hd & _). rewrite (V p Hp) in Hd. discriminate.
  - intros (p & Hk & Hb). apply F. exists p. split; [|split; assumption].
    pose proof (kept_in_order c t order p TOK Perm Hk) as H. apply filter_In in H. tauto.
Qed.

(* ================================================================================================= *)
(* the start state left by an earlier extraction                                                        *)
(* ================================================================================================= *)
Definition probe_opts : xopts := mk_xopts false false false false true.

Lemma empty_vacant out r : out <> [] -> r <> [] -> nget (names (empty_dir out)) (out ++ r) = None.
Proof.
  intros ON Hr. destruct (nget (names (empty_dir out)) (out ++ r)) eqn:E; [|reflexivity]. exfalso.
  destruct (CreateExtractFacts.S_bound _ _ _ _ _ _ (empty_dir_sim out ON no_c probe_opts eq_refl []) r Hr) as (p & [] & _).
  rewrite E. discriminate.
Qed.

Lemma empty_no_file out q i : nget (names (empty_dir out)) q <> Some (DFile i).
Proof.
  cbn [empty_dir names nget]. destruct (path_eqb [] q); [discriminate|].
  intros H. apply dir_chain_inv in H. destruct H as (_ & _ & _ & _ & _ & H). discriminate.
Qed.

Lemma base_empty out c t : out <> [] -> tree_ok t -> Base out c t (empty_dir out) /\ all_vacant out c t (empty_dir out).
Proof.
  intros ON TOK.
  assert (Hne : forall p, kept c t p = true -> p <> []).
  { intros p Hk. destruct (kept_tget c t p Hk) as [n Hn]. exact (proj1 (tget_ok t TOK p n Hn)). }
  pose proof (empty_dir_sim out ON no_c probe_opts eq_refl t) as S0.
  assert (AV : all_vacant out c t (empty_dir out)) by (intros p a b _ _ Ha; apply empty_vacant; assumption).
  split; [|exact AV]. constructor.
  - apply (CreateExtractFacts.S_chain _ _ _ _ _ _ S0).
  - intros p Hk a b E Ha Hb. apply prefix_split in E. destruct E as [(r & E1 & E2)|(r & E1 & E2)].
    + right. apply (CreateExtractFacts.S_chain _ _ _ _ _ _ S0 a r E1).
    + destruct r as [|x r0].
      * right. rewrite app_nil_r in E1. subst a. apply (CreateExtractFacts.S_chain _ _ _ _ _ _ S0 out []). rewrite app_nil_r. reflexivity.
      * left. subst a. apply empty_vacant; [exact ON|discriminate].
  - intros p a b Hk Hb. exfalso. apply Hb. apply empty_vacant; [exact ON|apply Hne; exact Hk].
  - intros p n Hn Hc. assert (E : nget (names (empty_dir out)) (out ++ p) = None).
    { apply empty_vacant; [exact ON|]. exact (proj1 (tget_ok t TOK p n Hn)). }
    destruct n; cbn [dest_ok]; try exact I; intros x; rewrite E; discriminate.
  - split; [|split].
    + intros q i H. exfalso. exact (empty_no_file out q i H).
    + intros q q' i H. exfalso. exact (empty_no_file out q i H).
    + intros q i H. exfalso. exact (empty_no_file out q i H).
Qed.

(* C02's run again, with the stronger description of the result *)
Lemma extract_into_empty c o out order t :
  o_guarded o = true -> wf_tree t -> tree_ok t -> walk_order_ok c o t order -> Forall plain out -> out <> [] ->
  snd (extract_run o out (create_from_tree c order t) (empty_dir out)) = true /\
  OSim out c o t (empty_dir out) (extract_all o out (create_from_tree c order t) (empty_dir out)) (filter (kept c t) order).
Proof.
  intros G WF TOK [Perm PF] OP ON.
  destruct (order_facts t order TOK Perm) as (ND & Hin & _).
  destruct (base_empty out c t ON TOK) as [B AV].
  assert (Mode : o_overwrite o = true \/ (all_vacant out c t (empty_dir out) /\ (c_keep_dir c = true -> parents_first ([] ++ order)))).
  { destruct (o_overwrite o) eqn:Eo; [left; reflexivity|right]. split; [exact AV|]. intros Kd. apply PF; [exact Kd|reflexivity]. }
  destruct (run_ov out OP ON c o G t WF TOK (empty_dir out) order [] (empty_dir out) true B ND Hin Mode (OSim_start out c o t _ B)) as (f' & Hr & S).
  unfold extract_all. rewrite run_is_each, Hr. cbn [fst snd]. split; [reflexivity|exact S].
Qed.

(* when the older tree t0 and the new tree t can share an output directory under --overwrite: at a common path not
   (file over directory) and not (directory over file); nothing of t strictly below a non-directory of t0; nothing of
   t0 strictly below a FILE of t (below a link of t it is removed with the directory the link replaces) *)
Definition is_tfile (n : tnode) : bool := match n with TFile _ _ _ _ => true | _ => false end.
Definition compat (c0 : copts) (t0 : tree) (c : copts) (t : tree) : Prop :=
  forall p0 n0 p n, tget t0 p0 = Some n0 -> collected c0 n0 = true -> tget t p = Some n -> collected c n = true ->
    (strictly_below p0 p -> is_tdir n0 = true) /\
    (strictly_below p p0 -> is_tfile n = false) /\
    (p = p0 -> (is_tfile n = true -> is_tdir n0 = false) /\ (is_tdir n = true -> is_tfile n0 = false)).

Definition compatb (c0 : copts) (t0 : tree) (c : copts) (t : tree) : bool :=
  forallb (fun e0 => forallb (fun e =>
    negb (collected c0 (snd e0) && collected c (snd e)) ||
    (implb (strictly_belowb (fst e0) (fst e)) (is_tdir (snd e0)) &&
     implb (strictly_belowb (fst e) (fst e0)) (negb (is_tfile (snd e))) &&
     implb (path_eqb (fst e) (fst e0))
       (implb (is_tfile (snd e)) (negb (is_tdir (snd e0))) && implb (is_tdir (snd e)) (negb (is_tfile (snd e0)))))) t) t0.

Lemma compatb_sound c0 t0 c t : compatb c0 t0 c t = true -> compat c0 t0 c t.
Proof.
  unfold compatb. intros H p0 n0 p n H0 C0 H1 C1.
  rewrite forallb_forall in H. specialize (H _ (tget_In _ _ _ H0)). rewrite forallb_forall in H. specialize (H _ (tget_In _ _ _ H1)).
  cbn [fst snd] in H. rewrite C0, C1 in H. cbn [andb negb orb] in H.
  apply andb_true_iff in H. destruct H as [H H3]. apply andb_true_iff in H. destruct H as [H1' H2].
  split; [|split].
  - intros Hb. apply strictly_belowb_iff in Hb. rewrite Hb in H1'. exact H1'.
  - intros Hb. apply strictly_belowb_iff in Hb. rewrite Hb in H2. cbn [implb] in H2. destruct (is_tfile n); [discriminate|reflexivity].
  - intros ->. rewrite path_eqb_refl in H3. cbn [implb] in H3. apply andb_true_iff in H3. destruct H3 as [A B]. split.
    + intros Hf. rewrite Hf in A. cbn [implb] in A. destruct (is_tdir n0); [discriminate|reflexivity].
    + intros Hd. rewrite Hd in B. cbn [implb] in B. destruct (is_tfile n0); [discriminate|reflexivity].
Qed.

(* attributes: where both trees have a file and both runs restore attributes, the older file's attribute names are
   among the new file's (xattr::set adds and replaces, nothing removes) *)
Definition xfit (c0 : copts) (o0 : xopts) (t0 : tree) (c : copts) (o : xopts) (t : tree) : Prop :=
  kept_xattr c0 o0 = true -> kept_xattr c o = true ->
  forall p d0 m0 mt0 xs0 d m mt xs, tget t0 p = Some (TFile d0 m0 mt0 xs0) -> tget t p = Some (TFile d m mt xs) ->
  xattr_merge xs0 xs = xs.

Section After.
Variable out : path.
Hypothesis out_plain : Forall plain out.
Hypothesis out_nonnil : out <> [].
Variables (c0 : copts) (o0 : xopts) (t0 : tree) (order0 : list path).
Hypothesis TOK0 : tree_ok t0.
Hypothesis Perm0 : Permutation (map fst t0) order0.
Variable s : fs.
Hypothesis S0 : OSim out c0 o0 t0 (empty_dir out) s (filter (kept c0 t0) order0).

(* the names below out after the older extraction: the kept paths of t0 and their ancestors *)
Lemma after_names r : r <> [] -> nget (names s) (out ++ r) <> None ->
  exists p0 b, kept c0 t0 p0 = true /\ In p0 (filter (kept c0 t0) order0) /\ p0 = r ++ b.
Proof.
  intros Hr Hb. destruct (S_bound _ _ _ _ _ _ _ S0 (out ++ r) Hb) as [H|(p0 & Hin & Hpre)].
  - exfalso. apply H. apply empty_vacant; assumption.
  - rewrite is_prefix_app_l in Hpre. apply is_prefix_ex in Hpre. destruct Hpre as [b ->].
    exists (r ++ b), b. split; [apply filter_In in Hin; tauto|]. split; [exact Hin|reflexivity].
Qed.

Lemma after_anc p0 a b : In p0 (filter (kept c0 t0) order0) -> p0 = a ++ b -> b <> [] ->
  exists md, nget (names s) (out ++ a) = Some (DDir md).
Proof. intros Hin E Hb. exact (S_anc _ _ _ _ _ _ _ S0 p0 a b Hin E Hb). Qed.

Lemma after_occupied p0 r b : kept c0 t0 p0 = true -> p0 = r ++ b -> nget (names s) (out ++ r) <> None.
Proof.
  intros Hk E. pose proof (kept_in_order c0 t0 order0 p0 TOK0 Perm0 Hk) as Hin.
  destruct b as [|y b].
  - rewrite app_nil_r in E. subst r. destruct (kept_tget c0 t0 p0 Hk) as [n0 Hn0].
    apply (node_res_bound out c0 o0 (empty_dir out) s p0 n0). apply (S_node _ _ _ _ _ _ _ S0 p0 n0 Hin Hn0).
  - destruct (after_anc p0 r (y :: b) Hin E) as [md H]; [discriminate|]. rewrite H. discriminate.
Qed.

Variables (c : copts) (t : tree).
Hypothesis TOK : tree_ok t.
Hypothesis CP : compat c0 t0 c t.

Lemma base_after : Base out c t s.
Proof.
  constructor.
  - apply (S_chain _ _ _ _ _ _ _ S0).
  - intros p Hk a b E Ha Hb. destruct (kept_inv c t p Hk) as (n & Hn & Hc).
    apply prefix_split in E. destruct E as [(r & E1 & E2)|(r & E1 & E2)].
    + right. apply (S_chain _ _ _ _ _ _ _ S0 a r E1).
    + destruct r as [|x r0].
      * right. rewrite app_nil_r in E1. subst a. apply (S_chain _ _ _ _ _ _ _ S0 out []). rewrite app_nil_r. reflexivity.
      * set (r := x :: r0) in *. subst a.
        destruct (nget (names s) (out ++ r)) as [v|] eqn:En; [|left; reflexivity]. right. rewrite <- En.
        destruct (after_names r) as (p0 & b0 & Hk0 & Hin0 & E0); [discriminate|rewrite En; discriminate|].
        destruct b0 as [|y b0].
        -- rewrite app_nil_r in E0. subst p0. destruct (kept_inv c0 t0 r Hk0) as (n0 & Hn0 & Hc0).
           destruct (CP r n0 p n Hn0 Hc0 Hn Hc) as (C1 & _). 
           assert (Hd : is_tdir n0 = true) by (apply C1; exists b; auto).
           destruct n0; try discriminate.
           destruct (S_node _ _ _ _ _ _ _ S0 r _ Hin0 Hn0) as (md & H & _). eauto.
        -- apply (after_anc p0 r (y :: b0) Hin0 E0). discriminate.
  - intros p a b Hk Hb E Hbn. destruct a as [|x a0].
    + cbn [app]. rewrite app_nil_r. destruct (S_chain _ _ _ _ _ _ _ S0 out []) as [md H]; [rewrite app_nil_r; reflexivity|].
      rewrite H. discriminate.
    + destruct (kept_inv c t p Hk) as (n & Hn & _).
      destruct (after_names p) as (p0 & b0 & Hk0 & Hin0 & E0); [subst p; discriminate|exact Hb|].
      destruct (after_anc p0 (x :: a0) (b ++ b0) Hin0) as [md H]; [rewrite E0, E, app_assoc; reflexivity| |rewrite H; discriminate].
      intros E2. apply app_eq_nil in E2. tauto.
  - intros p n Hn Hc. pose proof (proj1 (tget_ok t TOK p n Hn)) as Hne.
    destruct n as [d m mt xs|m|tg]; cbn [dest_ok]; [| |exact I].
    + intros md Hd. destruct (after_names p Hne) as (p0 & b0 & Hk0 & Hin0 & E0); [rewrite Hd; discriminate|].
      destruct (kept_inv c0 t0 p0 Hk0) as (n0 & Hn0 & Hc0).
      destruct (CP p0 n0 p _ Hn0 Hc0 Hn Hc) as (_ & C2 & C3).
      destruct b0 as [|y b0].
      * rewrite app_nil_r in E0. subst p0. destruct (C3 eq_refl) as [C3a _]. specialize (C3a eq_refl).
        pose proof (S_node _ _ _ _ _ _ _ S0 p n0 Hin0 Hn0) as N0.
        destruct n0; cbn [node_res is_tdir] in *; [|discriminate|congruence].
        destruct N0 as (i & ino & H & _). congruence.
      * assert (is_tfile (TFile d m mt xs) = false) by (apply C2; exists (y :: b0); split; [discriminate|exact E0]). discriminate.
    + intros i Hf. destruct (after_names p Hne) as (p0 & b0 & Hk0 & Hin0 & E0); [rewrite Hf; discriminate|].
      destruct (kept_inv c0 t0 p0 Hk0) as (n0 & Hn0 & Hc0).
      destruct (CP p0 n0 p _ Hn0 Hc0 Hn Hc) as (_ & _ & C3).
      destruct b0 as [|y b0].
      * rewrite app_nil_r in E0. subst p0. destruct (C3 eq_refl) as [_ C3b]. specialize (C3b eq_refl).
        pose proof (S_node _ _ _ _ _ _ _ S0 p n0 Hin0 Hn0) as N0.
        destruct n0; cbn [node_res is_tfile] in *; [discriminate| |congruence].
        destruct N0 as (md & H & _). congruence.
      * destruct (after_anc p0 p (y :: b0) Hin0 E0) as [md H]; [discriminate|]. congruence.
  - apply (S_wf _ _ _ _ _ _ _ S0).
Qed.

(* the attributes the older extraction left on a file *)
Lemma after_xattrs o : xfit c0 o0 t0 c o t -> xattrs_fit out c o t s.
Proof.
  intros XF Kx p d m mt xs Hn.
  destruct (tget_ok t TOK p _ Hn) as [Hne Hx]. cbn [node_wf] in Hx.
  unfold old_xattrs, old_file. destruct (nget (names s) (out ++ p)) as [[i|md|tg]|] eqn:En; try (apply xattr_merge_nil; exact Hx).
  destruct (after_names p Hne) as (p0 & b0 & Hk0 & Hin0 & E0); [rewrite En; discriminate|].
  destruct b0 as [|y b0].
  - rewrite app_nil_r in E0. subst p0. destruct (kept_tget c0 t0 p Hk0) as [n0 Hn0].
    pose proof (S_node _ _ _ _ _ _ _ S0 p n0 Hin0 Hn0) as N0.
    destruct n0 as [d0 m0 mt0 xs0|m0|tg0]; cbn [node_res] in N0.
    + destruct N0 as (i' & ino & H1 & H2 & _ & _ & _ & H6). rewrite En in H1. injection H1 as <-. rewrite H2, H6.
      assert (E0 : old_xattrs (empty_dir out) (out ++ p) = []).
      { unfold old_xattrs, old_file. rewrite empty_vacant by assumption. reflexivity. }
      rewrite E0. destruct (tget_ok t0 TOK0 p _ Hn0) as [_ Hx0]. cbn [node_wf] in Hx0.
      destruct (kept_xattr c0 o0) eqn:K0.
      * rewrite (xattr_merge_nil _ Hx0). apply (XF K0 Kx p _ _ _ _ _ _ _ _ Hn0 Hn).
      * apply xattr_merge_nil. exact Hx.
    + destruct N0 as (md & H & _). congruence.
    + congruence.
  - destruct (after_anc p0 p (y :: b0) Hin0 E0) as [md H]; [discriminate|]. congruence.
Qed.

End After.

(* ---- 3. --overwrite into the directory an earlier extraction (of t0) left ------------------------------------------ *)
Theorem overlay_trees : forall c0 o0 order0 t0 c o order t out,
  o_guarded o0 = true -> wf_tree t0 -> tree_ok t0 -> walk_order_ok c0 o0 t0 order0 ->
  o_guarded o = true -> o_overwrite o = true -> wf_tree t -> tree_ok t -> Permutation (map fst t) order ->
  Forall plain out -> out <> [] -> compat c0 t0 c t -> xfit c0 o0 t0 c o t ->
  let s := extract_all o0 out (create_from_tree c0 order0 t0) (empty_dir out) in
  let s' := extract_all o out (create_from_tree c order t) s in
  snd (extract_run o out (create_from_tree c order t) s) = true /\
  tree_of c o out (map fst (expected c o order t)) s' = expected c o order t /\
  (forall q, nget (names s) q <> None -> (forall p, kept c t p = true -> q <> out ++ p) ->
     (forall p tg, tget t p = Some (TLink tg) -> is_prefix (out ++ p) q = false) -> observe s' q = observe s q) /\
  (forall q, nget (names s') q <> None ->
     nget (names s) q <> None \/ exists p, kept c t p = true /\ is_prefix q (out ++ p) = true).
Proof.
  intros c0 o0 order0 t0 c o order t out G0 WF0 TOK0 WO0 G Eo WF TOK Perm OP ON CP XF s s'.
  destruct (extract_into_empty c0 o0 out order0 t0 G0 WF0 TOK0 WO0 OP ON) as [_ S0]. fold s in S0.
  pose proof (base_after out ON c0 o0 t0 order0 s S0 c t TOK CP) as B.
  pose proof (after_xattrs out ON c0 o0 t0 order0 TOK0 s S0 c t TOK o XF) as XF'.
  destruct (overlay_onto c o out order t s G Eo WF TOK Perm OP ON B XF') as (H1 & H2 & H3 & H4). fold s' in H2, H3, H4.
  split; [exact H1|]. split; [exact H2|]. split; [|exact H4].
  intros q Hb Hnd Hnl. apply H3; [exact Hb|exact Hnd|]. intros p tg md Hl _. exact (Hnl p tg Hl).
Qed.

(* the same tree again: the second extraction gives what C02 says about an extraction into the empty directory *)
Lemma compat_refl c t : tree_ok t -> compat c t c t.
Proof.
  intros TOK p0 n0 p n H0 _ H1 _. split; [|split].
  - intros Hb. destruct (tget_shape t TOK p0 p _ _ H0 H1 Hb) as [md ->]. reflexivity.
  - intros Hb. destruct (tget_shape t TOK p p0 _ _ H1 H0 Hb) as [md ->]. reflexivity.
  - intros ->. rewrite H0 in H1. injection H1 as <-. destruct n0; split; intros; try discriminate; reflexivity.
Qed.

Lemma xfit_refl c o0 o t : tree_ok t -> xfit c o0 t c o t.
Proof.
  intros TOK _ _ p d0 m0 mt0 xs0 d m mt xs H0 H1. rewrite H0 in H1. injection H1 as <- <- <- <-.
  apply xattr_merge_same. exact (proj2 (tget_ok t TOK p _ H0)).
Qed.

Theorem overlay_same_tree : forall c o0 order0 o order t out,
  o_guarded o0 = true -> o_guarded o = true -> o_overwrite o = true -> wf_tree t -> tree_ok t ->
  walk_order_ok c o0 t order0 -> Permutation (map fst t) order -> Forall plain out -> out <> [] ->
  let s := extract_all o0 out (create_from_tree c order0 t) (empty_dir out) in
  let s' := extract_all o out (create_from_tree c order t) s in
  snd (extract_run o out (create_from_tree c order t) s) = true /\
  tree_of c o out order s' = expected c o order t /\
  tree_of c o out order s' = tree_of c o out order (extract_all o out (create_from_tree c order t) (empty_dir out)) /\
  (forall q, nget (names s') q <> None -> nget (names s) q <> None).
Proof.
  intros c o0 order0 o order t out G0 G Eo WF TOK WO0 Perm OP ON s s'.
  destruct (extract_into_empty c o0 out order0 t G0 WF TOK WO0 OP ON) as [_ S0]. fold s in S0.
  pose proof (base_after out ON c o0 t order0 s S0 c t TOK (compat_refl c t TOK)) as B.
  pose proof (after_xattrs out ON c o0 t order0 TOK s S0 c t TOK o (xfit_refl c o0 o t TOK)) as XF'.
  destruct (overlay_sim c o out order t s G Eo WF TOK Perm OP ON B) as [Hok S]. fold s' in S.
  destruct (order_facts t order TOK Perm) as (ND & Hin & Hcov).
  assert (Hfull : tree_of c o out order s' = expected c o order t).
  { apply (ov_read_full out c o t TOK s s' order Hin Hcov S XF'). intros p md Hp Hn Kd Hb.
    apply (unlisted_vacant out c o0 t (empty_dir out) s order0 p md S0 Hn Kd Hb). apply empty_vacant; [exact ON|].
    exact (proj1 (tget_ok t TOK p _ Hn)). }
  split; [exact Hok|]. split; [exact Hfull|]. split.
  - rewrite Hfull. symmetry.
    apply (create_extract c o out order t G WF TOK); [split; [exact Perm|intros _ H; congruence]|exact OP|exact ON].
  - intros q Hb. destruct (S_bound _ _ _ _ _ _ _ S q Hb) as [H|(p & Hp & Hpre)]; [exact H|].
    apply filter_In in Hp. destruct Hp as [_ Hk]. apply is_prefix_ex in Hpre. destruct Hpre as [b E].
    apply prefix_split in E. destruct E as [(r & E1 & E2)|(r & E1 & E2)].
    + destruct (S_chain _ _ _ _ _ _ _ S0 q r E1) as [md H]. rewrite H. discriminate.
    + subst q. apply (after_occupied out c o0 t order0 TOK (proj1 WO0) s S0 p r b Hk E2).
Qed.

(* ---- 4. the same second extraction without --overwrite -------------------------------------------------------------- *)
Theorem no_overwrite_trees : forall c0 o0 order0 t0 c o order t out,
  o_guarded o0 = true -> wf_tree t0 -> tree_ok t0 -> walk_order_ok c0 o0 t0 order0 ->
  o_guarded o = true -> o_overwrite o = false -> wf_tree t -> tree_ok t -> Permutation (map fst t) order ->
  Forall plain out -> out <> [] -> compat c0 t0 c t ->
  let s := extract_all o0 out (create_from_tree c0 order0 t0) (empty_dir out) in
  (forall q, nget (names s) q <> None -> observe (extract_all o out (create_from_tree c order t) s) q = observe s q) /\
  ((exists p p0, kept c t p = true /\ kept c0 t0 p0 = true /\ is_prefix p p0 = true) ->
   snd (extract_run o out (create_from_tree c order t) s) = false).
Proof.
  intros c0 o0 order0 t0 c o order t out G0 WF0 TOK0 WO0 G Eo WF TOK Perm OP ON CP s.
  destruct (extract_into_empty c0 o0 out order0 t0 G0 WF0 TOK0 WO0 OP ON) as [_ S0]. fold s in S0.
  pose proof (base_after out ON c0 o0 t0 order0 s S0 c t TOK CP) as B.
  destruct (no_overwrite_onto c o out order t s G Eo WF TOK Perm OP ON B) as [H1 H2].
  split; [exact H1|]. intros (p & p0 & Hk & Hk0 & Hpre). apply H2. exists p. split; [exact Hk|].
  apply is_prefix_ex in Hpre. destruct Hpre as [b E].
  apply (after_occupied out c0 o0 t0 order0 TOK0 (proj1 WO0) s S0 p0 p b Hk0 E).
Qed.

Theorem no_overwrite_same_tree : forall c o0 order0 o order t out,
  o_guarded o0 = true -> o_guarded o = true -> o_overwrite o = false -> wf_tree t -> tree_ok t ->
  walk_order_ok c o0 t order0 -> Permutation (map fst t) order -> Forall plain out -> out <> [] ->
  let s := extract_all o0 out (create_from_tree c order0 t) (empty_dir out) in
  (forall q, nget (names s) q <> None -> observe (extract_all o out (create_from_tree c order t) s) q = observe s q) /\
  ((exists p, kept c t p = true) -> snd (extract_run o out (create_from_tree c order t) s) = false).
Proof.
  intros c o0 order0 o order t out G0 G Eo WF TOK WO0 Perm OP ON s.
  destruct (no_overwrite_trees c o0 order0 t c o order t out G0 WF TOK WO0 G Eo WF TOK Perm OP ON (compat_refl c t TOK)) as [H1 H2].
  split; [exact H1|]. intros [p Hk]. apply H2. exists p, p. split; [exact Hk|]. split; [exact Hk|apply is_prefix_refl].
Qed.

(* ================================================================================================= *)
(* the table of replacements, evaluated on a concrete state                                             *)
(* ================================================================================================= *)
(* the state: out/f a regular file (mode 0600, two attributes), out/d a directory holding d/x, out/l a link, out/v vacant *)
Definition tb_old : tree :=
  [ ([lit "f"], TFile (lit "old") 384 5 [(lit "user.a", lit "1"); (lit "user.b", lit "2")]);
    ([lit "d"], TDir 448);
    ([lit "d"; lit "x"], TFile (lit "inner") 420 6 []);
    ([lit "l"], TLink (lit "f")) ].
Definition tb_s : fs := extract_all all_x ex_out (create_from_tree all_c (map fst tb_old) tb_old) (empty_dir ex_out).
Definition tb_x : xopts := mk_xopts true true true true true.       (* --overwrite, every keep option *)
Definition tb_nx : xopts := mk_xopts false true true true true.     (* the same without --overwrite *)

Definition kind_at (f : fs) (P : path) : N :=
  match nget (names f) P with None => 0 | Some (DFile _) => 1 | Some (DDir _) => 2 | Some (DLink _) => 3 end.

(* one entry for the node n at out/<name...>: (exit flag, kind at the destination afterwards, kind at out/d/x afterwards) *)
Definition tb_cell (o : xopts) (p : list bytes) (n : tnode) : bool * N * N :=
  let r := extract_run o ex_out (create_from_tree all_c [p] [(p, n)]) tb_s in
  (snd r, kind_at (fst r) (ex_out ++ p), kind_at (fst r) (ex_out ++ [lit "d"; lit "x"])).

Definition nf : tnode := TFile (lit "new") 420 7 [].
Definition nd : tnode := TDir 493.
Definition nl : tnode := TLink (lit "d/x").

Example replacement_table :
  (* a file entry *)
  tb_cell tb_x [lit "v"] nf = (true, 1, 1) /\ tb_cell tb_x [lit "f"] nf = (true, 1, 1) /\
  tb_cell tb_x [lit "d"] nf = (false, 2, 1) /\ tb_cell tb_x [lit "l"] nf = (true, 1, 1) /\
  (* a directory entry *)
  tb_cell tb_x [lit "v"] nd = (true, 2, 1) /\ tb_cell tb_x [lit "f"] nd = (false, 1, 1) /\
  tb_cell tb_x [lit "d"] nd = (true, 2, 1) /\ tb_cell tb_x [lit "l"] nd = (true, 2, 1) /\
  (* a symbolic-link entry: over the directory d everything below d goes *)
  tb_cell tb_x [lit "v"] nl = (true, 3, 1) /\ tb_cell tb_x [lit "f"] nl = (true, 3, 1) /\
  tb_cell tb_x [lit "d"] nl = (true, 3, 0) /\ tb_cell tb_x [lit "l"] nl = (true, 3, 1) /\
  (* below a regular file and below a link nothing is written *)
  tb_cell tb_x [lit "f"; lit "y"] nf = (false, 0, 1) /\ tb_cell tb_x [lit "l"; lit "y"] nf = (false, 0, 1) /\
  tb_cell tb_x [lit "f"; lit "y"] nd = (false, 0, 1) /\ tb_cell tb_x [lit "l"; lit "y"] nl = (false, 0, 1) /\
  (* without --overwrite: every occupied destination is refused and keeps its kind *)
  tb_cell tb_nx [lit "v"] nf = (true, 1, 1) /\ tb_cell tb_nx [lit "f"] nf = (false, 1, 1) /\
  tb_cell tb_nx [lit "d"] nd = (false, 2, 1) /\ tb_cell tb_nx [lit "l"] nl = (false, 3, 1) /\
  tb_cell tb_nx [lit "d"] nl = (false, 2, 1) /\ tb_cell tb_nx [lit "l"] nf = (false, 3, 1).
Proof. vm_compute. repeat split. Qed.

(* "in place": a file entry over a regular file keeps the inode; without --keep-permission / --keep-xattr on the
   extracting side the old mode (0600) and the old attributes stay, the content and the stamp are new *)
Definition tb_plain : xopts := mk_xopts true false false false true.
Example file_over_file_in_place :
  let s' := extract_all tb_plain ex_out (create_from_tree all_c [[lit "f"]] [([lit "f"], nf)]) tb_s in
  match observe tb_s (ex_out ++ [lit "f"]), observe s' (ex_out ++ [lit "f"]) with
  | OFile i n, OFile i' n' =>
      i = i' /\ i_content n = lit "old" /\ i_content n' = lit "new" /\ i_mode n = 384 /\ i_mode n' = 384 /\
      i_xattrs n' = i_xattrs n /\ i_xattrs n = [(lit "user.a", lit "1"); (lit "user.b", lit "2")] /\
      i_mtime n = Some 5 /\ i_mtime n' = None
  | _, _ => False
  end.
Proof. vm_compute. repeat split. Qed.

(* ---- the attribute premise is needed: a stale attribute survives --overwrite --keep-xattr ------------------------- *)
(* the older file has user.a and user.b, the new one only user.a: user.b is still there afterwards *)
Definition t_stale_old : tree := [ ([lit "f"], TFile (lit "old") 420 5 [(lit "user.a", lit "1"); (lit "user.b", lit "2")]) ].
Definition t_stale_new : tree := [ ([lit "f"], TFile (lit "new") 420 7 [(lit "user.a", lit "9")]) ].
Example stale_xattr_witness :
  let s := extract_all all_x ex_out (create_from_tree all_c [[lit "f"]] t_stale_old) (empty_dir ex_out) in
  let s' := extract_all tb_x ex_out (create_from_tree all_c [[lit "f"]] t_stale_new) s in
  wf_tree t_stale_new /\ tree_ok t_stale_new /\ compat all_c t_stale_old all_c t_stale_new /\
  snd (extract_run tb_x ex_out (create_from_tree all_c [[lit "f"]] t_stale_new) s) = true /\
  tree_of all_c tb_x ex_out [[lit "f"]] s' <> expected all_c tb_x [[lit "f"]] t_stale_new /\
  tree_of all_c tb_x ex_out [[lit "f"]] s' =
    [([lit "f"], EFile (lit "new") (Some 420) (Some 7) [(lit "user.a", lit "9"); (lit "user.b", lit "2")])] /\
  xattr_merge [(lit "user.a", lit "1"); (lit "user.b", lit "2")] [(lit "user.a", lit "9")] <> [(lit "user.a", lit "9")].
Proof.
  cbv zeta. split; [apply wf_treeb_sound; vm_compute; reflexivity|]. split; [apply tree_okb_sound; vm_compute; reflexivity|].
  split; [apply compatb_sound; vm_compute; reflexivity|]. split; [vm_compute; reflexivity|].
  split; [vm_compute; discriminate|]. split; [vm_compute; reflexivity|vm_compute; discriminate].
Qed.

(* ---- the premises are decidable and satisfiable ------------------------------------------------------------------------ *)
Lemma xattrs_eqb_eq : forall a b, xattrs_eqb a b = true -> a = b.
Proof.
  induction a as [|[k v] a IH]; intros [|[k' v'] b]; cbn [xattrs_eqb]; try discriminate; [reflexivity|].
  rewrite !andb_true_iff. intros [[H1 H2] H3]. apply bytes_eqb_eq in H1. apply bytes_eqb_eq in H2. subst. f_equal. apply IH. exact H3.
Qed.

Definition xfitb (t0 t : tree) : bool :=
  forallb (fun e0 => forallb (fun e =>
    match snd e0, snd e with
    | TFile _ _ _ xs0, TFile _ _ _ xs => negb (path_eqb (fst e0) (fst e)) || xattrs_eqb (xattr_merge xs0 xs) xs
    | _, _ => true
    end) t) t0.

Lemma xfitb_sound c0 o0 t0 c o t : xfitb t0 t = true -> xfit c0 o0 t0 c o t.
Proof.
  unfold xfitb. intros H _ _ p d0 m0 mt0 xs0 d m mt xs H0 H1.
  rewrite forallb_forall in H. specialize (H _ (tget_In _ _ _ H0)). rewrite forallb_forall in H. specialize (H _ (tget_In _ _ _ H1)).
  cbn [fst snd] in H. rewrite path_eqb_refl in H. cbn [negb orb] in H. apply xattrs_eqb_eq. exact H.
Qed.

(* the older tree is ex_tree (C02's example); the new one changes contents, modes, times and attribute values, adds a
   file, puts a link over the empty directory t/e and over the file t/sub dir/empty, a file over the link t/lf and a
   directory over the link t/ld, and does not mention t/dangling *)
Definition ov_tree : tree :=
  [ ([lit "t"], TDir 448);
    ([lit "t"; lit "sub dir"], TDir 493);
    ([lit "t"; lit "sub dir"; lit "-f"], TFile (lit "new content") 420 2000000000 [(lit "user.k", lit "v2")]);
    ([lit "t"; lit "sub dir"; lit "added"], TFile (lit "x") 420 3 [(lit "user.n", lit "1")]);
    ([lit "t"; lit "sub dir"; lit "empty"], TLink (lit "-f"));
    ([lit "t"; lit "e"], TLink (lit "sub dir"));
    ([lit "t"; lit "lf"], TFile (lit "was a link") 420 4 []);
    ([lit "t"; lit "ld"], TDir 493) ].
Definition ov_order := map fst ov_tree.

Example overlay_premises : forall c0 o0 c o,
  wf_tree ov_tree /\ tree_ok ov_tree /\ Permutation (map fst ov_tree) ov_order /\
  compat c0 ex_tree c ov_tree /\ xfit c0 o0 ex_tree c o ov_tree /\ compat c ov_tree c0 ex_tree.
Proof.
  intros c0 o0 c o. split; [apply wf_treeb_sound; vm_compute; reflexivity|]. split; [apply tree_okb_sound; vm_compute; reflexivity|].
  split; [apply Permutation_refl|].
  assert (K : forall (a b : copts) t0 t, compatb all_c t0 all_c t = true -> compat a t0 b t).
  { intros a b t0 t H p0 n0 p n H0 _ H1 _. apply (compatb_sound all_c t0 all_c t H p0 n0 p n H0); try exact H1; destruct n0, n; reflexivity. }
  split; [apply K; vm_compute; reflexivity|]. split; [apply xfitb_sound; vm_compute; reflexivity|apply K; vm_compute; reflexivity].
Qed.

(* the two runs evaluated: the second extraction reproduces ov_tree, t/dangling of the older tree is still there,
   and without --overwrite the same run fails and leaves the older extraction as it was *)
Example overlay_example :
  let s := extract_all all_x ex_out (create_from_tree all_c ex_order ex_tree) (empty_dir ex_out) in
  let s' := extract_all tb_x ex_out (create_from_tree all_c ov_order ov_tree) s in
  let s'' := extract_all tb_nx ex_out (create_from_tree all_c ov_order ov_tree) s in
  snd (extract_run tb_x ex_out (create_from_tree all_c ov_order ov_tree) s) = true /\
  tree_of all_c tb_x ex_out ov_order s' = expected all_c tb_x ov_order ov_tree /\
  observe s' (ex_out ++ [lit "t"; lit "dangling"]) = observe s (ex_out ++ [lit "t"; lit "dangling"]) /\
  observe s (ex_out ++ [lit "t"; lit "dangling"]) = OLink (lit "/no/where") /\
  snd (extract_run tb_nx ex_out (create_from_tree all_c ov_order ov_tree) s) = false /\
  tree_of all_c all_x ex_out ex_order s'' = expected all_c all_x ex_order ex_tree.
Proof. vm_compute. repeat split. Qed.

(* ================================================================================================= *)
(* the refusals, in general                                                                             *)
(* ================================================================================================= *)
Lemma cda_app : forall a b pre f,
  cda f pre (a ++ b) = let (f', ok) := cda f pre a in if ok then cda f' (pre ++ a) b else (f', false).
Proof.
  induction a as [|x a IH]; intros b pre f.
  - cbn [app cda]. rewrite app_nil_r. reflexivity.
  - cbn [app cda]. replace (pre ++ x :: a) with ((pre ++ [x]) ++ a) by (rewrite <- app_assoc; reflexivity).
    destruct (is_dir f (pre ++ [x])); [apply IH|].
    destruct (mkdir f (pre ++ [x])) as [f1 ok]. destruct ok; [apply IH|reflexivity].
Qed.

Lemma no_link_anc_hits f : forall a pre b, a <> [] -> b <> [] -> is_link f (pre ++ a) = true ->
  no_link_anc f pre (a ++ b) = false.
Proof.
  induction a as [|x a IH]; intros pre b Ha Hb L; [contradiction|].
  destruct a as [|y a].
  - destruct b as [|z b]; [contradiction|]. cbn [app]. rewrite no_link_anc_step, L. reflexivity.
  - cbn [app]. rewrite no_link_anc_step. destruct (is_link f (pre ++ [x])); [reflexivity|].
    apply (IH (pre ++ [x]) b); [discriminate|exact Hb|]. rewrite <- app_assoc. exact L.
Qed.

Section Refuse.
Variable out : path.
Hypothesis out_plain : Forall plain out.
Hypothesis out_nonnil : out <> [].
Variable c : copts.
Variable o : xopts.
Hypothesis guarded : o_guarded o = true.

(* below a symbolic link (ensure_no_symlink_ancestor): nothing happens at all *)
Lemma below_link_refused f r b e :
  Forall normal_component (r ++ b) -> r <> [] -> b <> [] -> e_name e = path_str (r ++ b) ->
  is_link f (out ++ r) = true -> extract_entry o out e f = (f, false).
Proof.
  intros Hn Hr Hb Hname L. unfold extract_entry. cbv zeta. rewrite Hname, (name_roundtrip _ Hn), guarded. cbn [andb].
  assert (E1 : nil_b (r ++ b) = false) by (destruct r; [contradiction|reflexivity]).
  rewrite E1, (no_link_anc_hits f r out b Hr Hb L). reflexivity.
Qed.

(* a file entry over a directory (File::create fails with EISDIR): nothing that existed changes *)
Lemma file_over_dir_refused f p d m mt xs md :
  Forall normal_component p -> p <> [] -> dirs_above (names f) (out ++ p) ->
  nget (names f) (out ++ p) = Some (DDir md) -> o_overwrite o = true ->
  exists f', extract_entry o out (entry_of c p (TFile d m mt xs)) f = (f', false) /\ inodes f' = inodes f /\
             forall q, nget (names f) q <> None -> nget (names f') q = nget (names f) q.
Proof.
  intros Hn Hp D Hd Eo. pose proof (normal_plain_all _ Hn) as Pp.
  assert (HP : Forall plain (out ++ p)) by (apply Forall_app; split; assumption).
  assert (C : clear_way (names f) (out ++ p)) by (intros a b E Ha Hb; right; exact (D a b E Ha Hb)).
  set (e := entry_of c p (TFile d m mt xs)).
  destruct (ov_head out out_plain o guarded f p e Hn Hp (entry_name c p _) C (fun _ => D) (or_intror Eo))
    as (f1 & He & Hi & Hnx & D1 & Q1 & Q2 & Q3).
  rewrite Hd in Q3. cbn [after_unlink] in Q3.
  exists f1. split; [|split; [exact Hi|]].
  - rewrite He. unfold etail. change (N.eqb (e_kind e) 0) with true. cbv iota.
    unfold create_file. rewrite resolve_fl; [|exact HP|exact D1|eapply nolink_dir; exact Q3]. rewrite Q3. reflexivity.
  - intros q Hb. destruct (path_eq_dec q (out ++ p)) as [->|Hq]; [congruence|apply Q1; assumption].
Qed.

(* a directory entry over a regular file (mkdir fails with EEXIST): nothing that existed changes *)
Lemma dir_over_file_refused f p m i :
  Forall normal_component p -> p <> [] -> dirs_above (names f) (out ++ p) ->
  nget (names f) (out ++ p) = Some (DFile i) -> o_overwrite o = true ->
  exists f', extract_entry o out (entry_of c p (TDir m)) f = (f', false) /\ inodes f' = inodes f /\
             forall q, nget (names f) q <> None -> nget (names f') q = nget (names f) q.
Proof.
  intros Hn Hp D Hd Eo. pose proof (normal_plain_all _ Hn) as Pp.
  assert (HP : Forall plain (out ++ p)) by (apply Forall_app; split; assumption).
  assert (C : clear_way (names f) (out ++ p)) by (intros a b E Ha Hb; right; exact (D a b E Ha Hb)).
  set (e := entry_of c p (TDir m)).
  destruct (ov_head out out_plain o guarded f p e Hn Hp (entry_name c p _) C (fun _ => D) (or_intror Eo))
    as (f1 & He & Hi & Hnx & D1 & Q1 & Q2 & Q3).
  rewrite Hd in Q3. cbn [after_unlink] in Q3.
  assert (EP : exists P0 x, out ++ p = P0 ++ [x]).
  { destruct (exists_last Hp) as (p0 & x & ->). exists (out ++ p0), x. apply app_assoc. }
  destruct EP as (P0 & x & EP).
  destruct (cda_spec P0 [] f1) as (f2 & Hc2 & Hi2 & Hn2 & J1 & J2 & J3).
  { cbn [app]. rewrite EP in HP. apply Forall_app in HP. tauto. }
  { intros a b E Ha. destruct a; [contradiction|discriminate]. }
  { intros a b E Ha. cbn [app]. right. apply (D1 a (b ++ [x])); [rewrite EP, E, app_assoc; reflexivity|exact Ha|].
    intros E2. apply app_eq_nil in E2. destruct E2; discriminate. }
  assert (Hsame : forall q, nget (names f1) q <> None -> nget (names f2) q = nget (names f1) q) by exact J1.
  assert (D2 : dirs_above (names f2) (out ++ p)).
  { intros a b E Ha Hb. destruct (D1 a b E Ha Hb) as [md H]. exists md. rewrite Hsame; [exact H|rewrite H; discriminate]. }
  assert (N2 : nget (names f2) (out ++ p) = Some (DFile i)) by (rewrite Hsame; [exact Q3|rewrite Q3; discriminate]).
  exists f2. split; [|split; [congruence|]].
  - rewrite He. unfold etail. change (N.eqb (e_kind e) 0) with false. change (N.eqb (e_kind e) 1) with true. cbv iota.
    unfold create_dir_all. rewrite EP, cda_app, Hc2. cbn [app cda]. rewrite <- EP.
    assert (Hnd : is_dir f2 (out ++ p) = false).
    { unfold is_dir. rewrite stat_lit; [rewrite N2; reflexivity|exact HP|exact D2|eapply nolink_file; exact N2]. }
    rewrite Hnd. unfold mkdir. rewrite resolve_nf by assumption. rewrite N2. reflexivity.
  - intros q Hb. destruct (path_eq_dec q (out ++ p)) as [->|Hq]; [congruence|].
    rewrite Hsame; [apply Q1; assumption|]. rewrite Q1; assumption.
Qed.

End Refuse.

(* ---- the premises with their definitions unfolded (for readers of Props/C02_overlay.v) ------------------------------- *)
Lemma overlay_premises_unfolded : forall out c0 o0 t0 c o t f0,
  (Base out c t f0 <->
     (forall a b, out = a ++ b -> exists md, nget (names f0) a = Some (DDir md)) /\
     (forall p, kept c t p = true -> forall a b, out ++ p = a ++ b -> a <> [] -> b <> [] ->
        nget (names f0) a = None \/ exists md, nget (names f0) a = Some (DDir md)) /\
     (forall p a b, kept c t p = true -> nget (names f0) (out ++ p) <> None -> p = a ++ b -> b <> [] ->
        nget (names f0) (out ++ a) <> None) /\
     (forall p n, tget t p = Some n -> collected c n = true ->
        match n with
        | TFile _ _ _ _ => forall md, nget (names f0) (out ++ p) <> Some (DDir md)
        | TDir _ => forall i, nget (names f0) (out ++ p) <> Some (DFile i)
        | TLink _ => True
        end) /\
     ((forall q i, nget (names f0) q = Some (DFile i) -> i < next f0) /\
      (forall q q' i, nget (names f0) q = Some (DFile i) -> nget (names f0) q' = Some (DFile i) -> q = q') /\
      (forall q i, nget (names f0) q = Some (DFile i) -> exists n, iget (inodes f0) i = Some n))) /\
  (xattrs_fit out c o t f0 <->
     (kept_xattr c o = true -> forall p d m mt xs, tget t p = Some (TFile d m mt xs) ->
      xattr_merge (match nget (names f0) (out ++ p) with
                   | Some (DFile i) => match iget (inodes f0) i with Some n => i_xattrs n | None => [] end
                   | _ => [] end) xs = xs)) /\
  (compat c0 t0 c t <->
     forall p0 n0 p n, tget t0 p0 = Some n0 -> collected c0 n0 = true -> tget t p = Some n -> collected c n = true ->
       ((exists b, b <> [] /\ p = p0 ++ b) -> is_tdir n0 = true) /\
       ((exists b, b <> [] /\ p0 = p ++ b) -> is_tfile n = false) /\
       (p = p0 -> (is_tfile n = true -> is_tdir n0 = false) /\ (is_tdir n = true -> is_tfile n0 = false))) /\
  (xfit c0 o0 t0 c o t <->
     (kept_xattr c0 o0 = true -> kept_xattr c o = true ->
      forall p d0 m0 mt0 xs0 d m mt xs, tget t0 p = Some (TFile d0 m0 mt0 xs0) -> tget t p = Some (TFile d m mt xs) ->
      xattr_merge xs0 xs = xs)).
Proof.
  intros out c0 o0 t0 c o t f0. split; [|split; [|split]].
  - split.
    + intros [B1 B2 B3 B4 B5]. split; [exact B1|]. split; [exact B2|]. split; [exact B3|]. split; [|exact B5].
      intros p n Hn Hc. specialize (B4 p n Hn Hc). destruct n; exact B4.
    + intros (B1 & B2 & B3 & B4 & B5). constructor; assumption.
  - unfold xattrs_fit, old_xattrs, old_file. split; intros H Kx p d m mt xs Hn; specialize (H Kx p d m mt xs Hn);
      destruct (nget (names f0) (out ++ p)) as [[i|md|tg]|]; try exact H; destruct (iget (inodes f0) i); exact H.
  - split; intros H; exact H.
  - split; intros H; exact H.
Qed.
