(* WfRewriteFacts.v — C14, the converse of writer_wf and the first half of transform_wf:
   every entry the strict decoder returns is `writable` (so `writable` is exactly what the
   recogniser asks for: sufficient by WfWriterFacts.writer_wf, necessary here), hence re-writing
   the decoded entries of a well-formed archive — all of them (copy), some of them (delete), or
   with attributes replaced inside the ranges (chmod, chown, xattr, strip) — gives a well-formed
   archive again. *)
From PNA Require Import Base Crc32 Name Codec Chunk Archive Entry Wf.
From PNA Require Import BaseFacts NameFacts CodecFacts Crc32Facts ChunkFacts ArchiveFacts EntryFacts WfFacts
  WfWriterFacts WfAgreeFacts.
Require Import ZArith ZifyN ZifyNat ZifyBool.
Open Scope N_scope.

(* ================================================================================================= *)
(* 1. the strict loop establishes the writer's conditions                                             *)
(* ================================================================================================= *)
Definition xattr_fits (x : xattr) : Prop := wf_xattr x /\ 8 + len (x_name x) + len (x_value x) < 2 ^ 32.

Definition acc_ok (enc : encryption) (a : nacc) : Prop :=
  opt_all (fun s => encrypted enc = true /\ phsf_shape s = true /\ len s < 2 ^ 32) (k_phsf a) /\
  Forall extra_ok (k_extra a) /\ Forall (fun d => len d < 2 ^ 32) (k_data a) /\ k_csize a = sum_len (k_data a) /\
  opt_all (fun n => n < 2 ^ 128) (k_size a) /\
  opt_all (fun t => t < 2 ^ 64) (k_c a) /\ opt_all (fun t => t < 2 ^ 64) (k_m a) /\ opt_all (fun t => t < 2 ^ 64) (k_a a) /\
  opt_all wf_perm (k_perm a) /\ Forall xattr_fits (k_x a).

Lemma of_be_lt_le l k : (length l <= k)%nat -> of_be l < 256 ^ N.of_nat k.
Proof.
  intro H. pose proof (of_be_lt l) as L. unfold len in L.
  assert (256 ^ N.of_nat (length l) <= 256 ^ N.of_nat k) by (apply N.pow_le_mono_r; lia). lia.
Qed.

Lemma Forall_snoc {A} (P : A -> Prop) l x : Forall P l -> P x -> Forall P (l ++ [x]).
Proof. intros H1 H2. apply Forall_app. split; [exact H1|constructor; [exact H2|constructor]]. Qed.

Ltac acc_split :=
  unfold acc_ok; cbn [k_info k_phsf k_extra k_data k_csize k_size k_c k_m k_a k_perm k_x opt_all];
  split; [try assumption|split; [try assumption|split; [try assumption|split; [try assumption|split; [try assumption|
  split; [try assumption|split; [try assumption|split; [try assumption|split; [try assumption|try assumption]]]]]]]]].

Lemma strict_step_ok enc c a a' : strict_chunk c -> acc_ok enc a -> strict_step enc c a = SOk a' -> acc_ok enc a'.
Proof.
  intros ((TL & DL) & VT) (A1 & A2 & A3 & A4 & A5 & A6 & A7 & A8 & A9 & A10). unfold strict_step.
  destruct (ty_is c FEND) eqn:T1; [discriminate|]. destruct (ty_is c FHED) eqn:T2; [discriminate|].
  destruct (ty_is c PHSF) eqn:T3.
  { unfold phsf_step. destruct (encrypted enc) eqn:EN; cbn [negb]; [|discriminate]. destruct (k_phsf a); [discriminate|].
    destruct (negb (is_nil (k_data a))); [discriminate|]. destruct (phsf_shape (cdata c)) eqn:PS; [|discriminate]. cbn [sbind].
    intros [= <-]. acc_split. repeat split; assumption. }
  destruct (ty_is c FDAT) eqn:T4.
  { destruct (encrypted enc && negb (is_some (k_phsf a))); [discriminate|]. intros [= <-]. acc_split.
    - apply Forall_snoc; assumption.
    - rewrite sum_len_app, sum_len_cons, sum_len_nil, A4. lia. }
  destruct (ty_is c fSIZ) eqn:T5.
  { destruct (is_some (k_size a) || negb (Nat.leb (length (cdata c)) 16)
              || match cdata c with b :: _ => N.eqb (b2n b) 0 | [] => false end) eqn:E; [discriminate|].
    intros [= <-]. acc_split. apply orb_false_elim in E. destruct E as (E & _). apply orb_false_elim in E. destruct E as (_ & E).
    apply negb_false_iff, Nat.leb_le in E. apply (of_be_lt_le _ 16 E). }
  destruct (ty_is c cTIM) eqn:T6.
  { destruct (is_some (k_c a) || negb (Nat.eqb (length (cdata c)) 8)) eqn:E; [discriminate|].
    intros [= <-]. acc_split. apply orb_false_elim in E. destruct E as (_ & E). apply negb_false_iff, Nat.eqb_eq in E.
    apply (of_be_lt_le _ 8). lia. }
  destruct (ty_is c mTIM) eqn:T7.
  { destruct (is_some (k_m a) || negb (Nat.eqb (length (cdata c)) 8)) eqn:E; [discriminate|].
    intros [= <-]. acc_split. apply orb_false_elim in E. destruct E as (_ & E). apply negb_false_iff, Nat.eqb_eq in E.
    apply (of_be_lt_le _ 8). lia. }
  destruct (ty_is c aTIM) eqn:T8.
  { destruct (is_some (k_a a) || negb (Nat.eqb (length (cdata c)) 8)) eqn:E; [discriminate|].
    intros [= <-]. acc_split. apply orb_false_elim in E. destruct E as (_ & E). apply negb_false_iff, Nat.eqb_eq in E.
    apply (of_be_lt_le _ 8). lia. }
  destruct (ty_is c fPRM) eqn:T9.
  { destruct (is_some (k_perm a)); [discriminate|]. destruct (perm_of_bytes (cdata c)) as [p| |] eqn:P; try discriminate.
    destruct (bytes_eqb (perm_to_bytes p) (cdata c)); [|discriminate]. intros [= <-]. acc_split. exact (perm_dec_wf _ _ P). }
  destruct (ty_is c xATR) eqn:T10.
  { destruct (xattr_of_bytes (cdata c)) as [x| |] eqn:X; try discriminate.
    destruct (bytes_eqb (xattr_to_bytes x) (cdata c)) eqn:B; [|discriminate]. intros [= <-]. acc_split.
    apply Forall_snoc; [assumption|]. split; [exact (xattr_dec_wf _ _ X)|].
    apply bytes_eqb_eq in B. rewrite <- xattr_bytes_len, B. exact DL. }
  destruct (ty_is_critical (cty c)) eqn:CR; [discriminate|]. intros [= <-]. acc_split.
  apply Forall_snoc; [assumption|]. split; [split; [split; assumption|exact VT]|]. split; [exact CR|].
  unfold is_known. rewrite T1, T2, T3, T4, T5, T6, T7, T8, T9, T10. reflexivity.
Qed.

Lemma strict_loop_ok enc body : forall a a', Forall strict_chunk body -> acc_ok enc a ->
  strict_loop enc body a = SOk a' -> acc_ok enc a'.
Proof.
  induction body as [|c body IH]; intros a a' F A; cbn [strict_loop]; [intros [= <-]; exact A|].
  inversion F as [|? ? Hc Hb]; subst. destruct (strict_step enc c a) as [a1|] eqn:S; cbn [sbind]; [|discriminate].
  intro H. exact (IH _ _ Hb (strict_step_ok _ _ _ _ Hc A S) H).
Qed.

Lemma strict_fhed_inv d h : strict_fhed d = SOk h ->
  f_major h = 0 /\ f_minor h = 0 /\ valid_name (f_name h) = true /\ len d = 6 + len (f_name h).
Proof.
  unfold strict_fhed. destruct d as [|b0 [|b1 [|b2 [|b3 [|b4 [|b5 name]]]]]]; try discriminate.
  destruct (N.eqb (b2n b0) 0 && N.eqb (b2n b1) 0); [|discriminate].
  destruct (kind_of_n (b2n b2)); [|discriminate]. destruct (comp_of_n (b2n b3)); [|discriminate].
  destruct (enc_of_n (b2n b4)); [|discriminate]. destruct (mode_of_n (b2n b5)); [|discriminate].
  destruct (valid_name name) eqn:V; [|discriminate]. intros [= <-]. cbn [f_major f_minor f_name].
  repeat split; try assumption. unfold len. cbn [length]. lia.
Qed.

Theorem strict_normal_writable h body e n : strict_chunk h -> Forall strict_chunk body ->
  strict_normal h body e = SOk n -> writable_normal n.
Proof.
  intros ((_ & HL) & _) FB. unfold strict_normal.
  destruct (strict_fhed (cdata h)) as [hd|] eqn:SH; cbn [sbind]; [|discriminate].
  destruct (strict_fhed_inv _ _ SH) as (MJ & MN & VN & LN).
  match goal with |- context [strict_loop ?en body ?a0] => destruct (strict_loop en body a0) as [a|] eqn:SL;
    cbn [sbind]; [|discriminate]; assert (acc_ok en a0) as A0 end.
  { unfold acc_ok. cbn [k_info k_phsf k_extra k_data k_csize k_size k_c k_m k_a k_perm k_x opt_all].
    repeat split; try constructor. }
  pose proof (strict_loop_ok _ _ _ _ FB A0 SL) as (A1 & A2 & A3 & A4 & A5 & A6 & A7 & A8 & A9 & A10).
  destruct (negb (is_nil (cdata e))); [discriminate|].
  destruct (encrypted (f_enc hd) && negb (is_some (k_phsf a))) eqn:EP; [discriminate|].
  destruct (negb (data_len_ok (f_enc hd) (f_mode hd) (k_csize a))) eqn:DLk; [discriminate|].
  intros [= <-]. unfold writable_normal. cbv zeta.
  cbn [n_hdr n_phsf n_extra n_data n_meta n_xattrs m_raw_size m_compressed m_ctime m_mtime m_atime m_perm].
  split; [exact MJ|]. split; [exact MN|]. split; [exact VN|]. split; [rewrite <- LN; exact HL|].
  split.
  { destruct (k_phsf a); cbn [opt_all phsf_ok is_some negb] in *; [exact A1|].
    rewrite andb_true_r in EP. exact EP. }
  split; [exact A2|]. split; [exact A4|].
  split; [rewrite <- A4; apply negb_false_iff in DLk; exact DLk|].
  repeat split; assumption.
Qed.

(* the same for solid entries *)
Definition sacc_ok (enc : encryption) (a : sacc) : Prop :=
  opt_all (fun s => encrypted enc = true /\ phsf_shape s = true /\ len s < 2 ^ 32) (q_phsf a) /\
  Forall (fun d => len d < 2 ^ 32) (q_data a) /\ q_len a = sum_len (q_data a) /\ Forall sextra_ok (q_extra a).

Lemma solid_step_ok enc c a a' : strict_chunk c -> sacc_ok enc a -> solid_step enc c a = SOk a' -> sacc_ok enc a'.
Proof.
  intros ((TL & DL) & VT) (A1 & A2 & A3 & A4). unfold solid_step.
  destruct (ty_is c SEND); [discriminate|]. destruct (ty_is c SHED); [discriminate|].
  destruct (ty_is c SDAT).
  { destruct (encrypted enc && negb (is_some (q_phsf a))); [discriminate|]. intros [= <-].
    unfold sacc_ok. cbn [q_phsf q_data q_len q_extra]. split; [exact A1|]. split; [apply Forall_snoc; assumption|].
    split; [rewrite sum_len_app, sum_len_cons, sum_len_nil, A3; lia|exact A4]. }
  destruct (ty_is c PHSF).
  { unfold phsf_step. destruct (encrypted enc) eqn:EN; cbn [negb]; [|discriminate]. destruct (q_phsf a); [discriminate|].
    destruct (negb (is_nil (q_data a))); [discriminate|]. destruct (phsf_shape (cdata c)) eqn:PS; [|discriminate]. cbn [sbind].
    intros [= <-]. unfold sacc_ok. cbn [q_phsf q_data q_len q_extra opt_all]. repeat split; assumption. }
  destruct (ty_is_critical (cty c)) eqn:CR; [discriminate|]. intros [= <-].
  unfold sacc_ok. cbn [q_phsf q_data q_len q_extra]. repeat split; try assumption.
  apply Forall_snoc; [assumption|]. split; [split; [split; assumption|exact VT]|exact CR].
Qed.

Lemma solid_loop_ok enc body : forall a a', Forall strict_chunk body -> sacc_ok enc a ->
  solid_loop enc body a = SOk a' -> sacc_ok enc a'.
Proof.
  induction body as [|c body IH]; intros a a' F A; cbn [solid_loop]; [intros [= <-]; exact A|].
  inversion F as [|? ? Hc Hb]; subst. destruct (solid_step enc c a) as [a1|] eqn:S; cbn [sbind]; [|discriminate].
  intro H. exact (IH _ _ Hb (solid_step_ok _ _ _ _ Hc A S) H).
Qed.

Lemma strict_shed_inv d h : strict_shed d = SOk h -> s_major h = 0 /\ s_minor h = 0.
Proof.
  unfold strict_shed. destruct d as [|b0 [|b1 [|b2 [|b3 [|b4 [|]]]]]]; try discriminate.
  destruct (N.eqb (b2n b0) 0 && N.eqb (b2n b1) 0); [|discriminate].
  destruct (comp_of_n (b2n b2)); [|discriminate]. destruct (enc_of_n (b2n b3)); [|discriminate].
  destruct (mode_of_n (b2n b4)); [|discriminate]. intros [= <-]. split; reflexivity.
Qed.

Theorem strict_solid_writable h body e s : Forall strict_chunk body ->
  strict_solid h body e = SOk s -> writable_solid s.
Proof.
  intros FB. unfold strict_solid.
  destruct (strict_shed (cdata h)) as [hd|] eqn:SH; cbn [sbind]; [|discriminate].
  destruct (strict_shed_inv _ _ SH) as (MJ & MN).
  match goal with |- context [solid_loop ?en body ?a0] => destruct (solid_loop en body a0) as [a|] eqn:SL;
    cbn [sbind]; [|discriminate]; assert (sacc_ok en a0) as A0 end.
  { unfold sacc_ok. cbn [q_phsf q_data q_len q_extra opt_all]. repeat split; constructor. }
  pose proof (solid_loop_ok _ _ _ _ FB A0 SL) as (A1 & A2 & A3 & A4).
  destruct (negb (is_nil (cdata e))); [discriminate|].
  destruct (encrypted (s_enc hd) && negb (is_some (q_phsf a))) eqn:EP; [discriminate|].
  destruct (negb (data_len_ok (s_enc hd) (s_mode hd) (q_len a))) eqn:DLk; [discriminate|].
  destruct (plain_solid hd && negb (match inner_entries (concat (q_data a)) with SOk _ => true | SNo _ => false end)) eqn:PI; [discriminate|].
  intros [= <-]. unfold writable_solid. cbv zeta. cbn [so_hdr so_phsf so_data so_extra].
  split; [exact MJ|]. split; [exact MN|]. split.
  { destruct (q_phsf a); cbn [opt_all phsf_ok is_some negb] in *; [exact A1|]. rewrite andb_true_r in EP. exact EP. }
  split; [exact A4|]. split; [exact A2|].
  split; [rewrite <- A3; apply negb_false_iff in DLk; exact DLk|].
  intro PS. rewrite PS in PI. cbn [andb] in PI. apply negb_false_iff in PI. unfold sok. exact PI.
Qed.

Theorem any_entry_writable h body e x : strict_chunk h -> Forall strict_chunk body ->
  any_entry h body e = SOk x -> writable x.
Proof.
  intros SH FB. unfold any_entry. destruct (ty_is h FHED).
  - unfold normal_only. destruct (strict_normal h body e) as [n|] eqn:S; cbn [sbind]; [|discriminate].
    intros [= <-]. exact (strict_normal_writable _ _ _ _ SH FB S).
  - destruct (strict_solid h body e) as [s|] eqn:S; cbn [sbind]; [|discriminate].
    intros [= <-]. exact (strict_solid_writable _ _ _ _ FB S).
Qed.

(* ================================================================================================= *)
(* 2. every strictly decoded entry is writable                                                        *)
(* ================================================================================================= *)
Lemma bodies_strict : forall parts idx cs, bodies idx parts = SOk cs -> Forall strict_chunk cs.
Proof.
  induction parts as [|p parts IH]; intros idx cs; [discriminate|]. rewrite bodies_cons.
  destruct (part_body idx p) as [[b n]|] eqn:PB; cbn [sbind]; [|discriminate].
  destruct (part_body_inv _ _ _ _ PB) as (h & t & _ & _ & _ & _ & SC & _ & _).
  destruct parts as [|p2 parts].
  - destruct n; [discriminate|]. intros [= <-]. exact SC.
  - destruct n; [|discriminate]. destruct (bodies (idx + 1) (p2 :: parts)) as [r|] eqn:BR; cbn [sbind]; [|discriminate].
    intros [= <-]. apply Forall_app. split; [exact SC|exact (IH _ _ BR)].
Qed.

Lemma groups_writable groups es : Forall2 group_of groups es -> Forall strict_chunk (concat groups) -> Forall writable es.
Proof.
  induction 1 as [|g x groups es G _ IH]; intro F; [constructor|]. cbn [concat] in F. apply Forall_app in F.
  destruct F as (Fg & Fr). constructor; [|exact (IH Fr)].
  destruct G as (h & body & e & -> & _ & _ & A). inversion Fg as [|? ? SH Fb]; subst.
  apply Forall_app in Fb. destruct Fb as (Fb & _). exact (any_entry_writable _ _ _ _ SH Fb A).
Qed.

Theorem decoded_writable parts es : strict_parts parts = SOk es -> Forall writable es.
Proof.
  unfold strict_parts. destruct (bodies 0 parts) as [cs|] eqn:B; cbn [sbind]; [|discriminate]. intro E.
  destruct (entries_sm_groups cs None es E) as (groups & -> & F).
  exact (groups_writable _ _ F (bodies_strict _ _ _ B)).
Qed.

(* `writable` is exactly the recogniser's demand on entries: every list of writable entries is
   written to an accepted archive that decodes to it (up to the dropped empty data chunks), and every
   accepted archive decodes to a list of writable entries *)
Theorem writable_exact :
  (forall es, Forall writable es -> strict_decode (write_raw_archive 0 (map ser_entry es)) = Ok (map normalize_entry es)) /\
  (forall a es, strict_decode a = Ok es -> Forall writable es).
Proof.
  split; [intros es W; exact (proj2 (writer_wf es W))|].
  intros a es. unfold strict_decode. destruct (strict_parts [a]) as [es'|] eqn:S; [|discriminate].
  intros [= <-]. exact (decoded_writable _ _ S).
Qed.

(* ================================================================================================= *)
(* 3. re-writing decoded entries: copy, delete                                                        *)
(* ================================================================================================= *)
(* any selection of the decoded entries of well-formed archives (pna concat, delete, the unchanged
   entries of every editing command) written again is well-formed *)
Theorem rewrite_wf a es keep : strict_decode a = Ok es ->
  wf_archive (write_raw_archive 0 (map ser_entry (filter keep es))) = true /\
  strict_decode (write_raw_archive 0 (map ser_entry (filter keep es))) = Ok (map normalize_entry (filter keep es)).
Proof.
  intro D. apply writer_wf. pose proof (proj2 writable_exact _ _ D) as W.
  apply Forall_forall. intros x Hx. apply filter_In in Hx. rewrite Forall_forall in W. apply W, Hx.
Qed.

Corollary copy_wf a es : wf_archive a = true -> strict_decode a = Ok es ->
  wf_archive (write_raw_archive 0 (map ser_entry es)) = true.
Proof.
  intros _ D. pose proof (rewrite_wf a es (fun _ => true) D) as (W & _).
  replace (filter (fun _ => true) es) with es in W; [exact W|].
  clear. induction es as [|e es IH]; [reflexivity|]. cbn [filter]. rewrite <- IH. reflexivity.
Qed.

(* ================================================================================================= *)
(* 4. expanding a plain solid entry: the library's inner iteration agrees with the recogniser         *)
(* ================================================================================================= *)
Lemma stream_chunks_inv : forall fuel bs cs, stream_chunks fuel bs = SOk cs -> bs = ser_chunks cs /\ Forall strict_chunk cs.
Proof.
  induction fuel as [|f IH]; intros bs cs; cbn [stream_chunks]; [discriminate|].
  destruct bs as [|b bs']; [intros [= <-]; split; [reflexivity|constructor]|].
  destruct (read_strict_chunk (b :: bs')) as [[c r]|] eqn:R; cbn [sbind]; [|discriminate].
  destruct (stream_chunks f r) as [cs'|] eqn:S; cbn [sbind]; [|discriminate]. intros [= <-].
  destruct (read_strict_inv _ _ _ R) as (SC & E). destruct (IH _ _ S) as (-> & F).
  split; [rewrite ser_chunks_cons; exact E|constructor; assumption].
Qed.

(* the grammar of a solid stream: file entries only *)
Definition ngroup_of (g : list chunk) (x : read_entry) : Prop :=
  exists h body e, g = h :: body ++ [e] /\ ty_is h FHED = true /\ ty_is e FEND = true /\ normal_only h body e = SOk x.

Lemma entries_sm_ngroups cs : forall cur es,
  entries_sm false normal_only cs cur = SOk es ->
  match cur with
  | None => exists groups, cs = concat groups /\ Forall2 ngroup_of groups es
  | Some (h, acc) =>
    ty_is h FHED = true ->
    exists body e groups x es', cs = body ++ e :: concat groups /\ es = x :: es' /\
      ty_is e FEND = true /\ normal_only h (rev acc ++ body) e = SOk x /\ Forall2 ngroup_of groups es'
  end.
Proof.
  induction cs as [|c r IH]; intros cur es; cbn [entries_sm].
  - destruct cur as [[h acc]|]; [discriminate|]. intros [= <-]. exists []. split; [reflexivity|constructor].
  - destruct cur as [[h acc]|].
    + intros H HF. rewrite HF in H. destruct (ty_is c FEND) eqn:T.
      * destruct (normal_only h (rev acc) c) as [x|] eqn:E; cbn [sbind] in H; [|discriminate].
        destruct (entries_sm false normal_only r None) as [es'|] eqn:R; cbn [sbind] in H; [|discriminate].
        inversion H; subst. destruct (IH None es' R) as (groups & EQ & F).
        exists [], c, groups, x, es'. rewrite app_nil_r. repeat split; try assumption. cbn [app]. rewrite EQ. reflexivity.
      * destruct (IH (Some (h, c :: acc)) es H HF) as (body & e & groups & x & es' & E1 & E2 & TE & P & F).
        exists (c :: body), e, groups, x, es'. split; [cbn [app]; rewrite E1; reflexivity|]. split; [exact E2|].
        split; [exact TE|]. split; [|exact F]. cbn [rev] in P. rewrite <- app_assoc in P. exact P.
    + destruct (ty_is c FHED || false && ty_is c SHED) eqn:O.
      * intro H. assert (ty_is c FHED = true) as HF by (rewrite andb_false_l, orb_false_r in O; exact O).
        destruct (IH (Some (c, [])) es H HF) as (body & e & groups & x & es' & E1 & E2 & TE & P & F).
        exists ((c :: body ++ [e]) :: groups). split; [cbn [concat app]; rewrite E1, <- app_assoc; reflexivity|].
        subst es. constructor; [|exact F]. exists c, body, e. repeat split; assumption.
      * destruct (ty_is_critical (cty c) && negb (known_critical (cty c))); discriminate.
Qed.

Lemma inner_item_group e rest : wf_chunk e -> ty_is e FEND = true ->
  forall body fuel acc, Forall wf_chunk body -> Forall (fun c => ty_is c FEND = false) body -> (length body < fuel)%nat ->
  inner_item fuel (ser_chunks body ++ ser_chunk e ++ rest) acc = Ok (Some (acc ++ body ++ [e], rest)).
Proof.
  intros We Te. induction body as [|c body IH]; intros fuel acc W NF L; (destruct fuel as [|fuel]; [cbn [length] in L; lia|]).
  - rewrite ser_chunks_nil. cbn [app inner_item]. rewrite read_chunk_ser by exact We. rewrite Te. reflexivity.
  - inversion W; subst. inversion NF; subst. rewrite ser_chunks_cons, <- app_assoc. cbn [inner_item].
    rewrite read_chunk_ser by assumption. rewrite H3. rewrite IH by (try assumption; cbn [length] in L; lia).
    rewrite <- app_assoc. reflexivity.
Qed.

Definition pgroup (g : list chunk) (n : normal_entry) : Prop :=
  (exists pre e, g = pre ++ [e] /\ Forall wf_chunk g /\ Forall (fun c => ty_is c FEND = false) pre /\ ty_is e FEND = true) /\
  parse_normal g = Ok n.

Lemma inner_loop_groups : forall groups ns fuel, Forall2 pgroup groups ns -> (length groups < fuel)%nat ->
  inner_entries_loop fuel (ser_chunks (concat groups)) = (ns, FinOk).
Proof.
  induction groups as [|g groups IH]; intros ns fuel F L; inversion F as [|? n ? ns' G F']; subst;
    (destruct fuel as [|fuel]; [cbn [length] in L; lia|]).
  - cbn [concat]. rewrite ser_chunks_nil. reflexivity.
  - destruct G as ((pre & e & -> & W & NF & TE) & P). cbn [concat]. rewrite <- app_assoc, !ser_chunks_app.
    apply Forall_app in W. destruct W as (Wp & We). inversion We; subst.
    cbn [inner_entries_loop]. rewrite ser_chunks_cons, ser_chunks_nil, app_nil_r.
    rewrite (inner_item_group e (ser_chunks (concat groups))) by
      (try assumption; rewrite !app_length; pose proof (length_ser_chunks_ge pre); lia).
    cbn [app]. rewrite P. rewrite (IH ns' fuel F') by (cbn [length] in L; lia). reflexivity.
Qed.

(* SolidEntry::entries on an uncompressed, unencrypted solid entry the recogniser accepted: the
   EntryIterator ends normally and yields writable entries *)
Theorem solid_inner_writable s : writable_solid s -> solid_plain s = true ->
  exists inner, solid_inner_entries s = (inner, FinOk) /\ Forall writable_normal inner.
Proof.
  intros (_ & _ & _ & _ & _ & _ & PI) SP.
  assert (plain_solid (so_hdr s) = true) as PS by exact SP. specialize (PI PS).
  unfold solid_inner_entries. destruct (inner_entries (concat (so_data s))) as [xs|] eqn:IE; [|discriminate]. clear PI.
  unfold inner_entries in IE.
  destruct (stream_chunks (S (length (concat (so_data s)))) (concat (so_data s))) as [cs|] eqn:SC; cbn [sbind] in IE; [|discriminate].
  destruct (stream_chunks_inv _ _ _ SC) as (EQ & F). rewrite EQ.
  destruct (entries_sm_ngroups cs None xs IE) as (groups & -> & G).
  assert (exists ns, Forall2 pgroup groups ns /\ Forall writable_normal ns) as (ns & PG & WN).
  { clear IE SC EQ. revert F. induction G as [|g x groups xs Hg _ IH]; intro F; [exists []; split; constructor|].
    cbn [concat] in F. apply Forall_app in F. destruct F as (Fg & Fr). destruct (IH Fr) as (ns & PG & WN).
    destruct Hg as (h & body & e & -> & HF & EF & NO). unfold normal_only in NO.
    destruct (strict_normal h body e) as [n|] eqn:SN; cbn [sbind] in NO; [|discriminate].
    inversion Fg as [|? ? SH Fb]; subst. apply Forall_app in Fb. destruct Fb as (Fb & Fe).
    exists (n :: ns). split; constructor; try assumption.
    - split; [|exact (strict_normal_agrees _ _ _ _ HF EF SN)].
      exists (h :: body), e. split; [reflexivity|]. split.
      { constructor; [apply SH|]. apply Forall_app. split; eapply Forall_impl; try exact Fb; try exact Fe; intros c Hc; apply Hc. }
      split; [|exact EF]. constructor.
      { unfold ty_is. rewrite (ty_is_eq _ _ HF). exact FHED_not_FEND. }
      pose proof (any_entry_no_end h body e (RNormal n)) as NE. unfold any_entry in NE. rewrite HF in NE.
      unfold normal_only in NE. rewrite SN in NE. specialize (NE eq_refl).
      eapply Forall_impl; [|exact NE]. intros c Hc. unfold is_end in Hc. apply orb_false_elim in Hc. apply Hc.
    - exact (strict_normal_writable _ _ _ _ SH Fb SN). }
  exists ns. split; [|exact WN].
  rewrite (inner_loop_groups groups ns _ PG); [reflexivity|].
  assert (length groups <= length (ser_chunks (concat groups)))%nat; [|lia].
  clear -PG. induction PG as [|g n groups ns ((pre & e & -> & _) & _) _ IH]; [cbn; lia|].
  cbn [concat length]. rewrite ser_chunks_app, app_length, ser_chunks_app, app_length, ser_chunks_cons, app_length.
  pose proof (ser_chunk_length_ge e). lia.
Qed.
