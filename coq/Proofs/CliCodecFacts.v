(* CliCodecFacts.v — inverse and stability laws of the CLI's textual codecs (Model/CliCodec.v):
   xattr values in hex and base64, part file names, access-control entries (with and
   without platform), chmod modes (canonical spelling, idempotent application). *)
From PNA Require Import Base CliCodec BaseFacts NameFacts.
Require Import ZArith ZifyN ZifyNat ZifyBool.
Ltac Zify.zify_post_hook ::= Z.div_mod_to_equations.
Open Scope N_scope.

(* ---- small general facts ------------------------------------------------------------ *)
Lemma strip_prefix_app p : forall s, strip_prefix p (p ++ s) = Some s.
Proof.
  induction p as [|a p IH]; intros s; [reflexivity|].
  cbn [app strip_prefix]. rewrite byte_eqb_refl. apply IH.
Qed.

Lemma byte_eqb_neq a b : a <> b -> byte_eqb a b = false.
Proof. intros H. destruct (byte_eqb a b) eqn:E; [apply byte_eqb_eq in E; contradiction | reflexivity]. Qed.

Lemma bytes_eqb_refl a : bytes_eqb a a = true.
Proof. apply bytes_eqb_eq. reflexivity. Qed.

Lemma bytes_eqb_neq a b : a <> b -> bytes_eqb a b = false.
Proof. intros H. destruct (bytes_eqb a b) eqn:E; [apply bytes_eqb_eq in E; contradiction | reflexivity]. Qed.

(* all numbers below k, for finite checks by computation *)
Definition nrange (k : N) : list N := N.peano_rect (fun _ => list N) [] (fun n acc => n :: acc) k.
Lemma nrange_in k : forall n, n < k -> In n (nrange k).
Proof.
  unfold nrange. induction k as [|k IH] using N.peano_ind; intros n H; [lia|].
  rewrite N.peano_rect_succ. destruct (N.eq_dec n k) as [->|Hne]; [left; reflexivity | right; apply IH; lia].
Qed.
Lemma nrange_forall (f : N -> bool) k : forallb f (nrange k) = true -> forall n, n < k -> f n = true.
Proof. intros H n Hn. rewrite forallb_forall in H. apply H, nrange_in, Hn. Qed.

(* ======================================================================== *)
(* xattr values: hex                                                          *)
(* ======================================================================== *)
Lemma hex_pair_inv b :
  radix16_2 (hexdigit (b2n b / 16)) (hexdigit (b2n b mod 16)) = Some (b2n b).
Proof. destruct b; vm_compute; reflexivity. Qed.

Lemma hex_chunks_hex v : hex_chunks (hex v) = Ok v.
Proof.
  induction v as [|b v IH]; [reflexivity|].
  cbn [hex hex_chunks]. rewrite hex_pair_inv, IH. cbn [bind]. rewrite n2b_b2n. reflexivity.
Qed.

Theorem xattr_hex_inv : forall v, value_of_string (display_hex v) = Ok v.
Proof.
  intros v. unfold value_of_string, display_hex. rewrite strip_prefix_app. apply hex_chunks_hex.
Qed.

(* ======================================================================== *)
(* xattr values: base64                                                       *)
(* ======================================================================== *)
Lemma b64val_char n : n < 64 -> b64val (b64char n) = Some n.
Proof.
  intros H.
  assert (Hc : forallb (fun n => match b64val (b64char n) with Some m => N.eqb m n | None => false end) (nrange 64) = true)
    by (vm_compute; reflexivity).
  pose proof (nrange_forall _ _ Hc n H) as Hn. cbv beta in Hn.
  destruct (b64val (b64char n)) as [m|]; [|discriminate]. apply N.eqb_eq in Hn. subst m. reflexivity.
Qed.

Lemma b64char_not_pad n : n < 64 -> byte_eqb (b64char n) pad = false.
Proof.
  intros H.
  assert (Hc : forallb (fun n => negb (byte_eqb (b64char n) pad)) (nrange 64) = true) by (vm_compute; reflexivity).
  pose proof (nrange_forall _ _ Hc n H) as Hn. cbv beta in Hn. destruct (byte_eqb (b64char n) pad); [discriminate|reflexivity].
Qed.

(* the three arithmetic identities of a 3-byte group *)
Lemma b64_group x y z : x < 256 -> y < 256 -> z < 256 ->
  let s1 := x / 4 in let s2 := x mod 4 * 16 + y / 16 in let s3 := y mod 16 * 4 + z / 64 in let s4 := z mod 64 in
  s1 < 64 /\ s2 < 64 /\ s3 < 64 /\ s4 < 64 /\
  s1 * 4 + s2 / 16 = x /\ s2 mod 16 * 16 + s3 / 4 = y /\ s3 mod 4 * 64 + s4 = z.
Proof. intros Hx Hy Hz. cbv zeta. repeat split; lia. Qed.

Lemma b64_group2 x y : x < 256 -> y < 256 ->
  let s1 := x / 4 in let s2 := x mod 4 * 16 + y / 16 in let s3 := y mod 16 * 4 in
  s1 < 64 /\ s2 < 64 /\ s3 < 64 /\ s1 * 4 + s2 / 16 = x /\ s2 mod 16 * 16 + s3 / 4 = y /\ s3 mod 4 = 0.
Proof. intros Hx Hy. cbv zeta. repeat split; lia. Qed.

Lemma b64_group1 x : x < 256 ->
  let s1 := x / 4 in let s2 := x mod 4 * 16 in
  s1 < 64 /\ s2 < 64 /\ s1 * 4 + s2 / 16 = x /\ s2 mod 16 = 0.
Proof. intros Hx. cbv zeta. repeat split; lia. Qed.

(* induction three elements at a time *)
Lemma list_ind3 {A} (P : list A -> Prop) :
  P [] -> (forall a, P [a]) -> (forall a b, P [a; b]) ->
  (forall a b c r, P r -> P (a :: b :: c :: r)) -> forall l, P l.
Proof.
  intros H0 H1 H2 H3 l.
  assert (H : P l /\ (forall a, P (a :: l)) /\ (forall a b, P (a :: b :: l))).
  { induction l as [|x l [IH0 [IH1 IH2]]]; [auto|]. repeat split; auto. }
  apply H.
Qed.

Lemma b64_decode_encode v : b64_decode (b64_encode v) = Ok v.
Proof.
  induction v as [| a | a b | a b c r IH] using list_ind3.
  - reflexivity.
  - pose proof (b2n_lt a) as Ha. destruct (b64_group1 (b2n a) Ha) as (H1 & H2 & E1 & E2).
    cbn [b64_encode b64_decode]. unfold b64_last.
    rewrite (b64val_char _ H1), (b64val_char _ H2). rewrite !byte_eqb_refl. cbn [andb].
    rewrite E2, E1. rewrite N.eqb_refl, n2b_b2n. reflexivity.
  - pose proof (b2n_lt a) as Ha. pose proof (b2n_lt b) as Hb.
    destruct (b64_group2 (b2n a) (b2n b) Ha Hb) as (H1 & H2 & H3 & E1 & E2 & E3).
    cbn [b64_encode b64_decode]. unfold b64_last.
    rewrite (b64val_char _ H1), (b64val_char _ H2), (b64char_not_pad _ H3), (b64val_char _ H3).
    rewrite byte_eqb_refl, E3, E1, E2, N.eqb_refl, !n2b_b2n. reflexivity.
  - pose proof (b2n_lt a) as Ha. pose proof (b2n_lt b) as Hb. pose proof (b2n_lt c) as Hc.
    destruct (b64_group (b2n a) (b2n b) (b2n c) Ha Hb Hc) as (H1 & H2 & H3 & H4 & E1 & E2 & E3).
    cbn [b64_encode]. cbn [b64_decode]. fold b64_decode.
    destruct (b64_encode r) as [|q qs] eqn:Er.
    + (* last group *)
      unfold b64_last. rewrite (b64val_char _ H1), (b64val_char _ H2), (b64char_not_pad _ H3), (b64val_char _ H3),
        (b64char_not_pad _ H4), (b64val_char _ H4), E1, E2, E3, !n2b_b2n.
      destruct r as [|r1 [|r2 [|r3 r']]]; [reflexivity | discriminate Er | discriminate Er | discriminate Er].
    + rewrite (b64val_char _ H1), (b64val_char _ H2), (b64val_char _ H3), (b64val_char _ H4), IH. cbn [bind].
      rewrite E1, E2, E3, !n2b_b2n. reflexivity.
Qed.

Theorem xattr_b64_inv : forall v, value_of_string (display_base64 v) = Ok v.
Proof.
  intros v. unfold value_of_string, display_base64.
  change (strip_prefix (lit "0x") (lit "0s" ++ b64_encode v)) with (@None bytes).
  rewrite strip_prefix_app. apply b64_decode_encode.
Qed.

(* decoding accepted input and re-encoding it is stable, for both printed forms *)
Corollary xattr_stable : forall s v, value_of_string s = Ok v ->
  value_of_string (display_hex v) = Ok v /\ value_of_string (display_base64 v) = Ok v.
Proof. intros s v _. split; [apply xattr_hex_inv | apply xattr_b64_inv]. Qed.

(* ======================================================================== *)
(* part file names                                                            *)
(* ======================================================================== *)
Lemma rsplit_dot_none l : ~ In dot l -> rsplit_dot l = None.
Proof.
  induction l as [|b l IH]; intros H; [reflexivity|].
  cbn [rsplit_dot]. rewrite IH by (intros H'; apply H; right; exact H').
  rewrite byte_eqb_neq by (intros ->; apply H; left; reflexivity). reflexivity.
Qed.

Lemma rsplit_dot_app s e : ~ In dot e -> rsplit_dot (s ++ dot :: e) = Some (s, e).
Proof.
  intros He. induction s as [|b s IH].
  - cbn [app rsplit_dot]. rewrite (rsplit_dot_none e He), byte_eqb_refl. reflexivity.
  - cbn [app rsplit_dot]. rewrite IH. reflexivity.
Qed.

Lemma rsplit_dot_none_inv l : rsplit_dot l = None -> ~ In dot l.
Proof.
  induction l as [|c l IH]; intros E Hin; [exact Hin|].
  cbn [rsplit_dot] in E. destruct (rsplit_dot l) as [[? ?]|]; [discriminate|].
  destruct (byte_eqb c dot) eqn:Ec; [discriminate|].
  destruct Hin as [->|Hin]; [rewrite byte_eqb_refl in Ec; discriminate | exact (IH eq_refl Hin)].
Qed.

Lemma rsplit_dot_some l : forall x y, rsplit_dot l = Some (x, y) -> l = x ++ dot :: y /\ ~ In dot y.
Proof.
  induction l as [|b l IH]; intros x y H; [discriminate|].
  cbn [rsplit_dot] in H. destruct (rsplit_dot l) as [[x' y']|] eqn:E.
  - inversion H; subst. destruct (IH _ _ eq_refl) as [-> Hy]. split; [reflexivity|exact Hy].
  - destruct (byte_eqb b dot) eqn:Eb; [|discriminate]. inversion H; subst.
    apply byte_eqb_eq in Eb. subst b. split; [reflexivity | apply rsplit_dot_none_inv, E].
Qed.

Lemma split_ext_app s e : s <> [] -> ~ In dot e -> bytes_eqb (s ++ dot :: e) (lit "..") = false ->
  split_ext (s ++ dot :: e) = (s, Some e).
Proof.
  intros Hs He Hdd. unfold split_ext. rewrite Hdd, (rsplit_dot_app s e He).
  destruct s; [contradiction|reflexivity].
Qed.

Lemma split_ext_some f s e : split_ext f = (s, Some e) -> f = s ++ dot :: e /\ s <> [] /\ ~ In dot e.
Proof.
  unfold split_ext. destruct (bytes_eqb f (lit "..")); [discriminate|].
  destruct (rsplit_dot f) as [[x y]|] eqn:E; [|discriminate].
  destruct x as [|x0 x]; [discriminate|]. intros H. inversion H; subst.
  destruct (rsplit_dot_some _ _ _ E) as [-> Hy]. repeat split; [discriminate|exact Hy].
Qed.

Lemma split_ext_none f s : split_ext f = (s, None) -> s = f.
Proof.
  unfold split_ext. destruct (bytes_eqb f (lit "..")); [intros H; inversion H; reflexivity|].
  destruct (rsplit_dot f) as [[[|x0 x] y]|]; intros H; inversion H; reflexivity.
Qed.

(* a marker: "part" followed by at least one digit *)
Definition marker_str (m : bytes) : Prop :=
  exists ds, m = lit "part" ++ ds /\ ds <> [] /\ forallb is_digit ds = true.

Lemma marker_is_marker m : marker_str m -> is_part_marker m = true.
Proof.
  intros (ds & -> & Hne & Hd). unfold is_part_marker. rewrite strip_prefix_app.
  destruct ds; [contradiction|exact Hd].
Qed.

Lemma marker_no c m : is_digit c = false -> ~ In c (lit "part") -> marker_str m -> ~ In c m.
Proof.
  intros Hc Hp (ds & -> & _ & Hd) Hin. apply in_app_or in Hin. destruct Hin as [Hin|Hin]; [exact (Hp Hin)|].
  rewrite forallb_forall in Hd. rewrite (Hd _ Hin) in Hc. discriminate.
Qed.

Lemma marker_no_dot m : marker_str m -> ~ In dot m.
Proof. apply marker_no; [reflexivity | cbn; intuition discriminate]. Qed.

Lemma marker_has_p m : marker_str m -> In x70 m.
Proof. intros (ds & -> & _). left. reflexivity. Qed.

Lemma has_p_not_dotdot l : In x70 l -> bytes_eqb l (lit "..") = false.
Proof. intros H. apply bytes_eqb_neq. intros ->. cbn in H. intuition discriminate. Qed.

Lemma pna_not_marker e : is_pna e = true -> is_part_marker e = false.
Proof.
  unfold is_pna. intros H. apply bytes_eqb_eq in H.
  assert (Hl : length e = 3%nat) by (rewrite <- (map_length lower), H; reflexivity).
  destruct e as [|a [|b [|c [|d e]]]]; try discriminate Hl. clear.
  unfold is_part_marker. change (lit "part") with [x70; x61; x72; x74]. cbn [strip_prefix].
  destruct (byte_eqb x70 a); [|reflexivity]. destruct (byte_eqb x61 b); [|reflexivity].
  destruct (byte_eqb x72 c); reflexivity.
Qed.

(* removing the marker that was just inserted gives the base name back *)
Lemma remove_insert b m : b <> [] -> marker_str m -> remove_part_name (insert_part b m) = b.
Proof.
  intros Hb Hm.
  assert (Happend : remove_part_name (b ++ dot :: m) = b).
  { unfold remove_part_name.
    rewrite split_ext_app; [| exact Hb | apply marker_no_dot, Hm
                            | apply has_p_not_dotdot, in_or_app; right; right; apply marker_has_p, Hm].
    rewrite (marker_is_marker m Hm). reflexivity. }
  unfold insert_part. destruct (split_ext b) as [s [e|]] eqn:Eb; [|exact Happend].
  destruct (is_pna e) eqn:Ep; [|exact Happend].
  destruct (split_ext_some _ _ _ Eb) as (Hbe & Hs & He).
  replace (s ++ dot :: m ++ dot :: e) with ((s ++ dot :: m) ++ dot :: e)
    by (rewrite <- app_assoc; reflexivity).
  unfold remove_part_name.
  rewrite split_ext_app; [| destruct s; discriminate | exact He
                          | apply has_p_not_dotdot, in_or_app; left; apply in_or_app; right; right; apply marker_has_p, Hm].
  rewrite (pna_not_marker e Ep).
  rewrite split_ext_app; [| exact Hs | apply marker_no_dot, Hm
                          | apply has_p_not_dotdot, in_or_app; right; right; apply marker_has_p, Hm].
  rewrite (marker_is_marker m Hm). symmetry. exact Hbe.
Qed.

Lemma remove_part_name_nonempty f : f <> [] -> remove_part_name f <> [].
Proof.
  intros Hf. unfold remove_part_name. destruct (split_ext f) as [s [e|]] eqn:E; [|exact Hf].
  destruct (split_ext_some _ _ _ E) as (_ & Hs & _).
  destruct (is_part_marker e); [exact Hs|].
  destruct (split_ext s) as [s2 [e2|]]; [|exact Hf]. destruct (is_part_marker e2); [|exact Hf].
  destruct s2; discriminate.
Qed.

(* the decimal part number is a non-empty digit string *)
Lemma digit_char r : r < 10 -> is_digit (n2b (48 + r)) = true.
Proof. intros H. unfold is_digit. rewrite b2n_n2b_small by lia. apply andb_true_iff. split; apply N.leb_le; lia. Qed.

Lemma dec_fuel_digits fuel : forall n acc,
  exists ds, dec_fuel fuel n acc = ds ++ acc /\ forallb is_digit ds = true /\ (fuel <> O -> ds <> []).
Proof.
  induction fuel as [|f IH]; intros n acc.
  - exists []. split; [reflexivity|]. split; [reflexivity|]. intros H; contradiction.
  - cbn [dec_fuel]. destruct (N.ltb n 10).
    + exists [n2b (48 + n mod 10)]. split; [reflexivity|]. split; [|discriminate].
      cbn [forallb]. rewrite digit_char by lia. reflexivity.
    + destruct (IH (n / 10) (n2b (48 + n mod 10) :: acc)) as (ds & E & Hd & _).
      exists (ds ++ [n2b (48 + n mod 10)]). rewrite E, <- app_assoc. split; [reflexivity|]. split.
      * rewrite forallb_app, Hd. cbn [forallb]. rewrite digit_char by lia. reflexivity.
      * intros _. destruct ds; discriminate.
Qed.

Lemma part_marker_str n : marker_str (part_marker n).
Proof.
  unfold part_marker, dec. destruct (dec_fuel_digits (S (N.to_nat (N.log2 n))) n []) as (ds & E & Hd & Hne).
  exists ds. rewrite E, app_nil_r. split; [reflexivity|]. split; [apply Hne; discriminate | exact Hd].
Qed.

(* file-name level: holds for EVERY non-empty file name *)
Theorem part_name_inv : forall f n m, f <> [] ->
  remove_part_name (with_part_name f n) = remove_part_name f /\
  with_part_name (with_part_name f n) m = with_part_name f m.
Proof.
  intros f n m Hf. unfold with_part_name.
  rewrite remove_insert by (apply remove_part_name_nonempty, Hf || apply part_marker_str).
  split; reflexivity.
Qed.

(* a name that is not itself a part name comes back exactly *)
Corollary part_name_inv_base : forall f n, f <> [] -> remove_part_name f = f ->
  remove_part_name (with_part_name f n) = f.
Proof. intros f n Hf Hb. rewrite (proj1 (part_name_inv f n 0 Hf)). exact Hb. Qed.

(* ======================================================================== *)
(* access-control entries                                                     *)
(* ======================================================================== *)

(* ---- name sets, for ANY table ---------------------------------------------------------- *)
Lemma NoDup_app_disjoint {A} (a b : list A) x : NoDup (a ++ b) -> In x a -> In x b -> False.
Proof.
  induction a as [|y a IH]; intros Hn Ha Hb; [exact Ha|].
  cbn [app] in Hn. inversion Hn as [|? ? Hy Hn']; subst.
  destruct Ha as [->|Ha]; [apply Hy, in_or_app; right; exact Hb | exact (IH Hn' Ha Hb)].
Qed.

Lemma NoDup_app_tail {A} (a b : list A) : NoDup (a ++ b) -> NoDup b.
Proof.
  induction a as [|y a IH]; intros H; [exact H|]. cbn [app] in H. inversion H; subst. apply IH. assumption.
Qed.

Lemma fold_left_ext_in {A B} (f g : A -> B -> A) l : (forall a b, In b l -> f a b = g a b) ->
  forall a, fold_left f l a = fold_left g l a.
Proof.
  induction l as [|b l IH]; intros H a; [reflexivity|].
  cbn [fold_left]. rewrite H by (left; reflexivity). apply IH. intros a' b' Hb. apply H. right. exact Hb.
Qed.

Definition all_names (tbl : name_table) : list bytes := concat (map snd tbl).

(* the value that survives a round trip: the table bits contained in v *)
Definition restrict (tbl : name_table) (v : N) : N :=
  fold_left (fun acc e => if contains v (fst e) then N.lor acc (fst e) else acc) tbl 0.

Section NameSets.
Variable tbl : name_table.
Hypothesis Hprinted : Forall (fun e => snd e <> []) tbl.          (* every entry has a printed name *)
Hypothesis Hnonempty : ~ In [] (all_names tbl).                    (* no name is empty *)
Hypothesis Hcomma : Forall (fun n => ~ In comma n) (all_names tbl). (* no name contains ',' *)
Hypothesis Hdistinct : NoDup (all_names tbl).                      (* names are pairwise distinct *)

Lemma name_owner e e' x : In e tbl -> In e' tbl -> In x (snd e) -> In x (snd e') -> e = e'.
Proof.
  unfold all_names in Hdistinct. clear Hprinted Hnonempty Hcomma.
  induction tbl as [|a t IH]; intros He He' Hx Hx'; [contradiction|].
  cbn [map concat] in Hdistinct.
  assert (Hin : forall e0, In e0 t -> In x (snd e0) -> In x (concat (map snd t))).
  { intros e0 H0 Hx0. apply in_concat. exists (snd e0). split; [apply in_map, H0 | exact Hx0]. }
  destruct He as [->|He], He' as [->|He'].
  - reflexivity.
  - exfalso. exact (NoDup_app_disjoint _ _ x Hdistinct Hx (Hin _ He' Hx')).
  - exfalso. exact (NoDup_app_disjoint _ _ x Hdistinct Hx' (Hin _ He Hx)).
  - apply IH; try assumption. exact (NoDup_app_tail _ _ Hdistinct).
Qed.

Lemma printed_in e : In e tbl -> In (hd [] (snd e)) (snd e).
Proof.
  intros He. rewrite Forall_forall in Hprinted. specialize (Hprinted e He).
  destruct (snd e); [contradiction | left; reflexivity].
Qed.

Lemma name_in_all e x : In e tbl -> In x (snd e) -> In x (all_names tbl).
Proof. intros He Hx. apply in_concat. exists (snd e). split; [apply in_map, He | exact Hx]. Qed.

Lemma set_names_in v x : In x (set_names tbl v) <->
  exists e, In e tbl /\ contains v (fst e) = true /\ x = hd [] (snd e).
Proof.
  unfold set_names. rewrite in_map_iff. split.
  - intros (e & <- & He). apply filter_In in He. exists e. tauto.
  - intros (e & He & Hc & ->). exists e. split; [reflexivity | apply filter_In; tauto].
Qed.

(* an entry is listed among the printed names exactly when the set contains it *)
Lemma entry_listed_printed v e : In e tbl -> entry_listed (set_names tbl v) e = contains v (fst e).
Proof.
  intros He. apply Bool.eq_iff_eq_true. unfold entry_listed, mem_bytes. rewrite existsb_exists. split.
  - intros (x & Hx & Hm). apply existsb_exists in Hm. destruct Hm as (y & Hy & Exy).
    apply bytes_eqb_eq in Exy. subst y. apply set_names_in in Hx. destruct Hx as (e' & He' & Hc & ->).
    rewrite (name_owner e e' _ He He' Hy (printed_in e' He')). exact Hc.
  - intros Hc. exists (hd [] (snd e)). split; [apply set_names_in; exists e; tauto|].
    apply existsb_exists. exists (hd [] (snd e)). split; [apply printed_in, He | apply bytes_eqb_refl].
Qed.

Lemma set_of_names_printed v : set_of_names tbl (set_names tbl v) = restrict tbl v.
Proof.
  unfold set_of_names, restrict. apply fold_left_ext_in. intros a e He.
  rewrite (entry_listed_printed v e He). reflexivity.
Qed.

Lemma set_names_comma_free v : Forall (fun n => ~ In comma n) (set_names tbl v).
Proof.
  apply Forall_forall. intros x Hx. apply set_names_in in Hx. destruct Hx as (e & He & _ & ->).
  rewrite Forall_forall in Hcomma. apply Hcomma. apply (name_in_all e); [exact He | apply printed_in, He].
Qed.

(* the set codec: print, split at ',', look the names up *)
Theorem set_inv v : set_of_string tbl (set_to_string tbl v) = restrict tbl v.
Proof.
  unfold set_of_string, set_to_string. destruct (set_names tbl v) as [|x xs] eqn:E.
  - (* the empty set prints as "", which splits into one empty name: no entry has it *)
    cbn [join]. rewrite fields_nil. rewrite <- set_of_names_printed, E.
    unfold set_of_names. apply fold_left_ext_in. intros a e He.
    unfold entry_listed. cbn [existsb]. rewrite orb_false_r.
    destruct (mem_bytes [] (snd e)) eqn:Em; [|reflexivity]. exfalso.
    unfold mem_bytes in Em. apply existsb_exists in Em. destruct Em as (y & Hy & Ey).
    apply bytes_eqb_eq in Ey. subst y. exact (Hnonempty (name_in_all e [] He Hy)).
  - rewrite fields_join; [rewrite <- E; apply set_of_names_printed | rewrite <- E; apply set_names_comma_free | discriminate].
Qed.

(* no printed set contains a byte that no name contains (used for ':') *)
Lemma set_to_string_free c v : c <> comma -> Forall (fun n => ~ In c n) (all_names tbl) ->
  ~ In c (set_to_string tbl v).
Proof.
  intros Hc Hall. unfold set_to_string.
  assert (HF : Forall (fun n => ~ In c n) (set_names tbl v)).
  { apply Forall_forall. intros x Hx. apply set_names_in in Hx. destruct Hx as (e & He & _ & ->).
    rewrite Forall_forall in Hall. apply Hall. apply (name_in_all e); [exact He | apply printed_in, He]. }
  induction HF as [|x xs Hx HF IH]; [intros []|].
  destruct xs as [|y ys]; [exact Hx|].
  change (join [comma] (x :: y :: ys)) with (x ++ comma :: join [comma] (y :: ys)).
  intros Hin. apply in_app_or in Hin. destruct Hin as [Hin|[Hin|Hin]]; [exact (Hx Hin) | exact (Hc (eq_sym Hin)) | exact (IH Hin)].
Qed.
End NameSets.

(* a decidable version of the table conditions, for concrete tables *)
Definition free_of (c : byte) (n : bytes) : bool := negb (existsb (byte_eqb c) n).
Fixpoint nodup_b (l : list bytes) : bool :=
  match l with [] => true | x :: r => negb (mem_bytes x r) && nodup_b r end.
Definition wf_table_b (tbl : name_table) : bool :=
  forallb (fun e => match snd e with [] => false | _ => true end) tbl
  && negb (mem_bytes [] (all_names tbl))
  && forallb (free_of comma) (all_names tbl)
  && forallb (free_of colon) (all_names tbl)
  && nodup_b (all_names tbl).

Lemma free_of_spec c n : free_of c n = true -> ~ In c n.
Proof.
  unfold free_of. intros H Hin. apply negb_true_iff in H.
  assert (existsb (byte_eqb c) n = true) by (apply existsb_exists; exists c; split; [exact Hin | apply byte_eqb_refl]).
  congruence.
Qed.
Lemma mem_bytes_spec x l : mem_bytes x l = true <-> In x l.
Proof.
  unfold mem_bytes. rewrite existsb_exists. split.
  - intros (y & Hy & E). apply bytes_eqb_eq in E. subst y. exact Hy.
  - intros H. exists x. split; [exact H | apply bytes_eqb_refl].
Qed.
Lemma nodup_b_spec l : nodup_b l = true -> NoDup l.
Proof.
  induction l as [|x l IH]; intros H; [constructor|].
  cbn [nodup_b] in H. apply andb_true_iff in H. destruct H as [Hx Hl]. constructor; [|apply IH, Hl].
  intros Hin. apply mem_bytes_spec in Hin. rewrite Hin in Hx. discriminate.
Qed.

Lemma wf_table_spec tbl : wf_table_b tbl = true ->
  Forall (fun e => snd e <> []) tbl /\ ~ In [] (all_names tbl) /\
  Forall (fun n => ~ In comma n) (all_names tbl) /\ Forall (fun n => ~ In colon n) (all_names tbl) /\
  NoDup (all_names tbl).
Proof.
  unfold wf_table_b. rewrite !andb_true_iff. intros [[[[H1 H2] H3] H4] H5]. repeat split.
  - apply Forall_forall. intros e He. rewrite forallb_forall in H1. specialize (H1 e He). destruct (snd e); [discriminate|discriminate].
  - intros Hin. apply mem_bytes_spec in Hin. rewrite Hin in H2. discriminate.
  - apply Forall_forall. intros n Hn. rewrite forallb_forall in H3. apply free_of_spec, H3, Hn.
  - apply Forall_forall. intros n Hn. rewrite forallb_forall in H4. apply free_of_spec, H4, Hn.
  - apply nodup_b_spec, H5.
Qed.

(* the set codec over a well-formed table, on values made of table bits only *)
Theorem set_inv_table tbl v : wf_table_b tbl = true -> restrict tbl v = v ->
  set_of_string tbl (set_to_string tbl v) = v /\ ~ In colon (set_to_string tbl v).
Proof.
  intros Hwf Hv. destruct (wf_table_spec tbl Hwf) as (H1 & H2 & H3 & H4 & H5). split.
  - rewrite set_inv by assumption. exact Hv.
  - apply set_to_string_free; [exact H1 | discriminate | exact H4].
Qed.

(* ---- the two tables of the CLI ----------------------------------------------------------- *)
Lemma flag_table_wf : wf_table_b flag_table = true.  Proof. vm_compute. reflexivity. Qed.
Lemma perm_table_wf : wf_table_b perm_table = true.  Proof. vm_compute. reflexivity. Qed.

Lemma flag_table_covers v : v < 64 -> restrict flag_table v = v.
Proof.
  intros H. apply N.eqb_eq.
  apply (nrange_forall (fun v => N.eqb (restrict flag_table v) v) 64); [vm_compute; reflexivity | exact H].
Qed.
Lemma perm_table_covers v : v < 65536 -> restrict perm_table v = v.
Proof.
  intros H. apply N.eqb_eq.
  apply (nrange_forall (fun v => N.eqb (restrict perm_table v) v) 65536); [vm_compute; reflexivity | exact H].
Qed.

(* ---- entries -------------------------------------------------------------------------------- *)
(* wf_ident: a named user / group has a non-empty name without ':' *)
Definition wf_ident (o : owner) : Prop :=
  match o with User n | Group n => n <> [] /\ ~ In colon n | _ => True end.
Definition wf_ace (a : ace) : Prop := a_flags a < 64 /\ a_perm a < 65536 /\ wf_ident (a_owner a).

Lemma owner_round o : wf_ident o -> owner_of_strings (owner_kind_str o) (owner_name o) = Ok o.
Proof.
  destruct o as [|n| |n| |]; cbn [wf_ident owner_kind_str owner_name]; intros H;
    try reflexivity; destruct H as [Hn _]; destruct n; try contradiction; reflexivity.
Qed.
Lemma owner_name_colon_free o : wf_ident o -> ~ In colon (owner_name o).
Proof. destruct o; cbn [wf_ident owner_name]; intros H; try (intros []); apply H. Qed.
Lemma owner_kind_colon_free o : ~ In colon (owner_kind_str o).
Proof. destruct o; cbn; intuition discriminate. Qed.
Lemma allow_round b : allow_of_string (allow_str b) = Ok b.
Proof. destruct b; reflexivity. Qed.
Lemma allow_colon_free b : ~ In colon (allow_str b).
Proof. destruct b; cbn; intuition discriminate. Qed.

Lemma ace_fields a : wf_ace a ->
  fields colon (ace_to_string a) =
    [ set_to_string flag_table (a_flags a); owner_kind_str (a_owner a); owner_name (a_owner a);
      allow_str (a_allow a); set_to_string perm_table (a_perm a) ].
Proof.
  intros (Hf & Hp & Ho). unfold ace_to_string. apply fields_join; [|discriminate].
  repeat constructor.
  - apply (set_inv_table _ _ flag_table_wf (flag_table_covers _ Hf)).
  - apply owner_kind_colon_free.
  - apply owner_name_colon_free, Ho.
  - apply allow_colon_free.
  - apply (set_inv_table _ _ perm_table_wf (perm_table_covers _ Hp)).
Qed.

Theorem ace_inv : forall a, wf_ace a -> ace_of_string (ace_to_string a) = Ok a.
Proof.
  intros a Hwf. unfold ace_of_string. rewrite (ace_fields a Hwf). destruct Hwf as (Hf & Hp & Ho).
  rewrite (owner_round _ Ho). cbn [bind]. rewrite allow_round. cbn [bind].
  rewrite (proj1 (set_inv_table _ _ flag_table_wf (flag_table_covers _ Hf))).
  rewrite (proj1 (set_inv_table _ _ perm_table_wf (perm_table_covers _ Hp))).
  destruct a; reflexivity.
Qed.

(* ---- entries with a platform ------------------------------------------------------------- *)
Definition wf_platform (p : platform) : Prop :=
  match p with
  | Unknown s => s <> [] /\ s <> lit "windows" /\ s <> lit "macos" /\ s <> lit "linux" /\ s <> lit "freebsd"
                 /\ ~ In colon s
  | _ => True
  end.
Definition wf_opt_platform (p : option platform) : Prop :=
  match p with Some q => wf_platform q | None => True end.

Lemma platform_inv p : wf_platform p -> platform_of_string (platform_to_string p) = p.
Proof.
  destruct p as [| | | | |s]; try reflexivity. cbn [wf_platform platform_to_string].
  intros (H0 & H1 & H2 & H3 & H4 & _). unfold platform_of_string.
  rewrite !bytes_eqb_neq by assumption. reflexivity.
Qed.
Lemma platform_colon_free p : wf_platform p -> ~ In colon (platform_to_string p).
Proof.
  destruct p as [| | | | |s]; cbn [wf_platform platform_to_string]; intros H;
    [cbn; intuition discriminate .. | apply H].
Qed.
Lemma platform_stable s : wf_platform (platform_of_string s) \/ In colon s.
Proof.
  unfold platform_of_string.
  destruct (bytes_eqb s []) eqn:E0; [left; exact I|].
  destruct (bytes_eqb s (lit "windows")) eqn:E1; [left; exact I|].
  destruct (bytes_eqb s (lit "macos")) eqn:E2; [left; exact I|].
  destruct (bytes_eqb s (lit "linux")) eqn:E3; [left; exact I|].
  destruct (bytes_eqb s (lit "freebsd")) eqn:E4; [left; exact I|].
  destruct (in_dec Byte.byte_eq_dec colon s) as [Hin|Hni]; [right; exact Hin|left].
  cbn [wf_platform]. repeat split; try exact Hni; intros ->; rewrite bytes_eqb_refl in *; discriminate.
Qed.

Lemma count_fields c s : len (fields c s) = count_byte c s + 1.
Proof.
  unfold count_byte. induction s as [|b s IH]; [reflexivity|].
  destruct (byte_eqb c b) eqn:E.
  - apply byte_eqb_eq in E. subst b. rewrite fields_cons_sep. cbn [filter]. rewrite byte_eqb_refl.
    rewrite !len_cons, IH. lia.
  - assert (Hb : b <> c) by (intros ->; rewrite byte_eqb_refl in E; discriminate).
    rewrite fields_cons_other by exact Hb. cbn [filter]. rewrite E, <- IH.
    pose proof (fields_not_nil c s) as Hn. destruct (fields c s); [contradiction|reflexivity].
Qed.
Lemma count_app c a b : count_byte c (a ++ b) = count_byte c a + count_byte c b.
Proof. unfold count_byte. rewrite filter_app, len_app. reflexivity. Qed.
Lemma count_free c x : ~ In c x -> count_byte c x = 0.
Proof.
  unfold count_byte. induction x as [|b x IH]; intros H; [reflexivity|]. cbn [filter].
  rewrite byte_eqb_neq by (intros ->; apply H; left; reflexivity). apply IH. intros Hx. apply H. right. exact Hx.
Qed.
Lemma count_cons_same c x : count_byte c (c :: x) = 1 + count_byte c x.
Proof. unfold count_byte. cbn [filter]. rewrite byte_eqb_refl. apply len_cons. Qed.

Lemma split_once_app c x r : ~ In c x -> split_once c (x ++ c :: r) = Some (x, r).
Proof.
  induction x as [|b x IH]; intros H.
  - cbn [app split_once]. rewrite byte_eqb_refl. reflexivity.
  - cbn [app split_once]. rewrite byte_eqb_neq by (intros ->; apply H; left; reflexivity).
    rewrite IH by (intros Hx; apply H; right; exact Hx). reflexivity.
Qed.

Lemma ace_colons a : wf_ace a -> count_byte colon (ace_to_string a) = 4.
Proof.
  intros H. pose proof (count_fields colon (ace_to_string a)) as Hc.
  rewrite (ace_fields a H) in Hc. change (len _) with 5 in Hc at 1. lia.
Qed.

Theorem ace_platform_inv : forall p a, wf_opt_platform p -> wf_ace a ->
  awp_of_string (awp_to_string (p, a)) = Ok (p, a).
Proof.
  intros [p|] a Hp Ha; unfold awp_of_string, awp_to_string; cbn [fst snd].
  - cbn [wf_opt_platform] in Hp.
    rewrite count_app, count_cons_same, (count_free _ _ (platform_colon_free p Hp)), (ace_colons a Ha).
    change (N.eqb (0 + (1 + 4)) 5) with true. cbv iota.
    rewrite (split_once_app _ _ _ (platform_colon_free p Hp)), (ace_inv a Ha). cbn [bind].
    rewrite (platform_inv p Hp). reflexivity.
  - rewrite (ace_colons a Ha). change (N.eqb 4 5) with false. cbv iota. rewrite (ace_inv a Ha). reflexivity.
Qed.

(* ---- stability: whatever the parsers accept is in the domain of the inverse laws ---------- *)
Lemma lor_lt_pow2 a b k : a < 2 ^ k -> b < 2 ^ k -> N.lor a b < 2 ^ k.
Proof.
  intros Ha Hb. destruct (N.eq_dec (N.lor a b) 0) as [->|Hne]; [apply N.neq_0_lt_0, N.pow_nonzero; discriminate|].
  apply N.log2_lt_pow2; [lia|]. rewrite N.log2_lor.
  destruct (N.eq_dec a 0) as [->|Ha0]; destruct (N.eq_dec b 0) as [->|Hb0].
  - exfalso. apply Hne. reflexivity.
  - rewrite N.max_r by (cbn; lia). apply N.log2_lt_pow2; lia.
  - rewrite N.max_l by (cbn; lia). apply N.log2_lt_pow2; lia.
  - apply N.max_lub_lt; apply N.log2_lt_pow2; lia.
Qed.

Lemma set_of_names_bound tbl k names : forallb (fun e => N.ltb (fst e) (2 ^ k)) tbl = true ->
  set_of_names tbl names < 2 ^ k.
Proof.
  intros H. unfold set_of_names.
  assert (Hg : forall acc, acc < 2 ^ k ->
    fold_left (fun acc e => if entry_listed names e then N.lor acc (fst e) else acc) tbl acc < 2 ^ k).
  { induction tbl as [|e t IH]; intros acc Hacc; [exact Hacc|].
    cbn [forallb] in H. apply andb_true_iff in H. destruct H as [He Ht]. apply N.ltb_lt in He.
    cbn [fold_left]. apply IH; [exact Ht|]. destruct (entry_listed names e); [apply lor_lt_pow2; assumption | exact Hacc]. }
  apply Hg. apply N.neq_0_lt_0, N.pow_nonzero. discriminate.
Qed.

Lemma owner_of_strings_wf t n o : ~ In colon n -> owner_of_strings t n = Ok o -> wf_ident o.
Proof.
  intros Hn. unfold owner_of_strings.
  destruct (bytes_eqb t (lit "u") || bytes_eqb t (lit "user")).
  { intros H. inversion H. destruct n; cbn; [exact I | split; [discriminate | exact Hn]]. }
  destruct (bytes_eqb t (lit "g") || bytes_eqb t (lit "group")).
  { intros H. inversion H. destruct n; cbn; [exact I | split; [discriminate | exact Hn]]. }
  destruct (bytes_eqb t (lit "m") || bytes_eqb t (lit "mask")); [intros H; inversion H; exact I|].
  destruct (bytes_eqb t (lit "o") || bytes_eqb t (lit "other")); [intros H; inversion H; exact I|].
  discriminate.
Qed.

Lemma ace_of_string_wf s a : ace_of_string s = Ok a -> wf_ace a.
Proof.
  unfold ace_of_string. pose proof (fields_no_sep colon s) as Hf.
  destruct (fields colon s) as [|f [|t [|n [|al [|p [|x xs]]]]]]; try discriminate.
  destruct (owner_of_strings t n) as [o| |] eqn:Eo; try discriminate. cbn [bind].
  destruct (allow_of_string al) as [b| |]; try discriminate. cbn [bind].
  intros H. inversion H; subst. unfold wf_ace. cbn [a_flags a_perm a_owner]. repeat split.
  - apply (set_of_names_bound flag_table 6). vm_compute. reflexivity.
  - apply (set_of_names_bound perm_table 16). vm_compute. reflexivity.
  - apply (owner_of_strings_wf t n o); [|exact Eo].
    inversion Hf as [|? ? _ Hf1]; subst. inversion Hf1 as [|? ? _ Hf2]; subst. inversion Hf2; subst. assumption.
Qed.

Theorem ace_stable : forall s a, ace_of_string s = Ok a -> ace_of_string (ace_to_string a) = Ok a.
Proof. intros s a H. apply ace_inv, (ace_of_string_wf s a H). Qed.

Lemma split_once_some c s : forall x y, split_once c s = Some (x, y) -> ~ In c x.
Proof.
  induction s as [|b s IH]; intros x y H; [discriminate|]. cbn [split_once] in H.
  destruct (byte_eqb b c) eqn:E; [inversion H; subst; intros []|].
  destruct (split_once c s) as [[x' y']|]; [|discriminate]. inversion H; subst.
  intros [->|Hin]; [rewrite byte_eqb_refl in E; discriminate | exact (IH _ _ eq_refl Hin)].
Qed.

Theorem ace_platform_stable : forall s pa, awp_of_string s = Ok pa -> awp_of_string (awp_to_string pa) = Ok pa.
Proof.
  intros s [p a]. unfold awp_of_string. destruct (N.eqb (count_byte colon s) 5).
  - destruct (split_once colon s) as [[x r]|] eqn:Es; [|discriminate].
    destruct (ace_of_string r) as [a'| |] eqn:Ea; try discriminate. cbn [bind]. intros H. inversion H; subst.
    apply ace_platform_inv; [|apply (ace_of_string_wf r a Ea)]. cbn [wf_opt_platform].
    destruct (platform_stable x) as [Hp|Hin]; [exact Hp | exfalso; exact (split_once_some _ _ _ _ Es Hin)].
  - destruct (ace_of_string s) as [a'| |] eqn:Ea; try discriminate. cbn [bind]. intros H. inversion H; subst.
    apply ace_platform_inv; [exact I | apply (ace_of_string_wf s a Ea)].
Qed.

(* ======================================================================== *)
(* chmod modes                                                                *)
(* ======================================================================== *)
Definition wf_mode (md : mode) : Prop :=
  match md with
  | MNum n => n < 512
  | MEqual t m | MPlus t m | MMinus t m => 1 <= t /\ t < 8 /\ m < 8
  end.

Definition mode_eqb (a b : mode) : bool :=
  match a, b with
  | MNum x, MNum y => N.eqb x y
  | MEqual t m, MEqual t' m' | MPlus t m, MPlus t' m' | MMinus t m, MMinus t' m' => N.eqb t t' && N.eqb m m'
  | _, _ => false
  end.
Lemma mode_eqb_eq a b : mode_eqb a b = true -> a = b.
Proof.
  destruct a, b; cbn [mode_eqb]; try discriminate; rewrite ?andb_true_iff, ?N.eqb_eq;
    [intros -> | intros [-> ->] ..]; reflexivity.
Qed.
Definition mode_ok (md : mode) : bool :=
  match mode_of_string (mode_to_string md) with Ok md' => mode_eqb md' md | _ => false end.
Lemma mode_ok_spec md : mode_ok md = true -> mode_of_string (mode_to_string md) = Ok md.
Proof.
  unfold mode_ok. destruct (mode_of_string (mode_to_string md)) as [md'| |]; try discriminate.
  intros H. apply mode_eqb_eq in H. subst. reflexivity.
Qed.

Lemma mode_num_ok : forallb (fun n => mode_ok (MNum n)) (nrange 512) = true.
Proof. vm_compute. reflexivity. Qed.
Lemma mode_sym_ok :
  forallb (fun t => forallb (fun m => mode_ok (MEqual (t + 1) m) && mode_ok (MPlus (t + 1) m) && mode_ok (MMinus (t + 1) m))
                            (nrange 8)) (nrange 7) = true.
Proof. vm_compute. reflexivity. Qed.

(* parsing the canonical spelling of a mode gives the mode (all 512 + 3*7*8 of them) *)
Theorem mode_inv : forall md, wf_mode md -> mode_of_string (mode_to_string md) = Ok md.
Proof.
  intros md H. apply mode_ok_spec.
  assert (Hs : forall t m, 1 <= t -> t < 8 -> m < 8 ->
            mode_ok (MEqual t m) && mode_ok (MPlus t m) && mode_ok (MMinus t m) = true).
  { intros t m H1 H8 Hm. pose proof (nrange_forall _ _ mode_sym_ok (t - 1) ltac:(lia)) as Ht. cbv beta in Ht.
    pose proof (nrange_forall _ _ Ht m Hm) as Hm'. cbv beta in Hm'. replace (t - 1 + 1) with t in Hm' by lia. exact Hm'. }
  destruct md as [n|t m|t m|t m]; cbn [wf_mode] in H.
  - exact (nrange_forall _ _ mode_num_ok n H).
  - destruct H as (H1 & H8 & Hm). specialize (Hs t m H1 H8 Hm). rewrite !andb_true_iff in Hs. tauto.
  - destruct H as (H1 & H8 & Hm). specialize (Hs t m H1 H8 Hm). rewrite !andb_true_iff in Hs. tauto.
  - destruct H as (H1 & H8 & Hm). specialize (Hs t m H1 H8 Hm). rewrite !andb_true_iff in Hs. tauto.
Qed.

(* every accepted text denotes a mode of that domain: re-spelling it is stable *)
Lemma parse_rwx_bound l : forall acc m, acc < 8 -> parse_rwx l acc = Ok m -> m < 8.
Proof.
  induction l as [|c l IH]; intros acc m Ha; cbn [parse_rwx]; [intros H; inversion H; subst; exact Ha|].
  destruct (byte_eqb c x78); [apply IH; apply (lor_lt_pow2 acc 1 3); [exact Ha | reflexivity]|].
  destruct (byte_eqb c x77); [apply IH; apply (lor_lt_pow2 acc 2 3); [exact Ha | reflexivity]|].
  destruct (byte_eqb c x72); [apply IH; apply (lor_lt_pow2 acc 4 3); [exact Ha | reflexivity]|].
  discriminate.
Qed.

Lemma lor_ge_1 a b : b <> 0 -> 1 <= N.lor a b.
Proof. intros Hb. destruct (N.eq_dec (N.lor a b) 0) as [E|E]; [apply N.lor_eq_0_iff in E; tauto | lia]. Qed.

Lemma parse_symbolic_wf l : forall target first md,
  target < 8 -> (first = false -> 1 <= target) -> parse_symbolic l target first = Ok md -> wf_mode md.
Proof.
  induction l as [|c l IH]; intros target first md Ht Hf; cbn [parse_symbolic]; [discriminate|].
  assert (Hstep : forall b, b < 8 -> b <> 0 -> parse_symbolic l (N.lor target b) false = Ok md -> wf_mode md).
  { intros b Hb Hb0. apply IH; [apply (lor_lt_pow2 target b 3); assumption | intros _; apply lor_ge_1, Hb0]. }
  assert (Ht' : 1 <= (if first then 7 else target) /\ (if first then 7 else target) < 8)
    by (destruct first; [lia | split; [apply Hf; reflexivity | exact Ht]]).
  destruct (byte_eqb c x75); [apply Hstep; [reflexivity|discriminate]|].
  destruct (byte_eqb c x67); [apply Hstep; [reflexivity|discriminate]|].
  destruct (byte_eqb c x6f); [apply Hstep; [reflexivity|discriminate]|].
  destruct (byte_eqb c x61); [apply Hstep; [reflexivity|discriminate]|].
  destruct (byte_eqb c x2b).
  { destruct (parse_rwx l 0) as [m| |] eqn:E; try discriminate. cbn [bind]. intros H. inversion H; subst.
    cbn [wf_mode]. pose proof (parse_rwx_bound l 0 m ltac:(lia) E). tauto. }
  destruct (byte_eqb c x2d).
  { destruct (parse_rwx l 0) as [m| |] eqn:E; try discriminate. cbn [bind]. intros H. inversion H; subst.
    cbn [wf_mode]. pose proof (parse_rwx_bound l 0 m ltac:(lia) E). tauto. }
  destruct (byte_eqb c x3d).
  { destruct (parse_rwx l 0) as [m| |] eqn:E; try discriminate. cbn [bind]. intros H. inversion H; subst.
    cbn [wf_mode]. pose proof (parse_rwx_bound l 0 m ltac:(lia) E). tauto. }
  discriminate.
Qed.

Lemma octal_digit_bound b x : octal_digit b = Some x -> x < 8.
Proof.
  unfold octal_digit. destruct (N.leb 48 (b2n b) && N.leb (b2n b) 55) eqn:E; [|discriminate].
  apply andb_true_iff in E. destruct E as [E1 E2]. apply N.leb_le in E1, E2. intros H. inversion H. lia.
Qed.

Lemma mode_of_string_wf s md : mode_of_string s = Ok md -> wf_mode md.
Proof.
  unfold mode_of_string. destruct s as [|c0 s0]; [discriminate|].
  destruct (forallb is_digit (c0 :: s0)).
  - destruct s0 as [|c1 [|c2 [|c3 s3]]]; try discriminate.
    destruct (octal_digit c0) as [x|] eqn:Ex; [|discriminate].
    destruct (octal_digit c1) as [y|] eqn:Ey; [|discriminate].
    destruct (octal_digit c2) as [z|] eqn:Ez; [|discriminate].
    intros H. inversion H; subst. cbn [wf_mode].
    apply octal_digit_bound in Ex, Ey, Ez. lia.
  - apply parse_symbolic_wf; [reflexivity | discriminate].
Qed.

Theorem mode_stable : forall s md, mode_of_string s = Ok md -> mode_of_string (mode_to_string md) = Ok md.
Proof. intros s md H. apply mode_inv, (mode_of_string_wf s md H). Qed.

(* applying a mode twice is applying it once: for every mode value and every permission word *)
Ltac bits_tauto :=
  apply N.bits_inj; intros k;
  rewrite ?N.lor_spec, ?N.land_spec, ?N.ldiff_spec, ?N.lor_spec, ?N.land_spec, ?N.ldiff_spec;
  repeat match goal with |- context [N.testbit ?a k] => destruct (N.testbit a k) end; reflexivity.

Theorem mode_apply_idem : forall md x, mode_apply md (mode_apply md x) = mode_apply md x.
Proof.
  intros [n|t m|t m|t m] x; cbn [mode_apply].
  - reflexivity.
  - destruct (N.testbit t 0), (N.testbit t 1), (N.testbit t 2); bits_tauto.
  - bits_tauto.
  - bits_tauto.
Qed.

(* a parsed mode, applied: the form used by `pna chmod` (C10) *)
Corollary mode_parse_apply_idem : forall s md x, mode_of_string s = Ok md ->
  mode_apply md (mode_apply md x) = mode_apply md x.
Proof. intros s md x _. apply mode_apply_idem. Qed.

(* ======================================================================== *)
(* part names, path level                                                     *)
(* ======================================================================== *)
Definition dir_prefix (d : bytes) : Prop := d = [] \/ exists d', d = d' ++ [slash].

Lemma split_path_noslash f : ~ In slash f -> split_path f = ([], f).
Proof.
  induction f as [|b f IH]; intros H; [reflexivity|]. cbn [split_path].
  rewrite IH by (intros Hf; apply H; right; exact Hf).
  rewrite byte_eqb_neq by (intros ->; apply H; left; reflexivity). reflexivity.
Qed.

Lemma split_path_app d f : ~ In slash f -> dir_prefix d -> split_path (d ++ f) = (d, f).
Proof.
  intros Hf [->|[d' ->]]; [apply split_path_noslash, Hf|].
  rewrite <- app_assoc. cbn [app]. induction d' as [|b d' IH].
  - cbn [app split_path]. rewrite (split_path_noslash f Hf), byte_eqb_refl. reflexivity.
  - cbn [app split_path]. rewrite IH. destruct d'; reflexivity.
Qed.

Lemma split_path_spec p : forall d f, split_path p = (d, f) -> p = d ++ f /\ ~ In slash f /\ dir_prefix d.
Proof.
  induction p as [|b p IH]; intros d f H.
  - inversion H; subst. repeat split; [intros [] | left; reflexivity].
  - cbn [split_path] in H. destruct (split_path p) as [d0 f0]. destruct (IH _ _ eq_refl) as (-> & Hf0 & Hd0).
    destruct d0 as [|c d0].
    + destruct (byte_eqb b slash) eqn:Eb; inversion H; subst.
      * apply byte_eqb_eq in Eb. subst b. repeat split; [exact Hf0 | right; exists []; reflexivity].
      * repeat split; [|left; reflexivity]. intros [->|Hin]; [rewrite byte_eqb_refl in Eb; discriminate | exact (Hf0 Hin)].
    + inversion H; subst. repeat split; [exact Hf0|]. right.
      destruct Hd0 as [Hd0|[d' Hd0]]; [discriminate|]. exists (b :: d'). rewrite Hd0. reflexivity.
Qed.

Lemma remove_part_name_free c f : c <> dot -> ~ In c f -> ~ In c (remove_part_name f).
Proof.
  intros Hc Hf. unfold remove_part_name. destruct (split_ext f) as [s [e|]] eqn:E; [|exact Hf].
  destruct (split_ext_some _ _ _ E) as (-> & _ & _).
  assert (Hs : ~ In c s) by (intros H; apply Hf, in_or_app; left; exact H).
  assert (He : ~ In c e) by (intros H; apply Hf, in_or_app; right; right; exact H).
  destruct (is_part_marker e); [exact Hs|].
  destruct (split_ext s) as [s2 [e2|]] eqn:E2; [|exact Hf]. destruct (is_part_marker e2); [|exact Hf].
  destruct (split_ext_some _ _ _ E2) as (-> & _ & _).
  intros H. apply in_app_or in H. destruct H as [H|[H|H]];
    [apply Hs, in_or_app; left; exact H | exact (Hc (eq_sym H)) | exact (He H)].
Qed.

Lemma insert_part_free c b m : c <> dot -> ~ In c b -> ~ In c m -> ~ In c (insert_part b m).
Proof.
  intros Hc Hb Hm.
  assert (Happ : ~ In c (b ++ dot :: m))
    by (intros H; apply in_app_or in H; destruct H as [H|[H|H]]; [exact (Hb H) | exact (Hc (eq_sym H)) | exact (Hm H)]).
  unfold insert_part. destruct (split_ext b) as [s [e|]] eqn:E; [|exact Happ].
  destruct (is_pna e); [|exact Happ]. destruct (split_ext_some _ _ _ E) as (-> & _ & _).
  intros H. apply in_app_or in H. destruct H as [H|[H|H]]; [apply Hb, in_or_app; left; exact H | exact (Hc (eq_sym H)) |].
  apply in_app_or in H. destruct H as [H|[H|H]]; [exact (Hm H) | exact (Hc (eq_sym H)) | apply Hb, in_or_app; right; right; exact H].
Qed.

Lemma insert_part_has_p b m : marker_str m -> In x70 (insert_part b m).
Proof.
  intros Hm. pose proof (marker_has_p m Hm) as Hp. unfold insert_part.
  destruct (split_ext b) as [s [e|]]; [destruct (is_pna e)|];
    apply in_or_app; right; right; [apply in_or_app; left|..]; exact Hp.
Qed.

Lemma has_p_file_name l : In x70 l -> is_file_name l = true.
Proof.
  intros H. unfold is_file_name.
  rewrite !bytes_eqb_neq; [reflexivity | | | ]; intros ->; cbn in H; intuition discriminate.
Qed.

Lemma is_file_name_nonempty f : is_file_name f = true -> f <> [].
Proof. intros H ->. discriminate H. Qed.

Lemma with_part_name_free f n : ~ In slash f -> ~ In slash (with_part_name f n).
Proof.
  intros Hf. unfold with_part_name. apply insert_part_free; [discriminate | apply remove_part_name_free; [discriminate|exact Hf] |].
  apply (marker_no slash); [reflexivity | cbn; intuition discriminate | apply part_marker_str].
Qed.

(* the laws on paths: whenever with_part answers (the last component is a file name) *)
Theorem part_inv : forall p n q, with_part p n = Some q ->
  remove_part q = remove_part p /\ (forall m, with_part q m = with_part p m).
Proof.
  intros p n q. unfold with_part at 1. destruct (split_path p) as [d f] eqn:Ep.
  destruct (is_file_name f && is_file_name (remove_part_name f)) eqn:Ev; [|discriminate].
  intros H. inversion H; subst q. clear H. apply andb_true_iff in Ev. destruct Ev as [Ef Er].
  destruct (split_path_spec p d f Ep) as (Hp & Hf & Hd).
  pose proof (is_file_name_nonempty f Ef) as Hne.
  assert (Hq : split_path (d ++ with_part_name f n) = (d, with_part_name f n))
    by (apply split_path_app; [apply with_part_name_free, Hf | exact Hd]).
  assert (Hw : is_file_name (with_part_name f n) = true)
    by (apply has_p_file_name, insert_part_has_p, part_marker_str).
  destruct (part_name_inv f n 0 Hne) as [Hrem _].
  split.
  - unfold remove_part. rewrite Hq, Ep, Hw, Ef, Hrem. reflexivity.
  - intros m. unfold with_part. rewrite Hq, Ep, Hw, Hrem, Ef, Er. cbn [andb].
    rewrite (proj2 (part_name_inv f n m Hne)). reflexivity.
Qed.

(* a path that is not itself a part name comes back exactly *)
Corollary part_inv_base : forall p n q, remove_part p = Some p -> with_part p n = Some q ->
  remove_part q = Some p /\ (forall m, with_part q m = with_part p m).
Proof. intros p n q Hb Hw. destruct (part_inv p n q Hw) as [H1 H2]. rewrite H1. split; assumption. Qed.

(* with_part answers exactly when the base name is a file name *)
Lemma with_part_defined p n : (exists q, with_part p n = Some q) <->
  is_file_name (snd (split_path p)) && is_file_name (remove_part_name (snd (split_path p))) = true.
Proof.
  unfold with_part. destruct (split_path p) as [d f]. cbn [snd].
  destruct (is_file_name f && is_file_name (remove_part_name f)); split;
    [reflexivity | intros _; eexists; reflexivity | intros [q H]; discriminate | discriminate].
Qed.

(* two different base names never share a part file *)
Corollary part_no_collision : forall p p' n n' q, remove_part p = Some p -> remove_part p' = Some p' ->
  with_part p n = Some q -> with_part p' n' = Some q -> p = p'.
Proof.
  intros p p' n n' q Hb Hb' Hw Hw'.
  destruct (part_inv_base p n q Hb Hw) as [H1 _]. destruct (part_inv_base p' n' q Hb' Hw') as [H2 _]. congruence.
Qed.
