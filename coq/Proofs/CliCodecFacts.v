(* CliCodecFacts.v — inverse and stability laws of the CLI's textual codecs (Model/CliCodec.v):
   xattr values in hex and base64, part file names, access-control entries (with and
   without platform), chmod modes (canonical spelling, idempotent application). *)
From PNA Require Import Base CliCodec BaseFacts NameFacts.
Require Import ZArith ZifyN ZifyNat ZifyBool.
Ltac Zify.zify_post_hook ::= Z.div_mod_to_equations.
Open Scope N_scope.

(* ---- small general facts ------------------------------------------------------------ *)
Lemma strip_prefix_app p : forall s, strip_prefix p (p ++ s) = Some s.
Proof.
  induction p as [|a p IH]; intros s; [reflexivity|].
  cbn [app strip_prefix]. rewrite byte_eqb_refl. apply IH.
Qed.

Lemma byte_eqb_neq a b : a <> b -> byte_eqb a b = false.
Proof. intros H. destruct (byte_eqb a b) eqn:E; [apply byte_eqb_eq in E; contradiction | reflexivity]. Qed.

Lemma bytes_eqb_refl a : bytes_eqb a a = true.
Proof. apply bytes_eqb_eq. reflexivity. Qed.

Lemma bytes_eqb_neq a b : a <> b -> bytes_eqb a b = false.
Proof. intros H. destruct (bytes_eqb a b) eqn:E; [apply bytes_eqb_eq in E; contradiction | reflexivity]. Qed.

(* all numbers below k, for finite checks by computation *)
Definition nrange (k : N) : list N := N.peano_rect (fun _ => list N) [] (fun n acc => n :: acc) k.
Lemma nrange_in k : forall n, n < k -> In n (nrange k).
Proof.
  unfold nrange. induction k as [|k IH] using N.peano_ind; intros n H; [lia|].
  rewrite N.peano_rect_succ. destruct (N.eq_dec n k) as [->|Hne]; [left; reflexivity | right; apply IH; lia].
Qed.
Lemma nrange_forall (f : N -> bool) k : forallb f (nrange k) = true -> forall n, n < k -> f n = true.
Proof. intros H n Hn. rewrite forallb_forall in H. apply H, nrange_in, Hn. Qed.

(* ======================================================================== *)
(* xattr values: hex                                                          *)
(* ======================================================================== *)
Lemma hex_pair_inv b :
  radix16_2 (hexdigit (b2n b / 16)) (hexdigit (b2n b mod 16)) = Some (b2n b).
Proof. destruct b; vm_compute; reflexivity. Qed.

Lemma hex_chunks_hex v : hex_chunks (hex v) = Ok v.
Proof.
  induction v as [|b v IH]; [reflexivity|].
  cbn [hex hex_chunks]. rewrite hex_pair_inv, IH. cbn [bind]. rewrite n2b_b2n. reflexivity.
Qed.

Theorem xattr_hex_inv : forall v, value_of_string (display_hex v) = Ok v.
Proof.
  intros v. unfold value_of_string, display_hex. rewrite strip_prefix_app. apply hex_chunks_hex.
Qed.

(* ======================================================================== *)
(* xattr values: base64                                                       *)
(* ======================================================================== *)
Lemma b64val_char n : n < 64 -> b64val (b64char n) = Some n.
Proof.
  intros H.
  assert (Hc : forallb (fun n => match b64val (b64char n) with Some m => N.eqb m n | None => false end) (nrange 64) = true)
    by (vm_compute; reflexivity).
  pose proof (nrange_forall _ _ Hc n H) as Hn. cbv beta in Hn.
  destruct (b64val (b64char n)) as [m|]; [|discriminate]. apply N.eqb_eq in Hn. subst m. reflexivity.
Qed.

Lemma b64char_not_pad n : n < 64 -> byte_eqb (b64char n) pad = false.
Proof.
  intros H.
  assert (Hc : forallb (fun n => negb (byte_eqb (b64char n) pad)) (nrange 64) = true) by (vm_compute; reflexivity).
  pose proof (nrange_forall _ _ Hc n H) as Hn. cbv beta in Hn. destruct (byte_eqb (b64char n) pad); [discriminate|reflexivity].
Qed.

(* the three arithmetic identities of a 3-byte group *)
Lemma b64_group x y z : x < 256 -> y < 256 -> z < 256 ->
  let s1 := x / 4 in let s2 := x mod 4 * 16 + y / 16 in let s3 := y mod 16 * 4 + z / 64 in let s4 := z mod 64 in
  s1 < 64 /\ s2 < 64 /\ s3 < 64 /\ s4 < 64 /\
  s1 * 4 + s2 / 16 = x /\ s2 mod 16 * 16 + s3 / 4 = y /\ s3 mod 4 * 64 + s4 = z.
Proof. intros Hx Hy Hz. cbv zeta. repeat split; lia. Qed.

Lemma b64_group2 x y : x < 256 -> y < 256 ->
  let s1 := x / 4 in let s2 := x mod 4 * 16 + y / 16 in let s3 := y mod 16 * 4 in
  s1 < 64 /\ s2 < 64 /\ s3 < 64 /\ s1 * 4 + s2 / 16 = x /\ s2 mod 16 * 16 + s3 / 4 = y /\ s3 mod 4 = 0.
Proof. intros Hx Hy. cbv zeta. repeat split; lia. Qed.

Lemma b64_group1 x : x < 256 ->
  let s1 := x / 4 in let s2 := x mod 4 * 16 in
  s1 < 64 /\ s2 < 64 /\ s1 * 4 + s2 / 16 = x /\ s2 mod 16 = 0.
Proof. intros Hx. cbv zeta. repeat split; lia. Qed.

(* induction three elements at a time *)
Lemma list_ind3 {A} (P : list A -> Prop) :
  P [] -> (forall a, P [a]) -> (forall a b, P [a; b]) ->
  (forall a b c r, P r -> P (a :: b :: c :: r)) -> forall l, P l.
Proof.
  intros H0 H1 H2 H3 l.
  assert (H : P l /\ (forall a, P (a :: l)) /\ (forall a b, P (a :: b :: l))).
  { induction l as [|x l [IH0 [IH1 IH2]]]; [auto|]. repeat split; auto. }
  apply H.
Qed.

Lemma b64_decode_encode v : b64_decode (b64_encode v) = Ok v.
Proof.
  induction v as [| a | a b | a b c r IH] using list_ind3.
  - reflexivity.
  - pose proof (b2n_lt a) as Ha. destruct (b64_group1 (b2n a) Ha) as (H1 & H2 & E1 & E2).
    cbn [b64_encode b64_decode]. unfold b64_last.
    rewrite (b64val_char _ H1), (b64val_char _ H2). rewrite !byte_eqb_refl. cbn [andb].
    rewrite E2, E1. rewrite N.eqb_refl, n2b_b2n. reflexivity.
  - pose proof (b2n_lt a) as Ha. pose proof (b2n_lt b) as Hb.
    destruct (b64_group2 (b2n a) (b2n b) Ha Hb) as (H1 & H2 & H3 & E1 & E2 & E3).
    cbn [b64_encode b64_decode]. unfold b64_last.
    rewrite (b64val_char _ H1), (b64val_char _ H2), (b64char_not_pad _ H3), (b64val_char _ H3).
    rewrite byte_eqb_refl, E3, E1, E2, N.eqb_refl, !n2b_b2n. reflexivity.
  - pose proof (b2n_lt a) as Ha. pose proof (b2n_lt b) as Hb. pose proof (b2n_lt c) as Hc.
    destruct (b64_group (b2n a) (b2n b) (b2n c) Ha Hb Hc) as (H1 & H2 & H3 & H4 & E1 & E2 & E3).
    cbn [b64_encode]. cbn [b64_decode]. fold b64_decode.
    destruct (b64_encode r) as [|q qs] eqn:Er.
    + (* last group *)
      unfold b64_last. rewrite (b64val_char _ H1), (b64val_char _ H2), (b64char_not_pad _ H3), (b64val_char _ H3),
        (b64char_not_pad _ H4), (b64val_char _ H4), E1, E2, E3, !n2b_b2n.
      destruct r as [|r1 [|r2 [|r3 r']]]; [reflexivity | discriminate Er | discriminate Er | discriminate Er].
    + rewrite (b64val_char _ H1), (b64val_char _ H2), (b64val_char _ H3), (b64val_char _ H4), IH. cbn [bind].
      rewrite E1, E2, E3, !n2b_b2n. reflexivity.
Qed.

Theorem xattr_b64_inv : forall v, value_of_string (display_base64 v) = Ok v.
Proof.
  intros v. unfold value_of_string, display_base64.
  change (strip_prefix (lit "0x") (lit "0s" ++ b64_encode v)) with (@None bytes).
  rewrite strip_prefix_app. apply b64_decode_encode.
Qed.

(* decoding accepted input and re-encoding it is stable, for both printed forms *)
Corollary xattr_stable : forall s v, value_of_string s = Ok v ->
  value_of_string (display_hex v) = Ok v /\ value_of_string (display_base64 v) = Ok v.
Proof. intros s v _. split; [apply xattr_hex_inv | apply xattr_b64_inv]. Qed.
