(* PhcFacts.v — the executable PHC string codec of Model/Kdf.v (phc_print_x / phc_parse_x: the rules of
   password-hash 0.5 — identifier, value, salt and hash alphabets and length limits, canonical decimals — with
   unpadded base64 and decimal parameters) round-trips every record a writer prints whose parameter values are
   values of the format (at most 64 digits; 127 bytes for the whole parameter string) and whose salt has 3..48
   bytes (4..64 characters), for every algorithm choice; these conditions are implied by what writer_context_x
   checks itself (u32 parameters, a 16-byte salt), and without them the round trip fails (`_refuted`).  The
   reader dispatches on the writer's algorithm names.  This discharges the two codec premises of the C16 / C08
   theorems of KdfFacts.v for the codec the correspondence check runs against the `password-hash` crate; the
   theorems are restated with the `_x` stand-ins so that no codec premise remains.
   (That the crate computes the same strings as phc_print_x / phc_parse_x is established by the
   correspondence runs of the kdf area, not by proof.) *)
From PNA Require Import Base Codec Kdf BaseFacts NameFacts KdfFacts.
Require Import ZArith ZifyN ZifyNat ZifyBool.
Ltac Zify.zify_post_hook ::= Z.div_mod_to_equations.
Open Scope N_scope.

(* ==== base64 (standard alphabet, no padding) ================================================= *)
Lemma in_below (k : nat) n : n < N.of_nat k -> In n (map N.of_nat (seq 0 k)).
Proof. intro H. apply in_map_iff. exists (N.to_nat n). split; [lia|]. apply in_seq. lia. Qed.

Lemma b64_val_char n : n < 64 -> b64_val (b64_char n) = Some n.
Proof.
  intro H.
  assert (forallb (fun n => match b64_val (b64_char n) with Some m => N.eqb m n | None => false end)
                  (map N.of_nat (seq 0 64)) = true) as A by (vm_compute; reflexivity).
  rewrite forallb_forall in A. specialize (A n (in_below 64 n H)).
  destruct (b64_val (b64_char n)) as [m|]; [|discriminate]. apply N.eqb_eq in A. subst; reflexivity.
Qed.

(* the arithmetic of the three group sizes *)
Lemma sext3 a b c : a < 256 -> b < 256 -> c < 256 ->
  let n := a * 65536 + b * 256 + c in
  n / 262144 < 64 /\ (n / 4096) mod 64 < 64 /\ (n / 64) mod 64 < 64 /\ n mod 64 < 64 /\
  n / 262144 * 262144 + (n / 4096) mod 64 * 4096 + (n / 64) mod 64 * 64 + n mod 64 = n /\
  n / 65536 = a /\ (n / 256) mod 256 = b /\ n mod 256 = c.
Proof. intros; cbv zeta. repeat split; lia. Qed.

Lemma sext2 a b : a < 256 -> b < 256 ->
  let n := a * 65536 + b * 256 in
  n / 262144 < 64 /\ (n / 4096) mod 64 < 64 /\ (n / 64) mod 64 < 64 /\
  ((n / 64) mod 64) mod 4 = 0 /\
  (n / 262144 * 4096 + (n / 4096) mod 64 * 64 + (n / 64) mod 64) / 1024 = a /\
  ((n / 262144 * 4096 + (n / 4096) mod 64 * 64 + (n / 64) mod 64) / 4) mod 256 = b.
Proof. intros; cbv zeta. repeat split; lia. Qed.

Lemma sext1 a : a < 256 ->
  let n := a * 65536 in
  n / 262144 < 64 /\ (n / 4096) mod 64 < 64 /\ ((n / 4096) mod 64) mod 16 = 0 /\
  (n / 262144 * 64 + (n / 4096) mod 64) / 16 = a.
Proof. intros; cbv zeta. repeat split; lia. Qed.

Lemma b64_dec_4 x y z w r : x < 64 -> y < 64 -> z < 64 -> w < 64 ->
  b64_dec (b64_char x :: b64_char y :: b64_char z :: b64_char w :: r) =
  match b64_dec r with
  | Some t => let n := x * 262144 + y * 4096 + z * 64 + w in
              Some (n2b (n / 65536) :: n2b ((n / 256) mod 256) :: n2b (n mod 256) :: t)
  | None => None
  end.
Proof. intros. cbn [b64_dec]. rewrite !b64_val_char by assumption. reflexivity. Qed.

Lemma b64_dec_3 x y z : x < 64 -> y < 64 -> z < 64 -> z mod 4 = 0 ->
  b64_dec [b64_char x; b64_char y; b64_char z] =
  Some [n2b ((x * 4096 + y * 64 + z) / 1024); n2b (((x * 4096 + y * 64 + z) / 4) mod 256)].
Proof. intros ? ? ? E. cbn [b64_dec]. rewrite !b64_val_char by assumption. rewrite E, N.eqb_refl. reflexivity. Qed.

Lemma b64_dec_2 x y : x < 64 -> y < 64 -> y mod 16 = 0 ->
  b64_dec [b64_char x; b64_char y] = Some [n2b ((x * 64 + y) / 16)].
Proof. intros ? ? E. cbn [b64_dec]. rewrite !b64_val_char by assumption. rewrite E, N.eqb_refl. reflexivity. Qed.

Lemma list_ind3 (P : bytes -> Prop) :
  P [] -> (forall a, P [a]) -> (forall a b, P [a; b]) ->
  (forall a b c l, P l -> P (a :: b :: c :: l)) -> forall l, P l.
Proof.
  intros H0 H1 H2 H3. fix F 1. intros [|a [|b [|c l]]];
    [exact H0 | exact (H1 a) | exact (H2 a b) | exact (H3 a b c l (F l))].
Qed.

(* decoding undoes encoding, for every byte string *)
Theorem b64_dec_enc : forall l : bytes, b64_dec (b64_enc l) = Some l.
Proof.
  induction l as [|a|a b|a b c l IH] using list_ind3.
  - reflexivity.
  - destruct (sext1 (b2n a) (b2n_lt a)) as (X & Y & E & V). cbv zeta in *.
    cbn [b64_enc]. rewrite b64_dec_2 by assumption. rewrite V, n2b_b2n. reflexivity.
  - destruct (sext2 (b2n a) (b2n b) (b2n_lt a) (b2n_lt b)) as (X & Y & Z & E & V1 & V2). cbv zeta in *.
    cbn [b64_enc]. rewrite b64_dec_3 by assumption. rewrite V1, V2, !n2b_b2n. reflexivity.
  - destruct (sext3 (b2n a) (b2n b) (b2n c) (b2n_lt a) (b2n_lt b) (b2n_lt c))
      as (X & Y & Z & W & E & V1 & V2 & V3). cbv zeta in *.
    cbn [b64_enc]. rewrite b64_dec_4 by assumption. rewrite IH. cbv zeta.
    rewrite E, V1, V2, V3, !n2b_b2n. reflexivity.
Qed.

Corollary b64_enc_inj : forall a b : bytes, b64_enc a = b64_enc b -> a = b.
Proof.
  intros a b H. pose proof (b64_dec_enc a) as A. rewrite H, b64_dec_enc in A. inversion A; reflexivity.
Qed.

(* the encoder emits alphabet characters only *)
Definition b64_ok (c : byte) : Prop := b64_val c <> None.
Lemma b64_char_ok n : n < 64 -> b64_ok (b64_char n).
Proof. intros H E. rewrite b64_val_char in E by exact H. discriminate. Qed.

Lemma b64_enc_ok : forall l : bytes, Forall b64_ok (b64_enc l).
Proof.
  induction l as [|a|a b|a b c l IH] using list_ind3.
  - constructor.
  - destruct (sext1 (b2n a) (b2n_lt a)) as (X & Y & _). cbv zeta in *.
    cbn [b64_enc]. repeat constructor; apply b64_char_ok; assumption.
  - destruct (sext2 (b2n a) (b2n b) (b2n_lt a) (b2n_lt b)) as (X & Y & Z & _). cbv zeta in *.
    cbn [b64_enc]. repeat constructor; apply b64_char_ok; assumption.
  - destruct (sext3 (b2n a) (b2n b) (b2n c) (b2n_lt a) (b2n_lt b) (b2n_lt c)) as (X & Y & Z & W & _). cbv zeta in *.
    cbn [b64_enc]. repeat (constructor; [apply b64_char_ok; assumption|]). exact IH.
Qed.

Lemma notin_b64 c l : b64_val c = None -> ~ In c (b64_enc l).
Proof.
  intros E H. pose proof (b64_enc_ok l) as F. rewrite Forall_forall in F. exact (F c H E).
Qed.

(* ==== decimal ================================================================================ *)
Definition dstep (acc : option N) (b : byte) : option N :=
  match acc with
  | None => None
  | Some a => let x := b2n b in
              if N.leb 48 x && N.leb x 57 then Some (a * 10 + (x - 48)) else None
  end.

Lemma undec_fold l : l <> [] -> undec l = fold_left dstep l (Some 0).
Proof. destruct l; [contradiction | reflexivity]. Qed.

Lemma dstep_digit a r : r < 10 -> dstep (Some a) (n2b (48 + r)) = Some (a * 10 + r).
Proof.
  intro H. unfold dstep. cbv zeta. rewrite b2n_n2b_small by lia.
  replace (N.leb 48 (48 + r) && N.leb (48 + r) 57) with true
    by (symmetry; apply andb_true_iff; split; apply N.leb_le; lia).
  f_equal. lia.
Qed.

Lemma dec_fuel_fold fuel : forall n acc, n < 2 ^ N.of_nat fuel ->
  fold_left dstep (dec_fuel fuel n acc) (Some 0) = fold_left dstep acc (Some n).
Proof.
  induction fuel as [|f IH]; intros n acc H.
  - change (2 ^ N.of_nat 0) with 1 in H. replace n with 0 by lia. reflexivity.
  - rewrite Nat2N.inj_succ, N.pow_succ_r' in H.
    cbn [dec_fuel]. destruct (N.ltb n 10) eqn:E.
    + apply N.ltb_lt in E. cbn [fold_left]. rewrite dstep_digit by lia. do 2 f_equal. lia.
    + apply N.ltb_ge in E. rewrite IH by lia. cbn [fold_left]. rewrite dstep_digit by lia. do 2 f_equal. lia.
Qed.

Lemma dec_fuel_nonempty fuel : forall n acc, acc <> [] -> dec_fuel fuel n acc <> [].
Proof.
  induction fuel as [|f IH]; intros n acc H; cbn [dec_fuel]; [exact H|].
  destruct (N.ltb n 10); [discriminate | apply IH; discriminate].
Qed.

Lemma dec_nonempty n : dec n <> [].
Proof.
  unfold dec. cbn [dec_fuel]. destruct (N.ltb n 10); [discriminate | apply dec_fuel_nonempty; discriminate].
Qed.

(* parsing undoes printing, for every number *)
Theorem undec_dec : forall n : N, undec (dec n) = Some n.
Proof.
  intro n. rewrite undec_fold by apply dec_nonempty. unfold dec. rewrite dec_fuel_fold; [reflexivity|].
  rewrite Nat2N.inj_succ, N2Nat.id. destruct n as [|p]; [vm_compute; reflexivity|].
  apply N.log2_spec. lia.
Qed.

Corollary dec_inj : forall a b : N, dec a = dec b -> a = b.
Proof. intros a b H. pose proof (undec_dec a) as A. rewrite H, undec_dec in A. inversion A; reflexivity. Qed.

Definition is_dig (b : byte) : Prop := 48 <= b2n b <= 57.
Lemma dec_fuel_digits fuel : forall n acc, Forall is_dig acc -> Forall is_dig (dec_fuel fuel n acc).
Proof.
  induction fuel as [|f IH]; intros n acc H; cbn [dec_fuel]; [exact H|].
  assert (is_dig (n2b (48 + n mod 10))) as D by (unfold is_dig; rewrite b2n_n2b_small by lia; lia).
  destruct (N.ltb n 10); [constructor; assumption | apply IH; constructor; assumption].
Qed.
Lemma dec_digits n : Forall is_dig (dec n).
Proof. unfold dec. apply dec_fuel_digits. constructor. Qed.
Lemma notin_dec c n : b2n c < 48 \/ 57 < b2n c -> ~ In c (dec n).
Proof.
  intros H I. pose proof (dec_digits n) as F. rewrite Forall_forall in F. specialize (F c I). unfold is_dig in F. lia.
Qed.

(* ==== more on base64: lengths and alphabet =================================================== *)
Lemma b64_enc_len_lo : forall l : bytes, (4 * length l <= 3 * length (b64_enc l))%nat.
Proof. induction l as [|a|a b|a b c l IH] using list_ind3; cbn [b64_enc length]; lia. Qed.
Lemma b64_enc_len_hi : forall l : bytes, (3 * length (b64_enc l) <= 4 * length l + 2)%nat.
Proof. induction l as [|a|a b|a b c l IH] using list_ind3; cbn [b64_enc length]; lia. Qed.

Lemma b64_enc_all (P : byte -> Prop) : (forall n, n < 64 -> P (b64_char n)) -> forall l : bytes, Forall P (b64_enc l).
Proof.
  intro H. induction l as [|a|a b|a b c l IH] using list_ind3.
  - constructor.
  - destruct (sext1 (b2n a) (b2n_lt a)) as (X & Y & _). cbv zeta in *.
    cbn [b64_enc]. repeat constructor; apply H; assumption.
  - destruct (sext2 (b2n a) (b2n b) (b2n_lt a) (b2n_lt b)) as (X & Y & Z & _). cbv zeta in *.
    cbn [b64_enc]. repeat constructor; apply H; assumption.
  - destruct (sext3 (b2n a) (b2n b) (b2n c) (b2n_lt a) (b2n_lt b) (b2n_lt c)) as (X & Y & Z & W & _). cbv zeta in *.
    cbn [b64_enc]. repeat (constructor; [apply H; assumption|]). exact IH.
Qed.

Lemma b64_char_value n : n < 64 -> value_char (b64_char n) = true.
Proof.
  intro H.
  assert (forallb (fun n => value_char (b64_char n)) (map N.of_nat (seq 0 64)) = true) as A by (vm_compute; reflexivity).
  rewrite forallb_forall in A. exact (A n (in_below 64 n H)).
Qed.
Lemma b64_enc_value l : forallb value_char (b64_enc l) = true.
Proof.
  apply forallb_forall. intros c I. pose proof (b64_enc_all (fun c => value_char c = true) b64_char_value l) as F.
  rewrite Forall_forall in F. exact (F c I).
Qed.

(* the salt text of a salt of 3..48 bytes is a Salt of the format *)
Lemma salt_text_ok_enc (salt : bytes) : (3 <= length salt <= 48)%nat -> salt_text_ok (b64_enc salt) = true.
Proof.
  intros [L H]. unfold salt_text_ok. rewrite b64_enc_value.
  pose proof (b64_enc_len_lo salt). pose proof (b64_enc_len_hi salt).
  replace (Nat.leb 4 (length (b64_enc salt))) with true by (symmetry; apply Nat.leb_le; lia).
  replace (Nat.leb (length (b64_enc salt)) 64) with true by (symmetry; apply Nat.leb_le; lia).
  reflexivity.
Qed.

(* ==== more on decimals: canonical, short, value characters ================================== *)
Lemma dec_fuel_head fuel : forall n acc, 0 < n -> n < 2 ^ N.of_nat fuel ->
  exists c r, dec_fuel fuel n acc = c :: r /\ c <> x30.
Proof.
  induction fuel as [|f IH]; intros n acc P H.
  - change (2 ^ N.of_nat 0) with 1 in H. lia.
  - rewrite Nat2N.inj_succ, N.pow_succ_r' in H. cbn [dec_fuel]. destruct (N.ltb n 10) eqn:E.
    + apply N.ltb_lt in E. eexists _, _. split; [reflexivity|].
      intro C. apply (f_equal b2n) in C. rewrite b2n_n2b_small in C by lia. change (b2n x30) with 48 in C. lia.
    + apply N.ltb_ge in E. apply IH; lia.
Qed.

Lemma log2_fuel n : n < 2 ^ N.of_nat (S (N.to_nat (N.log2 n))).
Proof.
  rewrite Nat2N.inj_succ, N2Nat.id. destruct n as [|p]; [vm_compute; reflexivity|]. apply N.log2_spec. lia.
Qed.

(* Value::decimal on what add_decimal prints: it is canonical; the only condition is the u32 range *)
Theorem canon_dec_dec : forall n : N, canon_dec (dec n) = if N.ltb n U32 then Some n else None.
Proof.
  intro n. unfold canon_dec. pose proof (undec_dec n) as U.
  destruct (N.eq_dec n 0) as [->|NZ]; [vm_compute; reflexivity|].
  destruct (dec_fuel_head _ n [] ltac:(lia) (log2_fuel n)) as (c & r & E & C). fold (dec n) in E.
  rewrite E in *. destruct (byte_eqb c x30) eqn:B; [apply byte_eqb_eq in B; contradiction|].
  cbn [andb]. rewrite U. reflexivity.
Qed.

Lemma dec_fuel_len fuel : forall (k : nat) n acc, (1 <= k)%nat -> n < 10 ^ N.of_nat k ->
  (length (dec_fuel fuel n acc) <= k + length acc)%nat.
Proof.
  induction fuel as [|f IH]; intros k n acc K H; cbn [dec_fuel]; [lia|].
  destruct (N.ltb n 10) eqn:E; [cbn [length]; lia|].
  apply N.ltb_ge in E. destruct k as [|[|k]]; [lia | change (10 ^ N.of_nat 1) with 10 in H; lia |].
  rewrite Nat2N.inj_succ, N.pow_succ_r' in H.
  specialize (IH (S k) (n / 10) (n2b (48 + n mod 10) :: acc) ltac:(lia) ltac:(lia)). cbn [length] in IH. lia.
Qed.
Lemma dec_len (k : nat) n : (1 <= k)%nat -> n < 10 ^ N.of_nat k -> (length (dec n) <= k)%nat.
Proof. intros K H. pose proof (dec_fuel_len (S (N.to_nat (N.log2 n))) k n [] K H) as L. cbn [length] in L. unfold dec. lia. Qed.
Lemma dec_len_u32 n : n < U32 -> (length (dec n) <= 10)%nat.
Proof. intro H. apply dec_len; [lia|]. unfold U32 in H. change (2 ^ 32) with 4294967296 in H. change (10 ^ N.of_nat 10) with 10000000000. lia. Qed.

Lemma dig_value b : is_dig b -> value_char b = true.
Proof.
  unfold is_dig, value_char, Kdf.between. intros [A B]. apply N.leb_le in A, B.
  rewrite !orb_true_iff. left; left; left; left; right. rewrite A, B. reflexivity.
Qed.
Lemma dec_value_chars n : forallb value_char (dec n) = true.
Proof.
  apply forallb_forall. intros c I. pose proof (dec_digits n) as F. rewrite Forall_forall in F. exact (dig_value c (F c I)).
Qed.
(* a number of at most 64 digits prints as a value of the format; every u32 does *)
Lemma value_ok_dec n : (length (dec n) <= 64)%nat -> value_ok (dec n) = true.
Proof. intro L. unfold value_ok. rewrite dec_value_chars. replace (Nat.leb (length (dec n)) 64) with true by (symmetry; apply Nat.leb_le; lia). reflexivity. Qed.
Lemma value_ok_dec_u32 n : n < U32 -> value_ok (dec n) = true.
Proof. intro H. apply value_ok_dec. pose proof (dec_len_u32 n H). lia. Qed.

(* ==== separator-freeness ===================================================================== *)
Lemma notin_app (c : byte) a b : ~ In c a -> ~ In c b -> ~ In c (a ++ b).
Proof. intros A B H. apply in_app_or in H. tauto. Qed.
Lemma notin_closed (c : byte) l : forallb (fun b => negb (byte_eqb b c)) l = true -> ~ In c l.
Proof.
  intros H I. rewrite forallb_forall in H. specialize (H c I). rewrite byte_eqb_refl in H. discriminate.
Qed.
Lemma notin_forallb (f : byte -> bool) (c : byte) l : forallb f l = true -> f c = false -> ~ In c l.
Proof. intros H F I. rewrite forallb_forall in H. rewrite (H c I) in F. discriminate. Qed.
Lemma notin_join (c sep : byte) ls : c <> sep -> Forall (fun l => ~ In c l) ls -> ~ In c (join [sep] ls).
Proof.
  intros N. induction ls as [|x [|y r] IH]; intro F.
  - intros [].
  - inversion F; subst. assumption.
  - inversion F as [|? ? Hx F']; subst.
    change (join [sep] (x :: y :: r)) with (x ++ sep :: join [sep] (y :: r)).
    apply notin_app; [exact Hx|]. intros [E|I]; [exact (N (eq_sym E)) | exact (IH F' I)].
Qed.
(* identifiers and values contain none of the separators `$` `,` `=` *)
Lemma ident_notin c k : ident_ok k = true -> ident_char c = false -> ~ In c k.
Proof. unfold ident_ok. intros H F. apply andb_true_iff in H. destruct H as [_ H]. exact (notin_forallb _ _ _ H F). Qed.
Lemma value_notin c v : value_ok v = true -> value_char c = false -> ~ In c v.
Proof. unfold value_ok. intros H F. apply andb_true_iff in H. destruct H as [_ H]. exact (notin_forallb _ _ _ H F). Qed.

(* ==== parameters ============================================================================== *)
Definition param_ok (kv : bytes * bytes) : Prop := ident_ok (fst kv) = true /\ value_ok (snd kv) = true.

Lemma show_param_notin c kv : param_ok kv -> ident_char c = false -> value_char c = false -> c <> eqsign -> ~ In c (show_param kv).
Proof.
  intros [K V] IC VC E. unfold show_param. apply notin_app; [exact (ident_notin _ _ K IC)|]. apply notin_app.
  - intros [H|[]]. exact (E (eq_sym H)).
  - exact (value_notin _ _ V VC).
Qed.

(* one `name=value` pair: any identifier, any value *)
Lemma parse_show_param kv : param_ok kv -> parse_param (show_param kv) = Some kv.
Proof.
  intros [K V]. destruct kv as [k v]. unfold parse_param, show_param. cbn [fst snd] in *.
  change (k ++ [eqsign] ++ v) with (k ++ eqsign :: v).
  rewrite fields_app_nosep by (apply (ident_notin _ _ K); vm_compute; reflexivity).
  rewrite fields_nosep by (apply (value_notin _ _ V); vm_compute; reflexivity).
  rewrite K, V. reflexivity.
Qed.

Lemma all_parse_show ps : Forall param_ok ps -> all_some (map parse_param (map show_param ps)) = Some ps.
Proof.
  induction 1 as [|kv ps K F IH]; [reflexivity|].
  cbn [map all_some]. rewrite parse_show_param by exact K. rewrite IH. reflexivity.
Qed.

Lemma has_eq_show_join kv ps : has_eq (join [comma] (map show_param (kv :: ps))) = true.
Proof.
  assert (forall rest, has_eq (show_param kv ++ rest) = true) as A.
  { intro rest. unfold has_eq, show_param. rewrite !existsb_app. cbn [existsb]. rewrite byte_eqb_refl.
    cbn [orb]. rewrite orb_true_r. reflexivity. }
  cbn [map]. destruct (map show_param ps) as [|y r].
  - cbn [join]. rewrite <- (app_nil_r (show_param kv)). apply A.
  - change (join [comma] (show_param kv :: y :: r)) with (show_param kv ++ [comma] ++ join [comma] (y :: r)). apply A.
Qed.

(* the parameter string: any non-empty list of pairs whose text has at most 127 bytes *)
Lemma parse_params_show ps :
  ps <> [] -> Forall param_ok ps -> (length (join [comma] (map show_param ps)) <= 127)%nat ->
  parse_params (join [comma] (map show_param ps)) = Some ps.
Proof.
  intros NE F L. unfold parse_params.
  replace (Nat.leb (length (join [comma] (map show_param ps))) 127) with true by (symmetry; apply Nat.leb_le; exact L).
  rewrite fields_join.
  - apply all_parse_show. exact F.
  - apply Forall_forall. intros f I. apply in_map_iff in I. destruct I as (kv & <- & I).
    rewrite Forall_forall in F. apply show_param_notin; [exact (F kv I) | vm_compute; reflexivity | vm_compute; reflexivity | vm_compute; discriminate].
  - destruct ps; [contradiction | discriminate].
Qed.

(* the pieces of phc_parse_x after the split at `$` *)
Definition get_ver (rest : list bytes) : option (option N) * list bytes :=
  match rest with
  | (a :: b :: ds) :: r =>
    if byte_eqb a x76 && byte_eqb b eqsign && negb (has_comma ds) then (Some (canon_dec ds), r) else (None, rest)
  | _ => (None, rest)
  end.
Definition get_params (rest1 : list bytes) : option (list (bytes * bytes)) * list bytes :=
  match rest1 with
  | f :: r => if has_eq f then (parse_params f, r) else (Some [], rest1)
  | [] => (Some [], rest1)
  end.
Definition finish (alg : bytes) (version : option N) (ps : list (bytes * bytes)) (rest2 : list bytes) : option phc :=
  match rest2 with
  | [] => Some {| ph_alg := alg; ph_version := version; ph_params := ps; ph_salt := None; ph_hash := None |}
  | salt :: rest3 =>
    if negb (salt_text_ok salt) then None else
    let sb := match b64_dec salt with Some x => x | None => [] end in
    match rest3 with
    | [] => Some {| ph_alg := alg; ph_version := version; ph_params := ps; ph_salt := Some sb; ph_hash := None |}
    | [hash] =>
      match b64_dec hash with
      | Some hb => if hash_len_ok hb
                   then Some {| ph_alg := alg; ph_version := version; ph_params := ps; ph_salt := Some sb; ph_hash := Some hb |}
                   else None
      | None => None
      end
    | _ => None
    end
  end.

Lemma phc_parse_x_fields s alg rest ver rest1 ps rest2 :
  fields dollar s = [] :: alg :: rest -> ident_ok alg = true ->
  get_ver rest = (ver, rest1) -> ver <> Some None ->
  get_params rest1 = (Some ps, rest2) ->
  phc_parse_x s = finish alg (match ver with Some (Some v) => Some v | _ => None end) ps rest2.
Proof.
  intros F A V NV P. unfold phc_parse_x. rewrite F, A. cbn [negb].
  fold (get_ver rest). rewrite V. fold (get_params rest1). rewrite P.
  destruct ver as [[v|]|]; [reflexivity | contradiction | reflexivity].
Qed.

Lemma get_params_show ps r :
  ps <> [] -> Forall param_ok ps -> (length (join [comma] (map show_param ps)) <= 127)%nat ->
  get_params (join [comma] (map show_param ps) :: r) = (Some ps, r).
Proof.
  intros NE F L. unfold get_params. destruct ps as [|kv ps'] eqn:E; [contradiction|].
  rewrite has_eq_show_join. rewrite <- E in *. rewrite parse_params_show by assumption. reflexivity.
Qed.

(* ==== the writer's records ==================================================================== *)
(* the side condition of the round trip: exactly what the format demands of the variable parts of a writer
   record — every parameter value is a value (at most 64 characters), the parameter string has at most 127
   bytes, the salt text has 4..64 characters (3..48 bytes) *)
Definition rt_side (h : hash_alg) (salt : bytes) : bool :=
  forallb (fun kv => value_ok (snd kv)) (alg_params h)
  && Nat.leb (length (join [comma] (map show_param (alg_params h)))) 127
  && Nat.leb 3 (length salt) && Nat.leb (length salt) 48.

Lemma alg_name_ident h : ident_ok (alg_name h) = true.
Proof. destruct h; vm_compute; reflexivity. Qed.
Lemma alg_name_nodollar h : ~ In dollar (alg_name h).
Proof. apply (ident_notin _ _ (alg_name_ident h)). vm_compute; reflexivity. Qed.

Lemma alg_params_keys h : alg_params h <> [] /\ Forall (fun kv => ident_ok (fst kv) = true) (alg_params h).
Proof.
  destruct h; cbn [alg_params alg_params_n map fst snd]; (split; [discriminate|]);
    repeat constructor; vm_compute; reflexivity.
Qed.

Lemma alg_params_ok h : forallb (fun kv => value_ok (snd kv)) (alg_params h) = true -> Forall param_ok (alg_params h).
Proof.
  intro V. destruct (alg_params_keys h) as (_ & K). rewrite forallb_forall in V. rewrite Forall_forall in *.
  intros kv I. split; [exact (K kv I) | exact (V kv I)].
Qed.

Lemma params_nodollar h : Forall param_ok (alg_params h) -> ~ In dollar (join [comma] (map show_param (alg_params h))).
Proof.
  intro F. apply notin_join; [vm_compute; discriminate|].
  apply Forall_forall. intros f I. apply in_map_iff in I. destruct I as (kv & <- & I).
  rewrite Forall_forall in F. apply show_param_notin; [exact (F kv I) | vm_compute; reflexivity | vm_compute; reflexivity | vm_compute; discriminate].
Qed.

(* what the printer writes, split at `$` *)
Lemma print_fields h salt : ~ In dollar (join [comma] (map show_param (alg_params h))) ->
  fields dollar (phc_print_x (writer_record h salt None)) =
  [] :: alg_name h ::
  (match alg_version h with Some v => [lit "v=" ++ dec v] | None => [] end)
  ++ [join [comma] (map show_param (alg_params h)); b64_enc salt].
Proof.
  intro NP. pose proof (alg_name_nodollar h) as NA.
  assert (~ In dollar (b64_enc salt)) as NS by (apply notin_b64; vm_compute; reflexivity).
  unfold phc_print_x, writer_record. cbn [ph_alg ph_version ph_params ph_salt ph_hash].
  rewrite app_nil_r.
  destruct (alg_params_keys h) as (NE & _).
  destruct (alg_params h) as [|p0 ps] eqn:EP; [contradiction|].
  destruct (alg_version h) as [v|]; cbn [app];
    set (J := join [comma] (map show_param (p0 :: ps))) in *.
  - rewrite fields_cons_sep, fields_app_nosep by exact NA.
    rewrite fields_app_nosep
      by (apply notin_app; [apply notin_closed; vm_compute; reflexivity | apply notin_dec; vm_compute; left; reflexivity]).
    rewrite fields_app_nosep by exact NP. rewrite fields_nosep by exact NS. reflexivity.
  - rewrite fields_cons_sep, fields_app_nosep by exact NA.
    rewrite fields_app_nosep by exact NP. rewrite fields_nosep by exact NS. reflexivity.
Qed.

Lemma get_ver_writer h r :
  get_ver ((match alg_version h with Some v => [lit "v=" ++ dec v] | None => [] end)
           ++ join [comma] (map show_param (alg_params h)) :: r) =
  (match alg_version h with Some v => Some (Some v) | None => None end,
   join [comma] (map show_param (alg_params h)) :: r).
Proof.
  destruct h as [rounds|t m p]; cbn [alg_version app].
  - reflexivity.
  - set (J := join [comma] (map show_param (alg_params (Argon2Id t m p)))).
    change (get_ver ((lit "v=" ++ dec 19) :: J :: r)) with (Some (canon_dec (dec 19)), J :: r).
    rewrite canon_dec_dec. reflexivity.
Qed.

(* the main lemma: every algorithm choice; the side condition is what the format demands (rt_side) *)
Theorem phc_roundtrip_x : forall (h : hash_alg) (salt : bytes),
  rt_side h salt = true ->
  phc_parse_x (phc_print_x (writer_record h salt None)) = Some (writer_record h salt None).
Proof.
  intros h salt S. unfold rt_side in S. rewrite !andb_true_iff in S. destruct S as (((V & L) & S3) & S48).
  apply Nat.leb_le in L, S3, S48.
  pose proof (alg_params_ok h V) as PO. destruct (alg_params_keys h) as (NE & _).
  rewrite (phc_parse_x_fields _ _ _ (match alg_version h with Some v => Some (Some v) | None => None end)
             [join [comma] (map show_param (alg_params h)); b64_enc salt]
             (alg_params h) [b64_enc salt] (print_fields h salt (params_nodollar h PO))).
  - unfold finish. rewrite salt_text_ok_enc by lia. cbn [negb]. rewrite b64_dec_enc.
    unfold writer_record. destruct (alg_version h); reflexivity.
  - apply alg_name_ident.
  - apply get_ver_writer.
  - destruct (alg_version h); discriminate.
  - apply get_params_show; assumption.
Qed.

(* ... and it is needed: a parameter value of 65 digits, a salt of 2 or of 49 bytes are not printed as PHC strings
   (model only: the parameters of the Rust writer are u32 and its salt has 16 bytes) *)
Definition ex_salt : bytes := map (fun n => n2b (N.of_nat n)) (seq 1 16).
Lemma phc_roundtrip_x_refuted :
  phc_parse_x (phc_print_x (writer_record (Pbkdf2Sha256 (Some (10 ^ 64))) ex_salt None)) = None /\
  phc_parse_x (phc_print_x (writer_record (Pbkdf2Sha256 None) [x01; x02] None)) = None /\
  phc_parse_x (phc_print_x (writer_record (Pbkdf2Sha256 None) (repeat x01 49) None)) = None.
Proof. repeat split; vm_compute; reflexivity. Qed.

(* u32 parameters and a salt of SALT_LEN bytes meet the side condition *)
Lemma fits_u32_values h : fits_u32 h = true -> forallb (fun kv => value_ok (snd kv)) (alg_params h) = true.
Proof.
  unfold fits_u32, alg_params. rewrite !forallb_forall. intros F kv I.
  apply in_map_iff in I. destruct I as (kn & <- & I). cbn [snd]. apply value_ok_dec_u32. apply N.ltb_lt. exact (F kn I).
Qed.
Lemma fits_u32_lens h : fits_u32 h = true -> Forall (fun kv => (length (snd kv) <= 10)%nat) (alg_params h).
Proof.
  unfold fits_u32, alg_params. rewrite forallb_forall, Forall_forall. intros F kv I.
  apply in_map_iff in I. destruct I as (kn & <- & I). cbn [snd]. apply dec_len_u32. apply N.ltb_lt. exact (F kn I).
Qed.
Lemma fits_u32_side h salt : fits_u32 h = true -> length salt = SALT_LEN -> rt_side h salt = true.
Proof.
  intros F SL. unfold rt_side. rewrite (fits_u32_values h F), SL. cbn [andb].
  replace (Nat.leb 3 SALT_LEN) with true by reflexivity. replace (Nat.leb SALT_LEN 48) with true by reflexivity.
  rewrite !andb_true_r. apply Nat.leb_le.
  pose proof (fits_u32_lens h F) as LS.
  destruct h as [r|t m p]; cbn [alg_params alg_params_n map fst snd] in *.
  - inversion LS as [|? ? L1 LS1]; subst. inversion LS1 as [|? ? L2 _]; subst. cbn [snd] in *.
    cbn [join]. unfold show_param. cbn [fst snd]. rewrite !app_length. cbn [length].
    change (length (lit "i")) with 1%nat. change (length (lit "l")) with 1%nat. lia.
  - inversion LS as [|? ? L1 LS1]; subst. inversion LS1 as [|? ? L2 LS2]; subst. inversion LS2 as [|? ? L3 _]; subst. cbn [snd] in *.
    cbn [join]. unfold show_param. cbn [fst snd]. rewrite !app_length. cbn [length].
    change (length (lit "m")) with 1%nat. change (length (lit "t")) with 1%nat. change (length (lit "p")) with 1%nat. lia.
Qed.

(* the parameter rules of the crates (kdf_valid_x) refuse parameters that are not u32: what writer_context_x
   checks itself implies the side condition *)
Lemma pbkdf2_ok_dec k v : pbkdf2_param_ok (k, v) = true -> canon_dec v <> None.
Proof.
  unfold pbkdf2_param_ok. cbn [fst snd]. destruct (bytes_eqb k (lit "i") || bytes_eqb k (lit "l")); [|discriminate].
  destruct (canon_dec v); [discriminate|discriminate].
Qed.
Lemma argon2_ok_dec k v : bytes_eqb k (lit "m") || bytes_eqb k (lit "t") || bytes_eqb k (lit "p") = true ->
  argon2_param_ok (k, v) = true -> canon_dec v <> None.
Proof.
  unfold argon2_param_ok. cbn [fst snd]. intros ->. destruct (canon_dec v); discriminate.
Qed.
Lemma canon_dec_dec_lt n : canon_dec (dec n) <> None -> N.ltb n U32 = true.
Proof. rewrite canon_dec_dec. destruct (N.ltb n U32); [reflexivity | contradiction]. Qed.

Theorem kdf_valid_x_fits : forall (h : hash_alg) (salt : bytes) (hash : option bytes),
  kdf_valid_x (alg_name h) (alg_version h) (alg_params h) salt hash = true -> fits_u32 h = true.
Proof.
  intros h salt hash. unfold fits_u32, kdf_valid_x. destruct h as [r|t m p]; cbn [alg_name alg_params alg_params_n map fst snd forallb].
  - change (is_argon2 (lit "pbkdf2-sha256")) with false. change (is_pbkdf2 (lit "pbkdf2-sha256")) with true. cbv iota.
    intro H. rewrite !andb_true_iff in H. destruct H as ((((A & B & _) & _) & _) & _).
    rewrite (canon_dec_dec_lt _ (pbkdf2_ok_dec _ _ A)), (canon_dec_dec_lt _ (pbkdf2_ok_dec _ _ B)). reflexivity.
  - change (is_argon2 (lit "argon2id")) with true. cbv iota.
    intro H. rewrite !andb_true_iff in H. destruct H as (((((((((_ & A & B & C & _) & _) & _) & _) & _) & _) & _) & _) & _).
    rewrite (canon_dec_dec_lt _ (argon2_ok_dec (lit "m") _ eq_refl A)), (canon_dec_dec_lt _ (argon2_ok_dec (lit "t") _ eq_refl B)),
            (canon_dec_dec_lt _ (argon2_ok_dec (lit "p") _ eq_refl C)). reflexivity.
Qed.

(* the premise of the KdfFacts theorems, for the executable codec and the executable parameter rules *)
Theorem phc_roundtrip_x_writer : forall (h : hash_alg) (salt : bytes),
  length salt = SALT_LEN ->
  kdf_valid_x (alg_name h) (alg_version h) (alg_params h) salt None = true ->
  phc_parse_x (phc_print_x (writer_record h salt None)) = Some (writer_record h salt None).
Proof. intros h salt SL V. apply phc_roundtrip_x. apply fits_u32_side; [exact (kdf_valid_x_fits _ _ _ V) | exact SL]. Qed.

Theorem alg_supported_x_writer : forall h : hash_alg, alg_supported_x (alg_name h) = true.
Proof. destruct h; vm_compute; reflexivity. Qed.

(* printing is injective on writer records that can be printed: another salt or parameter gives another PHSF *)
Corollary phc_print_x_inj : forall h h' salt salt',
  rt_side h salt = true -> rt_side h' salt' = true ->
  phc_print_x (writer_record h salt None) = phc_print_x (writer_record h' salt' None) ->
  writer_record h salt None = writer_record h' salt' None.
Proof.
  intros h h' s s' S S' H. pose proof (phc_roundtrip_x h s S) as A. rewrite H, (phc_roundtrip_x _ _ S') in A.
  congruence.
Qed.

(* ==== the KdfFacts theorems with the executable codec: no codec premise remains ============== *)
Section WithCodec.
  Variable key : Type.
  Variable kdf : bytes -> option N -> list (bytes * bytes) -> bytes -> bytes -> key.
  Variable kdf_valid : bytes -> option N -> list (bytes * bytes) -> bytes -> option bytes -> bool.
  Variable decrypt : key -> bytes -> bytes -> res bytes.
  (* the parameter rules refuse what is not a u32 (the Rust type of the parameters) *)
  Hypothesis kdf_valid_u32 : forall h salt,
    kdf_valid (alg_name h) (alg_version h) (alg_params h) salt None = true -> fits_u32 h = true.

  Notation writer_context := (writer_context key kdf kdf_valid phc_print_x).
  Notation reader_key := (reader_key key kdf kdf_valid alg_supported_x phc_parse_x).
  Notation decode := (decode key kdf kdf_valid alg_supported_x phc_parse_x decrypt).

  Lemma codec_round_trip : forall h salt,
    length salt = SALT_LEN ->
    kdf_valid (alg_name h) (alg_version h) (alg_params h) salt None = true ->
    phc_parse_x (phc_print_x (writer_record h salt None)) = Some (writer_record h salt None).
  Proof. intros h salt SL V. apply phc_roundtrip_x. apply fits_u32_side; [exact (kdf_valid_u32 _ _ V) | exact SL]. Qed.

  Theorem right_password_reads_codec m h pw tape c t' :
    writer_context m h pw tape = Ok (c, t') -> reader_key (ctx_phsf c) pw = Ok (ctx_key c).
  Proof. apply right_password_reads; [exact codec_round_trip | exact alg_supported_x_writer]. Qed.

  Theorem right_password_decodes_codec enc m h pw tape c t' ct content :
    encrypted_b enc = true ->
    writer_context m h pw tape = Ok (c, t') ->
    (m = MCbc -> (16 <= length ct)%nat) ->
    decrypt (ctx_key c) (ctx_iv c) ct = Ok content ->
    decode enc m (Some (ctx_phsf c)) (Some pw) (ctx_iv c ++ ct) = Ok content.
  Proof. apply right_password_decodes; [exact codec_round_trip | exact alg_supported_x_writer]. Qed.

  Theorem wrong_password_partial_codec enc m h pw pw' tape c t' ct content :
    writer_context m h pw tape = Ok (c, t') ->
    (let salt := firstn SALT_LEN tape in
     kdf (alg_name h) (alg_version h) (alg_params h) salt pw' <> kdf (alg_name h) (alg_version h) (alg_params h) salt pw) ->
    (forall k', k' <> ctx_key c -> decrypt k' (ctx_iv c) ct <> Ok content) ->
    encrypted_b enc = true ->
    decode enc m (Some (ctx_phsf c)) (Some pw') (ctx_iv c ++ ct) <> Ok content.
  Proof. apply wrong_password_partial; [exact codec_round_trip | exact alg_supported_x_writer]. Qed.

  (* the PHSF of a context parses to exactly the writer's record: algorithm, version, parameters,
     the salt drawn from the tape, and NO hash *)
  Theorem phsf_parses_to_record_codec m h pw tape c t' :
    writer_context m h pw tape = Ok (c, t') ->
    phc_parse_x (ctx_phsf c) = Some (writer_record h (firstn SALT_LEN tape) None).
  Proof.
    intro W. destruct (writer_context_inv _ _ _ _ _ _ _ _ _ _ W) as (_ & SL & V & P & _).
    rewrite P. exact (codec_round_trip _ _ SL V).
  Qed.

  Theorem phsf_has_no_hash_codec m h pw tape c t' :
    writer_context m h pw tape = Ok (c, t') ->
    exists p, phc_parse_x (ctx_phsf c) = Some p /\ ph_hash p = None.
  Proof. apply phsf_has_no_hash. exact codec_round_trip. Qed.
End WithCodec.

(* ... and with the whole executable plumbing (the term KDF, the crates' parameter rules): no premise at all *)
Theorem right_password_reads_x : forall m h pw tape c t',
  writer_context_x m h pw tape = Ok (c, t') -> reader_key_x (ctx_phsf c) pw = Ok (ctx_key c).
Proof. exact (right_password_reads_codec bytes kdf_x kdf_valid_x (fun h salt => kdf_valid_x_fits h salt None)). Qed.

Theorem right_password_decodes_x : forall (decrypt : bytes -> bytes -> bytes -> res bytes) enc m h pw tape c t' ct content,
  encrypted_b enc = true ->
  writer_context_x m h pw tape = Ok (c, t') ->
  (m = MCbc -> (16 <= length ct)%nat) ->
  decrypt (ctx_key c) (ctx_iv c) ct = Ok content ->
  decode bytes kdf_x kdf_valid_x alg_supported_x phc_parse_x decrypt enc m (Some (ctx_phsf c)) (Some pw) (ctx_iv c ++ ct) = Ok content.
Proof. intro decrypt. exact (right_password_decodes_codec bytes kdf_x kdf_valid_x decrypt (fun h salt => kdf_valid_x_fits h salt None)). Qed.

Theorem phsf_parses_to_record_x : forall m h pw tape c t',
  writer_context_x m h pw tape = Ok (c, t') ->
  phc_parse_x (ctx_phsf c) = Some (writer_record h (firstn SALT_LEN tape) None).
Proof. exact (phsf_parses_to_record_codec bytes kdf_x kdf_valid_x (fun h salt => kdf_valid_x_fits h salt None)). Qed.

Theorem phsf_has_no_hash_x : forall m h pw tape c t',
  writer_context_x m h pw tape = Ok (c, t') ->
  exists p, phc_parse_x (ctx_phsf c) = Some p /\ ph_hash p = None.
Proof. exact (phsf_has_no_hash_codec bytes kdf_x kdf_valid_x (fun h salt => kdf_valid_x_fits h salt None)). Qed.

(* every context of a whole write (one per entry / one per solid stream) reads back under the password *)
Theorem write_all_reads_x : forall k enc m h pw n tape cs t',
  write_all_x k enc m h pw n tape = Ok (cs, t') ->
  Forall (fun c => reader_key_x (ctx_phsf c) pw = Ok (ctx_key c) /\
                   exists p, phc_parse_x (ctx_phsf c) = Some p /\ ph_hash p = None) cs.
Proof.
  intros k enc m h pw n tape cs t'. unfold write_all_x, write_all.
  assert (forall n tape cs t', contexts_n bytes kdf_x kdf_valid_x phc_print_x n m h pw tape = Ok (cs, t') ->
          Forall (fun c => reader_key_x (ctx_phsf c) pw = Ok (ctx_key c) /\
                           exists p, phc_parse_x (ctx_phsf c) = Some p /\ ph_hash p = None) cs) as G.
  { clear. induction n as [|n IH]; intros tape cs t'; cbn [contexts_n].
    - intro H; inversion H; constructor.
    - destruct (writer_context bytes kdf_x kdf_valid_x phc_print_x m h pw tape) as [[c t]| |] eqn:W; cbn [bind]; try discriminate.
      destruct (contexts_n bytes kdf_x kdf_valid_x phc_print_x n m h pw t) as [[cs' t'']| |] eqn:R; cbn [bind]; try discriminate.
      intro H; inversion H; subst. constructor; [|exact (IH _ _ _ R)].
      split; [exact (right_password_reads_x _ _ _ _ _ _ W) | exact (phsf_has_no_hash_x _ _ _ _ _ _ W)]. }
  destruct enc; [intro H; inversion H; constructor | apply G | apply G].
Qed.

(* ==== the reader on strings no writer of this library produces (the rules of the crates) ====== *)
Definition outcome_is (phsf : String.string) (e : ekind) : bool :=
  match reader_key_x (lit phsf) (lit "pw") with Err e' => bytes_eqb (show_ekind e') (show_ekind e) | _ => false end.
Definition key_of (phsf : String.string) : option bytes :=
  match reader_key_x (lit phsf) (lit "pw") with Ok k => Some k | _ => None end.
Arguments outcome_is phsf%string e.
Arguments key_of phsf%string.
Example ex_foreign_strings :
  (* non-canonical decimals, upper case, an empty trailing field, an over-long or undecodable salt: errors of the format *)
  outcome_is "$pbkdf2-sha256$i=01,l=32$MDEyMzQ1Njc4OWFiY2RlZg" InvalidData = true /\
  outcome_is "$argon2id$v=019$m=8,t=1,p=1$MDEyMzQ1Njc4OWFiY2RlZg" InvalidData = true /\
  outcome_is "$ARGON2ID$v=19$m=8,t=1,p=1$MDEyMzQ1Njc4OWFiY2RlZg" InvalidData = true /\
  outcome_is "$argon2id$v=19$m=8,t=1,p=1$MDEyMzQ1Njc4OWFiY2RlZg$" InvalidData = true /\
  outcome_is "$pbkdf2-sha256$i=1,l=32$MDE" InvalidData = true /\
  outcome_is "$pbkdf2-sha256$i=1,l=32$MDEyMx" InvalidData = true /\
  (* every p is range-checked *)
  outcome_is "$argon2id$v=19$m=8,t=1,p=1,p=4294967295$MDEyMzQ1Njc4OWFiY2RlZg" InvalidData = true /\
  (* an unsupported algorithm: the format comes first, then the dispatch; the salt is decoded only after it *)
  outcome_is "$scrypt$ln=abc$MDEy.DEy" Unsupported = true /\
  outcome_is "$scrypt$v=01$ln=1$MDEyMzQ1Njc4OWFiY2RlZg" InvalidData = true /\
  (* of a repeated parameter the last one counts; the associated data of argon2 reaches the KDF, the key id does not *)
  key_of "$pbkdf2-sha256$i=1,i=2,l=32$MDEyMzQ1Njc4OWFiY2RlZg" = key_of "$pbkdf2-sha256$i=2$MDEyMzQ1Njc4OWFiY2RlZg" /\
  key_of "$argon2id$v=19$m=8,t=1,keyid=Zm9v,p=1$MDEyMzQ1Njc4OWFiY2RlZg" = key_of "$argon2id$v=19$m=8,t=1,p=1$MDEyMzQ1Njc4OWFiY2RlZg" /\
  key_of "$argon2id$v=19$m=8,t=1,p=1,data=Zm9v$MDEyMzQ1Njc4OWFiY2RlZg" <> key_of "$argon2id$v=19$m=8,t=1,p=1$MDEyMzQ1Njc4OWFiY2RlZg" /\
  key_of "$argon2id$v=19$m=8,t=1,p=1,data=Zm9v$MDEyMzQ1Njc4OWFiY2RlZg" <> None /\
  (* a hash in the string fixes the output length: only 32 bytes make a key *)
  key_of "$argon2id$v=19$m=8,t=1,p=1$MDEyMzQ1Njc4OWFiY2RlZg$AAECAwQFBgcICQoLDA0ODxAREhMUFRYXGBkaGxwdHh8" <> None /\
  outcome_is "$argon2id$v=19$m=8,t=1,p=1$MDEyMzQ1Njc4OWFiY2RlZg$AAECAwQFBgcICQoLDA0ODw" InvalidData = true.
Proof. vm_compute. repeat split; discriminate. Qed.

(* ==== the premises are met: concrete 16-byte salt, both algorithms, default and extreme parameters ==== *)
Example ex_print_argon2 :
  phc_print_x (writer_record (Argon2Id None None None) ex_salt None) = lit "$argon2id$v=19$m=19456,t=2,p=1$AQIDBAUGBwgJCgsMDQ4PEA"
  /\ phc_parse_x (lit "$argon2id$v=19$m=19456,t=2,p=1$AQIDBAUGBwgJCgsMDQ4PEA") = Some (writer_record (Argon2Id None None None) ex_salt None)
  /\ rt_side (Argon2Id None None None) ex_salt = true.
Proof. repeat split; vm_compute; reflexivity. Qed.
Example ex_print_pbkdf2 :
  phc_print_x (writer_record (Pbkdf2Sha256 (Some 4294967295)) ex_salt None) = lit "$pbkdf2-sha256$i=4294967295,l=32$AQIDBAUGBwgJCgsMDQ4PEA"
  /\ phc_parse_x (lit "$pbkdf2-sha256$i=4294967295,l=32$AQIDBAUGBwgJCgsMDQ4PEA") = Some (writer_record (Pbkdf2Sha256 (Some 4294967295)) ex_salt None)
  /\ rt_side (Pbkdf2Sha256 (Some 4294967295)) ex_salt = true.
Proof. repeat split; vm_compute; reflexivity. Qed.
(* the hypothesis of the `_x` theorems is satisfiable: writer_context_x succeeds for both algorithms *)
Example ex_contexts_exist :
  (exists c t', writer_context_x MCtr (Argon2Id None None None) (lit "pw") ex_tape = Ok (c, t')
                /\ ctx_phsf c = lit "$argon2id$v=19$m=19456,t=2,p=1$AQIDBAUGBwgJCgsMDQ4PEA"
                /\ reader_key_x (ctx_phsf c) (lit "pw") = Ok (ctx_key c)) /\
  (exists c t', writer_context_x MCbc (Pbkdf2Sha256 None) (lit "pw") ex_tape = Ok (c, t')
                /\ ctx_phsf c = lit "$pbkdf2-sha256$i=600000,l=32$AQIDBAUGBwgJCgsMDQ4PEA"
                /\ reader_key_x (ctx_phsf c) (lit "pw") = Ok (ctx_key c)).
Proof.
  split.
  - destruct (writer_context_x MCtr (Argon2Id None None None) (lit "pw") ex_tape) as [[c t]| |] eqn:W;
      [|vm_compute in W; discriminate..].
    exists c, t. split; [reflexivity|]. split; [|exact (right_password_reads_x _ _ _ _ _ _ W)].
    vm_compute in W. inversion W. reflexivity.
  - destruct (writer_context_x MCbc (Pbkdf2Sha256 None) (lit "pw") ex_tape) as [[c t]| |] eqn:W;
      [|vm_compute in W; discriminate..].
    exists c, t. split; [reflexivity|]. split; [|exact (right_password_reads_x _ _ _ _ _ _ W)].
    vm_compute in W. inversion W. reflexivity.
Qed.
