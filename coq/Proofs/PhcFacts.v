(* PhcFacts.v — the executable PHC string codec of Model/Kdf.v (phc_print_x / phc_parse_x, unpadded
   base64, decimal parameters) round-trips every record a writer prints, for EVERY algorithm choice,
   parameter value and salt (no side condition), and the reader dispatches on the writer's algorithm
   names.  This discharges the two codec premises of the C16 / C08 theorems of KdfFacts.v for the
   codec the correspondence check runs against the `password-hash` crate; the theorems are restated
   with the `_x` stand-ins so that no codec premise remains.
   (That the crate computes the same strings as phc_print_x / phc_parse_x is established by the
   correspondence runs of the kdf area, not by proof.) *)
From PNA Require Import Base Codec Kdf BaseFacts NameFacts KdfFacts.
Require Import ZArith ZifyN ZifyNat ZifyBool.
Ltac Zify.zify_post_hook ::= Z.div_mod_to_equations.
Open Scope N_scope.

(* ==== base64 (standard alphabet, no padding) ================================================= *)
Lemma in_below (k : nat) n : n < N.of_nat k -> In n (map N.of_nat (seq 0 k)).
Proof. intro H. apply in_map_iff. exists (N.to_nat n). split; [lia|]. apply in_seq. lia. Qed.

Lemma b64_val_char n : n < 64 -> b64_val (b64_char n) = Some n.
Proof.
  intro H.
  assert (forallb (fun n => match b64_val (b64_char n) with Some m => N.eqb m n | None => false end)
                  (map N.of_nat (seq 0 64)) = true) as A by (vm_compute; reflexivity).
  rewrite forallb_forall in A. specialize (A n (in_below 64 n H)).
  destruct (b64_val (b64_char n)) as [m|]; [|discriminate]. apply N.eqb_eq in A. subst; reflexivity.
Qed.

(* the arithmetic of the three group sizes *)
Lemma sext3 a b c : a < 256 -> b < 256 -> c < 256 ->
  let n := a * 65536 + b * 256 + c in
  n / 262144 < 64 /\ (n / 4096) mod 64 < 64 /\ (n / 64) mod 64 < 64 /\ n mod 64 < 64 /\
  n / 262144 * 262144 + (n / 4096) mod 64 * 4096 + (n / 64) mod 64 * 64 + n mod 64 = n /\
  n / 65536 = a /\ (n / 256) mod 256 = b /\ n mod 256 = c.
Proof. intros; cbv zeta. repeat split; lia. Qed.

Lemma sext2 a b : a < 256 -> b < 256 ->
  let n := a * 65536 + b * 256 in
  n / 262144 < 64 /\ (n / 4096) mod 64 < 64 /\ (n / 64) mod 64 < 64 /\
  ((n / 64) mod 64) mod 4 = 0 /\
  (n / 262144 * 4096 + (n / 4096) mod 64 * 64 + (n / 64) mod 64) / 1024 = a /\
  ((n / 262144 * 4096 + (n / 4096) mod 64 * 64 + (n / 64) mod 64) / 4) mod 256 = b.
Proof. intros; cbv zeta. repeat split; lia. Qed.

Lemma sext1 a : a < 256 ->
  let n := a * 65536 in
  n / 262144 < 64 /\ (n / 4096) mod 64 < 64 /\ ((n / 4096) mod 64) mod 16 = 0 /\
  (n / 262144 * 64 + (n / 4096) mod 64) / 16 = a.
Proof. intros; cbv zeta. repeat split; lia. Qed.

Lemma b64_dec_4 x y z w r : x < 64 -> y < 64 -> z < 64 -> w < 64 ->
  b64_dec (b64_char x :: b64_char y :: b64_char z :: b64_char w :: r) =
  match b64_dec r with
  | Some t => let n := x * 262144 + y * 4096 + z * 64 + w in
              Some (n2b (n / 65536) :: n2b ((n / 256) mod 256) :: n2b (n mod 256) :: t)
  | None => None
  end.
Proof. intros. cbn [b64_dec]. rewrite !b64_val_char by assumption. reflexivity. Qed.

Lemma b64_dec_3 x y z : x < 64 -> y < 64 -> z < 64 -> z mod 4 = 0 ->
  b64_dec [b64_char x; b64_char y; b64_char z] =
  Some [n2b ((x * 4096 + y * 64 + z) / 1024); n2b (((x * 4096 + y * 64 + z) / 4) mod 256)].
Proof. intros ? ? ? E. cbn [b64_dec]. rewrite !b64_val_char by assumption. rewrite E, N.eqb_refl. reflexivity. Qed.

Lemma b64_dec_2 x y : x < 64 -> y < 64 -> y mod 16 = 0 ->
  b64_dec [b64_char x; b64_char y] = Some [n2b ((x * 64 + y) / 16)].
Proof. intros ? ? E. cbn [b64_dec]. rewrite !b64_val_char by assumption. rewrite E, N.eqb_refl. reflexivity. Qed.

Lemma list_ind3 (P : bytes -> Prop) :
  P [] -> (forall a, P [a]) -> (forall a b, P [a; b]) ->
  (forall a b c l, P l -> P (a :: b :: c :: l)) -> forall l, P l.
Proof.
  intros H0 H1 H2 H3. fix F 1. intros [|a [|b [|c l]]];
    [exact H0 | exact (H1 a) | exact (H2 a b) | exact (H3 a b c l (F l))].
Qed.

(* decoding undoes encoding, for every byte string *)
Theorem b64_dec_enc : forall l : bytes, b64_dec (b64_enc l) = Some l.
Proof.
  induction l as [|a|a b|a b c l IH] using list_ind3.
  - reflexivity.
  - destruct (sext1 (b2n a) (b2n_lt a)) as (X & Y & E & V). cbv zeta in *.
    cbn [b64_enc]. rewrite b64_dec_2 by assumption. rewrite V, n2b_b2n. reflexivity.
  - destruct (sext2 (b2n a) (b2n b) (b2n_lt a) (b2n_lt b)) as (X & Y & Z & E & V1 & V2). cbv zeta in *.
    cbn [b64_enc]. rewrite b64_dec_3 by assumption. rewrite V1, V2, !n2b_b2n. reflexivity.
  - destruct (sext3 (b2n a) (b2n b) (b2n c) (b2n_lt a) (b2n_lt b) (b2n_lt c))
      as (X & Y & Z & W & E & V1 & V2 & V3). cbv zeta in *.
    cbn [b64_enc]. rewrite b64_dec_4 by assumption. rewrite IH. cbv zeta.
    rewrite E, V1, V2, V3, !n2b_b2n. reflexivity.
Qed.

Corollary b64_enc_inj : forall a b : bytes, b64_enc a = b64_enc b -> a = b.
Proof.
  intros a b H. pose proof (b64_dec_enc a) as A. rewrite H, b64_dec_enc in A. inversion A; reflexivity.
Qed.

(* the encoder emits alphabet characters only *)
Definition b64_ok (c : byte) : Prop := b64_val c <> None.
Lemma b64_char_ok n : n < 64 -> b64_ok (b64_char n).
Proof. intros H E. rewrite b64_val_char in E by exact H. discriminate. Qed.

Lemma b64_enc_ok : forall l : bytes, Forall b64_ok (b64_enc l).
Proof.
  induction l as [|a|a b|a b c l IH] using list_ind3.
  - constructor.
  - destruct (sext1 (b2n a) (b2n_lt a)) as (X & Y & _). cbv zeta in *.
    cbn [b64_enc]. repeat constructor; apply b64_char_ok; assumption.
  - destruct (sext2 (b2n a) (b2n b) (b2n_lt a) (b2n_lt b)) as (X & Y & Z & _). cbv zeta in *.
    cbn [b64_enc]. repeat constructor; apply b64_char_ok; assumption.
  - destruct (sext3 (b2n a) (b2n b) (b2n c) (b2n_lt a) (b2n_lt b) (b2n_lt c)) as (X & Y & Z & W & _). cbv zeta in *.
    cbn [b64_enc]. repeat (constructor; [apply b64_char_ok; assumption|]). exact IH.
Qed.

Lemma notin_b64 c l : b64_val c = None -> ~ In c (b64_enc l).
Proof.
  intros E H. pose proof (b64_enc_ok l) as F. rewrite Forall_forall in F. exact (F c H E).
Qed.

(* ==== decimal ================================================================================ *)
Definition dstep (acc : option N) (b : byte) : option N :=
  match acc with
  | None => None
  | Some a => let x := b2n b in
              if N.leb 48 x && N.leb x 57 then Some (a * 10 + (x - 48)) else None
  end.

Lemma undec_fold l : l <> [] -> undec l = fold_left dstep l (Some 0).
Proof. destruct l; [contradiction | reflexivity]. Qed.

Lemma dstep_digit a r : r < 10 -> dstep (Some a) (n2b (48 + r)) = Some (a * 10 + r).
Proof.
  intro H. unfold dstep. cbv zeta. rewrite b2n_n2b_small by lia.
  replace (N.leb 48 (48 + r) && N.leb (48 + r) 57) with true
    by (symmetry; apply andb_true_iff; split; apply N.leb_le; lia).
  f_equal. lia.
Qed.

Lemma dec_fuel_fold fuel : forall n acc, n < 2 ^ N.of_nat fuel ->
  fold_left dstep (dec_fuel fuel n acc) (Some 0) = fold_left dstep acc (Some n).
Proof.
  induction fuel as [|f IH]; intros n acc H.
  - change (2 ^ N.of_nat 0) with 1 in H. replace n with 0 by lia. reflexivity.
  - rewrite Nat2N.inj_succ, N.pow_succ_r' in H.
    cbn [dec_fuel]. destruct (N.ltb n 10) eqn:E.
    + apply N.ltb_lt in E. cbn [fold_left]. rewrite dstep_digit by lia. do 2 f_equal. lia.
    + apply N.ltb_ge in E. rewrite IH by lia. cbn [fold_left]. rewrite dstep_digit by lia. do 2 f_equal. lia.
Qed.

Lemma dec_fuel_nonempty fuel : forall n acc, acc <> [] -> dec_fuel fuel n acc <> [].
Proof.
  induction fuel as [|f IH]; intros n acc H; cbn [dec_fuel]; [exact H|].
  destruct (N.ltb n 10); [discriminate | apply IH; discriminate].
Qed.

Lemma dec_nonempty n : dec n <> [].
Proof.
  unfold dec. cbn [dec_fuel]. destruct (N.ltb n 10); [discriminate | apply dec_fuel_nonempty; discriminate].
Qed.

(* parsing undoes printing, for every number *)
Theorem undec_dec : forall n : N, undec (dec n) = Some n.
Proof.
  intro n. rewrite undec_fold by apply dec_nonempty. unfold dec. rewrite dec_fuel_fold; [reflexivity|].
  rewrite Nat2N.inj_succ, N2Nat.id. destruct n as [|p]; [vm_compute; reflexivity|].
  apply N.log2_spec. lia.
Qed.

Corollary dec_inj : forall a b : N, dec a = dec b -> a = b.
Proof. intros a b H. pose proof (undec_dec a) as A. rewrite H, undec_dec in A. inversion A; reflexivity. Qed.

Definition is_dig (b : byte) : Prop := 48 <= b2n b <= 57.
Lemma dec_fuel_digits fuel : forall n acc, Forall is_dig acc -> Forall is_dig (dec_fuel fuel n acc).
Proof.
  induction fuel as [|f IH]; intros n acc H; cbn [dec_fuel]; [exact H|].
  assert (is_dig (n2b (48 + n mod 10))) as D by (unfold is_dig; rewrite b2n_n2b_small by lia; lia).
  destruct (N.ltb n 10); [constructor; assumption | apply IH; constructor; assumption].
Qed.
Lemma dec_digits n : Forall is_dig (dec n).
Proof. unfold dec. apply dec_fuel_digits. constructor. Qed.
Lemma notin_dec c n : b2n c < 48 \/ 57 < b2n c -> ~ In c (dec n).
Proof.
  intros H I. pose proof (dec_digits n) as F. rewrite Forall_forall in F. specialize (F c I). unfold is_dig in F. lia.
Qed.

(* ==== separator-freeness ===================================================================== *)
Lemma notin_app (c : byte) a b : ~ In c a -> ~ In c b -> ~ In c (a ++ b).
Proof. intros A B H. apply in_app_or in H. tauto. Qed.
Lemma notin_closed (c : byte) l : forallb (fun b => negb (byte_eqb b c)) l = true -> ~ In c l.
Proof.
  intros H I. rewrite forallb_forall in H. specialize (H c I). rewrite byte_eqb_refl in H. discriminate.
Qed.
Lemma notin_join (c sep : byte) ls : c <> sep -> Forall (fun l => ~ In c l) ls -> ~ In c (join [sep] ls).
Proof.
  intros N. induction ls as [|x [|y r] IH]; intro F.
  - intros [].
  - inversion F; subst. assumption.
  - inversion F as [|? ? Hx F']; subst.
    change (join [sep] (x :: y :: r)) with (x ++ sep :: join [sep] (y :: r)).
    apply notin_app; [exact Hx|]. intros [E|I]; [exact (N (eq_sym E)) | exact (IH F' I)].
Qed.

(* ==== parameters ============================================================================== *)
Lemma show_param_notin c kv : ~ In c (fst kv) -> c <> eqsign -> b2n c < 48 \/ 57 < b2n c -> ~ In c (show_param kv).
Proof.
  intros K E D. unfold show_param. apply notin_app; [exact K|]. apply notin_app.
  - intros [H|[]]. exact (E (eq_sym H)).
  - apply notin_dec. exact D.
Qed.

Lemma parse_show_param kv : ~ In eqsign (fst kv) -> parse_param (show_param kv) = Some kv.
Proof.
  intro K. destruct kv as [k n]. unfold parse_param, show_param. cbn [fst snd] in *.
  change (k ++ [eqsign] ++ dec n) with (k ++ eqsign :: dec n).
  rewrite fields_app_nosep by exact K.
  rewrite fields_nosep by (apply notin_dec; vm_compute; right; reflexivity).
  rewrite undec_dec. reflexivity.
Qed.

Lemma all_parse_show ps : Forall (fun kv => ~ In eqsign (fst kv)) ps ->
  all_some (map parse_param (map show_param ps)) = Some ps.
Proof.
  induction 1 as [|kv ps K F IH]; [reflexivity|].
  cbn [map all_some]. rewrite parse_show_param by exact K. rewrite IH. reflexivity.
Qed.

Lemma has_eq_show_join kv ps : has_eq (join [comma] (map show_param (kv :: ps))) = true.
Proof.
  assert (forall rest, has_eq (show_param kv ++ rest) = true) as A.
  { intro rest. unfold has_eq, show_param. rewrite !existsb_app. cbn [existsb]. rewrite byte_eqb_refl.
    cbn [orb]. rewrite orb_true_r. reflexivity. }
  cbn [map]. destruct (map show_param ps) as [|y r].
  - cbn [join]. rewrite <- (app_nil_r (show_param kv)). apply A.
  - change (join [comma] (show_param kv :: y :: r)) with (show_param kv ++ [comma] ++ join [comma] (y :: r)). apply A.
Qed.

(* the pieces of phc_parse_x after the split at `$` *)
Definition get_ver (rest : list bytes) : option (option N) * list bytes :=
  match rest with
  | (a :: b :: ds) :: r => if byte_eqb a x76 && byte_eqb b eqsign then (Some (undec ds), r) else (None, rest)
  | _ => (None, rest)
  end.
Definition get_params (rest1 : list bytes) : option (list (bytes * N)) * list bytes :=
  match rest1 with
  | f :: r => if has_eq f then (all_some (map parse_param (fields comma f)), r) else (Some [], rest1)
  | [] => (Some [], rest1)
  end.
Definition finish (alg : bytes) (version : option N) (ps : list (bytes * N)) (rest2 : list bytes) : option phc :=
  match rest2 with
  | [] => Some {| ph_alg := alg; ph_version := version; ph_params := ps; ph_salt := None; ph_hash := None |}
  | [salt] =>
    match b64_dec salt with
    | Some sb => Some {| ph_alg := alg; ph_version := version; ph_params := ps; ph_salt := Some sb; ph_hash := None |}
    | None => None
    end
  | [salt; hash] =>
    match b64_dec salt, b64_dec hash with
    | Some sb, Some hb => Some {| ph_alg := alg; ph_version := version; ph_params := ps; ph_salt := Some sb; ph_hash := Some hb |}
    | _, _ => None
    end
  | _ => None
  end.

Lemma phc_parse_x_fields s alg rest ver rest1 ps rest2 :
  fields dollar s = [] :: alg :: rest -> alg <> [] ->
  get_ver rest = (ver, rest1) -> ver <> Some None ->
  get_params rest1 = (Some ps, rest2) ->
  phc_parse_x s = finish alg (match ver with Some (Some v) => Some v | _ => None end) ps rest2.
Proof.
  intros F A V NV P. unfold phc_parse_x. rewrite F.
  destruct alg as [|a0 alg]; [contradiction|].
  fold (get_ver rest). rewrite V. fold (get_params rest1). rewrite P.
  destruct ver as [[v|]|]; [reflexivity | contradiction | reflexivity].
Qed.

Lemma get_params_show ps r :
  ps <> [] -> Forall (fun kv => ~ In eqsign (fst kv)) ps -> Forall (fun kv => ~ In comma (fst kv)) ps ->
  get_params (join [comma] (map show_param ps) :: r) = (Some ps, r).
Proof.
  intros NE FE FC. unfold get_params. destruct ps as [|kv ps']; [contradiction|].
  rewrite has_eq_show_join. rewrite fields_join.
  - rewrite all_parse_show by exact FE. reflexivity.
  - apply Forall_forall. intros f I. apply in_map_iff in I. destruct I as (kv' & <- & I).
    rewrite Forall_forall in FC. apply show_param_notin; [exact (FC kv' I) | vm_compute; discriminate | vm_compute; left; reflexivity].
  - discriminate.
Qed.

(* ==== the writer's records ==================================================================== *)
Definition dollar_free (l : bytes) : Prop := ~ In dollar l.

Lemma alg_name_nodollar h : ~ In dollar (alg_name h).
Proof. destruct h; apply notin_closed; vm_compute; reflexivity. Qed.

Lemma alg_params_keys h :
  alg_params h <> [] /\
  Forall (fun kv => ~ In eqsign (fst kv)) (alg_params h) /\
  Forall (fun kv => ~ In comma (fst kv)) (alg_params h) /\
  Forall (fun kv => ~ In dollar (fst kv)) (alg_params h).
Proof.
  destruct h; cbn [alg_params]; (split; [discriminate|]);
    repeat split; repeat constructor; cbn [fst]; apply notin_closed; vm_compute; reflexivity.
Qed.

Lemma params_nodollar h : ~ In dollar (join [comma] (map show_param (alg_params h))).
Proof.
  destruct (alg_params_keys h) as (_ & _ & _ & FD).
  apply notin_join; [vm_compute; discriminate|].
  apply Forall_forall. intros f I. apply in_map_iff in I. destruct I as (kv & <- & I).
  rewrite Forall_forall in FD. apply show_param_notin; [exact (FD kv I) | vm_compute; discriminate | vm_compute; left; reflexivity].
Qed.

(* what the printer writes, split at `$` *)
Lemma print_fields h salt :
  fields dollar (phc_print_x (writer_record h salt None)) =
  [] :: alg_name h ::
  (match alg_version h with Some v => [lit "v=" ++ dec v] | None => [] end)
  ++ [join [comma] (map show_param (alg_params h)); b64_enc salt].
Proof.
  pose proof (alg_name_nodollar h) as NA. pose proof (params_nodollar h) as NP.
  assert (~ In dollar (b64_enc salt)) as NS by (apply notin_b64; vm_compute; reflexivity).
  unfold phc_print_x, writer_record. cbn [ph_alg ph_version ph_params ph_salt ph_hash].
  rewrite app_nil_r.
  destruct (alg_params_keys h) as (NE & _).
  destruct (alg_params h) as [|p0 ps] eqn:EP; [contradiction|].
  destruct (alg_version h) as [v|]; cbn [app];
    set (J := join [comma] (map show_param (p0 :: ps))) in *.
  - rewrite fields_cons_sep, fields_app_nosep by exact NA.
    rewrite fields_app_nosep
      by (apply notin_app; [apply notin_closed; vm_compute; reflexivity | apply notin_dec; vm_compute; left; reflexivity]).
    rewrite fields_app_nosep by exact NP. rewrite fields_nosep by exact NS. reflexivity.
  - rewrite fields_cons_sep, fields_app_nosep by exact NA.
    rewrite fields_app_nosep by exact NP. rewrite fields_nosep by exact NS. reflexivity.
Qed.

Lemma get_ver_writer h r :
  get_ver ((match alg_version h with Some v => [lit "v=" ++ dec v] | None => [] end)
           ++ join [comma] (map show_param (alg_params h)) :: r) =
  (match alg_version h with Some v => Some (Some v) | None => None end,
   join [comma] (map show_param (alg_params h)) :: r).
Proof.
  destruct h as [rounds|t m p]; cbn [alg_version alg_params app].
  - reflexivity.
  - change (get_ver ((lit "v=" ++ dec 19) :: join [comma] (map show_param [(lit "m", dflt 19456 m); (lit "t", dflt 2 t); (lit "p", dflt 1 p)]) :: r))
      with (Some (undec (dec 19)), join [comma] (map show_param [(lit "m", dflt 19456 m); (lit "t", dflt 2 t); (lit "p", dflt 1 p)]) :: r).
    rewrite undec_dec. reflexivity.
Qed.

(* the main lemma: no side condition on the algorithm, the parameter values or the salt *)
Theorem phc_roundtrip_x : forall (h : hash_alg) (salt : bytes),
  phc_parse_x (phc_print_x (writer_record h salt None)) = Some (writer_record h salt None).
Proof.
  intros h salt. destruct (alg_params_keys h) as (NE & FE & FC & _).
  rewrite (phc_parse_x_fields _ _ _ (match alg_version h with Some v => Some (Some v) | None => None end)
             [join [comma] (map show_param (alg_params h)); b64_enc salt]
             (alg_params h) [b64_enc salt] (print_fields h salt)).
  - unfold finish. rewrite b64_dec_enc. unfold writer_record. destruct (alg_version h); reflexivity.
  - destruct h; vm_compute; discriminate.
  - apply get_ver_writer.
  - destruct (alg_version h); discriminate.
  - apply get_params_show; assumption.
Qed.

Theorem alg_supported_x_writer : forall h : hash_alg, alg_supported_x (alg_name h) = true.
Proof. destruct h; vm_compute; reflexivity. Qed.

(* printing is injective on writer records: another salt or parameter gives another PHSF *)
Corollary phc_print_x_inj : forall h h' salt salt',
  phc_print_x (writer_record h salt None) = phc_print_x (writer_record h' salt' None) ->
  writer_record h salt None = writer_record h' salt' None.
Proof.
  intros h h' s s' H. pose proof (phc_roundtrip_x h s) as A. rewrite H, phc_roundtrip_x in A.
  congruence.
Qed.

(* ==== the KdfFacts theorems with the executable codec: no codec premise remains ============== *)
Section WithCodec.
  Variable key : Type.
  Variable kdf : bytes -> option N -> list (bytes * N) -> bytes -> bytes -> key.
  Variable kdf_valid : bytes -> option N -> list (bytes * N) -> bytes -> bool.
  Variable decrypt : key -> bytes -> bytes -> res bytes.

  Notation writer_context := (writer_context key kdf kdf_valid phc_print_x).
  Notation reader_key := (reader_key key kdf kdf_valid alg_supported_x phc_parse_x).
  Notation decode := (decode key kdf kdf_valid alg_supported_x phc_parse_x decrypt).

  Theorem right_password_reads_codec m h pw tape c t' :
    writer_context m h pw tape = Ok (c, t') -> reader_key (ctx_phsf c) pw = Ok (ctx_key c).
  Proof. apply right_password_reads; [exact phc_roundtrip_x | exact alg_supported_x_writer]. Qed.

  Theorem right_password_decodes_codec enc m h pw tape c t' ct content :
    encrypted_b enc = true ->
    writer_context m h pw tape = Ok (c, t') ->
    (m = MCbc -> (16 <= length ct)%nat) ->
    decrypt (ctx_key c) (ctx_iv c) ct = Ok content ->
    decode enc m (Some (ctx_phsf c)) (Some pw) (ctx_iv c ++ ct) = Ok content.
  Proof. apply right_password_decodes; [exact phc_roundtrip_x | exact alg_supported_x_writer]. Qed.

  Theorem wrong_password_partial_codec enc m h pw pw' tape c t' ct content :
    writer_context m h pw tape = Ok (c, t') ->
    (let salt := firstn SALT_LEN tape in
     kdf (alg_name h) (alg_version h) (alg_params h) salt pw' <> kdf (alg_name h) (alg_version h) (alg_params h) salt pw) ->
    (forall k', k' <> ctx_key c -> decrypt k' (ctx_iv c) ct <> Ok content) ->
    encrypted_b enc = true ->
    decode enc m (Some (ctx_phsf c)) (Some pw') (ctx_iv c ++ ct) <> Ok content.
  Proof. apply wrong_password_partial; [exact phc_roundtrip_x | exact alg_supported_x_writer]. Qed.

  (* the PHSF of a context parses to exactly the writer's record: algorithm, version, parameters,
     the salt drawn from the tape, and NO hash *)
  Theorem phsf_parses_to_record_codec m h pw tape c t' :
    writer_context m h pw tape = Ok (c, t') ->
    phc_parse_x (ctx_phsf c) = Some (writer_record h (firstn SALT_LEN tape) None).
  Proof.
    intro W. destruct (writer_context_inv _ _ _ _ _ _ _ _ _ _ W) as (_ & _ & P & _).
    rewrite P. apply phc_roundtrip_x.
  Qed.

  Theorem phsf_has_no_hash_codec m h pw tape c t' :
    writer_context m h pw tape = Ok (c, t') ->
    exists p, phc_parse_x (ctx_phsf c) = Some p /\ ph_hash p = None.
  Proof. apply phsf_has_no_hash. exact phc_roundtrip_x. Qed.
End WithCodec.

(* ... and with the whole executable plumbing (the term KDF, the crates' parameter rules) *)
Theorem right_password_reads_x : forall m h pw tape c t',
  writer_context_x m h pw tape = Ok (c, t') -> reader_key_x (ctx_phsf c) pw = Ok (ctx_key c).
Proof. exact (right_password_reads_codec bytes kdf_x kdf_valid_x). Qed.

Theorem right_password_decodes_x : forall (decrypt : bytes -> bytes -> bytes -> res bytes) enc m h pw tape c t' ct content,
  encrypted_b enc = true ->
  writer_context_x m h pw tape = Ok (c, t') ->
  (m = MCbc -> (16 <= length ct)%nat) ->
  decrypt (ctx_key c) (ctx_iv c) ct = Ok content ->
  decode bytes kdf_x kdf_valid_x alg_supported_x phc_parse_x decrypt enc m (Some (ctx_phsf c)) (Some pw) (ctx_iv c ++ ct) = Ok content.
Proof. exact (right_password_decodes_codec bytes kdf_x kdf_valid_x). Qed.

Theorem phsf_parses_to_record_x : forall m h pw tape c t',
  writer_context_x m h pw tape = Ok (c, t') ->
  phc_parse_x (ctx_phsf c) = Some (writer_record h (firstn SALT_LEN tape) None).
Proof. exact (phsf_parses_to_record_codec bytes kdf_x kdf_valid_x). Qed.

Theorem phsf_has_no_hash_x : forall m h pw tape c t',
  writer_context_x m h pw tape = Ok (c, t') ->
  exists p, phc_parse_x (ctx_phsf c) = Some p /\ ph_hash p = None.
Proof. exact (phsf_has_no_hash_codec bytes kdf_x kdf_valid_x). Qed.

(* every context of a whole write (one per entry / one per solid stream) reads back under the password *)
Theorem write_all_reads_x : forall k enc m h pw n tape cs t',
  write_all_x k enc m h pw n tape = Ok (cs, t') ->
  Forall (fun c => reader_key_x (ctx_phsf c) pw = Ok (ctx_key c) /\
                   exists p, phc_parse_x (ctx_phsf c) = Some p /\ ph_hash p = None) cs.
Proof.
  intros k enc m h pw n tape cs t'. unfold write_all_x, write_all.
  assert (forall n tape cs t', contexts_n bytes kdf_x kdf_valid_x phc_print_x n m h pw tape = Ok (cs, t') ->
          Forall (fun c => reader_key_x (ctx_phsf c) pw = Ok (ctx_key c) /\
                           exists p, phc_parse_x (ctx_phsf c) = Some p /\ ph_hash p = None) cs) as G.
  { clear. induction n as [|n IH]; intros tape cs t'; cbn [contexts_n].
    - intro H; inversion H; constructor.
    - destruct (writer_context bytes kdf_x kdf_valid_x phc_print_x m h pw tape) as [[c t]| |] eqn:W; cbn [bind]; try discriminate.
      destruct (contexts_n bytes kdf_x kdf_valid_x phc_print_x n m h pw t) as [[cs' t'']| |] eqn:R; cbn [bind]; try discriminate.
      intro H; inversion H; subst. constructor; [|exact (IH _ _ _ R)].
      split; [exact (right_password_reads_x _ _ _ _ _ _ W) | exact (phsf_has_no_hash_x _ _ _ _ _ _ W)]. }
  destruct enc; [intro H; inversion H; constructor | apply G | apply G].
Qed.

(* ==== the premises are met: concrete 16-byte salt, both algorithms, default and explicit parameters ==== *)
Definition ex_salt : bytes := map (fun n => n2b (N.of_nat n)) (seq 1 16).
Example ex_print_argon2 :
  phc_print_x (writer_record (Argon2Id None None None) ex_salt None) = lit "$argon2id$v=19$m=19456,t=2,p=1$AQIDBAUGBwgJCgsMDQ4PEA"
  /\ phc_parse_x (lit "$argon2id$v=19$m=19456,t=2,p=1$AQIDBAUGBwgJCgsMDQ4PEA") = Some (writer_record (Argon2Id None None None) ex_salt None).
Proof. split; vm_compute; reflexivity. Qed.
Example ex_print_pbkdf2 :
  phc_print_x (writer_record (Pbkdf2Sha256 (Some 4294967295)) ex_salt None) = lit "$pbkdf2-sha256$i=4294967295,l=32$AQIDBAUGBwgJCgsMDQ4PEA"
  /\ phc_parse_x (lit "$pbkdf2-sha256$i=4294967295,l=32$AQIDBAUGBwgJCgsMDQ4PEA") = Some (writer_record (Pbkdf2Sha256 (Some 4294967295)) ex_salt None).
Proof. split; vm_compute; reflexivity. Qed.
(* the hypothesis of the `_x` theorems is satisfiable: writer_context_x succeeds for both algorithms *)
Example ex_contexts_exist :
  (exists c t', writer_context_x MCtr (Argon2Id None None None) (lit "pw") ex_tape = Ok (c, t')
                /\ ctx_phsf c = lit "$argon2id$v=19$m=19456,t=2,p=1$AQIDBAUGBwgJCgsMDQ4PEA"
                /\ reader_key_x (ctx_phsf c) (lit "pw") = Ok (ctx_key c)) /\
  (exists c t', writer_context_x MCbc (Pbkdf2Sha256 None) (lit "pw") ex_tape = Ok (c, t')
                /\ ctx_phsf c = lit "$pbkdf2-sha256$i=600000,l=32$AQIDBAUGBwgJCgsMDQ4PEA"
                /\ reader_key_x (ctx_phsf c) (lit "pw") = Ok (ctx_key c)).
Proof.
  split.
  - destruct (writer_context_x MCtr (Argon2Id None None None) (lit "pw") ex_tape) as [[c t]| |] eqn:W;
      [|vm_compute in W; discriminate..].
    exists c, t. split; [reflexivity|]. split; [|exact (right_password_reads_x _ _ _ _ _ _ W)].
    vm_compute in W. inversion W. reflexivity.
  - destruct (writer_context_x MCbc (Pbkdf2Sha256 None) (lit "pw") ex_tape) as [[c t]| |] eqn:W;
      [|vm_compute in W; discriminate..].
    exists c, t. split; [reflexivity|]. split; [|exact (right_password_reads_x _ _ _ _ _ _ W)].
    vm_compute in W. inversion W. reflexivity.
Qed.
