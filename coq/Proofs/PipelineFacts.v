(* PipelineFacts.v — C01: what is written through the library's pipelines is read back:
   contents byte for byte, metadata equal, for every configuration, every slicing of the caller's
   writes and every sequence of read buffer sizes.  Composes the stream layer (FlattenFacts,
   CbcFacts, CtrFacts) with the entry/archive layer (EntryFacts, ArchiveFacts). *)
From PNA Require Import Base Crc32 Name Codec Chunk Archive Entry Flatten Cbc Ctr Pipeline
  BaseFacts NameFacts CodecFacts Crc32Facts ChunkFacts ArchiveFacts PiecesFacts EntryFacts
  FlattenFacts CbcFacts CtrFacts StreamFacts.
Require Import ZArith ZifyN ZifyNat ZifyBool.
Open Scope N_scope.

(* ---- glue with the stream layer ---------------------------------------------------------------- *)
(* the read sequences of Pipeline.v are the fixpoints the stream facts are stated for *)
Lemma cbcr_reads_eq D : forall ns st, cbcr_reads D st ns = cbcr_read_seq D st ns.
Proof. intros ns st. reflexivity. Qed.
Lemma ctrr_reads_eq E : forall ns st, ctrr_reads E st ns = ctrr_read_seq E st ns.
Proof. intros ns st. reflexivity. Qed.

Lemma ne_nonempty p : ne p = nonempty p.
Proof. reflexivity. Qed.
Lemma filter_ne_nonempty l : filter ne l = filter nonempty l.
Proof. reflexivity. Qed.

Lemma concat_filter_ne ps : concat (filter ne ps) = concat ps.
Proof.
  induction ps as [|p ps IH]; [reflexivity|]. destruct p; cbn [filter ne concat app]; [exact IH|]. rewrite IH. reflexivity.
Qed.

(* ---- the two sinks, for every bound and every write length -------------------------------------------------- *)
(* slice::chunks(n) with a unary bound (Flatten.chunks) is Chunk.pieces with the bound in N *)
Lemma splitN_firstn {A} : forall (l : list A) n, splitN (N.of_nat n) l = (firstn n l, skipn n l).
Proof.
  induction l as [|x r IH]; intros n; [destruct n; reflexivity|]. cbn [splitN].
  destruct n as [|n]; [reflexivity|]. replace (N.of_nat (S n) =? 0) with false by (symmetry; apply N.eqb_neq; lia).
  replace (N.pred (N.of_nat (S n))) with (N.of_nat n) by lia. rewrite IH. reflexivity.
Qed.
Lemma chunks_pieces {A} (n : nat) (l : list A) : chunks n l = pieces (N.of_nat n) l.
Proof.
  unfold chunks, pieces. generalize (length l) as fuel. intros fuel. revert l.
  induction fuel as [|f IH]; intros l; [reflexivity|]. cbn [chunks_fuel pieces_fuel].
  destruct l as [|x r]; [reflexivity|]. rewrite splitN_firstn. f_equal. apply IH.
Qed.
(* the model of the FlattenWriter sink is Flatten.flatten_write, for every write *)
Lemma flat_sink_faithful (n : nat) ps : concat (map (chunks n) ps) = flat_sink_at (N.of_nat n) ps.
Proof.
  unfold flat_sink_at. induction ps as [|p ps IH]; [reflexivity|]. cbn [map concat flat_map]. rewrite IH, chunks_pieces. reflexivity.
Qed.
Lemma flat_sink_at_cut cmax ps : flat_sink_at cmax ps = cutN cmax ps.
Proof. reflexivity. Qed.
Lemma flat_sink_at_concat cmax ps : 0 < cmax -> concat (flat_sink_at cmax ps) = concat ps.
Proof. apply cutN_concat. Qed.
Lemma flat_sink_at_bounded cmax ps : 0 < cmax -> Forall (fun p => p <> [] /\ len p <= cmax) (flat_sink_at cmax ps).
Proof. apply cutN_bounded. Qed.
Lemma flat_sink_concat ps : concat (flat_sink ps) = concat ps.
Proof. apply flat_sink_at_concat, CMAX_pos. Qed.
Lemma flat_sink_bounded ps : Forall (fun p => ne p = true /\ len p < 2 ^ 32) (flat_sink ps).
Proof.
  eapply Forall_impl; [|exact (flat_sink_at_bounded CMAX ps CMAX_pos)]. intros p (Np & Lp).
  split; [destruct p; [contradiction|reflexivity]|apply CMAX_lt; exact Lp].
Qed.
Lemma flat_sink_nonempty ps : Forall (fun x => ne x = true) (flat_sink ps).
Proof. eapply Forall_impl; [|exact (flat_sink_bounded ps)]. intros p (H & _). exact H. Qed.
(* writes of less than 2^32 bytes: only the empty ones go (the sink of before the generalisation) *)
Lemma flat_sink_small ps : Forall (fun p => len p < 2 ^ 32) ps -> flat_sink ps = filter ne ps.
Proof.
  intros H. unfold flat_sink. rewrite flat_sink_at_cut, cutN_small; [reflexivity|].
  eapply Forall_impl; [|exact H]. intros p. apply CMAX_lt.
Qed.
Lemma flat_sink_sum_len ps : sum_len (flat_sink ps) = sum_len ps.
Proof. rewrite !sum_len_concat, flat_sink_concat. reflexivity. Qed.

(* ChunkStreamWriter::write (45407aa2) *)
Lemma sink_write_nil cmax : sink_write cmax [] = [[]].
Proof. reflexivity. Qed.
Lemma sink_write_small cmax p : len p <= cmax -> sink_write cmax p = [p].
Proof. intros H. destruct p as [|b p]; [reflexivity|]. cbn [sink_write]. apply pieces_small; [discriminate|exact H]. Qed.
Lemma sink_write_concat cmax p : 0 < cmax -> concat (sink_write cmax p) = p.
Proof. intros K. destruct p as [|b p]; [reflexivity|]. cbn [sink_write]. apply pieces_concat. exact K. Qed.
Lemma sink_write_bounded cmax p : 0 < cmax -> Forall (fun q => len q <= cmax) (sink_write cmax p).
Proof.
  intros K. destruct p as [|b p]; [constructor; [unfold len; cbn; lia|constructor]|]. cbn [sink_write].
  eapply Forall_impl; [|exact (pieces_bounded cmax (b :: p) K)]. intros q (_ & H). exact H.
Qed.
Lemma sink_write_nonnil cmax p : 0 < cmax -> sink_write cmax p <> [].
Proof. intros K. destruct p as [|b p]; [discriminate|]. cbn [sink_write]. apply pieces_nonnil; [exact K|discriminate]. Qed.
(* every chunk the sink emits has a payload of at most cmax bytes *)
Theorem chunk_sink_at_bounded cmax ps : 0 < cmax -> Forall (fun q => len q <= cmax) (chunk_sink_at cmax ps).
Proof.
  intros K. unfold chunk_sink_at. induction ps as [|p ps IH]; [constructor|]. cbn [flat_map].
  apply Forall_app. split; [apply sink_write_bounded; exact K|exact IH].
Qed.
(* the chunks' payloads, concatenated, are the writes, concatenated *)
Theorem chunk_sink_at_concat cmax ps : 0 < cmax -> concat (chunk_sink_at cmax ps) = concat ps.
Proof.
  intros K. unfold chunk_sink_at. induction ps as [|p ps IH]; [reflexivity|]. cbn [flat_map concat].
  rewrite concat_app, IH, sink_write_concat by exact K. reflexivity.
Qed.
(* writes of at most cmax bytes — the empty write included — are one chunk each, as before the fix *)
Theorem chunk_sink_at_small cmax ps : Forall (fun p => len p <= cmax) ps -> chunk_sink_at cmax ps = ps.
Proof.
  unfold chunk_sink_at. induction 1 as [|p ps Hp _ IH]; [reflexivity|]. cbn [flat_map].
  rewrite sink_write_small, IH by exact Hp. reflexivity.
Qed.
Lemma chunk_sink_at_app cmax a b : chunk_sink_at cmax (a ++ b) = chunk_sink_at cmax a ++ chunk_sink_at cmax b.
Proof. unfold chunk_sink_at. apply flat_map_app. Qed.
(* no write is lost: at least one chunk per write *)
Lemma chunk_sink_at_length cmax ps : 0 < cmax -> (length ps <= length (chunk_sink_at cmax ps))%nat.
Proof.
  intros K. unfold chunk_sink_at. induction ps as [|p ps IH]; [cbn; lia|]. cbn [flat_map length]. rewrite app_length.
  pose proof (sink_write_nonnil cmax p K). destruct (sink_write cmax p); [contradiction|cbn [length]; lia].
Qed.
Lemma chunk_sink_bounded ps : Forall (fun q => len q < 2 ^ 32) (chunk_sink ps).
Proof. eapply Forall_impl; [|exact (chunk_sink_at_bounded CMAX ps CMAX_pos)]. intros q. apply CMAX_lt. Qed.
Lemma chunk_sink_concat ps : concat (chunk_sink ps) = concat ps.
Proof. apply chunk_sink_at_concat, CMAX_pos. Qed.
Lemma chunk_sink_small ps : Forall (fun p => len p < 2 ^ 32) ps -> chunk_sink ps = ps.
Proof. intros H. apply chunk_sink_at_small. eapply Forall_impl; [|exact H]. intros p. apply CMAX_lt. Qed.
Lemma chunk_sink_sum_len ps : sum_len (chunk_sink ps) = sum_len ps.
Proof. rewrite !sum_len_concat, chunk_sink_concat. reflexivity. Qed.
(* the sink before 45407aa2 with a bound of 3 bytes: the write 1 2 3 4 5 is one chunk of 5 bytes; the repaired sink
   makes 1 2 3 | 4 5 of it *)
Lemma chunk_sink_unrepaired :
  exists ps, ~ Forall (fun q => len q <= 3) (chunk_sink_orig ps) /\
             chunk_sink_at 3 ps = [[x01; x02; x03]; [x04; x05]] /\ concat (chunk_sink_at 3 ps) = concat ps.
Proof.
  exists [[x01; x02; x03; x04; x05]]. split; [|split; vm_compute; reflexivity].
  intro H. inversion H as [|? ? H1 _]; subst. vm_compute in H1. apply H1. reflexivity.
Qed.

(* positive buffer sizes, more reads than bytes: some read returns nothing *)
Lemma flat_reads_reach_end : forall ns s, Forall (fun n => 0 < n) ns -> len (concat s) < len ns ->
  In [] (flat_reads s ns).
Proof.
  induction ns as [|n r IH]; intros s Hp Hl; [unfold len in Hl; cbn [length] in Hl; lia|].
  inversion Hp as [|? ? Hn Hr]; subst. cbn [flat_reads].
  destruct (flat_read s n) as [s' out] eqn:Er. destruct (flat_read_spec _ _ _ _ Er) as (A & _ & _).
  destruct out as [|b out]; [left; reflexivity|]. right. apply IH; [exact Hr|].
  rewrite A, len_app, !len_cons in Hl. lia.
Qed.

Lemma deliver_reach_end : forall ns pt, Forall (fun n => 0 < n) ns -> len pt < len ns -> In [] (deliver pt ns).
Proof.
  induction ns as [|n r IH]; intros pt Hp Hl; [unfold len in Hl; cbn [length] in Hl; lia|].
  inversion Hp as [|? ? Hn Hr]; subst. cbn [deliver].
  destruct (ftake n pt) as [|b out] eqn:Et; [left; reflexivity|]. right. apply IH; [exact Hr|].
  assert (Hlt : len (ftake n pt) = N.min n (len pt)) by apply len_ftake.
  rewrite Et, len_cons in Hlt. rewrite len_fdrop, len_cons in *. lia.
Qed.

Lemma in_nil_lengths {A} (l1 l2 : list (list A)) : map (@length A) l1 = map (@length A) l2 -> In [] l2 -> In [] l1.
Proof. intros H. apply in_nil_map_length. symmetry. exact H. Qed.

Lemma read_block_iv (iv : bytes) (pieces : list bytes) : length iv = 16%nat ->
  exists src, read_block (iv :: pieces) = (src, iv) /\ concat src = concat pieces.
Proof.
  intros L. destruct (read_block (iv :: pieces)) as [src blk] eqn:Er.
  destruct (read_block_spec _ _ _ Er) as [A B]. cbn [concat] in A, B.
  exists src. rewrite A, B. rewrite firstn_app, <- L, Nat.sub_diag, firstn_all. cbn [firstn]. rewrite app_nil_r.
  rewrite skipn_app, Nat.sub_diag, skipn_all. split; reflexivity.
Qed.

(* ---- how chunks reach a pipeline: write_chunk_in, call by call ------------------------------------- *)
Lemma chunk_writes_concat c : concat (chunk_writes c) = ser_chunk c.
Proof.
  unfold chunk_writes, ser_chunk. destruct (cdata c) as [|b d]; cbn [concat app]; rewrite ?app_nil_r; reflexivity.
Qed.
Lemma chunks_writes_concat cs : concat (chunks_writes cs) = ser_chunks cs.
Proof.
  unfold chunks_writes, ser_chunks. induction cs as [|c cs IH]; [reflexivity|].
  cbn [map concat]. rewrite concat_app, chunk_writes_concat, IH. reflexivity.
Qed.
(* the writes SolidEntryBuilder::add_entry / SolidArchive::add_entry make carry exactly the inner entries' bytes *)
Lemma solid_writes_concat inner : concat (solid_writes inner) = solid_plain_stream inner.
Proof. unfold solid_writes, solid_plain_stream. apply chunks_writes_concat. Qed.

(* ================================================================================================= *)
Section PipelineFacts.
Variables E D : encryption -> bytes -> bytes -> bytes.
Variable compress : compression -> N -> list bytes -> list bytes.
Variable decompress : compression -> bytes -> res bytes.
Variable verify : bytes -> bytes -> res bytes.

(* laws of the primitives (premises of every theorem once the section is closed) *)
Hypothesis D_len : forall a k c, len16 c -> len16 (D a k c).
Hypothesis DE : forall a k b, len16 b -> D a k (E a k b) = b.
Hypothesis E_len : forall a k b, len16 b -> len16 (E a k b).
(* decompressing everything the compressor emitted gives back what was written, for every slicing *)
Hypothesis compress_law : forall c lvl ws, decompress c (concat (compress c lvl ws)) = Ok (concat ws).

Notation zwrite := (zwrite compress).
Notation cwrite := (cwrite E).
Notation data_pieces := (data_pieces E compress).
Notation build_data := (build_data E compress).
Notation build_normal := (build_normal E compress).
Notation decode_stream := (decode_stream E D decompress verify).
Notation decode_normal := (decode_normal E D decompress verify).

(* the cipher context the writer uses and the password the reader is given fit together *)
Definition wf_ctx (ctx : cctx) (pw : bytes) : Prop :=
  key_iv_ok (c_key ctx) (c_iv ctx) = true /\ verify (c_phsf ctx) pw = Ok (c_key ctx) /\
  utf8_valid (c_phsf ctx) = true.

(* the (compressed) stream that goes into the cipher *)
Definition plain (cfg : config) (wcuts : list bytes) : bytes := concat (zwrite (g_comp cfg) (g_level cfg) wcuts).
(* the reader issues more reads than that stream has bytes: with positive buffers it sees the end *)
Definition covers (cfg : config) (wcuts : list bytes) (rbufs : list N) : Prop := len (plain cfg wcuts) < len rbufs.

Lemma zwrite_law c lvl ws :
  (match c with CNo => Ok (concat (zwrite c lvl ws)) | c' => decompress c' (concat (zwrite c lvl ws)) end) = Ok (concat ws).
Proof. destruct c; cbn [Pipeline.zwrite]; try apply compress_law. reflexivity. Qed.

Lemma decode_stream_comp c e m p pw d r :
  decode_stream c e m p pw d r =
  (do got <- decode_stream CNo e m p pw d r; match c with CNo => Ok got | c' => decompress c' got end).
Proof.
  unfold Pipeline.decode_stream.
  match goal with |- bind ?X _ = _ => destruct X; reflexivity end.
Qed.

Lemma iv_len ctx pw : wf_ctx ctx pw -> length (c_iv ctx) = 16%nat.
Proof.
  intros (H & _). unfold key_iv_ok in H. apply andb_prop in H. destruct H as [_ H]. apply N.eqb_eq in H.
  unfold len in H. lia.
Qed.

(* the cipher layer: whatever went into the cipher writer comes out of the cipher reader, for any cut
   of the ciphertext into data chunks and any buffer sizes *)
Lemma cipher_roundtrip cfg ctx pw ws (pieces : list bytes) rbufs : wf_ctx ctx pw ->
  concat pieces = concat (cwrite cfg ctx ws) ->
  Forall (fun n => 0 < n) rbufs -> len (concat ws) < len rbufs ->
  decode_stream CNo (g_enc cfg) (g_mode cfg) (phsf_part cfg ctx) pw (iv_part cfg ctx ++ pieces) rbufs = Ok (concat ws).
Proof.
  intros Hctx Hp Hpos Hcov. pose proof (iv_len _ _ Hctx) as Liv. destruct Hctx as (Hok & Hv & _).
  unfold Pipeline.decode_stream, Pipeline.cwrite, phsf_part, iv_part, encrypted in *.
  destruct (g_enc cfg) eqn:Ee.
  - (* no encryption *)
    cbn [app bind]. rewrite flat_reads_complete; [rewrite Hp; reflexivity|exact Hpos|].
    apply flat_reads_reach_end; [exact Hpos|]. rewrite Hp. exact Hcov.
  - cbn [app]. rewrite Hv. cbn [bind].
    destruct (read_block_iv (c_iv ctx) pieces Liv) as (src & Hrb & Hsrc). rewrite Hrb.
    replace (len (c_iv ctx) =? 16) with true by (symmetry; apply N.eqb_eq; unfold len; lia). cbn [negb].
    destruct (g_mode cfg).
    + destruct (cbcw_writes (E EAes) _ ws) as [s' calls] eqn:Ew.
      destruct (cbc_roundtrip (E EAes) (D EAes) (D_len EAes) (DE EAes) (E_len EAes)
                  (c_key ctx) (c_iv ctx) ws {| w_key := c_key ctx; w_prev := c_iv ctx; w_buf := [] |} s' calls src rbufs) as (st & Hn & Hr);
        [unfold cbcw_new; rewrite Hok; reflexivity | exact Ew | rewrite Hsrc, Hp, concat_app; reflexivity|].
      rewrite Hn. cbn [bind]. rewrite cbcr_reads_eq, Hr. cbn [bind].
      rewrite deliver_complete; [reflexivity|exact Hpos|]. apply deliver_reach_end; assumption.
    + destruct (ctrw_writes (E EAes) _ ws) as [s' calls] eqn:Ew.
      destruct (ctr_roundtrip (E EAes) (c_key ctx) (c_iv ctx) ws {| cw_key := c_key ctx; cw_iv := of_be (c_iv ctx); cw_pos := 0 |} s' calls src rbufs) as (st & Hn & _ & _ & Hc);
        [unfold ctrw_new; rewrite Hok; reflexivity | exact Ew | rewrite Hsrc, Hp; reflexivity|].
      rewrite Hn. cbn [bind]. rewrite ctrr_reads_eq, Hc; [reflexivity|exact Hpos|].
      destruct (ctrr_seq_spec (E EAes) rbufs st) as [_ B]. apply (in_nil_lengths _ _ B).
      apply flat_reads_reach_end; [exact Hpos|].
      unfold ctrr_new in Hn. rewrite Hok in Hn. injection Hn as <-. cbn [cr_src].
      rewrite Hsrc, Hp. destruct (ctrw_writes_spec _ _ _ _ _ Ew) as (Hx & _). rewrite Hx, ctr_xor_len. exact Hcov.
  - cbn [app]. rewrite Hv. cbn [bind].
    destruct (read_block_iv (c_iv ctx) pieces Liv) as (src & Hrb & Hsrc). rewrite Hrb.
    replace (len (c_iv ctx) =? 16) with true by (symmetry; apply N.eqb_eq; unfold len; lia). cbn [negb].
    destruct (g_mode cfg).
    + destruct (cbcw_writes (E ECamellia) _ ws) as [s' calls] eqn:Ew.
      destruct (cbc_roundtrip (E ECamellia) (D ECamellia) (D_len ECamellia) (DE ECamellia) (E_len ECamellia)
                  (c_key ctx) (c_iv ctx) ws {| w_key := c_key ctx; w_prev := c_iv ctx; w_buf := [] |} s' calls src rbufs) as (st & Hn & Hr);
        [unfold cbcw_new; rewrite Hok; reflexivity | exact Ew | rewrite Hsrc, Hp, concat_app; reflexivity|].
      rewrite Hn. cbn [bind]. rewrite cbcr_reads_eq, Hr. cbn [bind].
      rewrite deliver_complete; [reflexivity|exact Hpos|]. apply deliver_reach_end; assumption.
    + destruct (ctrw_writes (E ECamellia) _ ws) as [s' calls] eqn:Ew.
      destruct (ctr_roundtrip (E ECamellia) (c_key ctx) (c_iv ctx) ws {| cw_key := c_key ctx; cw_iv := of_be (c_iv ctx); cw_pos := 0 |} s' calls src rbufs) as (st & Hn & _ & _ & Hc);
        [unfold ctrw_new; rewrite Hok; reflexivity | exact Ew | rewrite Hsrc, Hp; reflexivity|].
      rewrite Hn. cbn [bind]. rewrite ctrr_reads_eq, Hc; [reflexivity|exact Hpos|].
      destruct (ctrr_seq_spec (E ECamellia) rbufs st) as [_ B]. apply (in_nil_lengths _ _ B).
      apply flat_reads_reach_end; [exact Hpos|].
      unfold ctrr_new in Hn. rewrite Hok in Hn. injection Hn as <-. cbn [cr_src].
      rewrite Hsrc, Hp. destruct (ctrw_writes_spec _ _ _ _ _ Ew) as (Hx & _). rewrite Hx, ctr_xor_len. exact Hcov.
Qed.

(* compress -> encrypt -> any sink that keeps the bytes; decrypt -> decompress *)
Lemma stream_roundtrip cfg ctx pw wcuts (pieces : list bytes) rbufs : wf_ctx ctx pw ->
  concat pieces = concat (data_pieces cfg ctx wcuts) ->
  Forall (fun n => 0 < n) rbufs -> covers cfg wcuts rbufs ->
  decode_stream (g_comp cfg) (g_enc cfg) (g_mode cfg) (phsf_part cfg ctx) pw (iv_part cfg ctx ++ pieces) rbufs
  = Ok (concat wcuts).
Proof.
  intros Hctx Hp Hpos Hcov. rewrite decode_stream_comp.
  rewrite (cipher_roundtrip cfg ctx pw (zwrite (g_comp cfg) (g_level cfg) wcuts)) by assumption.
  cbn [bind]. apply zwrite_law.
Qed.

(* ================================================================================================= *)
(* 1. contents                                                                                         *)
(* ================================================================================================= *)
(* `eff_wcuts`: what a directory builder is given is dropped (EntryBuilder::write without a data writer), so
   the content of a directory entry is empty; for the other kinds eff_wcuts is the identity *)
Theorem entry_roundtrip cfg ctx pw sp wcuts rbufs :
  wf_ctx ctx pw -> concat (eff_wcuts (sp_kind sp) wcuts) = sp_content sp ->
  Forall (fun n => 0 < n) rbufs -> covers (eff_cfg cfg (sp_kind sp)) (eff_wcuts (sp_kind sp) wcuts) rbufs ->
  decode_normal (build_normal cfg ctx sp wcuts) pw rbufs = Ok (sp_content sp).
Proof.
  intros Hctx Hc Hpos Hcov. unfold Pipeline.decode_normal, Pipeline.build_normal. cbv zeta.
  cbn [n_hdr n_phsf n_data f_comp f_enc f_mode]. unfold Pipeline.build_data.
  rewrite (stream_roundtrip _ ctx pw (eff_wcuts (sp_kind sp) wcuts)); try assumption; [rewrite Hc; reflexivity|].
  apply flat_sink_concat.
Qed.

Lemma eff_wcuts_file sp wcuts : sp_kind sp = KFile -> eff_wcuts (sp_kind sp) wcuts = wcuts.
Proof. intros ->. reflexivity. Qed.

(* ---- independence of the caller's slicing ------------------------------------------------------------ *)
(* the compressed byte string depends on what was written, not on how the writes were sliced *)
Hypothesis compress_det : forall c lvl ws ws', concat ws = concat ws' ->
  concat (compress c lvl ws) = concat (compress c lvl ws').

Lemma zwrite_concat c lvl ws ws' : concat ws = concat ws' -> concat (zwrite c lvl ws) = concat (zwrite c lvl ws').
Proof. intros H. destruct c; cbn [Pipeline.zwrite]; try apply compress_det; exact H. Qed.

Lemma cwrite_concat cfg ctx ws ws' : key_iv_ok (c_key ctx) (c_iv ctx) = true -> concat ws = concat ws' ->
  concat (cwrite cfg ctx ws) = concat (cwrite cfg ctx ws').
Proof.
  intros Hok H. unfold Pipeline.cwrite.
  assert (Hnew : cbcw_new (c_key ctx) (c_iv ctx) = Ok {| w_key := c_key ctx; w_prev := c_iv ctx; w_buf := [] |})
    by (unfold cbcw_new; rewrite Hok; reflexivity).
  destruct (g_enc cfg); [exact H| |]; destruct (g_mode cfg).
  - destruct (cbcw_writes (E EAes) _ ws) as [s1 c1] eqn:E1. destruct (cbcw_writes (E EAes) _ ws') as [s2 c2] eqn:E2.
    destruct (cbcw_spec (E EAes) _ _ _ _ _ _ Hnew E1) as (A1 & _). destruct (cbcw_spec (E EAes) _ _ _ _ _ _ Hnew E2) as (A2 & _).
    rewrite !concat_app, A1, A2, H. reflexivity.
  - destruct (ctrw_writes (E EAes) _ ws) as [s1 c1] eqn:E1. destruct (ctrw_writes (E EAes) _ ws') as [s2 c2] eqn:E2.
    destruct (ctrw_writes_spec _ _ _ _ _ E1) as (A1 & _). destruct (ctrw_writes_spec _ _ _ _ _ E2) as (A2 & _).
    rewrite A1, A2, H. reflexivity.
  - destruct (cbcw_writes (E ECamellia) _ ws) as [s1 c1] eqn:E1. destruct (cbcw_writes (E ECamellia) _ ws') as [s2 c2] eqn:E2.
    destruct (cbcw_spec (E ECamellia) _ _ _ _ _ _ Hnew E1) as (A1 & _). destruct (cbcw_spec (E ECamellia) _ _ _ _ _ _ Hnew E2) as (A2 & _).
    rewrite !concat_app, A1, A2, H. reflexivity.
  - destruct (ctrw_writes (E ECamellia) _ ws) as [s1 c1] eqn:E1. destruct (ctrw_writes (E ECamellia) _ ws') as [s2 c2] eqn:E2.
    destruct (ctrw_writes_spec _ _ _ _ _ E1) as (A1 & _). destruct (ctrw_writes_spec _ _ _ _ _ E2) as (A2 & _).
    rewrite A1, A2, H. reflexivity.
Qed.

Lemma data_pieces_concat cfg ctx w1 w2 : key_iv_ok (c_key ctx) (c_iv ctx) = true -> concat w1 = concat w2 ->
  concat (data_pieces cfg ctx w1) = concat (data_pieces cfg ctx w2).
Proof. intros Hok H. unfold Pipeline.data_pieces. apply cwrite_concat; [exact Hok|]. apply zwrite_concat. exact H. Qed.

Lemma build_data_concat cfg ctx w1 w2 : key_iv_ok (c_key ctx) (c_iv ctx) = true -> concat w1 = concat w2 ->
  concat (build_data cfg ctx w1) = concat (build_data cfg ctx w2).
Proof.
  intros Hok H. unfold Pipeline.build_data. rewrite !concat_app, !flat_sink_concat.
  rewrite (data_pieces_concat cfg ctx w1 w2) by assumption. reflexivity.
Qed.

Lemma sum_len_concat (l : list bytes) : fold_left N.add (map len l) 0 = len (concat l).
Proof. exact (EntryFacts.sum_len_concat l). Qed.

(* two slicings of the same content, two sequences of buffer sizes: the same decoded bytes, and the built
   entries are equal except for where n_data is cut *)
Theorem entry_roundtrip_indep_of_slicing cfg ctx pw sp w1 w2 r1 r2 :
  wf_ctx ctx pw -> concat (eff_wcuts (sp_kind sp) w1) = sp_content sp -> concat (eff_wcuts (sp_kind sp) w2) = sp_content sp ->
  Forall (fun n => 0 < n) r1 -> Forall (fun n => 0 < n) r2 ->
  covers (eff_cfg cfg (sp_kind sp)) (eff_wcuts (sp_kind sp) w1) r1 -> covers (eff_cfg cfg (sp_kind sp)) (eff_wcuts (sp_kind sp) w2) r2 ->
  let e1 := build_normal cfg ctx sp w1 in let e2 := build_normal cfg ctx sp w2 in
  decode_normal e1 pw r1 = decode_normal e2 pw r2 /\
  n_hdr e1 = n_hdr e2 /\ n_phsf e1 = n_phsf e2 /\ n_extra e1 = n_extra e2 /\ n_meta e1 = n_meta e2 /\
  n_xattrs e1 = n_xattrs e2 /\ concat (n_data e1) = concat (n_data e2).
Proof.
  intros Hctx H1 H2 P1 P2 C1 C2 e1 e2. subst e1 e2.
  rewrite !entry_roundtrip by assumption.
  assert (Hd : concat (n_data (build_normal cfg ctx sp w1)) = concat (n_data (build_normal cfg ctx sp w2))).
  { unfold Pipeline.build_normal. cbv zeta. cbn [n_data]. apply build_data_concat; [apply Hctx|congruence]. }
  repeat split; try exact Hd.
  unfold Pipeline.build_normal in *. cbv zeta in *. cbn [n_meta n_data] in *.
  rewrite !sum_len_concat, Hd. destruct (sp_kind sp); cbn [eff_wcuts] in H1, H2; [rewrite H1, H2|..]; reflexivity.
Qed.

(* ================================================================================================= *)
(* 2. metadata                                                                                         *)
(* ================================================================================================= *)
Definition wf_spec (sp : spec) : Prop :=
  utf8_valid (sp_name sp) = true /\ sanitize_name (sp_name sp) = sp_name sp /\
  len (sp_content sp) < 2 ^ 128 /\
  opt_all (fun t => t < 2 ^ 64) (sp_ctime sp) /\ opt_all (fun t => t < 2 ^ 64) (sp_mtime sp) /\
  opt_all (fun t => t < 2 ^ 64) (sp_atime sp) /\
  opt_all wf_perm (sp_perm sp) /\ Forall wf_xattr (sp_xattrs sp) /\
  Forall (fun c => is_known c = false) (sp_extra sp).

Lemma build_wf_normal cfg ctx pw sp wcuts : wf_spec sp -> wf_ctx ctx pw -> concat (eff_wcuts (sp_kind sp) wcuts) = sp_content sp ->
  wf_normal (build_normal cfg ctx sp wcuts).
Proof.
  intros (S1 & S2 & S3 & S4 & S5 & S6 & S7 & S8 & S9) (_ & _ & Hu) Hc.
  unfold wf_normal, wf_fhed, Pipeline.build_normal. cbv zeta.
  cbn [n_hdr n_phsf n_extra n_data n_meta n_xattrs f_major f_minor f_name m_raw_size m_compressed m_ctime m_mtime m_atime m_perm].
  repeat (split; [first [assumption | reflexivity | lia | idtac]|]); try assumption.
  - unfold phsf_part. destruct (encrypted _); cbn [opt_all]; [exact Hu|exact I].
  - destruct (sp_kind sp); cbn [opt_all]; try exact I. cbn [eff_wcuts] in Hc. rewrite Hc. exact S3.
Qed.

Lemma filter_id {A} (f : A -> bool) l : Forall (fun x => f x = true) l -> filter f l = l.
Proof. induction 1 as [|x l Hx _ IH]; [reflexivity|]. cbn [filter]. rewrite Hx, IH. reflexivity. Qed.

Lemma filter_ne_all ps : Forall (fun x => ne x = true) (filter ne ps).
Proof. apply Forall_forall. intros x Hx. apply filter_In in Hx. apply Hx. Qed.

Lemma build_data_nonempty cfg ctx pw wcuts : wf_ctx ctx pw ->
  Forall (fun d => nonempty d = true) (build_data cfg ctx wcuts).
Proof.
  intros Hctx. unfold Pipeline.build_data, iv_part. apply Forall_app. split; [|apply flat_sink_nonempty].
  destruct (encrypted cfg); constructor; [|constructor].
  pose proof (iv_len _ _ Hctx) as L. destruct (c_iv ctx); [discriminate L|reflexivity].
Qed.

(* ... and none of 2^32 bytes or more: the FlattenWriter has cut the compressed / encrypted stream already *)
Lemma build_data_pieces cfg ctx pw wcuts : wf_ctx ctx pw ->
  Forall (fun p => p <> [] /\ len p <= CMAX) (build_data cfg ctx wcuts).
Proof.
  intros Hctx. unfold Pipeline.build_data, iv_part. apply Forall_app. split; [|apply flat_sink_at_bounded, CMAX_pos].
  destruct (encrypted cfg); constructor; [|constructor].
  pose proof (iv_len _ _ Hctx) as L. split; [destruct (c_iv ctx); [discriminate L|discriminate]|].
  apply CMAX_lt. unfold len. rewrite L. change (2 ^ 32) with 4294967296. lia.
Qed.
Lemma cut_data_build cfg ctx pw wcuts : wf_ctx ctx pw -> cut_data (build_data cfg ctx wcuts) = build_data cfg ctx wcuts.
Proof. intros Hctx. apply cutN_fixed. eapply build_data_pieces; exact Hctx. Qed.

(* a built entry holds no empty payload and none that has to be cut: re-serialising it loses nothing *)
Lemma normalize_build cfg ctx pw sp wcuts : wf_ctx ctx pw ->
  normalize (build_normal cfg ctx sp wcuts) = build_normal cfg ctx sp wcuts.
Proof.
  intros Hctx. unfold normalize, Pipeline.build_normal. cbv zeta. cbn [n_hdr n_phsf n_extra n_data n_meta n_xattrs].
  rewrite (cut_data_build _ ctx pw) by exact Hctx. reflexivity.
Qed.

Theorem metadata_roundtrip cfg ctx pw sp wcuts : wf_spec sp -> wf_ctx ctx pw -> concat (eff_wcuts (sp_kind sp) wcuts) = sp_content sp ->
  let e := build_normal cfg ctx sp wcuts in
  parse_normal (ser_normal e) = Ok (normalize e) /\ normalize e = e /\
  f_name (n_hdr e) = sp_name sp /\ f_kind (n_hdr e) = sp_kind sp /\
  m_ctime (n_meta e) = sp_ctime sp /\ m_mtime (n_meta e) = sp_mtime sp /\ m_atime (n_meta e) = sp_atime sp /\
  m_perm (n_meta e) = sp_perm sp /\ n_xattrs e = sp_xattrs sp /\ n_extra e = sp_extra sp /\
  m_raw_size (n_meta e) = (match sp_kind sp with KFile => Some (len (sp_content sp)) | _ => None end) /\
  m_compressed (n_meta e) = fold_left N.add (map len (n_data e)) 0.
Proof.
  intros Hs Hctx Hc e. split; [apply parse_ser_wf, (build_wf_normal cfg ctx pw); assumption|].
  split; [apply (normalize_build cfg ctx pw); assumption|].
  subst e. unfold Pipeline.build_normal. cbv zeta.
  cbn [n_hdr n_meta n_xattrs n_extra n_data f_name f_kind m_ctime m_mtime m_atime m_perm m_raw_size m_compressed].
  repeat split. destruct (sp_kind sp); try reflexivity. cbn [eff_wcuts] in Hc. rewrite Hc. reflexivity.
Qed.

(* ================================================================================================= *)
(* 3. whole archives                                                                                   *)
(* ================================================================================================= *)
(* every chunk of the serialised entry fits the 32-bit length field, and the caller's private chunks are
   neither entry terminators nor archive markers *)
Definition fits (e : normal_entry) : Prop :=
  6 + len (f_name (n_hdr e)) < 2 ^ 32 /\ opt_all (fun s => len s < 2 ^ 32) (n_phsf e) /\
  Forall wf_chunk (n_extra e) /\ Forall (fun c => is_term c = false) (n_extra e) /\
  Forall (fun x => 8 + len (x_name x) + len (x_value x) < 2 ^ 32) (n_xattrs e).
(* nothing is asked of the data payloads: into_chunks cuts a payload of 2^32 bytes or more into several FDAT chunks
   (Entry.data_chunks), every one of them fits (data_chunks_fit) *)
Lemma data_chunks_fit t d : length t = 4%nat -> Forall wf_chunk (data_chunks t d).
Proof.
  intros Lt. unfold data_chunks, data_chunks_at. apply Forall_forall. intros c Hc. apply in_map_iff in Hc.
  destruct Hc as (p & <- & Hp). pose proof (pieces_bounded CMAX d CMAX_pos) as B. rewrite Forall_forall in B.
  destruct (B p Hp) as (_ & Lp). split; [exact Lt|]. cbn [mk cdata]. apply CMAX_lt. exact Lp.
Qed.

Definition okc (c : chunk) : Prop := wf_chunk c /\ is_term c = false.

Lemma okc_opt {A} t (f : A -> bytes) o : length t = 4%nat -> is_term (mk t []) = false ->
  opt_all (fun v => len (f v) < 2 ^ 32) o -> Forall okc (opt_chunk t f o).
Proof.
  intros Lt Ht H. destruct o as [v|]; cbn [opt_chunk opt_all] in *; constructor; [|constructor].
  split; [split; [exact Lt|exact H]|exact Ht].
Qed.

Lemma perm_to_bytes_len p : wf_perm p -> len (perm_to_bytes p) < 2 ^ 32.
Proof.
  intros (_ & _ & _ & H4 & H5 & _). unfold perm_to_bytes, be64, be16.
  rewrite !len_app. unfold len in *. rewrite !be_length. cbn [length]. lia.
Qed.

Lemma ser_normal_body e : wf_normal e -> fits e ->
  exists body, ser_normal e = body ++ [mk FEND []] /\ Forall okc body.
Proof.
  intros (W1 & W2 & W3 & W4 & W5 & W6 & W7 & W8 & W9 & W10 & W11 & W12) (F1 & F2 & F3 & F4 & F6).
  unfold ser_normal. cbv zeta.
  eexists. split; [rewrite !app_assoc; reflexivity|].
  repeat (apply Forall_app; split).
  - constructor; [|constructor]. split; [split; [reflexivity|]|reflexivity].
    unfold fhed_to_bytes. cbn [mk cdata]. rewrite len_app. unfold len at 1. cbn [length]. exact F1.
  - apply Forall_forall. intros c Hc. rewrite Forall_forall in F3, F4. split; auto.
  - apply okc_opt; [reflexivity|reflexivity|].
    destruct (m_raw_size (n_meta e)); cbn [opt_all]; [|exact I].
    pose proof (fsiz_to_bytes_length n). unfold len. lia.
  - apply okc_opt; [reflexivity|reflexivity|exact F2].
  - apply Forall_forall. intros c Hc. apply in_concat in Hc. destruct Hc as (l & Hl & Hc).
    apply in_map_iff in Hl. destruct Hl as (d & <- & Hd).
    pose proof (data_chunks_fit FDAT d eq_refl) as DF. rewrite Forall_forall in DF. split; [exact (DF c Hc)|].
    unfold data_chunks, data_chunks_at in Hc. apply in_map_iff in Hc. destruct Hc as (q & <- & _). reflexivity.
  - apply okc_opt; [reflexivity|reflexivity|]. destruct (m_ctime (n_meta e)); cbn [opt_all]; [|exact I].
    unfold time_to_bytes, be64, len. rewrite be_length. lia.
  - apply okc_opt; [reflexivity|reflexivity|]. destruct (m_mtime (n_meta e)); cbn [opt_all]; [|exact I].
    unfold time_to_bytes, be64, len. rewrite be_length. lia.
  - apply okc_opt; [reflexivity|reflexivity|]. destruct (m_atime (n_meta e)); cbn [opt_all]; [|exact I].
    unfold time_to_bytes, be64, len. rewrite be_length. lia.
  - apply okc_opt; [reflexivity|reflexivity|]. destruct (m_perm (n_meta e)); cbn [opt_all] in *; [|exact I].
    apply perm_to_bytes_len. exact W11.
  - apply Forall_forall. intros c Hc. apply in_map_iff in Hc. destruct Hc as (x & <- & Hx).
    rewrite Forall_forall in F6. specialize (F6 x Hx).
    split; [split; [reflexivity|]|reflexivity]. cbn [mk cdata]. unfold xattr_to_bytes, be32.
    rewrite !len_app. unfold len in *. rewrite !be_length. lia.
Qed.

Lemma ser_normal_wf_entry e : wf_normal e -> fits e -> wf_entry (ser_normal e).
Proof.
  intros Hw Hf. destruct (ser_normal_body e Hw Hf) as (body & -> & Hb).
  exists body, (mk FEND []). split; [reflexivity|]. split; [reflexivity|]. split.
  - apply Forall_app. split; [eapply Forall_impl; [|exact Hb]; intros c [H _]; exact H|].
    constructor; [|constructor]. split; [reflexivity|vm_compute; reflexivity].
  - eapply Forall_impl; [|exact Hb]. intros c [_ H]. exact H.
Qed.

Lemma parse_entry_ser_normal e : wf_normal e -> parse_entry (ser_normal e) = Ok (RNormal (normalize e)).
Proof.
  intros Hw. destruct (ser_normal_head e) as [tl Etl]. unfold parse_entry. rewrite Etl. tysimp. rewrite <- Etl.
  rewrite (parse_ser_wf e Hw). reflexivity.
Qed.

Lemma parse_all_ser es : Forall wf_normal es ->
  parse_all (map ser_normal es) = (map (fun e => RNormal (normalize e)) es, FinOk).
Proof.
  induction 1 as [|e es He _ IH]; [reflexivity|]. cbn [map parse_all].
  rewrite parse_entry_ser_normal by exact He. rewrite IH. reflexivity.
Qed.

(* any well-formed entries: written with add_entry, read back with entries() *)
Theorem archive_roundtrip_gen es : Forall wf_normal es -> Forall fits es ->
  read_archive (write_archive es) = Ok (map (fun e => RNormal (normalize e)) es).
Proof.
  intros Hw Hf. unfold read_archive, write_archive, entries.
  rewrite read_written.
  - cbn [bind]. rewrite parse_all_ser by exact Hw. reflexivity.
  - lia.
  - apply Forall_forall. intros cs Hcs. apply in_map_iff in Hcs. destruct Hcs as (e & <- & He).
    rewrite Forall_forall in Hw, Hf. apply ser_normal_wf_entry; auto.
Qed.

(* a job: how one entry is produced *)
Record job := { j_cfg : config; j_ctx : cctx; j_spec : spec; j_wcuts : list bytes }.
Definition build_job (j : job) : normal_entry := build_normal (j_cfg j) (j_ctx j) (j_spec j) (j_wcuts j).
Definition wf_job (pw : bytes) (j : job) : Prop :=
  wf_spec (j_spec j) /\ wf_ctx (j_ctx j) pw /\
  concat (eff_wcuts (sp_kind (j_spec j)) (j_wcuts j)) = sp_content (j_spec j) /\ fits (build_job j).

Theorem archive_roundtrip pw jobs : Forall (wf_job pw) jobs ->
  read_archive (write_archive (map build_job jobs)) = Ok (map (fun j => RNormal (build_job j)) jobs).
Proof.
  intros H. rewrite archive_roundtrip_gen.
  - f_equal. rewrite map_map. apply map_ext_in. intros j Hj. rewrite Forall_forall in H.
    destruct (H j Hj) as (_ & Hc & _). unfold build_job. rewrite (normalize_build _ _ pw) by exact Hc. reflexivity.
  - apply Forall_forall. intros e He. apply in_map_iff in He. destruct He as (j & <- & Hj).
    rewrite Forall_forall in H. destruct (H j Hj) as (Hs & Hc & Hw & _). apply (build_wf_normal _ _ pw); assumption.
  - apply Forall_forall. intros e He. apply in_map_iff in He. destruct He as (j & <- & Hj).
    rewrite Forall_forall in H. apply (H j Hj).
Qed.

(* C01 for normal entries: the archive reads back as the same sequence of entries, metadata equal, and
   every entry decodes to the content its caller wrote, whatever the slicing and the buffer sizes *)
Theorem roundtrip pw jobs : Forall (wf_job pw) jobs ->
  read_archive (write_archive (map build_job jobs)) = Ok (map (fun j => RNormal (build_job j)) jobs) /\
  forall j, In j jobs ->
    (forall rbufs, Forall (fun n => 0 < n) rbufs ->
       covers (eff_cfg (j_cfg j) (sp_kind (j_spec j))) (eff_wcuts (sp_kind (j_spec j)) (j_wcuts j)) rbufs ->
       decode_normal (build_job j) pw rbufs = Ok (sp_content (j_spec j))) /\
    f_name (n_hdr (build_job j)) = sp_name (j_spec j) /\ f_kind (n_hdr (build_job j)) = sp_kind (j_spec j) /\
    m_ctime (n_meta (build_job j)) = sp_ctime (j_spec j) /\ m_mtime (n_meta (build_job j)) = sp_mtime (j_spec j) /\
    m_atime (n_meta (build_job j)) = sp_atime (j_spec j) /\ m_perm (n_meta (build_job j)) = sp_perm (j_spec j) /\
    n_xattrs (build_job j) = sp_xattrs (j_spec j) /\ n_extra (build_job j) = sp_extra (j_spec j).
Proof.
  intros H. split; [apply (archive_roundtrip pw); exact H|]. intros j Hj. rewrite Forall_forall in H.
  destruct (H j Hj) as (Hs & Hc & Hw & _). split.
  - intros rbufs Hp Hcov. apply entry_roundtrip; assumption.
  - repeat split.
Qed.

(* ================================================================================================= *)
(* 5. the streaming writer (Archive::write_file)                                                       *)
(* ================================================================================================= *)
Notation stream_file_chunks := (stream_file_chunks E compress).

Lemma seg_fdat_all rest ds : forall a,
  parse_normal_loop (map (mk FDAT) ds ++ rest) a = parse_normal_loop rest (upd_data ds a).
Proof.
  induction ds as [|d ds IH]; intros a; [rewrite upd_data_nil; reflexivity|].
  cbn [map app parse_normal_loop]. tysimp. cbn [cdata mk]. rewrite IH. f_equal.
  unfold upd_data. cbn [k_info k_phsf k_extra k_data k_csize k_size k_c k_m k_a k_perm k_x].
  rewrite <- app_assoc, sum_len_cons, N.add_assoc. reflexivity.
Qed.

(* what the reader gets for a streamed file: no fSIZ (raw size unknown), empty writes kept as empty chunks, a write
   of 2^32 bytes or more as several chunks (chunk_sink) *)
Definition streamed_entry (cfg : config) (ctx : cctx) (sp : spec) (wcuts : list bytes) : normal_entry :=
  let data := iv_part cfg ctx ++ chunk_sink (data_pieces cfg ctx wcuts) in
  {| n_hdr := {| f_major := 0; f_minor := 0; f_kind := KFile; f_comp := g_comp cfg;
                 f_enc := g_enc cfg; f_mode := g_mode cfg; f_name := sp_name sp |};
     n_phsf := phsf_part cfg ctx; n_extra := []; n_data := data;
     n_meta := {| m_raw_size := None; m_compressed := sum_len data;
                  m_ctime := sp_ctime sp; m_mtime := sp_mtime sp; m_atime := sp_atime sp; m_perm := sp_perm sp |};
     n_xattrs := [] |}.

Lemma parse_stream_file cfg ctx pw sp wcuts : wf_spec sp -> wf_ctx ctx pw ->
  parse_normal (stream_file_chunks cfg ctx sp wcuts) = Ok (streamed_entry cfg ctx sp wcuts).
Proof.
  intros (S1 & S2 & S3 & S4 & S5 & S6 & S7 & S8 & S9) (_ & _ & Hu).
  unfold Pipeline.stream_file_chunks, parse_normal, streamed_entry. cbv zeta. cbn [app]. tysimp. cbn [negb].
  rewrite seg_fhed by (apply fhed_inv; unfold wf_fhed; cbn; repeat split; (assumption || lia)).
  rewrite seg_ctime by exact S4. rewrite seg_mtime by exact S5. rewrite seg_atime by exact S6.
  rewrite seg_perm by exact S7.
  rewrite seg_phsf by (unfold phsf_part; destruct (encrypted cfg); cbn [opt_all]; [exact Hu|exact I]).
  rewrite seg_fdat_all, seg_fend. cbn [bind].
  unfold phsf_part.
  destruct (sp_ctime sp), (sp_mtime sp), (sp_atime sp), (sp_perm sp), (encrypted cfg);
    cbn [opt_upd upd_info upd_phsf upd_data upd_c upd_m upd_a upd_perm
         k_info k_phsf k_extra k_data k_csize k_size k_c k_m k_a k_perm k_x nacc0 app f_major f_minor];
    change (0 =? 0) with true; cbn [andb negb]; rewrite N.add_0_l; reflexivity.
Qed.

Theorem write_file_roundtrip cfg ctx pw sp wcuts :
  wf_spec sp -> wf_ctx ctx pw -> concat wcuts = sp_content sp ->
  exists e, parse_normal (stream_file_chunks cfg ctx sp wcuts) = Ok e /\
    m_raw_size (n_meta e) = None /\
    f_name (n_hdr e) = sp_name sp /\ f_kind (n_hdr e) = KFile /\
    m_ctime (n_meta e) = sp_ctime sp /\ m_mtime (n_meta e) = sp_mtime sp /\ m_atime (n_meta e) = sp_atime sp /\
    m_perm (n_meta e) = sp_perm sp /\
    m_compressed (n_meta e) = fold_left N.add (map len (n_data e)) 0 /\
    forall rbufs, Forall (fun n => 0 < n) rbufs -> covers cfg wcuts rbufs ->
      decode_normal e pw rbufs = Ok (sp_content sp).
Proof.
  intros Hs Hctx Hc. exists (streamed_entry cfg ctx sp wcuts).
  split; [apply (parse_stream_file cfg ctx pw); assumption|]. repeat split.
  intros rbufs Hp Hcov. unfold Pipeline.decode_normal, streamed_entry. cbv zeta.
  cbn [n_hdr n_phsf n_data f_comp f_enc f_mode].
  rewrite (stream_roundtrip cfg ctx pw wcuts); try assumption; [rewrite Hc; reflexivity|apply chunk_sink_concat].
Qed.

(* the streamed file inside an archive *)
Lemma stream_file_wf_entry cfg ctx sp wcuts :
  Forall wf_chunk (stream_file_chunks cfg ctx sp wcuts) -> wf_entry (stream_file_chunks cfg ctx sp wcuts).
Proof.
  intros Hw. unfold Pipeline.stream_file_chunks in *.
  eexists _, (mk FEND []). split; [rewrite !app_assoc; reflexivity|]. split; [reflexivity|].
  split; [exact Hw|].
  repeat (apply Forall_app; split);
    try (match goal with |- Forall _ (opt_chunk _ _ ?o) => destruct o; cbn [opt_chunk]; repeat constructor end).
  - repeat constructor.
  - apply Forall_forall. intros c Hc. apply in_map_iff in Hc. destruct Hc as (d & <- & _). reflexivity.
Qed.

Theorem write_file_archive_roundtrip cfg ctx pw sp wcuts :
  wf_spec sp -> wf_ctx ctx pw -> Forall wf_chunk (stream_file_chunks cfg ctx sp wcuts) ->
  read_archive (write_raw_archive 0 [stream_file_chunks cfg ctx sp wcuts]) = Ok [RNormal (streamed_entry cfg ctx sp wcuts)].
Proof.
  intros Hs Hctx Hw. unfold read_archive, entries.
  rewrite read_written; [|lia|constructor; [apply stream_file_wf_entry; exact Hw|constructor]].
  cbn [bind parse_all]. unfold parse_entry.
  assert (Hhd : exists c tl, stream_file_chunks cfg ctx sp wcuts = c :: tl /\ ty_is c SHED = false /\ ty_is c FHED = true).
  { unfold Pipeline.stream_file_chunks. cbn [app]. eexists _, _. split; [reflexivity|]. split; reflexivity. }
  destruct Hhd as (c & tl & Etl & T1 & T2). rewrite Etl, T1, T2, <- Etl.
  rewrite (parse_stream_file cfg ctx pw) by assumption. reflexivity.
Qed.

(* ================================================================================================= *)
(* 4. solid entries                                                                                    *)
(* ================================================================================================= *)
Notation build_solid := (build_solid E compress).
Notation decode_solid := (decode_solid E D decompress verify).
Notation solid_archive_chunks := (solid_archive_chunks E compress).

Lemma ser_chunks_length_ge cs : (length cs <= length (ser_chunks cs))%nat.
Proof.
  induction cs as [|c cs IH]; [cbn; lia|]. rewrite ser_chunks_cons, app_length. cbn [length].
  pose proof (ser_chunk_length_ge c). lia.
Qed.

(* the EntryIterator's chunk loop over one serialised entry *)
Lemma inner_item_entry rest : forall body fuel acc, Forall okc body -> (length body < fuel)%nat ->
  inner_item fuel (ser_chunks body ++ ser_chunk (mk FEND []) ++ rest) acc = Ok (Some (acc ++ body ++ [mk FEND []], rest)).
Proof.
  induction body as [|c body IH]; intros fuel acc Hb Hf; (destruct fuel as [|fuel]; [cbn [length] in Hf; lia|]);
    cbn [inner_item].
  - rewrite ser_chunks_nil. cbn [app]. rewrite read_chunk_ser by (split; [reflexivity|vm_compute; reflexivity]).
    tysimp. reflexivity.
  - inversion Hb as [|? ? [Hc Ht] Hb']; subst. rewrite ser_chunks_cons, <- app_assoc, read_chunk_ser by exact Hc.
    destruct (is_term_false c Ht) as (Hfe & _ & _). apply orb_false_iff in Hfe. destruct Hfe as [-> _].
    rewrite IH by (try assumption; cbn [length] in Hf; lia). rewrite <- app_assoc. reflexivity.
Qed.

Lemma solid_plain_stream_cons e inner :
  solid_plain_stream (e :: inner) = ser_chunks (ser_normal e) ++ solid_plain_stream inner.
Proof. unfold solid_plain_stream. cbn [map concat]. apply ser_chunks_app. Qed.

Lemma inner_loop_entries : forall inner fuel, Forall wf_normal inner -> Forall fits inner -> (length inner < fuel)%nat ->
  inner_entries_loop fuel (solid_plain_stream inner) = (map normalize inner, FinOk).
Proof.
  induction inner as [|e inner IH]; intros fuel Hw Hf Hl; (destruct fuel as [|fuel]; [cbn [length] in Hl; lia|]).
  - reflexivity.
  - inversion Hw as [|? ? He Hw']; subst. inversion Hf as [|? ? Hfe Hf']; subst.
    cbn [inner_entries_loop]. rewrite solid_plain_stream_cons.
    destruct (ser_normal_body e He Hfe) as (body & Eb & Hb).
    rewrite Eb at 1 2. rewrite ser_chunks_snoc, <- app_assoc.
    rewrite inner_item_entry.
    + cbn [app]. rewrite <- Eb. rewrite (parse_ser_wf e He).
      rewrite IH by (try assumption; cbn [length] in Hl; lia). reflexivity.
    + exact Hb.
    + rewrite !app_length. pose proof (ser_chunks_length_ge body). lia.
Qed.

Lemma solid_stream_length inner : (length inner <= length (solid_plain_stream inner))%nat.
Proof.
  induction inner as [|e inner IH]; [cbn; lia|]. rewrite solid_plain_stream_cons, app_length. cbn [length].
  destruct (ser_normal_head e) as [tl ->]. pose proof (ser_chunks_length_ge (mk FHED (fhed_to_bytes (n_hdr e)) :: tl)).
  cbn [length] in *. lia.
Qed.

(* SolidEntryBuilder: any configuration, any slicing of the inner entries' bytes, any buffer sizes:
   the inner entries come back in order *)
Theorem solid_roundtrip cfg ctx pw extra inner swcuts rbufs :
  wf_ctx ctx pw -> Forall wf_normal inner -> Forall fits inner ->
  concat swcuts = solid_plain_stream inner ->
  Forall (fun n => 0 < n) rbufs -> covers cfg swcuts rbufs ->
  decode_solid (build_solid cfg ctx extra swcuts) pw rbufs = Ok (map normalize inner, FinOk).
Proof.
  intros Hctx Hw Hf Hc Hp Hcov. unfold Pipeline.decode_solid, Pipeline.build_solid.
  cbn [so_hdr so_phsf so_data s_comp s_enc s_mode]. unfold Pipeline.build_data.
  rewrite (stream_roundtrip cfg ctx pw swcuts); try assumption; [|apply flat_sink_concat].
  cbn [bind]. rewrite Hc. rewrite inner_loop_entries; try assumption; [reflexivity|].
  pose proof (solid_stream_length inner). lia.
Qed.

(* the same for inner entries made by EntryBuilder: they come back unchanged, and each decodes to its content *)
Theorem solid_roundtrip_jobs cfg ctx pw extra jobs swcuts rbufs :
  wf_ctx ctx pw -> Forall (wf_job pw) jobs ->
  concat swcuts = solid_plain_stream (map build_job jobs) ->
  Forall (fun n => 0 < n) rbufs -> covers cfg swcuts rbufs ->
  decode_solid (build_solid cfg ctx extra swcuts) pw rbufs = Ok (map build_job jobs, FinOk) /\
  forall j, In j jobs -> forall rb, Forall (fun n => 0 < n) rb ->
    covers (eff_cfg (j_cfg j) (sp_kind (j_spec j))) (eff_wcuts (sp_kind (j_spec j)) (j_wcuts j)) rb ->
    decode_normal (build_job j) pw rb = Ok (sp_content (j_spec j)).
Proof.
  intros Hctx Hj Hc Hp Hcov. split.
  - rewrite (solid_roundtrip cfg ctx pw extra (map build_job jobs)); try assumption.
    + f_equal. f_equal. rewrite map_map. apply map_ext_in. intros j Hin. rewrite Forall_forall in Hj.
      destruct (Hj j Hin) as (_ & Hcx & _). apply (normalize_build _ _ pw). exact Hcx.
    + apply Forall_forall. intros e He. apply in_map_iff in He. destruct He as (j & <- & Hin).
      rewrite Forall_forall in Hj. destruct (Hj j Hin) as (Hs & Hcx & Hwc & _). apply (build_wf_normal _ _ pw); assumption.
    + apply Forall_forall. intros e He. apply in_map_iff in He. destruct He as (j & <- & Hin).
      rewrite Forall_forall in Hj. apply (Hj j Hin).
  - intros j Hin rb Hrb Hcv. rewrite Forall_forall in Hj. destruct (Hj j Hin) as (_ & Hcx & Hwc & _).
    apply entry_roundtrip; assumption.
Qed.

(* SolidArchive (the streaming solid writer): the chunks it writes parse to a solid entry whose stream
   decodes to the inner entries *)
Definition solid_streamed (cfg : config) (ctx : cctx) (swcuts : list bytes) : solid_entry :=
  {| so_hdr := {| s_major := 0; s_minor := 0; s_comp := g_comp cfg; s_enc := g_enc cfg; s_mode := g_mode cfg |};
     so_phsf := phsf_part cfg ctx; so_data := iv_part cfg ctx ++ chunk_sink (data_pieces cfg ctx swcuts); so_extra := [] |}.

Lemma parse_solid_archive cfg ctx pw swcuts : wf_ctx ctx pw ->
  parse_solid (solid_archive_chunks cfg ctx swcuts) = Ok (solid_streamed cfg ctx swcuts).
Proof.
  intros (_ & _ & Hu). unfold Pipeline.solid_archive_chunks, parse_solid, solid_streamed.
  cbn [app]. tysimp. cbn [negb].
  rewrite sseg_shed by (split; cbn; lia).
  rewrite sseg_phsf by (unfold phsf_part; destruct (encrypted cfg); cbn [opt_all]; [exact Hu|exact I]).
  rewrite sseg_data, sseg_send. cbn [bind app]. unfold phsf_part. destruct (encrypted cfg); reflexivity.
Qed.

Theorem solid_archive_roundtrip cfg ctx pw inner swcuts rbufs :
  wf_ctx ctx pw -> Forall wf_normal inner -> Forall fits inner ->
  concat swcuts = solid_plain_stream inner ->
  Forall (fun n => 0 < n) rbufs -> covers cfg swcuts rbufs ->
  exists s, parse_solid (solid_archive_chunks cfg ctx swcuts) = Ok s /\
            decode_solid s pw rbufs = Ok (map normalize inner, FinOk).
Proof.
  intros Hctx Hw Hf Hc Hp Hcov. exists (solid_streamed cfg ctx swcuts).
  split; [apply (parse_solid_archive cfg ctx pw); exact Hctx|].
  unfold Pipeline.decode_solid, solid_streamed. cbn [so_hdr so_phsf so_data s_comp s_enc s_mode].
  rewrite (stream_roundtrip cfg ctx pw swcuts); try assumption; [|apply chunk_sink_concat].
  cbn [bind]. rewrite Hc. rewrite inner_loop_entries; try assumption; [reflexivity|].
  pose proof (solid_stream_length inner). lia.
Qed.

(* the two solid writers as the code drives them: the inner entries arrive through write_chunk_in, one write per
   length / type / payload / CRC field (Pipeline.solid_writes) *)
Theorem solid_builder_roundtrip cfg ctx pw extra inner rbufs :
  wf_ctx ctx pw -> Forall wf_normal inner -> Forall fits inner ->
  Forall (fun n => 0 < n) rbufs -> covers cfg (solid_writes inner) rbufs ->
  decode_solid (build_solid cfg ctx extra (solid_writes inner)) pw rbufs = Ok (map normalize inner, FinOk).
Proof.
  intros Hctx Hw Hf Hp Hcov. apply solid_roundtrip; try assumption. apply solid_writes_concat.
Qed.

Theorem solid_archive_add_entry_roundtrip cfg ctx pw inner rbufs :
  wf_ctx ctx pw -> Forall wf_normal inner -> Forall fits inner ->
  Forall (fun n => 0 < n) rbufs -> covers cfg (solid_writes inner) rbufs ->
  exists s, parse_solid (solid_archive_chunks cfg ctx (solid_writes inner)) = Ok s /\
            decode_solid s pw rbufs = Ok (map normalize inner, FinOk).
Proof.
  intros Hctx Hw Hf Hp Hcov. apply solid_archive_roundtrip; try assumption. apply solid_writes_concat.
Qed.

(* a built solid entry survives the archive: add_entry, then entries() *)
Lemma build_solid_wf cfg ctx pw extra swcuts : wf_ctx ctx pw ->
  Forall (fun c => is_known_solid c = false) extra -> wf_solid (build_solid cfg ctx extra swcuts).
Proof.
  intros (_ & _ & Hu) Hx. unfold wf_solid, shed_ok, Pipeline.build_solid. cbn [so_hdr so_phsf so_extra s_major s_minor].
  split; [split; lia|]. split; [|exact Hx]. unfold phsf_part. destruct (encrypted cfg); cbn [opt_all]; [exact Hu|exact I].
Qed.

Lemma ser_solid_wf_entry s : Forall wf_chunk (ser_solid s) -> Forall (fun c => is_term c = false) (so_extra s) ->
  wf_entry (ser_solid s).
Proof.
  intros Hw Hx. unfold ser_solid in *.
  eexists _, (mk SEND []). split; [rewrite !app_assoc; reflexivity|]. split; [reflexivity|]. split; [exact Hw|].
  repeat (apply Forall_app; split).
  - repeat constructor.
  - exact Hx.
  - destruct (so_phsf s); cbn [opt_chunk]; repeat constructor.
  - apply Forall_forall. intros c Hc. apply in_map_iff in Hc. destruct Hc as (d & <- & _). reflexivity.
Qed.

Theorem solid_entry_archive_roundtrip cfg ctx pw extra swcuts :
  wf_ctx ctx pw -> Forall (fun c => is_known_solid c = false) extra -> Forall (fun c => is_term c = false) extra ->
  Forall wf_chunk (ser_solid (build_solid cfg ctx extra swcuts)) ->
  read_archive (write_archive_entries [RSolid (build_solid cfg ctx extra swcuts)]) =
  Ok [RSolid (build_solid cfg ctx extra swcuts)].
Proof.
  intros Hctx Hk Ht Hw. unfold read_archive, write_archive_entries, entries. cbn [map ser_entry].
  rewrite read_written; [|lia|constructor; [apply ser_solid_wf_entry; assumption|constructor]].
  cbn [bind parse_all]. unfold parse_entry.
  destruct (ser_solid_head (build_solid cfg ctx extra swcuts)) as [tl Etl]. rewrite Etl. tysimp. rewrite <- Etl.
  rewrite (parse_ser_solid_wf _ (build_solid_wf cfg ctx pw extra swcuts Hctx Hk)). reflexivity.
Qed.

End PipelineFacts.
