(* PipelineFacts.v — C01: what is written through the library's pipelines is read back:
   contents byte for byte, metadata equal, for every configuration, every slicing of the caller's
   writes and every sequence of read buffer sizes.  Composes the stream layer (FlattenFacts,
   CbcFacts, CtrFacts) with the entry/archive layer (EntryFacts, ArchiveFacts). *)
From PNA Require Import Base Crc32 Name Codec Chunk Archive Entry Flatten Cbc Ctr Pipeline
  BaseFacts NameFacts CodecFacts Crc32Facts ChunkFacts ArchiveFacts EntryFacts
  FlattenFacts CbcFacts CtrFacts StreamFacts.
Require Import ZArith ZifyN ZifyNat ZifyBool.
Open Scope N_scope.

(* ---- glue with the stream layer ---------------------------------------------------------------- *)
(* the read sequences of Pipeline.v are the fixpoints the stream facts are stated for *)
Lemma cbcr_reads_eq D : forall ns st, cbcr_reads D st ns = cbcr_read_seq D st ns.
Proof. intros ns st. reflexivity. Qed.
Lemma ctrr_reads_eq E : forall ns st, ctrr_reads E st ns = ctrr_read_seq E st ns.
Proof. intros ns st. reflexivity. Qed.

Lemma ne_nonempty p : ne p = nonempty p.
Proof. reflexivity. Qed.
Lemma filter_ne_nonempty l : filter ne l = filter nonempty l.
Proof. reflexivity. Qed.

Lemma concat_filter_ne ps : concat (filter ne ps) = concat ps.
Proof.
  induction ps as [|p ps IH]; [reflexivity|]. destruct p; cbn [filter ne concat app]; [exact IH|]. rewrite IH. reflexivity.
Qed.

(* the model of the FlattenWriter sink is Flatten.flatten_write for pieces that fit one chunk *)
Lemma flat_sink_faithful (n : nat) ps : (0 < n)%nat -> Forall (fun p => (length p <= n)%nat) ps ->
  concat (map (chunks n) ps) = flat_sink ps.
Proof.
  intros Hn H. induction H as [|p ps Hp _ IH]; [reflexivity|]. cbn [map concat]. unfold flat_sink in *. cbn [filter].
  destruct p as [|b p]; cbn [ne]; [rewrite chunks_nil; exact IH|].
  rewrite chunks_small by (try discriminate; exact Hp). rewrite IH. reflexivity.
Qed.

(* positive buffer sizes, more reads than bytes: some read returns nothing *)
Lemma flat_reads_reach_end : forall ns s, Forall (fun n => 0 < n) ns -> len (concat s) < len ns ->
  In [] (flat_reads s ns).
Proof.
  induction ns as [|n r IH]; intros s Hp Hl; [unfold len in Hl; cbn [length] in Hl; lia|].
  inversion Hp as [|? ? Hn Hr]; subst. cbn [flat_reads].
  destruct (flat_read s n) as [s' out] eqn:Er. destruct (flat_read_spec _ _ _ _ Er) as (A & _ & _).
  destruct out as [|b out]; [left; reflexivity|]. right. apply IH; [exact Hr|].
  rewrite A, len_app, !len_cons in Hl. lia.
Qed.

Lemma deliver_reach_end : forall ns pt, Forall (fun n => 0 < n) ns -> len pt < len ns -> In [] (deliver pt ns).
Proof.
  induction ns as [|n r IH]; intros pt Hp Hl; [unfold len in Hl; cbn [length] in Hl; lia|].
  inversion Hp as [|? ? Hn Hr]; subst. cbn [deliver].
  destruct (ftake n pt) as [|b out] eqn:Et; [left; reflexivity|]. right. apply IH; [exact Hr|].
  assert (Hlt : len (ftake n pt) = N.min n (len pt)) by apply len_ftake.
  rewrite Et, len_cons in Hlt. rewrite len_fdrop, len_cons in *. lia.
Qed.

Lemma in_nil_lengths {A} (l1 l2 : list (list A)) : map (@length A) l1 = map (@length A) l2 -> In [] l2 -> In [] l1.
Proof. intros H. apply in_nil_map_length. symmetry. exact H. Qed.

Lemma read_block_iv (iv : bytes) (pieces : list bytes) : length iv = 16%nat ->
  exists src, read_block (iv :: pieces) = (src, iv) /\ concat src = concat pieces.
Proof.
  intros L. destruct (read_block (iv :: pieces)) as [src blk] eqn:Er.
  destruct (read_block_spec _ _ _ Er) as [A B]. cbn [concat] in A, B.
  exists src. rewrite A, B. rewrite firstn_app, <- L, Nat.sub_diag, firstn_all. cbn [firstn]. rewrite app_nil_r.
  rewrite skipn_app, Nat.sub_diag, skipn_all. split; reflexivity.
Qed.

(* ================================================================================================= *)
Section PipelineFacts.
Variables E D : encryption -> bytes -> bytes -> bytes.
Variable compress : compression -> N -> list bytes -> list bytes.
Variable decompress : compression -> bytes -> res bytes.
Variable verify : bytes -> bytes -> res bytes.

(* laws of the primitives (premises of every theorem once the section is closed) *)
Hypothesis D_len : forall a k c, len16 c -> len16 (D a k c).
Hypothesis DE : forall a k b, len16 b -> D a k (E a k b) = b.
Hypothesis E_len : forall a k b, len16 b -> len16 (E a k b).
(* decompressing everything the compressor emitted gives back what was written, for every slicing *)
Hypothesis compress_law : forall c lvl ws, decompress c (concat (compress c lvl ws)) = Ok (concat ws).

Notation zwrite := (zwrite compress).
Notation cwrite := (cwrite E).
Notation data_pieces := (data_pieces E compress).
Notation build_data := (build_data E compress).
Notation build_normal := (build_normal E compress).
Notation decode_stream := (decode_stream E D decompress verify).
Notation decode_normal := (decode_normal E D decompress verify).

(* the cipher context the writer uses and the password the reader is given fit together *)
Definition wf_ctx (ctx : cctx) (pw : bytes) : Prop :=
  key_iv_ok (c_key ctx) (c_iv ctx) = true /\ verify (c_phsf ctx) pw = Ok (c_key ctx) /\
  utf8_valid (c_phsf ctx) = true.

(* the (compressed) stream that goes into the cipher *)
Definition plain (cfg : config) (wcuts : list bytes) : bytes := concat (zwrite (g_comp cfg) (g_level cfg) wcuts).
(* the reader issues more reads than that stream has bytes: with positive buffers it sees the end *)
Definition covers (cfg : config) (wcuts : list bytes) (rbufs : list N) : Prop := len (plain cfg wcuts) < len rbufs.

Lemma zwrite_law c lvl ws :
  (match c with CNo => Ok (concat (zwrite c lvl ws)) | c' => decompress c' (concat (zwrite c lvl ws)) end) = Ok (concat ws).
Proof. destruct c; cbn [Pipeline.zwrite]; try apply compress_law. reflexivity. Qed.

Lemma decode_stream_comp c e m p pw d r :
  decode_stream c e m p pw d r =
  (do got <- decode_stream CNo e m p pw d r; match c with CNo => Ok got | c' => decompress c' got end).
Proof.
  unfold Pipeline.decode_stream.
  match goal with |- bind ?X _ = _ => destruct X; reflexivity end.
Qed.

Lemma iv_len ctx pw : wf_ctx ctx pw -> length (c_iv ctx) = 16%nat.
Proof.
  intros (H & _). unfold key_iv_ok in H. apply andb_prop in H. destruct H as [_ H]. apply N.eqb_eq in H.
  unfold len in H. lia.
Qed.

(* the cipher layer: whatever went into the cipher writer comes out of the cipher reader, for any cut
   of the ciphertext into data chunks and any buffer sizes *)
Lemma cipher_roundtrip cfg ctx pw ws (pieces : list bytes) rbufs : wf_ctx ctx pw ->
  concat pieces = concat (cwrite cfg ctx ws) ->
  Forall (fun n => 0 < n) rbufs -> len (concat ws) < len rbufs ->
  decode_stream CNo (g_enc cfg) (g_mode cfg) (phsf_part cfg ctx) pw (iv_part cfg ctx ++ pieces) rbufs = Ok (concat ws).
Proof.
  intros Hctx Hp Hpos Hcov. pose proof (iv_len _ _ Hctx) as Liv. destruct Hctx as (Hok & Hv & _).
  unfold Pipeline.decode_stream, Pipeline.cwrite, phsf_part, iv_part, encrypted in *.
  destruct (g_enc cfg) eqn:Ee.
  - (* no encryption *)
    cbn [app bind]. rewrite flat_reads_complete; [rewrite Hp; reflexivity|exact Hpos|].
    apply flat_reads_reach_end; [exact Hpos|]. rewrite Hp. exact Hcov.
  - cbn [app]. rewrite Hv. cbn [bind].
    destruct (read_block_iv (c_iv ctx) pieces Liv) as (src & Hrb & Hsrc). rewrite Hrb.
    replace (len (c_iv ctx) =? 16) with true by (symmetry; apply N.eqb_eq; unfold len; lia). cbn [negb].
    destruct (g_mode cfg).
    + destruct (cbcw_writes (E EAes) _ ws) as [s' calls] eqn:Ew.
      destruct (cbc_roundtrip (E EAes) (D EAes) (D_len EAes) (DE EAes) (E_len EAes)
                  (c_key ctx) (c_iv ctx) ws {| w_key := c_key ctx; w_prev := c_iv ctx; w_buf := [] |} s' calls src rbufs) as (st & Hn & Hr);
        [unfold cbcw_new; rewrite Hok; reflexivity | exact Ew | rewrite Hsrc, Hp, concat_app; reflexivity|].
      rewrite Hn. cbn [bind]. rewrite cbcr_reads_eq, Hr. cbn [bind].
      rewrite deliver_complete; [reflexivity|exact Hpos|]. apply deliver_reach_end; assumption.
    + destruct (ctrw_writes (E EAes) _ ws) as [s' calls] eqn:Ew.
      destruct (ctr_roundtrip (E EAes) (c_key ctx) (c_iv ctx) ws {| cw_key := c_key ctx; cw_iv := of_be (c_iv ctx); cw_pos := 0 |} s' calls src rbufs) as (st & Hn & _ & _ & Hc);
        [unfold ctrw_new; rewrite Hok; reflexivity | exact Ew | rewrite Hsrc, Hp; reflexivity|].
      rewrite Hn. cbn [bind]. rewrite ctrr_reads_eq, Hc; [reflexivity|exact Hpos|].
      destruct (ctrr_seq_spec (E EAes) rbufs st) as [_ B]. apply (in_nil_lengths _ _ B).
      apply flat_reads_reach_end; [exact Hpos|].
      unfold ctrr_new in Hn. rewrite Hok in Hn. injection Hn as <-. cbn [cr_src].
      rewrite Hsrc, Hp. destruct (ctrw_writes_spec _ _ _ _ _ Ew) as (Hx & _). rewrite Hx, ctr_xor_len. exact Hcov.
  - cbn [app]. rewrite Hv. cbn [bind].
    destruct (read_block_iv (c_iv ctx) pieces Liv) as (src & Hrb & Hsrc). rewrite Hrb.
    replace (len (c_iv ctx) =? 16) with true by (symmetry; apply N.eqb_eq; unfold len; lia). cbn [negb].
    destruct (g_mode cfg).
    + destruct (cbcw_writes (E ECamellia) _ ws) as [s' calls] eqn:Ew.
      destruct (cbc_roundtrip (E ECamellia) (D ECamellia) (D_len ECamellia) (DE ECamellia) (E_len ECamellia)
                  (c_key ctx) (c_iv ctx) ws {| w_key := c_key ctx; w_prev := c_iv ctx; w_buf := [] |} s' calls src rbufs) as (st & Hn & Hr);
        [unfold cbcw_new; rewrite Hok; reflexivity | exact Ew | rewrite Hsrc, Hp, concat_app; reflexivity|].
      rewrite Hn. cbn [bind]. rewrite cbcr_reads_eq, Hr. cbn [bind].
      rewrite deliver_complete; [reflexivity|exact Hpos|]. apply deliver_reach_end; assumption.
    + destruct (ctrw_writes (E ECamellia) _ ws) as [s' calls] eqn:Ew.
      destruct (ctr_roundtrip (E ECamellia) (c_key ctx) (c_iv ctx) ws {| cw_key := c_key ctx; cw_iv := of_be (c_iv ctx); cw_pos := 0 |} s' calls src rbufs) as (st & Hn & _ & _ & Hc);
        [unfold ctrw_new; rewrite Hok; reflexivity | exact Ew | rewrite Hsrc, Hp; reflexivity|].
      rewrite Hn. cbn [bind]. rewrite ctrr_reads_eq, Hc; [reflexivity|exact Hpos|].
      destruct (ctrr_seq_spec (E ECamellia) rbufs st) as [_ B]. apply (in_nil_lengths _ _ B).
      apply flat_reads_reach_end; [exact Hpos|].
      unfold ctrr_new in Hn. rewrite Hok in Hn. injection Hn as <-. cbn [cr_src].
      rewrite Hsrc, Hp. destruct (ctrw_writes_spec _ _ _ _ _ Ew) as (Hx & _). rewrite Hx, ctr_xor_len. exact Hcov.
Qed.

(* compress -> encrypt -> any sink that keeps the bytes; decrypt -> decompress *)
Lemma stream_roundtrip cfg ctx pw wcuts (pieces : list bytes) rbufs : wf_ctx ctx pw ->
  concat pieces = concat (data_pieces cfg ctx wcuts) ->
  Forall (fun n => 0 < n) rbufs -> covers cfg wcuts rbufs ->
  decode_stream (g_comp cfg) (g_enc cfg) (g_mode cfg) (phsf_part cfg ctx) pw (iv_part cfg ctx ++ pieces) rbufs
  = Ok (concat wcuts).
Proof.
  intros Hctx Hp Hpos Hcov. rewrite decode_stream_comp.
  rewrite (cipher_roundtrip cfg ctx pw (zwrite (g_comp cfg) (g_level cfg) wcuts)) by assumption.
  cbn [bind]. apply zwrite_law.
Qed.

(* ================================================================================================= *)
(* 1. contents                                                                                         *)
(* ================================================================================================= *)
Theorem entry_roundtrip cfg ctx pw sp wcuts rbufs :
  wf_ctx ctx pw -> concat wcuts = sp_content sp ->
  Forall (fun n => 0 < n) rbufs -> covers (eff_cfg cfg (sp_kind sp)) wcuts rbufs ->
  decode_normal (build_normal cfg ctx sp wcuts) pw rbufs = Ok (sp_content sp).
Proof.
  intros Hctx Hc Hpos Hcov. unfold Pipeline.decode_normal, Pipeline.build_normal. cbv zeta.
  cbn [n_hdr n_phsf n_data f_comp f_enc f_mode]. unfold Pipeline.build_data.
  rewrite (stream_roundtrip _ ctx pw wcuts); try assumption; [rewrite Hc; reflexivity|].
  unfold flat_sink. apply concat_filter_ne.
Qed.
End PipelineFacts.
