(* WfPipelineFacts.v — C14 writer_wf for the library's write pipelines (Model/Pipeline.v):
   the entries the builders produce (EntryBuilder = build_normal, SolidEntryBuilder = build_solid)
   are `writable`, and the chunk sequences the streaming writers emit (Archive::write_file =
   stream_file_chunks, SolidArchive = solid_archive_chunks) are accepted by the strict recogniser,
   for every configuration (compression x cipher x mode), every slicing of the input into writes
   and every block cipher that keeps 16-byte blocks.  The compressor is an arbitrary function.
   What the recogniser needs of the caller's data is explicit: `writable_spec` (the name is a
   non-empty sanitised name, metadata in range, unknown chunks ancillary) and `strict_ctx` (key/IV sizes,
   the PHSF string has PHC shape).  Nothing is asked of the size of the writes that reach the chunk sinks: a write of
   2^32 bytes or more is cut into several chunks by FlattenWriter<u32::MAX> (builders) and, since fix 45407aa2, by
   ChunkStreamWriter::write (streaming writers): chunk_sink_bounded / flat_sink_bounded.  `small_pieces` and
   `compress_small` (premises of every theorem of this file until then) are kept as definitions only. *)
From PNA Require Import Base Crc32 Name Codec Chunk Archive Entry Flatten Cbc Ctr Pipeline Wf.
From PNA Require Import BaseFacts NameFacts CodecFacts Crc32Facts ChunkFacts ArchiveFacts PiecesFacts EntryFacts CbcFacts CtrFacts
  FlattenFacts StreamFacts PipelineFacts WfFacts WfWriterFacts WfAgreeFacts.
Require Import ZArith ZifyN ZifyNat ZifyBool.
Open Scope N_scope.

(* ================================================================================================= *)
(* 1. archives of accepted chunk sequences                                                            *)
(* ================================================================================================= *)
(* cs is one entry as the strict grammar sees it, decoding to x *)
Definition accepted_as (cs : list chunk) (x : read_entry) : Prop :=
  Forall body_chunk cs /\
  forall rest, entries_sm true any_entry (cs ++ rest) None =
               sdo es <- entries_sm true any_entry rest None; SOk (x :: es).

Lemma accepted_entries ess xs : Forall2 accepted_as ess xs -> entries_of (concat ess) = SOk xs.
Proof.
  unfold entries_of. induction 1 as [|cs x ess xs (_ & A) _ IH]; [reflexivity|].
  cbn [concat]. rewrite A, IH. reflexivity.
Qed.

Theorem accepted_archive ess xs : Forall2 accepted_as ess xs ->
  strict_parts [write_raw_archive 0 ess] = SOk xs.
Proof.
  intro F. unfold strict_parts. cbn [bodies]. rewrite part_body_written.
  - cbn [sbind]. apply accepted_entries. exact F.
  - reflexivity.
  - apply Forall_concat. induction F as [|cs x ess xs (B & _) _ IH]; constructor; assumption.
Qed.

Lemma writable_accepted e : writable e -> accepted_as (ser_entry e) (normalize_entry e).
Proof.
  intro W. split; [apply ser_entry_chunks; exact W|]. intro rest.
  destruct e as [n|s]; cbn [ser_entry normalize_entry writable] in *.
  - apply entries_sm_normal_any. exact W.
  - apply entries_sm_solid_any. exact W.
Qed.

Lemma sum_len_16 l : Forall len16 l -> sum_len l = 16 * len l.
Proof.
  induction 1 as [|b l Hb _ IH]; [reflexivity|]. rewrite sum_len_cons, IH, len_cons.
  unfold len16 in Hb. unfold len at 1. rewrite Hb. lia.
Qed.

Lemma sum_len_ne l : sum_len (filter ne l) = sum_len l.
Proof.
  induction l as [|d l IH]; [reflexivity|]. cbn [filter]. destruct d as [|b d]; cbn [ne].
  - rewrite sum_len_cons, IH. reflexivity.
  - rewrite !sum_len_cons, IH. reflexivity.
Qed.

Lemma Forall_filter {A} (P : A -> Prop) f l : Forall P l -> Forall P (filter f l).
Proof. induction 1; cbn [filter]; [constructor|]. destruct (f x); [constructor|]; assumption. Qed.

(* an EntryName (UTF-8, a fixed point of the sanitiser) is a valid name for the recogniser unless it is empty *)
Lemma valid_name_sanitised n : utf8_valid n = true -> sanitize_name n = n -> n <> [] -> valid_name n = true.
Proof.
  intros U S NE. unfold valid_name. rewrite U. cbn [andb]. apply forallb_forall. intros c Hc.
  assert (sanitize_name n <> []) as NE' by (rewrite S; exact NE).
  pose proof (sanitize_safe_segments n NE') as F. rewrite S in F. rewrite Forall_forall in F.
  apply normal_component_seg. exact (F c Hc).
Qed.
Lemma valid_name_nonempty n : valid_name n = true -> n <> [].
Proof. intros V ->. vm_compute in V. discriminate. Qed.

Section WfPipeline.
Variable E : encryption -> bytes -> bytes -> bytes.
Variable compress : compression -> N -> list bytes -> list bytes.
Hypothesis E_len : forall a k b, len16 b -> len16 (E a k b).

Notation cwrite := (cwrite E).
Notation data_pieces := (data_pieces E compress).
Notation build_data := (build_data E compress).
Notation build_normal := (build_normal E compress).
Notation stream_file_chunks := (stream_file_chunks E compress).
Notation build_solid := (build_solid E compress).
Notation solid_archive_chunks := (solid_archive_chunks E compress).

(* ================================================================================================= *)
(* 2. the data stream of an entry has the shape the recogniser asks for                               *)
(* ================================================================================================= *)
(* CipherContext: 32-byte key, 16-byte IV, a PHSF string of PHC shape *)
Definition strict_ctx (ctx : cctx) : Prop :=
  key_iv_ok (c_key ctx) (c_iv ctx) = true /\ phsf_shape (c_phsf ctx) = true /\ len (c_phsf ctx) < 2 ^ 32.
(* every write that reaches the chunk sink fits a chunk *)
Definition small_pieces (cfg : config) (ctx : cctx) (wcuts : list bytes) : Prop :=
  Forall (fun p => len p < 2 ^ 32) (data_pieces cfg ctx wcuts).

Lemma iv_len16 ctx : strict_ctx ctx -> len (c_iv ctx) = 16.
Proof. intros (K & _). unfold key_iv_ok in K. apply andb_prop in K. destruct K as (_ & K). apply N.eqb_eq in K. exact K. Qed.

(* the CBC writer emits whole blocks, at least one (PKCS#7 always pads) *)
Lemma cbc_pieces cfg ctx ws : Pipeline.encrypted cfg = true -> g_mode cfg = MCbc -> strict_ctx ctx ->
  exists k, 0 < k /\ sum_len (cwrite cfg ctx ws) = 16 * k /\ Forall len16 (cwrite cfg ctx ws).
Proof.
  intros EN MD (K & _). unfold Pipeline.cwrite. unfold Pipeline.encrypted in EN.
  assert (forall a, exists k, 0 < k /\
    sum_len (let (s', calls) := cbcw_writes (E a) {| w_key := c_key ctx; w_prev := c_iv ctx; w_buf := [] |} ws in
             concat (map snd calls) ++ cbcw_finish (E a) s') = 16 * k /\
    Forall len16 (let (s', calls) := cbcw_writes (E a) {| w_key := c_key ctx; w_prev := c_iv ctx; w_buf := [] |} ws in
             concat (map snd calls) ++ cbcw_finish (E a) s')) as G.
  { intro a. destruct (cbcw_writes (E a) {| w_key := c_key ctx; w_prev := c_iv ctx; w_buf := [] |} ws) as [s' calls] eqn:W.
    assert (cbcw_new (c_key ctx) (c_iv ctx) = Ok {| w_key := c_key ctx; w_prev := c_iv ctx; w_buf := [] |}) as NW
      by (unfold cbcw_new; rewrite K; reflexivity).
    destruct (cbcw_spec (E a) _ _ _ _ _ _ NW W) as (_ & _ & L). specialize (L (E_len a)).
    exists (len (concat (map snd calls) ++ cbcw_finish (E a) s')). split; [|split; [apply sum_len_16; exact L|exact L]].
    rewrite len_app. unfold cbcw_finish. change (len [snd (enc_block (E a) s' (pkcs7_pad_block (w_buf s')))]) with 1. lia. }
  rewrite MD. destruct (g_enc cfg); [discriminate|apply G|apply G].
Qed.

Lemma data_len_built cfg ctx ws (P : list bytes) : strict_ctx ctx ->
  sum_len P = sum_len (data_pieces cfg ctx ws) ->
  data_len_ok (g_enc cfg) (g_mode cfg) (sum_len (iv_part cfg ctx ++ P)) = true.
Proof.
  intros SC SP. unfold data_len_ok, iv_part.
  destruct (Pipeline.encrypted cfg) eqn:EN.
  2:{ unfold Pipeline.encrypted in EN. destruct (g_enc cfg); try discriminate. reflexivity. }
  assert (encrypted (g_enc cfg) = true) as -> by (unfold Pipeline.encrypted in EN; destruct (g_enc cfg); [discriminate|reflexivity|reflexivity]).
  cbn [negb orb app]. rewrite sum_len_cons, (iv_len16 _ SC), SP.
  destruct (g_mode cfg) eqn:MD.
  - unfold Pipeline.data_pieces. destruct (cbc_pieces cfg ctx (zwrite compress (g_comp cfg) (g_level cfg) ws) EN MD SC) as (k & K0 & -> & _).
    apply andb_true_intro. split; [apply N.leb_le; lia|]. apply andb_true_intro. split; [apply N.ltb_lt; lia|].
    apply N.eqb_eq. replace (16 + 16 * k) with ((1 + k) * 16) by lia. apply N.mod_mul. lia.
  - rewrite andb_true_r. apply N.leb_le. lia.
Qed.

Lemma phsf_built cfg ctx : strict_ctx ctx -> phsf_ok (g_enc cfg) (phsf_part cfg ctx).
Proof.
  intros (_ & S & L). unfold phsf_part, Pipeline.encrypted. destruct (g_enc cfg); cbn [phsf_ok encrypted]; auto.
Qed.

Lemma iv_small cfg ctx : strict_ctx ctx -> Forall (fun d => len d < 2 ^ 32) (iv_part cfg ctx).
Proof.
  intro SC. unfold iv_part. destruct (Pipeline.encrypted cfg); [|constructor].
  constructor; [rewrite (iv_len16 _ SC); reflexivity|constructor].
Qed.

(* ================================================================================================= *)
(* 3. EntryBuilder: built entries are writable                                                        *)
(* ================================================================================================= *)
(* what the caller hands to the builder *)
Definition writable_spec (sp : spec) : Prop :=
  valid_name (sp_name sp) = true /\ 6 + len (sp_name sp) < 2 ^ 32 /\
  opt_all (fun t => t < 2 ^ 64) (sp_ctime sp) /\ opt_all (fun t => t < 2 ^ 64) (sp_mtime sp) /\
  opt_all (fun t => t < 2 ^ 64) (sp_atime sp) /\ opt_all wf_perm (sp_perm sp) /\
  Forall (fun x => wf_xattr x /\ 8 + len (x_name x) + len (x_value x) < 2 ^ 32) (sp_xattrs sp) /\
  Forall extra_ok (sp_extra sp).

Lemma fold_add_sum_len l : fold_left N.add (map len l) 0 = sum_len l.
Proof. reflexivity. Qed.

Theorem build_normal_writable cfg ctx sp wcuts :
  writable_spec sp -> strict_ctx ctx -> len (concat wcuts) < 2 ^ 128 ->
  writable_normal (build_normal cfg ctx sp wcuts).
Proof.
  intros (V & NL & TC & TM & TA & PM & XS & EX) SC RS.
  unfold writable_normal, Pipeline.build_normal. cbv zeta.
  cbn [n_hdr n_phsf n_extra n_data n_meta n_xattrs m_raw_size m_compressed m_ctime m_mtime m_atime m_perm
       f_major f_minor f_name f_enc f_mode].
  split; [reflexivity|]. split; [reflexivity|]. split; [exact V|]. split; [exact NL|].
  split; [apply phsf_built; exact SC|]. split; [exact EX|].
  split; [reflexivity|].
  split.
  { unfold Pipeline.build_data. apply (data_len_built _ ctx (eff_wcuts (sp_kind sp) wcuts)); [exact SC|].
    apply flat_sink_sum_len. }
  split; [destruct (sp_kind sp); cbn [opt_all]; try exact I; exact RS|].
  repeat split; assumption.
Qed.

(* ================================================================================================= *)
(* 4. Archive::write_file: the streamed chunk sequence is an accepted entry                           *)
(* ================================================================================================= *)
Definition streamed_normal (cfg : config) (ctx : cctx) (sp : spec) (wcuts : list bytes) : normal_entry :=
  let data := iv_part cfg ctx ++ chunk_sink (data_pieces cfg ctx wcuts) in
  {| n_hdr := {| f_major := 0; f_minor := 0; f_kind := KFile; f_comp := g_comp cfg;
                 f_enc := g_enc cfg; f_mode := g_mode cfg; f_name := sp_name sp |};
     n_phsf := phsf_part cfg ctx; n_extra := []; n_data := data;
     n_meta := {| m_raw_size := None; m_compressed := sum_len data;
                  m_ctime := sp_ctime sp; m_mtime := sp_mtime sp; m_atime := sp_atime sp; m_perm := sp_perm sp |};
     n_xattrs := [] |}.

Lemma sl_fdat_all enc ds : forall a, (encrypted enc = true -> is_some (k_phsf a) = true) ->
  strict_loop enc (map (mk FDAT) ds) a = SOk (upd_data ds a).
Proof.
  induction ds as [|d ds IH]; intros a P; [rewrite upd_data_nil; reflexivity|].
  cbn [map strict_loop]. unfold strict_step at 1. tysimp. cbv zeta. cbn [cdata mk].
  assert (encrypted enc && negb (is_some (k_phsf a)) = false) as ->.
  { destruct (encrypted enc); [rewrite P by reflexivity|]; reflexivity. }
  cbn [sbind]. rewrite IH by exact P. f_equal.
  unfold upd_data. cbn [k_info k_phsf k_extra k_data k_csize k_size k_c k_m k_a k_perm k_x].
  rewrite <- app_assoc, sum_len_cons, N.add_assoc. reflexivity.
Qed.

Definition stream_body (cfg : config) (ctx : cctx) (sp : spec) (wcuts : list bytes) : list chunk :=
  opt_chunk cTIM time_to_bytes (sp_ctime sp) ++ opt_chunk mTIM time_to_bytes (sp_mtime sp)
  ++ opt_chunk aTIM time_to_bytes (sp_atime sp) ++ opt_chunk fPRM perm_to_bytes (sp_perm sp)
  ++ opt_chunk PHSF (fun s => s) (phsf_part cfg ctx)
  ++ map (mk FDAT) (iv_part cfg ctx ++ chunk_sink (data_pieces cfg ctx wcuts)).

Lemma stream_file_body cfg ctx sp wcuts :
  stream_file_chunks cfg ctx sp wcuts =
  mk FHED (fhed_to_bytes (n_hdr (streamed_normal cfg ctx sp wcuts))) :: stream_body cfg ctx sp wcuts ++ [mk FEND []].
Proof. unfold Pipeline.stream_file_chunks, stream_body. cbn [app]. rewrite <- !app_assoc. reflexivity. Qed.

Lemma strict_normal_streamed cfg ctx sp wcuts : writable_spec sp -> strict_ctx ctx ->
  strict_normal (mk FHED (fhed_to_bytes (n_hdr (streamed_normal cfg ctx sp wcuts)))) (stream_body cfg ctx sp wcuts) (mk FEND [])
  = SOk (streamed_normal cfg ctx sp wcuts).
Proof.
  intros (V & NL & TC & TM & TA & PM & _ & _) SC.
  pose proof (phsf_built cfg ctx SC) as PH.
  pose proof (data_len_built cfg ctx wcuts (chunk_sink (data_pieces cfg ctx wcuts)) SC (chunk_sink_sum_len _)) as DL.
  unfold strict_normal, stream_body, streamed_normal in *. cbv zeta.
  cbn [cdata mk n_hdr]. rewrite strict_fhed_ser by (try reflexivity; exact V). cbn [sbind f_enc f_mode].
  destruct (sp_ctime sp), (sp_mtime sp), (sp_atime sp), (sp_perm sp), (phsf_part cfg ctx);
  cbn [opt_all phsf_ok] in *;
  repeat (rewrite strict_loop_app;
    first [ rewrite sl_ctime by (cbn [opt_all]; first [assumption|reflexivity|exact I])
          | rewrite sl_mtime by (cbn [opt_all]; first [assumption|reflexivity|exact I])
          | rewrite sl_atime by (cbn [opt_all]; first [assumption|reflexivity|exact I])
          | rewrite sl_perm by (cbn [opt_all]; first [assumption|reflexivity|exact I])
          | rewrite sl_phsf by (cbn [phsf_ok]; first [assumption|reflexivity]) ];
    cbn [sbind]);
  (rewrite sl_fdat_all by
     (cbn [opt_upd upd_info upd_phsf upd_extra upd_data upd_size upd_c upd_m upd_a upd_perm upd_x
           k_info k_phsf k_extra k_data k_csize k_size k_c k_m k_a k_perm k_x is_some];
      first [reflexivity | intro; congruence]));
  cbn [sbind];
  cbn [opt_upd upd_info upd_phsf upd_extra upd_data upd_size upd_c upd_m upd_a upd_perm upd_x
       k_info k_phsf k_extra k_data k_csize k_size k_c k_m k_a k_perm k_x app is_some is_nil negb];
  rewrite N.add_0_l, DL;
  try (destruct PH as (-> & _ & _)); try rewrite PH; cbn [andb negb]; reflexivity.
Qed.

Lemma stream_body_chunks cfg ctx sp wcuts : writable_spec sp -> strict_ctx ctx ->
  Forall entry_chunk (stream_body cfg ctx sp wcuts).
Proof.
  intros (_ & _ & TC & TM & TA & PM & _ & _) SC. pose proof (phsf_built cfg ctx SC) as PH.
  unfold stream_body. repeat (apply Forall_app; split).
  - apply Forall_opt_chunk. destruct (sp_ctime sp); cbn [opt_all]; [|exact I]. apply lit_entry_chunk; reflexivity.
  - apply Forall_opt_chunk. destruct (sp_mtime sp); cbn [opt_all]; [|exact I]. apply lit_entry_chunk; reflexivity.
  - apply Forall_opt_chunk. destruct (sp_atime sp); cbn [opt_all]; [|exact I]. apply lit_entry_chunk; reflexivity.
  - apply Forall_opt_chunk. destruct (sp_perm sp); cbn [opt_all] in *; [|exact I].
    apply lit_entry_chunk; try reflexivity. apply perm_bytes_len. exact PM.
  - apply Forall_opt_chunk. destruct (phsf_part cfg ctx); cbn [opt_all phsf_ok] in *; [|exact I].
    apply lit_entry_chunk; try reflexivity. apply PH.
  - assert (Forall (fun d => len d < 2 ^ 32) (iv_part cfg ctx ++ chunk_sink (data_pieces cfg ctx wcuts))) as F
      by (apply Forall_app; split; [apply iv_small; exact SC|apply chunk_sink_bounded]).
    apply Forall_forall. intros c Hc. apply in_map_iff in Hc. destruct Hc as (d & <- & Hd).
    rewrite Forall_forall in F. apply lit_entry_chunk; try reflexivity. exact (F d Hd).
Qed.

Theorem stream_file_accepted cfg ctx sp wcuts : writable_spec sp -> strict_ctx ctx ->
  accepted_as (stream_file_chunks cfg ctx sp wcuts) (RNormal (streamed_normal cfg ctx sp wcuts)).
Proof.
  intros WS SC. pose proof (stream_body_chunks cfg ctx sp wcuts WS SC) as B. split.
  - rewrite stream_file_body. constructor.
    + destruct WS as (_ & NL & _). repeat split; try reflexivity. cbn [cdata mk]. rewrite fhed_bytes_len. exact NL.
    + apply Forall_app. split; [|constructor; [exact fend_body_chunk|constructor]].
      eapply Forall_impl; [|exact B]. intros c H. apply H.
  - intro rest. rewrite stream_file_body. cbn [app]. rewrite <- app_assoc. cbn [app].
    rewrite entries_sm_entry.
    + unfold any_entry at 1.
      change (ty_is (mk FHED (fhed_to_bytes (n_hdr (streamed_normal cfg ctx sp wcuts)))) FHED) with true. cbv iota.
      unfold normal_only. rewrite strict_normal_streamed by assumption. reflexivity.
    + reflexivity.
    + eapply Forall_impl; [|exact B]. intros c H. apply H.
    + reflexivity.
Qed.

(* ================================================================================================= *)
(* 5. solid entries: SolidEntryBuilder and the streaming SolidArchive                                 *)
(* ================================================================================================= *)
(* a solid entry without compression and encryption carries its inner entries in the clear: the
   recogniser then looks inside, and what it finds must be written file entries *)
Definition plain_inner (cfg : config) (swcuts : list bytes) : Prop :=
  g_comp cfg = CNo -> g_enc cfg = ENo ->
  exists inner, Forall writable_normal inner /\ concat swcuts = solid_plain_stream inner.

Lemma concat_filter_ne' ps : concat (filter ne ps) = concat ps.
Proof. induction ps as [|p ps IH]; [reflexivity|]. destruct p; cbn [filter ne concat app]; rewrite IH; reflexivity. Qed.

Lemma plain_pieces cfg ctx ws : g_comp cfg = CNo -> g_enc cfg = ENo -> data_pieces cfg ctx ws = ws.
Proof. intros C N. unfold Pipeline.data_pieces, Pipeline.cwrite, zwrite. rewrite C, N. reflexivity. Qed.

Lemma plain_solid_cfg cfg : plain_solid {| s_major := 0; s_minor := 0; s_comp := g_comp cfg; s_enc := g_enc cfg; s_mode := g_mode cfg |} = true ->
  g_comp cfg = CNo /\ g_enc cfg = ENo.
Proof. unfold plain_solid. cbn [s_comp s_enc]. destruct (g_comp cfg), (g_enc cfg); try discriminate. auto. Qed.

Theorem build_solid_writable cfg ctx extra swcuts :
  strict_ctx ctx -> Forall sextra_ok extra -> plain_inner cfg swcuts ->
  writable_solid (build_solid cfg ctx extra swcuts).
Proof.
  intros SC EX PI. unfold writable_solid, Pipeline.build_solid. cbv zeta.
  cbn [so_hdr so_phsf so_data so_extra s_major s_minor s_enc s_mode].
  split; [reflexivity|]. split; [reflexivity|]. split; [apply phsf_built; exact SC|]. split; [exact EX|].
  split.
  { unfold Pipeline.build_data. apply Forall_app. split; [apply iv_small; exact SC|].
    eapply Forall_impl; [|apply flat_sink_bounded]. intros p (_ & H). exact H. }
  split.
  { unfold Pipeline.build_data. apply (data_len_built _ ctx swcuts); [exact SC|]. apply flat_sink_sum_len. }
  intro PS. destruct (plain_solid_cfg _ PS) as (C & N). destruct (PI C N) as (inner & WI & EQ).
  unfold Pipeline.build_data, iv_part, Pipeline.encrypted. rewrite N. cbn [app].
  rewrite flat_sink_concat, plain_pieces by assumption. rewrite EQ.
  unfold solid_plain_stream. rewrite inner_entries_written by exact WI. reflexivity.
Qed.

Definition streamed_solid (cfg : config) (ctx : cctx) (swcuts : list bytes) : solid_entry :=
  {| so_hdr := {| s_major := 0; s_minor := 0; s_comp := g_comp cfg; s_enc := g_enc cfg; s_mode := g_mode cfg |};
     so_phsf := phsf_part cfg ctx; so_data := iv_part cfg ctx ++ chunk_sink (data_pieces cfg ctx swcuts); so_extra := [] |}.

Lemma solid_archive_ser cfg ctx swcuts :
  solid_archive_chunks cfg ctx swcuts = ser_solid (streamed_solid cfg ctx swcuts).
Proof. reflexivity. Qed.

Theorem streamed_solid_writable cfg ctx swcuts :
  strict_ctx ctx -> plain_inner cfg swcuts ->
  writable_solid (streamed_solid cfg ctx swcuts).
Proof.
  intros SC PI. unfold writable_solid, streamed_solid. cbv zeta.
  cbn [so_hdr so_phsf so_data so_extra s_major s_minor s_enc s_mode].
  split; [reflexivity|]. split; [reflexivity|]. split; [apply phsf_built; exact SC|]. split; [constructor|].
  split; [apply Forall_app; split; [apply iv_small; exact SC|apply chunk_sink_bounded]|].
  split; [apply (data_len_built _ ctx swcuts); [exact SC|apply chunk_sink_sum_len]|].
  intro PS. destruct (plain_solid_cfg _ PS) as (C & N). destruct (PI C N) as (inner & WI & EQ).
  unfold iv_part, Pipeline.encrypted. rewrite N. cbn [app]. rewrite chunk_sink_concat, plain_pieces by assumption. rewrite EQ.
  unfold solid_plain_stream. rewrite inner_entries_written by exact WI. reflexivity.
Qed.

Theorem solid_archive_accepted cfg ctx swcuts :
  strict_ctx ctx -> plain_inner cfg swcuts ->
  accepted_as (solid_archive_chunks cfg ctx swcuts) (RSolid (streamed_solid cfg ctx swcuts)).
Proof.
  intros SC PI. rewrite solid_archive_ser.
  exact (writable_accepted (RSolid _) (streamed_solid_writable cfg ctx swcuts SC PI)).
Qed.

(* ---- re-creating a solid entry from file entries (SolidEntryBuilder::add_entry of each, build): the
   writes the pipeline sees are the chunk writes of the entries; with a compressor that hands on pieces
   shorter than 2^32 bytes the built solid entry is writable ------------------------------------------ *)
Definition small (p : bytes) : Prop := len p < 2 ^ 32.

Lemma chunk_writes_small c : wf_chunk c -> Forall small (chunk_writes c).
Proof.
  intros (T & D). unfold chunk_writes, small.
  assert (len (be32 (len (cdata c))) < 2 ^ 32) as H1 by (rewrite len_be32; reflexivity).
  assert (len (cty c) < 2 ^ 32) as H2 by (unfold len; rewrite T; reflexivity).
  assert (len (be32 (chunk_crc c)) < 2 ^ 32) as H3 by (rewrite len_be32; reflexivity).
  destruct (cdata c) eqn:CD; cbn [app]; repeat constructor; try assumption.
Qed.

Lemma chunks_writes_small cs : Forall wf_chunk cs -> Forall small (chunks_writes cs).
Proof.
  unfold chunks_writes. induction 1 as [|c cs W _ IH]; [constructor|]. cbn [map concat].
  apply Forall_app. split; [apply chunk_writes_small; exact W|exact IH].
Qed.

Lemma solid_writes_small inner : Forall writable_normal inner -> Forall small (solid_writes inner).
Proof.
  intro W. unfold solid_writes. apply chunks_writes_small. apply Forall_concat. apply Forall_forall.
  intros cs Hc. apply in_map_iff in Hc. destruct Hc as (n & <- & Hn). rewrite Forall_forall in W.
  eapply Forall_impl; [|apply ser_normal_chunks; exact (W n Hn)]. intros c H. apply H.
Qed.

Lemma chunk_writes_concat' c : concat (chunk_writes c) = ser_chunk c.
Proof. unfold chunk_writes, ser_chunk. destruct (cdata c); cbn [concat app]; rewrite ?app_nil_r, <- ?app_assoc; reflexivity. Qed.

Lemma solid_writes_stream inner : concat (solid_writes inner) = solid_plain_stream inner.
Proof.
  unfold solid_writes, solid_plain_stream, chunks_writes, ser_chunks. induction (concat (map ser_normal inner)) as [|c cs IH]; [reflexivity|].
  cbn [map concat]. rewrite concat_app, chunk_writes_concat', IH. reflexivity.
Qed.

Lemma ctrw_small (F : bytes -> bytes -> bytes) : forall ws s, Forall small ws ->
  Forall small (concat (map snd (snd (ctrw_writes F s ws)))).
Proof.
  induction ws as [|d r IH]; intros s W; cbn [ctrw_writes]; [constructor|]. inversion W; subst.
  unfold ctrw_write. destruct (ctrw_writes F _ r) as [s2 rest] eqn:R. cbn [snd map concat app].
  constructor; [unfold small; rewrite ctr_xor_len; assumption|].
  specialize (IH {| cw_key := cw_key s; cw_iv := cw_iv s; cw_pos := cw_pos s + len d |} H2). rewrite R in IH. exact IH.
Qed.

Lemma cwrite_small cfg ctx ws : strict_ctx ctx -> Forall small ws -> Forall small (cwrite cfg ctx ws).
Proof.
  intros SC W. destruct (Pipeline.encrypted cfg) eqn:EN.
  2:{ unfold Pipeline.cwrite. unfold Pipeline.encrypted in EN. destruct (g_enc cfg); try discriminate. exact W. }
  destruct (g_mode cfg) eqn:MD.
  - destruct (cbc_pieces cfg ctx ws EN MD SC) as (_ & _ & _ & L). eapply Forall_impl; [|exact L].
    intros p Hp. unfold small, len, len16 in *. rewrite Hp. reflexivity.
  - unfold Pipeline.cwrite. rewrite MD. unfold Pipeline.encrypted in EN.
    assert (forall a, Forall small (let (s', calls) := ctrw_writes (E a) {| cw_key := c_key ctx; cw_iv := of_be (c_iv ctx); cw_pos := 0 |} ws in
                                    concat (map snd calls))) as G.
    { intro a. pose proof (ctrw_small (E a) ws {| cw_key := c_key ctx; cw_iv := of_be (c_iv ctx); cw_pos := 0 |} W) as H.
      destruct (ctrw_writes (E a) _ ws) as [s' calls]. exact H. }
    destruct (g_enc cfg); [discriminate|apply G|apply G].
Qed.

(* the compressor hands on pieces that fit a chunk *)
Definition compress_small : Prop := forall c lvl ws, Forall small (compress c lvl ws).

(* with a compressor that hands on pieces that fit a chunk, every write that reaches the sink does (no longer needed by
   any theorem: the sinks cut what does not fit) *)
Lemma small_pieces_rebuild cfg ctx inner : compress_small -> strict_ctx ctx -> Forall writable_normal inner ->
  small_pieces cfg ctx (solid_writes inner).
Proof.
  intros CS SC W. unfold small_pieces, Pipeline.data_pieces. apply cwrite_small; [exact SC|].
  unfold zwrite. destruct (g_comp cfg); try apply CS. apply solid_writes_small. exact W.
Qed.
Theorem rebuild_solid_writable cfg ctx extra inner : strict_ctx ctx -> Forall sextra_ok extra ->
  Forall writable_normal inner -> writable_solid (build_solid cfg ctx extra (solid_writes inner)).
Proof.
  intros SC EX W. apply build_solid_writable; try assumption.
  intros _ _. exists inner. split; [exact W|apply solid_writes_stream].
Qed.

(* ================================================================================================= *)
(* 6. whole archives                                                                                  *)
(* ================================================================================================= *)
(* one thing a library user appends to an archive *)
Inductive wjob :=
  | JBuild (cfg : config) (ctx : cctx) (sp : spec) (wcuts : list bytes)          (* add_entry of a built entry *)
  | JStream (cfg : config) (ctx : cctx) (sp : spec) (wcuts : list bytes)         (* write_file *)
  | JSolid (cfg : config) (ctx : cctx) (extra : list chunk) (swcuts : list bytes)  (* add_entry of a built solid entry *)
  | JSolidStream (cfg : config) (ctx : cctx) (swcuts : list bytes).              (* a SolidArchive finalised *)

Definition job_chunks (j : wjob) : list chunk :=
  match j with
  | JBuild cfg ctx sp wcuts => ser_normal (build_normal cfg ctx sp wcuts)
  | JStream cfg ctx sp wcuts => stream_file_chunks cfg ctx sp wcuts
  | JSolid cfg ctx extra swcuts => ser_solid (build_solid cfg ctx extra swcuts)
  | JSolidStream cfg ctx swcuts => solid_archive_chunks cfg ctx swcuts
  end.
Definition job_entry (j : wjob) : read_entry :=
  match j with
  | JBuild cfg ctx sp wcuts => RNormal (normalize (build_normal cfg ctx sp wcuts))
  | JStream cfg ctx sp wcuts => RNormal (streamed_normal cfg ctx sp wcuts)
  | JSolid cfg ctx extra swcuts => RSolid (build_solid cfg ctx extra swcuts)
  | JSolidStream cfg ctx swcuts => RSolid (streamed_solid cfg ctx swcuts)
  end.
Definition job_ok (j : wjob) : Prop :=
  match j with
  | JBuild cfg ctx sp wcuts =>
    writable_spec sp /\ strict_ctx ctx /\ len (concat wcuts) < 2 ^ 128
  | JStream cfg ctx sp wcuts => writable_spec sp /\ strict_ctx ctx
  | JSolid cfg ctx extra swcuts => strict_ctx ctx /\ Forall sextra_ok extra /\ plain_inner cfg swcuts
  | JSolidStream cfg ctx swcuts => strict_ctx ctx /\ plain_inner cfg swcuts
  end.

Lemma job_accepted j : job_ok j -> accepted_as (job_chunks j) (job_entry j).
Proof.
  destruct j as [cfg ctx sp wcuts|cfg ctx sp wcuts|cfg ctx extra swcuts|cfg ctx swcuts]; cbn [job_ok job_chunks job_entry].
  - intros (WS & SC & RS). exact (writable_accepted (RNormal _) (build_normal_writable cfg ctx sp wcuts WS SC RS)).
  - intros (WS & SC). exact (stream_file_accepted cfg ctx sp wcuts WS SC).
  - intros (SC & EX & PI). exact (writable_accepted (RSolid _) (build_solid_writable cfg ctx extra swcuts SC EX PI)).
  - intros (SC & PI). exact (solid_archive_accepted cfg ctx swcuts SC PI).
Qed.

(* C14 writer_wf, pipeline layer: whatever sequence of built entries, streamed files, built solid
   entries and streamed solid entries is written, the archive is well-formed, strictly decodes to the
   entries produced and is read back by the library's tolerant readers *)
Theorem pipeline_writer_wf jobs : Forall job_ok jobs ->
  wf_archive (write_raw_archive 0 (map job_chunks jobs)) = true /\
  strict_decode (write_raw_archive 0 (map job_chunks jobs)) = Ok (map job_entry jobs) /\
  entries read_chunk_stream (write_raw_archive 0 (map job_chunks jobs)) = Ok (map job_entry jobs, FinOk).
Proof.
  intro J. assert (strict_parts [write_raw_archive 0 (map job_chunks jobs)] = SOk (map job_entry jobs)) as S.
  { apply accepted_archive. induction J as [|j jobs Hj _ IH]; constructor; [apply job_accepted; exact Hj|exact IH]. }
  assert (strict_decode (write_raw_archive 0 (map job_chunks jobs)) = Ok (map job_entry jobs)) as D
    by (unfold strict_decode; rewrite S; reflexivity).
  split; [unfold wf_archive, wf_parts; rewrite S; reflexivity|]. split; [exact D|exact (strict_agrees _ _ D)].
Qed.

(* the statement of DESIGN.md for archives of built entries *)
Corollary build_writer_wf (js : list (config * cctx * spec * list bytes)) :
  Forall (fun '(cfg, ctx, sp, wcuts) => job_ok (JBuild cfg ctx sp wcuts)) js ->
  wf_archive (write_archive (map (fun '(cfg, ctx, sp, wcuts) => build_normal cfg ctx sp wcuts) js)) = true.
Proof.
  intro J. unfold write_archive. rewrite map_map.
  replace (map (fun x => ser_normal (let '(cfg, ctx, sp, wcuts) := x in build_normal cfg ctx sp wcuts)) js)
    with (map job_chunks (map (fun '(cfg, ctx, sp, wcuts) => JBuild cfg ctx sp wcuts) js)).
  - apply pipeline_writer_wf. apply Forall_forall. intros j Hj. apply in_map_iff in Hj.
    destruct Hj as ([[[cfg ctx] sp] wcuts] & <- & Hx). rewrite Forall_forall in J. exact (J _ Hx).
  - rewrite map_map. apply map_ext. intros [[[cfg ctx] sp] wcuts]. reflexivity.
Qed.
End WfPipeline.

(* ---- the premises are satisfiable: the toy cipher keeps 16-byte blocks, and a built CBC entry, a
   streamed CTR file and a streamed plain solid entry (holding a written file entry) meet job_ok ---- *)
Lemma toy_E_of_len : forall (a : encryption) k b, len16 b -> len16 (toy_E_of a k b).
Proof. intros a. exact toy_E_len. Qed.

Definition ex_ctx : cctx :=
  {| c_key := repeat x01 32; c_iv := repeat x02 16; c_phsf := lit "$argon2id$v=19$m=8,t=1,p=1$AQIDBAUGBwgJCgsMDQ4PEA" |}.
Definition ex_spec : spec :=
  {| sp_kind := KFile; sp_name := lit "dir/a.txt"; sp_content := lit "hello world";
     sp_ctime := Some 1; sp_mtime := None; sp_atime := None; sp_perm := None; sp_xattrs := []; sp_extra := [] |}.
Definition ex_jobs : list wjob :=
  [JBuild {| g_comp := CZstd; g_level := 3; g_enc := EAes; g_mode := MCbc |} ex_ctx ex_spec [lit "hello "; lit "world"];
   JStream {| g_comp := CNo; g_level := 0; g_enc := ECamellia; g_mode := MCtr |} ex_ctx ex_spec [lit "hello world"];
   JSolidStream store_file_cfg ex_ctx [ser_chunks (ser_normal ex_plain)]].

Ltac small_tac :=
  unfold small_pieces; match goal with |- Forall _ ?l => let v := eval vm_compute in l in change l with v end;
  repeat (constructor; [reflexivity|]); constructor.

Example ex_jobs_ok : Forall job_ok ex_jobs.
Proof.
  assert (strict_ctx ex_ctx) as SC by (repeat split; reflexivity).
  assert (writable_spec ex_spec) as WS by (repeat split; try reflexivity; constructor).
  unfold ex_jobs. constructor; [|constructor; [|constructor; [|constructor]]]; cbn [job_ok].
  - split; [exact WS|]. split; [exact SC|]. reflexivity.
  - split; [exact WS|exact SC].
  - split; [exact SC|]. intros _ _. exists [ex_plain].
    split; [constructor; [exact ex_plain_writable|constructor]|]. unfold solid_plain_stream. cbn [map concat].
    rewrite !app_nil_r. reflexivity.
Qed.

Example ex_jobs_wf : wf_archive (write_raw_archive 0 (map (job_chunks toy_E_of id_compress) ex_jobs)) = true.
Proof. exact (proj1 (pipeline_writer_wf toy_E_of id_compress toy_E_of_len ex_jobs ex_jobs_ok)). Qed.
