(* WfTransformFacts.v — C14 transform_wf for the attribute-editing commands.
   Transform.v describes the commands on the logical archive (names, metadata, xattrs, extra chunks;
   header and content are opaque tokens).  Here the logical entry is the view of a file entry of
   Entry.v (`lview`), a command's answer is put back with the library's with_metadata / with_xattrs /
   with_extra_chunks (`reentry`), and:
   * the view of the rewritten entry is the command's answer (so the entry-level run is the run of
     Transform.v, which the C10 check compares with the real CLI);
   * chmod, chown, xattr, strip and delete keep entries `writable` when their arguments are in range
     (mode words of 16 bits, owner ids below 2^64 with UTF-8 names of at most 255 bytes, an xattr that
     fits a chunk), hence the archive written from the entries of a well-formed archive after the
     command — both strategies, solid entries expanded by `expand` and rebuilt by `rebuild` — is
     well-formed again.
   acl set and migrate are not covered (their chunks carry owner names of unbounded length). *)
From PNA Require Import Base Crc32 Name Codec Chunk Archive Entry CliCodec Cbc Pipeline Wf.
From PNA Require Import BaseFacts NameFacts CodecFacts Crc32Facts ChunkFacts ArchiveFacts EntryFacts CliCodecFacts CbcFacts WfFacts
  WfWriterFacts WfAgreeFacts WfRewriteFacts WfPipelineFacts.
From PNA Require Transform TransformFacts.
Require Import ZArith ZifyN ZifyNat ZifyBool.
Open Scope N_scope.

(* ================================================================================================= *)
(* 1. bounds of the mode arithmetic                                                                   *)
(* ================================================================================================= *)
Lemma lt_pow2_iff x k : x < 2 ^ k <-> (forall i, k <= i -> N.testbit x i = false).
Proof.
  split.
  - intros H i Hi. destruct (N.eq_dec x 0) as [->|NZ]; [apply N.bits_0|]. apply N.bits_above_log2.
    apply N.log2_lt_pow2 in H; lia.
  - intros H. destruct (N.eq_dec x 0) as [->|NZ].
    + assert (2 ^ k <> 0) by (apply N.pow_nonzero; lia). lia.
    + apply N.log2_lt_pow2; [lia|]. destruct (N.lt_ge_cases (N.log2 x) k) as [L|L]; [exact L|].
      specialize (H (N.log2 x) L). rewrite N.bit_log2 in H by exact NZ. discriminate.
Qed.

Lemma ldiff_lt x y k : x < 2 ^ k -> N.ldiff x y < 2 ^ k.
Proof. rewrite !lt_pow2_iff. intros H i Hi. rewrite N.ldiff_spec, (H i Hi). reflexivity. Qed.
Lemma land_lt x y k : x < 2 ^ k -> N.land x y < 2 ^ k.
Proof. rewrite !lt_pow2_iff. intros H i Hi. rewrite N.land_spec, (H i Hi). reflexivity. Qed.

Definition mode_ok (md : mode) : Prop :=
  match md with MNum n => n < 2 ^ 16 | MEqual _ m | MPlus _ m | MMinus _ m => m < 8 end.

Lemma shift_small m s : m < 8 -> s <= 6 -> N.shiftl m s < 2 ^ 16.
Proof.
  intros M S. rewrite N.shiftl_mul_pow2. assert (2 ^ s <= 2 ^ 6) by (apply N.pow_le_mono_r; lia).
  change (2 ^ 6) with 64 in *. change (2 ^ 16) with 65536. nia.
Qed.

Lemma target_apply_lt t m : m < 8 -> target_apply t m < 2 ^ 16.
Proof.
  intro M. unfold target_apply. repeat apply lor_lt_pow2;
    match goal with |- (if ?b then _ else _) < _ => destruct b end;
    try (apply shift_small; [exact M|lia]); change (2 ^ 16) with 65536; lia.
Qed.

Lemma mode_apply_lt md x : mode_ok md -> x < 2 ^ 16 -> mode_apply md x < 2 ^ 16.
Proof.
  destruct md as [n|t m|t m|t m]; cbn [mode_ok mode_apply]; intros M X.
  - exact M.
  - repeat apply lor_lt_pow2; try (apply ldiff_lt; exact X);
      match goal with |- (if ?b then _ else _) < _ => destruct b end;
      try (apply shift_small; [exact M|lia]); try (apply land_lt; exact X); change (2 ^ 16) with 65536; lia.
  - apply lor_lt_pow2; [exact X|apply target_apply_lt; exact M].
  - apply ldiff_lt. exact X.
Qed.

(* ================================================================================================= *)
(* 2. the logical view of a file entry and the rewritten entry                                        *)
(* ================================================================================================= *)
Section View.
(* the opaque tokens of Transform.v: whatever identifies the header options and the content *)
Variables hdr_tok content_tok : normal_entry -> bytes.
Hypothesis hdr_tok_attrs : forall e m xs cs,
  hdr_tok (with_extra_chunks (with_xattrs (with_metadata e m) xs) cs) = hdr_tok e.
Hypothesis content_tok_attrs : forall e m xs cs,
  content_tok (with_extra_chunks (with_xattrs (with_metadata e m) xs) cs) = content_tok e.

Definition lview (e : normal_entry) : Transform.lentry :=
  {| Transform.le_name := f_name (n_hdr e); Transform.le_kind := kind_to_n (f_kind (n_hdr e));
     Transform.le_hdr := hdr_tok e; Transform.le_content := content_tok e;
     Transform.le_ctime := m_ctime (n_meta e); Transform.le_mtime := m_mtime (n_meta e);
     Transform.le_atime := m_atime (n_meta e); Transform.le_perm := m_perm (n_meta e);
     Transform.le_xattrs := n_xattrs e; Transform.le_extras := n_extra e |}.

(* NormalEntry::with_metadata (times and permission) / with_xattrs / with_extra_chunks *)
Definition reentry (e : normal_entry) (l : Transform.lentry) : normal_entry :=
  with_extra_chunks
    (with_xattrs
       (with_metadata e {| m_raw_size := None; m_compressed := 0; m_ctime := Transform.le_ctime l;
                           m_mtime := Transform.le_mtime l; m_atime := Transform.le_atime l;
                           m_perm := Transform.le_perm l |})
       (Transform.le_xattrs l))
    (Transform.le_extras l).

(* the answer of a command keeps name, kind and the two tokens *)
Definition same_identity (l l' : Transform.lentry) : Prop :=
  Transform.le_name l' = Transform.le_name l /\ Transform.le_kind l' = Transform.le_kind l /\
  Transform.le_hdr l' = Transform.le_hdr l /\ Transform.le_content l' = Transform.le_content l.

Lemma lview_reentry e l' : same_identity (lview e) l' -> lview (reentry e l') = l'.
Proof.
  intros (N & K & H & C). destruct l'. unfold lview, reentry in *.
  cbn [Transform.le_name Transform.le_kind Transform.le_hdr Transform.le_content] in *.
  rewrite hdr_tok_attrs, content_tok_attrs.
  cbn [with_extra_chunks with_xattrs with_metadata n_hdr n_meta n_xattrs n_extra m_ctime m_mtime m_atime m_perm
       Transform.le_ctime Transform.le_mtime Transform.le_atime Transform.le_perm Transform.le_xattrs Transform.le_extras].
  subst. reflexivity.
Qed.

Lemma cmd_entry_identity c l l' : Transform.cmd_entry c l = Ok (Some l') -> same_identity l l'.
Proof.
  destruct c; cbn [Transform.cmd_entry].
  - intros [= <-]. repeat split.
  - intros [= <-]. repeat split.
  - intros [= <-]. repeat split.
  - intros [= <-]. unfold Transform.cmd_acl.
    destruct (Transform.acl_parse (Transform.le_extras l)) as [m| |]; [destruct (Transform.acl_skip modify m)| |]; repeat split.
  - intros [= <-]. repeat split.
  - unfold Transform.cmd_migrate. destruct (Transform.acl_parse (Transform.le_extras l)); cbn [bind]; try discriminate.
    intros [= <-]. repeat split.
  - discriminate.
Qed.

(* one entry through a command: the transformer of Transform.v on the view, the answer put back *)
Definition edit_entry (c : Transform.cmd) (sel : bytes -> bool) (e : normal_entry) : res (option normal_entry) :=
  do o <- Transform.cmd_transformer c sel (lview e); Ok (option_map (reentry e) o).

Theorem edit_entry_view c sel e o : edit_entry c sel e = Ok o ->
  Transform.cmd_transformer c sel (lview e) = Ok (option_map lview o).
Proof.
  unfold edit_entry. destruct (Transform.cmd_transformer c sel (lview e)) as [[l'|]| |] eqn:T; cbn [bind]; try discriminate.
  - intros [= <-]. cbn [option_map]. rewrite lview_reentry; [reflexivity|].
    unfold Transform.cmd_transformer in T. destruct (Transform.selects_all c || sel (Transform.le_name (lview e))).
    + exact (cmd_entry_identity _ _ _ T).
    + inversion T; subst. repeat split.
  - intros [= <-]. reflexivity.
Qed.

(* ================================================================================================= *)
(* 3. the commands keep entries writable                                                              *)
(* ================================================================================================= *)
Definition owner_ok (o : option (N * bytes)) : Prop :=
  match o with Some (i, n) => i < 2 ^ 64 /\ len n <= 255 /\ utf8_valid n = true | None => True end.
Definition cmd_ok (c : Transform.cmd) : Prop :=
  match c with
  | Transform.CChmod m => mode_ok m
  | Transform.CChown u g => owner_ok u /\ owner_ok g
  | Transform.CXattr s _ => match s with Some (n, v) => xattr_fits {| x_name := n; x_value := v |} | None => True end
  | Transform.CStrip _ | Transform.CDelete => True
  | Transform.CAcl _ _ | Transform.CMigrate => False          (* not covered *)
  end.

(* what of a logical entry matters for writability *)
Definition attrs_ok (l : Transform.lentry) : Prop :=
  opt_all (fun t => t < 2 ^ 64) (Transform.le_ctime l) /\ opt_all (fun t => t < 2 ^ 64) (Transform.le_mtime l) /\
  opt_all (fun t => t < 2 ^ 64) (Transform.le_atime l) /\ opt_all wf_perm (Transform.le_perm l) /\
  Forall xattr_fits (Transform.le_xattrs l) /\ Forall extra_ok (Transform.le_extras l).

Lemma writable_attrs e : writable_normal e -> attrs_ok (lview e).
Proof. intros (_ & _ & _ & _ & _ & EX & _ & _ & _ & TC & TM & TA & PM & XS). repeat split; assumption. Qed.

Lemma reentry_writable e l : writable_normal e -> attrs_ok l -> writable_normal (reentry e l).
Proof.
  intros (H1 & H2 & H3 & H4 & H5 & _ & H8 & H9 & H10 & _) (TC & TM & TA & PM & XS & EX).
  unfold writable_normal, reentry. cbv zeta.
  cbn [with_extra_chunks with_xattrs with_metadata n_hdr n_phsf n_extra n_data n_meta n_xattrs
       m_raw_size m_compressed m_ctime m_mtime m_atime m_perm].
  repeat split; assumption.
Qed.

Lemma im_insert_fits k v m : Forall xattr_fits m -> xattr_fits {| x_name := k; x_value := v |} ->
  Forall xattr_fits (Transform.im_insert k v m).
Proof.
  induction 1 as [|x m Hx Hm IH]; intro K; cbn [Transform.im_insert]; [constructor; [exact K|constructor]|].
  destruct (bytes_eqb k (x_name x)) eqn:B.
  - apply BaseFacts.bytes_eqb_eq in B. subst k. constructor; assumption.
  - constructor; [exact Hx|exact (IH K)].
Qed.

Lemma im_collect_fits l : Forall xattr_fits l -> Forall xattr_fits (Transform.im_collect l).
Proof.
  unfold Transform.im_collect. assert (forall acc, Forall xattr_fits acc -> Forall xattr_fits l ->
    Forall xattr_fits (fold_left (fun m x => Transform.im_insert (x_name x) (x_value x) m) l acc)) as G.
  { induction l as [|x l IH]; intros acc A L; cbn [fold_left]; [exact A|]. inversion L; subst.
    apply IH; [|assumption]. apply im_insert_fits; [exact A|]. destruct x; assumption. }
  intro L. apply G; [constructor|exact L].
Qed.

Lemma Forall_filter' {A} (P : A -> Prop) f l : Forall P l -> Forall P (filter f l).
Proof. induction 1; cbn [filter]; [constructor|]. destruct (f x); [constructor|]; assumption. Qed.

Theorem cmd_entry_attrs c l l' : cmd_ok c -> attrs_ok l -> Transform.cmd_entry c l = Ok (Some l') -> attrs_ok l'.
Proof.
  intros CO (TC & TM & TA & PM & XS & EX). destruct c; cbn [Transform.cmd_entry cmd_ok] in *; try contradiction.
  - intros [= <-]. unfold Transform.cmd_chmod, Transform.with_perm, Transform.with_meta, attrs_ok.
    cbn [Transform.le_ctime Transform.le_mtime Transform.le_atime Transform.le_perm Transform.le_xattrs Transform.le_extras].
    repeat split; try assumption. destruct (Transform.le_perm l) as [p|]; cbn [option_map opt_all] in *; [|exact I].
    destruct PM as (P1 & P2 & P3 & P4 & P5 & P6 & P7). unfold Transform.perm_with_mode, wf_perm.
    cbn [p_uid p_gid p_mode p_uname p_gname]. repeat split; try assumption.
    apply mode_apply_lt; assumption.
  - intros [= <-]. unfold Transform.cmd_chown, Transform.with_perm, Transform.with_meta, attrs_ok.
    cbn [Transform.le_ctime Transform.le_mtime Transform.le_atime Transform.le_perm Transform.le_xattrs Transform.le_extras].
    repeat split; try assumption. destruct (Transform.le_perm l) as [p|]; cbn [option_map opt_all] in *; [|exact I].
    destruct PM as (P1 & P2 & P3 & P4 & P5 & P6 & P7). destruct CO as (U & G). unfold wf_perm.
    cbn [p_uid p_gid p_mode p_uname p_gname].
    destruct u as [[ui un]|], g as [[gi gn]|]; cbn [owner_ok] in *; repeat split; try assumption; try apply U; try apply G.
  - intros [= <-]. unfold Transform.cmd_xattr, Transform.with_xattrs, attrs_ok.
    cbn [Transform.le_ctime Transform.le_mtime Transform.le_atime Transform.le_perm Transform.le_xattrs Transform.le_extras].
    repeat split; try assumption.
    assert (Forall xattr_fits (match set with Some (n, v) => Transform.im_insert n v (Transform.im_collect (Transform.le_xattrs l))
                                            | None => Transform.im_collect (Transform.le_xattrs l) end)) as F.
    { destruct set as [[n v]|]; [apply im_insert_fits; [apply im_collect_fits; exact XS|exact CO]|apply im_collect_fits; exact XS]. }
    destruct remove; [apply Forall_filter'; exact F|exact F].
  - intros [= <-]. unfold Transform.cmd_strip, attrs_ok.
    cbn [Transform.le_ctime Transform.le_mtime Transform.le_atime Transform.le_perm Transform.le_xattrs Transform.le_extras].
    repeat split.
    + destruct (Transform.keep_time o); [exact TC|exact I].
    + destruct (Transform.keep_time o); [exact TM|exact I].
    + destruct (Transform.keep_time o); [exact TA|exact I].
    + destruct (Transform.keep_perm o); [exact PM|exact I].
    + destruct (Transform.keep_xattr o); [exact XS|constructor].
    + apply Forall_filter'. exact EX.
  - discriminate.
Qed.

Theorem edit_entry_writable c sel e e' : cmd_ok c -> writable_normal e ->
  edit_entry c sel e = Ok (Some e') -> writable_normal e'.
Proof.
  intros CO W. unfold edit_entry.
  destruct (Transform.cmd_transformer c sel (lview e)) as [[l'|]| |] eqn:T; cbn [bind option_map]; try discriminate.
  intros [= <-]. apply reentry_writable; [exact W|].
  unfold Transform.cmd_transformer in T. destruct (Transform.selects_all c || sel (Transform.le_name (lview e))).
  - exact (cmd_entry_attrs _ _ _ CO (writable_attrs _ W) T).
  - inversion T; subst. exact (writable_attrs _ W).
Qed.

(* ================================================================================================= *)
(* 4. the whole archive, both strategies                                                              *)
(* ================================================================================================= *)
(* s.entries(password) and the SolidEntryBuilder that re-creates the solid entry are the pipeline
   (Model/Pipeline.v); here they are parameters with what the theorem needs of them *)
Variable expand : solid_entry -> res (list normal_entry).
Variable rebuild : solid_entry -> list normal_entry -> solid_entry.
Hypothesis expand_writable : forall s inner, writable_solid s -> expand s = Ok inner -> Forall writable_normal inner.
Hypothesis rebuild_writable : forall s inner, writable_solid s -> Forall writable_normal inner ->
  writable_solid (rebuild s inner).

Fixpoint edit_list (c : Transform.cmd) (sel : bytes -> bool) (es : list normal_entry) : res (list normal_entry) :=
  match es with
  | [] => Ok []
  | e :: r => do o <- edit_entry c sel e; do r' <- edit_list c sel r;
              Ok (match o with Some e' => e' :: r' | None => r' end)
  end.

(* TransformStrategyKeepSolid (keep = true) / TransformStrategyUnSolid on one item *)
Definition edit_item (keep pw : bool) (c : Transform.cmd) (sel : bytes -> bool) (x : read_entry) : res (list read_entry) :=
  match x with
  | RNormal e => do o <- edit_entry c sel e; Ok (match o with Some e' => [RNormal e'] | None => [] end)
  | RSolid s =>
    if encrypted (s_enc (so_hdr s)) && negb pw then Err InvalidInput else
    do inner <- expand s; do inner' <- edit_list c sel inner;
    Ok (if keep then [RSolid (rebuild s inner')] else map RNormal inner')
  end.
Fixpoint edit_archive (keep pw : bool) (c : Transform.cmd) (sel : bytes -> bool) (es : list read_entry) : res (list read_entry) :=
  match es with
  | [] => Ok []
  | x :: r => do l <- edit_item keep pw c sel x; do r' <- edit_archive keep pw c sel r; Ok (l ++ r')
  end.
(* Archive::entries() run to its end (the library's tolerant reader); an iteration that ends with an error is that error *)
Definition read_all (a : bytes) : res (list read_entry) :=
  do (es, f) <- entries read_chunk_stream a;
  match f with FinOk => Ok es | FinErr e => Err e | FinPanic => Panic end.
(* run_cmd of Transform.v: chmod / chown / xattr / acl without a pattern leave the archive file alone;
   otherwise read every entry, edit (with the selection the command works with, Transform.eff_sel: strip without
   FILES takes every entry), write a new archive *)
Definition run_edit (keep pw : bool) (c : Transform.cmd) (nfiles : N) (sel : bytes -> bool) (a : bytes) : res bytes :=
  if Transform.needs_files c && N.eqb nfiles 0 then Ok a
  else do es <- read_all a; do es' <- edit_archive keep pw c (Transform.eff_sel c nfiles sel) es; Ok (write_raw_archive 0 (map ser_entry es')).

(* the entry-level run is the run of Transform.v on the views *)
Lemma edit_list_view c sel : forall es es', edit_list c sel es = Ok es' ->
  Transform.map_entries (Transform.cmd_transformer c sel) (map lview es) = Ok (map lview es').
Proof.
  induction es as [|e es IH]; intros es'; cbn [edit_list map Transform.map_entries]; [intros [= <-]; reflexivity|].
  destruct (edit_entry c sel e) as [o| |] eqn:EE; cbn [bind]; try discriminate.
  destruct (edit_list c sel es) as [r'| |] eqn:EL; cbn [bind]; try discriminate. intros [= <-].
  rewrite (edit_entry_view _ _ _ _ EE). cbn [bind]. rewrite (IH _ eq_refl). cbn [bind].
  destruct o; reflexivity.
Qed.

Lemma edit_list_writable c sel : cmd_ok c -> forall es es', Forall writable_normal es ->
  edit_list c sel es = Ok es' -> Forall writable_normal es'.
Proof.
  intro CO. induction es as [|e es IH]; intros es' W; cbn [edit_list]; [intros [= <-]; constructor|].
  inversion W; subst. destruct (edit_entry c sel e) as [o| |] eqn:EE; cbn [bind]; try discriminate.
  destruct (edit_list c sel es) as [r'| |] eqn:EL; cbn [bind]; try discriminate. intros [= <-].
  specialize (IH _ H2 eq_refl). destruct o as [e'|]; [constructor; [exact (edit_entry_writable _ _ _ _ CO H1 EE)|exact IH]|exact IH].
Qed.

Lemma edit_item_writable keep pw c sel x l : cmd_ok c -> writable x -> edit_item keep pw c sel x = Ok l -> Forall writable l.
Proof.
  intros CO W. destruct x as [e|s]; cbn [edit_item writable] in *.
  - destruct (edit_entry c sel e) as [o| |] eqn:EE; cbn [bind]; try discriminate. intros [= <-].
    destruct o as [e'|]; [constructor; [exact (edit_entry_writable _ _ _ _ CO W EE)|constructor]|constructor].
  - destruct (encrypted (s_enc (so_hdr s)) && negb pw); [discriminate|].
    destruct (expand s) as [inner| |] eqn:EX; cbn [bind]; try discriminate.
    destruct (edit_list c sel inner) as [inner'| |] eqn:EL; cbn [bind]; try discriminate. intros [= <-].
    pose proof (edit_list_writable c sel CO _ _ (expand_writable _ _ W EX) EL) as WI.
    destruct keep.
    + constructor; [exact (rebuild_writable _ _ W WI)|constructor].
    + apply Forall_forall. intros y Hy. apply in_map_iff in Hy. destruct Hy as (n & <- & Hn).
      rewrite Forall_forall in WI. exact (WI n Hn).
Qed.

Lemma edit_archive_writable keep pw c sel : cmd_ok c -> forall es es', Forall writable es ->
  edit_archive keep pw c sel es = Ok es' -> Forall writable es'.
Proof.
  intro CO. induction es as [|x es IH]; intros es' W; cbn [edit_archive]; [intros [= <-]; constructor|].
  inversion W; subst. destruct (edit_item keep pw c sel x) as [l| |] eqn:EI; cbn [bind]; try discriminate.
  destruct (edit_archive keep pw c sel es) as [r'| |] eqn:EA; cbn [bind]; try discriminate. intros [= <-].
  apply Forall_app. split; [exact (edit_item_writable _ _ _ _ _ _ CO H1 EI)|exact (IH _ H2 eq_refl)].
Qed.

(* C14 transform_wf (chmod, chown, xattr, strip, delete; keep-solid and unsolid): the archive a
   command writes from a well-formed archive is well-formed *)
Theorem transform_wf keep pw c nfiles sel a a' : cmd_ok c -> wf_archive a = true ->
  run_edit keep pw c nfiles sel a = Ok a' -> wf_archive a' = true.
Proof.
  intros CO WA. unfold run_edit. destruct (Transform.needs_files c && N.eqb nfiles 0); [intros [= <-]; exact WA|].
  destruct (wf_archive_read _ WA) as (es & D & R & _). unfold read_all. rewrite R. cbn [bind].
  destruct (edit_archive keep pw c (Transform.eff_sel c nfiles sel) es) as [es'| |] eqn:EA; cbn [bind]; try discriminate. intros [= <-].
  apply writer_wf. exact (edit_archive_writable keep pw c _ CO _ _ (proj2 writable_exact _ _ D) EA).
Qed.
End View.

(* ---- keep-solid with the pipeline's SolidEntryBuilder as `rebuild`: the hypothesis about rebuilding is
   a theorem (WfPipelineFacts.rebuild_solid_writable) for every block cipher that keeps 16-byte blocks
   and every compressor (what it hands on is cut to chunk size by the FlattenWriter: no premise) ------------ *)
Section PipelineRebuild.
Variable E : encryption -> bytes -> bytes -> bytes.
Variable compress : compression -> N -> list bytes -> list bytes.
Hypothesis E_len : forall a k b, len16 b -> len16 (E a k b).
Variables hdr_tok content_tok : normal_entry -> bytes.
Variable expand : solid_entry -> res (list normal_entry).
Hypothesis expand_writable : forall s inner, writable_solid s -> expand s = Ok inner -> Forall writable_normal inner.
(* WriteOptions of the rebuilt solid entry: the codec, cipher and mode of the old header, the default
   level, a fresh cipher context derived from the password *)
Variable lvl : N.
Variable ctx : cctx.
Hypothesis ctx_ok : strict_ctx ctx.

Definition cfg_of (s : solid_entry) : config :=
  {| g_comp := s_comp (so_hdr s); g_level := lvl; g_enc := s_enc (so_hdr s); g_mode := s_mode (so_hdr s) |}.
Definition rebuild_pipeline (s : solid_entry) (inner : list normal_entry) : solid_entry :=
  build_solid E compress (cfg_of s) ctx (so_extra s) (solid_writes inner).

Theorem transform_wf_pipeline keep pw c nfiles sel a a' : cmd_ok c -> wf_archive a = true ->
  run_edit hdr_tok content_tok expand rebuild_pipeline keep pw c nfiles sel a = Ok a' -> wf_archive a' = true.
Proof.
  apply transform_wf; [exact expand_writable|].
  intros s inner (_ & _ & _ & EX & _) W. unfold rebuild_pipeline.
  exact (rebuild_solid_writable E compress E_len (cfg_of s) ctx (so_extra s) inner ctx_ok EX W).
Qed.
End PipelineRebuild.

(* ---- `expand` for solid entries without compression and encryption is the library's inner iteration;
   the hypothesis about it is a theorem (WfRewriteFacts.solid_inner_writable); for the other solid
   entries the expansion (decrypt, decompress, parse) stays a parameter ------------------------------- *)
Definition expand_plain_or (other : solid_entry -> res (list normal_entry)) (s : solid_entry) : res (list normal_entry) :=
  if solid_plain s then
    match solid_inner_entries s with
    | (es, FinOk) => Ok es
    | (_, FinErr k) => Err k
    | (_, FinPanic) => Panic
    end
  else other s.

Lemma expand_plain_or_writable other :
  (forall s inner, writable_solid s -> solid_plain s = false -> other s = Ok inner -> Forall writable_normal inner) ->
  forall s inner, writable_solid s -> expand_plain_or other s = Ok inner -> Forall writable_normal inner.
Proof.
  intros H s inner W. unfold expand_plain_or. destruct (solid_plain s) eqn:P; [|exact (H s inner W P)].
  destruct (solid_inner_writable s W P) as (inner' & -> & WI). intros [= <-]. exact WI.
Qed.

(* the hypotheses of the section are satisfiable (tokens: the header options and the data stream, which
   the attribute replacements do not touch; the trivial expansion) and so are the premises of transform_wf *)
Definition ex_hdr_tok (e : normal_entry) : bytes := [n2b (comp_to_n (f_comp (n_hdr e))); n2b (enc_to_n (f_enc (n_hdr e)))].
Definition ex_content_tok (e : normal_entry) : bytes := concat (n_data e).
Example ex_tokens :
  (forall e m xs cs, ex_hdr_tok (with_extra_chunks (with_xattrs (with_metadata e m) xs) cs) = ex_hdr_tok e) /\
  (forall e m xs cs, ex_content_tok (with_extra_chunks (with_xattrs (with_metadata e m) xs) cs) = ex_content_tok e).
Proof. split; reflexivity. Qed.

Example transform_wf_ex :
  let a := write_raw_archive 0 (map ser_entry [RNormal ex_plain; RNormal ex_enc]) in
  cmd_ok (Transform.CChmod (MPlus 1 1)) /\ wf_archive a = true /\
  exists a', run_edit ex_hdr_tok ex_content_tok (fun _ => Ok []) (fun s _ => s) true false
               (Transform.CChmod (MPlus 1 1)) 1 (fun _ => true) a = Ok a' /\
             a' <> a /\ wf_archive a' = true.
Proof.
  cbv zeta. split; [cbn; lia|]. split; [vm_compute; reflexivity|].
  match goal with |- exists a', ?r = Ok a' /\ _ => destruct r as [a'| |] eqn:R; [|vm_compute in R; discriminate|vm_compute in R; discriminate] end.
  exists a'. split; [reflexivity|]. split.
  - revert R. vm_compute. intros [= <-]. discriminate.
  - refine (transform_wf ex_hdr_tok ex_content_tok (fun _ => Ok []) (fun s _ => s) _ _ true false _ 1 (fun _ => true) _ a' _ _ R).
    + intros s inner _ [= <-]. constructor.
    + intros s inner W _. exact W.
    + cbn. lia.
    + vm_compute. reflexivity.
Qed.
