(* ListCmdFacts.v — list / extract / library agreement on the model of Model/ListCmd.v. *)
From PNA Require Import Base ListCmd BaseFacts CliCodecFacts.
Open Scope N_scope.

(* ---- list --solid reports exactly the library's entries that the patterns select ------------------ *)
Theorem list_solid_agrees nf sel a :
  list_rows true nf sel a = filter (selected nf sel) (lib_entries a).
Proof. reflexivity. Qed.

(* ---- without --solid exactly the inner entries of solid blocks are missing ----------------------------- *)
(* the library's entries, each tagged: true = held in a solid block *)
Definition lib_tagged (a : larchive) : list (bool * row) :=
  concat (map (fun it => match it with LNormal r => [(false, r)] | LSolid rs => map (fun r => (true, r)) rs end) a).
Lemma lib_tagged_all a : map snd (lib_tagged a) = lib_entries a.
Proof.
  unfold lib_tagged, lib_entries. induction a as [|it a IH]; [reflexivity|].
  cbn [map concat]. rewrite map_app, IH. f_equal. destruct it as [r|rs]; [reflexivity|].
  rewrite map_map. cbn. now rewrite map_id.
Qed.
Lemma collected_nosolid a :
  collected false a = map snd (filter (fun t => negb (fst t)) (lib_tagged a)).
Proof.
  unfold collected, lib_tagged. induction a as [|it a IH]; [reflexivity|].
  cbn [map concat]. rewrite filter_app, map_app, <- IH. f_equal. destruct it as [r|rs]; [reflexivity|].
  induction rs as [|r rs IHr]; [reflexivity|exact IHr].
Qed.
Theorem list_nosolid nf sel a :
  list_rows false nf sel a
  = filter (selected nf sel) (map snd (filter (fun t => negb (fst t)) (lib_tagged a))).
Proof. unfold list_rows. now rewrite collected_nosolid. Qed.

(* ---- extract works on exactly the rows that list --solid prints ------------------------------------------ *)
Theorem list_extract_rows nf sel a : extract_rows nf sel a = list_rows true nf sel a.
Proof. reflexivity. Qed.
Theorem list_extract_agree nf sel a :
  map r_name (extract_rows nf sel a) = map r_name (list_rows true nf sel a)
  /\ extracted nf sel a = fold_left extract_one (list_rows true nf sel a) [].
Proof. split; reflexivity. Qed.

(* ---- the tree's nodes are the prefix closure of the names ---------------------------------------------------- *)
Definition pjoin (parent c : bytes) : bytes := match parent with [] => c | _ => parent ++ slash :: c end.
Lemma prefix_nodes_cons parent c rest kind :
  prefix_nodes parent (c :: rest) kind =
  match rest with [] => [(parent, c, kind)] | _ => (parent, c, 1) :: prefix_nodes (pjoin parent c) rest kind end.
Proof. destruct rest; reflexivity. Qed.

(* a node of the name with components cs: a component c after the components pre (its parent path
   is pre folded with '/'), a directory unless it is the last component *)
Lemma prefix_nodes_spec kind : forall cs parent p c k,
  In (p, c, k) (prefix_nodes parent cs kind) <->
  exists pre post, cs = pre ++ c :: post /\ p = fold_left pjoin pre parent /\
                   k = match post with [] => kind | _ => 1 end.
Proof.
  induction cs as [|c0 rest IH]; intros parent p c k.
  - cbn. split; [intros []|]. intros (pre & post & H & _). destruct pre; discriminate.
  - rewrite prefix_nodes_cons. destruct rest as [|c1 rest'].
    + cbn [In]. split.
      * intros [H|[]]. inversion H; subst. exists [], []. auto.
      * intros (pre & post & H & Hp & Hk). destruct pre as [|x pre].
        -- cbn in H. inversion H; subst. left. reflexivity.
        -- cbn in H. inversion H. destruct pre; discriminate.
    + cbn [In]. rewrite IH. split.
      * intros [H|(pre & post & H & Hp & Hk)].
        -- inversion H; subst. exists [], (c1 :: rest'). auto.
        -- exists (c0 :: pre), post. split; [change ((c0 :: pre) ++ c :: post) with (c0 :: (pre ++ c :: post)); f_equal; exact H|]. cbn [fold_left]. auto.
      * intros (pre & post & H & Hp & Hk). destruct pre as [|x pre].
        -- cbn in H. inversion H; subst. left. reflexivity.
        -- cbn in H. inversion H; subst x. right. exists pre, post. auto.
Qed.

Lemma bytes_eqb_eq' a b : bytes_eqb a b = true <-> a = b.
Proof.
  split; [|intros ->; apply bytes_eqb_refl].
  destruct (list_eq_dec Byte.byte_eq_dec a b) as [E|NE]; [auto|].
  now rewrite (bytes_eqb_neq _ _ NE).
Qed.
Lemma node_eqb_eq a b : node_eqb a b = true <-> a = b.
Proof.
  destruct a as [[p c] k], b as [[q d] j]. unfold node_eqb.
  rewrite !andb_true_iff, !bytes_eqb_eq', N.eqb_eq. split; [intros [[-> ->] ->]; reflexivity|intros H; inversion H; auto].
Qed.
Lemma add_node_in nd x l : In x (add_node nd l) <-> x = nd \/ In x l.
Proof.
  induction l as [|y r IH]; cbn [add_node].
  - cbn. split; [intros [H|[]]; auto|intros [H|[]]; auto].
  - destruct (node_eqb nd y) eqn:E.
    + apply node_eqb_eq in E. subst y. cbn [In]. split; [auto|]. intros [->|H]; auto.
    + cbn [In]. rewrite IH. split; [intros [H|[H|H]]; auto|intros [H|[H|H]]; auto].
Qed.
Lemma add_nodes_in nds : forall acc x,
  In x (fold_left (fun acc nd => add_node nd acc) nds acc) <-> In x nds \/ In x acc.
Proof.
  induction nds as [|nd nds IH]; intros acc x; cbn [fold_left].
  - cbn. intuition.
  - rewrite IH, add_node_in. cbn. intuition.
Qed.
Lemma tree_fold_in rs : forall acc x,
  In x (fold_left (fun acc r => fold_left (fun acc nd => add_node nd acc)
                                 (prefix_nodes [] (components (r_name r)) (r_kind r)) acc) rs acc)
  <-> (exists r, In r rs /\ In x (prefix_nodes [] (components (r_name r)) (r_kind r))) \/ In x acc.
Proof.
  induction rs as [|r rs IH]; intros acc x; cbn [fold_left].
  - split; [auto|]. intros [(r & [] & _)|H]; exact H.
  - rewrite IH, add_nodes_in. split.
    + intros [(r' & Hin & Hx)|[Hx|Hx]]; [left; exists r'; cbn; auto|left; exists r; cbn; auto|auto].
    + intros [(r' & [->|Hin] & Hx)|Hx]; [right; left; exact Hx|left; exists r'; auto|right; right; exact Hx].
Qed.
(* TREE NODES: (parent path, component, kind) is a node iff some listed name has the component at
   that place; it is a directory unless it is the name's last component, which has the entry's kind *)
Theorem tree_nodes_spec rs p c k :
  In (p, c, k) (tree_nodes rs) <->
  exists r pre post, In r rs /\ components (r_name r) = pre ++ c :: post /\
                     p = fold_left pjoin pre [] /\ k = match post with [] => r_kind r | _ => 1 end.
Proof.
  unfold tree_nodes. rewrite tree_fold_in. split.
  - intros [(r & Hin & Hx)|[]]. apply prefix_nodes_spec in Hx. destruct Hx as (pre & post & H). exists r, pre, post. tauto.
  - intros (r & pre & post & Hin & H). left. exists r. split; [exact Hin|]. apply prefix_nodes_spec. exists pre, post. exact H.
Qed.

(* premises are satisfiable / the definitions are not vacuous *)
Definition ex_rows : larchive :=
  [LNormal {| r_name := lit "a/b c"; r_kind := 0; r_size := Some 10; r_clen := 10; r_target := [] |};
   LSolid [{| r_name := lit "d/l"; r_kind := 2; r_size := None; r_clen := 4; r_target := lit "../a" |}]].
Example ex_nosolid_differs :
  map r_name (list_rows false 0 (fun _ => false) ex_rows) = [lit "a/b c"] /\
  map r_name (list_rows true 0 (fun _ => false) ex_rows) = [lit "a/b c"; lit "d/l"] /\
  In (lit "d", lit "l", 2) (tree_nodes (list_rows true 0 (fun _ => false) ex_rows)).
Proof. vm_compute. repeat split. right. right. right. left. reflexivity. Qed.

(* ---- -q (hide_control_chars) ------------------------------------------------------------------------ *)
(* what -q prints holds no byte below 0x20 and no 0x7f: in particular no line feed, whatever the names are *)
Lemma hide_control_graphic_len n : forall s, (length s <= n)%nat ->
  Forall (fun b => 32 <= b2n b /\ b2n b <> 127) (hide_control s).
Proof.
  induction n as [|n IH]; intros s Hn.
  - destruct s; [constructor | cbn in Hn; lia].
  - destruct s as [|b r]; [constructor|]. cbn [length] in Hn. cbn [hide_control].
    destruct ((b2n b <? 32) || (b2n b =? 127)) eqn:Hc.
    + constructor; [cbv; split; [discriminate|discriminate] | apply IH; lia].
    + apply orb_false_iff in Hc. destruct Hc as [H1 H2].
      apply N.ltb_ge in H1. apply N.eqb_neq in H2.
      destruct (b2n b =? 194) eqn:H194.
      * destruct r as [|b2 r2]; [repeat constructor; assumption|].
        destruct ((128 <=? b2n b2) && (b2n b2 <=? 159)).
        -- constructor; [cbv; split; discriminate | apply IH; cbn [length] in Hn; lia].
        -- constructor; [split; assumption | apply IH; lia].
      * constructor; [split; assumption | apply IH; lia].
Qed.
Lemma hide_control_graphic s : Forall (fun b => 32 <= b2n b /\ b2n b <> 127) (hide_control s).
Proof. apply (hide_control_graphic_len (length s)). lia. Qed.
Definition count_lf (s : bytes) : nat := length (filter (fun b => b2n b =? 10) s).
Lemma count_lf_app a b : count_lf (a ++ b) = (count_lf a + count_lf b)%nat.
Proof. unfold count_lf. rewrite filter_app, app_length. reflexivity. Qed.
Lemma count_lf_graphic s : Forall (fun b => 32 <= b2n b /\ b2n b <> 127) s -> count_lf s = 0%nat.
Proof.
  unfold count_lf. induction 1 as [|b s [Hb _] _ IH]; [reflexivity|]. cbn [filter].
  destruct (b2n b =? 10) eqn:E; [apply N.eqb_eq in E; lia | exact IH].
Qed.
(* -q: exactly one output line per listed row (the rows are those of list_rows: -q is not an argument of it) *)
Theorem plain_q_one_line_per_row classify rs : count_lf (plain_output_q classify rs) = length rs.
Proof.
  unfold plain_output_q. induction rs as [|r rs IH]; [reflexivity|].
  cbn [map concat length]. rewrite !count_lf_app, IH. unfold display_q.
  rewrite (count_lf_graphic _ (hide_control_graphic _)). reflexivity.
Qed.
(* names without control characters are printed unchanged *)
Lemma hide_control_id_len n : forall s, (length s <= n)%nat ->
  Forall (fun b => 32 <= b2n b /\ b2n b <> 127 /\ b2n b <> 194) s -> hide_control s = s.
Proof.
  induction n as [|n IH]; intros s Hn Hs.
  - destruct s; [reflexivity | cbn in Hn; lia].
  - destruct s as [|b r]; [reflexivity|]. inversion Hs as [|? ? (H1 & H2 & H3) Hr]; subst. cbn [length] in Hn. cbn [hide_control].
    replace (b2n b <? 32) with false by (symmetry; apply N.ltb_ge; exact H1).
    replace (b2n b =? 127) with false by (symmetry; apply N.eqb_neq; exact H2).
    replace (b2n b =? 194) with false by (symmetry; apply N.eqb_neq; exact H3).
    cbn [orb]. f_equal. apply IH; [lia | exact Hr].
Qed.
Example ex_hide : hide_control (lit "a" ++ [x09; xc2; x85; xc2; xa9; x7f] ++ lit "b") = lit "a??" ++ [xc2; xa9] ++ lit "?b".
Proof. vm_compute. reflexivity. Qed.
