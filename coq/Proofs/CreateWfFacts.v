(* CreateWfFacts.v — C14 for what `pna create` writes: the hypotheses `writable` / `writable_spec` / `strict_ctx` /
   `small_pieces` of Props/C14.v are DERIVED from the C02 side (the tree, the options, the jobs that carry create's
   entries), so that "the CLI only hands writable inputs to the writers" is a theorem for `create`, `create --solid`,
   `create --split` and `create --solid --split`.

   From C02 (CreateExtractFacts / CreateTransportFacts): wf_tree t (Normal path components), tree_ok t (every path once
   and not empty, ...), Forall2 carries jobs (create_from_tree c order t), Forall (wf_job pw) jobs (the format's ranges:
   UTF-8 sanitised name, sizes below the width of their length fields, key / IV sizes).
   Not needed: o_guarded, walk_order_ok, out (they concern the extractor), the decryptor D, the compressor laws, the KDF.
   Added, each NEEDED (lemma in brackets):
     phc_job          the PHSF string of an encrypted entry has PHC shape      [create_output_wf_needs_phc: if it fails the
                      written archive is REJECTED by the recogniser]
     phc_ctx          the same for the cipher context of the solid entry      [solid_output_wf_needs: part of writable_solid]
   No size premise: a write of 2^32 bytes or more that reaches a chunk sink is cut into several chunks (FlattenWriter
   for the builders; ChunkStreamWriter::write since fix 45407aa2 for the streaming writers) — the premise small_pieces
   of before that fix is gone from every theorem of this file (small_pieces_of_compress_small is kept as a fact).
   The name premise of C02_built_entries_writable (non-empty) and of C14 (valid_name) is derived from the tree:
   create_names_sane.  The model create_from_tree has no filter for empty names: it relies on tree_ok (p <> []) — the
   paths ".", "..", "./" that collect_items drops since fix 707e049c are the paths with NO Normal component;
   create_empty_name_without_tree_ok is the witness that the premise is what excludes them. *)
From PNA Require Import Base Crc32 Name Codec Chunk Archive Entry Flatten Cbc Ctr Pipeline Aes Camellia Wf
  BaseFacts NameFacts CodecFacts ChunkFacts ArchiveFacts EntryFacts FlattenFacts CbcFacts CtrFacts StreamFacts PipelineFacts
  WfFacts WfWriterFacts WfAgreeFacts WfSplitFacts WfPipelineFacts WfRewriteFacts AesFacts CamelliaFacts PipelineRealFacts PipelineRun RecutFacts.
From PNA Require Split SplitFacts.
From PNA Require Import Fs Extract ExtractFacts CreateExtractFacts CreateTransportFacts CreateSplitFacts.
Require Import ZArith ZifyN ZifyNat ZifyBool Lia Permutation.
Open Scope N_scope.

(* ================================================================================================= *)
(* 1. the names `create` stores: derived from the tree                                                *)
(* ================================================================================================= *)
(* every entry of create_from_tree is named by a non-empty path of Normal components: the stored name is not empty
   and a fixed point of the sanitiser (EntryName::from: no root, no "." / "..", no empty component) *)
Lemma create_names_sane c t : wf_tree t -> tree_ok t -> forall order,
  Forall (fun e => e_name e <> [] /\ sanitize_name (e_name e) = e_name e /\
                   exists p, p <> [] /\ Forall normal_component p /\ e_name e = path_str p)
         (create_from_tree c order t).
Proof.
  intros WF (_ & TK & _). induction order as [|p r IH]; [constructor|]. cbn [create_from_tree].
  destruct (tget t p) as [n|] eqn:G; [|exact IH]. destruct (collected c n); [|exact IH].
  constructor; [|exact IH]. apply tget_In in G. destruct (TK p n G) as (NE & _).
  unfold wf_tree in WF. rewrite Forall_forall in WF. pose proof (WF (p, n) G) as NC. cbn [fst] in NC.
  assert (e_name (entry_of c p n) = path_str p) as -> by (destruct n; reflexivity).
  split; [apply path_str_nonempty; assumption|]. split; [unfold path_str, slash1; apply sanitize_fixed; exact NC|].
  exists p. repeat split; assumption.
Qed.

(* with UTF-8 components the stored name is a valid name for the recogniser *)
Lemma create_names_valid c t : wf_tree t -> tree_ok t ->
  (forall p n, In (p, n) t -> forallb utf8_valid p = true) -> forall order,
  Forall (fun e => valid_name (e_name e) = true) (create_from_tree c order t).
Proof.
  intros WF TOK U. pose proof TOK as (_ & TK & _). induction order as [|p r IH]; [constructor|]. cbn [create_from_tree].
  destruct (tget t p) as [n|] eqn:G; [|exact IH]. destruct (collected c n); [|exact IH].
  constructor; [|exact IH]. apply tget_In in G. destruct (TK p n G) as (NE & _).
  unfold wf_tree in WF. rewrite Forall_forall in WF. pose proof (WF (p, n) G) as NC. cbn [fst] in NC.
  assert (e_name (entry_of c p n) = path_str p) as -> by (destruct n; reflexivity).
  apply valid_name_sanitised.
  - unfold path_str, slash1. rewrite utf8_valid_join. exact (U p n G).
  - unfold path_str, slash1. apply sanitize_fixed. exact NC.
  - apply path_str_nonempty; assumption.
Qed.

(* the model has no filter of its own: without tree_ok's `p <> []` a kept directory with no component — the path "."
   of `create -r . --keep-dir` before fix 707e049c — is stored under the empty name *)
Lemma create_empty_name_without_tree_ok :
  let t := [([], TDir 493)] in let c := mk_copts true false false false in
  wf_tree t /\ ~ tree_ok t /\ map e_name (create_from_tree c [[]] t) = [[]].
Proof.
  cbv zeta. split; [constructor; [constructor|constructor]|]. split; [|reflexivity].
  intros (_ & TK & _). destruct (TK [] (TDir 493) (or_introl eq_refl)) as (NE & _). congruence.
Qed.

(* ================================================================================================= *)
(* 2. each part of an accepted chain is a well-formed part file on its own                            *)
(* ================================================================================================= *)
Lemma bodies_each : forall ps idx cs, bodies idx ps = SOk cs ->
  forall i p, nth_error ps i = Some p -> wf_part (idx + N.of_nat i) p = true.
Proof.
  induction ps as [|q ps IH]; intros idx cs B i p Hn; [destruct i; discriminate|].
  rewrite bodies_cons in B. destruct (part_body idx q) as [[b n]|] eqn:PB; cbn [sbind] in B; [|discriminate].
  destruct i as [|i]; cbn [nth_error] in Hn.
  - injection Hn as <-. rewrite N.add_0_r. unfold wf_part. rewrite PB. reflexivity.
  - destruct ps as [|q' ps']; [destruct i; discriminate|]. destruct n; [|discriminate].
    destruct (bodies (idx + 1) (q' :: ps')) as [r|] eqn:B1; cbn [sbind] in B; [|discriminate].
    replace (idx + N.of_nat (S i)) with (idx + 1 + N.of_nat i) by lia. exact (IH _ _ B1 i p Hn).
Qed.

Lemma wf_parts_each ps : wf_parts ps = true ->
  forall i p, nth_error ps i = Some p -> wf_part (N.of_nat i) p = true.
Proof.
  unfold wf_parts, strict_parts. destruct (bodies 0 ps) as [cs|] eqn:B; cbn [sbind sok]; [|discriminate].
  intros _ i p Hn. exact (bodies_each ps 0 cs B i p Hn).
Qed.

Lemma ser_entry_input ents : map to_c (concat (map (fun e => map of_c (ser_entry e)) ents)) = concat (map ser_entry ents).
Proof. induction ents as [|e ents IH]; [reflexivity|]. cbn [map concat]. rewrite map_app, map_to_of_c, IH. reflexivity. Qed.

(* C14 split_wf with the size bound and the per-part recogniser *)
Theorem split_output_wf max ents parts : Forall writable ents ->
  Split.write_split max (map (fun e => map of_c (ser_entry e)) ents) = Ok parts ->
  wf_parts (map ser_pfile parts) = true /\
  (forall i f, nth_error parts i = Some f -> wf_part (N.of_nat i) (ser_pfile f) = true /\ len (ser_pfile f) <= max) /\
  exists xs', strict_parts (map ser_pfile parts) = SOk xs' /\ Forall2 entry_same (map normalize_entry ents) xs'.
Proof.
  intros W H. destruct (split_wf max ents parts W H) as (WP & X). split; [exact WP|]. split; [|exact X].
  intros i f Hn. split.
  - apply (wf_parts_each _ WP i). rewrite nth_error_map, Hn. reflexivity.
  - assert (SZ : Forall (fun f => Split.file_size f <= max /\ len (ser_pfile f) = Split.file_size f) parts).
    { apply (split_parts_sizes max _ parts H). rewrite ser_entry_input. apply written_body_chunks. exact W. }
    rewrite Forall_forall in SZ. destruct (SZ f (nth_error_In _ _ Hn)) as (A & B). rewrite B. exact A.
Qed.

(* ================================================================================================= *)
(* 3. create's entries are writable                                                                   *)
(* ================================================================================================= *)
Lemma filter_all {A} (f : A -> bool) l : Forall (fun x => f x = true) l -> filter f l = l.
Proof. induction 1 as [|x l Hx _ IH]; [reflexivity|]. cbn [filter]. rewrite Hx, IH. reflexivity. Qed.

Lemma phc_ctx_unfolded cfg ctx :
  phc_ctx cfg ctx <-> (Pipeline.encrypted cfg = true -> phsf_shape (c_phsf ctx) = true /\ len (c_phsf ctx) < 2 ^ 32).
Proof. reflexivity. Qed.

Section CreateWf.
Variable E : encryption -> bytes -> bytes -> bytes.
Variable compress : compression -> N -> list bytes -> list bytes.
Variable verify : bytes -> bytes -> res bytes.
Hypothesis E_len : forall a k b, len16 b -> len16 (E a k b).

Notation build_job := (build_job E compress).
Notation wf_job := (wf_job E compress verify).

(* a built entry holds no empty payload and none of 2^32 bytes or more (PipelineFacts.normalize_build, with the key / IV
   sizes only) *)
Lemma normalize_built cfg ctx sp wcuts : key_iv_ok (c_key ctx) (c_iv ctx) = true ->
  normalize (build_normal E compress cfg ctx sp wcuts) = build_normal E compress cfg ctx sp wcuts.
Proof.
  intro K. unfold normalize, build_normal. cbv zeta. cbn [n_hdr n_phsf n_extra n_data n_meta n_xattrs].
  unfold cut_data. rewrite PiecesFacts.cutN_fixed; [reflexivity|].
  unfold build_data, iv_part. apply Forall_app. split.
  - destruct (Pipeline.encrypted _); constructor; [|constructor].
    unfold key_iv_ok in K. apply andb_prop in K. destruct K as (_ & K). apply N.eqb_eq in K.
    split; [destruct (c_iv ctx); [discriminate K|discriminate]|]. apply PiecesFacts.CMAX_lt. rewrite K. reflexivity.
  - apply flat_sink_at_bounded, PiecesFacts.CMAX_pos.
Qed.

Lemma normalize_jobs pw jobs : Forall (wf_job pw) jobs ->
  map normalize_entry (map RNormal (map build_job jobs)) = map (fun j => RNormal (build_job j)) jobs.
Proof.
  intro H. rewrite !map_map. apply map_ext_in. intros j Hj. rewrite Forall_forall in H.
  destruct (H j Hj) as (_ & (K & _) & _). cbn [normalize_entry]. unfold PipelineFacts.build_job. rewrite normalize_built by exact K. reflexivity.
Qed.

(* jobs that carry entries with non-empty names: every built entry is writable *)
Lemma carried_writable pw : forall jobs es, Forall2 carries jobs es -> Forall (wf_job pw) jobs ->
  Forall (fun e => e_name e <> []) es -> Forall phc_job jobs -> Forall writable_normal (map build_job jobs).
Proof.
  induction 1 as [|j e jobs es [a Ha] _ IH]; intros Hw Hn Hp; [constructor|].
  inversion Hw; subst. inversion Hn; subst. inversion Hp; subst. cbn [map]. constructor; [|apply IH; assumption].
  apply (built_writable E compress verify E_len pw); try assumption; rewrite Ha; cbn [xspec sp_name sp_extra]; [assumption|constructor].
Qed.

Lemma created_writable pw c order t jobs : wf_tree t -> tree_ok t ->
  Forall2 carries jobs (create_from_tree c order t) -> Forall (wf_job pw) jobs -> Forall phc_job jobs ->
  Forall writable_normal (map build_job jobs).
Proof.
  intros WF TOK Hc Hw Hp. apply (carried_writable pw jobs _ Hc Hw); [|exact Hp].
  eapply Forall_impl; [|exact (create_names_sane c t WF TOK order)]. intros e H. exact (proj1 H).
Qed.

Lemma writable_normals ns : Forall writable_normal ns -> Forall writable (map RNormal ns).
Proof. induction 1; cbn [map]; constructor; assumption. Qed.

(* ---- 3a. `pna create`: Archive::write_header, add_entry of every built entry, finalize --------------------- *)
Theorem create_output_wf : forall c order t pw jobs,
  wf_tree t -> tree_ok t ->
  Forall2 carries jobs (create_from_tree c order t) -> Forall (wf_job pw) jobs -> Forall phc_job jobs ->
  let a := write_archive (map build_job jobs) in
  let es := map (fun j => RNormal (build_job j)) jobs in
  wf_archive a = true /\ strict_decode a = Ok es /\
  entries read_chunk_stream a = Ok (es, FinOk) /\ entries read_chunk_slice a = Ok (es, FinOk).
Proof.
  intros c order t pw jobs WF TOK Hc Hw Hp a es.
  pose proof (writable_normals _ (created_writable pw c order t jobs WF TOK Hc Hw Hp)) as W.
  assert (EQ : a = write_raw_archive 0 (map ser_entry (map RNormal (map build_job jobs)))).
  { unfold a, write_archive. rewrite (map_map RNormal ser_entry). reflexivity. }
  destruct (writer_wf _ W) as (A & B). destruct (written_read_back _ W) as (R1 & R2).
  rewrite (normalize_jobs pw jobs Hw) in B, R1, R2. rewrite EQ. repeat split; assumption.
Qed.

(* ---- 3b. `pna create --solid`: Archive::write_solid_header, add_entry of every built entry, finalize -------- *)
(* the same premise for the cipher context of the solid entry; nothing when it is not encrypted *)
Lemma solid_ctx_cases cfg ctx : key_iv_ok (c_key ctx) (c_iv ctx) = true -> phc_ctx cfg ctx ->
  (Pipeline.encrypted cfg = true /\ strict_ctx ctx) \/ (Pipeline.encrypted cfg = false /\ strict_ctx (with_sample ctx)).
Proof.
  intros K PH. destruct (Pipeline.encrypted cfg) eqn:EN.
  - left. split; [reflexivity|]. destruct (PH EN) as (P1 & P2). split; [exact K|split; assumption].
  - right. split; [reflexivity|]. split; [exact K|split; reflexivity].
Qed.

Lemma plain_inner_writes cfg inner : Forall writable_normal inner -> plain_inner cfg (solid_writes inner).
Proof. intros W _ _. exists inner. split; [exact W|apply solid_writes_stream]. Qed.

Lemma streamed_solid_ok cfg ctx inner : key_iv_ok (c_key ctx) (c_iv ctx) = true -> phc_ctx cfg ctx ->
  Forall writable_normal inner ->
  writable_solid (streamed_solid E compress cfg ctx (solid_writes inner)).
Proof.
  intros K PH W. destruct (solid_ctx_cases cfg ctx K PH) as [(EN & SC)|(EN & SC)].
  - apply (streamed_solid_writable E compress E_len); [exact SC|apply plain_inner_writes; exact W].
  - replace (streamed_solid E compress cfg ctx (solid_writes inner))
      with (streamed_solid E compress cfg (with_sample ctx) (solid_writes inner))
      by (unfold streamed_solid, phsf_part; rewrite EN; reflexivity).
    apply (streamed_solid_writable E compress E_len); [exact SC|apply plain_inner_writes; exact W].
Qed.

Lemma built_solid_ok cfg ctx inner : key_iv_ok (c_key ctx) (c_iv ctx) = true -> phc_ctx cfg ctx ->
  Forall writable_normal inner ->
  writable_solid (build_solid E compress cfg ctx [] (solid_writes inner)).
Proof.
  intros K PH W. destruct (solid_ctx_cases cfg ctx K PH) as [(EN & SC)|(EN & SC)].
  - apply (build_solid_writable E compress E_len); [exact SC|constructor|apply plain_inner_writes; exact W].
  - replace (build_solid E compress cfg ctx [] (solid_writes inner))
      with (build_solid E compress cfg (with_sample ctx) [] (solid_writes inner))
      by (unfold build_solid, phsf_part; rewrite EN; reflexivity).
    apply (build_solid_writable E compress E_len); [exact SC|constructor|apply plain_inner_writes; exact W].
Qed.

(* what the added premise is for: it is part of writable_solid.  (Until fix 45407aa2 there was a second one,
   small_pieces: every write that reaches the SDAT sink below 2^32 bytes; the sink now cuts longer writes.) *)
Lemma solid_output_wf_needs cfg ctx sw : writable_solid (streamed_solid E compress cfg ctx sw) -> phc_ctx cfg ctx.
Proof.
  intros (_ & _ & P & _). unfold streamed_solid in *. cbn [so_hdr so_phsf so_data s_enc] in *.
  intro EN. unfold phsf_part in P. rewrite EN in P. cbn [phsf_ok] in P. exact (proj2 P).
Qed.

(* a compressor that hands on pieces below 2^32 bytes gives small_pieces (the inner entries' chunk writes are small) *)
Lemma small_pieces_of_compress_small cfg ctx inner : compress_small compress ->
  key_iv_ok (c_key ctx) (c_iv ctx) = true -> Forall writable_normal inner ->
  small_pieces E compress cfg ctx (solid_writes inner).
Proof.
  intros CS K W. unfold small_pieces, data_pieces.
  change (cwrite E cfg ctx (zwrite compress (g_comp cfg) (g_level cfg) (solid_writes inner)))
    with (cwrite E cfg (with_sample ctx) (zwrite compress (g_comp cfg) (g_level cfg) (solid_writes inner))).
  apply (cwrite_small E E_len); [split; [exact K|split; reflexivity]|].
  unfold zwrite. destruct (g_comp cfg); try apply CS. apply solid_writes_small. exact W.
Qed.

Theorem create_solid_output_wf : forall c order t pw jobs cfg ctx,
  wf_tree t -> tree_ok t ->
  Forall2 carries jobs (create_from_tree c order t) -> Forall (wf_job pw) jobs -> Forall phc_job jobs ->
  key_iv_ok (c_key ctx) (c_iv ctx) = true -> phc_ctx cfg ctx ->
  let a := write_raw_archive 0 [solid_archive_chunks E compress cfg ctx (solid_writes (map build_job jobs))] in
  let es := [RSolid (streamed_solid E compress cfg ctx (solid_writes (map build_job jobs)))] in
  wf_archive a = true /\ strict_decode a = Ok es /\
  entries read_chunk_stream a = Ok (es, FinOk) /\ entries read_chunk_slice a = Ok (es, FinOk) /\
  inner_entries (solid_plain_stream (map build_job jobs)) = SOk (map (fun j => RNormal (build_job j)) jobs).
Proof.
  intros c order t pw jobs cfg ctx WF TOK Hc Hw Hp K PH a es.
  pose proof (created_writable pw c order t jobs WF TOK Hc Hw Hp) as WN.
  assert (W : Forall writable es).
  { constructor; [|constructor]. cbn [writable]. apply streamed_solid_ok; assumption. }
  destruct (writer_wf _ W) as (A & B). destruct (written_read_back _ W) as (R1 & R2).
  repeat split; try assumption.
  unfold solid_plain_stream. rewrite (inner_entries_written _ WN). f_equal.
  pose proof (normalize_jobs pw jobs Hw) as NJ. rewrite !map_map in NJ. rewrite map_map. exact NJ.
Qed.

(* ---- 3c. `pna create --split max` ----------------------------------------------------------------------- *)
Theorem create_split_output_wf : forall c order t pw jobs max parts,
  wf_tree t -> tree_ok t ->
  Forall2 carries jobs (create_from_tree c order t) -> Forall (wf_job pw) jobs -> Forall phc_job jobs ->
  Split.write_split max (map (fun j => map of_c (ser_normal (build_job j))) jobs) = Ok parts ->
  wf_parts (map ser_pfile parts) = true /\
  (forall i f, nth_error parts i = Some f -> wf_part (N.of_nat i) (ser_pfile f) = true /\ len (ser_pfile f) <= max) /\
  exists xs', strict_parts (map ser_pfile parts) = SOk xs' /\
              Forall2 entry_same (map (fun j => RNormal (build_job j)) jobs) xs'.
Proof.
  intros c order t pw jobs max parts WF TOK Hc Hw Hp H.
  pose proof (writable_normals _ (created_writable pw c order t jobs WF TOK Hc Hw Hp)) as W.
  assert (EQ : map (fun j => map of_c (ser_normal (build_job j))) jobs
               = map (fun e => map of_c (ser_entry e)) (map RNormal (map build_job jobs))) by (rewrite !map_map; reflexivity).
  rewrite EQ in H. destruct (split_output_wf max _ parts W H) as (A & B & X).
  rewrite (normalize_jobs pw jobs Hw) in X. split; [exact A|]. split; [exact B|exact X].
Qed.

(* ---- 3d. `pna create --solid --split max`: SolidEntryBuilder (add_entry of each, build), then the splitter - *)
Theorem create_solid_split_output_wf : forall c order t pw jobs cfg ctx max parts,
  wf_tree t -> tree_ok t ->
  Forall2 carries jobs (create_from_tree c order t) -> Forall (wf_job pw) jobs -> Forall phc_job jobs ->
  key_iv_ok (c_key ctx) (c_iv ctx) = true -> phc_ctx cfg ctx ->
  let s := build_solid E compress cfg ctx [] (solid_writes (map build_job jobs)) in
  Split.write_split max [map of_c (ser_solid s)] = Ok parts ->
  wf_parts (map ser_pfile parts) = true /\
  (forall i f, nth_error parts i = Some f -> wf_part (N.of_nat i) (ser_pfile f) = true /\ len (ser_pfile f) <= max) /\
  exists xs', strict_parts (map ser_pfile parts) = SOk xs' /\ Forall2 entry_same [RSolid s] xs'.
Proof.
  intros c order t pw jobs cfg ctx max parts WF TOK Hc Hw Hp K PH s H.
  pose proof (created_writable pw c order t jobs WF TOK Hc Hw Hp) as WN.
  assert (W : Forall writable [RSolid s]).
  { constructor; [|constructor]. cbn [writable]. apply built_solid_ok; assumption. }
  change [map of_c (ser_solid s)] with (map (fun e => map of_c (ser_entry e)) [RSolid s]) in H.
  exact (split_output_wf max _ parts W H).
Qed.

End CreateWf.

(* ================================================================================================= *)
(* 4. phc_job is needed: without it the archive `create` writes is rejected                           *)
(* ================================================================================================= *)
Section Needed.
Variables E D : encryption -> bytes -> bytes -> bytes.
Variable compress : compression -> N -> list bytes -> list bytes.
Variable decompress : compression -> bytes -> res bytes.
Variable verify : bytes -> bytes -> res bytes.
Hypothesis D_len : forall a k c, len16 c -> len16 (D a k c).
Hypothesis DE : forall a k b, len16 b -> D a k (E a k b) = b.
Hypothesis E_len : forall a k b, len16 b -> len16 (E a k b).
Hypothesis compress_law : forall c lvl ws, decompress c (concat (compress c lvl ws)) = Ok (concat ws).
Hypothesis compress_det : forall c lvl (ws ws' : list bytes), concat ws = concat ws' ->
  concat (compress c lvl ws) = concat (compress c lvl ws').

(* whatever jobs in the format's ranges are written: if the recogniser accepts the archive, every encrypted entry's PHSF
   string has PHC shape (the tolerant reader reads the built entries back, the strict decoder agrees with it, and what
   the strict decoder returns is writable) *)
Theorem create_output_wf_needs_phc pw jobs : Forall (wf_job E compress verify pw) jobs ->
  wf_archive (write_archive (map (build_job E compress) jobs)) = true -> Forall phc_job jobs.
Proof.
  intros Hw WA. unfold wf_archive, wf_parts in WA.
  destruct (strict_parts [write_archive (map (build_job E compress) jobs)]) as [es|] eqn:S; [|discriminate].
  assert (SD : strict_decode (write_archive (map (build_job E compress) jobs)) = Ok es) by (unfold strict_decode; rewrite S; reflexivity).
  pose proof (strict_agrees _ _ SD) as R.
  pose proof (archive_roundtrip E D compress decompress verify D_len DE E_len compress_law compress_det pw jobs Hw) as RT.
  unfold read_archive in RT. rewrite R in RT. cbn [bind] in RT. injection RT as ->.
  pose proof (decoded_writable _ _ S) as W.
  apply Forall_forall. intros j Hj. rewrite Forall_forall in W.
  apply (built_writable_needs_phc E compress). exact (W (RNormal (build_job E compress j)) (in_map (fun j => RNormal (build_job E compress j)) jobs j Hj)).
Qed.
End Needed.

(* ================================================================================================= *)
(* 5. the premises are satisfiable (the tree of CreateTransportFacts: a directory, a 33-byte file with  *)
(*    an xattr, a link; AES-256-CBC), and the recogniser evaluated on what is written for it            *)
(* ================================================================================================= *)
Definition tx_archive : bytes := write_archive (map (build_job real_E_of tx_compress) tx_jobs).
Definition tx_solid_archive : bytes :=
  write_raw_archive 0 [solid_archive_chunks real_E_of tx_compress tx_cfg tx_ctx (solid_writes (map (build_job real_E_of tx_compress) tx_jobs))].

Example create_wf_premises : exists parts sparts,
  wf_tree tx_tree /\ tree_ok tx_tree /\
  Forall2 carries tx_jobs (create_from_tree tx_c tx_order tx_tree) /\
  Forall (wf_job real_E_of tx_compress tx_verify tx_pw) tx_jobs /\ Forall phc_job tx_jobs /\
  key_iv_ok (c_key tx_ctx) (c_iv tx_ctx) = true /\ phc_ctx tx_cfg tx_ctx /\
  Split.write_split 150 tx_split_input = Ok parts /\ length parts = 7%nat /\
  Split.write_split 300 [map of_c (ser_solid tx_solid)] = Ok sparts /\ length sparts = 5%nat.
Proof.
  destruct split_premises as (parts & sparts & P1 & P2 & P3 & _ & _ & P6 & P7 & _ & P9 & P10 & (K & _) & P12 & P14 & P15).
  exists parts, sparts.
  exact (conj P6 (conj P7 (conj P1 (conj P2 (conj P3 (conj K (conj P12 (conj P9 (conj P10 (conj P14 P15)))))))))).
Qed.

(* the recogniser run in the kernel on what the model of `create` writes for that tree *)
Example create_wf_evaluated : exists parts sparts,
  Split.write_split 150 tx_split_input = Ok parts /\ Split.write_split 300 [map of_c (ser_solid tx_solid)] = Ok sparts /\
  wf_archive tx_archive = true /\ wf_archive tx_solid_archive = true /\
  wf_parts (map ser_pfile parts) = true /\ wf_parts (map ser_pfile sparts) = true /\
  forallb (fun f => N.leb (len (ser_pfile f)) 150) parts = true /\ forallb (fun f => N.leb (len (ser_pfile f)) 300) sparts = true.
Proof.
  destruct (Split.write_split 150 tx_split_input) as [parts| |] eqn:W; [|vm_compute in W; discriminate|vm_compute in W; discriminate].
  destruct (Split.write_split 300 [map of_c (ser_solid tx_solid)]) as [sparts| |] eqn:WS; [|vm_compute in WS; discriminate|vm_compute in WS; discriminate].
  exists parts, sparts. split; [reflexivity|]. split; [reflexivity|].
  vm_compute in W. injection W as <-. vm_compute in WS. injection WS as <-.
  repeat split; vm_compute; reflexivity.
Qed.
