(* ExtractFacts.v — facts about Model/Fs.v and Model/Extract.v used by C09 and C02. *)
From PNA Require Import Base Name Fs Extract BaseFacts NameFacts.
Require Import ZArith ZifyN ZifyNat ZifyBool.
Open Scope N_scope.

(* ---- paths ------------------------------------------------------------------------------- *)
Lemma path_eqb_eq a : forall b, path_eqb a b = true <-> a = b.
Proof.
  induction a as [|x a IH]; intros [|y b]; cbn [path_eqb]; try (split; (reflexivity || discriminate)).
  rewrite andb_true_iff, bytes_eqb_eq, IH. split; [intros [-> ->]; reflexivity|intros [= -> ->]; auto].
Qed.

Lemma path_eqb_refl a : path_eqb a a = true.
Proof. apply path_eqb_eq. reflexivity. Qed.

Lemma path_eqb_neq a b : a <> b -> path_eqb a b = false.
Proof. intros H. destruct (path_eqb a b) eqn:E; [apply path_eqb_eq in E; contradiction|reflexivity]. Qed.

Lemma is_prefix_under out p : is_prefix out p = true <-> under out p.
Proof.
  unfold under. revert p. induction out as [|x out IH]; intros p.
  - cbn. split; [intros _; exists p; reflexivity|reflexivity].
  - destruct p as [|y p]; cbn [is_prefix].
    + split; [discriminate|intros [rel H]; discriminate].
    + rewrite andb_true_iff, bytes_eqb_eq, IH. split.
      * intros [-> [rel ->]]. exists rel. reflexivity.
      * intros [rel H]. cbn in H. injection H as -> ->. split; [reflexivity|exists rel; reflexivity].
Qed.

Lemma under_refl out : under out out.
Proof. exists []. rewrite app_nil_r. reflexivity. Qed.

Lemma under_app out rel : under out (out ++ rel).
Proof. exists rel. reflexivity. Qed.

Lemma under_trans a b c : under a b -> under b c -> under a c.
Proof. intros [r1 ->] [r2 ->]. exists (r1 ++ r2). rewrite app_assoc. reflexivity. Qed.

(* ---- finite maps ----------------------------------------------------------------------- *)
Lemma nget_nset_same m p v : nget (nset m p v) p = Some v.
Proof. cbn. rewrite path_eqb_refl. reflexivity. Qed.

Lemma nget_nset_other m p q v : p <> q -> nget (nset m p v) q = nget m q.
Proof. intros H. cbn. rewrite path_eqb_neq by exact H. reflexivity. Qed.

Lemma nget_ndel_same m p : nget (ndel m p) p = None.
Proof.
  induction m as [|[q v] m IH]; [reflexivity|]. cbn [ndel filter fst].
  destruct (path_eqb q p) eqn:E; cbn [negb]; [exact IH|]. cbn [nget]. rewrite E. exact IH.
Qed.

Lemma nget_ndel_other m p q : p <> q -> nget (ndel m p) q = nget m q.
Proof.
  intros H. induction m as [|[r v] m IH]; [reflexivity|]. cbn [ndel filter fst].
  destruct (path_eqb r p) eqn:E; cbn [negb].
  - apply path_eqb_eq in E. subst r. cbn [nget]. rewrite path_eqb_neq by exact H. exact IH.
  - cbn [nget]. destruct (path_eqb r q); [reflexivity|exact IH].
Qed.

Lemma nget_ndel_tree m p q :
  nget (ndel_tree m p) q = if is_prefix p q then None else nget m q.
Proof.
  induction m as [|[r v] m IH]; [cbn; destruct (is_prefix p q); reflexivity|]. cbn [ndel_tree filter fst].
  destruct (is_prefix p r) eqn:E; cbn [negb].
  - fold (ndel_tree m p). rewrite IH. cbn [nget]. destruct (path_eqb r q) eqn:E2; [|reflexivity].
    apply path_eqb_eq in E2. subst r. rewrite E. reflexivity.
  - cbn [nget]. fold (ndel_tree m p). rewrite IH. destruct (path_eqb r q) eqn:E2; [|reflexivity].
    apply path_eqb_eq in E2. subst r. rewrite E. reflexivity.
Qed.

Lemma iget_iset_same m i v : iget (iset m i v) i = Some v.
Proof. cbn. rewrite N.eqb_refl. reflexivity. Qed.

Lemma iget_iset_other m i j v : i <> j -> iget (iset m i v) j = iget m j.
Proof. intros H. cbn. destruct (N.eqb i j) eqn:E; [apply N.eqb_eq in E; contradiction|reflexivity]. Qed.

(* ---- resolution through a link-free prefix is literal ------------------------------------- *)
Definition plain (c : bytes) : Prop := is_dot c = false /\ is_dotdot c = false.
Definition nolink (m : list (path * dnode)) (q : path) : Prop := forall t, nget m q <> Some (DLink t).

(* every component is an ordinary name and no *proper* ancestor cur/c1/../ck is a symbolic link *)
Fixpoint guard_from (m : list (path * dnode)) (cur : path) (comps : list bytes) : Prop :=
  match comps with
  | [] => True
  | c :: rest => plain c /\ (rest <> [] -> nolink m (cur ++ [c])) /\ guard_from m (cur ++ [c]) rest
  end.

Lemma normal_plain c : normal_component c -> plain c.
Proof.
  intros (H1 & H2 & H3 & _). unfold plain, is_dot, is_dotdot. split.
  - destruct (bytes_eqb c [dot]) eqn:E; [apply bytes_eqb_eq in E; contradiction|reflexivity].
  - destruct (bytes_eqb c [dot; dot]) eqn:E; [apply bytes_eqb_eq in E; contradiction|reflexivity].
Qed.

(* a walk that does not follow the last component ends exactly at the literal path *)
Lemma walk_guard_nofollow fuel m : forall comps cur c',
  guard_from m cur comps -> walk fuel m cur comps false = Some c' -> c' = cur ++ comps.
Proof.
  induction fuel as [|fu IH]; intros comps cur c' G W; [discriminate|].
  destruct comps as [|c rest]; cbn [walk] in W.
  - injection W as <-. rewrite app_nil_r. reflexivity.
  - destruct G as ((Hd & Hdd) & Hl & G). rewrite Hd, Hdd in W.
    replace (cur ++ c :: rest) with ((cur ++ [c]) ++ rest) by (rewrite <- app_assoc; reflexivity).
    destruct (nget m (cur ++ [c])) as [[i|md|t]|] eqn:E.
    + destruct rest; [injection W as <-; rewrite app_nil_r; reflexivity|discriminate].
    + apply IH; assumption.
    + destruct rest as [|c2 rest]; [injection W as <-; rewrite app_nil_r; reflexivity|].
      exfalso. apply (Hl ltac:(discriminate) t). exact E.
    + destruct rest; [injection W as <-; rewrite app_nil_r; reflexivity|discriminate].
Qed.

(* the same when the last component is followed but is not a link either *)
Lemma walk_guard_follow fuel m : forall comps cur c',
  guard_from m cur comps -> (comps <> [] -> nolink m (cur ++ comps)) ->
  walk fuel m cur comps true = Some c' -> c' = cur ++ comps.
Proof.
  induction fuel as [|fu IH]; intros comps cur c' G L W; [discriminate|].
  destruct comps as [|c rest]; cbn [walk] in W.
  - injection W as <-. rewrite app_nil_r. reflexivity.
  - destruct G as ((Hd & Hdd) & Hl & G). rewrite Hd, Hdd in W.
    replace (cur ++ c :: rest) with ((cur ++ [c]) ++ rest) in * by (rewrite <- app_assoc; reflexivity).
    destruct (nget m (cur ++ [c])) as [[i|md|t]|] eqn:E.
    + destruct rest; [injection W as <-; rewrite app_nil_r; reflexivity|discriminate].
    + apply IH; try assumption. intros Hr. apply L. discriminate.
    + exfalso. destruct rest as [|c2 rest].
      * rewrite app_nil_r in L. apply (L ltac:(discriminate) t). exact E.
      * apply (Hl ltac:(discriminate) t). exact E.
    + destruct rest; [injection W as <-; rewrite app_nil_r; reflexivity|discriminate].
Qed.

Lemma guard_from_app m : forall a cur b,
  guard_from m cur a -> (a <> [] -> b <> [] -> nolink m (cur ++ a)) -> guard_from m (cur ++ a) b ->
  guard_from m cur (a ++ b).
Proof.
  induction a as [|c a IH]; intros cur b Ga L Gb.
  - rewrite app_nil_r in Gb. exact Gb.
  - cbn [app guard_from] in *. destruct Ga as (P & Hl & Ga). split; [exact P|]. split.
    + intros Hne. destruct a as [|c2 a].
      * cbn [app] in *. destruct b as [|b1 b]; [contradiction|]. apply L; discriminate.
      * apply Hl. discriminate.
    + replace (cur ++ c :: a) with ((cur ++ [c]) ++ a) in * by (rewrite <- app_assoc; reflexivity).
      apply IH; try assumption. intros Ha Hb. apply L; [discriminate|exact Hb].
Qed.

Lemma guard_from_intro m : forall comps cur,
  Forall plain comps ->
  (forall a b, comps = a ++ b -> a <> [] -> b <> [] -> nolink m (cur ++ a)) ->
  guard_from m cur comps.
Proof.
  induction comps as [|c rest IH]; intros cur HP H; [exact I|].
  inversion HP as [|? ? Pc Pr]; subst. cbn [guard_from]. split; [exact Pc|]. split.
  - intros Hr. apply (H [c] rest); [reflexivity|discriminate|exact Hr].
  - apply IH; [exact Pr|]. intros a b -> Ha Hb. rewrite <- app_assoc. apply (H (c :: a) b); [reflexivity|discriminate|exact Hb].
Qed.

(* ---- confinement below an output directory ------------------------------------------------- *)
Section Confine.
Variable out : path.
Hypothesis out_plain : Forall plain out.

(* `out` and every directory on the way to it exist as directories (no link leads to `out`) *)
Definition dirchain (m : list (path * dnode)) : Prop :=
  forall q r, out = q ++ r -> q <> [] -> exists md, nget m q = Some (DDir md).
Definition nolinks_under (m : list (path * dnode)) : Prop :=
  forall q t, under out q -> nget m q <> Some (DLink t).
(* no inode has a name inside and a name outside `out` *)
Definition sep (m : list (path * dnode)) : Prop :=
  forall p q i, nget m p = Some (DFile i) -> nget m q = Some (DFile i) -> under out p -> under out q.
Definition fresh (f : fs) : Prop := forall p i, nget (names f) p = Some (DFile i) -> i < next f.

Definition J (f : fs) : Prop :=
  dirchain (names f) /\ nolinks_under (names f) /\ sep (names f) /\ fresh f.

Definition same_outside (f f' : fs) : Prop :=
  (forall q, ~ under out q -> nget (names f') q = nget (names f) q) /\
  (forall q i, ~ under out q -> nget (names f) q = Some (DFile i) -> iget (inodes f') i = iget (inodes f) i).

Lemma same_outside_refl f : same_outside f f.
Proof. split; intros; reflexivity. Qed.

Lemma same_outside_trans f g h : same_outside f g -> same_outside g h -> same_outside f h.
Proof.
  intros [N1 I1] [N2 I2]. split.
  - intros q Hq. rewrite N2, N1 by exact Hq. reflexivity.
  - intros q i Hq Hn. rewrite (I2 q i Hq), (I1 q i Hq); [reflexivity|exact Hn|]. rewrite N1 by exact Hq. exact Hn.
Qed.

Lemma same_outside_observe f f' : same_outside f f' -> forall p, ~ under out p -> observe f' p = observe f p.
Proof.
  intros [N Ii] p Hp. unfold observe. rewrite (N p Hp).
  destruct (nget (names f) p) as [[i|md|t]|] eqn:E; try reflexivity. rewrite (Ii p i Hp E). reflexivity.
Qed.

(* a path the extraction may touch: a directory on the way to `out`, or something at/below `out` *)
Definition okpath (q : path) : Prop :=
  Forall plain q /\ ((exists r, out = q ++ r) \/ under out q).

Lemma okpath_nolink f q : J f -> okpath q -> q <> [] -> nolink (names f) q.
Proof.
  intros (DC & NL & _) [_ [[r Hr]|U]] Hne t.
  - destruct (DC q r Hr Hne) as [md E]. rewrite E. discriminate.
  - apply NL. exact U.
Qed.

Lemma okpath_prefix q a b : okpath q -> q = a ++ b -> okpath a.
Proof.
  intros [P H] ->. split; [apply Forall_app in P; tauto|].
  destruct H as [[r Hr]|[rel Hrel]].
  - left. exists (b ++ r). rewrite app_assoc. exact Hr.
  - apply app_eq_app in Hrel. destruct Hrel as [l [[-> ->]|[-> ->]]].
    + right. exists l. reflexivity.
    + left. exists l. reflexivity.
Qed.

Lemma okpath_guard f q : J f -> okpath q -> guard_from (names f) [] q.
Proof.
  intros HJ OK. apply guard_from_intro; [exact (proj1 OK)|].
  intros a b E Ha Hb. cbn [app]. apply (okpath_nolink f a HJ); [|exact Ha]. eapply okpath_prefix; eauto.
Qed.

Lemma resolve_ok f q fl c : J f -> okpath q -> resolve f q fl = Some c -> c = q.
Proof.
  intros HJ OK R. unfold resolve in R. destruct fl.
  - apply walk_guard_follow in R; [exact R|apply okpath_guard; assumption|].
    intros Hne. cbn [app]. apply okpath_nolink; assumption.
  - apply walk_guard_nofollow in R; [exact R|apply okpath_guard; assumption].
Qed.

Lemma okpath_out_app comps : Forall plain comps -> okpath (out ++ comps).
Proof. intros H. split; [apply Forall_app; split; assumption|right; apply under_app]. Qed.

(* a strict ancestor of `out` is not below `out` *)
Lemma dirchain_or_under q : okpath q -> (exists r, out = q ++ r) \/ under out q.
Proof. intros [_ H]. exact H. Qed.

Lemma is_link_false f q : J f -> okpath q -> q <> [] -> is_link f q = false.
Proof.
  intros HJ OK Hne. unfold is_link, lstat. destruct (resolve f q false) as [c|] eqn:R; [|reflexivity].
  apply resolve_ok in R; try assumption. subst c.
  destruct (nget (names f) q) as [[i|md|t]|] eqn:E; try reflexivity.
  exfalso. exact (okpath_nolink f q HJ OK Hne t E).
Qed.

(* ---- the individual calls --------------------------------------------------------------------- *)
Definition good (f f' : fs) : Prop := J f' /\ same_outside f f'.

Lemma good_refl f : J f -> good f f.
Proof. intros H. split; [exact H|apply same_outside_refl]. Qed.

Lemma good_trans f g h : good f g -> good g h -> good f h.
Proof. intros [_ S1] [J2 S2]. split; [exact J2|eapply same_outside_trans; eassumption]. Qed.

Lemma neq_sym_path (q a : path) : path_eqb q a = false -> q <> a.
Proof. intros E ->. rewrite path_eqb_refl in E. discriminate. Qed.

(* an admissible path that is vacant, or lies at/below out, is not outside *)
Lemma okpath_not_outside f q : J f -> okpath q -> q <> [] ->
  (nget (names f) q = None \/ under out q) -> under out q.
Proof.
  intros (DC & _) [_ [[r Hr]|U]] Hne [Hq|U']; try assumption.
  destruct (DC q r Hr Hne) as [md E]. rewrite E in Hq. discriminate.
Qed.

(* binding an admissible path (vacant, or at/below out) to a node that names no file *)
Lemma good_set_nofile f q v :
  J f -> okpath q -> q <> [] -> (nget (names f) q = None \/ under out q) ->
  (forall i, v <> DFile i) ->
  (forall t, v = DLink t -> ~ under out q) ->          (* never used with a link: kept for the statement's generality *)
  (q = out -> exists md, v = DDir md) ->
  good f (with_names f (nset (names f) q v)).
Proof.
  intros HJ OK Hne Hq Hv Hl Ho. pose proof (okpath_not_outside f q HJ OK Hne Hq) as U.
  destruct HJ as (DC & NL & SP & FR).
  assert (Hn : forall x j, nget (nset (names f) q v) x = Some (DFile j) -> nget (names f) x = Some (DFile j)).
  { intros x j. destruct (path_eqb q x) eqn:Eq.
    - apply path_eqb_eq in Eq. subst x. rewrite nget_nset_same. intros [= E]. exfalso. exact (Hv j E).
    - rewrite nget_nset_other by (apply neq_sym_path; exact Eq). auto. }
  split; [split; [|split; [|split]]|split]; unfold fresh in *; cbn [names with_names next inodes] in *.
  - intros a r E Ha. destruct (path_eqb q a) eqn:Eq.
    + apply path_eqb_eq in Eq. subst a. rewrite nget_nset_same.
      assert (q = out) as Hqo.
      { destruct U as [rel Hrel]. rewrite Hrel in E. rewrite <- app_assoc in E.
        rewrite <- (app_nil_r out) in E at 1. apply app_inv_head in E.
        symmetry in E. apply app_eq_nil in E. destruct E as [-> _]. rewrite app_nil_r in Hrel. exact Hrel. }
      destruct (Ho Hqo) as [md ->]. eauto.
    + rewrite nget_nset_other by (apply neq_sym_path; exact Eq). eapply DC; eauto.
  - intros a t Ua. destruct (path_eqb q a) eqn:Eq.
    + apply path_eqb_eq in Eq. subst a. rewrite nget_nset_same. intros [= E]. exact (Hl t E U).
    + rewrite nget_nset_other by (apply neq_sym_path; exact Eq). apply NL. exact Ua.
  - intros a b i Ea Eb Ua. eapply SP; eauto.
  - intros a i E. apply FR with a. apply Hn. exact E.
  - intros a Ha. destruct (path_eqb q a) eqn:Eq; [apply path_eqb_eq in Eq; subst a; contradiction|].
    rewrite nget_nset_other by (apply neq_sym_path; exact Eq). reflexivity.
  - intros; reflexivity.
Qed.

Lemma good_mkdir f q f' ok : J f -> okpath q -> q <> [] -> mkdir f q = (f', ok) -> good f f'.
Proof.
  intros HJ OK Hne. unfold mkdir. destruct (resolve f q false) as [c|] eqn:R.
  - apply resolve_ok in R; try assumption. subst c.
    destruct (nget (names f) q) eqn:E; intros [= <- <-]; [apply good_refl; exact HJ|].
    apply good_set_nofile; try assumption; [left; exact E|discriminate|discriminate|eauto].
  - intros [= <- <-]. apply good_refl. exact HJ.
Qed.

Lemma good_cda : forall rest pre f f' ok,
  J f -> okpath (pre ++ rest) -> cda f pre rest = (f', ok) -> good f f'.
Proof.
  induction rest as [|c r IH]; intros pre f f' ok HJ OK; cbn [cda].
  - intros [= <- <-]. apply good_refl. exact HJ.
  - assert (OK' : okpath ((pre ++ [c]) ++ r)) by (rewrite <- app_assoc; exact OK).
    assert (OKq : okpath (pre ++ [c])) by (eapply okpath_prefix; [exact OK'|reflexivity]).
    destruct (is_dir f (pre ++ [c])).
    + intros H. eapply IH; eauto.
    + destruct (mkdir f (pre ++ [c])) as [f1 ok1] eqn:M.
      assert (G1 : good f f1) by (eapply good_mkdir; eauto; destruct pre; discriminate).
      destruct ok1.
      * intros H. eapply good_trans; [exact G1|]. eapply IH; [exact (proj1 G1)|exact OK'|exact H].
      * intros [= <- <-]. exact G1.
Qed.

Lemma good_create_dir_all f q f' ok : J f -> okpath q -> create_dir_all f q = (f', ok) -> good f f'.
Proof. intros HJ OK. unfold create_dir_all. apply good_cda; assumption. Qed.

(* writing the inode of a file named at/below out *)
Lemma good_write_inode f q i n nx :
  J f -> under out q -> nget (names f) q = Some (DFile i) -> next f <= nx ->
  good f {| names := names f; inodes := iset (inodes f) i n; next := nx |}.
Proof.
  intros (DC & NL & SP & FR) U E Hnx. split; [split; [|split; [|split]]|split]; unfold fresh in *; cbn [names next inodes] in *; try assumption.
  - intros a j Ea. specialize (FR a j Ea). lia.
  - intros; reflexivity.
  - intros a j Ha Ea. destruct (N.eqb i j) eqn:Eij.
    + apply N.eqb_eq in Eij. subst j. exfalso. apply Ha. eapply SP; eauto.
    + rewrite iget_iset_other; [reflexivity|]. intros ->. rewrite N.eqb_refl in Eij. discriminate.
Qed.

Lemma good_new_file f q n :
  J f -> okpath q -> q <> [] -> nget (names f) q = None ->
  good f {| names := nset (names f) q (DFile (next f)); inodes := iset (inodes f) (next f) n; next := next f + 1 |}.
Proof.
  intros HJ OK Hne E. pose proof (okpath_not_outside f q HJ OK Hne (or_introl E)) as U.
  destruct HJ as (DC & NL & SP & FR).
  split; [split; [|split; [|split]]|split]; unfold fresh in *; cbn [names next inodes] in *.
  - intros a r Ea Ha. destruct (path_eqb q a) eqn:Eq.
    + apply path_eqb_eq in Eq. subst a. destruct (DC q r Ea Ha) as [md E']. rewrite E' in E. discriminate.
    + rewrite nget_nset_other by (apply neq_sym_path; exact Eq). eapply DC; eauto.
  - intros a t Ua. destruct (path_eqb q a) eqn:Eq.
    + apply path_eqb_eq in Eq. subst a. rewrite nget_nset_same. discriminate.
    + rewrite nget_nset_other by (apply neq_sym_path; exact Eq). apply NL. exact Ua.
  - intros a b i Ea Eb Ua. destruct (path_eqb q b) eqn:Eqb; [apply path_eqb_eq in Eqb; subst b; exact U|].
    rewrite nget_nset_other in Eb by (apply neq_sym_path; exact Eqb).
    destruct (path_eqb q a) eqn:Eqa.
    + apply path_eqb_eq in Eqa. subst a. rewrite nget_nset_same in Ea. injection Ea as <-.
      specialize (FR b _ Eb). lia.
    + rewrite nget_nset_other in Ea by (apply neq_sym_path; exact Eqa). eapply SP; eauto.
  - intros a i. destruct (path_eqb q a) eqn:Eq.
    + apply path_eqb_eq in Eq. subst a. rewrite nget_nset_same. intros [= <-]. lia.
    + rewrite nget_nset_other by (apply neq_sym_path; exact Eq). intros Ea. specialize (FR a i Ea). lia.
  - intros a Ha. destruct (path_eqb q a) eqn:Eq; [apply path_eqb_eq in Eq; subst a; contradiction|].
    rewrite nget_nset_other by (apply neq_sym_path; exact Eq). reflexivity.
  - intros a i Ha Ea. specialize (FR a i Ea). rewrite iget_iset_other; [reflexivity|lia].
Qed.

Lemma good_create_file f comps data f' ok :
  J f -> Forall plain comps -> comps <> [] -> create_file f (out ++ comps) data = (f', ok) -> good f f'.
Proof.
  intros HJ P Hne. pose proof (okpath_out_app comps P) as OK. unfold create_file.
  destruct (resolve f (out ++ comps) true) as [c|] eqn:R; [|intros [= <- <-]; apply good_refl; exact HJ].
  apply resolve_ok in R; try assumption. subst c.
  destruct (nget (names f) (out ++ comps)) as [[i|md|t]|] eqn:E.
  - destruct (iget (inodes f) i); intros [= <- <-]; [|apply good_refl; exact HJ].
    eapply good_write_inode; eauto; [apply under_app|lia].
  - intros [= <- <-]. apply good_refl. exact HJ.
  - intros [= <- <-]. apply good_refl. exact HJ.
  - intros [= <- <-]. apply good_new_file; try assumption. destruct out; destruct comps; try discriminate; contradiction.
Qed.

Lemma good_update_inode f comps g f' ok :
  J f -> Forall plain comps -> update_inode f (out ++ comps) g = (f', ok) -> good f f'.
Proof.
  intros HJ P. pose proof (okpath_out_app comps P) as OK. unfold update_inode.
  destruct (resolve f (out ++ comps) true) as [c|] eqn:R; [|intros [= <- <-]; apply good_refl; exact HJ].
  apply resolve_ok in R; try assumption. subst c.
  destruct (nget (names f) (out ++ comps)) as [[i|md|t]|] eqn:E; try (intros [= <- <-]; apply good_refl; exact HJ).
  destruct (iget (inodes f) i); intros [= <- <-]; [|apply good_refl; exact HJ].
  eapply good_write_inode; eauto; [apply under_app|lia].
Qed.

(* lsetxattr on the destination: the last component is not followed *)
Lemma good_lset_xattrs f comps xs f' ok :
  J f -> Forall plain comps -> lset_xattrs f (out ++ comps) xs = (f', ok) -> good f f'.
Proof.
  intros HJ P. pose proof (okpath_out_app comps P) as OK. unfold lset_xattrs.
  destruct xs as [|x xs]; [intros [= <- <-]; apply good_refl; exact HJ|].
  destruct (resolve f (out ++ comps) false) as [c|] eqn:R; [|intros [= <- <-]; apply good_refl; exact HJ].
  apply resolve_ok in R; try assumption. subst c.
  destruct (nget (names f) (out ++ comps)) as [[i|md|t]|] eqn:E; try (intros [= <- <-]; apply good_refl; exact HJ).
  destruct (iget (inodes f) i); intros [= <- <-]; [|apply good_refl; exact HJ].
  eapply good_write_inode; eauto; [apply under_app|lia].
Qed.

Lemma out_app_nonnil comps : out <> [] -> out ++ comps <> [].
Proof. destruct out; [contradiction|discriminate]. Qed.

Lemma good_chmod f comps mode f' ok :
  J f -> Forall plain comps -> out <> [] -> chmod f (out ++ comps) mode = (f', ok) -> good f f'.
Proof.
  intros HJ P Ho. pose proof (okpath_out_app comps P) as OK. unfold chmod.
  destruct (resolve f (out ++ comps) true) as [c|] eqn:R; [|intros [= <- <-]; apply good_refl; exact HJ].
  apply resolve_ok in R; try assumption. subst c.
  destruct (nget (names f) (out ++ comps)) as [[i|md|t]|] eqn:E; try (intros [= <- <-]; apply good_refl; exact HJ).
  - destruct (iget (inodes f) i); intros [= <- <-]; [|apply good_refl; exact HJ].
    eapply good_write_inode; eauto; [apply under_app|lia].
  - intros [= <- <-]. apply good_set_nofile; try assumption.
    + apply out_app_nonnil. exact Ho.
    + right. apply under_app.
    + discriminate.
    + discriminate.
    + eauto.
Qed.

(* ---- extract_entry for file and directory entries ---------------------------------------------- *)
Hypothesis out_nonnil : out <> [].

Lemma good_andthen f r k f' ok :
  (forall f1 ok1, r = (f1, ok1) -> good f f1) ->
  (forall f1, good f f1 -> forall f2 ok2, k f1 = (f2, ok2) -> good f f2) ->
  andthen r k = (f', ok) -> good f f'.
Proof.
  intros Hr Hk. unfold andthen. destruct r as [f1 ok1]. destruct ok1.
  - intros H. eapply Hk; [eapply Hr; reflexivity|exact H].
  - intros [= <- <-]. eapply Hr. reflexivity.
Qed.

Lemma name_comps_plain s : Forall plain (name_comps s).
Proof. unfold name_comps. eapply Forall_impl; [|apply sanitize_components]. apply normal_plain. Qed.

Lemma removelast_prefix (p : path) : exists b, p = removelast p ++ b.
Proof.
  destruct p as [|x p]; [exists []; reflexivity|].
  exists [last (x :: p) []]. apply app_removelast_last. discriminate.
Qed.

Definition file_or_dir (e : xentry) : Prop := e_kind e = 0 \/ e_kind e = 1.

Lemma good_apply_perm o e f comps : J f -> Forall plain comps -> good f (apply_perm o e f (out ++ comps)).
Proof.
  intros HJ P. unfold apply_perm. destruct (o_keep_perm o); [|apply good_refl; exact HJ].
  destruct (e_perm e) as [m|]; [|apply good_refl; exact HJ].
  destruct (o_guarded o && is_link f (out ++ comps)); [apply good_refl; exact HJ|].
  destruct (chmod f (out ++ comps) (m mod 4096)) as [f1 ok1] eqn:C. cbn [fst].
  eapply good_chmod; eauto.
Qed.

Lemma good_extract_entry o e f f' ok :
  o_guarded o = true -> J f -> file_or_dir e -> extract_entry o out e f = (f', ok) -> good f f'.
Proof.
  intros Hg HJ K. unfold extract_entry. rewrite Hg. cbn [andb].
  pose proof (name_comps_plain (e_name e)) as P. set (comps := name_comps (e_name e)) in *.
  pose proof (okpath_out_app comps P) as OK.
  destruct (nil_b comps && negb (N.eqb (e_kind e) 1)) eqn:E0; [intros [= <- <-]; apply good_refl; exact HJ|].
  destruct (negb (no_link_anc f out comps)); [intros [= <- <-]; apply good_refl; exact HJ|].
  destruct (negb (o_overwrite o) && lexists f (out ++ comps)); [intros [= <- <-]; apply good_refl; exact HJ|].
  rewrite (is_link_false f (out ++ comps) HJ OK (out_app_nonnil comps out_nonnil)).
  apply good_andthen.
  { intros f0' ok0' [= <- <-]. apply good_refl. exact HJ. }
  intros f0' G0 f0'' ok0''. apply good_andthen.
  { intros f1 ok1 H. eapply good_trans; [exact G0|]. eapply good_create_dir_all; [exact (proj1 G0)| |exact H].
    destruct (removelast_prefix (out ++ comps)) as [b Hb]. eapply okpath_prefix; [exact OK|exact Hb]. }
  intros f1 G1 f1' ok1'. apply good_andthen.
  - intros f2 ok2. destruct K as [K|K]; rewrite K.
    + (* file *)
      assert (Hne : comps <> []).
      { rewrite K in E0. cbn in E0. rewrite andb_true_r in E0. destruct comps; [discriminate|discriminate]. }
      change (N.eqb 0 0) with true. cbv iota.
      apply good_andthen.
      * intros f3 ok3 H. eapply good_trans; [exact G1|].
        eapply good_create_file; [exact (proj1 G1)|exact P|exact Hne|exact H].
      * intros f3 G3 f3' ok3'. apply good_andthen.
        -- intros f4 ok4. destruct (o_keep_time o); [|intros [= <- <-]; exact G3].
           destruct (e_mtime e) as [t|]; [|intros [= <- <-]; exact G3].
           intros H. eapply good_trans; [exact G3|]. eapply good_update_inode; [exact (proj1 G3)|exact P|exact H].
        -- intros f4 G4 f5 ok5 [= <- <-]. exact G4.
    + (* directory *)
      change (N.eqb 1 0) with false. change (N.eqb 1 1) with true. cbv iota.
      intros H. eapply good_trans; [exact G1|]. eapply good_create_dir_all; [exact (proj1 G1)|exact OK|exact H].
  - (* extended attributes, then owner + mode *)
    intros f2 G2 f3 ok3. apply good_andthen.
    + intros f4 ok4. destruct (o_keep_xattr o); [|intros [= <- <-]; exact G2].
      intros H. eapply good_trans; [exact G2|]. eapply good_lset_xattrs; [exact (proj1 G2)|exact P|exact H].
    + intros f4 G4 f5 ok5 [= <- <-].
      eapply good_trans; [exact G4|]. exact (good_apply_perm o e f4 comps (proj1 G4) P).
Qed.

Lemma good_extract_each o : forall es f ok0 f' ok,
  o_guarded o = true -> J f -> Forall file_or_dir es -> extract_each o out es f ok0 = (f', ok) -> good f f'.
Proof.
  induction es as [|e r IH]; intros f ok0 f' ok Hg HJ HF; cbn [extract_each].
  - intros [= <- <-]. apply good_refl. exact HJ.
  - inversion HF as [|? ? He Hr]; subst. destruct (extract_entry o out e f) as [f1 ok1] eqn:E.
    pose proof (good_extract_entry o e f f1 ok1 Hg HJ He E) as G1.
    intros H. eapply good_trans; [exact G1|]. eapply IH; [exact Hg|exact (proj1 G1)|exact Hr|exact H].
Qed.

Lemma good_extract_until o : forall es f f' ok,
  o_guarded o = true -> J f -> Forall file_or_dir es -> extract_until o out es f = (f', ok) -> good f f'.
Proof.
  induction es as [|e r IH]; intros f f' ok Hg HJ HF; cbn [extract_until].
  - intros [= <- <-]. apply good_refl. exact HJ.
  - inversion HF as [|? ? He Hr]; subst. destruct (extract_entry o out e f) as [f1 ok1] eqn:E.
    pose proof (good_extract_entry o e f f1 ok1 Hg HJ He E) as G1.
    destruct ok1; [|intros [= <- <-]; exact G1].
    intros H. eapply good_trans; [exact G1|]. eapply IH; [exact Hg|exact (proj1 G1)|exact Hr|exact H].
Qed.

Lemma Forall_filter {A} (P : A -> Prop) (g : A -> bool) l : Forall P l -> Forall P (filter g l).
Proof.
  induction 1 as [|x l Hx _ IH]; [constructor|]. cbn [filter]. destruct (g x); [constructor; assumption|assumption].
Qed.

Theorem extract_confined_files_dirs o arch f0 :
  o_guarded o = true -> J f0 -> Forall file_or_dir arch ->
  forall p, mutated f0 (extract_all o out arch f0) p -> under out p.
Proof.
  intros Hg HJ HF p M. destruct (is_prefix out p) eqn:E; [apply is_prefix_under; exact E|]. exfalso.
  assert (Hp : ~ under out p) by (intros U; apply is_prefix_under in U; congruence).
  apply M. symmetry. apply same_outside_observe; [|exact Hp].
  unfold extract_all, extract_run.
  destruct (extract_each o out (filter (fun e => negb (is_hardlink e)) arch) f0 true) as [f1 ok1] eqn:E1.
  pose proof (good_extract_each o _ f0 true f1 ok1 Hg HJ (Forall_filter _ _ _ HF) E1) as G1.
  destruct ok1; cbn [fst]; [|exact (proj2 G1)].
  destruct (extract_until o out (filter is_hardlink arch) f1) as [f2 ok2] eqn:E2. cbn [fst].
  pose proof (good_extract_until o _ f1 f2 ok2 Hg (proj1 G1) (Forall_filter _ _ _ HF) E2) as G2.
  eapply same_outside_trans; [exact (proj2 G1)|exact (proj2 G2)].
Qed.

(* the output directory itself survives as a directory *)
Theorem extract_keeps_out_dir o arch f0 :
  o_guarded o = true -> J f0 -> Forall file_or_dir arch ->
  exists md, nget (names (extract_all o out arch f0)) out = Some (DDir md).
Proof.
  intros Hg HJ HF.
  assert (HJ' : J (extract_all o out arch f0)).
  { unfold extract_all, extract_run.
    destruct (extract_each o out (filter (fun e => negb (is_hardlink e)) arch) f0 true) as [f1 ok1] eqn:E1.
    pose proof (good_extract_each o _ f0 true f1 ok1 Hg HJ (Forall_filter _ _ _ HF) E1) as G1.
    destruct ok1; cbn [fst]; [|exact (proj1 G1)].
    destruct (extract_until o out (filter is_hardlink arch) f1) as [f2 ok2] eqn:E2. cbn [fst].
    exact (proj1 (good_extract_until o _ f1 f2 ok2 Hg (proj1 G1) (Forall_filter _ _ _ HF) E2)). }
  destruct HJ' as (DC & _). apply (DC out []); [rewrite app_nil_r; reflexivity|exact out_nonnil].
Qed.

End Confine.

(* ---- names: joining a sanitised name to the output directory stays inside ----------------------- *)
(* out followed by Normal components only: no root, `.` or `..` that could climb out again *)
Definition lexically_under (out p : path) : Prop :=
  exists rel, p = out ++ rel /\ Forall normal_component rel.

Theorem join_stays_inside : forall out s, lexically_under out (out ++ components (sanitize_name s)).
Proof.
  intros out s. exists (components (sanitize_name s)). split; [reflexivity|].
  destruct (sanitize_safe s) as (H & _). exact H.
Qed.

(* the model's destination path is exactly that join *)
Lemma name_comps_components s : name_comps s = components (sanitize_name s).
Proof. unfold name_comps. symmetry. apply sanitize_components_eq. Qed.

(* ---- witnesses ------------------------------------------------------------------------------- *)
Lemma nget_In m : forall q v, nget m q = Some v -> In (q, v) m.
Proof.
  induction m as [|[r w] m IH]; intros q v; cbn [nget]; [discriminate|].
  destruct (path_eqb r q) eqn:E.
  - apply path_eqb_eq in E. subst r. intros [= ->]. left. reflexivity.
  - intros H. right. apply IH. exact H.
Qed.

Definition w_out : path := [lit "S"; lit "out"].
Definition w_fs0 : fs :=
  {| names := [ ([lit "S"; lit "elsewhere"], DDir 493); ([lit "S"; lit "out"], DDir 493);
                ([lit "S"; lit "outside_secret"], DFile 1); ([lit "S"], DDir 493); ([], DDir 493) ];
     inodes := [ (1, mk_inode (lit "secret") 420 1 None []) ];
     next := 2 |}.
(* W1: a symbolic link, then a file beneath it.  W2: a hard link whose stored source climbs out. *)
Definition w1 : list xentry :=
  [ mk_xentry (lit "t/link") 2 (lit "/S/elsewhere") None None [];
    mk_xentry (lit "t/link/x") 0 (lit "pwn") None None [] ].
Definition w2 : list xentry := [ mk_xentry (lit "sub/hl") 3 (lit "../../outside_secret") None None [] ].
Definition w_file : list xentry :=
  [ mk_xentry (lit "/d") 1 [] (Some 448) None []; mk_xentry (lit "../d/./f") 0 (lit "data") (Some 420) None [] ].
Definition guarded_opts : xopts := mk_xopts false true false false true.
Definition unguarded_opts : xopts := mk_xopts false true false false false.

(* the code before the repairs, in the same file-system model, escapes: the model is not vacuous *)
Theorem unguarded_escapes_w1 :
  exists p, mutated w_fs0 (extract_all unguarded_opts w_out w1 w_fs0) p /\ ~ under w_out p.
Proof.
  exists [lit "S"; lit "elsewhere"; lit "x"]. split.
  - unfold mutated. vm_compute. discriminate.
  - intros [rel H]. vm_compute in H. discriminate.
Qed.

Theorem unguarded_escapes_w2 :
  exists p q i, under w_out p /\ ~ under w_out q /\
    nget (names (extract_all unguarded_opts w_out w2 w_fs0)) p = Some (DFile i) /\
    nget (names (extract_all unguarded_opts w_out w2 w_fs0)) q = Some (DFile i).
Proof.
  exists [lit "S"; lit "out"; lit "sub"; lit "hl"], [lit "S"; lit "outside_secret"], 1. repeat split.
  - exists [lit "sub"; lit "hl"]. reflexivity.
  - intros [rel H]. vm_compute in H. discriminate.
Qed.

(* the repaired code refuses both *)
Example guarded_refuses_w1 :
  snd (extract_run guarded_opts w_out w1 w_fs0) = false /\
  observe (extract_all guarded_opts w_out w1 w_fs0) [lit "S"; lit "elsewhere"; lit "x"] = ONone.
Proof. split; vm_compute; reflexivity. Qed.

Example guarded_refuses_w2 :
  snd (extract_run guarded_opts w_out w2 w_fs0) = false /\
  nget (names (extract_all guarded_opts w_out w2 w_fs0)) [lit "S"; lit "out"; lit "sub"; lit "hl"] = None.
Proof. split; vm_compute; reflexivity. Qed.

(* the premises of the confinement theorem are satisfiable by a non-trivial state and archive *)
Example confinement_premises :
  Forall plain w_out /\ w_out <> [] /\ J w_out w_fs0 /\ Forall file_or_dir w_file /\
  snd (extract_run guarded_opts w_out w_file w_fs0) = true /\
  observe (extract_all guarded_opts w_out w_file w_fs0) [lit "S"; lit "out"; lit "d"] = ODir 448.
Proof.
  split; [repeat constructor; vm_compute; reflexivity|]. split; [discriminate|]. split; [|split; [|split]].
  - split; [|split; [|split]].
    + intros q r E Hq. unfold w_out in E. destruct q as [|a [|b [|c q]]]; cbn [app] in E; [contradiction| | |].
      * injection E as <- _. exists 493. vm_compute. reflexivity.
      * injection E as <- <- _. exists 493. vm_compute. reflexivity.
      * discriminate E.
    + intros q t _ E. apply nget_In in E. cbn in E. intuition discriminate.
    + intros p q i Ep Eq U. apply nget_In in Ep. cbn in Ep.
      destruct Ep as [Ep|[Ep|[Ep|[Ep|[Ep|[]]]]]]; try discriminate.
      injection Ep as <- <-. exfalso. destruct U as [rel H]. vm_compute in H. discriminate.
    + intros p i E. apply nget_In in E. cbn in E.
      destruct E as [E|[E|[E|[E|[E|[]]]]]]; try discriminate. injection E as _ <-. cbn. lia.
  - constructor; [right; reflexivity|]. constructor; [left; reflexivity|constructor].
  - vm_compute; reflexivity.
  - vm_compute; reflexivity.
Qed.

(* ---- C02: create, then extract --------------------------------------------------------------- *)
(* the name `create` stores for a walked path is read back by `extract` as the same components *)
Lemma name_roundtrip p : Forall normal_component p -> name_comps (path_str p) = p.
Proof.
  intros HF. unfold name_comps, path_str, slash1. destruct p as [|c r]; [reflexivity|].
  unfold segments. rewrite fields_join.
  - apply filter_all. eapply Forall_impl; [|exact HF]. apply normal_component_seg.
  - eapply Forall_impl; [|exact HF]. intros ? (_ & _ & _ & H). exact H.
  - discriminate.
Qed.

Definition wf_tree (t : tree) : Prop := Forall (fun e => Forall normal_component (fst e)) t.

Definition kept (c : copts) (t : tree) (p : list bytes) : bool :=
  match tget t p with Some n => collected c n | None => false end.

Lemma tget_In t p n : tget t p = Some n -> In (p, n) t.
Proof.
  unfold tget. destruct (find (fun e => path_eqb (fst e) p) t) as [[q m]|] eqn:E; [|discriminate].
  intros [= <-]. apply find_some in E. destruct E as [Hin Hq]. cbn [fst] in Hq.
  apply path_eqb_eq in Hq. subst q. exact Hin.
Qed.

(* what reaches the extractor: exactly the collected items, in walk order, under their own paths,
   with the kind, content / (normalised) target and the metadata the create options select *)
Theorem create_entries c t : wf_tree t -> forall order,
  map (fun e => name_comps (e_name e)) (create_from_tree c order t) = filter (kept c t) order.
Proof.
  intros WF. induction order as [|p r IH]; [reflexivity|]. cbn [create_from_tree filter]. unfold kept at 1.
  destruct (tget t p) as [n|] eqn:E; [|exact IH]. destruct (collected c n); [|exact IH].
  cbn [map]. rewrite IH. f_equal.
  assert (HP : Forall normal_component p).
  { apply tget_In in E. unfold wf_tree in WF. rewrite Forall_forall in WF. exact (WF _ E). }
  destruct n; cbn [entry_of e_name]; apply name_roundtrip; exact HP.
Qed.

(* two complete round trips evaluated in the kernel: nested and empty directories, an empty file,
   symbolic links to a file, to a directory and to nothing, with and without the keep options *)
Definition ex_tree : tree :=
  [ ([lit "t"], TDir 493);
    ([lit "t"; lit "sub dir"], TDir 448);
    ([lit "t"; lit "sub dir"; lit "-f"], TFile (lit "content") 384 1000000000 [(lit "user.k", lit "v")]);
    ([lit "t"; lit "sub dir"; lit "empty"], TFile [] 420 1 []);
    ([lit "t"; lit "e"], TDir 493);
    ([lit "t"; lit "lf"], TLink (lit "sub dir/-f"));
    ([lit "t"; lit "ld"], TLink (lit "./sub dir/"));
    ([lit "t"; lit "dangling"], TLink (lit "/no/where")) ].
Definition ex_order := map fst ex_tree.
Definition ex_out : path := [lit "S"; lit "out"].
Definition all_c := mk_copts true true true true.
Definition all_x := mk_xopts false true true true true.
Definition no_c := mk_copts false false false false.
Definition no_x := mk_xopts false false false false true.

Example create_extract_ex_keep_all :
  tree_of all_c all_x ex_out ex_order (extract_all all_x ex_out (create_from_tree all_c ex_order ex_tree) (empty_dir ex_out))
  = expected all_c all_x ex_order ex_tree
  /\ snd (extract_run all_x ex_out (create_from_tree all_c ex_order ex_tree) (empty_dir ex_out)) = true.
Proof. split; vm_compute; reflexivity. Qed.

Example create_extract_ex_keep_nothing :
  tree_of no_c no_x ex_out ex_order (extract_all no_x ex_out (create_from_tree no_c ex_order ex_tree) (empty_dir ex_out))
  = expected no_c no_x ex_order ex_tree
  /\ length (expected no_c no_x ex_order ex_tree) = 7%nat.
Proof. split; vm_compute; reflexivity. Qed.

Example wf_ex_tree : wf_tree ex_tree.
Proof.
  unfold wf_tree, ex_tree. repeat constructor; cbn [fst];
    try (intros H; vm_compute in H; discriminate);
    try (intros H; vm_compute in H; repeat (destruct H as [H|H]; [discriminate|]); contradiction).
Qed.
