(* CbcFacts.v — facts about Model/Cbc.v.
   cbcw_spec:  for every partition into writes the inner writes concatenate to
               cbc_enc k iv (pkcs7 (concat writes)), each inner write is one 16-byte block and
               every returned count is the length of the piece written;
   cbcr_read_spec / cbcr_seq_spec (adapted from DESIGN.md A.3): over any cut of the ciphertext
               into chunks the reader is exactly a byte-stream reader over the plaintext;
   cbc_roundtrip: with D k (E k b) = b, read (write x) = x for all write partitions, chunk cuts
               and buffer sizes. *)
From PNA Require Import Base Flatten Cbc BaseFacts FlattenFacts.
Require Import ZArith ZifyN ZifyNat ZifyBool Lia.
Open Scope N_scope.

Definition len16 (b : bytes) : Prop := length b = 16%nat.
Ltac fin := repeat split; try reflexivity; try assumption; try lia; try (constructor; fail).

(* ---- xor ------------------------------------------------------------------------------------ *)
Lemma lxor_lt_256 a b : a < 256 -> b < 256 -> N.lxor a b < 256.
Proof.
  intros Ha Hb. destruct (N.eq_dec (N.lxor a b) 0) as [E|E]; [rewrite E; lia|].
  change 256 with (2 ^ 8). apply N.log2_lt_pow2; [lia|].
  pose proof (N.log2_lxor a b) as H.
  assert (N.log2 a < 8).
  { destruct (N.eq_dec a 0) as [->|Hz]; [cbn; lia|]. apply N.log2_lt_pow2; [lia|exact Ha]. }
  assert (N.log2 b < 8).
  { destruct (N.eq_dec b 0) as [->|Hz]; [cbn; lia|]. apply N.log2_lt_pow2; [lia|exact Hb]. }
  lia.
Qed.
Lemma xorb_invol a b : xorb (xorb a b) b = a.
Proof.
  unfold xorb. rewrite b2n_n2b_small by (apply lxor_lt_256; apply b2n_lt).
  rewrite N.lxor_assoc, N.lxor_nilpotent, N.lxor_0_r. apply n2b_b2n.
Qed.
Lemma xor_bytes_length : forall a b, length (xor_bytes a b) = Nat.min (length a) (length b).
Proof. induction a as [|x a IH]; intros [|y b]; cbn; try reflexivity. rewrite IH. reflexivity. Qed.
Lemma xor_bytes_invol : forall a b, (length a <= length b)%nat -> xor_bytes (xor_bytes a b) b = a.
Proof.
  induction a as [|x a IH]; intros [|y b] H; cbn in *; try reflexivity; try lia.
  rewrite xorb_invol, IH by lia. reflexivity.
Qed.
Lemma xor_len16 a b : len16 a -> len16 b -> len16 (xor_bytes a b).
Proof. unfold len16. intros. rewrite xor_bytes_length. lia. Qed.

(* ---- PKCS#7 ---------------------------------------------------------------------------------- *)
Lemma firstn_repeat {A} (x : A) : forall k m, firstn k (repeat x m) = repeat x (Nat.min k m).
Proof. induction k as [|k IH]; intros [|m]; cbn; try reflexivity. rewrite IH. reflexivity. Qed.
Lemma last_app_repeat {A} (x d : A) (b : list A) k : (0 < k)%nat -> last (b ++ repeat x k) d = x.
Proof.
  intros Hk. destruct k as [|k]; [lia|]. replace (S k) with (k + 1)%nat by lia.
  rewrite repeat_app, app_assoc. cbn [repeat]. apply last_last.
Qed.
Lemma forallb_repeat {A} (f : A -> bool) x k : f x = true -> forallb f (repeat x k) = true.
Proof. intros H. induction k; cbn; [reflexivity|]. rewrite H, IHk. reflexivity. Qed.
Lemma pad_block_len b : (length b < 16)%nat -> len16 (pkcs7_pad_block b).
Proof. intros H. unfold len16, pkcs7_pad_block. rewrite app_length, repeat_length. lia. Qed.

Lemma unpad_pad b : (length b < 16)%nat -> pkcs7_unpad_block (pkcs7_pad_block b) = Ok b.
Proof.
  intros H. unfold pkcs7_unpad_block, pkcs7_pad_block.
  assert (Hn : 16 - len b < 256) by (unfold len; lia).
  rewrite last_app_repeat by lia. rewrite b2n_n2b_small by exact Hn.
  assert (Hl : len b < 16) by (unfold len; lia).
  destruct (N.eqb_spec (16 - len b) 0) as [E|_]; [lia|].
  destruct (N.ltb_spec 16 (16 - len b)) as [E|_]; [lia|]. cbn [orb].
  replace (16 - (16 - len b)) with (len b) by lia.
  rewrite firstn_app, firstn_repeat, (firstn_all2 (n := 15%nat) b) by lia.
  rewrite fdrop_app_ge, N.sub_diag, fdrop_0 by lia.
  rewrite forallb_repeat by (rewrite b2n_n2b_small by exact Hn; apply N.eqb_refl).
  rewrite ftake_app_le, ftake_all by lia. reflexivity.
Qed.
Lemma unpad_len blk b : pkcs7_unpad_block blk = Ok b -> len b <= 15.
Proof.
  unfold pkcs7_unpad_block. set (n := b2n (last blk x00)).
  destruct (N.eqb_spec n 0) as [E|E]; [discriminate|].
  destruct (N.ltb_spec 16 n) as [E'|E']; [discriminate|]. cbn [orb].
  destruct (forallb _ _); [|discriminate]. intros H. inversion H; subst.
  rewrite len_ftake. lia.
Qed.

(* the padding of a whole message is the padding of its last partial block *)
Lemma len_concat_blocks (bs : list bytes) : Forall len16 bs -> len (concat bs) = 16 * len bs.
Proof.
  intros H. induction H as [|b bs Hb _ IH]; [reflexivity|].
  cbn [concat]. rewrite len_app, IH, len_cons. unfold len16 in Hb. unfold len at 1. rewrite Hb. lia.
Qed.
Lemma pkcs7_blocks bs t : Forall len16 bs -> (length t < 16)%nat ->
  pkcs7 (concat bs ++ t) = concat bs ++ pkcs7_pad_block t.
Proof.
  intros Hb Ht. unfold pkcs7, pkcs7_pad_block. rewrite <- app_assoc. f_equal. f_equal.
  assert (E : len (concat bs ++ t) mod 16 = len t).
  { rewrite len_app, len_concat_blocks by assumption.
    rewrite N.add_comm, (N.mul_comm 16), N.mod_add by lia. apply N.mod_small. unfold len. lia. }
  rewrite E. f_equal. unfold len. lia.
Qed.

(* ---- read_block: a read-until-full loop over a FlattenReader delivers the next 16 bytes of the
   concatenation (fewer only at its end), however the chunks are cut ------------------------------ *)
Lemma read_block_loop_spec : forall fuel s want s' blk, (N.to_nat want <= fuel)%nat ->
  read_block_loop fuel s want = (s', blk) ->
  blk = firstn (N.to_nat want) (concat s) /\ concat s' = skipn (N.to_nat want) (concat s).
Proof.
  induction fuel as [|f IH]; intros s want s' blk Hf H; cbn [read_block_loop] in H.
  - inversion H; subst. replace (N.to_nat want) with 0%nat by lia. split; reflexivity.
  - destruct (N.eqb_spec want 0) as [->|Hw]; [inversion H; subst; split; reflexivity|].
    destruct (flat_read s want) as [s1 got] eqn:E.
    destruct (flat_read_spec _ _ _ _ E) as (A & B & C).
    destruct got as [|g got].
    + inversion H; subst. rewrite (C ltac:(lia) eq_refl) in *. cbn [app] in A.
      rewrite <- A, firstn_nil, skipn_nil. split; reflexivity.
    + destruct (read_block_loop f s1 (want - len (g :: got))) as [s2 more] eqn:E2.
      inversion H; subst. apply IH in E2; [|unfold len in *; cbn [length] in *; lia].
      destruct E2 as [-> ->]. rewrite A. unfold len in *.
      rewrite firstn_app, skipn_app.
      rewrite (firstn_all2 (n := N.to_nat want) (g :: got)), (skipn_all2 (n := N.to_nat want) (g :: got)) by lia. cbn [app].
      replace (N.to_nat (want - N.of_nat (length (g :: got)))) with (N.to_nat want - length (g :: got))%nat by lia.
      split; reflexivity.
Qed.
Lemma read_block_spec s s' blk : read_block s = (s', blk) ->
  blk = firstn 16 (concat s) /\ concat s' = skipn 16 (concat s).
Proof. intros H. apply (read_block_loop_spec 17 s 16); [cbn; lia|exact H]. Qed.

Section CBCW.
Variable E : bytes -> bytes -> bytes.

(* the last chaining value after a list of blocks *)
Fixpoint cbc_last (k prev : bytes) (bs : list bytes) : bytes :=
  match bs with [] => prev | b :: r => cbc_last k (E k (xor_bytes b prev)) r end.
Lemma cbc_enc_blocks_app k : forall a p b,
  cbc_enc_blocks E k p (a ++ b) = cbc_enc_blocks E k p a ++ cbc_enc_blocks E k (cbc_last k p a) b.
Proof. induction a as [|x a IH]; intros p b; cbn; [reflexivity|]. rewrite IH. reflexivity. Qed.
Lemma cbc_last_app k : forall a p b, cbc_last k p (a ++ b) = cbc_last k (cbc_last k p a) b.
Proof. induction a as [|x a IH]; intros p b; cbn; [reflexivity|]. apply IH. Qed.

(* ============================== writer ============================================================ *)
Opaque firstn skipn Nat.sub.
Lemma enc_chunks_spec : forall fuel s l s' outs t, (length l < fuel)%nat ->
  enc_chunks E fuel s l = (s', outs, t) ->
  exists bs tail, l = concat bs ++ tail /\ Forall len16 bs /\ (length tail < 16)%nat /\
    outs = cbc_enc_blocks E (w_key s) (w_prev s) bs /\ w_prev s' = cbc_last (w_key s) (w_prev s) bs /\
    w_key s' = w_key s /\ w_buf s' = w_buf s ++ tail /\ t = len l.
Proof.
  induction fuel as [|f IH]; intros s l s' outs t Hf H; [lia|]. cbn [enc_chunks] in H.
  destruct l as [|x l0] eqn:El.
  - inversion H; subst. exists [], []. cbn. rewrite app_nil_r. fin.
  - rewrite <- El in *. clear El. destruct (Nat.eqb_spec (length (firstn 16 l)) 16) as [E16|E16].
    + unfold enc_block in H.
      destruct (enc_chunks E f _ (skipn 16 l)) as [[s2 outs'] t'] eqn:Er.
      inversion H; subst. rewrite firstn_length in E16.
      apply IH in Er; [|rewrite skipn_length; lia].
      destruct Er as (bs & tail & Hl & Hbs & Ht & Ho & Hp & Hk & Hb & Hlen). cbn [w_key w_prev w_buf] in *.
      exists (firstn 16 l :: bs), tail. cbn [concat cbc_enc_blocks cbc_last]. rewrite <- app_assoc, <- Hl, firstn_skipn.
      repeat split; try assumption.
      * constructor; [unfold len16; rewrite firstn_length; lia|assumption].
      * rewrite Ho. reflexivity.
      * rewrite Hlen. unfold len. rewrite skipn_length. lia.
    + inversion H; subst. rewrite firstn_length in E16.
      exists [], l. rewrite firstn_all2 by lia. cbn. fin.
Qed.

Lemma cbcw_write_spec : forall s d s' outs c, (length (w_buf s) < 16)%nat ->
  cbcw_write E s d = (s', outs, c) ->
  exists bs, w_buf s ++ d = concat bs ++ w_buf s' /\ Forall len16 bs /\ (length (w_buf s') < 16)%nat /\
    outs = cbc_enc_blocks E (w_key s) (w_prev s) bs /\ w_prev s' = cbc_last (w_key s) (w_prev s) bs /\
    w_key s' = w_key s /\ c = len d.
Proof.
  intros s d s' outs c Hb H. unfold cbcw_write in H.
  destruct (N.ltb_spec (len d + len (w_buf s)) 16) as [Hs|Hs].
  - inversion H; subst. exists []. cbn. unfold len in Hs. rewrite app_length. fin.
  - unfold enc_block in H. cbn [w_key w_prev w_buf set_buf] in H.
    destruct (enc_chunks E (S (length d)) _ (skipn (16 - length (w_buf s)) d)) as [[s2 outs'] t'] eqn:Er.
    inversion H; subst. apply enc_chunks_spec in Er; [|rewrite skipn_length; lia].
    destruct Er as (bs & tail & Hl & Hbs & Ht & Ho & Hp & Hk & Hbuf & Hlen). cbn [w_key w_prev w_buf] in *.
    unfold len in Hs.
    exists ((w_buf s ++ firstn (16 - length (w_buf s)) d) :: bs). cbn [concat cbc_enc_blocks cbc_last].
    rewrite Hbuf. cbn [app]. rewrite <- !app_assoc, <- Hl, firstn_skipn.
    repeat split; try assumption.
    + constructor; [|assumption]. unfold len16. rewrite app_length, firstn_length. lia.
    + rewrite Ho. reflexivity.
    + rewrite Hlen. unfold len. rewrite skipn_length. lia.
Qed.

Transparent firstn skipn Nat.sub.

Lemma cbcw_writes_spec : forall ws s s' calls, (length (w_buf s) < 16)%nat ->
  cbcw_writes E s ws = (s', calls) ->
  exists bs, w_buf s ++ concat ws = concat bs ++ w_buf s' /\ Forall len16 bs /\ (length (w_buf s') < 16)%nat /\
    concat (map snd calls) = cbc_enc_blocks E (w_key s) (w_prev s) bs /\
    w_prev s' = cbc_last (w_key s) (w_prev s) bs /\ w_key s' = w_key s /\ map fst calls = map len ws.
Proof.
  induction ws as [|d r IH]; intros s s' calls Hb H; cbn [cbcw_writes] in H.
  - inversion H; subst. exists []. cbn. rewrite app_nil_r. fin.
  - destruct (cbcw_write E s d) as [[s1 outs] c] eqn:E1. destruct (cbcw_writes E s1 r) as [s2 rest] eqn:E2.
    inversion H; subst. apply cbcw_write_spec in E1; [|assumption].
    destruct E1 as (bs1 & H1 & F1 & B1 & O1 & P1 & K1 & C1).
    apply IH in E2; [|assumption]. destruct E2 as (bs2 & H2 & F2 & B2 & O2 & P2 & K2 & C2).
    exists (bs1 ++ bs2). cbn [concat map fst snd]. rewrite concat_app, cbc_enc_blocks_app, cbc_last_app.
    rewrite app_assoc, H1, <- app_assoc, H2, app_assoc. rewrite K1, P1 in *.
    repeat split; try assumption.
    + apply Forall_app; split; assumption.
    + rewrite O1, O2. reflexivity.
    + rewrite C2. f_equal. assumption.
Qed.

Lemma enc_blocks_len16 (E_len : forall k b, len16 b -> len16 (E k b)) k :
  forall bs p, len16 p -> Forall len16 bs ->
  Forall len16 (cbc_enc_blocks E k p bs) /\ len16 (cbc_last k p bs).
Proof.
  induction bs as [|b bs IH]; intros p Hp H; cbn; [split; [constructor|assumption]|].
  inversion H; subst. assert (len16 (E k (xor_bytes b p))) by (apply E_len, xor_len16; assumption).
  destruct (IH _ H0 H3). split; [constructor|]; assumption.
Qed.

(* (ii) the writer, for every partition of the plaintext into write calls *)
Theorem cbcw_spec : forall key iv ws s0 s' calls,
  cbcw_new key iv = Ok s0 -> cbcw_writes E s0 ws = (s', calls) ->
  concat (concat (map snd calls)) ++ concat (cbcw_finish E s') = cbc_enc E key iv (pkcs7 (concat ws)) /\
  map fst calls = map len ws /\
  ((forall k b, len16 b -> len16 (E k b)) -> Forall len16 (concat (map snd calls) ++ cbcw_finish E s')).
Proof.
  intros key iv ws s0 s' calls Hnew H. unfold cbcw_new in Hnew.
  destruct (key_iv_ok key iv) eqn:Hok; [|discriminate]. inversion Hnew; subst. clear Hnew.
  apply cbcw_writes_spec in H; [|cbn; lia]. cbn [w_key w_prev w_buf app] in H.
  destruct H as (bs & Hm & Hbs & Hb & Ho & Hp & Hk & Hc).
  assert (Hfin : cbcw_finish E s' = [E key (xor_bytes (pkcs7_pad_block (w_buf s')) (cbc_last key iv bs))]).
  { unfold cbcw_finish, enc_block. cbn [snd]. rewrite Hk, Hp. reflexivity. }
  split; [|split; [assumption|]].
  - unfold cbc_enc. rewrite Hm, pkcs7_blocks by assumption.
    rewrite chunks_concat_blocks by (try lia; assumption).
    rewrite chunks_small; [| |rewrite (pad_block_len _ Hb); lia].
    2:{ intros Hn. pose proof (pad_block_len _ Hb) as Hl. unfold len16 in Hl. rewrite Hn in Hl. discriminate. }
    rewrite cbc_enc_blocks_app, concat_app, Ho, Hfin. reflexivity.
  - intros E_len. unfold key_iv_ok in Hok. apply andb_prop in Hok. destruct Hok as [_ Hiv].
    apply N.eqb_eq in Hiv. assert (len16 iv) by (unfold len16, len in *; lia).
    destruct (enc_blocks_len16 E_len key bs iv) as [F L]; try assumption.
    apply Forall_app. split; [rewrite Ho; exact F|]. rewrite Hfin. constructor; [|constructor].
    apply E_len, xor_len16; [apply pad_block_len|]; assumption.
Qed.

End CBCW.

(* what an ideal byte-stream reader over pt delivers for the same buffer sizes *)
Fixpoint deliver (pt : bytes) (ns : list N) : list bytes :=
  match ns with [] => [] | n :: r => ftake n pt :: deliver (fdrop n pt) r end.

(* the ideal reader loses nothing, never returns more than asked, and with positive buffer sizes
   returns nothing only at the end *)
Lemma deliver_concat : forall ns pt, concat (deliver pt ns) = ftake (fold_right N.add 0 ns) pt.
Proof.
  induction ns as [|n r IH]; intros pt; cbn [deliver concat fold_right].
  - rewrite ftake_0. reflexivity.
  - rewrite IH. rewrite <- (ftake_fdrop n pt) at 3.
    destruct (N.le_ge_cases (len pt) n) as [H|H].
    + rewrite fdrop_all, ftake_nil, !app_nil_r by assumption. rewrite !ftake_all by lia. reflexivity.
    + rewrite ftake_app_ge by (rewrite len_ftake; lia). rewrite len_ftake. do 2 f_equal. lia.
Qed.
Lemma deliver_lens : forall ns pt, Forall2 (fun out n => len out <= n) (deliver pt ns) ns.
Proof.
  induction ns as [|n r IH]; intros pt; cbn [deliver]; constructor; [rewrite len_ftake; lia|apply IH].
Qed.
Lemma deliver_nil : forall ns, concat (deliver [] ns) = [].
Proof. induction ns as [|n r IH]; cbn [deliver concat]; [reflexivity|]. rewrite ftake_nil, fdrop_nil. exact IH. Qed.
Lemma deliver_complete : forall ns pt, Forall (fun n => 0 < n) ns -> In [] (deliver pt ns) ->
  concat (deliver pt ns) = pt.
Proof.
  induction ns as [|n r IH]; intros pt Hp Hin; cbn [deliver concat] in *; [contradiction|].
  inversion Hp; subst. destruct Hin as [H0|Hin].
  - assert (Hl : len (ftake n pt) = 0) by (rewrite H0; reflexivity). rewrite len_ftake in Hl.
    assert (pt = []) by (destruct pt; [reflexivity|unfold len in Hl; cbn [length] in Hl; lia]). subst pt.
    rewrite ftake_nil, fdrop_nil, deliver_nil. reflexivity.
  - rewrite (IH _ H2 Hin). apply ftake_fdrop.
Qed.

Lemma div16_step want : 16 < want -> (want - 16 + 15) / 16 = (want + 15) / 16 - 1.
Proof.
  intros H. replace (want + 15) with ((want - 16 + 15) + 1 * 16) by lia.
  rewrite N.div_add by lia. lia.
Qed.

Lemma ftake_min {A} n (l : list A) : ftake (N.min n (len l)) l = ftake n l.
Proof.
  destruct (N.le_ge_cases n (len l)); [replace (N.min n (len l)) with n by lia; reflexivity|].
  replace (N.min n (len l)) with (len l) by lia. rewrite !ftake_all by lia. reflexivity.
Qed.
Lemma fdrop_min {A} n (l : list A) : fdrop (N.min n (len l)) l = fdrop n l.
Proof.
  destruct (N.le_ge_cases n (len l)); [replace (N.min n (len l)) with n by lia; reflexivity|].
  replace (N.min n (len l)) with (len l) by lia. rewrite !fdrop_all by lia. reflexivity.
Qed.

(* ============================== reader ============================================================ *)
Section CBCR.
Variable D : bytes -> bytes -> bytes.

(* what the cipher stream decodes to: look-ahead block `look`, then the remaining blocks *)
Fixpoint dec_all (k prev look : bytes) (rest : list bytes) : res bytes :=
  let p := xor_bytes (D k look) prev in
  match rest with
  | [] => pkcs7_unpad_block p
  | nx :: r => do t <- dec_all k look nx r; Ok (p ++ t)
  end.
(* what the reader still owes its caller *)
Definition stream (st : cbcr) : res bytes :=
  if r_eof st then Ok (r_rem st)
  else do t <- dec_all (r_key st) (r_prev st) (r_look st) (chunks 16 (concat (r_src st))); Ok (r_rem st ++ t).
Definition wf (st : cbcr) : Prop :=
  r_eof st = false ->
  len16 (r_look st) /\ len16 (r_prev st) /\ (length (concat (r_src st)) mod 16 = 0)%nat.

Hypothesis D_len : forall k c, len16 c -> len16 (D k c).

Lemma cbcr_loop_spec : forall fuel st want pt,
  r_eof st = false -> r_rem st = [] -> wf st -> 0 < want -> (N.to_nat ((want + 15) / 16) <= fuel)%nat ->
  dec_all (r_key st) (r_prev st) (r_look st) (chunks 16 (concat (r_src st))) = Ok pt ->
  exists st', cbcr_loop D fuel st want = Ok (st', ftake want pt) /\ stream st' = Ok (fdrop want pt) /\ wf st'.
Proof.
  induction fuel as [|f IH]; intros st want pt He Hrem Hwf Hw Hf Hd.
  - exfalso. assert (1 <= (want + 15) / 16); [|lia].
    replace (want + 15) with ((want - 1) + 1 * 16) by lia. rewrite N.div_add by lia. lia.
  - destruct (Hwf He) as (Hlook & Hprev & Hmod). cbn [cbcr_loop].
    set (p := xor_bytes (D (r_key st) (r_look st)) (r_prev st)) in *.
    assert (Hp : len16 p) by (apply xor_len16; [apply D_len|]; assumption).
    assert (Hlp : len p = 16) by (unfold len; rewrite Hp; reflexivity).
    destruct (read_block (r_src st)) as [src' nx] eqn:Erb.
    destruct (read_block_spec _ _ _ Erb) as [Hnx Hsrc'].
    destruct (concat (r_src st)) as [|c0 ct0] eqn:Ect.
    + (* the source is exhausted: this is the last block *)
      cbn [firstn] in Hnx. subst nx. change (len (@nil byte)) with 0. rewrite N.eqb_refl. cbn [negb andb orb].
      cbn [chunks chunks_fuel length dec_all] in Hd. fold p in Hd. rewrite Hd. cbn [bind].
      pose proof (unpad_len _ _ Hd) as Hpt.
      assert (Hw' : N.min (N.min 16 want) (len pt) = N.min want (len pt)) by lia. rewrite Hw'.
      rewrite ftake_min, fdrop_min, Hrem. cbn [app].
      eexists. split; [reflexivity|]. split.
      * unfold stream. cbn [r_eof r_rem]. reflexivity.
      * unfold wf. cbn [r_eof]. discriminate.
    + (* at least one more block follows *)
      rewrite <- Ect in *.
      assert (Hlen : (16 <= length (concat (r_src st)))%nat).
      { rewrite Ect in *. apply Nat.mod_divides in Hmod; [|lia]. destruct Hmod as [q Hq].
        destruct q; [cbn [length] in Hq; lia|lia]. }
      clear Ect c0 ct0.
      assert (Hnx16 : len16 nx) by (subst nx; unfold len16; rewrite firstn_length; lia).
      assert (Hlnx : len nx = 16) by (unfold len; rewrite Hnx16; reflexivity).
      assert (Hchunks : chunks 16 (concat (r_src st)) = nx :: chunks 16 (concat src')).
      { rewrite <- (firstn_skipn 16 (concat (r_src st))) at 1. rewrite <- Hnx, <- Hsrc'.
        apply chunks_app_block; [lia|exact Hnx16]. }
      rewrite Hchunks in Hd. cbn [dec_all] in Hd. fold p in Hd.
      destruct (dec_all (r_key st) (r_look st) nx (chunks 16 (concat src'))) as [t| |] eqn:Ed; try discriminate.
      cbn [bind] in Hd. inversion Hd; subst pt. clear Hd.
      rewrite Hlnx. change (N.eqb 16 0) with false. change (N.eqb 16 16) with true.
      cbn [negb andb bind orb]. rewrite Hlp.
      assert (Hmod' : (length (concat src') mod 16 = 0)%nat).
      { rewrite Hsrc', skipn_length. apply Nat.mod_divides in Hmod; [|lia]. destruct Hmod as [q Hq]. rewrite Hq.
        apply Nat.mod_divides; [lia|]. exists (q - 1)%nat. lia. }
      destruct (N.leb_spec want (N.min (N.min 16 want) 16)) as [Hle|Hgt].
      * (* the caller's buffer ends inside this block *)
        replace (N.min (N.min 16 want) 16) with want by lia.
        rewrite (ftake_app_le want p t), (fdrop_app_le want p t), Hrem by lia. cbn [app].
        eexists. split; [reflexivity|]. split.
        -- unfold stream. cbn [r_eof r_key r_prev r_look r_src r_rem]. rewrite Ed. reflexivity.
        -- unfold wf. cbn [r_eof r_look r_prev r_src]. intros _. repeat split; assumption.
      * (* more than one block wanted: go round *)
        replace (N.min (N.min 16 want) 16) with 16 in * by lia.
        destruct (IH {| r_key := r_key st; r_src := src'; r_prev := r_look st; r_look := nx;
                        r_rem := r_rem st; r_eof := false |} (want - 16) t) as (st' & Hl & Hs & Hwf');
          cbn [r_eof r_key r_prev r_look r_src r_rem]; try assumption; try reflexivity; try lia.
        -- unfold wf. cbn [r_eof r_look r_prev r_src]. intros _. repeat split; assumption.
        -- rewrite Hl. cbn [bind]. exists st'.
           rewrite (ftake_app_ge want p t), (fdrop_app_ge want p t), Hlp by lia.
           rewrite (ftake_all 16 p) by lia. split; [reflexivity|]. split; assumption.
Qed.

(* (iii) one read: for every requested size n the reader returns the next n bytes of the
   plaintext (fewer only at its end) and afterwards owes exactly the rest *)
Theorem cbcr_read_spec : forall st n pt, wf st -> stream st = Ok pt ->
  exists st', cbcr_read D st n = Ok (st', ftake n pt) /\ stream st' = Ok (fdrop n pt) /\ wf st'.
Proof.
  intros st n pt Hwf Hst. unfold cbcr_read.
  destruct (N.eqb_spec n 0) as [->|Hn].
  - exists st. rewrite ftake_0, fdrop_0. auto.
  - set (l := N.min (len (r_rem st)) n). unfold stream in Hst.
    destruct (N.leb_spec n l) as [Hle|Hgt].
    + (* served from the carry *)
      replace l with n by lia. eexists. split; [|split].
      * f_equal. f_equal. destruct (r_eof st).
        -- inversion Hst; reflexivity.
        -- destruct (dec_all _ _ _ _); inversion Hst. rewrite ftake_app_le by lia. reflexivity.
      * unfold stream. cbn [r_eof r_key r_prev r_look r_src r_rem]. destruct (r_eof st).
        -- inversion Hst; reflexivity.
        -- destruct (dec_all _ _ _ _); inversion Hst. cbn [bind]. rewrite fdrop_app_le by lia. reflexivity.
      * unfold wf in *. cbn [r_eof r_look r_prev r_src]. exact Hwf.
    + assert (Hl : l = len (r_rem st)) by lia. rewrite Hl. rewrite ftake_all, fdrop_all by lia.
      destruct (r_eof st) eqn:He.
      * inversion Hst; subst pt. eexists. split; [|split].
        -- rewrite ftake_all by lia. reflexivity.
        -- unfold stream. cbn [r_eof r_rem]. rewrite fdrop_all by lia. reflexivity.
        -- unfold wf. cbn [r_eof]. discriminate.
      * destruct (dec_all (r_key st) (r_prev st) (r_look st) (chunks 16 (concat (r_src st)))) as [t| |] eqn:Hd;
          inversion Hst; subst pt.
        edestruct (cbcr_loop_spec (N.to_nat ((n - len (r_rem st) + 15) / 16))
                     {| r_key := r_key st; r_src := r_src st; r_prev := r_prev st; r_look := r_look st;
                        r_rem := []; r_eof := r_eof st |} (n - len (r_rem st)) t) as (st' & Hlp & Hs & Hwf');
          cbn [r_eof r_key r_prev r_look r_src r_rem]; try assumption; try reflexivity; try lia;
          try (unfold wf in *; cbn [r_eof r_look r_prev r_src]; exact Hwf).
        rewrite He in Hlp. rewrite Hlp. cbn [bind]. exists st'. split; [|split; [|assumption]].
        -- rewrite ftake_app_ge by lia. reflexivity.
        -- rewrite Hs. rewrite fdrop_app_ge by lia. reflexivity.
Qed.

(* a sequence of reads with arbitrary buffer sizes *)
Fixpoint cbcr_read_seq (st : cbcr) (ns : list N) : res (list bytes) :=
  match ns with
  | [] => Ok []
  | n :: r => do (st', out) <- cbcr_read D st n; do rest <- cbcr_read_seq st' r; Ok (out :: rest)
  end.
Theorem cbcr_seq_spec : forall ns st pt, wf st -> stream st = Ok pt ->
  cbcr_read_seq st ns = Ok (deliver pt ns).
Proof.
  induction ns as [|n r IH]; intros st pt Hwf Hst; cbn [cbcr_read_seq deliver]; [reflexivity|].
  destruct (cbcr_read_spec st n pt Hwf Hst) as (st' & Hr & Hs & Hwf'). rewrite Hr. cbn [bind].
  rewrite (IH st' _ Hwf' Hs). reflexivity.
Qed.

End CBCR.

(* ============================== round trip ======================================================== *)
Section CBCRT.
Variables E D : bytes -> bytes -> bytes.
Hypothesis D_len : forall k c, len16 c -> len16 (D k c).
Hypothesis DE : forall k b, len16 b -> D k (E k b) = b.
Hypothesis E_len : forall k b, len16 b -> len16 (E k b).

Lemma dec_all_enc k : forall bs p last_blk,
  len16 p -> Forall len16 bs -> len16 last_blk ->
  match cbc_enc_blocks E k p (bs ++ [last_blk]) with
  | [] => False
  | c0 :: cs => dec_all D k p c0 cs = (do t <- pkcs7_unpad_block last_blk; Ok (concat bs ++ t))
  end.
Proof.
  induction bs as [|b bs IH]; intros p lb Hp Hbs Hlb; cbn [app cbc_enc_blocks].
  - cbn [dec_all]. rewrite DE by (apply xor_len16; assumption).
    rewrite xor_bytes_invol by (unfold len16 in *; lia). destruct (pkcs7_unpad_block lb); reflexivity.
  - inversion Hbs; subst.
    assert (Hc : len16 (E k (xor_bytes b p))) by (apply E_len, xor_len16; assumption).
    specialize (IH (E k (xor_bytes b p)) lb Hc H2 Hlb).
    destruct (cbc_enc_blocks E k (E k (xor_bytes b p)) (bs ++ [lb])) as [|c1 cs] eqn:Ee; [contradiction|].
    cbn [dec_all]. rewrite IH. rewrite DE by (apply xor_len16; assumption).
    rewrite xor_bytes_invol by (unfold len16 in *; lia).
    destruct (pkcs7_unpad_block lb); cbn [bind concat]; try reflexivity. rewrite app_assoc. reflexivity.
Qed.

Lemma dec_all_enc' k bs p lb c0 cs : len16 p -> Forall len16 bs -> len16 lb ->
  cbc_enc_blocks E k p (bs ++ [lb]) = c0 :: cs ->
  dec_all D k p c0 cs = (do t <- pkcs7_unpad_block lb; Ok (concat bs ++ t)).
Proof. intros Hp Hbs Hlb He. pose proof (dec_all_enc k bs p lb Hp Hbs Hlb) as H. rewrite He in H. exact H. Qed.

Lemma enc_blocks_length k : forall bs p, length (cbc_enc_blocks E k p bs) = length bs.
Proof. induction bs; intros; cbn; [reflexivity|]. rewrite IHbs. reflexivity. Qed.

(* the reader constructed over ANY cut of the ciphertext of m owes exactly m *)
Theorem cbcr_new_spec : forall key iv m chunks, key_iv_ok key iv = true ->
  concat chunks = cbc_enc E key iv (pkcs7 m) ->
  exists st, cbcr_new key iv chunks = Ok st /\ stream D st = Ok m /\ wf st.
Proof.
  intros key iv m chs Hok Hct.
  assert (Hiv : len16 iv).
  { unfold key_iv_ok in Hok. apply andb_prop in Hok. destruct Hok as [_ H]. apply N.eqb_eq in H. unfold len16, len in *. lia. }
  (* the padded message as full blocks + the padded last block *)
  set (bs := chunks 16 (firstn (16 * (length m / 16)) m)).
  set (t := skipn (16 * (length m / 16)) m).
  assert (Hm : m = concat bs ++ t) by (unfold bs, t; rewrite concat_chunks by lia; symmetry; apply firstn_skipn).
  assert (Ht : (length t < 16)%nat).
  { unfold t. rewrite skipn_length. pose proof (Nat.div_mod (length m) 16 ltac:(lia)).
    pose proof (Nat.mod_upper_bound (length m) 16 ltac:(lia)). lia. }
  assert (Hbs : Forall len16 bs).
  { unfold bs. pose proof (Nat.div_mod (length m) 16 ltac:(lia)) as Hdm.
    assert (Hl : length (firstn (16 * (length m / 16)) m) = (16 * (length m / 16))%nat) by (rewrite firstn_length; lia).
    revert Hl. generalize (firstn (16 * (length m / 16)) m) as x. generalize (length m / 16)%nat as q.
    induction q as [|q IHq]; intros x Hl.
    - destruct x; [constructor|cbn in Hl; lia].
    - rewrite <- (firstn_skipn 16 x). rewrite chunks_app_block; [|lia|rewrite firstn_length; lia].
      constructor; [unfold len16; rewrite firstn_length; lia|]. apply IHq. rewrite skipn_length. lia. }
  clearbody bs t.
  unfold cbc_enc in Hct. rewrite Hm, pkcs7_blocks in Hct by assumption.
  rewrite chunks_concat_blocks in Hct by (try lia; assumption).
  pose proof (pad_block_len _ Ht) as Hpb.
  rewrite chunks_small in Hct; [| |rewrite Hpb; lia].
  2:{ intros Hn. unfold len16 in Hpb. rewrite Hn in Hpb. discriminate. }
  destruct (enc_blocks_len16 E E_len key (bs ++ [pkcs7_pad_block t]) iv Hiv) as [Hcs0 _].
  { apply Forall_app; split; [assumption|constructor; [assumption|constructor]]. }
  assert (Hex : exists c0 cs, cbc_enc_blocks E key iv (bs ++ [pkcs7_pad_block t]) = c0 :: cs)
    by (destruct bs; cbn; eauto).
  destruct Hex as (c0 & cs & Ee).
  pose proof (dec_all_enc' key bs iv (pkcs7_pad_block t) c0 cs Hiv Hbs Hpb Ee) as Hdec.
  assert (Hcs : Forall len16 (c0 :: cs)) by (rewrite <- Ee; exact Hcs0).
  assert (Hct' : concat chs = concat (c0 :: cs)) by (rewrite <- Ee; exact Hct).
  clear Hct Hcs0. rename Hct' into Hct.
  apply Forall_cons_iff in Hcs. destruct Hcs as [Hc0 Hcs']. cbn [concat] in Hct.
  unfold cbcr_new. destruct (read_block chs) as [s1 blk] eqn:Erb.
  destruct (read_block_spec _ _ _ Erb) as [Hblk Hs1]. rewrite Hct in Hblk, Hs1.
  unfold len16 in Hc0.
  rewrite firstn_app, firstn_all2, Hc0, Nat.sub_diag in Hblk by lia. cbn [firstn] in Hblk. rewrite app_nil_r in Hblk.
  rewrite skipn_app, skipn_all2, Hc0, Nat.sub_diag in Hs1 by lia. cbn [skipn app] in Hs1.
  subst blk. unfold len. rewrite Hc0. cbn [N.of_nat N.eqb negb]. rewrite Hok. cbn [negb].
  eexists. split; [reflexivity|]. split.
  - unfold stream. cbn [r_eof r_key r_prev r_look r_src r_rem]. rewrite Hs1.
    replace (chunks 16 (concat cs)) with cs.
    + rewrite Hdec, unpad_pad by assumption. cbn [bind app]. rewrite <- Hm. reflexivity.
    + symmetry. rewrite <- (app_nil_r (concat cs)). rewrite chunks_concat_blocks by (try lia; assumption).
      apply app_nil_r.
  - unfold wf. cbn [r_eof r_look r_prev r_src]. intros _. repeat split; try assumption.
    rewrite Hs1. clear -Hcs'. induction Hcs' as [|c cs Hc _ IH]; [reflexivity|].
    cbn [concat]. rewrite app_length. unfold len16 in Hc. rewrite Hc.
    rewrite <- Nat.add_mod_idemp_l by lia. cbn. exact IH.
Qed.

(* write with ANY partition, cut the ciphertext ANYWHERE, read with ANY buffer sizes: the reads
   are exactly those of an ideal byte-stream reader over the written bytes *)
Theorem cbc_roundtrip : forall key iv ws s0 s' calls chunks ns,
  cbcw_new key iv = Ok s0 -> cbcw_writes E s0 ws = (s', calls) ->
  concat chunks = concat (concat (map snd calls)) ++ concat (cbcw_finish E s') ->
  exists st, cbcr_new key iv chunks = Ok st /\ cbcr_read_seq D st ns = Ok (deliver (concat ws) ns).
Proof.
  intros key iv ws s0 s' calls chs ns Hnew Hw Hct.
  destruct (cbcw_spec E key iv ws s0 s' calls Hnew Hw) as (Henc & _ & _). rewrite Henc in Hct.
  assert (Hok : key_iv_ok key iv = true) by (unfold cbcw_new in Hnew; destruct (key_iv_ok key iv); [reflexivity|discriminate]).
  destruct (cbcr_new_spec key iv (concat ws) chs Hok Hct) as (st & Hn & Hs & Hwf).
  exists st. split; [exact Hn|]. apply (cbcr_seq_spec D D_len); assumption.
Qed.

End CBCRT.
