From PNA Require Import Base ConcatRun.
Require Import Coq.extraction.Extraction Coq.extraction.ExtrOcamlBasic.
Extraction Language OCaml.
Extraction "model.ml" run_line b2n.
