#!/bin/sh
# regenerate _CoqProject from the files present, then the Makefile
cd "$(dirname "$0")"
{ echo "-Q . PNA"; echo "-arg -w -arg -notation-overridden,-deprecated-hint-without-locality,-extraction-opaque-accessed,-extraction-reserved-identifier"; ls Model/*.v Proofs/*.v 2>/dev/null; } > _CoqProject
coq_makefile -f _CoqProject -o Makefile >/dev/null
