(* Archive.v — archive reader and writer at the raw-entry level.
   mirrors: lib/src/archive/read.rs (read_header, next_raw_item, read_next_archive, seek_to_end),
   lib/src/archive/read/slice.rs, lib/src/archive/write.rs (write_header, add_entry of raw entries,
   add_entry_part, split_to_next_archive, finalize). *)
From PNA Require Import Base Crc32 Codec Chunk.

Definition reader := bytes -> res (chunk * bytes).

(* Archive::read_header_with_buffer *)
Definition read_header (rd : reader) (bs : bytes) : res (ahed * bytes) :=
  do r <- read_sig bs;
  do (c, r) <- rd r;
  if negb (ty_is c AHED) then Err InvalidData else
  do h <- ahed_of_bytes (cdata c);
  Ok (h, r).

(* state of an Archive in reader mode *)
Record rstate := { r_rest : bytes; r_buf : list chunk; r_next : bool; r_hdr : ahed }.

(* next_raw_item: Some entry | None (AEND seen; chunks so far go to buf) *)
Fixpoint next_item_loop (rd : reader) (fuel : nat) (bs : bytes) (acc : list chunk) (nxt : bool)
  : res (option (list chunk) * list chunk (* new buf *) * bool * bytes) :=
  match fuel with
  | O => Panic
  | S f =>
    do (c, r) <- rd bs;
    if ty_is c FEND || ty_is c SEND then Ok (Some (acc ++ [c]), [], nxt, r)
    else if ty_is c ANXT then next_item_loop rd f r acc true
    else if ty_is c AEND then Ok (None, acc, nxt, r)
    else next_item_loop rd f r (acc ++ [c]) nxt
  end.
Definition next_raw_item (rd : reader) (s : rstate) : res (option (list chunk) * rstate) :=
  do (o, buf, nxt, r) <- next_item_loop rd (S (length (r_rest s))) (r_rest s) (r_buf s) (r_next s);
  Ok (o, {| r_rest := r; r_buf := buf; r_next := nxt; r_hdr := r_hdr s |}).

(* the raw-entries iterator run to its end *)
Fixpoint raw_entries_loop (rd : reader) (fuel : nat) (s : rstate) : list (list chunk) * fin * rstate :=
  match fuel with
  | O => ([], FinPanic, s)
  | S f =>
    match next_raw_item rd s with
    | Ok (Some e, s') => let '(es, e', s'') := raw_entries_loop rd f s' in (e :: es, e', s'')
    | Ok (None, s') => ([], FinOk, s')
    | Err e => ([], FinErr e, s)
    | Panic => ([], FinPanic, s)
    end
  end.
Definition open_archive (rd : reader) (buf : list chunk) (bs : bytes) : res rstate :=
  do (h, r) <- read_header rd bs;
  Ok {| r_rest := r; r_buf := buf; r_next := false; r_hdr := h |}.
Definition raw_entries (rd : reader) (bs : bytes) : res (list (list chunk) * fin * rstate) :=
  do s <- open_archive rd [] bs;
  Ok (raw_entries_loop rd (S (length bs)) s).

(* read_next_archive: carry buf, check number (checked_add after the fix of D10) *)
Definition read_next_archive (rd : reader) (s : rstate) (bs : bytes) : res rstate :=
  do s' <- open_archive rd (r_buf s) bs;
  let cur := a_number (r_hdr s) in
  if N.ltb (cur + 1) (2 ^ 32) && N.eqb (cur + 1) (a_number (r_hdr s')) then Ok s' else Err InvalidData.

(* a multipart read the way callers chain it: after the end of a part, continue with the
   next one while the part announced a successor *)
Fixpoint read_parts_loop (rd : reader) (s : rstate) (fuel_of : bytes -> nat) (parts : list bytes) (cur_fuel : nat)
  : list (list chunk) * fin :=
  let '(es, e, s') := raw_entries_loop rd cur_fuel s in
  match e with
  | FinOk =>
    if r_next s' then
      match parts with
      | [] => (es, FinErr NotFound)            (* a successor was announced but is not there *)
      | p :: ps =>
        match read_next_archive rd s' p with
        | Ok s2 => let (es2, e2) := read_parts_loop rd s2 fuel_of ps (fuel_of p) in (es ++ es2, e2)
        | Err k => (es, FinErr k)
        | Panic => (es, FinPanic)
        end
      end
    else (es, FinOk)
  | _ => (es, e)
  end.
Definition read_parts (rd : reader) (parts : list bytes) : res (list (list chunk) * fin) :=
  match parts with
  | [] => Err NotFound
  | p :: ps =>
    do s <- open_archive rd [] p;
    Ok (read_parts_loop rd s (fun b => S (length b)) ps (S (length p)))
  end.

(* ---- writer ------------------------------------------------------------------- *)
Definition write_header (number : N) : bytes :=
  sig ++ ser_chunk (mk AHED (ahed_to_bytes {| a_major := 0; a_minor := 0; a_number := number |})).
Definition finalize : bytes := ser_chunk (mk AEND []).
Definition next_marker : bytes := ser_chunk (mk ANXT []).
(* add_entry of a raw entry / add_entry_part: the chunks as they are; returns the byte count *)
Definition add_chunks (cs : list chunk) : bytes * N :=
  (ser_chunks cs, fold_left (fun a c => a + bytes_len c) cs 0).
Definition write_raw_archive (number : N) (entries : list (list chunk)) : bytes :=
  write_header number ++ concat (map (fun e => fst (add_chunks e)) entries) ++ finalize.

(* seek_to_end (skip_chunk loop): offset of the AEND chunk from the start of `bs`
   (position just after the header), or the error *)
Fixpoint seek_loop (fuel : nat) (bs : bytes) (off : N) (nxt : bool) : res (N * bool) :=
  match fuel with
  | O => Panic
  | S f =>
    do (l, r) <- take 4 bs;
    do (ty, r) <- take 4 r;
    (* Seek past data and crc: seeking beyond the end is not an error for a file/cursor;
       the next read_exact then fails with UnexpectedEof *)
    let n := of_be l + 4 in
    if bytes_eqb ty AEND then Ok (off, nxt)
    else if N.leb n (len r) then seek_loop f (skipn (N.to_nat n) r) (off + 12 + of_be l) (nxt || bytes_eqb ty ANXT)
    else Err UnexpectedEof
  end.

(* `pna experimental chunk list`: offset accumulation (cli/src/command/chunk.rs:55-66): starts after
   the 8-byte signature, advances by length + 12 per chunk *)
Fixpoint offsets_from (off : N) (cs : list chunk) : list (chunk * N) :=
  match cs with
  | [] => []
  | c :: r => (c, off) :: offsets_from (off + (len (cdata c) + 12)) r
  end.
Definition chunk_list (bs : bytes) : res (list (chunk * N)) :=
  do (cs, f) <- chunks_stream bs;
  match f with
  | FinOk => Ok (offsets_from 8 cs)
  | FinErr e => Err e
  | FinPanic => Panic
  end.
