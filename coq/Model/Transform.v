(* Transform.v — the archive-editing commands of the CLI on the logical content of an archive.
   mirrors cli/src/command/commons.rs (run_transform_entry, TransformStrategyUnSolid,
   TransformStrategyKeepSolid) and the per-command transformers of
   chmod.rs / chown.rs / xattr.rs / acl.rs (+ ext.rs NormalEntryExt::acl) / strip.rs /
   migrate.rs / delete.rs, as repaired (D12 password check, D17 first-seen platform order,
   D18 insert instead of or_insert, acl set on entries without a general ACL, solid-level
   extra chunks carried over by keep-solid, strip honours its FILES: 4d97c0da).
   Mode parsing/application (chmod.rs) and the ACE / platform text codecs (chunk/acl.rs) are
   imported from CliCodec.v — no duplication.
   Glob matching is not modelled: every command takes `sel : bytes -> bool` on entry names
   (both for running — a table computed by the harness with the real globset crate — and in
   the theorems, where it is a Section variable). *)
From PNA Require Import Base Codec Chunk CliCodec.

(* ---- logical archive ------------------------------------------------------------------ *)
(* le_hdr (codec:cipher:mode of the entry header) and le_content (the decoded content) are
   opaque tokens: no editing command looks at them *)
Record lentry := { le_name : bytes; le_kind : N; le_hdr : bytes; le_content : bytes;
                   le_ctime : option N; le_mtime : option N; le_atime : option N;
                   le_perm : option perm; le_xattrs : list xattr; le_extras : list chunk }.
Record shdr := { sh_codec : N; sh_cipher : N; sh_mode : N }.
Inductive item :=
  | Normal (e : lentry)
  | Solid (h : shdr) (x : list chunk) (es : list lentry).
Definition archive := list item.

(* the library's view: every entry, solid blocks expanded in place *)
Definition item_entries (it : item) : list lentry :=
  match it with Normal e => [e] | Solid _ _ es => es end.
Definition entries (a : archive) : list lentry := concat (map item_entries a).

(* ---- attribute replacement (NormalEntry::with_metadata / with_xattrs / with_extra_chunks) -- *)
Definition with_meta (e : lentry) (c m a : option N) (p : option perm) : lentry :=
  {| le_name := le_name e; le_kind := le_kind e; le_hdr := le_hdr e; le_content := le_content e;
     le_ctime := c; le_mtime := m; le_atime := a; le_perm := p;
     le_xattrs := le_xattrs e; le_extras := le_extras e |}.
Definition with_perm (e : lentry) (p : option perm) : lentry :=
  with_meta e (le_ctime e) (le_mtime e) (le_atime e) p.
Definition with_xattrs (e : lentry) (xs : list xattr) : lentry :=
  {| le_name := le_name e; le_kind := le_kind e; le_hdr := le_hdr e; le_content := le_content e;
     le_ctime := le_ctime e; le_mtime := le_mtime e; le_atime := le_atime e; le_perm := le_perm e;
     le_xattrs := xs; le_extras := le_extras e |}.
Definition with_extras (e : lentry) (cs : list chunk) : lentry :=
  {| le_name := le_name e; le_kind := le_kind e; le_hdr := le_hdr e; le_content := le_content e;
     le_ctime := le_ctime e; le_mtime := le_mtime e; le_atime := le_atime e; le_perm := le_perm e;
     le_xattrs := le_xattrs e; le_extras := cs |}.

(* ---- run_transform_entry with either strategy ------------------------------------------ *)
(* a transformer answers Some e' (write e'), None (drop the entry) or an error *)
Definition transformer := lentry -> res (option lentry).

Fixpoint map_entries (f : transformer) (es : list lentry) : res (list lentry) :=
  match es with
  | [] => Ok []
  | e :: r =>
    do o <- f e;
    do r' <- map_entries f r;
    Ok (match o with Some e' => e' :: r' | None => r' end)
  end.

(* keep = true: TransformStrategyKeepSolid, false: TransformStrategyUnSolid.
   pw: a password was given.  An encrypted solid entry cannot be opened without one
   (s.entries(None) resp. the repaired check before WriteOptions::build): InvalidInput. *)
Definition transform_item (keep pw : bool) (f : transformer) (it : item) : res (list item) :=
  match it with
  | Normal e => do o <- f e; Ok (match o with Some e' => [Normal e'] | None => [] end)
  | Solid h x es =>
    if negb (N.eqb (sh_cipher h) 0) && negb pw then Err InvalidInput else
    do es' <- map_entries f es;
    Ok (if keep then [Solid h x es'] else map Normal es')
  end.

Fixpoint transform (keep pw : bool) (f : transformer) (a : archive) : res archive :=
  match a with
  | [] => Ok []
  | it :: r =>
    do l <- transform_item keep pw f it;
    do r' <- transform keep pw f r;
    Ok (l ++ r')
  end.

(* ---- chmod / chown ------------------------------------------------------------------------ *)
Definition perm_with_mode (p : perm) (m : N) : perm :=
  {| p_uid := p_uid p; p_uname := p_uname p; p_gid := p_gid p; p_gname := p_gname p; p_mode := m |}.
Definition apply_mode := mode_apply.       (* CliCodec.mode_apply = chmod.rs Mode::apply_to *)
Definition cmd_chmod (m : mode) (e : lentry) : lentry :=
  with_perm e (option_map (fun p => perm_with_mode p (apply_mode m (p_mode p))) (le_perm e)).

(* the user database look-up (User::from_name / Group::from_name) is an oracle: Some (id, name)
   when the name resolves; an unresolvable name leaves that half as it is *)
Definition cmd_chown (u g : option (N * bytes)) (e : lentry) : lentry :=
  with_perm e (option_map (fun p =>
    {| p_uid := match u with Some (i, _) => i | None => p_uid p end;
       p_uname := match u with Some (_, n) => n | None => p_uname p end;
       p_gid := match g with Some (i, _) => i | None => p_gid p end;
       p_gname := match g with Some (_, n) => n | None => p_gname p end;
       p_mode := p_mode p |}) (le_perm e)).

(* ---- xattr set / remove: IndexMap semantics ------------------------------------------------- *)
Fixpoint im_insert (k v : bytes) (m : list xattr) : list xattr :=
  match m with
  | [] => [{| x_name := k; x_value := v |}]
  | x :: r => if bytes_eqb k (x_name x) then {| x_name := x_name x; x_value := v |} :: r
              else x :: im_insert k v r
  end.
(* .collect::<IndexMap<_, _>>(): a repeated name keeps its first position and takes the last value *)
Definition im_collect (l : list xattr) : list xattr :=
  fold_left (fun m x => im_insert (x_name x) (x_value x) m) l [].
Definition im_remove (k : bytes) (m : list xattr) : list xattr :=
  filter (fun x => negb (bytes_eqb k (x_name x))) m.
Definition cmd_xattr (set : option (bytes * bytes)) (remove : option bytes) (e : lentry) : lentry :=
  let m := im_collect (le_xattrs e) in
  let m := match set with Some (n, v) => im_insert n v m | None => m end in
  let m := match remove with Some n => im_remove n m | None => m end in
  with_xattrs e m.

(* ---- ACLs (ext.rs acl(), acl.rs transform_entry, migrate.rs) ---------------------------------- *)
Definition FACL : bytes := T "faCl".
Definition FACE : bytes := T "faCe".
Definition is_acl_chunk (c : chunk) : bool := ty_is c FACL || ty_is c FACE.

Definition owner_eqb (a b : owner) : bool :=
  match a, b with
  | Owner, Owner | OwnerGroup, OwnerGroup | Mask, Mask | Other, Other => true
  | User x, User y | Group x, Group y => bytes_eqb x y
  | _, _ => false
  end.
Definition platform_eqb (a b : platform) : bool :=
  match a, b with
  | General, General | Windows, Windows | MacOs, MacOs | Linux, Linux | FreeBSD, FreeBSD => true
  | Unknown x, Unknown y => bytes_eqb x y
  | _, _ => false
  end.

(* IndexMap<AcePlatform, Vec<Ace>>: first-seen order of platforms *)
Definition acl_map := list (platform * list ace).
Fixpoint acl_push (p : platform) (a : ace) (m : acl_map) : acl_map :=
  match m with
  | [] => [(p, [a])]
  | (q, l) :: r => if platform_eqb p q then (q, l ++ [a]) :: r else (q, l) :: acl_push p a r
  end.
Fixpoint acl_parse_loop (cs : list chunk) (cur : platform) (m : acl_map) : res acl_map :=
  match cs with
  | [] => Ok m
  | c :: r =>
    if ty_is c FACL then
      if utf8_valid (cdata c) then acl_parse_loop r (platform_of_string (cdata c)) m else Err OtherErr
    else if ty_is c FACE then
      if utf8_valid (cdata c) then
        match awp_of_string (cdata c) with
        | Ok (po, a) => acl_parse_loop r cur (acl_push (match po with Some p => p | None => cur end) a m)
        | _ => Err OtherErr
        end
      else Err OtherErr
    else acl_parse_loop r cur m
  end.
Definition acl_parse (cs : list chunk) : res acl_map := acl_parse_loop cs General [].

Definition acl_chunks (m : acl_map) : list chunk :=
  concat (map (fun pl => mk FACL (platform_to_string (fst pl))
                         :: map (fun a => mk FACE (ace_to_string a)) (snd pl)) m).
Definition non_acl (cs : list chunk) : list chunk := filter (fun c => negb (is_acl_chunk c)) cs.

(* the -m / -x argument (AclEntries): default flag, owner, permission names (None: no field) *)
Record aclspec := { as_default : bool; as_owner : owner; as_perms : option (list bytes) }.
Definition spec_match (s : aclspec) (a : ace) : bool :=
  Bool.eqb (as_default s) (contains (a_flags a) 1) && owner_eqb (as_owner s) (a_owner a).
Definition spec_ace (s : aclspec) : ace :=
  {| a_flags := if as_default s then 1 else 0; a_owner := as_owner s; a_allow := true;
     a_perm := match as_perms s with Some l => set_of_names perm_table l | None => 0 end |}.
(* acl.iter_mut().find(is_match): the first match gets the permission; no match: push *)
Fixpoint acl_modify (s : aclspec) (l : list ace) : list ace :=
  match l with
  | [] => [spec_ace s]
  | a :: r => if spec_match s a
              then {| a_flags := a_flags a; a_owner := a_owner a; a_allow := a_allow a;
                      a_perm := a_perm (spec_ace s) |} :: r
              else a :: acl_modify s r
  end.
Definition acl_has (p : platform) (m : acl_map) : bool := existsb (fun pl => platform_eqb p (fst pl)) m.
Fixpoint acl_update (p : platform) (f : list ace -> list ace) (m : acl_map) : acl_map :=
  match m with
  | [] => [(p, f [])]                                   (* entry(p).or_default() *)
  | (q, l) :: r => if platform_eqb p q then (q, f l) :: r else (q, l) :: acl_update p f r
  end.
(* the edit of the general platform's list: -m first, then -x *)
Definition acl_edit (modify remove : option aclspec) (l : list ace) : list ace :=
  let l := match modify with Some s => acl_modify s l | None => l end in
  match remove with Some s => filter (fun a => negb (spec_match s a)) l | None => l end.
(* nothing to add and no general list to remove from: the entry is returned as it is *)
Definition acl_skip (modify : option aclspec) (m : acl_map) : bool :=
  match modify with None => negb (acl_has General m) | Some _ => false end.
Definition cmd_acl (modify remove : option aclspec) (e : lentry) : lentry :=
  match acl_parse (le_extras e) with
  | Ok m =>
    if acl_skip modify m then e else
    with_extras e (acl_chunks (acl_update General (acl_edit modify remove) m) ++ non_acl (le_extras e))
  | _ => e                                               (* unreadable ACL: the entry is left alone *)
  end.

(* migrate: regroup the ACL chunks in front, in the first-seen order of platforms *)
Definition cmd_migrate (e : lentry) : res lentry :=
  match acl_parse (le_extras e) with
  | Ok m => Ok (with_extras e (acl_chunks m ++ non_acl (le_extras e)))
  | Err k => Err k
  | Panic => Panic
  end.

(* ---- strip ------------------------------------------------------------------------------------ *)
Record strip_opts := { keep_time : bool; keep_perm : bool; keep_xattr : bool; keep_acl : bool;
                       keep_private : option (list bytes) }.
Definition kept_by (o : strip_opts) (c : chunk) : bool :=
  match keep_private o with Some [] => true | _ => false end
  || existsb (bytes_eqb (cty c))
       ((if keep_acl o then [FACL; FACE] else []) ++ match keep_private o with Some l => l | None => [] end).
Definition cmd_strip (o : strip_opts) (e : lentry) : lentry :=
  {| le_name := le_name e; le_kind := le_kind e; le_hdr := le_hdr e; le_content := le_content e;
     le_ctime := if keep_time o then le_ctime e else None;
     le_mtime := if keep_time o then le_mtime e else None;
     le_atime := if keep_time o then le_atime e else None;
     le_perm := if keep_perm o then le_perm e else None;
     le_xattrs := if keep_xattr o then le_xattrs e else [];
     le_extras := filter (kept_by o) (le_extras e) |}.

(* ---- the commands as transformers ------------------------------------------------------------- *)
Inductive cmd :=
  | CChmod (m : mode)
  | CChown (u g : option (N * bytes))
  | CXattr (set : option (bytes * bytes)) (remove : option bytes)
  | CAcl (modify remove : option aclspec)
  | CStrip (o : strip_opts)
  | CMigrate
  | CDelete.

(* migrate takes no patterns: every entry is rewritten *)
Definition selects_all (c : cmd) : bool :=
  match c with CMigrate => true | _ => false end.
(* the selection a command works with.  strip.rs as repaired (commit 4d97c0da):
   `globs.is_empty() || globs.matches_any(entry.header().path())` — `pna strip ARCHIVE` strips every
   entry, `pna strip ARCHIVE FILES...` the entries FILES select (they used to be accepted and ignored) *)
Definition eff_sel (c : cmd) (nfiles : N) (sel : bytes -> bool) : bytes -> bool :=
  match c with
  | CStrip _ => fun n => N.eqb nfiles 0 || sel n
  | _ => sel
  end.

(* the effect of the command on one selected entry *)
Definition cmd_entry (c : cmd) (e : lentry) : res (option lentry) :=
  match c with
  | CChmod m => Ok (Some (cmd_chmod m e))
  | CChown u g => Ok (Some (cmd_chown u g e))
  | CXattr s r => Ok (Some (cmd_xattr s r e))
  | CAcl m r => Ok (Some (cmd_acl m r e))
  | CStrip o => Ok (Some (cmd_strip o e))
  | CMigrate => do e' <- cmd_migrate e; Ok (Some e')
  | CDelete => Ok None
  end.

Definition cmd_transformer (c : cmd) (sel : bytes -> bool) : transformer :=
  fun e => if selects_all c || sel (le_name e) then cmd_entry c e else Ok (Some e).

(* chmod / chown / xattr set / acl set return before touching the archive when no pattern was
   given (`if args.files.is_empty() { return Ok(()) }`) *)
Definition needs_files (c : cmd) : bool :=
  match c with CChmod _ | CChown _ _ | CXattr _ _ | CAcl _ _ => true | _ => false end.

Definition run_cmd (keep pw : bool) (c : cmd) (nfiles : N) (sel : bytes -> bool) (a : archive) : res archive :=
  if needs_files c && N.eqb nfiles 0 then Ok a
  else transform keep pw (cmd_transformer c (eff_sel c nfiles sel)) a.
