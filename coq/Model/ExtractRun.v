(* ExtractRun.v — case interpreter of the extract area (C09 crafted archives, C02 round trips).
   The implementation side is orchestrated from Python (props/C09.py, props/C02.py): the same case
   line is given to the real `pna` in a sandbox, the observed outcome is rendered in the format below.

   extract <flags> <runs> <outhex> <entries> <fs0>
       flags   : 1 overwrite | 2 keep-permission | 4 unguarded (the code before the C09 repairs) | 8 keep-xattr
       runs    : how many times the same extraction is run
       outhex  : the output directory, an absolute path such as /S/out
       entries : comma list of  mode:kind:namehex:datahex:perm[:xattrs]   (mode a = written through the API,
                 whose EntryReference normalises link data once more; r = raw chunks; perm - or decimal;
                 xattrs = namehex=valuehex;... or empty)
       fs0     : comma list of  pathhex:kind:datahex:mode  (kind f d l; parents first; the root exists)
     -> OK <rc,rc,...> <pathhex,...>   exit status of every run (0 / 1) and the sorted absolute paths
        whose observation (kind, content, mode, write stamp, inode, link target) changed; `-` = none

   roundtrip <cflags> <xflags> <items>
       cflags  : 1 keep-dir | 2 keep-permission | 4 keep-timestamp | 8 keep-xattr      (create)
       xflags  : 1 overwrite | 2 keep-permission | 4 keep-timestamp | 8 keep-xattr     (extract)
       items   : the tree in walk order, comma list of  pathhex:kind:datahex:mode:mtime:xattrs
                 (kind f d l; data = content digest or link target; xattrs = namehex=valuehex;...)
     -> OK <rc> <items>   the tree found below the output directory, sorted by path:
        pathhex:kind:datahex:mode:mtime:xattrs with `-` for what the options do not promise *)
From PNA Require Import Base Name Fs Extract CodecRun.

Definition colon : byte := x3a.
Definition semi : byte := x3b.
Definition eqsign : byte := x3d.
Definition dash : bytes := lit "-".

Definition unhex0 (b : bytes) : bytes := match unhex b with Some x => x | None => [] end.
Definition undec0 (b : bytes) : N := match undec b with Some n => n | None => 0 end.
Definition optdec (b : bytes) : option N := if bytes_eqb b dash then None else undec b.

Definition abs_comps (s : bytes) : path := link_segs s.
Definition abs_str (p : path) : bytes := slash :: join [slash] p.

(* ---- sorting byte strings ------------------------------------------------------------- *)
Fixpoint bytes_leb (a b : bytes) : bool :=
  match a, b with
  | [], _ => true
  | _ :: _, [] => false
  | x :: a', y :: b' => if N.ltb (b2n x) (b2n y) then true
                        else if N.ltb (b2n y) (b2n x) then false else bytes_leb a' b'
  end.
Fixpoint insert_by {A} (key : A -> bytes) (x : A) (l : list A) : list A :=
  match l with
  | [] => [x]
  | y :: r => if bytes_leb (key x) (key y) then x :: l else y :: insert_by key x r
  end.
Definition sort_by {A} (key : A -> bytes) (l : list A) : list A := fold_right (insert_by key) [] l.
Fixpoint dedup (l : list bytes) : list bytes :=      (* on a sorted list *)
  match l with
  | x :: ((y :: _) as r) => if bytes_eqb x y then dedup r else x :: dedup r
  | _ => l
  end.

(* ---- extract ---------------------------------------------------------------------------- *)
Definition testbit (n : N) (k : N) : bool := N.testbit n k.

Definition parse_xattrs (s : bytes) : list (bytes * bytes) :=
  match s with
  | [] => []
  | _ => map (fun kv => let p := fields eqsign kv in (unhex0 (nth 0 p []), unhex0 (nth 1 p [])))
             (fields semi s)
  end.

Definition parse_entry (s : bytes) : xentry :=
  let fs_ := fields colon s in
  let g i := nth i fs_ [] in
  let data := unhex0 (g 3%nat) in
  let kind := undec0 (g 1%nat) in
  let api := bytes_eqb (g 0%nat) (lit "a") in
  mk_xentry (unhex0 (g 2%nat)) kind
            (if api && (N.eqb kind 2 || N.eqb kind 3) then normalize_reference data else data)
            (optdec (g 4%nat)) None (parse_xattrs (g 5%nat)).

Definition add_node (f : fs) (s : bytes) : fs :=
  let fs_ := fields colon s in
  let g i := nth i fs_ [] in
  let p := abs_comps (unhex0 (g 0%nat)) in
  let data := unhex0 (g 2%nat) in
  let mode := undec0 (g 3%nat) in
  let k := g 1%nat in
  if bytes_eqb k (lit "f") then
    {| names := nset (names f) p (DFile (next f));
       inodes := iset (inodes f) (next f) (mk_inode data mode (next f) None []);
       next := next f + 1 |}
  else if bytes_eqb k (lit "d") then with_names f (nset (names f) p (DDir mode))
  else with_names f (nset (names f) p (DLink data)).

Definition root_fs : fs := {| names := [([], DDir default_dir_mode)]; inodes := []; next := 1 |}.

Fixpoint run_times (n : nat) (o : xopts) (out : path) (arch : list xentry) (f : fs) : fs * list bytes :=
  match n with
  | O => (f, [])
  | S k => let (f1, ok) := extract_run o out arch f in
           let (f2, rcs) := run_times k o out arch f1 in
           (f2, (if ok then lit "0" else lit "1") :: rcs)
  end.

Definition changed_paths (f0 f1 : fs) : list bytes :=
  let cands := map fst (names f0) ++ map fst (names f1) in
  dedup (sort_by (fun x => x) (map abs_str (filter (mutatedb f0 f1) cands))).

Definition list_or_dash (l : list bytes) : bytes := match l with [] => dash | _ => join [comma] l end.

Definition run_extract_case (args : list bytes) : bytes :=
  let g i := nth i args [] in
  let flags := undec0 (g 0%nat) in
  let runs := N.to_nat (N.min (undec0 (g 1%nat)) 4) in
  let out := abs_comps (unhex0 (g 2%nat)) in
  let arch := map parse_entry (list_field (g 3%nat)) in
  let f0 := fold_left add_node (list_field (g 4%nat)) root_fs in
  let o := mk_xopts (testbit flags 0) (testbit flags 1) false (testbit flags 3) (negb (testbit flags 2)) in
  let (f1, rcs) := run_times runs o out arch f0 in
  lit "OK " ++ cat [list_or_dash rcs; list_or_dash (map hex (changed_paths f0 f1))].

(* ---- roundtrip ---------------------------------------------------------------------------- *)
Definition show_xattrs (xs : list (bytes * bytes)) : bytes :=
  join [semi] (map (fun kv => hex (fst kv) ++ [eqsign] ++ hex (snd kv)) xs).

Definition parse_item (s : bytes) : list bytes * tnode :=
  let fs_ := fields colon s in
  let g i := nth i fs_ [] in
  let p := link_segs (unhex0 (g 0%nat)) in
  let k := g 1%nat in
  let data := unhex0 (g 2%nat) in
  if bytes_eqb k (lit "f") then
    (p, TFile data (undec0 (g 3%nat)) (undec0 (g 4%nat)) (parse_xattrs (g 5%nat)))
  else if bytes_eqb k (lit "d") then (p, TDir (undec0 (g 3%nat)))
  else (p, TLink data).

Definition optshow (o : option N) : bytes := match o with Some n => dec n | None => dash end.

Definition show_item (e : list bytes * enode) : bytes :=
  let p := hex (join [slash] (fst e)) in
  match snd e with
  | EFile d m t xs => join [colon] [p; lit "f"; hex d; optshow m; optshow t; show_xattrs xs]
  | EDir m => join [colon] [p; lit "d"; []; optshow m; dash; []]
  | ELink t => join [colon] [p; lit "l"; hex t; dash; dash; []]
  end.

Definition rt_out : path := [lit "S"; lit "out"].

Definition run_roundtrip_case (args : list bytes) : bytes :=
  let g i := nth i args [] in
  let cf := undec0 (g 0%nat) in
  let xf := undec0 (g 1%nat) in
  let t := map parse_item (list_field (g 2%nat)) in
  let walk := map fst t in                 (* the items are listed in walk order; a path walked again is listed again *)
  let order := uniq_paths walk in
  let c := mk_copts (testbit cf 0) (testbit cf 1) (testbit cf 2) (testbit cf 3) in
  let o := mk_xopts (testbit xf 0) (testbit xf 1) (testbit xf 2) (testbit xf 3) true in
  let arch := create_from_walk c walk t in
  let (f1, ok) := extract_run o rt_out arch (empty_dir rt_out) in
  let items := sort_by (fun e => join [slash] (fst e)) (tree_of c o rt_out order f1) in
  lit "OK " ++ cat [(if ok then lit "0" else lit "1"); list_or_dash (map show_item items)].

Definition run_extract_area (op : bytes) (args : list bytes) : bytes :=
  if bytes_eqb op (lit "extract") then run_extract_case args
  else if bytes_eqb op (lit "roundtrip") then run_roundtrip_case args
  else bad_case.

Definition run_line := run_line_with run_extract_area.
