(* Entry.v — structured entries: parsing a raw entry (chunk list) and re-serialising it.
   mirrors lib/src/entry.rs: TryFrom<RawEntry> for ReadEntry / NormalEntry / SolidEntry,
   NormalEntry::chunks_write_in / into_chunks, SolidEntry::chunks_write_in / into_chunks,
   with_metadata / with_xattrs / with_extra_chunks, EntryIterator (solid expansion). *)
From PNA Require Import Base Crc32 Name Codec Chunk Archive.

Record metadata := { m_raw_size : option N; m_compressed : N;
                     m_ctime : option N; m_mtime : option N; m_atime : option N;
                     m_perm : option perm }.

Record normal_entry := { n_hdr : fhed; n_phsf : option bytes; n_extra : list chunk;
                         n_data : list bytes; n_meta : metadata; n_xattrs : list xattr }.
Record solid_entry := { so_hdr : shed; so_phsf : option bytes; so_data : list bytes;
                        so_extra : list chunk }.
Inductive read_entry := RNormal (e : normal_entry) | RSolid (e : solid_entry).

(* String::from_utf8 *)
Definition utf8_string (bs : bytes) : res bytes :=
  if utf8_valid bs then Ok bs else Err InvalidData.

(* accumulator of the big match in TryFrom<RawEntry> for NormalEntry *)
Record nacc := { k_info : option fhed; k_phsf : option bytes; k_extra : list chunk;
                 k_data : list bytes; k_csize : N; k_size : option N;
                 k_c : option N; k_m : option N; k_a : option N;
                 k_perm : option perm; k_x : list xattr }.
Definition nacc0 : nacc :=
  {| k_info := None; k_phsf := None; k_extra := []; k_data := []; k_csize := 0; k_size := None;
     k_c := None; k_m := None; k_a := None; k_perm := None; k_x := [] |}.

Fixpoint parse_normal_loop (cs : list chunk) (a : nacc) : res nacc :=
  match cs with
  | [] => Ok a
  | c :: r =>
    let d := cdata c in
    if ty_is c FEND then Ok a
    else if ty_is c FHED then
      do h <- fhed_of_bytes d;
      parse_normal_loop r {| k_info := Some h; k_phsf := k_phsf a; k_extra := k_extra a; k_data := k_data a;
        k_csize := k_csize a; k_size := k_size a; k_c := k_c a; k_m := k_m a; k_a := k_a a; k_perm := k_perm a; k_x := k_x a |}
    else if ty_is c PHSF then
      do s <- utf8_string d;
      parse_normal_loop r {| k_info := k_info a; k_phsf := Some s; k_extra := k_extra a; k_data := k_data a;
        k_csize := k_csize a; k_size := k_size a; k_c := k_c a; k_m := k_m a; k_a := k_a a; k_perm := k_perm a; k_x := k_x a |}
    else if ty_is c FDAT then
      parse_normal_loop r {| k_info := k_info a; k_phsf := k_phsf a; k_extra := k_extra a; k_data := k_data a ++ [d];
        k_csize := k_csize a + len d; k_size := k_size a; k_c := k_c a; k_m := k_m a; k_a := k_a a; k_perm := k_perm a; k_x := k_x a |}
    else if ty_is c fSIZ then
      parse_normal_loop r {| k_info := k_info a; k_phsf := k_phsf a; k_extra := k_extra a; k_data := k_data a;
        k_csize := k_csize a; k_size := Some (fsiz_of_bytes d); k_c := k_c a; k_m := k_m a; k_a := k_a a; k_perm := k_perm a; k_x := k_x a |}
    else if ty_is c cTIM then
      do t <- time_of_bytes d;
      parse_normal_loop r {| k_info := k_info a; k_phsf := k_phsf a; k_extra := k_extra a; k_data := k_data a;
        k_csize := k_csize a; k_size := k_size a; k_c := Some t; k_m := k_m a; k_a := k_a a; k_perm := k_perm a; k_x := k_x a |}
    else if ty_is c mTIM then
      do t <- time_of_bytes d;
      parse_normal_loop r {| k_info := k_info a; k_phsf := k_phsf a; k_extra := k_extra a; k_data := k_data a;
        k_csize := k_csize a; k_size := k_size a; k_c := k_c a; k_m := Some t; k_a := k_a a; k_perm := k_perm a; k_x := k_x a |}
    else if ty_is c aTIM then
      do t <- time_of_bytes d;
      parse_normal_loop r {| k_info := k_info a; k_phsf := k_phsf a; k_extra := k_extra a; k_data := k_data a;
        k_csize := k_csize a; k_size := k_size a; k_c := k_c a; k_m := k_m a; k_a := Some t; k_perm := k_perm a; k_x := k_x a |}
    else if ty_is c fPRM then
      do p <- perm_of_bytes d;
      parse_normal_loop r {| k_info := k_info a; k_phsf := k_phsf a; k_extra := k_extra a; k_data := k_data a;
        k_csize := k_csize a; k_size := k_size a; k_c := k_c a; k_m := k_m a; k_a := k_a a; k_perm := Some p; k_x := k_x a |}
    else if ty_is c xATR then
      do x <- xattr_of_bytes d;
      parse_normal_loop r {| k_info := k_info a; k_phsf := k_phsf a; k_extra := k_extra a; k_data := k_data a;
        k_csize := k_csize a; k_size := k_size a; k_c := k_c a; k_m := k_m a; k_a := k_a a; k_perm := k_perm a; k_x := k_x a ++ [x] |}
    else
      parse_normal_loop r {| k_info := k_info a; k_phsf := k_phsf a; k_extra := k_extra a ++ [c]; k_data := k_data a;
        k_csize := k_csize a; k_size := k_size a; k_c := k_c a; k_m := k_m a; k_a := k_a a; k_perm := k_perm a; k_x := k_x a |}
  end.

Definition parse_normal (cs : list chunk) : res normal_entry :=
  match cs with
  | c :: _ => if negb (ty_is c FHED) then Err InvalidData else
    do a <- parse_normal_loop cs nacc0;
    match k_info a with
    | None => Err InvalidData
    | Some h =>
      if negb (N.eqb (f_major h) 0 && N.eqb (f_minor h) 0) then Err Unsupported else
      Ok {| n_hdr := h; n_phsf := k_phsf a; n_extra := k_extra a; n_data := k_data a;
            n_meta := {| m_raw_size := k_size a; m_compressed := k_csize a; m_ctime := k_c a;
                         m_mtime := k_m a; m_atime := k_a a; m_perm := k_perm a |};
            n_xattrs := k_x a |}
    end
  | [] => (* TryFrom<RawEntry> for NormalEntry on an empty list: no first chunk, loop finds no FHED *)
    Err InvalidData
  end.

(* SolidEntry: SEND ends the loop (after the fix of the SEND-kept-as-extra defect) *)
Fixpoint parse_solid_loop (cs : list chunk) (info : option shed) (phsf : option bytes)
         (data : list bytes) (extra : list chunk) : res (option shed * option bytes * list bytes * list chunk) :=
  match cs with
  | [] => Ok (info, phsf, data, extra)
  | c :: r =>
    if ty_is c SEND then Ok (info, phsf, data, extra)
    else if ty_is c SHED then do h <- shed_of_bytes (cdata c); parse_solid_loop r (Some h) phsf data extra
    else if ty_is c SDAT then parse_solid_loop r info phsf (data ++ [cdata c]) extra
    else if ty_is c PHSF then do s <- utf8_string (cdata c); parse_solid_loop r info (Some s) data extra
    else parse_solid_loop r info phsf data (extra ++ [c])
  end.
Definition parse_solid (cs : list chunk) : res solid_entry :=
  match cs with
  | c :: _ => if negb (ty_is c SHED) then Err InvalidData else
    do (info, phsf, data, extra) <- parse_solid_loop cs None None [] [];
    match info with
    | None => Err InvalidData
    | Some h => Ok {| so_hdr := h; so_phsf := phsf; so_data := data; so_extra := extra |}
    end
  | [] => Err InvalidData
  end.

(* TryFrom<RawEntry> for ReadEntry *)
Definition parse_entry (cs : list chunk) : res read_entry :=
  match cs with
  | c :: _ =>
    if ty_is c SHED then do e <- parse_solid cs; Ok (RSolid e)
    else if ty_is c FHED then do e <- parse_normal cs; Ok (RNormal e)
    else Err InvalidData
  | [] => Err InvalidData
  end.

(* ---- serialisation -------------------------------------------------------------- *)
Definition opt_chunk {A} (t : bytes) (f : A -> bytes) (o : option A) : list chunk :=
  match o with Some a => [mk t (f a)] | None => [] end.

(* chunks_write_in / into_chunks (data units of at most u32::MAX bytes: `data_chunk.chunks(u32::MAX as usize)`
   yields nothing for an empty payload, so empty data chunks vanish; a payload of 2^32 bytes or more becomes several
   chunks).  Stated for every bound cmax (Chunk.pieces); the code's bound is CMAX *)
Definition data_chunks_at (cmax : N) (t : bytes) (d : bytes) : list chunk := map (mk t) (pieces cmax d).
Definition data_chunks (t : bytes) (d : bytes) : list chunk := data_chunks_at CMAX t d.

Definition ser_normal (e : normal_entry) : list chunk :=
  let m := n_meta e in
  [mk FHED (fhed_to_bytes (n_hdr e))] ++ n_extra e
  ++ opt_chunk fSIZ fsiz_to_bytes (m_raw_size m)
  ++ opt_chunk PHSF (fun s => s) (n_phsf e)
  ++ concat (map (data_chunks FDAT) (n_data e))
  ++ opt_chunk cTIM time_to_bytes (m_ctime m)
  ++ opt_chunk mTIM time_to_bytes (m_mtime m)
  ++ opt_chunk aTIM time_to_bytes (m_atime m)
  ++ opt_chunk fPRM perm_to_bytes (m_perm m)
  ++ map (fun x => mk xATR (xattr_to_bytes x)) (n_xattrs e)
  ++ [mk FEND []].

(* SolidEntry writes its SDAT payloads as they are (no `chunks(u32::MAX)`): empty ones stay *)
Definition ser_solid (e : solid_entry) : list chunk :=
  [mk SHED (shed_to_bytes (so_hdr e))] ++ so_extra e
  ++ opt_chunk PHSF (fun s => s) (so_phsf e)
  ++ map (mk SDAT) (so_data e)
  ++ [mk SEND []].

Definition ser_entry (e : read_entry) : list chunk :=
  match e with RNormal n => ser_normal n | RSolid s => ser_solid s end.

(* ---- attribute replacement (entry.rs:941-989) -------------------------------------- *)
Definition with_metadata (e : normal_entry) (m : metadata) : normal_entry :=
  {| n_hdr := n_hdr e; n_phsf := n_phsf e; n_extra := n_extra e; n_data := n_data e;
     n_meta := {| m_raw_size := m_raw_size (n_meta e); m_compressed := m_compressed (n_meta e);
                  m_ctime := m_ctime m; m_mtime := m_mtime m; m_atime := m_atime m; m_perm := m_perm m |};
     n_xattrs := n_xattrs e |}.
Definition with_xattrs (e : normal_entry) (xs : list xattr) : normal_entry :=
  {| n_hdr := n_hdr e; n_phsf := n_phsf e; n_extra := n_extra e; n_data := n_data e;
     n_meta := n_meta e; n_xattrs := xs |}.
Definition with_extra_chunks (e : normal_entry) (cs : list chunk) : normal_entry :=
  {| n_hdr := n_hdr e; n_phsf := n_phsf e; n_extra := cs; n_data := n_data e;
     n_meta := n_meta e; n_xattrs := n_xattrs e |}.

(* ---- whole-archive reads ------------------------------------------------------------- *)
(* Archive::entries(): raw items parsed one by one; the first failing parse ends the iteration *)
Fixpoint parse_all (es : list (list chunk)) : list read_entry * fin :=
  match es with
  | [] => ([], FinOk)
  | e :: r =>
    match parse_entry e with
    | Ok p => let (ps, f) := parse_all r in (p :: ps, f)
    | Err k => ([], FinErr k)
    | Panic => ([], FinPanic)
    end
  end.
Definition entries (rd : reader) (bs : bytes) : res (list read_entry * fin) :=
  do (raws, e, _) <- raw_entries rd bs;
  let (ps, pe) := parse_all raws in
  Ok (ps, match pe with FinOk => e | _ => pe end).

(* ---- solid expansion for an unencrypted, uncompressed stream (EntryIterator) ----------- *)
(* reads chunks from the concatenated SDAT payload (entry.rs EntryIterator::next, after fix 66ed01cc): the
   stream ends cleanly only BETWEEN two entries with no byte left (the one-byte probe reads nothing); a short
   read anywhere else — inside a chunk, or inside an entry — is yielded as UnexpectedEof; every yielded error
   ends the iteration (fix a1692e54).  Before 66ed01cc every UnexpectedEof was taken for the clean end:
   inner_item_orig below, kept for the refuted lemma. *)
Fixpoint inner_item (fuel : nat) (bs : bytes) (acc : list chunk) : res (option (list chunk * bytes)) :=
  match fuel with
  | O => Panic
  | S f =>
    match read_chunk_stream bs with
    | Ok (c, r) => if ty_is c FEND then Ok (Some (acc ++ [c], r)) else inner_item f r (acc ++ [c])
    | Err UnexpectedEof => match acc, bs with [], [] => Ok None | _, _ => Err UnexpectedEof end
    | Err k => Err k
    | Panic => Panic
    end
  end.
(* the iterator as it was before fix 66ed01cc *)
Fixpoint inner_item_orig (fuel : nat) (bs : bytes) (acc : list chunk) : res (option (list chunk * bytes)) :=
  match fuel with
  | O => Panic
  | S f =>
    match read_chunk_stream bs with
    | Ok (c, r) => if ty_is c FEND then Ok (Some (acc ++ [c], r)) else inner_item_orig f r (acc ++ [c])
    | Err UnexpectedEof => Ok None
    | Err k => Err k
    | Panic => Panic
    end
  end.
Fixpoint inner_entries_loop (fuel : nat) (bs : bytes) : list normal_entry * fin :=
  match fuel with
  | O => ([], FinPanic)
  | S f =>
    match inner_item (S (length bs)) bs [] with
    | Ok None => ([], FinOk)
    | Ok (Some (cs, r)) =>
      match parse_normal cs with
      | Ok e => let (es, k) := inner_entries_loop f r in (e :: es, k)
      | Err k => ([], FinErr k)
      | Panic => ([], FinPanic)
      end
    | Err k => ([], FinErr k)
    | Panic => ([], FinPanic)
    end
  end.
Definition solid_plain (s : solid_entry) : bool :=
  match s_comp (so_hdr s), s_enc (so_hdr s) with CNo, ENo => true | _, _ => false end.
Definition solid_inner_entries (s : solid_entry) : list normal_entry * fin :=
  let st := concat (so_data s) in inner_entries_loop (S (length st)) st.
