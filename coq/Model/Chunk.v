(* Chunk.v — chunk serialisation and the two chunk parsers.
   mirrors: lib/src/chunk.rs (ChunkExt::write_chunk_in / to_bytes / bytes_len, read_as_chunks,
   read_chunks_from_slice), lib/src/chunk/read.rs (ChunkReader::read_chunk, read_chunk_from_slice). *)
From PNA Require Import Base Crc32 Codec.

Record chunk := { cty : bytes (* 4 bytes *); cdata : bytes }.

Definition T (s : String.string) : bytes := lit s.
Arguments T s%string.
Definition AHED := T "AHED". Definition AEND := T "AEND". Definition ANXT := T "ANXT".
Definition FHED := T "FHED". Definition PHSF := T "PHSF". Definition FDAT := T "FDAT".
Definition FEND := T "FEND". Definition SHED := T "SHED". Definition SDAT := T "SDAT".
Definition SEND := T "SEND". Definition fSIZ := T "fSIZ". Definition cTIM := T "cTIM".
Definition mTIM := T "mTIM". Definition aTIM := T "aTIM". Definition fPRM := T "fPRM".
Definition xATR := T "xATR".

Definition ty_is (c : chunk) (t : bytes) : bool := bytes_eqb (cty c) t.
Definition mk (t d : bytes) : chunk := {| cty := t; cdata := d |}.

Definition chunk_crc (c : chunk) : N := crc32 (cty c ++ cdata c).
(* length field is `data.len() as u32` *)
Definition ser_chunk (c : chunk) : bytes :=
  be32 (len (cdata c)) ++ cty c ++ cdata c ++ be32 (chunk_crc c).
Definition bytes_len (c : chunk) : N := 12 + len (cdata c).
Definition ser_chunks (cs : list chunk) : bytes := concat (map ser_chunk cs).
Definition is_stream_chunk (c : chunk) : bool := ty_is c FDAT || ty_is c SDAT.

(* ChunkReader::read_chunk: four read_exact calls, then the CRC comparison *)
Definition read_chunk_stream (bs : bytes) : res (chunk * bytes) :=
  do (l, r) <- take 4 bs;
  do (ty, r) <- take 4 r;
  do (d, r) <- takeN (of_be l) r;
  do (c, r) <- take 4 r;
  if N.eqb (of_be c) (crc32 (ty ++ d)) then Ok (mk ty d, r) else Err InvalidData.

(* read_chunk_from_slice: split_first_chunk / split_at_checked (after the fix of D5) *)
Definition split_first (n : nat) (bs : bytes) : res (bytes * bytes) :=
  if Nat.leb n (length bs) then Ok (firstn n bs, skipn n bs) else Err UnexpectedEof.
Definition read_chunk_slice (bs : bytes) : res (chunk * bytes) :=
  do (l, r) <- split_first 4 bs;
  do (ty, r) <- split_first 4 r;
  do (d, r) <- (if N.leb (of_be l) (len r)
                then Ok (firstn (N.to_nat (of_be l)) r, skipn (N.to_nat (of_be l)) r)
                else Err UnexpectedEof);
  do (c, r) <- split_first 4 r;
  if N.eqb (of_be c) (crc32 (ty ++ d)) then Ok (mk ty d, r) else Err InvalidData.

(* archive signature *)
Definition sig : bytes := [x89; x50; x4e; x41; x0d; x0a; x1a; x0a].
Definition read_sig (bs : bytes) : res bytes :=
  do (h, r) <- take 8 bs;
  if bytes_eqb h sig then Ok r else Err InvalidData.

(* how an iteration ended *)
Inductive fin := FinOk | FinErr (e : ekind) | FinPanic.
Definition fin_of {A} (r : res A) : fin :=
  match r with Ok _ => FinOk | Err e => FinErr e | Panic => FinPanic end.

(* read_as_chunks / read_chunks_from_slice: the Chunks iterators (stop after AEND) *)
Fixpoint chunks_iter (rd : bytes -> res (chunk * bytes)) (fuel : nat) (bs : bytes) : list chunk * fin :=
  match fuel with
  | O => ([], FinPanic)                      (* unreachable: fuel = S (length bs) *)
  | S f =>
    match rd bs with
    | Ok (c, r) =>
      if ty_is c AEND then ([c], FinOk)
      else let (cs, e) := chunks_iter rd f r in (c :: cs, e)
    | Err e => ([], FinErr e)
    | Panic => ([], FinPanic)
    end
  end.
Definition read_chunks (rd : bytes -> res (chunk * bytes)) (bs : bytes) : res (list chunk * fin) :=
  do r <- read_sig bs;
  Ok (chunks_iter rd (S (length r)) r).
Definition chunks_stream := read_chunks read_chunk_stream.
Definition chunks_slice := read_chunks read_chunk_slice.

(* ---- a payload longer than the length field allows becomes several chunks -------------------------------
   `data.chunks(u32::MAX as usize)` (lib/src/entry.rs into_chunks / chunks_write_in, lib/src/io.rs FlattenWriter,
   and since fix 45407aa2 lib/src/chunk/write.rs ChunkStreamWriter::write): pieces of cmax elements, the last one
   shorter, nothing for an empty slice.  The bound is an N and stays one: the list is walked with a counter, cmax is
   never turned into a unary nat (u32::MAX as a nat would hang vm_compute and the extracted code). *)
Definition CMAX : N := 4294967295.                       (* u32::MAX: the largest payload a chunk can declare *)
(* the first min(k, |l|) elements and the rest *)
Fixpoint splitN {A} (k : N) (l : list A) : list A * list A :=
  match l with
  | [] => ([], [])
  | x :: r => if N.eqb k 0 then ([], l) else let (a, b) := splitN (N.pred k) r in (x :: a, b)
  end.
Fixpoint pieces_fuel {A} (fuel : nat) (cmax : N) (l : list A) : list (list A) :=
  match fuel with
  | O => []
  | S f => match l with
           | [] => []
           | _ => let (a, b) := splitN cmax l in a :: pieces_fuel f cmax b
           end
  end.
Definition pieces {A} (cmax : N) (l : list A) : list (list A) := pieces_fuel (length l) cmax l.
