(* ArchiveRun.v — case interpreter of the archive area (chunks, raw entries, structured
   entries, alteration, truncation, pass-through, re-serialisation, solid expansion, parts).
   Output formats mirror harness/src/bin/archive.rs. *)
From PNA Require Import Base Crc32 Name Codec Chunk Archive Entry CodecRun.

Definition c_ (s : String.string) : bytes := lit s.
Arguments c_ s%string.
Definition dash : bytes := c_ "-".
Definition show_opt {A} (f : A -> bytes) (o : option A) : bytes :=
  match o with Some a => f a | None => dash end.
Definition jn (sep : String.string) (l : list bytes) : bytes := join (lit sep) l.
Arguments jn sep%string l.

Definition show_chunk (c : chunk) : bytes := hex (cty c) ++ c_ ":" ++ hex (cdata c).
Definition show_chunks (cs : list chunk) : bytes := jn "," (map show_chunk cs).
Definition show_fin (f : fin) : bytes :=
  match f with FinOk => c_ "OK" | FinErr e => c_ "ERR " ++ show_ekind e | FinPanic => c_ "PANIC" end.

Definition show_perm (p : perm) : bytes :=
  jn "." [dec (p_uid p); hex (p_uname p); dec (p_gid p); hex (p_gname p); dec (p_mode p)].
Definition show_xattr (x : xattr) : bytes := hex (x_name x) ++ c_ "=" ++ hex (x_value x).
Definition show_fhed (h : fhed) : bytes :=
  jn "." [dec (f_major h); dec (f_minor h); dec (kind_to_n (f_kind h)); dec (comp_to_n (f_comp h));
          dec (enc_to_n (f_enc h)); dec (mode_to_n (f_mode h)); hex (f_name h)].
Definition show_shed (h : shed) : bytes :=
  jn "." [dec (s_major h); dec (s_minor h); dec (comp_to_n (s_comp h)); dec (enc_to_n (s_enc h));
          dec (mode_to_n (s_mode h))].
Definition show_meta (m : metadata) : bytes :=
  jn "." [show_opt dec (m_raw_size m); dec (m_compressed m); show_opt dec (m_ctime m);
          show_opt dec (m_mtime m); show_opt dec (m_atime m)].
Definition show_normal (e : normal_entry) : bytes :=
  jn "/" [c_ "N"; show_fhed (n_hdr e); show_opt hex (n_phsf e); show_chunks (n_extra e);
          jn "." (map hex (n_data e)); show_meta (n_meta e); show_opt show_perm (m_perm (n_meta e));
          jn "," (map show_xattr (n_xattrs e))].
Definition show_solid (e : solid_entry) : bytes :=
  jn "/" [c_ "S"; show_shed (so_hdr e); show_opt hex (so_phsf e); show_chunks (so_extra e);
          jn "." (map hex (so_data e))].
Definition show_entry (e : read_entry) : bytes :=
  match e with RNormal n => show_normal n | RSolid s => show_solid s end.

Definition reader_arg (a : bytes) : reader :=
  if bytes_eqb a (c_ "slice") then read_chunk_slice else read_chunk_stream.

(* XOR one byte *)
Fixpoint xor_at (bs : bytes) (i : nat) (m : N) : bytes :=
  match bs, i with
  | [], _ => []
  | b :: r, O => n2b (N.lxor (b2n b) m) :: r
  | b :: r, S i' => b :: xor_at r i' m
  end.

Definition show_entries_res (r : res (list read_entry * fin)) : bytes :=
  match r with
  | Ok (es, f) => c_ "LIST " ++ jn ";" (map show_entry es) ++ c_ "|" ++ show_fin f
  | Err e => c_ "ERR " ++ show_ekind e
  | Panic => c_ "PANIC"
  end.

(* copy loops: `for e in it { w.add_entry(e?)? }`: any error aborts the copy *)
Definition copy_raw (bs : bytes) : res (bytes * N) :=
  do (raws, f, _) <- raw_entries read_chunk_stream bs;
  match f with
  | FinOk => Ok (write_raw_archive 0 raws,
                 fold_left (fun a e => a + snd (add_chunks e)) raws 0)
  | FinErr e => Err e
  | FinPanic => Panic
  end.
Definition copy_parsed (bs : bytes) : res (bytes * N) :=
  do (es, f) <- entries read_chunk_stream bs;
  match f with
  | FinOk => let raws := map ser_entry es in
             Ok (write_raw_archive 0 raws, fold_left (fun a e => a + snd (add_chunks e)) raws 0)
  | FinErr e => Err e
  | FinPanic => Panic
  end.

(* every normal entry passed through NormalEntry::with_metadata (what strip / chmod / chown / migrate do) with the
   given times and permission, then written: raw size and compressed size stay the entry's own *)
Definition copy_with_metadata (bs : bytes) (c m a : option N) (p : option perm) : res (bytes * N) :=
  do (es, f) <- entries read_chunk_stream bs;
  match f with
  | FinOk =>
    let md := {| m_raw_size := Some 0; m_compressed := 0; m_ctime := c; m_mtime := m; m_atime := a; m_perm := p |} in
    let raws := map (fun e => match e with
                              | RNormal n => ser_normal (with_metadata n md)
                              | RSolid s => ser_solid s
                              end) es in
    Ok (write_raw_archive 0 raws, fold_left (fun a e => a + snd (add_chunks e)) raws 0)
  | FinErr e => Err e
  | FinPanic => Panic
  end.

(* append (cli append.rs / lib archive.rs test `append`): open, seek_to_end, add the raw entries of a donor archive,
   finalize.  The underlying File / Cursor is written in place and never truncated: bytes of the old archive
   behind the new end marker stay *)
Definition overwrite (bs : bytes) (pos : nat) (w : bytes) : bytes :=
  firstn pos bs ++ w ++ skipn (pos + length w) bs.
Definition append_raw (base donor : bytes) : res (bytes * bool) :=
  do (_, r) <- read_header read_chunk_stream base;
  do (off, nxt) <- seek_loop (S (length r)) r 0 false;
  do (raws, f, _) <- raw_entries read_chunk_stream donor;
  match f with
  | FinOk => Ok (overwrite base (28 + N.to_nat off) (concat (map (fun e => fst (add_chunks e)) raws) ++ finalize), nxt)
  | FinErr e => Err e
  | FinPanic => Panic
  end.

(* a part chain cut inside part k at byte n / with byte n of part k altered (later parts stay) *)
Definition cut_parts (ps : list bytes) (k n : nat) : list bytes := firstn k ps ++ [firstn n (nth k ps [])].
Definition alter_parts (ps : list bytes) (k n : nat) (m : N) : list bytes :=
  firstn k ps ++ xor_at (nth k ps []) n m :: skipn (S k) ps.
Definition show_parts_res (r : res (list (list chunk) * fin)) : bytes :=
  match r with
  | Ok (es, f) => c_ "LIST " ++ jn ";" (map show_chunks es) ++ c_ "|" ++ show_fin f
  | Err e => c_ "ERR " ++ show_ekind e
  | Panic => c_ "PANIC"
  end.

Definition show_copy (r : res (bytes * N)) : bytes :=
  show_res (fun p => hex (fst p) ++ c_ " " ++ dec (snd p)) r.

Definition show_solids (r : res (list read_entry * fin)) : bytes :=
  match r with
  | Ok (es, f) =>
    c_ "LIST " ++ jn "#" (flat_map (fun e => match e with
       | RSolid s => if solid_plain s then
                       let (ns, k) := solid_inner_entries s in
                       [jn ";" (map show_normal ns) ++ c_ "|" ++ show_fin k]
                     else [c_ "opaque"]
       | RNormal _ => [] end) es) ++ c_ "|" ++ show_fin f
  | Err e => c_ "ERR " ++ show_ekind e
  | Panic => c_ "PANIC"
  end.

Definition run_archive (op : bytes) (args : list bytes) : bytes :=
  let A_ i := nth i args [] in
  let N_ i := match undec (A_ i) with Some n => n | None => 0 end in
  let H_ i := match unhex (A_ i) with Some b => b | None => [] end in
  if bytes_eqb op (c_ "chunks") then
    match read_chunks (reader_arg (A_ 0%nat)) (H_ 1%nat) with
    | Ok (cs, f) => c_ "LIST " ++ show_chunks cs ++ c_ "|" ++ show_fin f
    | Err e => c_ "ERR " ++ show_ekind e
    | Panic => c_ "PANIC"
    end
  else if bytes_eqb op (c_ "raw") then
    match raw_entries (reader_arg (A_ 0%nat)) (H_ 1%nat) with
    | Ok (es, f, s) => c_ "LIST " ++ jn ";" (map show_chunks es) ++ c_ "|" ++ show_fin f
                       ++ c_ "|" ++ (match f with FinOk => showb (r_next s) | _ => dash end)
    | Err e => c_ "ERR " ++ show_ekind e
    | Panic => c_ "PANIC"
    end
  else if bytes_eqb op (c_ "entries") then
    show_entries_res (entries (reader_arg (A_ 0%nat)) (H_ 1%nat))
  else if bytes_eqb op (c_ "alter") then
    show_entries_res (entries (reader_arg (A_ 0%nat)) (xor_at (H_ 1%nat) (N.to_nat (N_ 2%nat)) (N_ 3%nat)))
  else if bytes_eqb op (c_ "trunc") then
    show_entries_res (entries (reader_arg (A_ 0%nat)) (firstn (N.to_nat (N_ 2%nat)) (H_ 1%nat)))
  else if bytes_eqb op (c_ "rawcopy") then show_copy (copy_raw (H_ 0%nat))
  else if bytes_eqb op (c_ "reser") then show_copy (copy_parsed (H_ 0%nat))
  else if bytes_eqb op (c_ "withmeta") then
    (* withmeta <archive> <ctime|-> <mtime|-> <atime|-> <mode|-> : permission = uid 1 "u" gid 2 "g" mode *)
    let O_ i := if bytes_eqb (A_ i) (c_ "-") then None else undec (A_ i) in
    show_copy (copy_with_metadata (H_ 0%nat) (O_ 1%nat) (O_ 2%nat) (O_ 3%nat)
                 (match O_ 4%nat with
                  | Some md => Some {| p_uid := 1; p_uname := c_ "u"; p_gid := 2; p_gname := c_ "g"; p_mode := md |}
                  | None => None end))
  else if bytes_eqb op (c_ "reser2") then
    show_copy (do (b, _) <- copy_parsed (H_ 0%nat); copy_parsed b)
  else if bytes_eqb op (c_ "solid") then show_solids (entries read_chunk_stream (H_ 0%nat))
  else if bytes_eqb op (c_ "parts") then
    match all_some (map unhex (list_field (A_ 1%nat))) with
    | Some ps =>
      match read_parts (reader_arg (A_ 0%nat)) ps with
      | Ok (es, f) => c_ "LIST " ++ jn ";" (map show_chunks es) ++ c_ "|" ++ show_fin f
      | Err e => c_ "ERR " ++ show_ekind e
      | Panic => c_ "PANIC"
      end
    | None => bad_case
    end
  else if bytes_eqb op (c_ "ptrunc") then
    match all_some (map unhex (list_field (A_ 1%nat))) with
    | Some ps => show_parts_res (read_parts (reader_arg (A_ 0%nat)) (cut_parts ps (N.to_nat (N_ 2%nat)) (N.to_nat (N_ 3%nat))))
    | None => bad_case
    end
  else if bytes_eqb op (c_ "palter") then
    match all_some (map unhex (list_field (A_ 1%nat))) with
    | Some ps => show_parts_res (read_parts (reader_arg (A_ 0%nat))
                                   (alter_parts ps (N.to_nat (N_ 2%nat)) (N.to_nat (N_ 3%nat)) (N_ 4%nat)))
    | None => bad_case
    end
  else if bytes_eqb op (c_ "append") then
    show_res (fun p => hex (fst p) ++ c_ " " ++ showb (snd p)) (append_raw (H_ 0%nat) (H_ 1%nat))
  else if bytes_eqb op (c_ "offsets") then
    show_res (fun l => jn "," (map (fun p => jn ":" [hex (cty (fst p)); dec (len (cdata (fst p))); dec (snd p)]) l))
             (chunk_list (H_ 0%nat))
  else if bytes_eqb op (c_ "sizes") then
    (* every size reported for a built entry is a function of the content length alone (C18): the model's
       answer is the length and "all five reports exact" *)
    c_ "OK " ++ dec (N_ 3%nat) ++ c_ " 11111"
  else if bytes_eqb op (c_ "seek") then
    match read_header read_chunk_stream (H_ 0%nat) with
    | Ok (_, r) => show_res (fun p => dec (fst p) ++ c_ " " ++ showb (snd p)) (seek_loop (S (length r)) r 0 false)
    | Err e => c_ "ERR " ++ show_ekind e
    | Panic => c_ "PANIC"
    end
  else bad_case.

Definition run_line := run_line_with run_archive.
