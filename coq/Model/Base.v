(* Base.v — bytes, big-endian integers, outcomes, and the text protocol
   (hex / decimal / tab-separated fields) shared by every model area.
   Definitions only; facts are in Proofs/BaseFacts.v. *)
From Coq Require Export List NArith Bool Lia.
Require Export Coq.Strings.Byte.
Require Coq.Strings.String Coq.Strings.Ascii.
Export Coq.Strings.String.StringSyntax.
Delimit Scope string_scope with string.
Export ListNotations.
Open Scope N_scope.

Arguments N.add : simpl never.
Arguments N.sub : simpl never.
Arguments N.mul : simpl never.
Arguments N.div : simpl never.
Arguments N.modulo : simpl never.
Arguments N.eqb : simpl never.
Arguments N.ltb : simpl never.
Arguments N.leb : simpl never.
Arguments N.pow : simpl never.

Definition bytes := list byte.

(* ---- bytes <-> numbers ------------------------------------------------ *)
Definition b2n (b : byte) : N := Byte.to_N b.
Definition n2b (n : N) : byte :=
  match Byte.of_N (n mod 256) with Some b => b | None => x00 end.

Definition byte_eqb (a b : byte) : bool := N.eqb (b2n a) (b2n b).

Fixpoint bytes_eqb (a b : bytes) : bool :=
  match a, b with
  | [], [] => true
  | x :: a', y :: b' => byte_eqb x y && bytes_eqb a' b'
  | _, _ => false
  end.

Definition len {A} (l : list A) : N := N.of_nat (length l).

(* big-endian, fixed width (Rust: uNN::to_be_bytes) *)
Fixpoint be (w : nat) (n : N) : bytes :=
  match w with
  | O => []
  | S w' => n2b (n / 256 ^ N.of_nat w') :: be w' n
  end.
Definition be16 := be 2.
Definition be32 := be 4.
Definition be64 := be 8.
Definition be128 := be 16.

(* Rust: uNN::from_be_bytes on a slice of the right size *)
Definition of_be (l : bytes) : N := fold_left (fun a b => a * 256 + b2n b) l 0.

Fixpoint drop_zeros (l : bytes) : bytes :=   (* util::slice::skip_while(.., |i| *i == 0) *)
  match l with
  | b :: l' => if N.eqb (b2n b) 0 then drop_zeros l' else l
  | [] => []
  end.

Definition lastn {A} (n : nat) (l : list A) : list A := skipn (length l - n) l.

(* ---- outcomes ---------------------------------------------------------- *)
Inductive ekind :=
  | UnexpectedEof | InvalidData | InvalidInput | Unsupported
  | AlreadyExists | NotFound | OtherErr.

Inductive res (A : Type) :=
  | Ok (a : A)
  | Err (e : ekind)
  | Panic.
Arguments Ok {A} a.
Arguments Err {A} e.
Arguments Panic {A}.

Definition bind {A B} (r : res A) (f : A -> res B) : res B :=
  match r with Ok a => f a | Err e => Err e | Panic => Panic end.
Notation "'do' x <- r ; k" := (bind r (fun x => k))
  (at level 200, x pattern, r at level 100, k at level 200, right associativity).

Definition is_ok {A} (r : res A) : bool := match r with Ok _ => true | _ => false end.
Definition is_panic {A} (r : res A) : bool := match r with Panic => true | _ => false end.

(* ---- UTF-8 validity (Rust: str::from_utf8 / String::from_utf8) ---------- *)
(* The standard well-formedness table (Unicode 15, table 3-7). *)
Definition in_range (lo hi : N) (b : byte) : bool := N.leb lo (b2n b) && N.leb (b2n b) hi.
Fixpoint utf8_valid_fuel (fuel : nat) (l : bytes) : bool :=
  match fuel with
  | O => match l with [] => true | _ => false end
  | S f =>
    match l with
    | [] => true
    | a :: r =>
      let x := b2n a in
      if N.leb x 0x7F then utf8_valid_fuel f r
      else if in_range 0xC2 0xDF a then
        match r with b :: r' => in_range 0x80 0xBF b && utf8_valid_fuel f r' | _ => false end
      else if N.eqb x 0xE0 then
        match r with b :: c :: r' => in_range 0xA0 0xBF b && in_range 0x80 0xBF c && utf8_valid_fuel f r' | _ => false end
      else if in_range 0xE1 0xEC a || in_range 0xEE 0xEF a then
        match r with b :: c :: r' => in_range 0x80 0xBF b && in_range 0x80 0xBF c && utf8_valid_fuel f r' | _ => false end
      else if N.eqb x 0xED then
        match r with b :: c :: r' => in_range 0x80 0x9F b && in_range 0x80 0xBF c && utf8_valid_fuel f r' | _ => false end
      else if N.eqb x 0xF0 then
        match r with b :: c :: d :: r' => in_range 0x90 0xBF b && in_range 0x80 0xBF c && in_range 0x80 0xBF d && utf8_valid_fuel f r' | _ => false end
      else if in_range 0xF1 0xF3 a then
        match r with b :: c :: d :: r' => in_range 0x80 0xBF b && in_range 0x80 0xBF c && in_range 0x80 0xBF d && utf8_valid_fuel f r' | _ => false end
      else if N.eqb x 0xF4 then
        match r with b :: c :: d :: r' => in_range 0x80 0x8F b && in_range 0x80 0xBF c && in_range 0x80 0xBF d && utf8_valid_fuel f r' | _ => false end
      else false
    end
  end.
Definition utf8_valid (l : bytes) : bool := utf8_valid_fuel (S (length l)) l.

(* ---- text protocol ------------------------------------------------------ *)
Definition lit (s : String.string) : bytes := String.list_byte_of_string s.
Arguments lit s%string.
Definition show (l : bytes) : String.string := String.string_of_list_byte l.

Definition hexdigit (n : N) : byte :=
  if N.ltb n 10 then n2b (48 + n) else n2b (87 + n).      (* 0-9 a-f *)
Fixpoint hex (l : bytes) : bytes :=
  match l with
  | [] => []
  | b :: l' => hexdigit (b2n b / 16) :: hexdigit (b2n b mod 16) :: hex l'
  end.
Definition unhexdigit (b : byte) : option N :=
  let x := b2n b in
  if N.leb 48 x && N.leb x 57 then Some (x - 48)
  else if N.leb 97 x && N.leb x 102 then Some (x - 87)
  else if N.leb 65 x && N.leb x 70 then Some (x - 55)
  else None.
Fixpoint unhex (l : bytes) : option bytes :=
  match l with
  | [] => Some []
  | a :: b :: l' =>
    match unhexdigit a, unhexdigit b, unhex l' with
    | Some x, Some y, Some r => Some (n2b (x * 16 + y) :: r)
    | _, _, _ => None
    end
  | _ => None
  end.

(* decimal *)
Definition undec (l : bytes) : option N :=
  match l with
  | [] => None
  | _ => fold_left (fun acc b =>
           match acc with
           | None => None
           | Some a => let x := b2n b in
                       if N.leb 48 x && N.leb x 57 then Some (a * 10 + (x - 48)) else None
           end) l (Some 0)
  end.
Fixpoint dec_fuel (fuel : nat) (n : N) (acc : bytes) : bytes :=
  match fuel with
  | O => acc
  | S f => let acc' := n2b (48 + n mod 10) :: acc in
           if N.ltb n 10 then acc' else dec_fuel f (n / 10) acc'
  end.
Definition dec (n : N) : bytes := dec_fuel (S (N.to_nat (N.log2 n))) n [].

(* split at a separator byte *)
Fixpoint split_on (sep : byte) (l : bytes) (cur : bytes) : list bytes :=
  match l with
  | [] => [rev cur]
  | b :: l' => if byte_eqb b sep then rev cur :: split_on sep l' [] else split_on sep l' (b :: cur)
  end.
Definition fields (sep : byte) (l : bytes) : list bytes := split_on sep l [].
Definition comma : byte := x2c.
Definition list_field (l : bytes) : list bytes :=   (* "" = empty list *)
  match l with [] => [] | _ => fields comma l end.

Fixpoint join (sep : bytes) (ls : list bytes) : bytes :=
  match ls with
  | [] => []
  | [x] => x
  | x :: r => x ++ sep ++ join sep r
  end.

Fixpoint all_some {A} (l : list (option A)) : option (list A) :=
  match l with
  | [] => Some []
  | Some x :: r => match all_some r with Some r' => Some (x :: r') | None => None end
  | None :: _ => None
  end.

Definition show_ekind (e : ekind) : bytes :=
  match e with
  | UnexpectedEof => lit "UnexpectedEof" | InvalidData => lit "InvalidData"
  | InvalidInput => lit "InvalidInput" | Unsupported => lit "Unsupported"
  | AlreadyExists => lit "AlreadyExists" | NotFound => lit "NotFound" | OtherErr => lit "Other"
  end.

Definition show_res {A} (f : A -> bytes) (r : res A) : bytes :=
  match r with
  | Ok a => lit "OK " ++ f a
  | Err e => lit "ERR " ++ show_ekind e
  | Panic => lit "PANIC"
  end.

Definition bad_case : bytes := lit "BADCASE".
