(* Ctr.v — lib/src/cipher/stream/{write,read}.rs with T = CtrCore<C, Ctr128BE> (ctr 0.9.2):
   keystream block i = E_k(be128((iv + i) mod 2^128)) (u128 wrapping_add, to_be_bytes), applied position-wise by xor; the
   StreamCipherCoreWrapper keeps the position across calls, so any partition of the data
   into write / read calls sees the same keystream.  Definitions only. *)
From PNA Require Import Base Flatten Cbc.

(* u128::to_be_bytes by shifts (= Base.be128, StreamFacts.be128s_eq; the divisions of `be` are
   too slow for one counter block per keystream byte) *)
Definition be128s (x : N) : bytes :=
  map (fun j => n2b (N.land (N.shiftr x (8 * j)) 255)) [15; 14; 13; 12; 11; 10; 9; 8; 7; 6; 5; 4; 3; 2; 1; 0].

Section CTR.
Variable E : bytes -> bytes -> bytes.

Definition ks_block (k : bytes) (iv : N) (i : N) : bytes := E k (be128s (N.land (iv + i) (2 ^ 128 - 1))).
Definition ks_byte (k : bytes) (iv : N) (p : N) : byte :=
  nth (N.to_nat (p mod 16)) (ks_block k iv (p / 16)) x00.
(* apply_keystream on data that starts at stream position p *)
Fixpoint ctr_xor (k : bytes) (iv : N) (p : N) (d : bytes) : bytes :=
  match d with
  | [] => []
  | b :: r => xorb b (ks_byte k iv p) :: ctr_xor k iv (p + 1) r
  end.

(* ---- writer: write(buf) = { let mut b = buf.to_vec(); apply_keystream(&mut b); self.w.write(&b) } *)
Record ctrw := { cw_key : bytes; cw_iv : N; cw_pos : N }.
(* new_from_slices(key, iv).map_err(InvalidData) *)
Definition ctrw_new (key iv : bytes) : res ctrw :=
  if key_iv_ok key iv then Ok {| cw_key := key; cw_iv := of_be iv; cw_pos := 0 |} else Err InvalidData.
(* one inner write per call (also for an empty buf); the count is what the inner writer
   returned, which for the sinks of this crate is the whole length *)
Definition ctrw_write (s : ctrw) (d : bytes) : ctrw * list bytes * N :=
  ({| cw_key := cw_key s; cw_iv := cw_iv s; cw_pos := cw_pos s + len d |},
   [ctr_xor (cw_key s) (cw_iv s) (cw_pos s) d], len d).
Fixpoint ctrw_writes (s : ctrw) (ws : list bytes) : ctrw * list (N * list bytes) :=
  match ws with
  | [] => (s, [])
  | d :: r => let '(s1, outs, c) := ctrw_write s d in
              let (s2, rest) := ctrw_writes s1 r in (s2, (c, outs) :: rest)
  end.

(* ---- reader: read(buf) = { let n = self.r.read(buf)?; apply_keystream(&mut buf[..n]); Ok(n) } *)
Record ctrr := { cr_key : bytes; cr_iv : N; cr_pos : N; cr_src : list bytes }.
Definition ctrr_new (key iv : bytes) (src : list bytes) : res ctrr :=
  if key_iv_ok key iv then Ok {| cr_key := key; cr_iv := of_be iv; cr_pos := 0; cr_src := src |}
  else Err InvalidData.
Definition ctrr_read (s : ctrr) (n : N) : ctrr * bytes :=
  let (src', got) := flat_read (cr_src s) n in
  ({| cr_key := cr_key s; cr_iv := cr_iv s; cr_pos := cr_pos s + len got; cr_src := src' |},
   ctr_xor (cr_key s) (cr_iv s) (cr_pos s) got).

End CTR.
