(* ClicodecRun.v — case interpreter of the clicodec area: one TSV case -> canonical outcome.
   The output formats mirror harness/src/bin/clicodec.rs. *)
From PNA Require Import Base Crc32 CodecRun CliCodec.
Open Scope N_scope.

Definition owner_arg (kind : N) (name : bytes) : owner :=
  if N.eqb kind 0 then Owner else if N.eqb kind 1 then User name else if N.eqb kind 2 then OwnerGroup
  else if N.eqb kind 3 then Group name else if N.eqb kind 4 then Mask else Other.
Definition owner_kind_n (o : owner) : N :=
  match o with Owner => 0 | User _ => 1 | OwnerGroup => 2 | Group _ => 3 | Mask => 4 | Other => 5 end.
Definition platform_arg (pk : N) (name : bytes) : option platform :=
  if N.eqb pk 0 then None else if N.eqb pk 1 then Some General else if N.eqb pk 2 then Some Windows
  else if N.eqb pk 3 then Some MacOs else if N.eqb pk 4 then Some Linux else if N.eqb pk 5 then Some FreeBSD
  else Some (Unknown name).
Definition show_platform (p : option platform) : bytes :=
  match p with
  | None => lit "0 " | Some General => lit "1 " | Some Windows => lit "2 " | Some MacOs => lit "3 "
  | Some Linux => lit "4 " | Some FreeBSD => lit "5 " | Some (Unknown s) => lit "6 " ++ hex s
  end.
Definition show_ace (a : ace) : bytes :=
  cat [dec (a_flags a); dec (owner_kind_n (a_owner a)); hex (owner_name (a_owner a));
       showb (a_allow a); dec (a_perm a)].
Definition mk_ace (flags kind : N) (name : bytes) (allow perm : N) : ace :=
  {| a_flags := flags; a_owner := owner_arg kind name; a_allow := negb (N.eqb allow 0); a_perm := perm |}.

Fixpoint seqN (start : N) (count : nat) : list N :=
  match count with O => [] | S c => start :: seqN (start + 1) c end.

(* 1024 permission sets: how many decode back, CRC-32 of the texts (each + LF) *)
Definition ace_sweep (kind : N) (name : bytes) (allow flags permhi : N) : bytes :=
  let aces := map (fun lo => mk_ace flags kind name allow (permhi * 1024 + lo)) (seqN 0 1024) in
  let texts := map ace_to_string aces in
  let good := filter (fun a => match ace_of_string (ace_to_string a) with
                               | Ok a' => bytes_eqb (show_ace a') (show_ace a)
                               | _ => false
                               end) aces in
  lit "OK " ++ cat [dec (len good); dec (crc32 (concat (map (fun t => t ++ [x0a]) texts)))].

Definition show_opt (o : option bytes) : bytes :=
  match o with Some q => lit "OK " ++ hex q | None => lit "NONE" end.

Definition show_mode (md : mode) : bytes :=
  match md with
  | MNum n => cat [lit "0"; lit "0"; dec n]
  | MEqual t m => cat [lit "1"; dec t; dec m]
  | MPlus t m => cat [lit "2"; dec t; dec m]
  | MMinus t m => cat [lit "3"; dec t; dec m]
  end.
Definition mode_arg (form t v : N) : mode :=
  if N.eqb form 0 then MNum v else if N.eqb form 1 then MEqual t v
  else if N.eqb form 2 then MPlus t v else MMinus t v.

Definition run_clicodec (op : bytes) (args : list bytes) : bytes :=
  let N_ i := match undec (nth i args []) with Some n => n | None => 0 end in
  let H_ i := match unhex (nth i args []) with Some b => b | None => [] end in
  if bytes_eqb op (lit "ace_enc") then
    lit "OK " ++ hex (ace_to_string (mk_ace (N_ 0%nat) (N_ 1%nat) (H_ 2%nat) (N_ 3%nat) (N_ 4%nat)))
  else if bytes_eqb op (lit "ace_dec") then show_res show_ace (ace_of_string (H_ 0%nat))
  else if bytes_eqb op (lit "awp_enc") then
    lit "OK " ++ hex (awp_to_string (platform_arg (N_ 0%nat) (H_ 1%nat),
                                     mk_ace (N_ 2%nat) (N_ 3%nat) (H_ 4%nat) (N_ 5%nat) (N_ 6%nat)))
  else if bytes_eqb op (lit "awp_dec") then
    show_res (fun pa => show_platform (fst pa) ++ sp ++ show_ace (snd pa)) (awp_of_string (H_ 0%nat))
  else if bytes_eqb op (lit "plat_enc") then
    lit "OK " ++ hex (platform_to_string (match platform_arg (N_ 0%nat) (H_ 1%nat) with Some p => p | None => General end))
  else if bytes_eqb op (lit "plat_dec") then
    lit "OK " ++ show_platform (Some (platform_of_string (H_ 0%nat)))
  else if bytes_eqb op (lit "ace_sweep") then
    ace_sweep (N_ 0%nat) (H_ 1%nat) (N_ 2%nat) (N_ 3%nat) (N_ 4%nat)
  else if bytes_eqb op (lit "xv_parse") then show_res hex (value_of_string (H_ 0%nat))
  else if bytes_eqb op (lit "xv_hex") then lit "OK " ++ hex (display_hex (H_ 0%nat))
  else if bytes_eqb op (lit "xv_b64") then lit "OK " ++ hex (display_base64 (H_ 0%nat))
  else if bytes_eqb op (lit "xv_auto") then lit "OK " ++ hex (display_auto (H_ 0%nat))
  else if bytes_eqb op (lit "xv_text") then show_res hex (display_text (H_ 0%nat))
  else if bytes_eqb op (lit "part_with") then show_opt (with_part (H_ 0%nat) (N_ 1%nat))
  else if bytes_eqb op (lit "part_remove") then show_opt (remove_part (H_ 0%nat))
  else if bytes_eqb op (lit "part_laws") then
    let p := H_ 0%nat in
    match with_part p (N_ 1%nat), with_part p (N_ 2%nat), remove_part p with
    | Some w, Some wm, Some _ =>
      match remove_part w, with_part w (N_ 2%nat) with
      | Some back, Some ww => lit "OK " ++ cat [hex w; hex back; hex ww; hex wm]
      | _, _ => lit "NONE"
      end
    | _, _, _ => lit "NONE"
    end
  else if bytes_eqb op (lit "mode_parse") then show_res show_mode (mode_of_string (H_ 0%nat))
  else if bytes_eqb op (lit "mode_apply") then
    show_res dec (do md <- mode_of_string (H_ 0%nat); Ok (mode_apply md (N_ 1%nat)))
  else if bytes_eqb op (lit "mode_canon") then
    let text := mode_to_string (mode_arg (N_ 0%nat) (N_ 1%nat) (N_ 2%nat)) in
    show_res (fun md => hex text ++ sp ++ show_mode md) (mode_of_string text)
  else bad_case.

Definition run_line := run_line_with run_clicodec.
