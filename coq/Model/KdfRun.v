(* KdfRun.v — case interpreter of the kdf area (C16, C08): the key-derivation plumbing with the
   executable stand-ins of Kdf.v (the KDF is the free term of its inputs).
   ops:  writer <mode> <kdfspec> <pwhex> <tapehex> [..]     -> "OK <phsf-hex> <iv-hex> <keyterm-hex>" | "ERR <kind>"
         multi <kind> <enc> <mode> <kdfspec> <pwhex> <nfiles> <tapehex> [..]
                                                             -> "OK <phsf-hex>:<iv-hex>,.." | "ERR <kind>"
         read <enc> <mode> <phsfhex|-> <pwwrite-hex> <pwread-hex|-> <streamlen> [..]
                                                             -> "ERR <kind>" | "OPENED same" | "OPENED other"
         pair <writer> <comp> <enc> <mode> <kdfspec> <pwwrite-hex> <pwread-hex|->
                                                             -> "SAME" | "OTHER" | "ERR <kind>" (reader) | "WERR <kind>" (writer)
         key <phsfhex> <pwhex>                               -> "OK <keyterm-hex>" | "ERR <kind>"
   kdfspec = pbkdf2.<rounds|-> | argon2.<t|->.<m|->.<p|->   ("-" = the crate default)
   Output formats mirror harness/src/bin/kdf.rs. *)
From PNA Require Import Base Codec CodecRun Kdf.

Definition optn (a : bytes) : option N := undec a.      (* "-" -> None *)
Definition kdfspec (a : bytes) : option hash_alg :=
  match fields x2e a with
  | [k; r] => if bytes_eqb k (lit "pbkdf2") then Some (Pbkdf2Sha256 (optn r)) else None
  | [k; t; m; p] => if bytes_eqb k (lit "argon2") then Some (Argon2Id (optn t) (optn m) (optn p)) else None
  | _ => None
  end.
Definition opt_hex (a : bytes) : option bytes :=
  if bytes_eqb a (lit "-") then None else unhex a.

Definition run_kdf (op : bytes) (args : list bytes) : bytes :=
  let A_ i := nth i args [] in
  let N_ i := match undec (A_ i) with Some n => n | None => 0 end in
  let H_ i := match unhex (A_ i) with Some b => b | None => [] end in
  if bytes_eqb op (lit "writer") then
    match kdfspec (A_ 1%nat) with
    | Some h =>
      show_res (fun r => cat [hex (ctx_phsf (fst r)); hex (ctx_iv (fst r)); hex (ctx_key (fst r))])
               (writer_context_x (mode_arg (N_ 0%nat)) h (H_ 2%nat) (H_ 3%nat))
    | None => bad_case
    end
  else if bytes_eqb op (lit "multi") then
    match kdfspec (A_ 3%nat) with
    | Some h =>
      show_res (fun r => join [comma] (map (fun c => hex (ctx_phsf c) ++ lit ":" ++ hex (ctx_iv c)) (fst r)))
               (write_all_x (if bytes_eqb (A_ 0%nat) (lit "solid") then SolidStream else PerEntry)
                            (enc_arg (N_ 1%nat)) (mode_arg (N_ 2%nat)) h (H_ 4%nat) (N.to_nat (N.min (N_ 5%nat) 64)) (H_ 6%nat))
    | None => bad_case
    end
  else if bytes_eqb op (lit "read") then
    let enc := enc_arg (N_ 0%nat) in
    let phsf := opt_hex (A_ 2%nat) in
    let pww := H_ 3%nat in
    let pwr := opt_hex (A_ 4%nat) in
    let stream := repeat x00 (N.to_nat (N.min (N_ 5%nat) 64)) in
    match decode_open_x enc (mode_arg (N_ 1%nat)) phsf pwr stream with
    | Err e => lit "ERR " ++ show_ekind e
    | Panic => lit "PANIC"
    | Ok (None, _) => lit "OPENED same"
    | Ok (Some (k, _), _) =>
      match phsf with
      | Some s =>
        match reader_key_x s pww with
        | Ok k' => if bytes_eqb k k' then lit "OPENED same" else lit "OPENED other"
        | _ => lit "OPENED other"
        end
      | None => lit "OPENED other"
      end
    end
  else if bytes_eqb op (lit "pair") then
    (* pair <writer> <comp> <enc> <mode> <kdfspec> <pwwrite-hex> <pwread-hex|->: library writer, then library reader *)
    match kdfspec (A_ 4%nat) with
    | Some h =>
      match enc_arg (N_ 2%nat) with
      | ENo => lit "SAME"
      | enc =>
        match writer_context_x (mode_arg (N_ 3%nat)) h (H_ 5%nat) (repeat x00 32) with
        | Ok (c, _) =>
          match decode_guard_x enc (Some (ctx_phsf c)) (opt_hex (A_ 6%nat)) with
          | Ok (Some k) => if bytes_eqb k (ctx_key c) then lit "SAME" else lit "OTHER"
          | Ok None => lit "SAME"
          | Err e => lit "ERR " ++ show_ekind e
          | Panic => lit "PANIC"
          end
        | Err e => lit "WERR " ++ show_ekind e
        | Panic => lit "PANIC"
        end
      end
    | None => bad_case
    end
  else if bytes_eqb op (lit "key") then show_res hex (reader_key_x (H_ 0%nat) (H_ 1%nat))
  else bad_case.

Definition run_line := run_line_with run_kdf.
