(* Sinks.v — what a writer of this crate answers to ONE write call (the returned count next to what it
   hands on), and the two cipher writers over a sink that may accept only part of a buffer.

   mirrors: lib/src/chunk/write.rs ChunkStreamWriter::write (`... write_chunk of every piece ...; Ok(buf.len())`),
   lib/src/io.rs FlattenWriter::write (`for b in buf.chunks(N) { push }; Ok(buf.len())`),
   lib/src/cipher/stream/write.rs StreamCipherWriter::write
       { let mut buf = buf.to_vec(); self.cipher.apply_keystream(&mut buf); self.w.write(&buf) }
   — the keystream position advances by the WHOLE buffer, the returned count is the sink's —,
   lib/src/cipher/block/write.rs encrypt_write_block (`self.w.write_all(out_block)`), and std's
   Write::write_all (re-submit `&buf[n..]` until empty; Ok(0) on a non-empty buffer is ErrorKind::WriteZero,
   which the text protocol of the harness prints as "Other": OtherErr here).

   Ctr.ctrw_write says "the count is what the inner writer returned, which for the sinks of this crate is the
   whole length" in a comment.  Here that is a definition (chunk_sink_call / flat_sink_call return len d), a
   theorem (Proofs/CtrSinkFacts.v: over a sink that takes whole writes ctrw_write_sink IS Ctr.ctrw_write, and
   the sinks' emitted pieces carry exactly the bytes they count) and a tested fact (stream area, op `csw`:
   count and emitted bytes of every ChunkStreamWriter::write call through a cfg(pna_verif) hook).
   Definitions only. *)
From PNA Require Import Base Crc32 Codec Chunk Flatten Cbc Ctr Pipeline.

(* ---- the sinks of this crate, one write call: (returned count, payloads handed on) -------------------- *)
(* ChunkStreamWriter::write(buf): one chunk per piece (an empty write: one empty chunk), then Ok(buf.len()) *)
Definition chunk_sink_call (cmax : N) (d : bytes) : N * list bytes := (len d, sink_write cmax d).
(* the same call seen from below: the bytes that reach the writer under the ChunkStreamWriter of chunk type ty
   (ChunkExt::write_chunk_in of every piece: length, type, payload, CRC-32 of type and payload) *)
Definition chunk_call_bytes (ty : bytes) (cmax : N) (d : bytes) : N * bytes :=
  let (c, ps) := chunk_sink_call cmax d in (c, ser_chunks (map (mk ty) ps)).
Definition chunk_stream_calls (ty : bytes) (cmax : N) (ws : list bytes) : list (N * bytes) :=
  map (chunk_call_bytes ty cmax) ws.
(* FlattenWriter<N>::write(buf): push buf.chunks(N), then Ok(buf.len()) *)
Definition flat_sink_call (cmax : N) (d : bytes) : N * list bytes := (len d, pieces cmax d).

(* ---- a sink that may take only part of a write ----------------------------------------------------------
   take n = the count the sink returns for a buffer of n bytes; a count above n is outside Write's contract
   and is cut.  take_whole: every sink of this crate.  take_cap c: at most c bytes per call (any legal short
   write, e.g. seeded/C16-7's ChunkStreamWriter with c = 65536). *)
Definition accept (take : N -> N) (n : N) : N := N.min (take n) n.
Definition take_whole : N -> N := fun n => n.
Definition take_cap (c : N) : N -> N := fun n => N.min c n.

(* std Write::write_all on such a sink: the pieces that reach it, in order *)
Fixpoint sink_write_all (take : N -> N) (fuel : nat) (b : bytes) : res (list bytes) :=
  match b with
  | [] => Ok []                                            (* while !buf.is_empty() *)
  | _ =>
    match fuel with
    | O => Panic                                           (* unreachable with fuel = length b *)
    | S f =>
      let t := accept take (len b) in
      if N.eqb t 0 then Err OtherErr                       (* Ok(0) => WriteZero *)
      else do rest <- sink_write_all take f (skipn (N.to_nat t) b); Ok (firstn (N.to_nat t) b :: rest)
    end
  end.

(* ---- StreamCipherWriter over such a sink ----------------------------------------------------------------- *)
Section CTRS.
Variable E : bytes -> bytes -> bytes.
Variable take : N -> N.

(* write(d): the whole of d goes through the keystream (the position advances by len d), the sink takes the
   first t bytes of the result, t is returned: (state, what reached the sink, count) *)
Definition ctrw_write_sink (s : ctrw) (d : bytes) : ctrw * bytes * N :=
  let t := accept take (len d) in
  ({| cw_key := cw_key s; cw_iv := cw_iv s; cw_pos := cw_pos s + len d |},
   firstn (N.to_nat t) (ctr_xor E (cw_key s) (cw_iv s) (cw_pos s) d), t).

(* write_all(d) of the caller (the compressor, write_chunk_in, io::copy, the user): the inner writes in order *)
Fixpoint ctrw_write_all (fuel : nat) (s : ctrw) (d : bytes) : res (ctrw * list bytes) :=
  match d with
  | [] => Ok (s, [])
  | _ =>
    match fuel with
    | O => Panic
    | S f =>
      let '(s1, out, t) := ctrw_write_sink s d in
      if N.eqb t 0 then Err OtherErr
      else do (s2, outs) <- ctrw_write_all f s1 (skipn (N.to_nat t) d); Ok (s2, out :: outs)
    end
  end.

(* a caller that hands over each of ws with write_all *)
Fixpoint ctrw_write_alls (s : ctrw) (ws : list bytes) : res (ctrw * list bytes) :=
  match ws with
  | [] => Ok (s, [])
  | d :: r => do (s1, o1) <- ctrw_write_all (length d) s d;
              do (s2, o2) <- ctrw_write_alls s1 r; Ok (s2, o1 ++ o2)
  end.
End CTRS.

(* ---- CbcBlockCipherEncryptWriter over such a sink ---------------------------------------------------------
   every block leaves through `self.w.write_all(block)`: the pieces that reach the sink; an error of a
   write_all is the error of the write / finish call (`?`) *)
Section CBCS.
Variable E : bytes -> bytes -> bytes.
Variable take : N -> N.

Fixpoint deliver_all (outs : list bytes) : res (list bytes) :=
  match outs with
  | [] => Ok []
  | b :: r => do p <- sink_write_all take (length b) b; do q <- deliver_all r; Ok (p ++ q)
  end.
Definition cbcw_write_sink (s : cbcw) (d : bytes) : res (cbcw * list bytes * N) :=
  let '(s1, outs, c) := cbcw_write E s d in do p <- deliver_all outs; Ok (s1, p, c).
Definition cbcw_finish_sink (s : cbcw) : res (list bytes) := deliver_all (cbcw_finish E s).
(* a sequence of write calls (the CBC writer returns len d for every d: the caller's write_all is one call) *)
Fixpoint cbcw_writes_sink (s : cbcw) (ws : list bytes) : res (cbcw * list bytes) :=
  match ws with
  | [] => Ok (s, [])
  | d :: r => do (s1, p, _) <- cbcw_write_sink s d; do (s2, q) <- cbcw_writes_sink s1 r; Ok (s2, p ++ q)
  end.
End CBCS.

(* ---- StreamCipherWriter<ChunkStreamWriter<W>>: the caller write_all's each of ws; the payloads of the chunks
   that leave the chunk sink (the chunk sink takes whole writes: take_whole) *)
Definition ctr_over_chunk_sink (E : bytes -> bytes -> bytes) (cmax : N) (s : ctrw) (ws : list bytes) : res (ctrw * list bytes) :=
  do (s', outs) <- ctrw_write_alls E take_whole s ws; Ok (s', chunk_sink_at cmax outs).
