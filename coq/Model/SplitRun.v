(* SplitRun.v — case interpreter of the split area (C04).  Formats mirror harness/src/bin/split.rs.
     chunk      = TYPE:hex            TYPE = the 4 type bytes verbatim (the generator only uses
                                      ASCII letters), hex = payload, possibly empty
     chunk list = chunk,chunk,...     ("" = no chunk)
     split  max chunks            ->  OK first|rest        rest = "-" when split returned None
     write_split max e;e;... [pw] ->  OK file;file;...     each entry e and each file a chunk list
                                      (file = AHED, entry chunks, [ANXT,] AEND); ERR InvalidInput;
                                      PANIC; TIMEOUT (fuel exhausted).  The third argument (password
                                      of generated archives, for the harness's decode oracle) is ignored.
     merge  chunks                ->  OK chunks            (the oracle's normal form)
     read_parts file;file;...     ->  OK e;e;...           raw entries found by the reader chain over the
                                      part files (each file a chunk list starting with AHED); ERR kind *)
From PNA Require Import Base CodecRun Split.
Open Scope N_scope.

Definition colon : byte := x3a.
Definition semi : byte := x3b.
Definition bar : byte := x7c.

Definition parse_chunk (b : bytes) : option chunk :=
  match b with
  | t0 :: t1 :: t2 :: t3 :: c :: h =>
    if byte_eqb c colon then
      match unhex h with Some d => Some ([t0; t1; t2; t3], d) | None => None end
    else None
  | _ => None
  end.
Definition parse_chunks (b : bytes) : option (list chunk) :=
  all_some (map parse_chunk (list_field b)).
Definition parse_entries (b : bytes) : option (list part) :=
  match b with
  | [] => Some []
  | _ => all_some (map parse_chunks (fields semi b))
  end.

Definition show_chunk (c : chunk) : bytes := fst c ++ [colon] ++ hex (snd c).
Definition show_chunks (p : list chunk) : bytes := join [comma] (map show_chunk p).
Definition show_files (fs : list pfile) : bytes := join [semi] (map show_chunks fs).

Definition run_split (op : bytes) (args : list bytes) : bytes :=
  let N_ i := match undec (nth i args []) with Some n => n | None => 0 end in
  if bytes_eqb op (lit "split") then
    match parse_chunks (nth 1%nat args []) with
    | Some p =>
      match split (N_ 0%nat) p with
      | (f, Some r) => lit "OK " ++ show_chunks f ++ [bar] ++ show_chunks r
      | (f, None) => lit "OK " ++ show_chunks f ++ [bar] ++ lit "-"
      end
    | None => bad_case
    end
  else if bytes_eqb op (lit "write_split") then
    match parse_entries (nth 1%nat args []) with
    | Some es =>
      match write_split_fuel (entries_fuel es) (N_ 0%nat) es with
      | Fin r => show_res show_files r
      | OutOfFuel => lit "TIMEOUT"
      end
    | None => bad_case
    end
  else if bytes_eqb op (lit "read_parts") then
    match parse_entries (nth 0%nat args []) with
    | Some fs => show_res show_files (read_parts fs)
    | None => bad_case
    end
  else if bytes_eqb op (lit "merge") then
    match parse_chunks (nth 0%nat args []) with
    | Some p => lit "OK " ++ show_chunks (merge p)
    | None => bad_case
    end
  else bad_case.

Definition run_line := run_line_with run_split.
