(* Fs.v — an abstract POSIX-like file system, as far as the std::fs calls of the CLI's
   extract path observe it (cli/src/command/extract.rs, utils/fs.rs):
     Path::exists / is_dir / is_symlink / symlink_metadata, fs::create_dir_all, File::create,
     os::unix::fs::symlink, fs::hard_link, fs::remove_file, utils::fs::remove, fs::set_permissions,
     xattr::set (lsetxattr).
   Names are a finite map from *canonical* absolute paths (lists of components) to directory
   entries; regular files live in an inode table so that hard links alias.  Every operation takes
   a literal path and resolves it the way the kernel does: symbolic links in every directory
   component are followed (`..` and `.` inside link targets are physical), the last component is
   followed or not depending on the call.  Resolution is fuelled; running out of fuel is ELOOP.
   Operations return the new state and a success flag (a failed call may leave partial effects:
   create_dir_all keeps the directories it made before failing).  Definitions only. *)
From PNA Require Import Base Name.

Definition path := list bytes.

Fixpoint path_eqb (a b : path) : bool :=
  match a, b with
  | [], [] => true
  | x :: a', y :: b' => bytes_eqb x y && path_eqb a' b'
  | _, _ => false
  end.

(* is_prefix a b : a is a (not necessarily proper) prefix of b *)
Fixpoint is_prefix (a b : path) : bool :=
  match a, b with
  | [], _ => true
  | x :: a', y :: b' => bytes_eqb x y && is_prefix a' b'
  | _ :: _, [] => false
  end.

Inductive dnode :=
  | DFile (ino : N)
  | DDir (mode : N)
  | DLink (target : bytes).

Record inode := mk_inode {
  i_content : bytes;
  i_mode : N;
  i_stamp : N;                       (* bumped by every write: stands for the kernel's mtime update *)
  i_mtime : option N;                (* Some t after set_times(t); None = "time of the last write" *)
  i_xattrs : list (bytes * bytes) }.

Record fs := mk_fs {
  names : list (path * dnode);
  inodes : list (N * inode);
  next : N }.                        (* fresh inode numbers and write stamps *)

(* ---- finite maps (association lists, first binding wins) ------------------------------- *)
Fixpoint nget (m : list (path * dnode)) (p : path) : option dnode :=
  match m with
  | [] => None
  | (q, v) :: m' => if path_eqb q p then Some v else nget m' p
  end.
Definition nset (m : list (path * dnode)) (p : path) (v : dnode) := (p, v) :: m.
Definition ndel (m : list (path * dnode)) (p : path) :=
  filter (fun e => negb (path_eqb (fst e) p)) m.
Definition ndel_tree (m : list (path * dnode)) (p : path) :=
  filter (fun e => negb (is_prefix p (fst e))) m.

Fixpoint iget (m : list (N * inode)) (i : N) : option inode :=
  match m with
  | [] => None
  | (j, v) :: m' => if N.eqb j i then Some v else iget m' i
  end.
Definition iset (m : list (N * inode)) (i : N) (v : inode) := (i, v) :: m.

Definition with_names (f : fs) (m : list (path * dnode)) : fs :=
  {| names := m; inodes := inodes f; next := next f |}.

(* ---- path resolution ------------------------------------------------------------------- *)
Definition link_segs (t : bytes) : list bytes := filter (fun c => negb (is_empty c)) (segments t).

(* walk fuel m cur comps follow: the canonical location named by `comps` relative to the canonical
   directory `cur`.  Some c: every directory component exists (links followed) and c is the slot of
   the last component (which may be vacant).  None: ENOENT / ENOTDIR / ELOOP. *)
Fixpoint walk (fuel : nat) (m : list (path * dnode)) (cur : path) (comps : list bytes) (follow : bool)
  : option path :=
  match fuel with
  | O => None
  | S fu =>
    match comps with
    | [] => Some cur
    | c :: rest =>
      if is_dot c then walk fu m cur rest follow
      else if is_dotdot c then walk fu m (removelast cur) rest follow
      else
        let p := cur ++ [c] in
        match nget m p with
        | Some (DLink t) =>
          match rest with
          | [] => if follow then walk fu m (if has_root t then [] else cur) (link_segs t) follow
                  else Some p
          | _ => walk fu m (if has_root t then [] else cur) (link_segs t ++ rest) follow
          end
        | Some (DDir _) => walk fu m p rest follow
        | Some (DFile _) => match rest with [] => Some p | _ => None end
        | None => match rest with [] => Some p | _ => None end
        end
    end
  end.

(* one step per component plus room for the components of followed links (the kernel gives up
   after 40 nested links) *)
Definition walk_fuel : nat := 64.
Definition resolve (f : fs) (p : path) (follow : bool) : option path :=
  walk (length p + walk_fuel) (names f) [] p follow.

(* symlink_metadata / metadata *)
Definition lstat (f : fs) (p : path) : option dnode :=
  match resolve f p false with Some c => nget (names f) c | None => None end.
Definition stat (f : fs) (p : path) : option dnode :=
  match resolve f p true with Some c => nget (names f) c | None => None end.

Definition exists_ (f : fs) (p : path) : bool := match stat f p with Some _ => true | None => false end.
Definition lexists (f : fs) (p : path) : bool := match lstat f p with Some _ => true | None => false end.
Definition is_dir (f : fs) (p : path) : bool := match stat f p with Some (DDir _) => true | _ => false end.
Definition is_link (f : fs) (p : path) : bool := match lstat f p with Some (DLink _) => true | _ => false end.

(* ---- mutating calls -------------------------------------------------------------------- *)
Definition default_dir_mode : N := 493.    (* 0o755: mkdir 0o777 under umask 022 *)
Definition default_file_mode : N := 420.   (* 0o644: open 0o666 under umask 022 *)

Definition mkdir (f : fs) (p : path) : fs * bool :=
  match resolve f p false with
  | Some c => match nget (names f) c with
              | None => (with_names f (nset (names f) c (DDir default_dir_mode)), true)
              | Some _ => (f, false)
              end
  | None => (f, false)
  end.

(* fs::create_dir_all: top-down, a component that already is a directory (through links) is kept *)
Fixpoint cda (f : fs) (pre : path) (rest : list bytes) : fs * bool :=
  match rest with
  | [] => (f, true)
  | c :: r =>
    let q := pre ++ [c] in
    if is_dir f q then cda f q r
    else let (f', ok) := mkdir f q in if ok then cda f' q r else (f', false)
  end.
Definition create_dir_all (f : fs) (p : path) : fs * bool := cda f [] p.

(* File::create (O_CREAT|O_TRUNC, follows a link in the last component, also a dangling one) + write *)
Definition create_file (f : fs) (p : path) (data : bytes) : fs * bool :=
  match resolve f p true with
  | Some c =>
    match nget (names f) c with
    | Some (DFile i) =>
      match iget (inodes f) i with
      | Some n => ({| names := names f;
                      inodes := iset (inodes f) i (mk_inode data (i_mode n) (next f) None (i_xattrs n));
                      next := next f + 1 |}, true)
      | None => (f, false)
      end
    | None =>
      ({| names := nset (names f) c (DFile (next f));
          inodes := iset (inodes f) (next f) (mk_inode data default_file_mode (next f) None []);
          next := next f + 1 |}, true)
    | Some _ => (f, false)
    end
  | None => (f, false)
  end.

Definition symlink (f : fs) (target : bytes) (p : path) : fs * bool :=
  match target, resolve f p false with
  | [], _ => (f, false)                                  (* symlink(2): an empty target is ENOENT *)
  | _, Some c => match nget (names f) c with
                 | None => (with_names f (nset (names f) c (DLink target)), true)
                 | Some _ => (f, false)
                 end
  | _, None => (f, false)
  end.

(* link(2): the source's last component is not followed; directories cannot be linked *)
Definition hard_link (f : fs) (src dst : path) : fs * bool :=
  match resolve f src false, resolve f dst false with
  | Some cs, Some cd =>
    match nget (names f) cs, nget (names f) cd with
    | Some (DDir _), _ => (f, false)
    | Some v, None => (with_names f (nset (names f) cd v), true)
    | _, _ => (f, false)
    end
  | _, _ => (f, false)
  end.

(* fs::remove_file *)
Definition unlink (f : fs) (p : path) : fs * bool :=
  match resolve f p false with
  | Some c => match nget (names f) c with
              | Some (DDir _) | None => (f, false)
              | Some _ => (with_names f (ndel (names f) c), true)
              end
  | None => (f, false)
  end.

(* fs::remove_dir_all: a link is removed itself, a directory with everything below it *)
Definition remove_dir_all (f : fs) (p : path) : fs * bool :=
  match resolve f p false with
  | Some c => match nget (names f) c with
              | Some (DLink _) => (with_names f (ndel (names f) c), true)
              | Some (DDir _) => (with_names f (ndel_tree (names f) c), true)
              | _ => (f, false)
              end
  | None => (f, false)
  end.

(* utils::fs::remove *)
Definition remove (f : fs) (p : path) : fs * bool :=
  if is_dir f p then remove_dir_all f p else unlink f p.

(* chmod(2): follows links *)
Definition chmod (f : fs) (p : path) (mode : N) : fs * bool :=
  match resolve f p true with
  | Some c =>
    match nget (names f) c with
    | Some (DFile i) =>
      match iget (inodes f) i with
      | Some n => ({| names := names f;
                      inodes := iset (inodes f) i (mk_inode (i_content n) mode (i_stamp n) (i_mtime n) (i_xattrs n));
                      next := next f |}, true)
      | None => (f, false)
      end
    | Some (DDir _) => (with_names f (nset (names f) c (DDir mode)), true)
    | _ => (f, false)
    end
  | None => (f, false)
  end.

(* File::set_times / setxattr on the file just written at p (no link in the last component there) *)
Definition update_inode (f : fs) (p : path) (g : inode -> inode) : fs * bool :=
  match resolve f p true with
  | Some c =>
    match nget (names f) c with
    | Some (DFile i) =>
      match iget (inodes f) i with
      | Some n => ({| names := names f; inodes := iset (inodes f) i (g n); next := next f |}, true)
      | None => (f, false)
      end
    | _ => (f, false)
    end
  | None => (f, false)
  end.
Definition set_mtime (f : fs) (p : path) (t : N) :=
  update_inode f p (fun n => mk_inode (i_content n) (i_mode n) (i_stamp n) (Some t) (i_xattrs n)).
Definition set_xattrs (f : fs) (p : path) (xs : list (bytes * bytes)) :=
  update_inode f p (fun n => mk_inode (i_content n) (i_mode n) (i_stamp n) (i_mtime n) xs).

(* lsetxattr(2), once per attribute (xattr::set: the last component is NOT followed): an attribute of the same
   name is replaced, the others stay; the table is kept sorted by name so that equality is equality of tables.
   user.* attributes cannot be put on a symbolic link (EPERM); attributes of directories are not observed. *)
Fixpoint bytes_ltb (a b : bytes) : bool :=
  match a, b with
  | _, [] => false
  | [], _ :: _ => true
  | x :: a', y :: b' => if N.ltb (b2n x) (b2n y) then true
                        else if N.ltb (b2n y) (b2n x) then false else bytes_ltb a' b'
  end.
Fixpoint xattr_put (k v : bytes) (l : list (bytes * bytes)) : list (bytes * bytes) :=
  match l with
  | [] => [(k, v)]
  | (k', v') :: r => if bytes_eqb k k' then (k, v) :: r
                     else if bytes_ltb k k' then (k, v) :: l else (k', v') :: xattr_put k v r
  end.
Definition xattr_merge (old new : list (bytes * bytes)) : list (bytes * bytes) :=
  fold_left (fun acc kv => xattr_put (fst kv) (snd kv) acc) new old.
Definition lset_xattrs (f : fs) (p : path) (xs : list (bytes * bytes)) : fs * bool :=
  match xs with
  | [] => (f, true)
  | _ =>
    match resolve f p false with
    | Some c =>
      match nget (names f) c with
      | Some (DFile i) =>
        match iget (inodes f) i with
        | Some n => ({| names := names f;
                        inodes := iset (inodes f) i (mk_inode (i_content n) (i_mode n) (i_stamp n) (i_mtime n)
                                                              (xattr_merge (i_xattrs n) xs));
                        next := next f |}, true)
        | None => (f, false)
        end
      | Some (DDir _) => (f, true)
      | _ => (f, false)
      end
    | None => (f, false)
    end
  end.

(* ---- observation ----------------------------------------------------------------------- *)
(* what a snapshot (lstat + read) sees at a canonical path *)
Inductive obs :=
  | OFile (ino : N) (n : inode)
  | ODir (mode : N)
  | OLink (target : bytes)
  | ONone.
Definition observe (f : fs) (p : path) : obs :=
  match nget (names f) p with
  | Some (DFile i) => match iget (inodes f) i with Some n => OFile i n | None => ONone end
  | Some (DDir m) => ODir m
  | Some (DLink t) => OLink t
  | None => ONone
  end.

Definition opt_n_eqb (a b : option N) : bool :=
  match a, b with Some x, Some y => N.eqb x y | None, None => true | _, _ => false end.
Fixpoint xattrs_eqb (a b : list (bytes * bytes)) : bool :=
  match a, b with
  | [], [] => true
  | (k, v) :: a', (k', v') :: b' => bytes_eqb k k' && bytes_eqb v v' && xattrs_eqb a' b'
  | _, _ => false
  end.
Definition inode_eqb (a b : inode) : bool :=
  bytes_eqb (i_content a) (i_content b) && N.eqb (i_mode a) (i_mode b) && N.eqb (i_stamp a) (i_stamp b)
  && opt_n_eqb (i_mtime a) (i_mtime b) && xattrs_eqb (i_xattrs a) (i_xattrs b).
Definition obs_eqb (a b : obs) : bool :=
  match a, b with
  | OFile i n, OFile j m => N.eqb i j && inode_eqb n m
  | ODir m, ODir m' => N.eqb m m'
  | OLink t, OLink t' => bytes_eqb t t'
  | ONone, ONone => true
  | _, _ => false
  end.

(* a path whose observation differs between two states *)
Definition mutated (f0 f1 : fs) (p : path) : Prop := observe f0 p <> observe f1 p.
Definition mutatedb (f0 f1 : fs) (p : path) : bool := negb (obs_eqb (observe f0 p) (observe f1 p)).

(* p is `out` itself or lies below it *)
Definition under (out p : path) : Prop := exists rel, p = out ++ rel.
Definition underb (out p : path) : bool := is_prefix out p.
