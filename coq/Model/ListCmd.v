(* ListCmd.v — what `pna list`, `pna extract` and the library report about an archive.
   mirrors cli/src/command/list.rs (run_list_archive: solid entries expanded only with --solid;
   print_entries: glob filter after collection, skipped when no pattern is given; the plain, table,
   JSON-lines and tree printers; build_tree / display_tree) and cli/src/command/extract.rs
   (run_extract_archive_reader: the same matcher on the same name string; solid always expanded).
   Glob matching is `sel : bytes -> bool`. *)
From PNA Require Import Base.

Definition slash : byte := x2f.

(* what the three views can see of an entry: name, kind (0 file, 1 directory, 2 symbolic link,
   3 hard link), the fSIZ size (None when the chunk is absent), the link target *)
Record row := { r_name : bytes; r_kind : N; r_size : option N; r_clen : N; r_target : bytes }.
Inductive litem := LNormal (r : row) | LSolid (rs : list row).
Definition larchive := list litem.

(* the library: Archive::entries() with every solid entry expanded in place *)
Definition lib_entries (a : larchive) : list row :=
  concat (map (fun it => match it with LNormal r => [r] | LSolid rs => rs end) a).

(* run_list_archive + the filter of print_entries *)
Definition collected (solid : bool) (a : larchive) : list row :=
  concat (map (fun it => match it with LNormal r => [r] | LSolid rs => if solid then rs else [] end) a).
Definition selected (nfiles : N) (sel : bytes -> bool) (r : row) : bool :=
  N.eqb nfiles 0 || sel (r_name r).
Definition list_rows (solid : bool) (nfiles : N) (sel : bytes -> bool) (a : larchive) : list row :=
  filter (selected nfiles sel) (collected solid a).

(* extract: every entry the patterns select, solid entries always expanded *)
Definition extract_rows (nfiles : N) (sel : bytes -> bool) (a : larchive) : list row :=
  filter (selected nfiles sel) (lib_entries a).

(* ---- printers ------------------------------------------------------------------------------------ *)
Definition arrow : bytes := lit " -> ".
(* simple_list_entries / the name column of detail_list_entries *)
Definition display (classify : bool) (r : row) : bytes :=
  match r_kind r with
  | 1 => if classify then r_name r ++ [slash] else r_name r
  | 2 => (if classify then r_name r ++ [x40] else r_name r) ++ arrow ++ r_target r
  | 3 => r_name r ++ arrow ++ r_target r
  | _ => r_name r
  end.
Definition plain_output (classify : bool) (rs : list row) : bytes :=
  concat (map (fun r => display classify r ++ [x0a]) rs).
(* -q / --hide-control-chars: hide_control_chars maps every char with char::is_control() (U+0000..U+001F, U+007F,
   U+0080..U+009F) to '?'.  On the UTF-8 bytes of a name: a byte below 0x20 or equal to 0x7f, and the two-byte
   sequences C2 80 .. C2 9F, become one '?'.  Applied by the plain printer to the whole line and by the
   long/table printer to the name column; the rows printed are the same rows. *)
Fixpoint hide_control (s : bytes) : bytes :=
  match s with
  | [] => []
  | b :: r =>
    if (b2n b <? 32) || (b2n b =? 127) then x3f :: hide_control r
    else if b2n b =? 194 then
      match r with
      | b2 :: r2 => if (128 <=? b2n b2) && (b2n b2 <=? 159) then x3f :: hide_control r2 else b :: hide_control r
      | [] => [b]
      end
    else b :: hide_control r
  end.
Definition display_q (classify : bool) (r : row) : bytes := hide_control (display classify r).
Definition plain_output_q (classify : bool) (rs : list row) : bytes :=
  concat (map (fun r => display_q classify r ++ [x0a]) rs).
(* kind_char: hard links print as files *)
Definition kind_char (k : N) : byte := match k with 1 => x64 | 2 => x6c | _ => x2e end.

(* ---- tree ------------------------------------------------------------------------------------------ *)
(* build_tree: one node per '/'-separated component prefix; proper prefixes are directories,
   the full name has the entry's kind.  A node = (parent path, component, kind). *)
Definition components (n : bytes) : list bytes := fields slash n.
Fixpoint prefix_nodes (parent : bytes) (cs : list bytes) (kind : N) : list (bytes * bytes * N) :=
  match cs with
  | [] => []
  | [c] => [(parent, c, kind)]
  | c :: rest => (parent, c, 1) :: prefix_nodes (match parent with [] => c | _ => parent ++ slash :: c end) rest kind
  end.
Definition node_path (nd : bytes * bytes * N) : bytes :=
  let '(p, c, _) := nd in match p with [] => c | _ => p ++ slash :: c end.
Definition node_eqb (a b : bytes * bytes * N) : bool :=
  let '(p, c, k) := a in let '(q, d, j) := b in bytes_eqb p q && bytes_eqb c d && N.eqb k j.
Fixpoint add_node (nd : bytes * bytes * N) (l : list (bytes * bytes * N)) : list (bytes * bytes * N) :=
  match l with
  | [] => [nd]
  | x :: r => if node_eqb nd x then l else x :: add_node nd r
  end.
(* the node set (first-seen order, no repetition) *)
Definition tree_nodes (rs : list row) : list (bytes * bytes * N) :=
  fold_left (fun acc r => fold_left (fun acc nd => add_node nd acc) (prefix_nodes [] (components (r_name r)) (r_kind r)) acc) rs [].

(* BTreeSet<TreeEntry> order: by name (bytes), then by kind (File < Directory < SymbolicLink < HardLink) *)
Fixpoint bytes_leb (a b : bytes) : bool :=
  match a, b with
  | [], _ => true
  | _ :: _, [] => false
  | x :: a', y :: b' => if N.ltb (b2n x) (b2n y) then true else if N.ltb (b2n y) (b2n x) then false else bytes_leb a' b'
  end.
Definition child_leb (a b : bytes * N) : bool :=
  if bytes_eqb (fst a) (fst b) then N.leb (snd a) (snd b) else bytes_leb (fst a) (fst b).
Fixpoint insert_child (c : bytes * N) (l : list (bytes * N)) : list (bytes * N) :=
  match l with
  | [] => [c]
  | x :: r => if child_leb c x then c :: l else x :: insert_child c r
  end.
Definition children (nodes : list (bytes * bytes * N)) (parent : bytes) : list (bytes * N) :=
  fold_left (fun acc nd => let '(p, c, k) := nd in if bytes_eqb p parent then insert_child (c, k) acc else acc) nodes [].
(* display_tree: depth-first, every child (whatever its kind) is looked up as a parent again *)
Fixpoint display_tree (fuel : nat) (classify : bool) (nodes : list (bytes * bytes * N)) (root : bytes) (depth : N)
  : list (N * bytes) :=
  match fuel with
  | O => []
  | S f =>
    concat (map (fun ck =>
      let '(c, k) := ck in
      let shown := match k with 1 => if classify then c ++ [slash] else c
                              | 2 => if classify then c ++ [x40] else c | _ => c end in
      (depth, shown) :: display_tree f classify nodes (match root with [] => c | _ => root ++ slash :: c end) (depth + 1))
      (children nodes root))
  end.
Definition max_depth (rs : list row) : nat := fold_left (fun m r => Nat.max m (length (components (r_name r)))) rs O.
Definition tree_output (classify : bool) (rs : list row) : list (N * bytes) :=
  display_tree (S (max_depth rs)) classify (tree_nodes rs) [] 0.

(* ---- extract: the paths materialised below the output directory ------------------------------------- *)
(* every proper prefix of a selected name is a directory; the name itself is the entry (a later
   entry of the same name replaces an earlier one); kind 3 (hard link) shows as a file *)
Definition fs_put (p : bytes) (v : N * bytes) (fs : list (bytes * (N * bytes))) : list (bytes * (N * bytes)) :=
  (fix go l := match l with
               | [] => [(p, v)]
               | (q, w) :: r => if bytes_eqb p q then (q, v) :: r else (q, w) :: go r
               end) fs.
Definition fs_mkdir (p : bytes) (fs : list (bytes * (N * bytes))) : list (bytes * (N * bytes)) :=
  if existsb (fun qw => bytes_eqb p (fst qw)) fs then fs else fs ++ [(p, (1, []))].
Definition leaf_value (r : row) : N * bytes :=
  match r_kind r with
  | 0 => (0, dec (r_clen r))
  | 1 => (1, [])
  | 2 => (2, hex (r_target r))
  | _ => (0, lit "-")                      (* hard link: a file sharing its target's content *)
  end.
Definition extract_one (fs : list (bytes * (N * bytes))) (r : row) : list (bytes * (N * bytes)) :=
  let nodes := prefix_nodes [] (components (r_name r)) (r_kind r) in
  fold_left (fun fs nd => let '(_, _, k) := nd in
                          let p := node_path nd in
                          if bytes_eqb p (r_name r) then
                            (if N.eqb (r_kind r) 1 then fs_mkdir p fs else fs_put p (leaf_value r) fs)
                          else fs_mkdir p fs) nodes fs.
Definition extracted (nfiles : N) (sel : bytes -> bool) (a : larchive) : list (bytes * (N * bytes)) :=
  fold_left extract_one (extract_rows nfiles sel a) [].
