(* OverwriteRun.v — case interpreter of the overwrite area (C20).  Cases are produced by props/C20.py.
     path     = components joined by "/" (plain ASCII chosen by the generator; no "," ":" "=" ">" TAB)
     outputs  = k:path,k:path,...     k = f (file) | d (directory entry) | l (symlink entry)
     pre      = path=kind,...         kind = file | empty | dir | link>path   (the file system before the run,
                                      every object below the sandbox root, sorted by path)
     run <cmd> <ow 0|1> <outputs> <pre>  ->  exit=<n> changed=<paths> new=<paths>
         cmd     = create | concat | stdio_create | create_split | split | extract | stdio_extract
         changed = the paths of `pre` (in that order) whose object differs after the run
         new     = the output paths (in that order) that did not exist before and exist after *)
From PNA Require Import Base CodecRun Overwrite.

Definition slash : byte := x2f.
Definition colon : byte := x3a.
Definition equals : byte := x3d.
Definition gt : byte := x3e.

Definition parse_path (b : bytes) : path := filter (fun c => negb (bytes_eqb c [])) (fields slash b).
Definition show_path (p : path) : bytes := join [slash] p.

Definition parse_out (b : bytes) : option (okind * path) :=
  match b with
  | k :: c :: p =>
    if byte_eqb c colon then
      if byte_eqb k x66 then Some (OFile, parse_path p)
      else if byte_eqb k x64 then Some (ODir, parse_path p)
      else if byte_eqb k x6c then Some (OLink, parse_path p)
      else None
    else None
  | _ => None
  end.

Definition parse_pre (b : bytes) : option (path * obj) :=
  match fields equals b with
  | [p; k] =>
    if bytes_eqb k (lit "file") then Some (parse_path p, File (lit "old"))
    else if bytes_eqb k (lit "empty") then Some (parse_path p, File [])
    else if bytes_eqb k (lit "dir") then Some (parse_path p, Dir)
    else match fields gt k with
         | [l; t] => if bytes_eqb l (lit "link") then Some (parse_path p, Symlink (parse_path t)) else None
         | _ => None
         end
  | _ => None
  end.

Definition parse_kind (b : bytes) : option ckind :=
  if bytes_eqb b (lit "create") then Some Create
  else if bytes_eqb b (lit "concat") then Some Concat
  else if bytes_eqb b (lit "stdio_create") then Some StdioCreate
  else if bytes_eqb b (lit "create_split") then Some CreateSplit
  else if bytes_eqb b (lit "split") then Some Split
  else if bytes_eqb b (lit "extract") then Some Extract
  else if bytes_eqb b (lit "stdio_extract") then Some StdioExtract
  else None.

Definition changed_paths (s0 s1 : fs) : list path :=
  filter (fun p => negb (oobj_eqb (node s1 p) (node s0 p))) (map fst s0).
Definition new_paths (s0 s1 : fs) (os : list path) : list path :=
  filter (fun p => negb (lexists s0 p) && lexists s1 p) os.

Definition show_paths (ps : list path) : bytes := join [comma] (map show_path ps).

Definition run_overwrite (op : bytes) (args : list bytes) : bytes :=
  if bytes_eqb op (lit "run") then
    match parse_kind (nth 0%nat args []), undec (nth 1%nat args []),
          all_some (map parse_out (list_field (nth 2%nat args []))),
          all_some (map parse_pre (list_field (nth 3%nat args []))) with
    | Some k, Some ow, Some os, Some s0 =>
      let c := {| kind := k; overwrite := negb (N.eqb ow 0); outs := os |} in
      let (s1, ex) := run c s0 in
      lit "exit=" ++ dec ex ++ lit " changed=" ++ show_paths (changed_paths s0 s1)
        ++ lit " new=" ++ show_paths (new_paths s0 s1 (map snd os))
    | _, _, _, _ => bad_case
    end
  else bad_case.

Definition run_line := run_line_with run_overwrite.
