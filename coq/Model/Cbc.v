(* Cbc.v — lib/src/cipher/block/write.rs (CbcBlockCipherEncryptWriter: carry buffer, PKCS#7 on
   finish) and lib/src/cipher/block/read.rs (CbcBlockCipherDecryptReader: one block of
   look-ahead, PKCS#7 unpadding of the last block), the latter after the fixes 512b0e43 (bytes
   already copied are returned at EOF), 2045b6a7 (look-ahead filled by a read-until-full loop)
   and 1f8b0a29 (wrong key length is an error, not a panic).
   The block cipher is a pair of functions  E D : key -> block -> block  (Section variables);
   a toy instance shared with the harness is at the end.  Definitions only. *)
From PNA Require Import Base Flatten.

Definition xorb (a b : byte) : byte := n2b (N.lxor (b2n a) (b2n b)).
Fixpoint xor_bytes (a b : bytes) : bytes :=
  match a, b with
  | x :: a', y :: b' => xorb x y :: xor_bytes a' b'
  | _, _ => []
  end.

(* all block ciphers the library instantiates (Aes256, Camellia256) and the toy one have
   32-byte keys and 16-byte blocks: `new_from_slices(key, iv)` fails on any other length *)
Definition key_iv_ok (key iv : bytes) : bool := N.eqb (len key) 32 && N.eqb (len iv) 16.

(* ---- PKCS#7 on one 16-byte block (block-padding 0.3.3, Pkcs7) -------------------------- *)
(* P::pad(block, pos): bytes pos.. are set to 16 - pos; `b` is the first pos < 16 bytes *)
Definition pkcs7_pad_block (b : bytes) : bytes :=
  b ++ repeat (n2b (16 - len b)) (16 - length b).
(* Pkcs7::unpad(block, strict = true), block.len() = 16 *)
Definition pkcs7_unpad_block (blk : bytes) : res bytes :=
  let n := b2n (last blk x00) in
  if N.eqb n 0 || N.ltb 16 n then Err InvalidData
  else let s := 16 - n in
       if forallb (fun v => N.eqb (b2n v) n) (fdrop s (firstn 15 blk))
       then Ok (ftake s blk) else Err InvalidData.

(* ---- read_block (read.rs): fill a 16-byte block from the source, read until full or EOF -- *)
Fixpoint read_block_loop (fuel : nat) (s : list bytes) (want : N) : list bytes * bytes :=
  match fuel with
  | O => (s, [])
  | S f =>
    if N.eqb want 0 then (s, [])
    else let (s1, got) := flat_read s want in
         match got with
         | [] => (s1, [])
         | _ => let (s2, more) := read_block_loop f s1 (want - len got) in (s2, got ++ more)
         end
  end.
Definition read_block (s : list bytes) : list bytes * bytes := read_block_loop 17 s 16.

(* ---- specification functions (whole messages) ------------------------------------------ *)
(* PKCS#7 of a whole message: 1..16 bytes of padding, each equal to the padding length *)
Definition pkcs7 (m : bytes) : bytes :=
  let p := 16 - len m mod 16 in m ++ repeat (n2b p) (N.to_nat p).

Section CBC.
Variables E D : bytes -> bytes -> bytes.

(* CBC over a list of blocks, and over a message cut into 16-byte blocks *)
Fixpoint cbc_enc_blocks (k prev : bytes) (bs : list bytes) : list bytes :=
  match bs with
  | [] => []
  | b :: r => let c := E k (xor_bytes b prev) in c :: cbc_enc_blocks k c r
  end.
Definition cbc_enc (k iv m : bytes) : bytes := concat (cbc_enc_blocks k iv (chunks 16 m)).
Fixpoint cbc_dec_blocks (k prev : bytes) (cs : list bytes) : list bytes :=
  match cs with
  | [] => []
  | c :: r => xor_bytes (D k c) prev :: cbc_dec_blocks k c r
  end.
Definition cbc_dec (k iv c : bytes) : bytes := concat (cbc_dec_blocks k iv (chunks 16 c)).

(* ---- writer ------------------------------------------------------------------------------ *)
Record cbcw := { w_key : bytes; w_prev : bytes (* cbc::Encryptor's iv *); w_buf : bytes (* carry, < 16 *) }.

(* new: cbc::Encryptor::new_from_slices(key, iv).unwrap() *)
Definition cbcw_new (key iv : bytes) : res cbcw :=
  if key_iv_ok key iv then Ok {| w_key := key; w_prev := iv; w_buf := [] |} else Panic.

Definition set_buf (s : cbcw) (b : bytes) : cbcw := {| w_key := w_key s; w_prev := w_prev s; w_buf := b |}.
(* encrypt_write_block: one block through the encryptor, one write_all of 16 bytes *)
Definition enc_block (s : cbcw) (blk : bytes) : cbcw * bytes :=
  let c := E (w_key s) (xor_bytes blk (w_prev s)) in
  ({| w_key := w_key s; w_prev := c; w_buf := w_buf s |}, c).

(* for b in buf[remaining..].chunks(16): full blocks are encrypted and written, a shorter last
   piece goes to the carry; returns state, inner writes, bytes accounted for *)
Fixpoint enc_chunks (fuel : nat) (s : cbcw) (l : bytes) : cbcw * list bytes * N :=
  match fuel with
  | O => (s, [], 0)
  | S f =>
    match l with
    | [] => (s, [], 0)
    | _ => let b := firstn 16 l in
           if Nat.eqb (length b) 16
           then let (s1, c) := enc_block s b in
                let '(s2, outs, t) := enc_chunks f s1 (skipn 16 l) in (s2, c :: outs, 16 + t)
           else (set_buf s (w_buf s ++ b), [], len b)
    end
  end.

(* Write::write -> (state, inner writes in order, returned count) *)
Definition cbcw_write (s : cbcw) (d : bytes) : cbcw * list bytes * N :=
  if N.ltb (len d + len (w_buf s)) 16 then (set_buf s (w_buf s ++ d), [], len d)
  else let remaining := (16 - length (w_buf s))%nat in
       let first := w_buf s ++ firstn remaining d in
       let (s1, c) := enc_block (set_buf s []) first in
       let '(s2, outs, t) := enc_chunks (S (length d)) s1 (skipn remaining d) in
       (s2, c :: outs, N.of_nat remaining + t).

(* finish: encrypt_write_with_padding; the inner writes it makes *)
Definition cbcw_finish (s : cbcw) : list bytes :=
  [snd (enc_block s (pkcs7_pad_block (w_buf s)))].

(* a sequence of writes: per call (returned count, inner writes), final state *)
Fixpoint cbcw_writes (s : cbcw) (ws : list bytes) : cbcw * list (N * list bytes) :=
  match ws with
  | [] => (s, [])
  | d :: r => let '(s1, outs, c) := cbcw_write s d in
              let (s2, rest) := cbcw_writes s1 r in (s2, (c, outs) :: rest)
  end.

(* ---- reader ------------------------------------------------------------------------------ *)
Record cbcr := { r_key : bytes; r_src : list bytes (* FlattenReader *); r_prev : bytes (* Decryptor's iv *);
                 r_look : bytes (* self.buf *); r_rem : bytes (* self.remaining *); r_eof : bool }.

Definition cbcr_new (key iv : bytes) (src : list bytes) : res cbcr :=
  let (s1, blk) := read_block src in
  if negb (N.eqb (len blk) 16) then Err UnexpectedEof
  else if negb (key_iv_ok key iv) then Err InvalidData
  else Ok {| r_key := key; r_src := s1; r_prev := iv; r_look := blk; r_rem := []; r_eof := false |}.

(* the `for chunk in buf[total_written..].chunks_mut(16)` loop; `want` = bytes of the caller's
   buffer still free (> 0), fuel = number of 16-byte pieces of that space *)
Fixpoint cbcr_loop (fuel : nat) (st : cbcr) (want : N) : res (cbcr * bytes) :=
  match fuel with
  | O => Ok (st, [])
  | S f =>
    let p := xor_bytes (D (r_key st) (r_look st)) (r_prev st) in
    let (src', nx) := read_block (r_src st) in
    let eof := N.eqb (len nx) 0 in
    if negb eof && negb (N.eqb (len nx) 16) then Err UnexpectedEof else
    do blk <- (if eof then pkcs7_unpad_block p else Ok p);
    let w := N.min (N.min 16 want) (len blk) in
    let look' := if eof then r_look st else nx in
    if eof || N.leb want w
    then Ok ({| r_key := r_key st; r_src := src'; r_prev := r_look st; r_look := look';
                r_rem := r_rem st ++ fdrop w blk; r_eof := eof |}, ftake w blk)
    else do (st2, more) <- cbcr_loop f {| r_key := r_key st; r_src := src'; r_prev := r_look st; r_look := look';
                                           r_rem := r_rem st; r_eof := eof |} (want - w);
         Ok (st2, ftake w blk ++ more)
  end.

(* Read::read with a buffer of n bytes *)
Definition cbcr_read (st : cbcr) (n : N) : res (cbcr * bytes) :=
  if N.eqb n 0 then Ok (st, []) else
  let l := N.min (len (r_rem st)) n in
  let out0 := ftake l (r_rem st) in
  let st0 := {| r_key := r_key st; r_src := r_src st; r_prev := r_prev st; r_look := r_look st;
                r_rem := fdrop l (r_rem st); r_eof := r_eof st |} in
  if N.leb n l then Ok (st0, out0)
  else if r_eof st then Ok (st0, out0)
  else do (st1, more) <- cbcr_loop (N.to_nat ((n - l + 15) / 16)) st0 (n - l); Ok (st1, out0 ++ more).

End CBC.

(* ---- the toy block cipher shared with harness/src/bin/stream.rs ---------------------------
   E_k(b) = (b rotated left by one byte) xor k[0..16],  D_k its inverse.
   (Keys are 32 bytes wherever the cipher is run, key_iv_ok; padding a shorter key with zeros
   only makes the functions total, so that D_k (E_k b) = b holds for every k.)                  *)
Definition rotl1 (l : bytes) : bytes := match l with [] => [] | x :: r => r ++ [x] end.
Definition rotr1 (l : bytes) : bytes := match l with [] => [] | _ => last l x00 :: removelast l end.
Definition toy_key (k : bytes) : bytes := firstn 16 (k ++ repeat x00 16).
Definition toy_E (k b : bytes) : bytes := xor_bytes (rotl1 b) (toy_key k).
Definition toy_D (k c : bytes) : bytes := rotr1 (xor_bytes c (toy_key k)).
