(* CliCodec.v — the CLI's textual codecs (C15, CLI half; mode_apply is also used by C10),
   as they are in /repo after the fixes D19 (ACE name lists), D20 (hex padding), D21 (part
   names) and the AceWithPlatform/None fix:
     cli/src/chunk/acl.rs        Ace, AcePlatform, AceWithPlatform: Display / FromStr
     cli/src/command/xattr.rs    Value::from_str, DisplayHex, DisplayBase64, DisplayText, DisplayAuto
     cli/src/utils/path.rs       with_part, remove_part
     cli/src/command/chmod.rs    Mode::from_str, Mode::apply_to
   Strings are byte lists (the Rust side works on UTF-8 `str`; every delimiter involved is
   ASCII, so splitting on bytes and on chars agree).  Executable definitions only. *)
From PNA Require Import Base.
Open Scope N_scope.

Definition colon : byte := x3a.
Definition dot : byte := x2e.
Definition slash : byte := x2f.
Definition bad {A} : res A := Err InvalidInput.     (* every parse error of these codecs *)

Definition is_digit (b : byte) : bool := N.leb 48 (b2n b) && N.leb (b2n b) 57.

(* str::strip_prefix *)
Fixpoint strip_prefix (p s : bytes) : option bytes :=
  match p, s with
  | [], _ => Some s
  | a :: p', b :: s' => if byte_eqb a b then strip_prefix p' s' else None
  | _ :: _, [] => None
  end.

(* ======================================================================== *)
(* Access-control entries (chunk/acl.rs)                                     *)
(* ======================================================================== *)

(* FLAG_NAME_MAP / PERMISSION_NAME_MAP: (bit mask, names); the first name is printed,
   every name is accepted. Order = table order = print order. *)
Definition name_table := list (N * list bytes).

Definition flag_table : name_table :=
  [ (1,  [lit "d"; lit "default"]);
    (4,  [lit "file_inherit"]);
    (8,  [lit "directory_inherit"]);
    (32, [lit "only_inherit"]);
    (16, [lit "limit_inherit"]);
    (2,  [lit "inherited"]) ].

Definition perm_table : name_table :=
  [ (1, [lit "r"; lit "read"]);
    (2, [lit "w"; lit "write"]);
    (4, [lit "x"; lit "execute"]);
    (8, [lit "delete"]);
    (16, [lit "append"]);
    (32, [lit "delete_child"]);
    (64, [lit "readattr"]);
    (128, [lit "writeattr"]);
    (256, [lit "readextattr"]);
    (512, [lit "writeextattr"]);
    (1024, [lit "readsecurity"]);
    (2048, [lit "writesecurity"]);
    (4096, [lit "chown"]);
    (8192, [lit "sync"]);
    (16384, [lit "read_data"]);
    (32768, [lit "write_data"]) ].

(* bitflags `contains` *)
Definition contains (v bit : N) : bool := N.eqb (N.land v bit) bit.

(* Display: the first name of every table entry contained in the set, joined by ',' *)
Definition set_names (tbl : name_table) (v : N) : list bytes :=
  map (fun e => hd [] (snd e)) (filter (fun e => contains v (fst e)) tbl).
Definition set_to_string (tbl : name_table) (v : N) : bytes := join [comma] (set_names tbl v).

(* FromStr (repaired, D19): the names are collected first; an entry is set when any of
   the listed names is one of its names.  Unknown names are ignored. *)
Definition mem_bytes (x : bytes) (l : list bytes) : bool := existsb (bytes_eqb x) l.
Definition entry_listed (names : list bytes) (e : N * list bytes) : bool :=
  existsb (fun n => mem_bytes n (snd e)) names.
Definition set_of_names (tbl : name_table) (names : list bytes) : N :=
  fold_left (fun acc e => if entry_listed names e then N.lor acc (fst e) else acc) tbl 0.
Definition set_of_string (tbl : name_table) (s : bytes) : N := set_of_names tbl (fields comma s).

Inductive owner :=
  | Owner | User (name : bytes) | OwnerGroup | Group (name : bytes) | Mask | Other.

Record ace := { a_flags : N; a_owner : owner; a_allow : bool; a_perm : N }.

Definition owner_kind_str (o : owner) : bytes :=
  match o with
  | Owner | User _ => lit "u" | OwnerGroup | Group _ => lit "g" | Mask => lit "m" | Other => lit "o"
  end.
Definition owner_name (o : owner) : bytes :=
  match o with User n | Group n => n | _ => [] end.
Definition allow_str (b : bool) : bytes := if b then lit "allow" else lit "deny".

(* "{flags}:{owner_type}:{allow|deny}:{permissions}", owner_type = "u:" / "u:name" / ... *)
Definition ace_to_string (a : ace) : bytes :=
  join [colon] [ set_to_string flag_table (a_flags a); owner_kind_str (a_owner a);
                 owner_name (a_owner a); allow_str (a_allow a); set_to_string perm_table (a_perm a) ].

Definition owner_of_strings (t n : bytes) : res owner :=
  if bytes_eqb t (lit "u") || bytes_eqb t (lit "user") then
    Ok (match n with [] => Owner | _ => User n end)
  else if bytes_eqb t (lit "g") || bytes_eqb t (lit "group") then
    Ok (match n with [] => OwnerGroup | _ => Group n end)
  else if bytes_eqb t (lit "m") || bytes_eqb t (lit "mask") then Ok Mask
  else if bytes_eqb t (lit "o") || bytes_eqb t (lit "other") then Ok Other
  else bad.
Definition allow_of_string (s : bytes) : res bool :=
  if bytes_eqb s (lit "allow") then Ok true else if bytes_eqb s (lit "deny") then Ok false else bad.

(* exactly five ':'-separated fields (NotEnoughElement / TooManyElement otherwise) *)
Definition ace_of_string (s : bytes) : res ace :=
  match fields colon s with
  | [f; t; n; al; p] =>
    do o <- owner_of_strings t n;
    do allow <- allow_of_string al;
    Ok {| a_flags := set_of_string flag_table f; a_owner := o; a_allow := allow;
          a_perm := set_of_string perm_table p |}
  | _ => bad
  end.

Inductive platform := General | Windows | MacOs | Linux | FreeBSD | Unknown (s : bytes).

Definition platform_to_string (p : platform) : bytes :=
  match p with
  | General => [] | Windows => lit "windows" | MacOs => lit "macos" | Linux => lit "linux"
  | FreeBSD => lit "freebsd" | Unknown s => s
  end.
Definition platform_of_string (s : bytes) : platform :=
  if bytes_eqb s [] then General
  else if bytes_eqb s (lit "windows") then Windows
  else if bytes_eqb s (lit "macos") then MacOs
  else if bytes_eqb s (lit "linux") then Linux
  else if bytes_eqb s (lit "freebsd") then FreeBSD
  else Unknown s.

(* str::split_once *)
Fixpoint split_once (sep : byte) (s : bytes) : option (bytes * bytes) :=
  match s with
  | [] => None
  | b :: r => if byte_eqb b sep then Some ([], r)
              else match split_once sep r with Some (x, y) => Some (b :: x, y) | None => None end
  end.
Definition count_byte (c : byte) (s : bytes) : N := len (filter (byte_eqb c) s).

(* AceWithPlatform: Some p prints "p:ace"; None prints the ace alone (repaired) *)
Definition awp_to_string (pa : option platform * ace) : bytes :=
  match fst pa with
  | Some p => platform_to_string p ++ colon :: ace_to_string (snd pa)
  | None => ace_to_string (snd pa)
  end.
Definition awp_of_string (s : bytes) : res (option platform * ace) :=
  if N.eqb (count_byte colon s) 5 then
    match split_once colon s with
    | Some (p, r) => do a <- ace_of_string r; Ok (Some (platform_of_string p), a)
    | None => bad
    end
  else do a <- ace_of_string s; Ok (None, a).

(* ======================================================================== *)
(* Extended-attribute values (command/xattr.rs)                               *)
(* ======================================================================== *)

(* u8::from_str_radix(chunk, 16) on a chunk of one or two chars: a leading '+' is a sign *)
Definition plus : byte := x2b.
Definition radix16_1 (a : byte) : option N := unhexdigit a.
Definition radix16_2 (a b : byte) : option N :=
  if byte_eqb a plus then unhexdigit b
  else match unhexdigit a, unhexdigit b with Some x, Some y => Some (x * 16 + y) | _, _ => None end.

(* char_chunks(s, 2) then from_str_radix on each chunk; the last chunk may be one char.
   (Chunks are taken by chars in Rust; a non-ASCII char makes its chunk, hence the whole
   value, an error in either chunking.) *)
Fixpoint hex_chunks (l : bytes) : res bytes :=
  match l with
  | [] => Ok []
  | [a] => match radix16_1 a with Some x => Ok [n2b x] | None => bad end
  | a :: b :: r =>
    match radix16_2 a b with
    | Some x => do rest <- hex_chunks r; Ok (n2b x :: rest)
    | None => bad
    end
  end.

(* base64 0.22 STANDARD engine: alphabet A-Za-z0-9+/, canonical '=' padding required,
   trailing bits must be zero *)
Definition b64char (n : N) : byte :=
  if N.ltb n 26 then n2b (65 + n) else if N.ltb n 52 then n2b (71 + n)
  else if N.ltb n 62 then n2b (n - 4) else if N.eqb n 62 then x2b else x2f.
Definition b64val (c : byte) : option N :=
  let x := b2n c in
  if N.leb 65 x && N.leb x 90 then Some (x - 65)
  else if N.leb 97 x && N.leb x 122 then Some (x - 71)
  else if N.leb 48 x && N.leb x 57 then Some (x + 4)
  else if N.eqb x 43 then Some 62 else if N.eqb x 47 then Some 63 else None.
Definition pad : byte := x3d.

Fixpoint b64_encode (l : bytes) : bytes :=
  match l with
  | [] => []
  | [a] => let x := b2n a in [b64char (x / 4); b64char (x mod 4 * 16); pad; pad]
  | [a; b] => let x := b2n a in let y := b2n b in
              [b64char (x / 4); b64char (x mod 4 * 16 + y / 16); b64char (y mod 16 * 4); pad]
  | a :: b :: c :: r =>
    let x := b2n a in let y := b2n b in let z := b2n c in
    b64char (x / 4) :: b64char (x mod 4 * 16 + y / 16) :: b64char (y mod 16 * 4 + z / 64)
      :: b64char (z mod 64) :: b64_encode r
  end.

Definition b64_last (a b c d : byte) : res bytes :=
  match b64val a, b64val b with
  | Some s1, Some s2 =>
    if byte_eqb c pad then
      if byte_eqb d pad && N.eqb (s2 mod 16) 0 then Ok [n2b (s1 * 4 + s2 / 16)] else bad
    else match b64val c with
      | Some s3 =>
        if byte_eqb d pad then
          if N.eqb (s3 mod 4) 0 then Ok [n2b (s1 * 4 + s2 / 16); n2b (s2 mod 16 * 16 + s3 / 4)] else bad
        else match b64val d with
          | Some s4 => Ok [n2b (s1 * 4 + s2 / 16); n2b (s2 mod 16 * 16 + s3 / 4); n2b (s3 mod 4 * 64 + s4)]
          | None => bad
          end
      | None => bad
      end
  | _, _ => bad
  end.

Fixpoint b64_decode (l : bytes) : res bytes :=
  match l with
  | [] => Ok []
  | a :: b :: c :: d :: r =>
    match r with
    | [] => b64_last a b c d
    | _ =>
      match b64val a, b64val b, b64val c, b64val d with
      | Some s1, Some s2, Some s3, Some s4 =>
        do rest <- b64_decode r;
        Ok (n2b (s1 * 4 + s2 / 16) :: n2b (s2 mod 16 * 16 + s3 / 4) :: n2b (s3 mod 4 * 64 + s4) :: rest)
      | _, _, _, _ => bad
      end
    end
  | _ => bad
  end.

(* Value::from_str: "0x.." hex, "0s.." base64, anything else is the text itself *)
Definition value_of_string (s : bytes) : res bytes :=
  match strip_prefix (lit "0x") s with
  | Some r => hex_chunks r
  | None => match strip_prefix (lit "0s") s with
            | Some r => b64_decode r
            | None => Ok s
            end
  end.

Definition display_hex (v : bytes) : bytes := lit "0x" ++ hex v.           (* {:02x}, repaired D20 *)
Definition display_base64 (v : bytes) : bytes := lit "0s" ++ b64_encode v.

Definition dquote : byte := x22.
Definition backslash : byte := x5c.
Fixpoint escape_text (s : bytes) : bytes :=
  match s with
  | [] => []
  | c :: r => if byte_eqb c dquote || byte_eqb c backslash then backslash :: c :: escape_text r
              else c :: escape_text r
  end.
(* DisplayText: quoted and escaped when the value is UTF-8; otherwise the Utf8Error text
   (observed by the harness only as "not a quoted string") *)
Definition display_text (v : bytes) : res bytes :=
  if utf8_valid v then Ok (dquote :: escape_text v ++ [dquote]) else Err InvalidData.
Definition display_auto (v : bytes) : bytes :=
  match display_text v with Ok t => t | _ => display_hex v end.

(* ======================================================================== *)
(* Part file names (utils/path.rs, repaired D21)                              *)
(* ======================================================================== *)

(* split at the LAST dot: (before, after) *)
Fixpoint rsplit_dot (l : bytes) : option (bytes * bytes) :=
  match l with
  | [] => None
  | b :: r =>
    match rsplit_dot r with
    | Some (x, y) => Some (b :: x, y)
    | None => if byte_eqb b dot then Some ([], r) else None
    end
  end.

(* std::path rsplit_file_at_dot: (file_stem, extension) of a file name *)
Definition split_ext (f : bytes) : bytes * option bytes :=
  if bytes_eqb f (lit "..") then (f, None)
  else match rsplit_dot f with
       | Some ([], _) => (f, None)          (* ".hidden": the leading dot starts no extension *)
       | Some (x, y) => (x, Some y)
       | None => (f, None)
       end.

(* is_part_marker: "part" followed by at least one ASCII digit *)
Definition is_part_marker (e : bytes) : bool :=
  match strip_prefix (lit "part") e with
  | Some d => match d with [] => false | _ => forallb is_digit d end
  | None => false
  end.

Definition remove_part_name (f : bytes) : bytes :=
  match split_ext f with
  | (stem, Some e) =>
    if is_part_marker e then stem                       (* name.part1 -> name *)
    else match split_ext stem with
         | (s2, Some e2) => if is_part_marker e2 then s2 ++ dot :: e else f    (* name.part1.pna -> name.pna *)
         | (_, None) => f
         end
  | (_, None) => f
  end.

Definition lower (b : byte) : byte :=
  if N.leb 65 (b2n b) && N.leb (b2n b) 90 then n2b (b2n b + 32) else b.
Definition is_pna (e : bytes) : bool := bytes_eqb (map lower e) (lit "pna").   (* eq_ignore_ascii_case *)

Definition part_marker (n : N) : bytes := lit "part" ++ dec n.

(* insert the marker into a base name *)
Definition insert_part (b : bytes) (marker : bytes) : bytes :=
  match split_ext b with
  | (stem, Some e) => if is_pna e then stem ++ dot :: marker ++ dot :: e else b ++ dot :: marker
  | (_, None) => b ++ dot :: marker
  end.
Definition with_part_name (f : bytes) (n : N) : bytes := insert_part (remove_part_name f) (part_marker n).

(* paths: directory prefix (up to and including the last '/') + file name.  The model
   covers normalised paths: no trailing '/', no empty or "." / ".." last component
   (Path::file_name is None for those: the functions return None). *)
Fixpoint split_path (p : bytes) : bytes * bytes :=
  match p with
  | [] => ([], [])
  | b :: r => let (d, f) := split_path r in
              match d with
              | [] => if byte_eqb b slash then ([b], f) else ([], b :: f)
              | _ => (b :: d, f)
              end
  end.
Definition is_file_name (f : bytes) : bool :=
  negb (bytes_eqb f [] || bytes_eqb f (lit ".") || bytes_eqb f (lit "..")).

Definition remove_part (p : bytes) : option bytes :=
  let (d, f) := split_path p in
  if is_file_name f then Some (d ++ remove_part_name f) else None.
Definition with_part (p : bytes) (n : N) : option bytes :=
  let (d, f) := split_path p in
  if is_file_name f && is_file_name (remove_part_name f) then Some (d ++ with_part_name f n) else None.

(* ======================================================================== *)
(* chmod modes (command/chmod.rs)                                             *)
(* ======================================================================== *)

(* Target bits: u = 1, g = 2, o = 4 *)
Inductive mode :=
  | MNum (n : N) | MEqual (t m : N) | MPlus (t m : N) | MMinus (t m : N).

Definition target_apply (t n : N) : N :=
  N.lor (N.lor (if N.testbit t 0 then N.shiftl n 6 else 0)
               (if N.testbit t 1 then N.shiftl n 3 else 0))
        (if N.testbit t 2 then n else 0).

(* Mode::apply_to on a u16 permission word (`mode & !x` = ldiff) *)
Definition mode_apply (md : mode) (x : N) : N :=
  match md with
  | MNum n => n
  | MEqual t m =>                                   (* bits above 0o777 are kept (repaired) *)
    N.lor (N.ldiff x 511)
      (N.lor (N.lor (if N.testbit t 0 then N.shiftl m 6 else N.land x 448)
                    (if N.testbit t 1 then N.shiftl m 3 else N.land x 56))
             (if N.testbit t 2 then m else N.land x 7))
  | MPlus t m => N.lor x (target_apply t m)
  | MMinus t m => N.ldiff x (target_apply t m)
  end.

Fixpoint parse_rwx (l : bytes) (acc : N) : res N :=
  match l with
  | [] => Ok acc
  | c :: r =>
    if byte_eqb c x78 then parse_rwx r (N.lor acc 1)          (* x *)
    else if byte_eqb c x77 then parse_rwx r (N.lor acc 2)     (* w *)
    else if byte_eqb c x72 then parse_rwx r (N.lor acc 4)     (* r *)
    else bad
  end.

Fixpoint parse_symbolic (l : bytes) (target : N) (first : bool) : res mode :=
  match l with
  | [] => bad                                                    (* "mode must not be empty" *)
  | c :: r =>
    let t := if first then 7 else target in
    if byte_eqb c x75 then parse_symbolic r (N.lor target 1) false          (* u *)
    else if byte_eqb c x67 then parse_symbolic r (N.lor target 2) false     (* g *)
    else if byte_eqb c x6f then parse_symbolic r (N.lor target 4) false     (* o *)
    else if byte_eqb c x61 then parse_symbolic r (N.lor target 7) false     (* a *)
    else if byte_eqb c x2b then do m <- parse_rwx r 0; Ok (MPlus t m)       (* + *)
    else if byte_eqb c x2d then do m <- parse_rwx r 0; Ok (MMinus t m)      (* - *)
    else if byte_eqb c x3d then do m <- parse_rwx r 0; Ok (MEqual t m)      (* = *)
    else bad
  end.

Definition octal_digit (b : byte) : option N :=
  if N.leb 48 (b2n b) && N.leb (b2n b) 55 then Some (b2n b - 48) else None.

Definition mode_of_string (s : bytes) : res mode :=
  match s with
  | [] => bad
  | _ =>
    if forallb is_digit s then
      match s with
      | [a; b; c] =>
        match octal_digit a, octal_digit b, octal_digit c with
        | Some x, Some y, Some z => Ok (MNum (x * 64 + y * 8 + z))
        | _, _, _ => bad
        end
      | _ => bad
      end
    else parse_symbolic s 0 true
  end.

(* the canonical spelling of a mode (specification only: the CLI has no printer) *)
Definition mode_to_string (md : mode) : bytes :=
  let who t := (if N.testbit t 0 then [x75] else []) ++ (if N.testbit t 1 then [x67] else [])
               ++ (if N.testbit t 2 then [x6f] else []) in
  let what m := (if N.testbit m 2 then [x72] else []) ++ (if N.testbit m 1 then [x77] else [])
                ++ (if N.testbit m 0 then [x78] else []) in
  match md with
  | MNum n => [n2b (48 + n / 64 mod 8); n2b (48 + n / 8 mod 8); n2b (48 + n mod 8)]
  | MEqual t m => who t ++ x3d :: what m
  | MPlus t m => who t ++ x2b :: what m
  | MMinus t m => who t ++ x2d :: what m
  end.
