(* Name.v — entry-name sanitisation (lib/src/entry/name.rs) and link-reference
   normalisation (lib/src/entry/reference.rs), written from the observable behaviour
   of Path::components on Unix (camino and std agree on UTF-8 input). *)
From PNA Require Import Base.

Definition slash : byte := x2f.
Definition dot : byte := x2e.
Definition is_dot (c : bytes) : bool := bytes_eqb c [dot].
Definition is_dotdot (c : bytes) : bool := bytes_eqb c [dot; dot].
Definition is_empty (c : bytes) : bool := match c with [] => true | _ => false end.

Definition segments (s : bytes) : list bytes := fields slash s.

(* EntryName::new_from_utf8path: keep only Normal components, join with "/" *)
Definition normal_seg (c : bytes) : bool := negb (is_empty c) && negb (is_dot c) && negb (is_dotdot c).
Definition sanitize_name (s : bytes) : bytes := join [slash] (filter normal_seg (segments s)).

(* EntryName::try_from(&[u8]) : utf-8 check first *)
Definition name_of_bytes (s : bytes) : res bytes :=
  if utf8_valid s then Ok (sanitize_name s) else Err InvalidData.

(* EntryReference::new_from_utf8path *)
Definition has_root (s : bytes) : bool :=
  match s with b :: _ => byte_eqb b slash | [] => false end.
Definition normalize_reference (s : bytes) : bytes :=
  let root := has_root s in
  let segs := filter (fun c => negb (is_empty c)) (segments s) in
  let keep :=
    match segs with
    | [] => []
    | c :: r =>
      (if is_dot c then (if root then [] else [c]) else [c])
        ++ filter (fun c => negb (is_dot c)) r
    end in
  (if root then [slash] else []) ++ join [slash] keep.
