(* UpdateRun.v — case interpreter of the update area (C11 histories, C12 failure runs).
   Case formats (tab separated, no id here):
     hist  <archive>  <op> <op> ...     -> OK r1|r2|...   r = A:<archive> after the step, or E (step failed,
                                                          archive unchanged)
     fail  append   <archive>  <kd>;<kt>;<nodes>                 -> verdict
     fail  append_orig ...  (the unrepaired append of D14, kept for the record)
     fail  rewrite  <archive>  <dropped paths>  <k or ->         -> verdict   (delete, strip, chmod, chown,
                                                                   xattr, acl, migrate: run_transform_entry)
     fail  update   <archive>  <kd>;<kt>;<cond>;<excl>;<nodes>  <k or ->  -> verdict
   verdict = SAME | VALID_SUPERSET | BROKEN, followed by " TMP" when the temporary file is left behind,
             or DONE <archive> when no processed item fails.
   <archive> = entries joined by ","; entry = hex(path):kind:hex(content):mtime|-
   <nodes>   = walked nodes joined by ","; node = hex(path):kind:hex(content):mtime_ns
   <op>      = C;kd;kt;nodes | A;kd;kt;nodes | U;kd;kt;cond;excl;nodes | D;paths | N
   k         = index of the archive entry that cannot be read (corrupt, wrong password); nodes of an
               unsupported kind fail on their own. *)
From PNA Require Import Base Name CodecRun Update.

Definition semi : byte := x3b.
Definition colon : byte := x3a.
Definition pipe : byte := x7c.
Definition dash : bytes := lit "-".

Definition omap {A B} (f : A -> option B) (l : list A) : option (list B) := all_some (map f l).
Definition obind {A B} (o : option A) (f : A -> option B) : option B :=
  match o with Some a => f a | None => None end.

Definition parse_entry (s : bytes) : option entry :=
  match fields colon s with
  | [p; k; c; m] =>
    obind (unhex p) (fun p' => obind (undec k) (fun k' => obind (unhex c) (fun c' =>
      if bytes_eqb m dash then Some (mkE p' k' c' None)
      else obind (undec m) (fun m' => Some (mkE p' k' c' (Some m'))))))
  | _ => None
  end.
Definition parse_node (s : bytes) : option node :=
  match fields colon s with
  | [p; k; c; m] =>
    obind (unhex p) (fun p' => obind (undec k) (fun k' => obind (unhex c) (fun c' =>
      obind (undec m) (fun m' => Some (mkN p' k' c' m')))))
  | _ => None
  end.
Definition parse_archive (s : bytes) : option archive := omap parse_entry (list_field s).
Definition parse_nodes (s : bytes) : option (list node) := omap parse_node (list_field s).
Definition parse_paths (s : bytes) : option (list bytes) := omap unhex (list_field s).
Definition parse_bool (s : bytes) : option bool :=
  if bytes_eqb s (lit "1") then Some true else if bytes_eqb s (lit "0") then Some false else None.

Definition parse_op (s : bytes) : option op :=
  match fields semi s with
  | [t; kd; kt; ns] =>
    obind (parse_bool kd) (fun kd' => obind (parse_bool kt) (fun kt' => obind (parse_nodes ns) (fun ns' =>
      if bytes_eqb t (lit "C") then Some (OCreate kd' kt' ns')
      else if bytes_eqb t (lit "A") then Some (OAppend kd' kt' ns') else None)))
  | [t; kd; kt; c; ex; ns] =>
    if bytes_eqb t (lit "U") then
      obind (parse_bool kd) (fun kd' => obind (parse_bool kt) (fun kt' => obind (undec c) (fun c' =>
      obind (parse_paths ex) (fun ex' => obind (parse_nodes ns) (fun ns' =>
        Some (OUpdate kd' kt' ex' c' ns'))))))
    else None
  | [t; ps] => if bytes_eqb t (lit "D") then obind (parse_paths ps) (fun ps' => Some (ODelete ps')) else None
  | [t] => if bytes_eqb t (lit "N") then Some ONop else None
  | _ => None
  end.

Definition show_entry (e : entry) : bytes :=
  join [colon] [hex (e_path e); dec (e_kind e); hex (e_content e);
                match e_mtime e with Some m => dec m | None => dash end].
Definition show_archive (a : archive) : bytes := join [comma] (map show_entry a).
Definition show_step (r : res archive) : bytes :=
  match r with Ok a => lit "A:" ++ show_archive a | _ => lit "E" end.

(* ---- C12 runs ---- *)
Definition tmp_path : bytes := lit "tmp".
Definition target_path : bytes := lit "target".

Fixpoint first_bad (ns : list node) (k : nat) : option nat :=
  match ns with
  | [] => None
  | n :: r => if creatable n then first_bad r (S k) else Some k
  end.

Definition show_verdict (v : verdict) : bytes :=
  match v with Same => lit "SAME" | ValidSuperset => lit "VALID_SUPERSET" | Broken => lit "BROKEN" end.

Definition observe (a : archive) (s : list eff) (k : option nat) : bytes :=
  let fs0 := [(target_path, mkF a true)] in
  match k with
  | Some k' =>
    let fs := run_failing s fs0 k' in
    show_verdict (result_file (mkF a true) fs target_path)
      ++ match file fs tmp_path with Some _ => lit " TMP" | None => [] end
  | None =>
    let fs := run_ok s fs0 in
    match file fs target_path with
    | Some f => (if f_end f then lit "DONE " else lit "UNTERMINATED ") ++ show_archive (f_entries f)
                ++ match file fs tmp_path with Some _ => lit " TMP" | None => [] end
    | None => lit "MISSING"
    end
  end.

Definition parse_k (s : bytes) (n : nat) : option (option nat) :=
  if bytes_eqb s dash then Some None
  else match undec s with
       | Some k => if N.ltb k (N.of_nat n) then Some (Some (N.to_nat k)) else Some None
       | None => None
       end.

Definition run_fail (args : list bytes) : bytes :=
  match args with
  | [c; a; o] =>
    match parse_archive a, fields semi o with
    | Some a', [kd; kt; ns] =>
      match parse_bool kd, parse_bool kt, parse_nodes ns with
      | Some kd', Some kt', Some ns' =>
        match collect kd' ns' with
        | Ok items =>
          let new := map (fresh kt') items in
          if bytes_eqb c (lit "append") then observe a' (append_script target_path new) (first_bad items 0)
          else if bytes_eqb c (lit "append_orig") then observe a' (append_script_orig target_path new) (first_bad items 0)
          else bad_case
        | _ => lit "SAME"                 (* the walker fails before the archive is touched *)
        end
      | _, _, _ => bad_case
      end
    | _, _ => bad_case
    end
  | [c; a; x; k] =>
    match parse_archive a with
    | Some a' =>
      if bytes_eqb c (lit "rewrite") then
        match parse_paths x, parse_k k (length a') with
        | Some dropped, Some k' =>
          observe a' (rewrite_script tmp_path target_path
                        (fun e => if mem (e_path e) dropped then None else Some e) a') k'
        | _, _ => bad_case
        end
      else if bytes_eqb c (lit "update") then
        match fields semi x, parse_k k (length a') with
        | [kd; kt; cnd; ex; ns], Some k' =>
          match parse_bool kd, parse_bool kt, undec cnd, parse_paths ex, parse_nodes ns with
          | Some kd', Some kt', Some c', Some ex', Some ns' =>
            match collect kd' ns' with
            | Ok items =>
              let '(kept, jobs, rest) := update_pass ex' c' a' items [] in
              let flags := pass_flags ex' c' a' items [] in
              let k'' := match k' with
                         | Some i => Some i
                         | None => match first_bad (jobs ++ rest) 0 with
                                   | Some j => Some (length a' + j)%nat
                                   | None => None
                                   end
                         end in
              observe a' (update_script tmp_path target_path a' flags (map (fresh kt') (jobs ++ rest))) k''
            | _ => lit "SAME"
            end
          | _, _, _, _, _ => bad_case
          end
        | _, _ => bad_case
        end
      else bad_case
    | None => bad_case
    end
  | _ => bad_case
  end.

Definition run_update (op_ : bytes) (args : list bytes) : bytes :=
  if bytes_eqb op_ (lit "hist") then
    match args with
    | a :: ops =>
      match parse_archive a, omap parse_op ops with
      | Some a', Some ops' => lit "OK " ++ join [pipe] (map show_step (run_hist a' ops'))
      | _, _ => bad_case
      end
    | _ => bad_case
    end
  else if bytes_eqb op_ (lit "fail") then run_fail args
  else bad_case.

Definition run_line := run_line_with run_update.
