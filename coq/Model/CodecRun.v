(* CodecRun.v — case interpreter of the codec area: one TSV case -> canonical outcome.
   The output formats mirror harness/src/bin/codec.rs. *)
From PNA Require Import Base Name Codec.

Definition sp : bytes := lit " ".
Definition cat (l : list bytes) : bytes := join sp l.
Definition showb (b : bool) : bytes := if b then lit "1" else lit "0".

Definition kind_arg n := match kind_of_n n with Some k => k | None => KHardlink end.
Definition comp_arg n := match comp_of_n n with Some k => k | None => CXz end.
Definition enc_arg n := match enc_of_n n with Some k => k | None => ECamellia end.
Definition mode_arg n := match mode_of_n n with Some k => k | None => MCtr end.

Definition run_codec (op : bytes) (args : list bytes) : bytes :=
  let N_ i := match undec (nth i args []) with Some n => n | None => 0 end in
  let H_ i := match unhex (nth i args []) with Some b => b | None => [] end in
  if bytes_eqb op (lit "ahed_enc") then
    lit "OK " ++ hex (ahed_to_bytes {| a_major := N_ 0%nat; a_minor := N_ 1%nat; a_number := N_ 2%nat |})
  else if bytes_eqb op (lit "ahed_dec") then
    show_res (fun h => cat [dec (a_major h); dec (a_minor h); dec (a_number h)]) (ahed_of_bytes (H_ 0%nat))
  else if bytes_eqb op (lit "fhed_enc") then
    lit "OK " ++ hex (fhed_to_bytes {| f_major := 0; f_minor := 0; f_kind := kind_arg (N_ 0%nat);
        f_comp := comp_arg (N_ 1%nat); f_enc := enc_arg (N_ 2%nat); f_mode := mode_arg (N_ 3%nat);
        f_name := sanitize_name (H_ 4%nat) |})
  else if bytes_eqb op (lit "fhed_dec") then
    show_res (fun h => cat [dec (f_major h); dec (f_minor h); dec (kind_to_n (f_kind h));
                            dec (comp_to_n (f_comp h)); dec (enc_to_n (f_enc h));
                            dec (mode_to_n (f_mode h)); hex (f_name h)]) (fhed_of_bytes (H_ 0%nat))
  else if bytes_eqb op (lit "shed_enc") then
    lit "OK " ++ hex (shed_to_bytes {| s_major := 0; s_minor := 0; s_comp := comp_arg (N_ 0%nat);
        s_enc := enc_arg (N_ 1%nat); s_mode := mode_arg (N_ 2%nat) |})
  else if bytes_eqb op (lit "shed_dec") then
    show_res (fun h => cat [dec (s_major h); dec (s_minor h); dec (comp_to_n (s_comp h));
                            dec (enc_to_n (s_enc h)); dec (mode_to_n (s_mode h))]) (shed_of_bytes (H_ 0%nat))
  else if bytes_eqb op (lit "perm_enc") then
    lit "OK " ++ hex (perm_to_bytes {| p_uid := N_ 0%nat; p_uname := H_ 1%nat; p_gid := N_ 2%nat;
                                       p_gname := H_ 3%nat; p_mode := N_ 4%nat |})
  else if bytes_eqb op (lit "perm_dec") then
    show_res (fun p => cat [dec (p_uid p); hex (p_uname p); dec (p_gid p); hex (p_gname p); dec (p_mode p)])
             (perm_of_bytes (H_ 0%nat))
  else if bytes_eqb op (lit "xattr_enc") then
    lit "OK " ++ hex (xattr_to_bytes {| x_name := H_ 0%nat; x_value := H_ 1%nat |})
  else if bytes_eqb op (lit "xattr_dec") then
    show_res (fun x => cat [hex (x_name x); hex (x_value x)]) (xattr_of_bytes (H_ 0%nat))
  else if bytes_eqb op (lit "time_dec") then show_res dec (time_of_bytes (H_ 0%nat))
  else if bytes_eqb op (lit "time_enc") then lit "OK " ++ hex (time_to_bytes (N_ 0%nat))
  else if bytes_eqb op (lit "fsiz_dec") then lit "OK " ++ dec (fsiz_of_bytes (H_ 0%nat))
  else if bytes_eqb op (lit "fsiz_enc") then lit "OK " ++ hex (fsiz_to_bytes (fsiz_of_bytes (H_ 0%nat)))
  else if bytes_eqb op (lit "name_str") || bytes_eqb op (lit "name_lossy") || bytes_eqb op (lit "name_path")
    then lit "OK " ++ hex (sanitize_name (H_ 0%nat))
  else if bytes_eqb op (lit "name_bytes") || bytes_eqb op (lit "name_fhed")
    then show_res hex (name_of_bytes (H_ 0%nat))
  else if bytes_eqb op (lit "ref_str") || bytes_eqb op (lit "ref_lossy") || bytes_eqb op (lit "ref_path")
  then lit "OK " ++ hex (normalize_reference (H_ 0%nat))
  else if bytes_eqb op (lit "ty_bits") then
    let t := H_ 0%nat in
    lit "OK " ++ cat [showb (ty_is_critical t); showb (ty_is_private t); showb (ty_is_reserved t);
                      showb (ty_is_safe_to_copy t); dec (ty_private_check t)]
  else bad_case.

(* a whole line: fields are id, op, args...; answer is "id<TAB>outcome" *)
Definition tab : byte := x09.
Definition run_line_with (run : bytes -> list bytes -> bytes) (line : bytes) : bytes :=
  match fields tab line with
  | id :: op :: args => id ++ [tab] ++ run op args
  | _ => bad_case
  end.
Definition run_line := run_line_with run_codec.
