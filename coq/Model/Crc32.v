(* Crc32.v — CRC-32 (IEEE, reflected 0xEDB88320) as used by crc32fast::Hasher in
   lib/src/chunk/traits.rs::Chunk::crc and chunk/read.rs. Bitwise definition. *)
From PNA Require Import Base.

Definition poly : N := 0xEDB88320.
Definition step1 (c : N) : N :=
  if N.odd c then N.lxor (N.shiftr c 1) poly else N.shiftr c 1.
Definition upd (c : N) (b : byte) : N :=
  let x := N.lxor c (b2n b) in
  step1 (step1 (step1 (step1 (step1 (step1 (step1 (step1 x))))))).
Definition crc_init : N := 0xFFFFFFFF.
Definition crc_state (bs : bytes) : N := fold_left upd bs crc_init.
Definition crc32 (bs : bytes) : N := N.lxor (crc_state bs) 0xFFFFFFFF.
