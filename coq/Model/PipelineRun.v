(* PipelineRun.v — case interpreter of the pipeline area: Pipeline.v run with the real block ciphers
   (Aes.aes_enc/aes_dec, Camellia.cam_enc/cam_dec) against libpna, byte for byte.
   The formats mirror harness/src/bin/pipeline.rs.

   What stays an oracle (carried in the case line, computed by the harness with the primitive crates):
     verify      PHSF string -> key            table  `phsfhex:keyhex` or `phsfhex:!Kind`, comma separated
     decompress  compressed stream -> bytes    table  `streamhex:plainhex` or `streamhex:!Kind`
     compress    the pieces the compressor handed to its inner writer (field `pieces` of a spec)
   With compression = store nothing of the data path is an oracle: the model predicts the bytes from
   (key, IV, PHSF string, the caller's writes) alone.

   Byte strings are hex, the empty one is "-"; numbers decimal; an absent optional value is "-"; lists of
   byte strings are `hex,hex,..` with the empty list written as the empty field.
   entry spec  E  = how|kind|comp|level|enc|mode|key|iv|phsf|name|writes|ctime|mtime|atime|perm|xattrs|extras|pieces
       how     b = EntryBuilder (new_file/new_dir/new_symbolic_link/new_hard_link, write*, build),
               w = write_file (Archive::write_file, or SolidArchive::write_file inside `sarch`: always store)
       kind 0 file 1 dir 2 symlink 3 hardlink; comp 0 store 1 deflate 2 zstd 4 xz; enc 0 none 1 AES 2 Camellia;
       mode 0 CBC 1 CTR; writes = the write() calls in order `hex,hex,..` (for links the first one is the
       reference new_*_link writes itself); perm = uid:unamehex:gid:gnamehex:mode;
       xattrs = namehex:valuehex,..; extras = typehex:datahex,..; pieces = hex,hex,..
   solid config C = comp|level|enc|mode|key|iv|phsf|pieces
   Operations (the first three arguments — password, read buffer sizes, what the implementation produced —
   are for the implementation side only):
     build  pw bufs produced E                 -> OK <hex of the entry's chunks> <raw size|-> <compressed size>
     wfile  pw bufs produced E                 -> OK <hex of the entry's chunks>
     solid  pw bufs produced C extras E;E;..   -> OK <hex of the solid entry's chunks>      (SolidEntryBuilder)
     sarch  pw bufs produced C E;E;..          -> OK <hex of the solid entry's chunks>      (SolidArchive)
     arch   pw bufs produced item item ..      -> OK <hex of the archive>
            item = n~E | s~C~extras~E;E;.. | S~C~E;E;..   (S = the streaming SolidArchive)
     decode archivehex vtab dtab bufs [..]     -> OK entry;entry;..  | ERR kind
            normal entry  N|name|kind|comp|enc|mode|content|raw|csize|ctime|mtime|atime|perm|xattrs|extras
            solid entry   S~comp~enc~mode~extras~inner^inner^..~end     (inner entries in the normal format,
                          end = ok | !Kind;  the whole inner part is !Kind when the stream cannot be opened)
            content = hex | !Kind.  Contents are read with the buffer sizes `bufs`, cyclically, until a read
            returns nothing.  A solid entry is expanded lazily (Pipeline.decode_solid_lazy): the inner entries
            yielded, then how the iteration ended — `ok`, or the error the iterator yielded last (a stored CBC
            stream with a damaged end yields the entries in front of the damage first).  A stored solid stream
            is pulled with 16-byte reads: the decrypting reader then hands out one cipher block per read and no
            byte is lost inside a failing read, which is what ChunkReader's read_exact calls amount to
            (LazySolidFacts: reads16_deliver_all, chunk_reader_refines); a compressed one with 8192-byte reads
            (decoded eagerly, as before).                                                                  *)
From PNA Require Import Base Crc32 Name Codec Chunk Archive Entry Flatten Cbc Ctr Pipeline Aes Camellia CodecRun StreamRun.

Definition bar : byte := x7c.
Definition semi : byte := x3b.
Definition tilde : byte := x7e.
Definition colon : byte := x3a.
Definition caret : byte := x5e.

Definition numf (f : bytes) : N := match undec f with Some n => n | None => 0 end.
Definition optf (f : bytes) : option N := undec f.                                  (* "-" -> None *)
Definition hexf (f : bytes) : bytes := match unhex_item f with Some b => b | None => [] end.
Definition listf (sep : byte) (f : bytes) : list bytes := match f with [] => [] | _ => fields_lin sep f end.
(* a list of byte strings: the empty field is the empty list, "-" is the list holding one empty string *)
Definition hexlistf (f : bytes) : list bytes := map hexf (listf comma f).

Definition perm_arg (f : bytes) : option perm :=
  match fields_lin colon f with
  | [u; un; g; gn; m] => Some {| p_uid := numf u; p_uname := hexf un; p_gid := numf g; p_gname := hexf gn; p_mode := numf m |}
  | _ => None
  end.
Definition xattr_arg (f : bytes) : xattr :=
  match fields_lin colon f with
  | [n; v] => {| x_name := hexf n; x_value := hexf v |}
  | _ => {| x_name := []; x_value := [] |}
  end.
Definition chunk_arg (f : bytes) : chunk :=
  match fields_lin colon f with
  | [t; d] => mk (hexf t) (hexf d)
  | _ => mk [] []
  end.
Definition chunks_arg (f : bytes) : list chunk := if bytes_eqb f dash then [] else map chunk_arg (listf comma f).

(* ---- specs ------------------------------------------------------------------------------------------- *)
Record espec := { e_how : bool (* true = write_file *); e_cfg : config; e_ctx : cctx; e_sp : spec;
                  e_wcuts : list bytes; e_pieces : list bytes }.

Definition cfg_of (c l e m : bytes) : config :=
  {| g_comp := comp_arg (numf c); g_level := numf l; g_enc := enc_arg (numf e); g_mode := mode_arg (numf m) |}.
Definition ctx_of (k i p : bytes) : cctx := {| c_key := hexf k; c_iv := hexf i; c_phsf := hexf p |}.

Definition espec_arg (f : bytes) : espec :=
  let a := fields_lin bar f in
  let A_ i := nth i a [] in
  {| e_how := bytes_eqb (A_ 0%nat) (lit "w");
     e_cfg := cfg_of (A_ 2%nat) (A_ 3%nat) (A_ 4%nat) (A_ 5%nat);
     e_ctx := ctx_of (A_ 6%nat) (A_ 7%nat) (A_ 8%nat);
     e_sp := {| sp_kind := kind_arg (numf (A_ 1%nat)); sp_name := hexf (A_ 9%nat);
                sp_content := concat (hexlistf (A_ 10%nat));
                sp_ctime := optf (A_ 11%nat); sp_mtime := optf (A_ 12%nat); sp_atime := optf (A_ 13%nat);
                sp_perm := perm_arg (A_ 14%nat);
                sp_xattrs := if bytes_eqb (A_ 15%nat) dash then [] else map xattr_arg (listf comma (A_ 15%nat));
                sp_extra := chunks_arg (A_ 16%nat) |};
     e_wcuts := hexlistf (A_ 10%nat);
     e_pieces := hexlistf (A_ 17%nat) |}.

Record sspec := { s_cfg : config; s_ctx : cctx; s_pieces : list bytes }.
Definition sspec_arg (f : bytes) : sspec :=
  let a := fields_lin bar f in
  let A_ i := nth i a [] in
  {| s_cfg := cfg_of (A_ 0%nat) (A_ 1%nat) (A_ 2%nat) (A_ 3%nat);
     s_ctx := ctx_of (A_ 4%nat) (A_ 5%nat) (A_ 6%nat);
     s_pieces := hexlistf (A_ 7%nat) |}.

(* the compressor oracle of one pipeline: whatever it is fed, it hands on the observed pieces *)
Definition comp_oracle (pieces : list bytes) (_ : compression) (_ : N) (_ : list bytes) : list bytes := pieces.

(* ---- writers -------------------------------------------------------------------------------------------- *)
Definition built (e : espec) : normal_entry :=
  build_normal real_E_of (comp_oracle (e_pieces e)) (e_cfg e) (e_ctx e) (e_sp e) (e_wcuts e).
(* the chunks of one entry as they go to an archive (or into a solid stream) *)
Definition espec_chunks (solid : bool) (e : espec) : list chunk :=
  if e_how e
  then stream_file_chunks real_E_of (comp_oracle (e_pieces e))
         (if solid then store_file_cfg else e_cfg e) (e_ctx e) (e_sp e) (e_wcuts e)
  else ser_normal (built e).
Definition especs_arg (f : bytes) : list espec := if bytes_eqb f dash then [] else map espec_arg (listf semi f).

(* SolidEntryBuilder: the inner entries' chunks, written chunk by chunk into the solid pipeline *)
Definition solid_built (s : sspec) (extras : list chunk) (inner : list espec) : solid_entry :=
  build_solid real_E_of (comp_oracle (s_pieces s)) (s_cfg s) (s_ctx s) extras
    (chunks_writes (concat (map (espec_chunks true) inner))).
Definition solid_streamed_chunks (s : sspec) (inner : list espec) : list chunk :=
  solid_archive_chunks real_E_of (comp_oracle (s_pieces s)) (s_cfg s) (s_ctx s)
    (chunks_writes (concat (map (espec_chunks true) inner))).

Definition item_chunks (f : bytes) : list chunk :=
  match fields_lin tilde f with
  | [k; e] => espec_chunks false (espec_arg e)
  | [k; c; x; es] => ser_solid (solid_built (sspec_arg c) (chunks_arg x) (especs_arg es))
  | [k; c; es] => solid_streamed_chunks (sspec_arg c) (especs_arg es)
  | _ => []
  end.

(* ---- reader --------------------------------------------------------------------------------------------- *)
Definition ekind_arg (f : bytes) : ekind :=
  if bytes_eqb f (lit "!UnexpectedEof") then UnexpectedEof
  else if bytes_eqb f (lit "!InvalidData") then InvalidData
  else if bytes_eqb f (lit "!InvalidInput") then InvalidInput
  else if bytes_eqb f (lit "!Unsupported") then Unsupported
  else if bytes_eqb f (lit "!AlreadyExists") then AlreadyExists
  else if bytes_eqb f (lit "!NotFound") then NotFound
  else OtherErr.
Definition is_bang (f : bytes) : bool := match f with b :: _ => byte_eqb b x21 | [] => false end.
Definition table := list (bytes * res bytes).
Definition table_arg (f : bytes) : table :=
  if bytes_eqb f dash then [] else
  map (fun it => match fields_lin colon it with
                 | [k; v] => (hexf k, if is_bang v then Err (ekind_arg v) else Ok (hexf v))
                 | _ => ([], Err OtherErr)
                 end) (listf comma f).
Fixpoint lookup (t : table) (k : bytes) : res bytes :=
  match t with
  | [] => Err OtherErr
  | (k', v) :: r => if bytes_eqb k k' then v else lookup r k
  end.
Definition verify_tab (t : table) (phsf _ : bytes) : res bytes := lookup t phsf.
Definition decompress_tab (t : table) (_ : compression) (stream : bytes) : res bytes := lookup t stream.

(* the caller's loop (read until a read returns nothing), as the finite list of reads it amounts to:
   every read before the end returns at least one byte, so `n + 1` reads reach the end of n bytes *)
Fixpoint cycle_to (fuel : nat) (cur cyc : list N) : list N :=
  match fuel with
  | O => []
  | S f => match cur with
           | [] => match cyc with [] => [] | s :: r => s :: cycle_to f r cyc end
           | s :: r => s :: cycle_to f r cyc
           end
  end.
Definition reads_for (sizes : list N) (data : list bytes) : list N :=
  cycle_to (S (S (length (concat data)))) sizes sizes.

Definition show_optN (o : option N) : bytes := match o with Some n => dec n | None => dash end.
Definition show_perm (o : option perm) : bytes :=
  match o with
  | None => dash
  | Some p => join [colon] [dec (p_uid p); hex_item (p_uname p); dec (p_gid p); hex_item (p_gname p); dec (p_mode p)]
  end.
Definition show_list (f : list bytes) : bytes := match f with [] => dash | _ => join commas f end.
Definition show_chunks (cs : list chunk) : bytes :=
  show_list (map (fun c => hex_item (cty c) ++ [colon] ++ hex_item (cdata c)) cs).
Definition show_content (r : res bytes) : bytes :=
  match r with Ok b => hex_item b | Err e => show_err_item e | Panic => lit "!PANIC" end.

Section Reader.
Variable vt dt : table.
Variable sizes : list N.

Definition content_of (e : normal_entry) : res bytes :=
  decode_normal real_E_of real_D_of (decompress_tab dt) (verify_tab vt) e [] (reads_for sizes (n_data e)).
Definition show_normal (e : normal_entry) : bytes :=
  let h := n_hdr e in let m := n_meta e in
  join [bar] [lit "N"; hex_item (f_name h); dec (kind_to_n (f_kind h)); dec (comp_to_n (f_comp h));
              dec (enc_to_n (f_enc h)); dec (mode_to_n (f_mode h)); show_content (content_of e);
              show_optN (m_raw_size m); dec (m_compressed m);
              show_optN (m_ctime m); show_optN (m_mtime m); show_optN (m_atime m); show_perm (m_perm m);
              show_list (map (fun x => hex_item (x_name x) ++ [colon] ++ hex_item (x_value x)) (n_xattrs e));
              show_chunks (n_extra e)].
Definition show_fin (f : fin) : bytes :=
  match f with FinOk => lit "ok" | FinErr e => show_err_item e | FinPanic => lit "!PANIC" end.
Definition solid_reads (s : solid_entry) : list N :=
  reads_for [match s_comp (so_hdr s) with CNo => 16 | _ => 8192 end] (so_data s).
Definition show_solid (s : solid_entry) : bytes :=
  let h := so_hdr s in
  join [tilde] ([lit "S"; dec (comp_to_n (s_comp h)); dec (enc_to_n (s_enc h)); dec (mode_to_n (s_mode h));
                 show_chunks (so_extra s)] ++
    match decode_solid_lazy real_E_of real_D_of (decompress_tab dt) (verify_tab vt) s [] (solid_reads s) with
    | Ok (inner, f) => [join [caret] (map show_normal inner); show_fin f]
    | Err e => [show_err_item e]
    | Panic => [lit "!PANIC"]
    end).
Definition show_entry (e : read_entry) : bytes :=
  match e with RNormal n => show_normal n | RSolid s => show_solid s end.
End Reader.

(* ---- the interpreter ------------------------------------------------------------------------------------- *)
Definition ok_hex (b : bytes) : bytes := lit "OK " ++ hex_item b.

Definition run_pipeline (op : bytes) (args : list bytes) : bytes :=
  let A_ i := nth i args [] in
  if bytes_eqb op (lit "build") then
    let e := built (espec_arg (A_ 3%nat)) in
    cat [ok_hex (ser_chunks (ser_normal e)); show_optN (m_raw_size (n_meta e)); dec (m_compressed (n_meta e))]
  else if bytes_eqb op (lit "wfile") then
    let e := espec_arg (A_ 3%nat) in
    ok_hex (ser_chunks (stream_file_chunks real_E_of (comp_oracle (e_pieces e)) (e_cfg e) (e_ctx e) (e_sp e) (e_wcuts e)))
  else if bytes_eqb op (lit "solid") then
    ok_hex (ser_chunks (ser_solid (solid_built (sspec_arg (A_ 3%nat)) (chunks_arg (A_ 4%nat)) (especs_arg (A_ 5%nat)))))
  else if bytes_eqb op (lit "sarch") then
    ok_hex (ser_chunks (solid_streamed_chunks (sspec_arg (A_ 3%nat)) (especs_arg (A_ 4%nat))))
  else if bytes_eqb op (lit "arch") then
    ok_hex (write_raw_archive 0 (map item_chunks (skipn 3 args)))
  else if bytes_eqb op (lit "decode") then
    let vt := table_arg (A_ 1%nat) in
    let dt := table_arg (A_ 2%nat) in
    let sizes := declist (A_ 3%nat) in
    show_res (fun es => join [semi] (map (show_entry vt dt sizes) es)) (read_archive (hexf (A_ 0%nat)))
  else bad_case.

Definition run_line (line : bytes) : bytes :=
  match fields_lin tab line with
  | id :: op :: args => id ++ [tab] ++ run_pipeline op args
  | _ => bad_case
  end.
