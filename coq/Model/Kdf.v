(* Kdf.v — the key-derivation plumbing (C16, C08).
   mirrors: lib/src/entry/write.rs (get_writer_context / to_hashed / hash: salt and IV are drawn,
   the hash is TAKEN OUT of the PasswordHash before it is printed: PHSF = PHC string without
   hash), lib/src/random.rs (salt = 16 random bytes printed as unpadded base64, IV = 16 random
   bytes; one draw per writer context), lib/src/hash.rs (verify_password: parse the PHSF, feed
   exactly its algorithm, version, parameters and salt to the KDF together with the password
   bytes as given), lib/src/entry/read.rs:23-59 (decrypt_reader: missing PHSF -> InvalidData,
   missing password -> InvalidInput, IV = first 16 bytes of the data stream),
   lib/src/entry/options.rs (HashAlgorithm parameters), lib/src/archive/write.rs and
   lib/src/entry/builder.rs (which writer kinds create a context: one per entry, one per solid
   stream; entries inside a solid stream are stored without their own context).
   The KDF itself, the PHC string codec of the `password-hash` crate and the parameter validity
   rules of the KDF crates are Section variables; executable stand-ins follow the section:
   the PHC printer/parser of password-hash 0.5 (PasswordHash::new / Display: identifier, value,
   salt and hash rules, length limits), the rules of pbkdf2 0.12 / argon2 0.5
   Params::try_from(&PasswordHash) and of their hashing front ends, and a KDF that returns the
   *term* KDF(alg|version|params|salt|password), so that running the model shows exactly what
   is fed to the KDF. *)
From PNA Require Import Base Codec.

(* ---- PHC records ----------------------------------------------------------------------- *)
(* PasswordHash: the parameter VALUES are text (ParamsString keeps the string; the KDF crates
   interpret them), the version is a number, salt and hash are held decoded *)
Record phc := { ph_alg : bytes; ph_version : option N; ph_params : list (bytes * bytes);
                ph_salt : option bytes; ph_hash : option bytes }.

(* what a writer may ask for (entry/options.rs HashAlgorithmParams; None = the crate default) *)
Inductive hash_alg :=
  | Pbkdf2Sha256 (rounds : option N)
  | Argon2Id (t m p : option N).

Definition dflt (d : N) (o : option N) : N := match o with Some n => n | None => d end.
Definition alg_name (h : hash_alg) : bytes :=
  match h with Pbkdf2Sha256 _ => lit "pbkdf2-sha256" | Argon2Id _ _ _ => lit "argon2id" end.
(* the parameters as recorded: pbkdf2 Params{rounds, output_length = 32} prints i, l;
   argon2 Params prints m, t, p and the version 19 *)
Definition alg_version (h : hash_alg) : option N :=
  match h with Pbkdf2Sha256 _ => None | Argon2Id _ _ _ => Some 19 end.
Definition alg_params_n (h : hash_alg) : list (bytes * N) :=
  match h with
  | Pbkdf2Sha256 r => [(lit "i", dflt 600000 r); (lit "l", 32)]
  | Argon2Id t m p => [(lit "m", dflt 19456 m); (lit "t", dflt 2 t); (lit "p", dflt 1 p)]
  end.
(* ParamsString::add_decimal: the value is the decimal text of the number *)
Definition alg_params (h : hash_alg) : list (bytes * bytes) :=
  map (fun kv => (fst kv, dec (snd kv))) (alg_params_n h).
Definition writer_record (h : hash_alg) (salt : bytes) (hash : option bytes) : phc :=
  {| ph_alg := alg_name h; ph_version := alg_version h; ph_params := alg_params h;
     ph_salt := Some salt; ph_hash := hash |}.
Definition U32 : N := 2 ^ 32.
(* the parameters of the Rust type are u32; a choice outside that range is not a value of the type *)
Definition fits_u32 (h : hash_alg) : bool := forallb (fun kv => N.ltb (snd kv) U32) (alg_params_n h).

Definition encrypted_b (e : encryption) : bool := match e with ENo => false | _ => true end.
Definition SALT_LEN : nat := 16.
Definition IV_LEN : nat := 16.

Section Plumbing.
  Variable key : Type.
  (* the key-derivation function: algorithm, version, parameters, salt BYTES, password bytes *)
  Variable kdf : bytes -> option N -> list (bytes * bytes) -> bytes -> bytes -> key.
  (* the parameter / salt rules of the KDF crates (Params::try_from(&PasswordHash) and the hashing
     front ends): algorithm, version, parameters, salt bytes, and the hash of the record if it has one *)
  Variable kdf_valid : bytes -> option N -> list (bytes * bytes) -> bytes -> option bytes -> bool.
  (* algorithms verify_password dispatches on *)
  Variable alg_supported : bytes -> bool.
  (* the PHC string codec *)
  Variable phc_print : phc -> bytes.
  Variable phc_parse : bytes -> option phc.

  Record ctx := { ctx_phsf : bytes; ctx_iv : bytes; ctx_key : key; ctx_mode : cipher_mode;
                  ctx_segment : bytes (* the piece of the random tape this context consumed *) }.

  (* get_writer_context for Some(cipher): salt_string(), hash(), random_vec(16).
     Returns the context and the unread rest of the tape. *)
  Definition writer_context (m : cipher_mode) (h : hash_alg) (pw : bytes) (tape : bytes) : res (ctx * bytes) :=
    if Nat.ltb (length tape) (SALT_LEN + IV_LEN) then Err OtherErr else       (* the RNG failed *)
    let salt := firstn SALT_LEN tape in
    let iv := firstn IV_LEN (skipn SALT_LEN tape) in
    let r := writer_record h salt None in
    (* argon2: ParamsBuilder::context fails with InvalidInput; pbkdf2 has no writer-side rule *)
    if negb (kdf_valid (ph_alg r) (ph_version r) (ph_params r) salt None) then Err InvalidInput else
    Ok ({| ctx_phsf := phc_print r;                                         (* hash taken out before printing *)
           ctx_iv := iv;
           ctx_key := kdf (ph_alg r) (ph_version r) (ph_params r) salt pw;
           ctx_mode := m;
           ctx_segment := firstn (SALT_LEN + IV_LEN) tape |},
        skipn (SALT_LEN + IV_LEN) tape).

  (* hash.rs verify_password *)
  Definition reader_key (phsf pw : bytes) : res key :=
    match phc_parse phsf with
    | None => Err InvalidData
    | Some p =>
      if negb (alg_supported (ph_alg p)) then Err Unsupported else
      match ph_salt p with
      | None => Err InvalidData
      | Some salt =>
        if negb (kdf_valid (ph_alg p) (ph_version p) (ph_params p) salt (ph_hash p)) then Err InvalidData
        else Ok (kdf (ph_alg p) (ph_version p) (ph_params p) salt pw)
      end
    end.

  (* entry/read.rs decrypt_reader up to the key *)
  Definition decode_guard (enc : encryption) (phsf pw : option bytes) : res (option key) :=
    match enc with
    | ENo => Ok None
    | _ =>
      match phsf with
      | None => Err InvalidData                       (* `PHSF` chunk not found *)
      | Some s =>
        match pw with
        | None => Err InvalidInput                    (* Password was not provided *)
        | Some p => do k <- reader_key s p; Ok (Some k)
        end
      end
    end.

  (* ... and the IV: the first 16 bytes of the data stream (read_exact); the CBC reader also
     pulls its first ciphertext block while it is constructed (cipher/block/read.rs new) *)
  Definition decode_open (enc : encryption) (m : cipher_mode) (phsf pw : option bytes) (stream : bytes)
    : res (option (key * bytes) * bytes) :=
    do k <- decode_guard enc phsf pw;
    match k with
    | None => Ok (None, stream)
    | Some k =>
      do (iv, ct) <- take IV_LEN stream;
      match m with
      | MCbc => do _ <- take 16 ct; Ok (Some (k, iv), ct)
      | MCtr => Ok (Some (k, iv), ct)
      end
    end.

  (* the whole read: guard, IV, then the decrypting/decompressing pipeline (a section variable) *)
  Variable decrypt : key -> bytes (* iv *) -> bytes (* ciphertext *) -> res bytes.
  Definition decode (enc : encryption) (m : cipher_mode) (phsf pw : option bytes) (stream : bytes) : res bytes :=
    do (k, ct) <- decode_open enc m phsf pw stream;
    match k with
    | None => Ok ct
    | Some (k, iv) => decrypt k iv ct
    end.

  (* ---- which writer creates how many contexts ------------------------------------------- *)
  (* per-entry writers (EntryBuilder::new_file, Archive::write_file): one context per entry;
     solid writers (SolidEntryBuilder, Archive::write_solid_header): one context for the stream,
     the entries inside are written with WriteOptions::store (no context); the CLI's keep-solid
     rewrite builds a new SolidEntryBuilder, hence a new context, per rewritten solid entry *)
  Inductive writer_kind := PerEntry | SolidStream.
  Fixpoint contexts_n (n : nat) (m : cipher_mode) (h : hash_alg) (pw : bytes) (tape : bytes) : res (list ctx * bytes) :=
    match n with
    | O => Ok ([], tape)
    | S n' =>
      do (c, t) <- writer_context m h pw tape;
      do (cs, t') <- contexts_n n' m h pw t;
      Ok (c :: cs, t')
    end.
  Definition write_all (k : writer_kind) (enc : encryption) (m : cipher_mode) (h : hash_alg) (pw : bytes)
             (nfiles : nat) (tape : bytes) : res (list ctx * bytes) :=
    match enc with
    | ENo => Ok ([], tape)
    | _ => contexts_n (match k with PerEntry => nfiles | SolidStream => 1%nat end) m h pw tape
    end.
End Plumbing.
Arguments ctx_phsf {key}. Arguments ctx_iv {key}. Arguments ctx_key {key}.
Arguments ctx_mode {key}. Arguments ctx_segment {key}.

(* ==== executable stand-ins ================================================================ *)
(* base64, standard alphabet, no padding (password-hash's B64) *)
Definition b64_char (n : N) : byte :=
  if N.ltb n 26 then n2b (65 + n) else if N.ltb n 52 then n2b (71 + n)
  else if N.ltb n 62 then n2b (n - 4) else if N.eqb n 62 then x2b else x2f.
Definition b64_val (b : byte) : option N :=
  let x := b2n b in
  if N.leb 65 x && N.leb x 90 then Some (x - 65)
  else if N.leb 97 x && N.leb x 122 then Some (x - 71)
  else if N.leb 48 x && N.leb x 57 then Some (x + 4)
  else if N.eqb x 43 then Some 62 else if N.eqb x 47 then Some 63 else None.
Fixpoint b64_enc (l : bytes) : bytes :=
  match l with
  | a :: b :: c :: r =>
    let n := b2n a * 65536 + b2n b * 256 + b2n c in
    b64_char (n / 262144) :: b64_char ((n / 4096) mod 64) :: b64_char ((n / 64) mod 64) :: b64_char (n mod 64) :: b64_enc r
  | [a; b] =>
    let n := b2n a * 65536 + b2n b * 256 in
    [b64_char (n / 262144); b64_char ((n / 4096) mod 64); b64_char ((n / 64) mod 64)]
  | [a] =>
    let n := b2n a * 65536 in [b64_char (n / 262144); b64_char ((n / 4096) mod 64)]
  | [] => []
  end.
Fixpoint b64_dec (l : bytes) : option bytes :=
  match l with
  | a :: b :: c :: d :: r =>
    match b64_val a, b64_val b, b64_val c, b64_val d, b64_dec r with
    | Some x, Some y, Some z, Some w, Some t =>
      let n := x * 262144 + y * 4096 + z * 64 + w in
      Some (n2b (n / 65536) :: n2b ((n / 256) mod 256) :: n2b (n mod 256) :: t)
    | _, _, _, _, _ => None
    end
  | [a; b; c] =>
    match b64_val a, b64_val b, b64_val c with
    | Some x, Some y, Some z =>
      if N.eqb (z mod 4) 0 then let n := x * 4096 + y * 64 + z in Some [n2b (n / 1024); n2b ((n / 4) mod 256)] else None
    | _, _, _ => None
    end
  | [a; b] =>
    match b64_val a, b64_val b with
    | Some x, Some y => if N.eqb (y mod 16) 0 then Some [n2b ((x * 64 + y) / 16)] else None
    | _, _ => None
    end
  | [_] => None
  | [] => Some []
  end.

Definition dollar : byte := x24.
Definition eqsign : byte := x3d.
Definition show_param (kv : bytes * bytes) : bytes := fst kv ++ [eqsign] ++ snd kv.
(* PasswordHash::to_string *)
Definition phc_print_x (p : phc) : bytes :=
  [dollar] ++ ph_alg p
  ++ (match ph_version p with Some v => [dollar] ++ lit "v=" ++ dec v | None => [] end)
  ++ (match ph_params p with [] => [] | ps => [dollar] ++ join [comma] (map show_param ps) end)
  ++ (match ph_salt p with
      | Some s => [dollar] ++ b64_enc s ++ (match ph_hash p with Some h => [dollar] ++ b64_enc h | None => [] end)
      | None => []
      end).

(* ---- PasswordHash::new (password-hash 0.5: lib.rs, ident.rs, value.rs, params.rs, salt.rs, output.rs) ---- *)
Definition between (lo hi : N) (b : byte) : bool := N.leb lo (b2n b) && N.leb (b2n b) hi.
Definition is_digit_b (b : byte) : bool := between 48 57 b.
(* Ident::new: 1..=32 characters of a-z 0-9 '-' *)
Definition ident_char (b : byte) : bool := between 97 122 b || between 48 57 b || N.eqb (b2n b) 45.
Definition ident_ok (s : bytes) : bool := Nat.leb 1 (length s) && Nat.leb (length s) 32 && forallb ident_char s.
(* Value::new: at most 64 characters of A-Z a-z 0-9 '/' '+' '.' '-' (the empty value is a value) *)
Definition value_char (b : byte) : bool :=
  between 65 90 b || between 97 122 b || between 48 57 b
  || N.eqb (b2n b) 47 || N.eqb (b2n b) 43 || N.eqb (b2n b) 46 || N.eqb (b2n b) 45.
Definition value_ok (s : bytes) : bool := Nat.leb (length s) 64 && forallb value_char s.
(* Value::decimal: not empty, digits only, no leading zero unless it is "0", fits u32 *)
Definition canon_dec (s : bytes) : option N :=
  match s with
  | [] => None
  | c :: r =>
    if byte_eqb c x30 && (match r with [] => false | _ => true end) then None
    else match undec s with Some n => if N.ltb n U32 then Some n else None | None => None end
  end.
(* Salt::from_b64 looks at the TEXT only: 4..=64 characters of the value alphabet.  It is decoded later, by
   the KDF front ends (Salt::decode_b64, unpadded base64, canonical) *)
Definition salt_text_ok (s : bytes) : bool := Nat.leb 4 (length s) && Nat.leb (length s) 64 && forallb value_char s.
(* Output::decode + Output::new: unpadded base64 of 10..=64 bytes *)
Definition hash_len_ok (h : bytes) : bool := Nat.leb 10 (length h) && Nat.leb (length h) 64.

(* ParamsString::from_str: at most 127 bytes, `name=value` pairs separated by ','; the names are identifiers, the
   values are values; a repeated name is not an error here (the KDF crates take the last one) *)
Definition parse_param (f : bytes) : option (bytes * bytes) :=
  match fields eqsign f with
  | [k; v] => if ident_ok k && value_ok v then Some (k, v) else None
  | _ => None
  end.
Definition parse_params (f : bytes) : option (list (bytes * bytes)) :=
  if Nat.leb (length f) 127 then all_some (map parse_param (fields comma f)) else None.
Definition has_eq (f : bytes) : bool := existsb (byte_eqb eqsign) f.
Definition has_comma (f : bytes) : bool := existsb (byte_eqb comma) f.

(* PasswordHash::parse.  The salt is recorded decoded; a salt text that passes Salt::from_b64 but does not decode
   (the code finds that out only in the KDF front end, after the dispatch on the algorithm) is recorded as the
   EMPTY salt, which no text decodes to (a decoded salt has at least 3 bytes) and which the front-end rules
   (kdf_valid_x) refuse. *)
Definition phc_parse_x (s : bytes) : option phc :=
  match fields dollar s with
  | [] :: alg :: rest =>
    if negb (ident_ok alg) then None else
    (* `v=<decimal>`: only the field right after the identifier, and only if it has no ',' *)
    let '(ver, rest1) :=
      match rest with
      | (a :: b :: ds) :: r =>
        if byte_eqb a x76 && byte_eqb b eqsign && negb (has_comma ds) then (Some (canon_dec ds), r) else (None, rest)
      | _ => (None, rest)
      end in
    match ver with
    | Some None => None
    | _ =>
      let version := match ver with Some (Some v) => Some v | _ => None end in
      let '(params, rest2) :=
        match rest1 with
        | f :: r => if has_eq f then (parse_params f, r) else (Some [], rest1)
        | [] => (Some [], rest1)
        end in
      match params with
      | None => None
      | Some ps =>
        match rest2 with
        | [] => Some {| ph_alg := alg; ph_version := version; ph_params := ps; ph_salt := None; ph_hash := None |}
        | salt :: rest3 =>
          if negb (salt_text_ok salt) then None else
          let sb := match b64_dec salt with Some x => x | None => [] end in
          match rest3 with
          | [] => Some {| ph_alg := alg; ph_version := version; ph_params := ps; ph_salt := Some sb; ph_hash := None |}
          | [hash] =>
            match b64_dec hash with
            | Some hb => if hash_len_ok hb
                         then Some {| ph_alg := alg; ph_version := version; ph_params := ps; ph_salt := Some sb; ph_hash := Some hb |}
                         else None
            | None => None
            end
          | _ => None                                        (* PhcStringTrailingData *)
          end
        end
      end
    end
  | _ => None
  end.

(* ---- hash.rs verify_password: the dispatch ---- *)
Definition is_argon2 (alg : bytes) : bool :=
  bytes_eqb alg (lit "argon2id") || bytes_eqb alg (lit "argon2i") || bytes_eqb alg (lit "argon2d").
Definition is_pbkdf2 (alg : bytes) : bool :=
  bytes_eqb alg (lit "pbkdf2-sha256") || bytes_eqb alg (lit "pbkdf2-sha512").
Definition alg_supported_x (alg : bytes) : bool := is_argon2 alg || is_pbkdf2 alg.

(* ---- the KDF crates on a parsed record ---- *)
Fixpoint param {V : Type} (k : bytes) (ps : list (bytes * V)) : option V :=   (* the LAST occurrence: the builders are overwritten *)
  match ps with
  | [] => None
  | (k', v) :: r => match param k r with Some x => Some x | None => if bytes_eqb k k' then Some v else None end
  end.
Definition dec_param (k : bytes) (ps : list (bytes * bytes)) : option N :=
  match param k ps with Some v => canon_dec v | None => None end.
Definition b64_param (k : bytes) (ps : list (bytes * bytes)) : bytes :=
  match param k ps with Some v => (match b64_dec v with Some b => b | None => [] end) | None => [] end.
(* argon2 Params::try_from: m, t, p decimal; keyid (at most 8 bytes) and data (at most 32 bytes) unpadded base64;
   any other name is an error *)
Definition argon2_param_ok (kv : bytes * bytes) : bool :=
  let k := fst kv in let v := snd kv in
  if bytes_eqb k (lit "m") || bytes_eqb k (lit "t") || bytes_eqb k (lit "p")
  then (match canon_dec v with Some _ => true | None => false end)
  else if bytes_eqb k (lit "keyid") then (match b64_dec v with Some b => Nat.leb (length b) 8 | None => false end)
  else if bytes_eqb k (lit "data") then (match b64_dec v with Some b => Nat.leb (length b) 32 | None => false end)
  else false.
(* pbkdf2 Params::try_from: i, l decimal; any other name is an error *)
Definition pbkdf2_param_ok (kv : bytes * bytes) : bool :=
  let k := fst kv in let v := snd kv in
  if bytes_eqb k (lit "i") || bytes_eqb k (lit "l")
  then (match canon_dec v with Some _ => true | None => false end)
  else false.
Definition hash_is_32 (hash : option bytes) : bool :=
  match hash with Some hb => Nat.eqb (length hb) 32 | None => true end.
(* verify_password's guard on EVERY p (a parameter may be repeated), argon2::Params::try_from + Params::new (m >= 8, m >= 8p, t >= 1,
   1 <= p <= 2^24-1), Version::try_from, the salt rule of Argon2 (8 bytes), the output length = the length of the
   hash of the record if it has one, else 32;  pbkdf2 Params::try_from (no version; l, if given, is the output
   length and must be the length of the hash of the record if it has one), Salt::decode_b64;  and the key size
   of the 256-bit ciphers (the derived key is the whole output).
   Not described: the allocation probe for m KiB (OutOfMemory on huge m). *)
Definition kdf_valid_x (alg : bytes) (ver : option N) (ps : list (bytes * bytes)) (salt : bytes) (hash : option bytes) : bool :=
  if is_argon2 alg then
    let m := dflt 19456 (dec_param (lit "m") ps) in
    let t := dflt 2 (dec_param (lit "t") ps) in
    let p := dflt 1 (dec_param (lit "p") ps) in
    forallb (fun kv => if bytes_eqb (fst kv) (lit "p")
                       then (match canon_dec (snd kv) with Some p1 => N.leb p1 16777215 | None => true end)
                       else true) ps
    && forallb argon2_param_ok ps
    && (match ver with None => true | Some v => N.eqb v 16 || N.eqb v 19 end)
    && N.leb 8 m && N.leb (8 * p) m && N.leb 1 t && N.leb 1 p && N.leb p 16777215
    && Nat.leb 8 (length salt)
    && hash_is_32 hash
  else if is_pbkdf2 alg then
    forallb pbkdf2_param_ok ps
    && (match ver with None => true | Some _ => false end)
    && (match dec_param (lit "l") ps with Some l => N.eqb l 32 && hash_is_32 hash | None => true end)
    && Nat.leb 3 (length salt)
  else false.

(* the KDF as a free term: what is fed to it, nothing else (defaults resolved as the crates do; the associated
   data of argon2 enters the hash, the key id does not) *)
Definition kdf_x (alg : bytes) (ver : option N) (ps : list (bytes * bytes)) (salt pw : bytes) : bytes :=
  let norm :=
    if is_argon2 alg then
      [dec (dflt 19 ver); dec (dflt 19456 (dec_param (lit "m") ps)); dec (dflt 2 (dec_param (lit "t") ps)); dec (dflt 1 (dec_param (lit "p") ps))]
      ++ (match b64_param (lit "data") ps with [] => [] | d => [lit "data=" ++ hex d] end)
    else [dec (dflt 600000 (dec_param (lit "i") ps))] in
  lit "KDF(" ++ join (lit "|") ([alg] ++ norm ++ [hex salt; hex pw]) ++ lit ")".

Definition writer_context_x := writer_context bytes kdf_x kdf_valid_x phc_print_x.
Definition reader_key_x := reader_key bytes kdf_x kdf_valid_x alg_supported_x phc_parse_x.
Definition decode_guard_x := decode_guard bytes kdf_x kdf_valid_x alg_supported_x phc_parse_x.
Definition decode_open_x := decode_open bytes kdf_x kdf_valid_x alg_supported_x phc_parse_x.
Definition write_all_x := write_all bytes kdf_x kdf_valid_x phc_print_x.
