(* Concat.v — the commands `pna concat` and `pna split` as functions on archive files.
   Rust anchors:
     cli/src/command/concat.rs   concat_entry: the is_pna test of every argument (first file only),
                                 File::create of the output, Archive::write_header (number 0), then per
                                 argument run_across_archive(PathArchiveProvider, |reader| for entry in
                                 reader.raw_entries() { archive.add_entry(entry?)? }), archive.finalize()
     cli/src/command/commons.rs  run_across_archive (follow the parts while has_next_archive: next_source(n)
                                 = File::open(path.with_part(n)), Archive::read_next_archive),
                                 write_split_archive / _path / _writer
     cli/src/command/split.rs    split_archive (as repaired by f4d9f833): Archive::read_header of the file named
                                 on the command line, then an iterator that yields its raw_entries one by one and,
                                 when a part is exhausted and announced a successor, opens the next one
                                 (PathArchiveProvider::next_source(n), Archive::read_next_archive with the
                                 part-number check) — the same chain walk as run_across_archive;
                                 write_split_archive pulls from that iterator
     cli/src/utils/io.rs         is_pna: read_exact of 8 bytes, compared with the signature
   The default build has no `memmap` feature: the stream reader (read_chunk_stream) is the one used.
   What the code does and the model therefore does too:
     * raw copy: RawEntry = the chunks between two entry terminators exactly as read (unknown chunks,
       solid entries, encrypted data untouched; nothing is parsed), written with add_entry = chunk by chunk;
       ANXT markers of the inputs are not copied, the output always has archive number 0 and no ANXT;
     * whatever follows AEND in a part is never read; chunks of an entry still open at the AEND of the last
       part (no FEND/SEND before AEND, no successor announced) are dropped silently;
     * an argument is one part chain: the file named, then the files found by name (`with_part(n)`,
       n = 2, 3, ...) as long as the part just read announced a successor.  The harness hands the chain over
       as a `list bytes` (the files that exist under these names, in order); the reader model `read_parts`
       takes as many as are announced: a missing one is NotFound, a wrongly numbered one InvalidData;
     * the output file is created BEFORE the first entry is read and is written to as entries arrive:
       when the command fails after the is_pna tests, a file with the header and the entries copied so
       far (no AEND) stays behind.  `concat_run` returns that file together with the status.
   Definitions only; facts are in Proofs/ConcatFacts.v. *)
From PNA Require Import Base Crc32 Codec Chunk Archive.
From PNA Require Split.
Open Scope N_scope.

Definition rd : reader := read_chunk_stream.

(* utils::fs::is_pna *)
Definition is_pna (file : bytes) : res bool :=
  do (h, _) <- take 8 file; Ok (bytes_eqb h sig).

(* `for item in &args.files { if !is_pna(item)? { return Err(InvalidData) } }`; an argument whose
   first file does not exist is the empty chain: File::open fails with NotFound *)
Fixpoint check_inputs (inputs : list (list bytes)) : res unit :=
  match inputs with
  | [] => Ok tt
  | i :: rest =>
    match i with
    | [] => Err NotFound
    | p :: _ => do b <- is_pna p; if b then check_inputs rest else Err InvalidData
    end
  end.

Definition ser_entries (es : list (list chunk)) : bytes := concat (map (fun e => fst (add_chunks e)) es).

(* the copy loop; [acc] = the bytes written to the output file so far *)
Fixpoint copy_inputs (inputs : list (list bytes)) (acc : bytes) : bytes * fin :=
  match inputs with
  | [] => (acc ++ finalize, FinOk)
  | i :: rest =>
    match read_parts rd i with
    | Ok (es, f) =>
      let acc' := acc ++ ser_entries es in         (* entries read before a failure are already written *)
      match f with FinOk => copy_inputs rest acc' | _ => (acc', f) end
    | Err e => (acc, FinErr e)
    | Panic => (acc, FinPanic)
    end
  end.

(* (the output file: None = not created, exit status) *)
Definition concat_run (inputs : list (list bytes)) : option bytes * fin :=
  match check_inputs inputs with
  | Ok _ => let (f, e) := copy_inputs inputs (write_header 0) in (Some f, e)
  | Err e => (None, FinErr e)
  | Panic => (None, FinPanic)
  end.

(* the command as its caller sees it: the archive, or the error *)
Definition concat_cmd (inputs : list (list bytes)) : res bytes :=
  match concat_run inputs with
  | (Some f, FinOk) => Ok f
  | (_, FinErr e) => Err e
  | _ => Panic
  end.

(* ---- pna split ------------------------------------------------------------------------ *)
(* the chunk of the archive model as a chunk of the split model and back; a part file as bytes
   (Proofs/WfSplitFacts.v has the same three functions under the names of_c, to_c, ser_pfile) *)
Definition c_of (c : chunk) : Split.chunk := (cty c, cdata c).
Definition c_to (c : Split.chunk) : chunk := mk (fst c) (snd c).
Definition part_file (f : Split.pfile) : bytes := sig ++ ser_chunks (map c_to f).

(* split_archive, as repaired by f4d9f833: the input is a part chain, read the way concat reads each of its
   arguments (read_parts: the file named, then with_part(2), with_part(3), ... while the part just read
   announced a successor; a missing one is NotFound, a wrongly numbered one InvalidData; chunks of an entry
   open at the AEND of a part are carried into the next part, so an entry straddling a part boundary is
   reassembled).  File::open and Archive::read_header of the first file come first.  Then entries are
   pulled from the reader one at a time while parts are written (std::iter::from_fn: the next part is
   opened only when the current one is exhausted), so a failure of the splitter — the size check of
   write_split_archive_writer, made before the first entry is pulled, or a chunk that does not fit — on an
   earlier entry comes before a read error behind it: read_parts delivers the entries read before the
   failure together with the failure *)
Definition split_cmd (max : N) (chain : list bytes) : res (list bytes) :=
  do (es, f) <- read_parts rd chain;
  do parts <- Split.write_split max (map (map c_of) es);
  match f with
  | FinOk => Ok (map part_file parts)
  | FinErr e => Err e
  | FinPanic => Panic
  end.

(* the command as it was before f4d9f833: ONE file, its successor flag and an entry left open at its AEND
   ignored — on the first part of a multipart archive everything behind the first part boundary, the
   straddling entry included, was dropped and the command succeeded (kept for the record:
   C13_split_part1_unrepaired_refuted) *)
Definition split_cmd_orig (max : N) (a : bytes) : res (list bytes) :=
  do s <- open_archive rd [] a;
  let '(es, f, _) := raw_entries_loop rd (S (length a)) s in
  do parts <- Split.write_split max (map (map c_of) es);
  match f with
  | FinOk => Ok (map part_file parts)
  | FinErr e => Err e
  | FinPanic => Panic
  end.

(* `pna split <first file of the chain> --max-size max` followed by `pna concat out <first part>` *)
Definition splitcat (max : N) (chain : list bytes) : res (list bytes * bytes) :=
  do parts <- split_cmd max chain;
  do out <- concat_cmd [parts];
  Ok (parts, out).
