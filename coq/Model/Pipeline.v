(* Pipeline.v — the library's write and read pipelines, composed from the stream layer
   (Flatten, Cbc, Ctr) and the entry/archive layer (Entry, Archive).
   mirrors: lib/src/entry/write.rs (get_writer: compress -> encrypt -> sink),
   lib/src/entry/builder.rs (EntryBuilder::new_file/new_dir/new_symbolic_link/new_hard_link,
   write, build; SolidEntryBuilder), lib/src/archive/write.rs (Archive::write_file — the streaming
   writer, after the fix that finishes its pipeline —, into_solid_archive, SolidArchive::add_entry,
   finalize_solid_entry), lib/src/entry/read.rs (decrypt_reader, decompress_reader),
   lib/src/entry.rs (NormalEntry::reader, SolidEntry::entries).
   Definitions only; facts are in Proofs/PipelineFacts.v.

   External primitives are Section variables:
   - E D : the block cipher of each algorithm (Aes256 / Camellia256): key -> block -> block;
   - compress c lvl ws : the pieces the compressor of method c hands to its inner writer when its
     caller makes the writes ws and then finishes (a streaming compressor may emit its output in any
     sequence of pieces, depending on how it is fed); decompress c : the decompressor as a function
     of the byte stream it pulls from its inner reader;
   - verify phsf pw : hash::verify_password — the key derived from the password with the
     parameters and salt recorded in the PHSF string.                                            *)
From PNA Require Import Base Crc32 Name Codec Chunk Archive Entry Flatten Cbc Ctr.

(* WriteOptions: compression method and level, encryption algorithm, cipher mode *)
Record config := { g_comp : compression; g_level : N; g_enc : encryption; g_mode : cipher_mode }.
(* EntryHeader::new (directories and links): no compression, no encryption, CBC *)
Definition store_cfg : config := {| g_comp := CNo; g_level := 0; g_enc := ENo; g_mode := MCbc |}.
(* WriteOptions::store() as EntryHeader::for_file sees it: options without a cipher report CipherMode::CTR
   (WriteOptions::cipher_mode), so every unencrypted file or solid header says CTR *)
Definition store_file_cfg : config := {| g_comp := CNo; g_level := 0; g_enc := ENo; g_mode := MCtr |}.
Definition encrypted (cfg : config) : bool := match g_enc cfg with ENo => false | _ => true end.

(* CipherContext (to_hashed): derived key, random IV, PHSF string *)
Record cctx := { c_key : bytes; c_iv : bytes; c_phsf : bytes }.

(* what the caller says about an entry *)
Record spec := { sp_kind : data_kind; sp_name : bytes (* an EntryName: already sanitised *);
                 sp_content : bytes (* file content / link target *);
                 sp_ctime : option N; sp_mtime : option N; sp_atime : option N;
                 sp_perm : option perm; sp_xattrs : list xattr; sp_extra : list chunk }.

Definition ne (p : bytes) : bool := match p with [] => false | _ => true end.

(* FlattenWriter<u32::MAX>::write pushes buf.chunks(u32::MAX): nothing for an empty write, the write
   itself when it has at most u32::MAX bytes, pieces of u32::MAX bytes otherwise (Chunk.pieces, for every bound;
   PipelineFacts.flat_sink_faithful relates this to Flatten.flatten_write, flat_sink_small to `filter ne`) *)
Definition flat_sink_at (cmax : N) (ps : list bytes) : list bytes := flat_map (pieces cmax) ps.
Definition flat_sink (ps : list bytes) : list bytes := flat_sink_at CMAX ps.
(* ChunkStreamWriter::write since fix 45407aa2: an empty write is one empty chunk; any other write is cut into
   chunks of at most u32::MAX bytes (`for piece in buf.chunks(u32::MAX as usize) { write_chunk }`), so a write of
   at most u32::MAX bytes is one chunk as before *)
Definition sink_write (cmax : N) (p : bytes) : list bytes := match p with [] => [[]] | _ => pieces cmax p end.
Definition chunk_sink_at (cmax : N) (ps : list bytes) : list bytes := flat_map (sink_write cmax) ps.
Definition chunk_sink (ps : list bytes) : list bytes := chunk_sink_at CMAX ps.
(* the writer before 45407aa2: one chunk per write whatever its length; the chunk's 32-bit length field kept the low
   bits of a longer payload (PipelineFacts.chunk_sink_unrepaired) *)
Definition chunk_sink_orig (ps : list bytes) : list bytes := ps.

(* sequences of reads (the same fixpoints as in CbcFacts / CtrFacts) *)
Section Reads.
Variable D : bytes -> bytes -> bytes.
Fixpoint cbcr_reads (st : cbcr) (ns : list N) : res (list bytes) :=
  match ns with
  | [] => Ok []
  | n :: r => do (st', out) <- cbcr_read D st n; do rest <- cbcr_reads st' r; Ok (out :: rest)
  end.
Fixpoint ctrr_reads (st : ctrr) (ns : list N) : list bytes :=
  match ns with
  | [] => []
  | n :: r => let (st', out) := ctrr_read D st n in out :: ctrr_reads st' r
  end.
End Reads.

(* the same caller loop seen lazily: what the reads returned BEFORE the first failing one is kept (the caller has
   it in hand), and how the sequence ended: FinOk = every read returned, FinErr e = the read after `outs` returned
   the error e (a read that fails returns no byte count: what it had copied into the caller's buffer is lost) *)
Section ReadsPartial.
Variable D : bytes -> bytes -> bytes.
Fixpoint cbcr_reads_partial (st : cbcr) (ns : list N) : list bytes * fin :=
  match ns with
  | [] => ([], FinOk)
  | n :: r =>
    match cbcr_read D st n with
    | Ok (st', out) => let (rest, f) := cbcr_reads_partial st' r in (out :: rest, f)
    | Err e => ([], FinErr e)
    | Panic => ([], FinPanic)
    end
  end.
End ReadsPartial.

Section Pipeline.
Variables E D : encryption -> bytes -> bytes -> bytes.
Variable compress : compression -> N -> list bytes -> list bytes.
Variable decompress : compression -> bytes -> res bytes.
Variable verify : bytes -> bytes -> res bytes.

(* ---- get_writer: CompressionWriter<CipherWriter<sink>> ------------------------------------------ *)
(* CompressionWriter::No passes every write through *)
Definition zwrite (c : compression) (lvl : N) (ws : list bytes) : list bytes :=
  match c with CNo => ws | _ => compress c lvl ws end.

(* CipherWriter over the writes ws, then try_into_inner (finish): the writes the sink receives.
   The key and IV come from to_hashed (32 and 16 bytes: key_iv_ok), so construction succeeds. *)
Definition cwrite (cfg : config) (ctx : cctx) (ws : list bytes) : list bytes :=
  match g_enc cfg with
  | ENo => ws
  | a =>
    match g_mode cfg with
    | MCbc => let (s', calls) := cbcw_writes (E a) {| w_key := c_key ctx; w_prev := c_iv ctx; w_buf := [] |} ws in
              concat (map snd calls) ++ cbcw_finish (E a) s'
    | MCtr => let (s', calls) := ctrw_writes (E a) {| cw_key := c_key ctx; cw_iv := of_be (c_iv ctx); cw_pos := 0 |} ws in
              concat (map snd calls)
    end
  end.

(* the writes that reach the sink when the caller writes `wcuts` and the pipeline is finished *)
Definition data_pieces (cfg : config) (ctx : cctx) (wcuts : list bytes) : list bytes :=
  cwrite cfg ctx (zwrite (g_comp cfg) (g_level cfg) wcuts).

Definition iv_part (cfg : config) (ctx : cctx) : list bytes := if encrypted cfg then [c_iv ctx] else [].
Definition phsf_part (cfg : config) (ctx : cctx) : option bytes := if encrypted cfg then Some (c_phsf ctx) else None.

(* ---- EntryBuilder ---------------------------------------------------------------------------------- *)
(* new_dir / new_symbolic_link / new_hard_link use EntryHeader::new (no compression, no encryption,
   CBC) and WriteOptions::store() *)
Definition eff_cfg (cfg : config) (k : data_kind) : config := match k with KFile => cfg | _ => store_cfg end.

(* build(): data = the FlattenWriter's pieces, the IV inserted in front *)
Definition build_data (cfg : config) (ctx : cctx) (wcuts : list bytes) : list bytes :=
  iv_part cfg ctx ++ flat_sink (data_pieces cfg ctx wcuts).

(* EntryBuilder::write on a directory builder (new_dir has no data writer): Ok(buf.len()), the bytes are dropped *)
Definition eff_wcuts (k : data_kind) (wcuts : list bytes) : list bytes := match k with KDir => [] | _ => wcuts end.

Definition build_normal (cfg0 : config) (ctx : cctx) (sp : spec) (wcuts : list bytes) : normal_entry :=
  let cfg := eff_cfg cfg0 (sp_kind sp) in
  let data := build_data cfg ctx (eff_wcuts (sp_kind sp) wcuts) in
  {| n_hdr := {| f_major := 0; f_minor := 0; f_kind := sp_kind sp; f_comp := g_comp cfg;
                 f_enc := g_enc cfg; f_mode := g_mode cfg; f_name := sp_name sp |};
     n_phsf := phsf_part cfg ctx;
     n_extra := sp_extra sp;
     n_data := data;
     n_meta := {| m_raw_size := match sp_kind sp with KFile => Some (len (concat wcuts)) | _ => None end;
                  m_compressed := fold_left N.add (map len data) 0;
                  m_ctime := sp_ctime sp; m_mtime := sp_mtime sp; m_atime := sp_atime sp;
                  m_perm := sp_perm sp |};
     n_xattrs := sp_xattrs sp |}.

(* ---- decrypt_reader + decompress_reader over a FlattenReader ---------------------------------------- *)
(* The caller (or the decompressor) issues reads with the buffer sizes rbufs; what it has collected
   is the concatenation of what the reads returned. *)
Definition decode_stream (comp : compression) (enc : encryption) (mode : cipher_mode)
           (phsf : option bytes) (pw : bytes) (data : list bytes) (rbufs : list N) : res bytes :=
  do got <-
    match enc with
    | ENo => Ok (concat (flat_reads data rbufs))
    | a =>
      match phsf with
      | None => Err InvalidData                                   (* `PHSF` chunk not found *)
      | Some s =>
        do key <- verify s pw;
        let (src, iv) := read_block data in                        (* read_exact of the 16-byte IV *)
        if negb (N.eqb (len iv) 16) then Err UnexpectedEof else
        match mode with
        | MCbc => do st <- cbcr_new key iv src; do outs <- cbcr_reads (D a) st rbufs; Ok (concat outs)
        | MCtr => do st <- ctrr_new key iv src; Ok (concat (ctrr_reads (E a) st rbufs))
        end
      end
    end;
  match comp with CNo => Ok got | c => decompress c got end.

(* NormalEntry::reader *)
Definition decode_normal (e : normal_entry) (pw : bytes) (rbufs : list N) : res bytes :=
  decode_stream (f_comp (n_hdr e)) (f_enc (n_hdr e)) (f_mode (n_hdr e)) (n_phsf e) pw (n_data e) rbufs.

(* ---- archives of built entries ---------------------------------------------------------------------- *)
(* Archive::write_header, add_entry of each entry, finalize *)
Definition write_archive (es : list normal_entry) : bytes := write_raw_archive 0 (map ser_normal es).
Definition write_archive_entries (es : list read_entry) : bytes := write_raw_archive 0 (map ser_entry es).
(* Archive::entries() run to its end; an iteration that ends with an error is that error *)
Definition read_archive (bs : bytes) : res (list read_entry) :=
  do (es, f) <- entries read_chunk_stream bs;
  match f with FinOk => Ok es | FinErr e => Err e | FinPanic => Panic end.

(* ---- Archive::write_file: the streaming writer ------------------------------------------------------- *)
(* FHED, the metadata chunks, PHSF and the IV when encrypted, one FDAT chunk per write that reaches
   the ChunkStreamWriter (the final ones come from try_into_inner: compressor and cipher are finished),
   FEND.  No fSIZ, no xattrs, no extra chunks. *)
Definition stream_file_chunks (cfg : config) (ctx : cctx) (sp : spec) (wcuts : list bytes) : list chunk :=
  [mk FHED (fhed_to_bytes {| f_major := 0; f_minor := 0; f_kind := KFile; f_comp := g_comp cfg;
                             f_enc := g_enc cfg; f_mode := g_mode cfg; f_name := sp_name sp |})]
  ++ opt_chunk cTIM time_to_bytes (sp_ctime sp)
  ++ opt_chunk mTIM time_to_bytes (sp_mtime sp)
  ++ opt_chunk aTIM time_to_bytes (sp_atime sp)
  ++ opt_chunk fPRM perm_to_bytes (sp_perm sp)
  ++ opt_chunk PHSF (fun s => s) (phsf_part cfg ctx)
  ++ map (mk FDAT) (iv_part cfg ctx ++ chunk_sink (data_pieces cfg ctx wcuts))
  ++ [mk FEND []].

(* ---- solid entries ------------------------------------------------------------------------------------ *)
(* the byte stream of a solid entry: its inner entries, each written with write_in *)
Definition solid_plain_stream (inner : list normal_entry) : bytes := ser_chunks (concat (map ser_normal inner)).

(* how the bytes of a chunk reach a writer (ChunkExt::write_chunk_in): write_all of the length, of the type,
   of the payload and of the CRC; write_all of an empty payload makes no write call.  The sinks of this crate
   accept every write whole, so each write_all is one write. *)
Definition chunk_writes (c : chunk) : list bytes :=
  [be32 (len (cdata c)); cty c] ++ (match cdata c with [] => [] | d => [d] end) ++ [be32 (chunk_crc c)].
Definition chunks_writes (cs : list chunk) : list bytes := concat (map chunk_writes cs).
(* SolidEntryBuilder::add_entry / SolidArchive::add_entry of each inner entry (NormalEntry::chunks_write_in):
   the write calls the solid pipeline sees *)
Definition solid_writes (inner : list normal_entry) : list bytes := chunks_writes (concat (map ser_normal inner)).

(* SolidEntryBuilder: add_entry*, build.  `swcuts` is how the inner entries' bytes arrive at the
   pipeline (write_chunk_in makes several writes per chunk); concat swcuts = solid_plain_stream inner *)
Definition build_solid (cfg : config) (ctx : cctx) (extra : list chunk) (swcuts : list bytes) : solid_entry :=
  {| so_hdr := {| s_major := 0; s_minor := 0; s_comp := g_comp cfg; s_enc := g_enc cfg; s_mode := g_mode cfg |};
     so_phsf := phsf_part cfg ctx;
     so_data := build_data cfg ctx swcuts;
     so_extra := extra |}.

(* SolidArchive: into_solid_archive, add_entry* / write_file*, finalize_solid_entry: the chunks of the
   solid entry as they are written to the archive (one SDAT chunk per write reaching the sink) *)
Definition solid_archive_chunks (cfg : config) (ctx : cctx) (swcuts : list bytes) : list chunk :=
  [mk SHED (shed_to_bytes {| s_major := 0; s_minor := 0; s_comp := g_comp cfg; s_enc := g_enc cfg; s_mode := g_mode cfg |})]
  ++ opt_chunk PHSF (fun s => s) (phsf_part cfg ctx)
  ++ map (mk SDAT) (iv_part cfg ctx ++ chunk_sink (data_pieces cfg ctx swcuts))
  ++ [mk SEND []].

(* SolidEntry::entries: decode the stream, then the EntryIterator loop *)
Definition decode_solid (e : solid_entry) (pw : bytes) (rbufs : list N) : res (list normal_entry * fin) :=
  do st <- decode_stream (s_comp (so_hdr e)) (s_enc (so_hdr e)) (s_mode (so_hdr e)) (so_phsf e) pw (so_data e) rbufs;
  Ok (inner_entries_loop (S (length st)) st).

(* ---- the lazy view: SolidEntry::entries pulls its chunks from the reader as it goes ------------------------ *)
(* decrypt_reader over the FlattenReader, no decompressor (compression = store), read with the buffer sizes
   rbufs: Err = the reader could not be constructed (entries() itself fails: no PHSF, key derivation, short IV,
   less than one cipher block, wrong key length); Ok (got, f) = the bytes the caller has received and how the
   reads ended (FinErr e: a later read returned e — CBC only: a partial last block is UnexpectedEof, bad PKCS#7
   padding of the last block is InvalidData; both are found one block late, the reader holds one block of
   look-ahead).  The unencrypted and the CTR reader never fail once constructed. *)
Definition decode_stream_partial (enc : encryption) (mode : cipher_mode) (phsf : option bytes) (pw : bytes)
           (data : list bytes) (rbufs : list N) : res (bytes * fin) :=
  match enc with
  | ENo => Ok (concat (flat_reads data rbufs), FinOk)
  | a =>
    match phsf with
    | None => Err InvalidData
    | Some s =>
      do key <- verify s pw;
      let (src, iv) := read_block data in
      if negb (N.eqb (len iv) 16) then Err UnexpectedEof else
      match mode with
      | MCbc => do st <- cbcr_new key iv src;
                let (outs, f) := cbcr_reads_partial (D a) st rbufs in Ok (concat outs, f)
      | MCtr => do st <- ctrr_new key iv src; Ok (concat (ctrr_reads (E a) st rbufs), FinOk)
      end
    end
  end.

(* EntryIterator::next (after the fix 66ed01cc) over a reader that delivers the bytes bs and then ends with `sf`
   (FinOk: Ok(0), a clean end; FinErr e: the read that needs a byte behind bs returns e).  next() first probes
   the reader with a one-byte read: Ok(0) -> None (the stream ends between two entries), an error is yielded;
   then ChunkReader::read_chunk makes four read_exact calls per chunk, and a read_exact that needs a byte behind
   bs gets the reader's answer: Ok(0), which read_exact turns into UnexpectedEof, or the reader's error.  Every
   error is yielded, once (fix a1692e54).  So the chunks are parsed from bs as in Entry.inner_item; when the
   bytes run out, the stream's own ending decides; a broken chunk (CRC) inside bs comes first. *)
Fixpoint inner_item_lazy (sf : fin) (fuel : nat) (bs : bytes) (acc : list chunk) : res (option (list chunk * bytes)) :=
  match fuel with
  | O => Panic
  | S f =>
    match read_chunk_stream bs with
    | Ok (c, r) => if ty_is c FEND then Ok (Some (acc ++ [c], r)) else inner_item_lazy sf f r (acc ++ [c])
    | Err UnexpectedEof =>
      match sf with
      | FinOk => match acc, bs with [], [] => Ok None | _, _ => Err UnexpectedEof end
      | FinErr e => Err e
      | FinPanic => Panic
      end
    | Err k => Err k
    | Panic => Panic
    end
  end.
(* the iteration up to its end or to the first error it yields (as Entry.inner_entries_loop) *)
Fixpoint inner_entries_lazy (sf : fin) (fuel : nat) (bs : bytes) : list normal_entry * fin :=
  match fuel with
  | O => ([], FinPanic)
  | S f =>
    match inner_item_lazy sf (S (length bs)) bs [] with
    | Ok None => ([], FinOk)
    | Ok (Some (cs, r)) =>
      match parse_normal cs with
      | Ok e => let (es, k) := inner_entries_lazy sf f r in (e :: es, k)
      | Err k => ([], FinErr k)
      | Panic => ([], FinPanic)
      end
    | Err k => ([], FinErr k)
    | Panic => ([], FinPanic)
    end
  end.

(* SolidEntry::entries run to its end, lazily.  Compressed streams keep the eager model (what a decompressor has
   handed out before it fails is not predictable from the model's `decompress`). *)
Definition decode_solid_lazy (e : solid_entry) (pw : bytes) (rbufs : list N) : res (list normal_entry * fin) :=
  match s_comp (so_hdr e) with
  | CNo =>
    do (got, sf) <- decode_stream_partial (s_enc (so_hdr e)) (s_mode (so_hdr e)) (so_phsf e) pw (so_data e) rbufs;
    Ok (inner_entries_lazy sf (S (length got)) got)
  | _ => decode_solid e pw rbufs
  end.

End Pipeline.

(* ---- instances the model is run with: the toy block cipher, "compression" that stores -------------- *)
Definition toy_E_of (_ : encryption) := toy_E.
Definition toy_D_of (_ : encryption) := toy_D.
(* an identity compressor that hands its input on in two pieces per write *)
Definition id_compress (_ : compression) (_ : N) (ws : list bytes) : list bytes :=
  concat (map (fun w => [firstn 1 w; skipn 1 w]) ws).
Definition id_decompress (_ : compression) (bs : bytes) : res bytes := Ok bs.
(* a "KDF": the key is the 32-byte-padded password if the PHSF string equals the password's hex *)
Definition toy_verify (phsf pw : bytes) : res bytes :=
  if bytes_eqb phsf (hex pw) then Ok (firstn 32 (pw ++ repeat x00 32)) else Err InvalidData.
