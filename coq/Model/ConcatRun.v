(* ConcatRun.v — case interpreter of the concat area (C13/C14: `pna concat`, `pna split` + `pna concat`).
   Formats mirror props/_concat.py.
     concat <inputs>       inputs = input;input;...  ("0" = no argument at all), each input the part chain of one
                           command-line argument = hex,hex,... in the order the files are found by name;
                           ("" = one empty file); "-" = the argument's first file does not exist
                       ->  OK <hex of the output file>
                         | ERR <kind> <hex of the file left behind | "-" when none was created>
                         | PANIC
     splitcat <max> <input>  `pna split <archive> --max-size <max>` then `pna concat out <first part>`; the input is
                           the part chain of the archive argument, written as an input of `concat` (hex,hex,...: the
                           file named and the files found by name behind it; one hex = a single file; "-" = no file)
                       ->  OK <hex,hex,.. part files>|<hex of the output of concat>  | ERR <kind> | PANIC *)
From PNA Require Import Base Crc32 Codec Chunk Archive CodecRun Split Concat.
Open Scope N_scope.

Definition semi : byte := x3b.
Definition bar : byte := x7c.
Definition dash : bytes := lit "-".

Definition parse_input (b : bytes) : option (list bytes) :=
  if bytes_eqb b dash then Some [] else all_some (map unhex (fields comma b)).
Definition parse_inputs (b : bytes) : option (list (list bytes)) :=
  if bytes_eqb b (lit "0") then Some [] else all_some (map parse_input (fields semi b)).

Definition show_run (r : option bytes * fin) : bytes :=
  let left := match fst r with Some f => hex f | None => dash end in
  match snd r with
  | FinOk => lit "OK " ++ left
  | FinErr e => lit "ERR " ++ show_ekind e ++ lit " " ++ left
  | FinPanic => lit "PANIC"
  end.

Definition run_concat (op : bytes) (args : list bytes) : bytes :=
  let N_ i := match undec (nth i args []) with Some n => n | None => 0 end in
  if bytes_eqb op (lit "concat") then
    match parse_inputs (nth 0%nat args []) with
    | Some ins => show_run (concat_run ins)
    | None => bad_case
    end
  else if bytes_eqb op (lit "splitcat") then
    match parse_input (nth 1%nat args []) with
    | Some a => show_res (fun po => join [comma] (map hex (fst po)) ++ [bar] ++ hex (snd po)) (splitcat (N_ 0%nat) a)
    | None => bad_case
    end
  else bad_case.

Definition run_line := run_line_with run_concat.
