(* Wf.v — the STRICT recogniser of the PNA container and the strict structural decoder (C14).
   Written from the format description, not from the library's reader:
     signature; chunks = len(u32 BE) type(4) data crc32(type data); AHED (8 bytes, version 0.0,
     two reserved zero bytes, part number) first; then only complete entries FHED..FEND /
     SHED..SEND; PHSF (a PHC string WITHOUT hash) before the first data chunk of an encrypted
     entry and nowhere else; the concatenated data of an encrypted entry begins with a 16-byte
     IV and, for CBC, continues with a positive whole number of 16-byte blocks; ancillary
     chunks fSIZ (minimal big-endian), cTIM/mTIM/aTIM (8 bytes), fPRM, xATR exactly encoded and
     the single-valued ones at most once; ANXT only directly before AEND; AEND last and nothing
     after it; every chunk type four ASCII letters with the reserved bit clear; unknown
     critical chunk = reject, unknown ancillary chunk = keep.
   Reused from the archive area: the chunk record, read_chunk_stream (framing + CRC), the type
   constants, the metadata codecs of Codec.v and the entry records of Entry.v.
   The Rust twin is harness/src/refdec.rs (same two phases, same order of checks, same
   reason words); the correspondence check of C14 runs both on the same files. *)
From PNA Require Import Base Crc32 Name Codec Chunk Archive Entry.

Inductive reason :=
  | RSig | RChunk | RNoEnd | RCrc | RType | RTrailing | RAhed | RNumber | RMarker | ROrder
  | RParts | RCritical | RHeader | RName | RPhsf | RData | RMeta | RInner.

Inductive sres (A : Type) := SOk (a : A) | SNo (r : reason).
Arguments SOk {A} a.
Arguments SNo {A} r.
Definition sbind {A B} (r : sres A) (f : A -> sres B) : sres B :=
  match r with SOk a => f a | SNo r => SNo r end.
Notation "'sdo' x <- r ; k" := (sbind r (fun x => k))
  (at level 200, x pattern, r at level 100, k at level 200, right associativity).

Definition is_nil {A} (l : list A) : bool := match l with [] => true | _ => false end.

(* ---- phase 1: the chunks of one part ------------------------------------------------ *)
Definition valid_type (ty : bytes) : bool := forallb is_alpha ty && negb (ty_is_reserved ty).

Definition read_strict_chunk (bs : bytes) : sres (chunk * bytes) :=
  match bs with
  | [] => SNo RNoEnd
  | _ =>
    match read_chunk_stream bs with
    | Ok (c, r) => if valid_type (cty c) then SOk (c, r) else SNo RType
    | Err UnexpectedEof => SNo RChunk
    | Err _ => SNo RCrc
    | Panic => SNo RChunk
    end
  end.

(* up to and including AEND; nothing may follow *)
Fixpoint part_chunks_loop (fuel : nat) (bs : bytes) : sres (list chunk) :=
  match fuel with
  | O => SNo RChunk
  | S f =>
    sdo (c, r) <- read_strict_chunk bs;
    if ty_is c AEND then (if is_nil r then SOk [c] else SNo RTrailing)
    else sdo cs <- part_chunks_loop f r; SOk (c :: cs)
  end.
Definition part_chunks (bs : bytes) : sres (list chunk) :=
  match take 8 bs with
  | Ok (h, r) => if bytes_eqb h sig then part_chunks_loop (S (length r)) r else SNo RSig
  | _ => SNo RSig
  end.

Definition ahed_ok (c : chunk) : bool :=
  ty_is c AHED &&
  match cdata c with
  | [a; b; r1; r2; _; _; _; _] => N.eqb (b2n a) 0 && N.eqb (b2n b) 0 && N.eqb (b2n r1) 0 && N.eqb (b2n r2) 0
  | _ => false
  end.

(* cs = the chunks after AHED, AEND included: the body without ANXT, and the continuation flag *)
Fixpoint body_scan (cs : list chunk) : sres (list chunk * bool) :=
  match cs with
  | [] => SNo RNoEnd
  | c :: rest =>
    match rest with
    | [] => if is_nil (cdata c) then SOk ([], false) else SNo RMarker          (* c is AEND *)
    | e :: rest' =>
      if ty_is c AHED then SNo ROrder
      else if ty_is c ANXT then
        (if negb (is_nil rest') then SNo ROrder
         else if negb (is_nil (cdata c)) then SNo RMarker
         else if negb (is_nil (cdata e)) then SNo RMarker
         else SOk ([], true))
      else sdo (b, n) <- body_scan rest; SOk (c :: b, n)
    end
  end.

Definition part_body (index : N) (bs : bytes) : sres (list chunk * bool) :=
  sdo cs <- part_chunks bs;
  match cs with
  | h :: rest =>
    if negb (ahed_ok h) then SNo RAhed
    else if negb (N.eqb (of_be (skipn 4 (cdata h))) index) then SNo RNumber
    else body_scan rest
  | [] => SNo RAhed
  end.

(* the part chain: ANXT on every part but the last *)
Fixpoint bodies (index : N) (parts : list bytes) : sres (list chunk) :=
  match parts with
  | [] => SNo RParts
  | p :: ps =>
    sdo (b, n) <- part_body index p;
    match ps with
    | [] => if n then SNo RParts else SOk b
    | _ => if n then (sdo r <- bodies (index + 1) ps; SOk (b ++ r)) else SNo RParts
    end
  end.

(* ---- phase 2: the entry grammar -------------------------------------------------------- *)
Definition known_critical (ty : bytes) : bool :=
  existsb (bytes_eqb ty) [AHED; AEND; ANXT; FHED; PHSF; FDAT; FEND; SHED; SDAT; SEND].
Definition bad_critical (ty : bytes) : reason := if known_critical ty then ROrder else RCritical.

(* relative UTF-8 name, every component non-empty and neither "." nor ".." *)
Definition valid_name (n : bytes) : bool := utf8_valid n && forallb normal_seg (segments n).

(* PHC string without hash: $id[$v=N][$k=v,...]$salt, printable ASCII *)
Definition is_digit (b : byte) : bool := in_range 48 57 b.
Definition is_b64 (b : byte) : bool := is_alpha b || is_digit b || byte_eqb b x2b || byte_eqb b x2f.
Definition is_idch (b : byte) : bool := is_lower b || is_digit b || byte_eqb b x2d.
Definition is_paramch (b : byte) : bool :=
  is_b64 b || byte_eqb b x2e || byte_eqb b x2c || byte_eqb b x3d || byte_eqb b x2d.
Definition is_print (b : byte) : bool := in_range 33 126 b.
Definition strip_version (fs : list bytes) : option (list bytes) :=
  match fs with
  | (a :: b :: ds) :: r =>
    if byte_eqb a x76 && byte_eqb b x3d
    then (if negb (is_nil ds) && forallb is_digit ds then Some r else None)
    else Some fs
  | _ => Some fs
  end.
Definition strip_params (fs : list bytes) : option (list bytes) :=
  match fs with
  | f :: r => if existsb (byte_eqb x3d) f then (if forallb is_paramch f then Some r else None) else Some fs
  | [] => Some fs
  end.
Definition phsf_shape (s : bytes) : bool :=
  forallb is_print s &&
  match fields x24 s with
  | [] :: id :: rest =>
    negb (is_nil id) && forallb is_idch id &&
    match strip_version rest with
    | Some r1 =>
      match strip_params r1 with
      | Some [salt] => negb (is_nil salt) && forallb is_b64 salt
      | _ => false
      end
    | None => false
    end
  | _ => false
  end.

Definition encrypted (e : encryption) : bool := match e with ENo => false | _ => true end.
(* IV, then for CBC a positive whole number of blocks *)
Definition data_len_ok (e : encryption) (m : cipher_mode) (total : N) : bool :=
  negb (encrypted e) ||
  (N.leb 16 total && match m with MCtr => true | MCbc => N.ltb 16 total && N.eqb (total mod 16) 0 end).

Definition phsf_step (e : encryption) (have : option bytes) (data_seen : bool) (d : bytes) : sres unit :=
  if negb (encrypted e) then SNo RPhsf
  else match have with Some _ => SNo RPhsf | None =>
    if data_seen then SNo RPhsf else if phsf_shape d then SOk tt else SNo RPhsf end.

Definition strict_fhed (d : bytes) : sres fhed :=
  match d with
  | b0 :: b1 :: b2 :: b3 :: b4 :: b5 :: name =>
    if N.eqb (b2n b0) 0 && N.eqb (b2n b1) 0 then
      match kind_of_n (b2n b2), comp_of_n (b2n b3), enc_of_n (b2n b4), mode_of_n (b2n b5) with
      | Some k, Some c, Some e, Some m =>
        if valid_name name
        then SOk {| f_major := 0; f_minor := 0; f_kind := k; f_comp := c; f_enc := e; f_mode := m; f_name := name |}
        else SNo RName
      | _, _, _, _ => SNo RHeader
      end
    else SNo RHeader
  | _ => SNo RHeader
  end.

Definition strict_shed (d : bytes) : sres shed :=
  match d with
  | [b0; b1; b2; b3; b4] =>
    if N.eqb (b2n b0) 0 && N.eqb (b2n b1) 0 then
      match comp_of_n (b2n b2), enc_of_n (b2n b3), mode_of_n (b2n b4) with
      | Some c, Some e, Some m => SOk {| s_major := 0; s_minor := 0; s_comp := c; s_enc := e; s_mode := m |}
      | _, _, _ => SNo RHeader
      end
    else SNo RHeader
  | _ => SNo RHeader
  end.

Definition is_some {A} (o : option A) : bool := match o with Some _ => true | None => false end.

(* one chunk between FHED and FEND (the accumulator record of Entry.v is reused as a container) *)
Definition strict_step (enc : encryption) (c : chunk) (a : nacc) : sres nacc :=
  let d := cdata c in
  if ty_is c FEND then SNo ROrder
  else if ty_is c FHED then SNo ROrder
  else if ty_is c PHSF then
    sdo _ <- phsf_step enc (k_phsf a) (negb (is_nil (k_data a))) d;
    SOk {| k_info := k_info a; k_phsf := Some d; k_extra := k_extra a; k_data := k_data a;
      k_csize := k_csize a; k_size := k_size a; k_c := k_c a; k_m := k_m a; k_a := k_a a; k_perm := k_perm a; k_x := k_x a |}
  else if ty_is c FDAT then
    if encrypted enc && negb (is_some (k_phsf a)) then SNo RPhsf else
    SOk {| k_info := k_info a; k_phsf := k_phsf a; k_extra := k_extra a; k_data := k_data a ++ [d];
      k_csize := k_csize a + len d; k_size := k_size a; k_c := k_c a; k_m := k_m a; k_a := k_a a; k_perm := k_perm a; k_x := k_x a |}
  else if ty_is c fSIZ then
    if is_some (k_size a) || negb (Nat.leb (length d) 16)
       || match d with b :: _ => N.eqb (b2n b) 0 | [] => false end then SNo RMeta else
    SOk {| k_info := k_info a; k_phsf := k_phsf a; k_extra := k_extra a; k_data := k_data a;
      k_csize := k_csize a; k_size := Some (of_be d); k_c := k_c a; k_m := k_m a; k_a := k_a a; k_perm := k_perm a; k_x := k_x a |}
  else if ty_is c cTIM then
    if is_some (k_c a) || negb (Nat.eqb (length d) 8) then SNo RMeta else
    SOk {| k_info := k_info a; k_phsf := k_phsf a; k_extra := k_extra a; k_data := k_data a;
      k_csize := k_csize a; k_size := k_size a; k_c := Some (of_be d); k_m := k_m a; k_a := k_a a; k_perm := k_perm a; k_x := k_x a |}
  else if ty_is c mTIM then
    if is_some (k_m a) || negb (Nat.eqb (length d) 8) then SNo RMeta else
    SOk {| k_info := k_info a; k_phsf := k_phsf a; k_extra := k_extra a; k_data := k_data a;
      k_csize := k_csize a; k_size := k_size a; k_c := k_c a; k_m := Some (of_be d); k_a := k_a a; k_perm := k_perm a; k_x := k_x a |}
  else if ty_is c aTIM then
    if is_some (k_a a) || negb (Nat.eqb (length d) 8) then SNo RMeta else
    SOk {| k_info := k_info a; k_phsf := k_phsf a; k_extra := k_extra a; k_data := k_data a;
      k_csize := k_csize a; k_size := k_size a; k_c := k_c a; k_m := k_m a; k_a := Some (of_be d); k_perm := k_perm a; k_x := k_x a |}
  else if ty_is c fPRM then
    if is_some (k_perm a) then SNo RMeta else
    match perm_of_bytes d with
    | Ok p =>
      if bytes_eqb (perm_to_bytes p) d then
        SOk {| k_info := k_info a; k_phsf := k_phsf a; k_extra := k_extra a; k_data := k_data a;
          k_csize := k_csize a; k_size := k_size a; k_c := k_c a; k_m := k_m a; k_a := k_a a; k_perm := Some p; k_x := k_x a |}
      else SNo RMeta
    | _ => SNo RMeta
    end
  else if ty_is c xATR then
    match xattr_of_bytes d with
    | Ok x =>
      if bytes_eqb (xattr_to_bytes x) d then
        SOk {| k_info := k_info a; k_phsf := k_phsf a; k_extra := k_extra a; k_data := k_data a;
          k_csize := k_csize a; k_size := k_size a; k_c := k_c a; k_m := k_m a; k_a := k_a a; k_perm := k_perm a; k_x := k_x a ++ [x] |}
      else SNo RMeta
    | _ => SNo RMeta
    end
  else if ty_is_critical (cty c) then SNo (bad_critical (cty c))
  else
    SOk {| k_info := k_info a; k_phsf := k_phsf a; k_extra := k_extra a ++ [c]; k_data := k_data a;
      k_csize := k_csize a; k_size := k_size a; k_c := k_c a; k_m := k_m a; k_a := k_a a; k_perm := k_perm a; k_x := k_x a |}.

Fixpoint strict_loop (enc : encryption) (cs : list chunk) (a : nacc) : sres nacc :=
  match cs with
  | [] => SOk a
  | c :: r => sdo a' <- strict_step enc c a; strict_loop enc r a'
  end.

(* h = the FHED chunk, body = the chunks up to the first FEND, e = that FEND *)
Definition strict_normal (h : chunk) (body : list chunk) (e : chunk) : sres normal_entry :=
  sdo hd <- strict_fhed (cdata h);
  sdo a <- strict_loop (f_enc hd) body
             {| k_info := Some hd; k_phsf := None; k_extra := []; k_data := []; k_csize := 0; k_size := None;
                k_c := None; k_m := None; k_a := None; k_perm := None; k_x := [] |};
  if negb (is_nil (cdata e)) then SNo RMarker
  else if encrypted (f_enc hd) && negb (is_some (k_phsf a)) then SNo RPhsf
  else if negb (data_len_ok (f_enc hd) (f_mode hd) (k_csize a)) then SNo RData
  else SOk {| n_hdr := hd; n_phsf := k_phsf a; n_extra := k_extra a; n_data := k_data a;
              n_meta := {| m_raw_size := k_size a; m_compressed := k_csize a; m_ctime := k_c a;
                           m_mtime := k_m a; m_atime := k_a a; m_perm := k_perm a |};
              n_xattrs := k_x a |}.

(* the entry state machine over a chunk list; `entry h body e` decodes one delimited entry *)
Section Grammar.
  Variable solid_ok : bool.
  Variable entry : chunk -> list chunk -> chunk -> sres read_entry.
  Fixpoint entries_sm (cs : list chunk) (cur : option (chunk * list chunk)) : sres (list read_entry) :=
    match cs with
    | [] => match cur with None => SOk [] | Some _ => SNo ROrder end
    | c :: r =>
      match cur with
      | None =>
        if ty_is c FHED || (solid_ok && ty_is c SHED) then entries_sm r (Some (c, []))
        else if ty_is_critical (cty c) && negb (known_critical (cty c)) then SNo RCritical
        else SNo ROrder
      | Some (h, acc) =>
        if ty_is c (if ty_is h FHED then FEND else SEND) then
          sdo x <- entry h (rev acc) c;
          sdo es <- entries_sm r None;
          SOk (x :: es)
        else entries_sm r (Some (h, c :: acc))
      end
    end.
End Grammar.

Definition normal_only (h : chunk) (body : list chunk) (e : chunk) : sres read_entry :=
  sdo n <- strict_normal h body e; SOk (RNormal n).

(* a decoded solid stream: chunks back to back, complete file entries only *)
Fixpoint stream_chunks (fuel : nat) (bs : bytes) : sres (list chunk) :=
  match fuel with
  | O => SNo RChunk
  | S f =>
    match bs with
    | [] => SOk []
    | _ => sdo (c, r) <- read_strict_chunk bs; sdo cs <- stream_chunks f r; SOk (c :: cs)
    end
  end.
Definition inner_entries (st : bytes) : sres (list read_entry) :=
  sdo cs <- stream_chunks (S (length st)) st;
  entries_sm false normal_only cs None.

Record sacc := { q_phsf : option bytes; q_data : list bytes; q_len : N; q_extra : list chunk }.
Definition solid_step (enc : encryption) (c : chunk) (a : sacc) : sres sacc :=
  let d := cdata c in
  if ty_is c SEND then SNo ROrder
  else if ty_is c SHED then SNo ROrder
  else if ty_is c SDAT then
    if encrypted enc && negb (is_some (q_phsf a)) then SNo RPhsf else
    SOk {| q_phsf := q_phsf a; q_data := q_data a ++ [d]; q_len := q_len a + len d; q_extra := q_extra a |}
  else if ty_is c PHSF then
    sdo _ <- phsf_step enc (q_phsf a) (negb (is_nil (q_data a))) d;
    SOk {| q_phsf := Some d; q_data := q_data a; q_len := q_len a; q_extra := q_extra a |}
  else if ty_is_critical (cty c) then SNo (bad_critical (cty c))
  else SOk {| q_phsf := q_phsf a; q_data := q_data a; q_len := q_len a; q_extra := q_extra a ++ [c] |}.
Fixpoint solid_loop (enc : encryption) (cs : list chunk) (a : sacc) : sres sacc :=
  match cs with
  | [] => SOk a
  | c :: r => sdo a' <- solid_step enc c a; solid_loop enc r a'
  end.
Definition plain_solid (h : shed) : bool :=
  match s_comp h, s_enc h with CNo, ENo => true | _, _ => false end.
Definition strict_solid (h : chunk) (body : list chunk) (e : chunk) : sres solid_entry :=
  sdo hd <- strict_shed (cdata h);
  sdo a <- solid_loop (s_enc hd) body {| q_phsf := None; q_data := []; q_len := 0; q_extra := [] |};
  if negb (is_nil (cdata e)) then SNo RMarker
  else if encrypted (s_enc hd) && negb (is_some (q_phsf a)) then SNo RPhsf
  else if negb (data_len_ok (s_enc hd) (s_mode hd) (q_len a)) then SNo RData
  else if plain_solid hd && negb (match inner_entries (concat (q_data a)) with SOk _ => true | SNo _ => false end)
  then SNo RInner
  else SOk {| so_hdr := hd; so_phsf := q_phsf a; so_data := q_data a; so_extra := q_extra a |}.

Definition any_entry (h : chunk) (body : list chunk) (e : chunk) : sres read_entry :=
  if ty_is h FHED then normal_only h body e
  else sdo s <- strict_solid h body e; SOk (RSolid s).

Definition entries_of (cs : list chunk) : sres (list read_entry) := entries_sm true any_entry cs None.

(* ---- the recogniser and the strict decoder ----------------------------------------------- *)
Definition strict_parts (parts : list bytes) : sres (list read_entry) :=
  sdo cs <- bodies 0 parts; entries_of cs.
Definition sok {A} (r : sres A) : bool := match r with SOk _ => true | SNo _ => false end.

Definition wf_parts (parts : list bytes) : bool := sok (strict_parts parts).
Definition wf_archive (a : bytes) : bool := wf_parts [a].
(* one part file on its own: chunk level + header + marker placement (entries may straddle) *)
Definition wf_part (number : N) (a : bytes) : bool := sok (part_body number a).
Definition strict_decode (a : bytes) : res (list read_entry) :=
  match strict_parts [a] with SOk es => Ok es | SNo _ => Err InvalidData end.

Definition show_reason (r : reason) : bytes :=
  match r with
  | RSig => lit "sig" | RChunk => lit "chunk" | RNoEnd => lit "noend" | RCrc => lit "crc"
  | RType => lit "type" | RTrailing => lit "trailing" | RAhed => lit "ahed" | RNumber => lit "number"
  | RMarker => lit "marker" | ROrder => lit "order" | RParts => lit "parts" | RCritical => lit "critical"
  | RHeader => lit "header" | RName => lit "name" | RPhsf => lit "phsf" | RData => lit "data"
  | RMeta => lit "meta" | RInner => lit "inner"
  end.
