(* Sched.v — the worker-pool program shape of create / append / update / extract and what orders it admits (C19).

   Anchors: cli/src/command/create.rs create_archive_file, create_archive_with_split; append.rs; update.rs;
   extract.rs run_extract_archive_reader — all of the form

       for item in items { pool.scope_fifo(|s| s.spawn_fifo(|_| tx.send(build(item)))) }      (* per_item *)

   i.e. ONE scope per item; rayon's `scope_fifo` returns only after every task spawned in it has finished.
   The "harmless-looking parallelisation"

       pool.scope_fifo(|s| for item in items { s.spawn_fifo(|_| tx.send(build(item))) })      (* single_scope *)

   is a different program.  Both are programs of a tiny fork/join language; the small-step semantics lets ANY
   in-flight task run at ANY time (no assumption about the scheduler or the number of workers), the main
   thread submits tasks in program order, and a scope can only be left when none of its tasks is in flight.

   A configuration is (frames, channel): one frame per open scope (innermost first) = (statements left in the
   scope body, tasks spawned in it and still in flight), plus the channel contents so far.
   `enabled c` enumerates every possible next step, so the semantics is executable: `all_orders` explores every
   interleaving and returns the set of channel contents of terminal configurations.

   Outside the model: rayon itself (that scope_fifo joins, that a spawned closure runs exactly once), the
   mpsc channel being FIFO per sender and the receiver draining it only after the loop.
   Second part: extraction as a set of creations over the file system of Overwrite.v.
   Definitions only; facts in Proofs/SchedFacts.v. *)
From PNA Require Import Base Overwrite.

Section Sched.
Context {I E : Type}.
Variable build : I -> E.

Inductive stmt := Spawn (i : I) | Scope (body : list stmt).

Definition per_item (items : list I) : list stmt := map (fun i => Scope [Spawn i]) items.
Definition single_scope (items : list I) : list stmt := [Scope (map Spawn items)].

Definition frame : Type := list stmt * list I.
Record config := { frames : list frame; chan : list E }.

Inductive event := EvOpen | EvSubmit (i : I) | EvRun (i : I) | EvClose.

Definition init (p : list stmt) : config := {| frames := [(p, [])]; chan := [] |}.
Definition terminal (c : config) : bool :=
  match frames c with [([], [])] => true | _ => false end.

(* the main thread: next statement of the innermost open scope; leaving a scope needs an empty in-flight set *)
Definition main_steps (c : config) : list (event * config) :=
  match frames c with
  | (Spawn i :: r, infl) :: fs => [(EvSubmit i, {| frames := (r, infl ++ [i]) :: fs; chan := chan c |})]
  | (Scope b :: r, infl) :: fs => [(EvOpen, {| frames := (b, []) :: (r, infl) :: fs; chan := chan c |})]
  | ([], []) :: f :: fs => [(EvClose, {| frames := f :: fs; chan := chan c |})]
  | _ => []
  end.

(* every way of taking one element out of a list: (element, the rest) *)
Fixpoint picks {A} (l : list A) : list (A * list A) :=
  match l with
  | [] => []
  | x :: r => (x, r) :: map (fun yr => (fst yr, x :: snd yr)) (picks r)
  end.

(* a worker: any in-flight task of any open scope runs to completion and sends its result *)
Fixpoint task_steps_from (pre : list frame) (fs : list frame) (ch : list E) : list (event * config) :=
  match fs with
  | [] => []
  | (body, infl) :: r =>
    map (fun ir => (EvRun (fst ir), {| frames := pre ++ (body, snd ir) :: r; chan := ch ++ [build (fst ir)] |})) (picks infl)
    ++ task_steps_from (pre ++ [(body, infl)]) r ch
  end.
Definition task_steps (c : config) : list (event * config) := task_steps_from [] (frames c) (chan c).

Definition enabled (c : config) : list (event * config) := main_steps c ++ task_steps c.

Inductive run : config -> list event -> config -> Prop :=
| run_nil c : run c [] c
| run_cons c e c1 tr c2 : In (e, c1) (enabled c) -> run c1 tr c2 -> run c (e :: tr) c2.

(* a complete execution of program p *)
Definition exec (p : list stmt) (tr : list event) : Prop :=
  exists c, run (init p) tr c /\ terminal c = true.

(* what the receiver finds in the channel: the results in the order in which the tasks ran *)
Fixpoint runs (tr : list event) : list I :=
  match tr with
  | [] => []
  | EvRun i :: r => i :: runs r
  | _ :: r => runs r
  end.
Definition channel (tr : list event) : list E := map build (runs tr).

(* ---- executable exploration of all interleavings ---------------------------------------- *)
Fixpoint stmt_size (s : stmt) : nat :=          (* steps the statement takes: submit + run, open + body + close *)
  match s with
  | Spawn _ => 2%nat
  | Scope b => S (S ((fix go (l : list stmt) : nat := match l with [] => O | x :: r => (stmt_size x + go r)%nat end) b))
  end.
Definition size (p : list stmt) : nat := fold_right (fun s n => (stmt_size s + n)%nat) O p.
Fixpoint finals (fuel : nat) (c : config) : list (list E) :=
  if terminal c then [chan c]
  else match fuel with
       | O => []
       | S f => flat_map (fun ec => finals f (snd ec)) (enabled c)
       end.
Definition all_finals (p : list stmt) : list (list E) := finals (S (size p)) (init p).
End Sched.

Arguments Spawn {I} i.
Arguments Scope {I} body.
Arguments EvOpen {I}.
Arguments EvSubmit {I} i.
Arguments EvRun {I} i.
Arguments EvClose {I}.

(* ---- instance run by the case interpreter: items 0..n-1, build = identity ------------------ *)
Fixpoint upto (n : nat) : list N :=
  match n with O => [] | S m => upto m ++ [N.of_nat m] end.

Fixpoint list_N_leb (a b : list N) : bool :=      (* lexicographic *)
  match a, b with
  | [], _ => true
  | _, [] => false
  | x :: a', y :: b' => if N.ltb x y then true else if N.ltb y x then false else list_N_leb a' b'
  end.
Fixpoint list_N_eqb (a b : list N) : bool :=
  match a, b with
  | [], [] => true
  | x :: a', y :: b' => N.eqb x y && list_N_eqb a' b'
  | _, _ => false
  end.
Fixpoint insert_sorted (x : list N) (l : list (list N)) : list (list N) :=
  match l with
  | [] => [x]
  | y :: r => if list_N_eqb x y then l else if list_N_leb x y then x :: l else y :: insert_sorted x r
  end.
Definition sort_dedup (l : list (list N)) : list (list N) := fold_right insert_sorted [] l.

Inductive shape := PerItem | SingleScope.
Definition program (s : shape) (n : nat) : list (@stmt N) :=
  match s with PerItem => per_item (upto n) | SingleScope => single_scope (upto n) end.
(* the sorted set of channel orders the semantics allows *)
Definition all_orders (s : shape) (n : nat) : list (list N) :=
  sort_dedup (all_finals (fun i => i) (program s n)).

(* ---- extraction as creations over the file system of Overwrite.v ---------------------------- *)
(* every non-hard-link entry creates one object at its destination; hard links are applied after all the
   others (extract.rs collects them and runs them last) and share the object of their source *)
Definition creation : Type := path * obj.
Definition apply_creation (s : fs) (c : creation) : fs := put s (fst c) (snd c).
Definition hardlink : Type := path * path.        (* (destination, source) *)
Definition apply_link (s : fs) (l : hardlink) : fs :=
  match node s (snd l) with Some o => put s (fst l) o | None => s end.
Definition extract_fs (s : fs) (cs : list creation) (ls : list hardlink) : fs :=
  fold_left apply_link ls (fold_left apply_creation cs s).
