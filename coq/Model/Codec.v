(* Codec.v — the library's metadata codecs.
   mirrors: lib/src/archive/header.rs (AHED), lib/src/entry/header.rs (FHED, SHED),
   lib/src/entry/options.rs (TryFrom<u8> enums), lib/src/entry/meta.rs (fPRM),
   lib/src/entry/attr.rs (xATR), lib/src/entry.rs (timestamp, fSIZ). *)
From PNA Require Import Base Name.

(* ---- enums (entry/options.rs) ------------------------------------------ *)
Inductive data_kind := KFile | KDir | KSymlink | KHardlink.
Inductive compression := CNo | CDeflate | CZstd | CXz.
Inductive encryption := ENo | EAes | ECamellia.
Inductive cipher_mode := MCbc | MCtr.

Definition kind_to_n k := match k with KFile => 0 | KDir => 1 | KSymlink => 2 | KHardlink => 3 end.
Definition kind_of_n n :=
  if N.eqb n 0 then Some KFile else if N.eqb n 1 then Some KDir
  else if N.eqb n 2 then Some KSymlink else if N.eqb n 3 then Some KHardlink else None.
Definition comp_to_n c := match c with CNo => 0 | CDeflate => 1 | CZstd => 2 | CXz => 4 end.
Definition comp_of_n n :=
  if N.eqb n 0 then Some CNo else if N.eqb n 1 then Some CDeflate
  else if N.eqb n 2 then Some CZstd else if N.eqb n 4 then Some CXz else None.
Definition enc_to_n e := match e with ENo => 0 | EAes => 1 | ECamellia => 2 end.
Definition enc_of_n n :=
  if N.eqb n 0 then Some ENo else if N.eqb n 1 then Some EAes
  else if N.eqb n 2 then Some ECamellia else None.
Definition mode_to_n m := match m with MCbc => 0 | MCtr => 1 end.
Definition mode_of_n n :=
  if N.eqb n 0 then Some MCbc else if N.eqb n 1 then Some MCtr else None.

Definition opt_res {A} (e : ekind) (o : option A) : res A :=
  match o with Some a => Ok a | None => Err e end.

(* ---- AHED (archive/header.rs) ------------------------------------------- *)
Record ahed := { a_major : N; a_minor : N; a_number : N }.
Definition ahed_to_bytes (h : ahed) : bytes :=
  [n2b (a_major h); n2b (a_minor h); x00; x00] ++ be32 (a_number h).
Definition ahed_of_bytes (bs : bytes) : res ahed :=
  match bs with
  | [b0; b1; _; _; b4; b5; b6; b7] =>
      Ok {| a_major := b2n b0; a_minor := b2n b1; a_number := of_be [b4; b5; b6; b7] |}
  | _ => Err InvalidInput
  end.

(* ---- FHED (entry/header.rs) --------------------------------------------- *)
Record fhed := { f_major : N; f_minor : N; f_kind : data_kind; f_comp : compression;
                 f_enc : encryption; f_mode : cipher_mode; f_name : bytes }.
(* NOTE: the code writes `minor` twice (header.rs:104-105); the parser then
   rejects anything but 0.0, so only 0.0 headers exist. Modelled as written. *)
Definition fhed_to_bytes (h : fhed) : bytes :=
  [n2b (f_minor h); n2b (f_minor h); n2b (kind_to_n (f_kind h)); n2b (comp_to_n (f_comp h));
   n2b (enc_to_n (f_enc h)); n2b (mode_to_n (f_mode h))] ++ f_name h.
Definition fhed_of_bytes (bs : bytes) : res fhed :=
  match bs with
  | b0 :: b1 :: b2 :: b3 :: b4 :: b5 :: name =>
      do k <- opt_res InvalidData (kind_of_n (b2n b2));
      do c <- opt_res InvalidData (comp_of_n (b2n b3));
      do e <- opt_res InvalidData (enc_of_n (b2n b4));
      do m <- opt_res InvalidData (mode_of_n (b2n b5));
      do n <- name_of_bytes name;
      Ok {| f_major := b2n b0; f_minor := b2n b1; f_kind := k; f_comp := c;
            f_enc := e; f_mode := m; f_name := n |}
  | _ => Err InvalidData
  end.

(* ---- SHED ---------------------------------------------------------------- *)
Record shed := { s_major : N; s_minor : N; s_comp : compression;
                 s_enc : encryption; s_mode : cipher_mode }.
Definition shed_to_bytes (h : shed) : bytes :=
  [n2b (s_major h); n2b (s_minor h); n2b (comp_to_n (s_comp h));
   n2b (enc_to_n (s_enc h)); n2b (mode_to_n (s_mode h))].
Definition shed_of_bytes (bs : bytes) : res shed :=
  match bs with
  | [b0; b1; b2; b3; b4] =>
      do c <- opt_res InvalidData (comp_of_n (b2n b2));
      do e <- opt_res InvalidData (enc_of_n (b2n b3));
      do m <- opt_res InvalidData (mode_of_n (b2n b4));
      Ok {| s_major := b2n b0; s_minor := b2n b1; s_comp := c; s_enc := e; s_mode := m |}
  | _ => Err InvalidInput
  end.

(* ---- fPRM (entry/meta.rs Permission) -------------------------------------- *)
Record perm := { p_uid : N; p_uname : bytes; p_gid : N; p_gname : bytes; p_mode : N }.
(* length cast `as u8` (meta.rs:266,:269) = mod 256 *)
Definition perm_to_bytes (p : perm) : bytes :=
  be64 (p_uid p) ++ [n2b (len (p_uname p))] ++ p_uname p ++
  be64 (p_gid p) ++ [n2b (len (p_gname p))] ++ p_gname p ++ be16 (p_mode p).

(* read_exact on a slice: n bytes or UnexpectedEof *)
Definition take (n : nat) (bs : bytes) : res (bytes * bytes) :=
  if Nat.leb n (length bs) then Ok (firstn n bs, skipn n bs) else Err UnexpectedEof.
(* same with a count read from the input: compare in N before going to nat *)
Definition takeN (n : N) (bs : bytes) : res (bytes * bytes) :=
  if N.leb n (len bs) then Ok (firstn (N.to_nat n) bs, skipn (N.to_nat n) bs) else Err UnexpectedEof.

Definition perm_of_bytes (bs : bytes) : res perm :=
  do (uid, r) <- take 8 bs;
  do (ul, r) <- take 1 r;
  do (un, r) <- takeN (of_be ul) r;
  if negb (utf8_valid un) then Err InvalidData else
  do (gid, r) <- take 8 r;
  do (gl, r) <- take 1 r;
  do (gn, r) <- takeN (of_be gl) r;
  if negb (utf8_valid gn) then Err InvalidData else
  do (m, r) <- take 2 r;
  Ok {| p_uid := of_be uid; p_uname := un; p_gid := of_be gid; p_gname := gn; p_mode := of_be m |}.

(* ---- xATR (entry/attr.rs) ---------------------------------------------------- *)
Record xattr := { x_name : bytes; x_value : bytes }.
Definition xattr_to_bytes (x : xattr) : bytes :=
  be32 (len (x_name x)) ++ x_name x ++ be32 (len (x_value x)) ++ x_value x.
(* after the fix of D7 the name is taken with a checked split (UnexpectedEof) *)
Definition xattr_of_bytes (bs : bytes) : res xattr :=
  do (l, r) <- take 4 bs;
  do (name, r) <- takeN (of_be l) r;
  if negb (utf8_valid name) then Err InvalidData else
  do (l2, r) <- take 4 r;
  do (v, _) <- takeN (of_be l2) r;
  Ok {| x_name := name; x_value := v |}.

(* ---- timestamps, fSIZ (entry.rs) ---------------------------------------------- *)
Definition time_to_bytes (secs : N) : bytes := be64 secs.
Definition time_of_bytes (bs : bytes) : res N :=
  if Nat.eqb (length bs) 8 then Ok (of_be bs) else Err InvalidData.
Definition fsiz_to_bytes (n : N) : bytes := drop_zeros (be128 n).
Definition fsiz_of_bytes (bs : bytes) : N := of_be (lastn 16 bs).     (* u128_from_be_bytes_last *)

(* ---- chunk-type property bits (chunk/types.rs) -------------------------------- *)
Definition bit5 (b : byte) : bool := N.testbit (b2n b) 5.
Definition ty_is_critical (ty : bytes) : bool := negb (bit5 (nth 0 ty x00)).
Definition ty_is_private (ty : bytes) : bool := bit5 (nth 1 ty x00).
Definition ty_is_reserved (ty : bytes) : bool := bit5 (nth 2 ty x00).
Definition ty_is_safe_to_copy (ty : bytes) : bool := bit5 (nth 3 ty x00).
Definition is_alpha (b : byte) : bool := in_range 65 90 b || in_range 97 122 b.
Definition is_lower (b : byte) : bool := in_range 97 122 b.
Definition is_upper (b : byte) : bool := in_range 65 90 b.
(* ChunkType::private: 0 = ok, 1 = NonAsciiAlphabetic, 2 = NonPrivateChunkType, 3 = Reserved *)
Definition ty_private_check (ty : bytes) : N :=
  if negb (forallb is_alpha ty) then 1
  else if negb (is_lower (nth 1 ty x00)) then 2
  else if negb (is_upper (nth 2 ty x00)) then 3 else 0.
