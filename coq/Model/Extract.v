(* Extract.v — `pna extract` / `pna experimental stdio -x` on the abstract file system
   (cli/src/command/extract.rs: run_extract_archive_reader, extract_entry, ensure_no_symlink_ancestor,
   resolve_link_source — the REPAIRED code), and `pna create` as a function from a directory tree to
   the logical entry list (cli/src/command/commons.rs: collect_items, create_entry, apply_metadata).
   An archive is its logical entry list: (stored name, kind, data, metadata); lossless transport of
   that list through the container is property C01.  Definitions only. *)
From PNA Require Import Base Name Fs.

(* ---- entries ----------------------------------------------------------------------------- *)
Record xentry := mk_xentry {
  e_name : bytes;                     (* as stored; the reader sanitises it (EntryName) *)
  e_kind : N;                         (* 0 file | 1 directory | 2 symbolic link | 3 hard link *)
  e_data : bytes;                     (* content, or link target / hard-link source *)
  e_perm : option N;                  (* fPRM mode *)
  e_mtime : option N;                 (* mTIM seconds *)
  e_xattrs : list (bytes * bytes) }.

Record xopts := mk_xopts {
  o_overwrite : bool;
  o_keep_perm : bool;
  o_keep_time : bool;
  o_keep_xattr : bool;
  o_guarded : bool }.                 (* true = the repaired code; false = the code before the C09 repairs *)

Definition nil_b {A} (l : list A) : bool := match l with [] => true | _ => false end.

(* components of the sanitised name: item.header().path() *)
Definition name_comps (s : bytes) : list bytes := filter normal_seg (segments s).

(* sequencing of calls that may fail and keep their partial effects *)
Definition andthen (r : fs * bool) (k : fs -> fs * bool) : fs * bool :=
  let (f, ok) := r in if ok then k f else (f, false).
Notation "'dofs' f <- r ; k" := (andthen r (fun f => k))
  (at level 200, f name, r at level 100, k at level 200, right associativity).

(* ensure_no_symlink_ancestor(base, relative): every proper ancestor of base/relative below base *)
Fixpoint no_link_anc (f : fs) (pre : path) (rest : list bytes) : bool :=
  match rest with
  | [] => true
  | [_] => true
  | c :: r => let q := pre ++ [c] in if is_link f q then false else no_link_anc f q r
  end.

(* resolve_link_source(entry_path, source): lexical, relative to the entry's directory *)
Fixpoint lex_resolve (cur : list bytes) (segs : list bytes) : option (list bytes) :=
  match segs with
  | [] => Some cur
  | c :: r =>
    if is_empty c || is_dot c then lex_resolve cur r
    else if is_dotdot c then match cur with [] => None | _ => lex_resolve (removelast cur) r end
    else lex_resolve (cur ++ [c]) r
  end.
Definition link_source (comps : list bytes) (src : bytes) : option (list bytes) :=
  if has_root src then None else lex_resolve (removelast comps) (segments src).

(* the code before the repair: parent.join(original), used verbatim (the kernel resolves `..`) *)
Definition legacy_source (path_ : path) (src : bytes) : path :=
  if has_root src then link_segs src else removelast path_ ++ link_segs src.

Definition apply_perm (o : xopts) (e : xentry) (f : fs) (p : path) : fs :=
  if o_keep_perm o then
    match e_perm e with
    | Some m => if o_guarded o && is_link f p then f else fst (chmod f p (m mod 4096))
    | None => f
    end
  else f.

Definition replace_existing (o : xopts) (f : fs) (p : path) : fs * bool :=
  if o_overwrite o && exists_ f p then remove f p else (f, true).

(* extract_entry *)
Definition extract_entry (o : xopts) (out : path) (e : xentry) (f : fs) : fs * bool :=
  let comps := name_comps (e_name e) in
  let p := out ++ comps in
  if o_guarded o && nil_b comps && negb (N.eqb (e_kind e) 1) then (f, false)
  else if o_guarded o && negb (no_link_anc f out comps) then (f, false)
  else if negb (o_overwrite o) && lexists f p then (f, false)
  else
    dofs f <- (if o_guarded o && is_link f p then unlink f p else (f, true));
    dofs f <- create_dir_all f (removelast p);
    dofs f <-
      (if N.eqb (e_kind e) 0 then
         dofs f <- create_file f p (e_data e);
         dofs f <- (if o_keep_time o then
                      match e_mtime e with Some t => set_mtime f p t | None => (f, true) end
                    else (f, true));
         (f, true)
       else if N.eqb (e_kind e) 1 then create_dir_all f p
       else if negb (utf8_valid (e_data e)) then (f, false)
       else if N.eqb (e_kind e) 2 then
         dofs f <- replace_existing o f p;
         symlink f (normalize_reference (e_data e)) p
       else
         let src := normalize_reference (e_data e) in
         if o_guarded o then
           match link_source comps src with
           | None => (f, false)
           | Some s =>
             if no_link_anc f out s then
               dofs f <- replace_existing o f p;
               hard_link f (out ++ s) p
             else (f, false)
           end
         else
           dofs f <- replace_existing o f p;
           hard_link f (legacy_source p src) p);
    (* set_xattrs(&path, item.xattrs()): every entry kind, the last component is not followed.  Extended attributes
       come BEFORE owner + mode (an unprivileged user cannot put an attribute on a file whose mode has just become
       0444); a failing set_xattrs returns before the mode is applied *)
    dofs f <- (if o_keep_xattr o then lset_xattrs f p (e_xattrs e) else (f, true));
    (apply_perm o e f p, true).

(* run_extract_archive_reader: every entry that is not a hard link is attempted in archive order
   (a failure is reported at the end); hard links come last, only if nothing failed, and stop at the
   first failure *)
Definition is_hardlink (e : xentry) : bool := N.eqb (e_kind e) 3.

Fixpoint extract_each (o : xopts) (out : path) (es : list xentry) (f : fs) (ok : bool) : fs * bool :=
  match es with
  | [] => (f, ok)
  | e :: r => let (f', ok') := extract_entry o out e f in extract_each o out r f' (ok && ok')
  end.

Fixpoint extract_until (o : xopts) (out : path) (es : list xentry) (f : fs) : fs * bool :=
  match es with
  | [] => (f, true)
  | e :: r => let (f', ok') := extract_entry o out e f in
              if ok' then extract_until o out r f' else (f', false)
  end.

Definition extract_run (o : xopts) (out : path) (arch : list xentry) (f : fs) : fs * bool :=
  let (f1, ok) := extract_each o out (filter (fun e => negb (is_hardlink e)) arch) f true in
  if ok then extract_until o out (filter is_hardlink arch) f1 else (f1, false).

Definition extract_all (o : xopts) (out : path) (arch : list xentry) (f : fs) : fs :=
  fst (extract_run o out arch f).

(* ---- create: a directory tree to entries ---------------------------------------------------- *)
Inductive tnode :=
  | TFile (content : bytes) (mode : N) (mtime : N) (xattrs : list (bytes * bytes))
  | TDir (mode : N)
  | TLink (target : bytes).
Definition tree := list (list bytes * tnode).     (* relative paths, components *)

Record copts := mk_copts {
  c_keep_dir : bool;
  c_keep_perm : bool;
  c_keep_time : bool;
  c_keep_xattr : bool }.

Definition tget (t : tree) (p : list bytes) : option tnode :=
  match find (fun e => path_eqb (fst e) p) t with Some e => Some (snd e) | None => None end.

Definition slash1 : bytes := [slash].
Definition path_str (p : list bytes) : bytes := join slash1 p.

(* create_entry + apply_metadata for one walked item (symbolic link before file before directory).
   apply_metadata uses symlink_metadata: with --keep-permission a symbolic-link entry carries the link's own
   mode (lrwxrwxrwx); with --keep-timestamp link and directory entries carry times as well, which extract_entry
   never reads for these kinds (not represented) *)
Definition link_mode : N := 511.
Definition entry_of (c : copts) (p : list bytes) (n : tnode) : xentry :=
  match n with
  | TLink t => mk_xentry (path_str p) 2 (normalize_reference t)
                        (if c_keep_perm c then Some link_mode else None) None []
  | TFile d m t xs =>
    mk_xentry (path_str p) 0 d
      (if c_keep_perm c then Some m else None)
      (if c_keep_time c then Some t else None)
      (if c_keep_xattr c then xs else [])
  | TDir m => mk_xentry (path_str p) 1 [] (if c_keep_perm c then Some m else None) None []
  end.

(* collect_items: the walk order is an oracle; directories only with --keep-dir *)
Definition collected (c : copts) (n : tnode) : bool :=
  match n with TDir _ => c_keep_dir c | _ => true end.

Fixpoint create_from_tree (c : copts) (order : list (list bytes)) (t : tree) : list xentry :=
  match order with
  | [] => []
  | p :: r =>
    match tget t p with
    | Some n => if collected c n then entry_of c p n :: create_from_tree c r t
                else create_from_tree c r t
    | None => create_from_tree c r t
    end
  end.

(* collect_items since 4cfc8ff5: overlapping file arguments (`-r t t/a`, `./t/a t/a`) make the walker reach a path
   more than once; of the paths that pass the filter the first of every entry name is the item
   (`if seen.insert(EntryName::from_lossy(&path)) { target_items.push(path) }`).  `walk` = what the walker yields,
   repetitions included; create_from_tree above is the special case of a walk that reaches every path once *)
Fixpoint name_seen (x : bytes) (seen : list bytes) : bool :=
  match seen with [] => false | y :: r => bytes_eqb x y || name_seen x r end.
Fixpoint create_walk_seen (c : copts) (seen : list bytes) (walk : list (list bytes)) (t : tree) : list xentry :=
  match walk with
  | [] => []
  | p :: r =>
    match tget t p with
    | Some n => if collected c n then
                  if name_seen (path_str p) seen then create_walk_seen c seen r t
                  else entry_of c p n :: create_walk_seen c (path_str p :: seen) r t
                else create_walk_seen c seen r t
    | None => create_walk_seen c seen r t
    end
  end.
Definition create_from_walk (c : copts) (walk : list (list bytes)) (t : tree) : list xentry :=
  create_walk_seen c [] walk t.
(* create before 4cfc8ff5: every walked path that passes is an item (C02_create_overlap_unrepaired_refuted) *)
Definition create_from_walk_orig (c : copts) (walk : list (list bytes)) (t : tree) : list xentry :=
  create_from_tree c walk t.
(* the walked paths, each once: the first occurrence of every name, in walk order *)
Fixpoint uniq_seen (seen : list bytes) (walk : list (list bytes)) : list (list bytes) :=
  match walk with
  | [] => []
  | p :: r => if name_seen (path_str p) seen then uniq_seen seen r else p :: uniq_seen (path_str p :: seen) r
  end.
Definition uniq_paths (walk : list (list bytes)) : list (list bytes) := uniq_seen [] walk.

(* ---- what is expected after create + extract into an empty directory -------------------------- *)
(* observable result: relative path, kind, content / target, and the metadata that was asked for *)
Inductive enode :=
  | EFile (content : bytes) (mode : option N) (mtime : option N) (xattrs : list (bytes * bytes))
  | EDir (mode : option N)
  | ELink (target : bytes).

Definition kept_perm (c : copts) (o : xopts) : bool := c_keep_perm c && o_keep_perm o.
Definition kept_time (c : copts) (o : xopts) : bool := c_keep_time c && o_keep_time o.
Definition kept_xattr (c : copts) (o : xopts) : bool := c_keep_xattr c && o_keep_xattr o.

Definition mode_bits (m : N) : N := m mod 4096.

Definition expected_node (c : copts) (o : xopts) (n : tnode) : enode :=
  match n with
  | TFile d m t xs =>
    EFile d (if kept_perm c o then Some (mode_bits m) else None)
            (if kept_time c o then Some t else None)
            (if kept_xattr c o then xs else [])
  | TDir m => EDir (if c_keep_dir c && kept_perm c o then Some (mode_bits m) else None)
  | TLink t => ELink (normalize_reference (normalize_reference t))
  end.

(* a directory survives when --keep-dir stored it or when something kept lies below it *)
Definition has_kept_below (t : tree) (p : list bytes) : bool :=
  existsb (fun e => is_prefix p (fst e) && negb (path_eqb p (fst e))
                    && match snd e with TDir _ => false | _ => true end) t.

Definition expected (c : copts) (o : xopts) (order : list (list bytes)) (t : tree) : list (list bytes * enode) :=
  flat_map (fun p =>
    match tget t p with
    | Some n =>
      match n with
      | TDir _ => if c_keep_dir c || has_kept_below t p then [(p, expected_node c o n)] else []
      | _ => [(p, expected_node c o n)]
      end
    | None => []
    end) order.

(* the extracted tree as the same kind of list, read back below `out`, in the given order *)
Definition enode_of (c : copts) (o : xopts) (f : fs) (p : path) : option enode :=
  match observe f p with
  | OFile _ n => Some (EFile (i_content n)
                             (if kept_perm c o then Some (i_mode n) else None)
                             (if kept_time c o then i_mtime n else None)
                             (if kept_xattr c o then i_xattrs n else []))
  | ODir m => Some (EDir (if c_keep_dir c && kept_perm c o then Some m else None))
  | OLink t => Some (ELink t)
  | ONone => None
  end.

Definition tree_of (c : copts) (o : xopts) (out : path) (order : list (list bytes)) (f : fs)
  : list (list bytes * enode) :=
  flat_map (fun p => match enode_of c o f (out ++ p) with Some n => [(p, n)] | None => [] end) order.

(* the empty output directory: `out` and its ancestors exist as directories, nothing else *)
Fixpoint dir_chain (pre : path) (rest : list bytes) : list (path * dnode) :=
  match rest with
  | [] => []
  | c :: r => (pre ++ [c], DDir default_dir_mode) :: dir_chain (pre ++ [c]) r
  end.
Definition empty_dir (out : path) : fs :=
  {| names := ([], DDir default_dir_mode) :: dir_chain [] out; inodes := []; next := 1 |}.
