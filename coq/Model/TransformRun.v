(* TransformRun.v — case interpreter of the `transform` area (CLI archive-editing commands).
   Case:  apply <strategy> <pw 0/1> <cmd> <cmd args> <nfiles> <matched names> <excluded names> <archive>
   Outcome: OK <archive> | ERR <kind> | ERR Usage (the mode argument does not parse).
   Archive text: items joined by ';'
     E|<entry>                       a normal entry
     S|codec:cipher:mode|<extras>    a solid entry; the I items that follow are its inner entries
     I|<entry>
   <entry> = name-hex|kind|hdr|content|ctime|mtime|atime|perm|xattrs|extras  with
     hdr, content opaque tokens, times decimal or '-', perm '-' or uid:uname-hex:gid:gname-hex:mode,
     xattrs n-hex:v-hex,...   extras type-hex:data-hex,...
   props/C10.py renders the dump of the real archive in exactly this form. *)
From PNA Require Import Base Codec Chunk CliCodec CodecRun Transform.

Definition bar : byte := x7c.
Definition semi : byte := x3b.
Definition dash : bytes := lit "-".
Definition period : byte := x2e.

Definition obind {A B} (o : option A) (f : A -> option B) : option B :=
  match o with Some a => f a | None => None end.
Notation "'let?' x := o 'in' k" := (obind o (fun x => k)) (at level 200, x pattern, right associativity).

(* '-' = absent *)
Definition p_opt {A} (p : bytes -> option A) (s : bytes) : option (option A) :=
  if bytes_eqb s dash then Some None else option_map Some (p s).
Definition s_opt {A} (f : A -> bytes) (o : option A) : bytes :=
  match o with Some a => f a | None => dash end.

Definition p_pair (s : bytes) : option (bytes * bytes) :=
  match fields colon s with
  | [a; b] => let? x := unhex a in let? y := unhex b in Some (x, y)
  | _ => None
  end.
Definition p_pairs (s : bytes) : option (list (bytes * bytes)) := all_some (map p_pair (list_field s)).
Definition s_pairs (l : list (bytes * bytes)) : bytes :=
  join [comma] (map (fun p => hex (fst p) ++ colon :: hex (snd p)) l).

Definition p_perm (s : bytes) : option perm :=
  match fields colon s with
  | [u; un; g; gn; m] =>
    let? u := undec u in let? un := unhex un in let? g := undec g in let? gn := unhex gn in let? m := undec m in
    Some {| p_uid := u; p_uname := un; p_gid := g; p_gname := gn; p_mode := m |}
  | _ => None
  end.
Definition s_perm (p : perm) : bytes :=
  join [colon] [dec (p_uid p); hex (p_uname p); dec (p_gid p); hex (p_gname p); dec (p_mode p)].

Definition p_entry (f : list bytes) : option lentry :=
  match f with
  | [n; k; h; c; ct; mt; at_; p; xs; ex] =>
    let? n := unhex n in let? k := undec k in
    let? ct := p_opt undec ct in let? mt := p_opt undec mt in let? at_ := p_opt undec at_ in
    let? p := p_opt p_perm p in let? xs := p_pairs xs in let? ex := p_pairs ex in
    Some {| le_name := n; le_kind := k; le_hdr := h; le_content := c; le_ctime := ct; le_mtime := mt;
            le_atime := at_; le_perm := p;
            le_xattrs := map (fun q => {| x_name := fst q; x_value := snd q |}) xs;
            le_extras := map (fun q => mk (fst q) (snd q)) ex |}
  | _ => None
  end.
Definition s_chunks (cs : list chunk) : bytes := s_pairs (map (fun c => (cty c, cdata c)) cs).
Definition s_entry (e : lentry) : bytes :=
  join [bar] [hex (le_name e); dec (le_kind e); le_hdr e; le_content e; s_opt dec (le_ctime e);
              s_opt dec (le_mtime e); s_opt dec (le_atime e); s_opt s_perm (le_perm e);
              s_pairs (map (fun x => (x_name x, x_value x)) (le_xattrs e)); s_chunks (le_extras e)].

Definition p_shdr (s : bytes) : option shdr :=
  match fields colon s with
  | [a; b; c] => let? a := undec a in let? b := undec b in let? c := undec c in
                 Some {| sh_codec := a; sh_cipher := b; sh_mode := c |}
  | _ => None
  end.
Definition s_shdr (h : shdr) : bytes := join [colon] [dec (sh_codec h); dec (sh_cipher h); dec (sh_mode h)].

(* items, right to left: an I item joins the solid block that is built to its left, so the
   fold keeps the inner entries met since the last S/E *)
Fixpoint p_items (l : list bytes) : option (archive * list lentry) :=
  match l with
  | [] => Some ([], [])
  | s :: r =>
    let? (a, inner) := p_items r in
    match fields bar s with
    | tag :: f =>
      if bytes_eqb tag (lit "E") then
        match inner with [] => let? e := p_entry f in Some (Normal e :: a, []) | _ => None end
      else if bytes_eqb tag (lit "I") then let? e := p_entry f in Some (a, e :: inner)
      else if bytes_eqb tag (lit "S") then
        match f with
        | [h; x] => let? h := p_shdr h in let? x := p_pairs x in
                    Some (Solid h (map (fun q => mk (fst q) (snd q)) x) inner :: a, [])
        | _ => None
        end
      else None
    | [] => None
    end
  end.
Definition p_archive (s : bytes) : option archive :=
  match s with
  | [] => Some []
  | _ => match p_items (fields semi s) with Some (a, []) => Some a | _ => None end
  end.
Definition s_item (it : item) : list bytes :=
  match it with
  | Normal e => [lit "E|" ++ s_entry e]
  | Solid h x es => (lit "S|" ++ s_shdr h ++ bar :: s_chunks x) :: map (fun e => lit "I|" ++ s_entry e) es
  end.
Definition s_archive (a : archive) : bytes := join [semi] (concat (map s_item a)).

(* ---- command arguments ----------------------------------------------------------------- *)
Definition p_idname (s : bytes) : option (N * bytes) :=
  match fields colon s with
  | [i; n] => let? i := undec i in let? n := unhex n in Some (i, n)
  | _ => None
  end.
Definition p_owner (k n : bytes) : option owner :=
  if bytes_eqb k (lit "u") then Some (match n with [] => Owner | _ => User n end)
  else if bytes_eqb k (lit "g") then Some (match n with [] => OwnerGroup | _ => Group n end)
  else if bytes_eqb k (lit "m") then Some Mask
  else if bytes_eqb k (lit "o") then Some Other
  else None.
Definition p_aclspec (s : bytes) : option aclspec :=
  match fields colon s with
  | [d; k; n; p] =>
    let? n := unhex n in let? o := p_owner k n in
    let? p := p_opt unhex p in
    Some {| as_default := bytes_eqb d (lit "1"); as_owner := o;
            as_perms := option_map (fun c => match c with [] => [] | _ => fields comma c end) p |}
  | _ => None
  end.
Definition p_bool (s : bytes) : bool := bytes_eqb s (lit "1").
Definition p_keep_private (s : bytes) : option (option (list bytes)) :=
  if bytes_eqb s dash then Some None
  else if bytes_eqb s (lit "*") then Some (Some [])
  else option_map Some (all_some (map unhex (fields period s))).

Definition p_cmd (name args : bytes) : option (res cmd) :=
  let a := fields comma args in
  if bytes_eqb name (lit "chmod") then
    let? s := unhex args in
    Some (match mode_of_string s with Ok m => Ok (CChmod m) | Err k => Err k | Panic => Panic end)
  else if bytes_eqb name (lit "chown") then
    match a with [u; g] => let? u := p_opt p_idname u in let? g := p_opt p_idname g in Some (Ok (CChown u g)) | _ => None end
  else if bytes_eqb name (lit "xattr") then
    match a with [s; r] => let? s := p_opt p_pair s in let? r := p_opt unhex r in Some (Ok (CXattr s r)) | _ => None end
  else if bytes_eqb name (lit "acl") then
    match a with [m; r] => let? m := p_opt p_aclspec m in let? r := p_opt p_aclspec r in Some (Ok (CAcl m r)) | _ => None end
  else if bytes_eqb name (lit "strip") then
    match a with
    | [kt; kp; kx; ka; kpriv] =>
      let? kpriv := p_keep_private kpriv in
      Some (Ok (CStrip {| keep_time := p_bool kt; keep_perm := p_bool kp; keep_xattr := p_bool kx;
                          keep_acl := p_bool ka; keep_private := kpriv |}))
    | _ => None
    end
  else if bytes_eqb name (lit "migrate") then Some (Ok CMigrate)
  else if bytes_eqb name (lit "delete") then Some (Ok CDelete)
  else None.

Definition p_names (s : bytes) : option (list bytes) := all_some (map unhex (list_field s)).
Definition selection (matched excluded : list bytes) (n : bytes) : bool :=
  mem_bytes n matched && negb (mem_bytes n excluded).

Definition run_transform (op : bytes) (args : list bytes) : bytes :=
  if bytes_eqb op (lit "apply") then
    match args with
    | [strat; pw; name; cargs; nfiles; matched; excluded; arch] =>
      match p_cmd name cargs, undec nfiles, p_names matched, p_names excluded, p_archive arch with
      | Some rc, Some nf, Some ms, Some xs, Some a =>
        match rc with
        | Ok c => show_res s_archive (run_cmd (bytes_eqb strat (lit "keepsolid")) (p_bool pw) c nf (selection ms xs) a)
        | _ => lit "ERR Usage"
        end
      | _, _, _, _, _ => bad_case
      end
    | _ => bad_case
    end
  else bad_case.

Definition run_line := run_line_with run_transform.
