(* SchedRun.v — case interpreter of the sched area (C19).  Cases are produced by props/C19.py.
     orders <shape> <n> [label]   ->  OK o1;o2;...     shape = per_item | single ; n = number of items (decimal);
                                      each o = the channel contents of one terminal configuration as item indices
                                      i0,i1,... (0-based, submission order); the set is sorted and without duplicates.
                                      `single` explores every interleaving (n! orders): refused above n = 6
                                      (ERR InvalidInput).  The label (which command the observation is about) is ignored. *)
From PNA Require Import Base CodecRun Sched.

Definition semi : byte := x3b.
Definition show_order (o : list N) : bytes := join [comma] (map dec o).
Definition show_orders (os : list (list N)) : bytes := join [semi] (map show_order os).

Definition run_sched (op : bytes) (args : list bytes) : bytes :=
  if bytes_eqb op (lit "orders") then
    match undec (nth 1%nat args []) with
    | Some n =>
      let sh := nth 0%nat args [] in
      if bytes_eqb sh (lit "per_item") then
        if N.ltb 4096 n then lit "ERR InvalidInput"
        else lit "OK " ++ show_orders (all_orders PerItem (N.to_nat n))
      else if bytes_eqb sh (lit "single") then
        if N.ltb 6 n then lit "ERR InvalidInput"
        else lit "OK " ++ show_orders (all_orders SingleScope (N.to_nat n))
      else bad_case
    | None => bad_case
    end
  else bad_case.

Definition run_line := run_line_with run_sched.
