(* Overwrite.v — the guarded output steps of every command that offers `--overwrite`
   (create, create --split, split, concat, extract, stdio -x) over a tiny file system (C20).

   Anchors (repaired code, /repo fix commits "create --split and split replaced existing part
   files" and "a dangling symbolic link at an output path was written through"):
     cli/src/command/create.rs   create_archive: symlink_metadata test of the archive path, collect, create_dir_all(parent),
                                 File::create  |  create_archive_with_split -> write_split_archive(.., overwrite)
     cli/src/command/concat.rs   concat_entry: symlink_metadata test, File::create (no create_dir_all)
     cli/src/command/split.rs    split_archive: create_dir_all(out_dir), Path::exists test of part 1, write_split_archive
     cli/src/command/commons.rs  write_split_archive_path: every part through create_part (File::create when overwrite,
                                 OpenOptions::create_new otherwise), parts opened one after the other as they become
                                 necessary, the first error ends the run; on completion with exactly one part the part
                                 is renamed to the archive path, refused when the path is occupied and overwrite is off;
                                 test and rename are skipped when the part already has the archive's name (`pna split
                                 x.part1.pna --out-dir o` into one part: fix 067bc08d, a regression of 36c3adfe)
     cli/src/command/stdio.rs    run_create_archive (stdio -c -f F): symlink_metadata test of F, File::create (no create_dir_all)
     cli/src/command/extract.rs  extract_entry (also stdio -x): ensure_no_symlink_ancestor (a symbolic link at a directory
                                 position between the output directory and the entry is refused), symlink_metadata test of
                                 the destination, [with overwrite: a link at the destination is removed,] create_dir_all(parent),
                                 then File::create / create_dir_all / [remove +] symlink;
                                 run_extract_archive_reader keeps going after a failed entry and reports the first
                                 error at the end

   Paths are PHYSICAL: lists of components below the sandbox root in which every component but the last
   is a real directory or does not exist yet (the kernel has already resolved directory symlinks; the
   Python side computes this).  A symlink met at a directory position therefore is one that does not lead
   to a directory (dangling, or to a file): create_dir_all fails on it.  What the model decides: which
   paths are tested, with which test (`lexists` = symlink_metadata, `exists_follow` = Path::exists), in
   which order, and what is written when.  Definitions only; facts in Proofs/OverwriteFacts.v. *)
From PNA Require Import Base.

Definition path := list bytes.
Inductive obj := File (content : bytes) | Dir | Symlink (target : path).
Definition fs := list (path * obj).          (* first binding of a path wins *)

Fixpoint path_eqb (a b : path) : bool :=
  match a, b with
  | [], [] => true
  | x :: a', y :: b' => bytes_eqb x y && path_eqb a' b'
  | _, _ => false
  end.

Definition obj_eqb (a b : obj) : bool :=
  match a, b with
  | File c, File d => bytes_eqb c d
  | Dir, Dir => true
  | Symlink t, Symlink u => path_eqb t u
  | _, _ => false
  end.
Definition oobj_eqb (a b : option obj) : bool :=
  match a, b with
  | Some x, Some y => obj_eqb x y
  | None, None => true
  | _, _ => false
  end.

Fixpoint lookup (s : fs) (p : path) : option obj :=
  match s with
  | [] => None
  | (q, n) :: r => if path_eqb q p then Some n else lookup r p
  end.

(* what lstat sees at p; the root (empty path) is a directory *)
Definition node (s : fs) (p : path) : option obj :=
  match p with [] => Some Dir | _ => lookup s p end.
Definition existed (s : fs) (p : path) : Prop := node s p <> None.

Definition put (s : fs) (p : path) (n : obj) : fs := (p, n) :: s.
Fixpoint unset (s : fs) (p : path) : fs :=
  match s with
  | [] => []
  | (q, n) :: r => if path_eqb q p then unset r p else (q, n) :: unset r p
  end.
Fixpoint is_prefix (a b : path) : bool :=
  match a, b with
  | [], _ => true
  | x :: a', y :: b' => bytes_eqb x y && is_prefix a' b'
  | _, [] => false
  end.
(* utils::fs::remove: remove_dir_all for a directory, remove_file otherwise *)
Definition remove_tree (s : fs) (p : path) : fs :=
  filter (fun qn => negb (is_prefix p (fst qn))) s.

Definition parent (p : path) : path := removelast p.
Definition is_dir (s : fs) (p : path) : bool :=
  match node s p with Some Dir => true | _ => false end.

(* ---- the two existence tests -------------------------------------------------------- *)
Definition lexists (s : fs) (p : path) : bool :=            (* symlink_metadata(p).is_ok() *)
  match node s p with Some _ => true | None => false end.
Definition exists_follow (s : fs) (p : path) : bool :=      (* Path::exists: follows the link (one level) *)
  match node s p with
  | Some (Symlink t) => match node s t with Some (Symlink _) | None => false | Some _ => true end
  | Some _ => true
  | None => false
  end.

(* ---- the primitive writes ----------------------------------------------------------- *)
Definition new_content : bytes := lit "new".
Definition new_link : path := [lit "new"].

(* fs::create_dir_all on a physical path: existing directories are fine, a missing component is
   created, anything else in the way (file, unresolved symlink) is an error *)
Fixpoint mkdirs_from (s : fs) (pre rest : path) : option fs :=
  match rest with
  | [] => Some s
  | c :: r =>
    let q := pre ++ [c] in
    match lookup s q with
    | None => mkdirs_from (put s q Dir) q r
    | Some Dir => mkdirs_from s q r
    | Some _ => None
    end
  end.
Definition mkdirs (s : fs) (p : path) : option fs := mkdirs_from s [] p.

(* File::create: creates, or truncates what is there, following a symlink in the last component *)
Definition trunc_create (s : fs) (p : path) : option fs :=
  if is_dir s (parent p) then
    match node s p with
    | None | Some (File _) => Some (put s p (File new_content))
    | Some Dir => None
    | Some (Symlink t) =>
      match node s t with
      | Some Dir | Some (Symlink _) => None
      | _ => if is_dir s (parent t) then Some (put s t (File new_content)) else None
      end
    end
  else None.

(* OpenOptions::new().write(true).create_new(true): O_CREAT|O_EXCL — never follows, never truncates *)
Definition create_new (s : fs) (p : path) : option fs :=
  if is_dir s (parent p) then
    match node s p with None => Some (put s p (File new_content)) | Some _ => None end
  else None.

(* fs::rename of a file: replaces whatever non-directory is at the destination (the link itself, not its target) *)
Definition rename (s : fs) (a b : path) : option fs :=
  match node s a, node s b with
  | Some n, Some Dir => None
  | Some n, _ => if is_dir s (parent b) then Some (put (unset s a) b n) else None
  | None, _ => None
  end.

(* ---- commands ------------------------------------------------------------------------ *)
Inductive ckind := Create | Concat | StdioCreate | CreateSplit | Split | Extract | StdioExtract.
Inductive okind := OFile | ODir | OLink.
(* outs: for Create/Concat the archive path; for CreateSplit/Split the archive (base) path followed by the
   part paths 1..n the run needs; for Extract/StdioExtract the destinations in archive order with their kind *)
Record cmd := { kind : ckind; overwrite : bool; outs : list (okind * path) }.

Definition single (c : cmd) : bool :=
  match outs c with [_; _] => true | _ => false end.
(* the paths the command may write, i.e. must not find occupied *)
Definition outputs (c : cmd) : list path :=
  match kind c with
  | Split =>
    match outs c with
    | (_, head) :: parts => map snd parts ++ (if single c then [head] else [])
    | [] => []
    end
  | _ => map snd (outs c)
  end.

Definition run_single (mk : bool) (ow : bool) (p : path) (s : fs) : fs * N :=
  if negb ow && lexists s p then (s, 1)
  else
    match (if mk then mkdirs s (parent p) else Some s) with
    | None => (s, 1)
    | Some s1 => match trunc_create s1 p with Some s2 => (s2, 0) | None => (s1, 1) end
    end.

Definition create_part (ow : bool) (s : fs) (p : path) : option fs :=
  if ow then trunc_create s p else create_new s p.
Fixpoint write_parts (ow : bool) (s : fs) (parts : list path) : fs * bool :=
  match parts with
  | [] => (s, true)
  | p :: r =>
    match create_part ow s p with
    | Some s1 => write_parts ow s1 r
    | None => (s, false)
    end
  end.
(* on_complete: exactly one part => rename it to the archive path, tested first when overwrite is off; nothing to do
   when the part has that name already (`if n == 1 && first_item_path != archive`, fix 067bc08d) *)
Definition finish_parts (ow : bool) (s : fs) (head : path) (parts : list path) : fs * N :=
  match parts with
  | [p1] =>
    if path_eqb p1 head then (s, 0)
    else if negb ow && lexists s head then (s, 1)
    else match rename s p1 head with Some s1 => (s1, 0) | None => (s, 1) end
  | _ => (s, 0)
  end.
Definition run_parts (ow : bool) (s : fs) (head : path) (parts : list path) : fs * N :=
  match write_parts ow s parts with
  | (s1, true) => finish_parts ow s1 head parts
  | (s1, false) => (s1, 1)
  end.

Definition run_create_split (ow : bool) (head : path) (parts : list path) (s : fs) : fs * N :=
  if negb ow && lexists s head then (s, 1)
  else
    match mkdirs s (parent head) with
    | None => (s, 1)
    | Some s1 => run_parts ow s1 head parts
    end.

Definition run_split (ow : bool) (head : path) (parts : list path) (s : fs) : fs * N :=
  match mkdirs s (parent head) with
  | None => (s, 1)
  | Some s1 =>
    match parts with
    | [] => (s1, 1)
    | p1 :: _ => if negb ow && exists_follow s1 p1 then (s1, 1) else run_parts ow s1 head parts
    end
  end.

(* ensure_no_symlink_ancestor: is some proper prefix of the destination a symbolic link?  (the components of
   the output directory itself are physical, so only positions below it can answer yes) *)
Fixpoint sym_anc_from (s : fs) (pre rest : path) : bool :=
  match rest with
  | [] | [_] => false
  | c :: r =>
    let q := pre ++ [c] in
    match lookup s q with
    | Some (Symlink _) => true
    | _ => sym_anc_from s q r
    end
  end.
Definition sym_anc (s : fs) (p : path) : bool := sym_anc_from s [] p.

Definition extract_one (ow : bool) (s : fs) (k : okind) (p : path) : fs * bool :=   (* bool: this entry failed *)
  if sym_anc s p then (s, true)
  else if negb ow && lexists s p then (s, true)
  else
    let s0 := match node s p with Some (Symlink _) => unset s p | _ => s end in   (* only reachable with overwrite *)
    match mkdirs s0 (parent p) with
    | None => (s0, true)
    | Some s1 =>
      match k with
      | OFile => match trunc_create s1 p with Some s2 => (s2, false) | None => (s1, true) end
      | ODir => match mkdirs s1 p with Some s2 => (s2, false) | None => (s1, true) end
      | OLink =>
        let s2 := if ow && exists_follow s1 p then remove_tree s1 p else s1 in
        match node s2 p with
        | None => (put s2 p (Symlink new_link), false)
        | Some _ => (s2, true)
        end
      end
    end.
(* every entry is attempted; the first error is reported after the last entry *)
Fixpoint extract_all (ow : bool) (s : fs) (os : list (okind * path)) (err : bool) : fs * bool :=
  match os with
  | [] => (s, err)
  | (k, p) :: r => let (s1, e) := extract_one ow s k p in extract_all ow s1 r (err || e)
  end.
Definition run_extract (ow : bool) (os : list (okind * path)) (s : fs) : fs * N :=
  let (s1, err) := extract_all ow s os false in (s1, if err then 1 else 0).

Definition run (c : cmd) (s : fs) : fs * N :=
  let ow := overwrite c in
  match kind c, outs c with
  | Create, [(_, p)] => run_single true ow p s
  | Concat, [(_, p)] => run_single false ow p s
  | StdioCreate, [(_, p)] => run_single false ow p s
  | CreateSplit, (_, head) :: parts => run_create_split ow head (map snd parts) s
  | Split, (_, head) :: parts => run_split ow head (map snd parts) s
  | Extract, os => run_extract ow os s
  | StdioExtract, os => run_extract ow os s
  | _, _ => (s, 1)
  end.

(* ---- the unrepaired code, kept for the record (D23 and the link-following test) -------- *)
(* on_complete between 36c3adfe and 067bc08d: the existence test in front of the rename also when the single part IS
   the archive path — it then sees the part this very run has written *)
Definition finish_parts_orig (ow : bool) (s : fs) (head : path) (parts : list path) : fs * N :=
  match parts with
  | [p1] =>
    if negb ow && lexists s head then (s, 1)
    else match rename s p1 head with Some s1 => (s1, 0) | None => (s, 1) end
  | _ => (s, 0)
  end.
Definition run_split_orig (ow : bool) (head : path) (parts : list path) (s : fs) : fs * N :=
  match mkdirs s (parent head) with
  | None => (s, 1)
  | Some s1 =>
    match parts with
    | [] => (s1, 1)
    | p1 :: _ => if negb ow && exists_follow s1 p1 then (s1, 1)
                 else match write_parts ow s1 parts with
                      | (s2, true) => finish_parts_orig ow s2 head parts
                      | (s2, false) => (s2, 1)
                      end
    end
  end.
(* before the fix: the archive path is tested (Path::exists), every part is opened with File::create,
   the rename is unconditional *)
Fixpoint write_parts_old (s : fs) (parts : list path) : fs * bool :=
  match parts with
  | [] => (s, true)
  | p :: r => match trunc_create s p with Some s1 => write_parts_old s1 r | None => (s, false) end
  end.
Definition run_create_split_old (ow : bool) (head : path) (parts : list path) (s : fs) : fs * N :=
  if negb ow && exists_follow s head then (s, 1)
  else
    match mkdirs s (parent head) with
    | None => (s, 1)
    | Some s1 =>
      match write_parts_old s1 parts with
      | (s2, true) =>
        match parts with
        | [p1] => match rename s2 p1 head with Some s3 => (s3, 0) | None => (s2, 1) end
        | _ => (s2, 0)
        end
      | (s2, false) => (s2, 1)
      end
    end.
(* before the second fix: single-output commands tested with Path::exists *)
Definition run_single_old (ow : bool) (p : path) (s : fs) : fs * N :=
  if negb ow && exists_follow s p then (s, 1)
  else match trunc_create s p with Some s2 => (s2, 0) | None => (s, 1) end.
