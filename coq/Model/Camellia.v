(* Camellia.v — Camellia with a 256-bit key (RFC 3713) as an executable function on byte lists: the
   block cipher behind `camellia::Camellia256` that lib/src/cipher.rs instantiates in CBC and CTR mode.
   cam_enc key block / cam_dec key block, key = 32 bytes, block = 16 bytes.
   64-bit quantities of the RFC are 8-byte big-endian lists, 128-bit ones 16-byte lists; the only
   arithmetic is on single bytes (xor/and/or/shift), so nothing here builds a large number.
   Decryption is written as the inverse steps in the opposite order (RFC 3713 2.3 states it as the
   same network with the subkeys swapped; the two are the same function — this one makes
   cam_dec k (cam_enc k m) = m provable step by step, Proofs/CamelliaFacts.v).  Pinned below by the RFC's
   256-bit test vector and, in every run of the pipeline area, by agreement with the `camellia`
   crate on whole archives.  Definitions only. *)
From PNA Require Import Base Name Codec Aes.

Definition fromN (n : N) : byte := match Byte.of_N n with Some c => c | None => x00 end.
Definition band (a b : byte) : byte := fromN (N.land (Byte.to_N a) (Byte.to_N b)).
Definition bor (a b : byte) : byte := fromN (N.lor (Byte.to_N a) (Byte.to_N b)).
Fixpoint zipw (f : byte -> byte -> byte) (a b : bytes) : bytes :=
  match a, b with
  | x :: a', y :: b' => f x y :: zipw f a' b'
  | _, _ => []
  end.
(* byte of a bit string shifted left by r < 8 bits: the low bits of x followed by the high bits of its successor y *)
Definition shl_pair (r : N) (x y : byte) : byte :=
  fromN (N.lor (N.land (N.shiftl (Byte.to_N x) r) 255) (N.shiftr (Byte.to_N y) (8 - r))).
(* rotate a byte string left by r < 8 bits, by q bytes, by n bits *)
Definition rotl_bits (r : N) (l : bytes) : bytes :=
  match l with [] => [] | h :: t => zipw (shl_pair r) l (t ++ [h]) end.
Definition rotl_bytes (q : nat) (l : bytes) : bytes := skipn q l ++ firstn q l.
Definition rotl (n : N) (l : bytes) : bytes := rotl_bits (n mod 8) (rotl_bytes (N.to_nat (n / 8)) l).

(* SBOX1 (RFC 3713 2.4.4) *)
Definition sbox1 (b : byte) : byte :=
  match b with
  | x00 => x70 | x01 => x82 | x02 => x2c | x03 => xec | x04 => xb3 | x05 => x27 | x06 => xc0 | x07 => xe5
  | x08 => xe4 | x09 => x85 | x0a => x57 | x0b => x35 | x0c => xea | x0d => x0c | x0e => xae | x0f => x41
  | x10 => x23 | x11 => xef | x12 => x6b | x13 => x93 | x14 => x45 | x15 => x19 | x16 => xa5 | x17 => x21
  | x18 => xed | x19 => x0e | x1a => x4f | x1b => x4e | x1c => x1d | x1d => x65 | x1e => x92 | x1f => xbd
  | x20 => x86 | x21 => xb8 | x22 => xaf | x23 => x8f | x24 => x7c | x25 => xeb | x26 => x1f | x27 => xce
  | x28 => x3e | x29 => x30 | x2a => xdc | x2b => x5f | x2c => x5e | x2d => xc5 | x2e => x0b | x2f => x1a
  | x30 => xa6 | x31 => xe1 | x32 => x39 | x33 => xca | x34 => xd5 | x35 => x47 | x36 => x5d | x37 => x3d
  | x38 => xd9 | x39 => x01 | x3a => x5a | x3b => xd6 | x3c => x51 | x3d => x56 | x3e => x6c | x3f => x4d
  | x40 => x8b | x41 => x0d | x42 => x9a | x43 => x66 | x44 => xfb | x45 => xcc | x46 => xb0 | x47 => x2d
  | x48 => x74 | x49 => x12 | x4a => x2b | x4b => x20 | x4c => xf0 | x4d => xb1 | x4e => x84 | x4f => x99
  | x50 => xdf | x51 => x4c | x52 => xcb | x53 => xc2 | x54 => x34 | x55 => x7e | x56 => x76 | x57 => x05
  | x58 => x6d | x59 => xb7 | x5a => xa9 | x5b => x31 | x5c => xd1 | x5d => x17 | x5e => x04 | x5f => xd7
  | x60 => x14 | x61 => x58 | x62 => x3a | x63 => x61 | x64 => xde | x65 => x1b | x66 => x11 | x67 => x1c
  | x68 => x32 | x69 => x0f | x6a => x9c | x6b => x16 | x6c => x53 | x6d => x18 | x6e => xf2 | x6f => x22
  | x70 => xfe | x71 => x44 | x72 => xcf | x73 => xb2 | x74 => xc3 | x75 => xb5 | x76 => x7a | x77 => x91
  | x78 => x24 | x79 => x08 | x7a => xe8 | x7b => xa8 | x7c => x60 | x7d => xfc | x7e => x69 | x7f => x50
  | x80 => xaa | x81 => xd0 | x82 => xa0 | x83 => x7d | x84 => xa1 | x85 => x89 | x86 => x62 | x87 => x97
  | x88 => x54 | x89 => x5b | x8a => x1e | x8b => x95 | x8c => xe0 | x8d => xff | x8e => x64 | x8f => xd2
  | x90 => x10 | x91 => xc4 | x92 => x00 | x93 => x48 | x94 => xa3 | x95 => xf7 | x96 => x75 | x97 => xdb
  | x98 => x8a | x99 => x03 | x9a => xe6 | x9b => xda | x9c => x09 | x9d => x3f | x9e => xdd | x9f => x94
  | xa0 => x87 | xa1 => x5c | xa2 => x83 | xa3 => x02 | xa4 => xcd | xa5 => x4a | xa6 => x90 | xa7 => x33
  | xa8 => x73 | xa9 => x67 | xaa => xf6 | xab => xf3 | xac => x9d | xad => x7f | xae => xbf | xaf => xe2
  | xb0 => x52 | xb1 => x9b | xb2 => xd8 | xb3 => x26 | xb4 => xc8 | xb5 => x37 | xb6 => xc6 | xb7 => x3b
  | xb8 => x81 | xb9 => x96 | xba => x6f | xbb => x4b | xbc => x13 | xbd => xbe | xbe => x63 | xbf => x2e
  | xc0 => xe9 | xc1 => x79 | xc2 => xa7 | xc3 => x8c | xc4 => x9f | xc5 => x6e | xc6 => xbc | xc7 => x8e
  | xc8 => x29 | xc9 => xf5 | xca => xf9 | xcb => xb6 | xcc => x2f | xcd => xfd | xce => xb4 | xcf => x59
  | xd0 => x78 | xd1 => x98 | xd2 => x06 | xd3 => x6a | xd4 => xe7 | xd5 => x46 | xd6 => x71 | xd7 => xba
  | xd8 => xd4 | xd9 => x25 | xda => xab | xdb => x42 | xdc => x88 | xdd => xa2 | xde => x8d | xdf => xfa
  | xe0 => x72 | xe1 => x07 | xe2 => xb9 | xe3 => x55 | xe4 => xf8 | xe5 => xee | xe6 => xac | xe7 => x0a
  | xe8 => x36 | xe9 => x49 | xea => x2a | xeb => x68 | xec => x3c | xed => x38 | xee => xf1 | xef => xa4
  | xf0 => x40 | xf1 => x28 | xf2 => xd3 | xf3 => x7b | xf4 => xbb | xf5 => xc9 | xf6 => x43 | xf7 => xc1
  | xf8 => x15 | xf9 => xe3 | xfa => xad | xfb => xf4 | xfc => x77 | xfd => xc7 | xfe => x80 | xff => x9e
  end.

(* SBOX2[x] = SBOX1[x] <<< 1 *)
Definition sbox2 (b : byte) : byte :=
  match b with
  | x00 => xe0 | x01 => x05 | x02 => x58 | x03 => xd9 | x04 => x67 | x05 => x4e | x06 => x81 | x07 => xcb
  | x08 => xc9 | x09 => x0b | x0a => xae | x0b => x6a | x0c => xd5 | x0d => x18 | x0e => x5d | x0f => x82
  | x10 => x46 | x11 => xdf | x12 => xd6 | x13 => x27 | x14 => x8a | x15 => x32 | x16 => x4b | x17 => x42
  | x18 => xdb | x19 => x1c | x1a => x9e | x1b => x9c | x1c => x3a | x1d => xca | x1e => x25 | x1f => x7b
  | x20 => x0d | x21 => x71 | x22 => x5f | x23 => x1f | x24 => xf8 | x25 => xd7 | x26 => x3e | x27 => x9d
  | x28 => x7c | x29 => x60 | x2a => xb9 | x2b => xbe | x2c => xbc | x2d => x8b | x2e => x16 | x2f => x34
  | x30 => x4d | x31 => xc3 | x32 => x72 | x33 => x95 | x34 => xab | x35 => x8e | x36 => xba | x37 => x7a
  | x38 => xb3 | x39 => x02 | x3a => xb4 | x3b => xad | x3c => xa2 | x3d => xac | x3e => xd8 | x3f => x9a
  | x40 => x17 | x41 => x1a | x42 => x35 | x43 => xcc | x44 => xf7 | x45 => x99 | x46 => x61 | x47 => x5a
  | x48 => xe8 | x49 => x24 | x4a => x56 | x4b => x40 | x4c => xe1 | x4d => x63 | x4e => x09 | x4f => x33
  | x50 => xbf | x51 => x98 | x52 => x97 | x53 => x85 | x54 => x68 | x55 => xfc | x56 => xec | x57 => x0a
  | x58 => xda | x59 => x6f | x5a => x53 | x5b => x62 | x5c => xa3 | x5d => x2e | x5e => x08 | x5f => xaf
  | x60 => x28 | x61 => xb0 | x62 => x74 | x63 => xc2 | x64 => xbd | x65 => x36 | x66 => x22 | x67 => x38
  | x68 => x64 | x69 => x1e | x6a => x39 | x6b => x2c | x6c => xa6 | x6d => x30 | x6e => xe5 | x6f => x44
  | x70 => xfd | x71 => x88 | x72 => x9f | x73 => x65 | x74 => x87 | x75 => x6b | x76 => xf4 | x77 => x23
  | x78 => x48 | x79 => x10 | x7a => xd1 | x7b => x51 | x7c => xc0 | x7d => xf9 | x7e => xd2 | x7f => xa0
  | x80 => x55 | x81 => xa1 | x82 => x41 | x83 => xfa | x84 => x43 | x85 => x13 | x86 => xc4 | x87 => x2f
  | x88 => xa8 | x89 => xb6 | x8a => x3c | x8b => x2b | x8c => xc1 | x8d => xff | x8e => xc8 | x8f => xa5
  | x90 => x20 | x91 => x89 | x92 => x00 | x93 => x90 | x94 => x47 | x95 => xef | x96 => xea | x97 => xb7
  | x98 => x15 | x99 => x06 | x9a => xcd | x9b => xb5 | x9c => x12 | x9d => x7e | x9e => xbb | x9f => x29
  | xa0 => x0f | xa1 => xb8 | xa2 => x07 | xa3 => x04 | xa4 => x9b | xa5 => x94 | xa6 => x21 | xa7 => x66
  | xa8 => xe6 | xa9 => xce | xaa => xed | xab => xe7 | xac => x3b | xad => xfe | xae => x7f | xaf => xc5
  | xb0 => xa4 | xb1 => x37 | xb2 => xb1 | xb3 => x4c | xb4 => x91 | xb5 => x6e | xb6 => x8d | xb7 => x76
  | xb8 => x03 | xb9 => x2d | xba => xde | xbb => x96 | xbc => x26 | xbd => x7d | xbe => xc6 | xbf => x5c
  | xc0 => xd3 | xc1 => xf2 | xc2 => x4f | xc3 => x19 | xc4 => x3f | xc5 => xdc | xc6 => x79 | xc7 => x1d
  | xc8 => x52 | xc9 => xeb | xca => xf3 | xcb => x6d | xcc => x5e | xcd => xfb | xce => x69 | xcf => xb2
  | xd0 => xf0 | xd1 => x31 | xd2 => x0c | xd3 => xd4 | xd4 => xcf | xd5 => x8c | xd6 => xe2 | xd7 => x75
  | xd8 => xa9 | xd9 => x4a | xda => x57 | xdb => x84 | xdc => x11 | xdd => x45 | xde => x1b | xdf => xf5
  | xe0 => xe4 | xe1 => x0e | xe2 => x73 | xe3 => xaa | xe4 => xf1 | xe5 => xdd | xe6 => x59 | xe7 => x14
  | xe8 => x6c | xe9 => x92 | xea => x54 | xeb => xd0 | xec => x78 | xed => x70 | xee => xe3 | xef => x49
  | xf0 => x80 | xf1 => x50 | xf2 => xa7 | xf3 => xf6 | xf4 => x77 | xf5 => x93 | xf6 => x86 | xf7 => x83
  | xf8 => x2a | xf9 => xc7 | xfa => x5b | xfb => xe9 | xfc => xee | xfd => x8f | xfe => x01 | xff => x3d
  end.

(* SBOX3[x] = SBOX1[x] <<< 7 *)
Definition sbox3 (b : byte) : byte :=
  match b with
  | x00 => x38 | x01 => x41 | x02 => x16 | x03 => x76 | x04 => xd9 | x05 => x93 | x06 => x60 | x07 => xf2
  | x08 => x72 | x09 => xc2 | x0a => xab | x0b => x9a | x0c => x75 | x0d => x06 | x0e => x57 | x0f => xa0
  | x10 => x91 | x11 => xf7 | x12 => xb5 | x13 => xc9 | x14 => xa2 | x15 => x8c | x16 => xd2 | x17 => x90
  | x18 => xf6 | x19 => x07 | x1a => xa7 | x1b => x27 | x1c => x8e | x1d => xb2 | x1e => x49 | x1f => xde
  | x20 => x43 | x21 => x5c | x22 => xd7 | x23 => xc7 | x24 => x3e | x25 => xf5 | x26 => x8f | x27 => x67
  | x28 => x1f | x29 => x18 | x2a => x6e | x2b => xaf | x2c => x2f | x2d => xe2 | x2e => x85 | x2f => x0d
  | x30 => x53 | x31 => xf0 | x32 => x9c | x33 => x65 | x34 => xea | x35 => xa3 | x36 => xae | x37 => x9e
  | x38 => xec | x39 => x80 | x3a => x2d | x3b => x6b | x3c => xa8 | x3d => x2b | x3e => x36 | x3f => xa6
  | x40 => xc5 | x41 => x86 | x42 => x4d | x43 => x33 | x44 => xfd | x45 => x66 | x46 => x58 | x47 => x96
  | x48 => x3a | x49 => x09 | x4a => x95 | x4b => x10 | x4c => x78 | x4d => xd8 | x4e => x42 | x4f => xcc
  | x50 => xef | x51 => x26 | x52 => xe5 | x53 => x61 | x54 => x1a | x55 => x3f | x56 => x3b | x57 => x82
  | x58 => xb6 | x59 => xdb | x5a => xd4 | x5b => x98 | x5c => xe8 | x5d => x8b | x5e => x02 | x5f => xeb
  | x60 => x0a | x61 => x2c | x62 => x1d | x63 => xb0 | x64 => x6f | x65 => x8d | x66 => x88 | x67 => x0e
  | x68 => x19 | x69 => x87 | x6a => x4e | x6b => x0b | x6c => xa9 | x6d => x0c | x6e => x79 | x6f => x11
  | x70 => x7f | x71 => x22 | x72 => xe7 | x73 => x59 | x74 => xe1 | x75 => xda | x76 => x3d | x77 => xc8
  | x78 => x12 | x79 => x04 | x7a => x74 | x7b => x54 | x7c => x30 | x7d => x7e | x7e => xb4 | x7f => x28
  | x80 => x55 | x81 => x68 | x82 => x50 | x83 => xbe | x84 => xd0 | x85 => xc4 | x86 => x31 | x87 => xcb
  | x88 => x2a | x89 => xad | x8a => x0f | x8b => xca | x8c => x70 | x8d => xff | x8e => x32 | x8f => x69
  | x90 => x08 | x91 => x62 | x92 => x00 | x93 => x24 | x94 => xd1 | x95 => xfb | x96 => xba | x97 => xed
  | x98 => x45 | x99 => x81 | x9a => x73 | x9b => x6d | x9c => x84 | x9d => x9f | x9e => xee | x9f => x4a
  | xa0 => xc3 | xa1 => x2e | xa2 => xc1 | xa3 => x01 | xa4 => xe6 | xa5 => x25 | xa6 => x48 | xa7 => x99
  | xa8 => xb9 | xa9 => xb3 | xaa => x7b | xab => xf9 | xac => xce | xad => xbf | xae => xdf | xaf => x71
  | xb0 => x29 | xb1 => xcd | xb2 => x6c | xb3 => x13 | xb4 => x64 | xb5 => x9b | xb6 => x63 | xb7 => x9d
  | xb8 => xc0 | xb9 => x4b | xba => xb7 | xbb => xa5 | xbc => x89 | xbd => x5f | xbe => xb1 | xbf => x17
  | xc0 => xf4 | xc1 => xbc | xc2 => xd3 | xc3 => x46 | xc4 => xcf | xc5 => x37 | xc6 => x5e | xc7 => x47
  | xc8 => x94 | xc9 => xfa | xca => xfc | xcb => x5b | xcc => x97 | xcd => xfe | xce => x5a | xcf => xac
  | xd0 => x3c | xd1 => x4c | xd2 => x03 | xd3 => x35 | xd4 => xf3 | xd5 => x23 | xd6 => xb8 | xd7 => x5d
  | xd8 => x6a | xd9 => x92 | xda => xd5 | xdb => x21 | xdc => x44 | xdd => x51 | xde => xc6 | xdf => x7d
  | xe0 => x39 | xe1 => x83 | xe2 => xdc | xe3 => xaa | xe4 => x7c | xe5 => x77 | xe6 => x56 | xe7 => x05
  | xe8 => x1b | xe9 => xa4 | xea => x15 | xeb => x34 | xec => x1e | xed => x1c | xee => xf8 | xef => x52
  | xf0 => x20 | xf1 => x14 | xf2 => xe9 | xf3 => xbd | xf4 => xdd | xf5 => xe4 | xf6 => xa1 | xf7 => xe0
  | xf8 => x8a | xf9 => xf1 | xfa => xd6 | xfb => x7a | xfc => xbb | xfd => xe3 | xfe => x40 | xff => x4f
  end.

(* SBOX4[x] = SBOX1[x <<< 1] *)
Definition sbox4 (b : byte) : byte :=
  match b with
  | x00 => x70 | x01 => x2c | x02 => xb3 | x03 => xc0 | x04 => xe4 | x05 => x57 | x06 => xea | x07 => xae
  | x08 => x23 | x09 => x6b | x0a => x45 | x0b => xa5 | x0c => xed | x0d => x4f | x0e => x1d | x0f => x92
  | x10 => x86 | x11 => xaf | x12 => x7c | x13 => x1f | x14 => x3e | x15 => xdc | x16 => x5e | x17 => x0b
  | x18 => xa6 | x19 => x39 | x1a => xd5 | x1b => x5d | x1c => xd9 | x1d => x5a | x1e => x51 | x1f => x6c
  | x20 => x8b | x21 => x9a | x22 => xfb | x23 => xb0 | x24 => x74 | x25 => x2b | x26 => xf0 | x27 => x84
  | x28 => xdf | x29 => xcb | x2a => x34 | x2b => x76 | x2c => x6d | x2d => xa9 | x2e => xd1 | x2f => x04
  | x30 => x14 | x31 => x3a | x32 => xde | x33 => x11 | x34 => x32 | x35 => x9c | x36 => x53 | x37 => xf2
  | x38 => xfe | x39 => xcf | x3a => xc3 | x3b => x7a | x3c => x24 | x3d => xe8 | x3e => x60 | x3f => x69
  | x40 => xaa | x41 => xa0 | x42 => xa1 | x43 => x62 | x44 => x54 | x45 => x1e | x46 => xe0 | x47 => x64
  | x48 => x10 | x49 => x00 | x4a => xa3 | x4b => x75 | x4c => x8a | x4d => xe6 | x4e => x09 | x4f => xdd
  | x50 => x87 | x51 => x83 | x52 => xcd | x53 => x90 | x54 => x73 | x55 => xf6 | x56 => x9d | x57 => xbf
  | x58 => x52 | x59 => xd8 | x5a => xc8 | x5b => xc6 | x5c => x81 | x5d => x6f | x5e => x13 | x5f => x63
  | x60 => xe9 | x61 => xa7 | x62 => x9f | x63 => xbc | x64 => x29 | x65 => xf9 | x66 => x2f | x67 => xb4
  | x68 => x78 | x69 => x06 | x6a => xe7 | x6b => x71 | x6c => xd4 | x6d => xab | x6e => x88 | x6f => x8d
  | x70 => x72 | x71 => xb9 | x72 => xf8 | x73 => xac | x74 => x36 | x75 => x2a | x76 => x3c | x77 => xf1
  | x78 => x40 | x79 => xd3 | x7a => xbb | x7b => x43 | x7c => x15 | x7d => xad | x7e => x77 | x7f => x80
  | x80 => x82 | x81 => xec | x82 => x27 | x83 => xe5 | x84 => x85 | x85 => x35 | x86 => x0c | x87 => x41
  | x88 => xef | x89 => x93 | x8a => x19 | x8b => x21 | x8c => x0e | x8d => x4e | x8e => x65 | x8f => xbd
  | x90 => xb8 | x91 => x8f | x92 => xeb | x93 => xce | x94 => x30 | x95 => x5f | x96 => xc5 | x97 => x1a
  | x98 => xe1 | x99 => xca | x9a => x47 | x9b => x3d | x9c => x01 | x9d => xd6 | x9e => x56 | x9f => x4d
  | xa0 => x0d | xa1 => x66 | xa2 => xcc | xa3 => x2d | xa4 => x12 | xa5 => x20 | xa6 => xb1 | xa7 => x99
  | xa8 => x4c | xa9 => xc2 | xaa => x7e | xab => x05 | xac => xb7 | xad => x31 | xae => x17 | xaf => xd7
  | xb0 => x58 | xb1 => x61 | xb2 => x1b | xb3 => x1c | xb4 => x0f | xb5 => x16 | xb6 => x18 | xb7 => x22
  | xb8 => x44 | xb9 => xb2 | xba => xb5 | xbb => x91 | xbc => x08 | xbd => xa8 | xbe => xfc | xbf => x50
  | xc0 => xd0 | xc1 => x7d | xc2 => x89 | xc3 => x97 | xc4 => x5b | xc5 => x95 | xc6 => xff | xc7 => xd2
  | xc8 => xc4 | xc9 => x48 | xca => xf7 | xcb => xdb | xcc => x03 | xcd => xda | xce => x3f | xcf => x94
  | xd0 => x5c | xd1 => x02 | xd2 => x4a | xd3 => x33 | xd4 => x67 | xd5 => xf3 | xd6 => x7f | xd7 => xe2
  | xd8 => x9b | xd9 => x26 | xda => x37 | xdb => x3b | xdc => x96 | xdd => x4b | xde => xbe | xdf => x2e
  | xe0 => x79 | xe1 => x8c | xe2 => x6e | xe3 => x8e | xe4 => xf5 | xe5 => xb6 | xe6 => xfd | xe7 => x59
  | xe8 => x98 | xe9 => x6a | xea => x46 | xeb => xba | xec => x25 | xed => x42 | xee => xa2 | xef => xfa
  | xf0 => x07 | xf1 => x55 | xf2 => xee | xf3 => x0a | xf4 => x49 | xf5 => x68 | xf6 => x38 | xf7 => xa4
  | xf8 => x28 | xf9 => x7b | xfa => xc9 | xfb => xc1 | xfc => xe3 | xfd => xf4 | xfe => xc7 | xff => x9e
  end.

(* ---- F, FL, FLINV (RFC 3713 2.4) ---------------------------------------------------------------------- *)
Definition xor6 (a b c d e f : N) : byte := fromN (N.lxor (N.lxor (N.lxor a b) (N.lxor c d)) (N.lxor e f)).
Definition xor5 (a b c d e : N) : byte := fromN (N.lxor (N.lxor (N.lxor a b) (N.lxor c d)) e).
Definition camF (x k : bytes) : bytes :=
  match bxs x k with
  | [t1; t2; t3; t4; t5; t6; t7; t8] =>
    let t1 := Byte.to_N (sbox1 t1) in let t2 := Byte.to_N (sbox2 t2) in
    let t3 := Byte.to_N (sbox3 t3) in let t4 := Byte.to_N (sbox4 t4) in
    let t5 := Byte.to_N (sbox2 t5) in let t6 := Byte.to_N (sbox3 t6) in
    let t7 := Byte.to_N (sbox4 t7) in let t8 := Byte.to_N (sbox1 t8) in
    [xor6 t1 t3 t4 t6 t7 t8; xor6 t1 t2 t4 t5 t7 t8; xor6 t1 t2 t3 t5 t6 t8; xor6 t2 t3 t4 t5 t6 t7;
     xor5 t1 t2 t6 t7 t8; xor5 t2 t3 t5 t7 t8; xor5 t3 t4 t5 t6 t8; xor5 t1 t4 t5 t6 t7]
  | o => o
  end.

(* x = x1 || x2, k = k1 || k2 (32 bits each):  x2 ^= (x1 & k1) <<< 1;  x1 ^= x2 | k2 *)
Definition fl (x k : bytes) : bytes :=
  let x1 := firstn 4 x in let x2 := skipn 4 x in
  let k1 := firstn 4 k in let k2 := skipn 4 k in
  let x2' := bxs x2 (rotl_bits 1 (zipw band x1 k1)) in
  let x1' := bxs x1 (zipw bor x2' k2) in
  x1' ++ x2'.
(* y1 ^= y2 | k2;  y2 ^= (y1 & k1) <<< 1 *)
Definition flinv (y k : bytes) : bytes :=
  let y1 := firstn 4 y in let y2 := skipn 4 y in
  let k1 := firstn 4 k in let k2 := skipn 4 k in
  let y1' := bxs y1 (zipw bor y2 k2) in
  let y2' := bxs y2 (rotl_bits 1 (zipw band y1' k1)) in
  y1' ++ y2'.

(* ---- key schedule for 256-bit keys (RFC 3713 2.2) ---------------------------------------------------- *)
Definition sigma1 : bytes := [xa0; x9e; x66; x7f; x3b; xcc; x90; x8b].
Definition sigma2 : bytes := [xb6; x7a; xe8; x58; x4c; xaa; x73; xb2].
Definition sigma3 : bytes := [xc6; xef; x37; x2f; xe9; x4f; x82; xbe].
Definition sigma4 : bytes := [x54; xff; x53; xa5; xf1; xd3; x6f; x1c].
Definition sigma5 : bytes := [x10; xe5; x27; xfa; xde; x68; x2d; x1d].
Definition sigma6 : bytes := [xb0; x56; x88; xc2; xb3; xe6; xc1; xfd].

Record subkeys := { kw1 : bytes; kw2 : bytes; kw3 : bytes; kw4 : bytes;
                    ke1 : bytes; ke2 : bytes; ke3 : bytes; ke4 : bytes; ke5 : bytes; ke6 : bytes;
                    g1 : list bytes (* k1..k6 *); g2 : list bytes (* k7..k12 *);
                    g3 : list bytes (* k13..k18 *); g4 : list bytes (* k19..k24 *) }.
Definition hi (l : bytes) : bytes := firstn 8 l.
Definition lo (l : bytes) : bytes := skipn 8 l.

Definition cam_keys (key : bytes) : subkeys :=
  let KL := firstn 16 key in let KR := skipn 16 key in
  let x := bxs KL KR in
  let d1 := hi x in let d2 := lo x in
  let d2 := bxs d2 (camF d1 sigma1) in
  let d1 := bxs d1 (camF d2 sigma2) in
  let d1 := bxs d1 (hi KL) in let d2 := bxs d2 (lo KL) in
  let d2 := bxs d2 (camF d1 sigma3) in
  let d1 := bxs d1 (camF d2 sigma4) in
  let KA := d1 ++ d2 in
  let y := bxs KA KR in
  let e1 := hi y in let e2 := lo y in
  let e2 := bxs e2 (camF e1 sigma5) in
  let e1 := bxs e1 (camF e2 sigma6) in
  let KB := e1 ++ e2 in
  let KR15 := rotl 15 KR in let KA15 := rotl 15 KA in
  let KR30 := rotl 30 KR in let KB30 := rotl 30 KB in
  let KL45 := rotl 45 KL in let KA45 := rotl 45 KA in
  let KL60 := rotl 60 KL in let KR60 := rotl 60 KR in let KB60 := rotl 60 KB in
  let KL77 := rotl 77 KL in let KA77 := rotl 77 KA in
  let KR94 := rotl 94 KR in let KA94 := rotl 94 KA in
  let KL111 := rotl 111 KL in let KB111 := rotl 111 KB in
  {| kw1 := hi KL; kw2 := lo KL; kw3 := hi KB111; kw4 := lo KB111;
     ke1 := hi KR30; ke2 := lo KR30; ke3 := hi KL60; ke4 := lo KL60; ke5 := hi KA77; ke6 := lo KA77;
     g1 := [hi KB; lo KB; hi KR15; lo KR15; hi KA15; lo KA15];
     g2 := [hi KB30; lo KB30; hi KL45; lo KL45; hi KA45; lo KA45];
     g3 := [hi KR60; lo KR60; hi KB60; lo KB60; hi KL77; lo KL77];
     g4 := [hi KR94; lo KR94; hi KA94; lo KA94; hi KL111; lo KL111] |}.

(* ---- encryption and decryption (RFC 3713 2.3.2) --------------------------------------------------------- *)
(* one Feistel round with the halves swapped: two of them are  D2 ^= F(D1, k);  D1 ^= F(D2, k') *)
Definition fround (s : bytes * bytes) (k : bytes) : bytes * bytes := let (d1, d2) := s in (bxs d2 (camF d1 k), d1).
Definition inv_fround (s : bytes * bytes) (k : bytes) : bytes * bytes := let (a, b) := s in (b, bxs a (camF b k)).
Definition fl_layer (s : bytes * bytes) (ka kb : bytes) : bytes * bytes := let (d1, d2) := s in (fl d1 ka, flinv d2 kb).
Definition inv_fl_layer (s : bytes * bytes) (ka kb : bytes) : bytes * bytes := let (d1, d2) := s in (flinv d1 ka, fl d2 kb).

Definition cam_enc (key m : bytes) : bytes :=
  let ks := cam_keys key in
  let s := (bxs (hi m) (kw1 ks), bxs (lo m) (kw2 ks)) in
  let s := fold_left fround (g1 ks) s in
  let s := fl_layer s (ke1 ks) (ke2 ks) in
  let s := fold_left fround (g2 ks) s in
  let s := fl_layer s (ke3 ks) (ke4 ks) in
  let s := fold_left fround (g3 ks) s in
  let s := fl_layer s (ke5 ks) (ke6 ks) in
  let s := fold_left fround (g4 ks) s in
  let (d1, d2) := s in bxs d2 (kw3 ks) ++ bxs d1 (kw4 ks).

Definition cam_dec (key c : bytes) : bytes :=
  let ks := cam_keys key in
  let s := (bxs (lo c) (kw4 ks), bxs (hi c) (kw3 ks)) in
  let s := fold_left inv_fround (rev (g4 ks)) s in
  let s := inv_fl_layer s (ke5 ks) (ke6 ks) in
  let s := fold_left inv_fround (rev (g3 ks)) s in
  let s := inv_fl_layer s (ke3 ks) (ke4 ks) in
  let s := fold_left inv_fround (rev (g2 ks)) s in
  let s := inv_fl_layer s (ke1 ks) (ke2 ks) in
  let s := fold_left inv_fround (rev (g1 ks)) s in
  let (d1, d2) := s in bxs d1 (kw1 ks) ++ bxs d2 (kw2 ks).

(* ---- RFC 3713 Appendix A, 256-bit key ------------------------------------------------------------------ *)
Example camellia256_rfc3713_enc :
  hex (cam_enc (unhex_or_nil "0123456789abcdeffedcba987654321000112233445566778899aabbccddeeff")
               (unhex_or_nil "0123456789abcdeffedcba9876543210"))
  = lit "9acc237dff16d76c20ef7c919e3a7509".
Proof. vm_compute. reflexivity. Qed.
Example camellia256_rfc3713_dec :
  hex (cam_dec (unhex_or_nil "0123456789abcdeffedcba987654321000112233445566778899aabbccddeeff")
               (unhex_or_nil "9acc237dff16d76c20ef7c919e3a7509"))
  = lit "0123456789abcdeffedcba9876543210".
Proof. vm_compute. reflexivity. Qed.

(* ---- the block ciphers of the library, by algorithm ----------------------------------------------------- *)
Definition real_E_of (a : encryption) : bytes -> bytes -> bytes :=
  match a with ECamellia => cam_enc | _ => aes_enc end.
Definition real_D_of (a : encryption) : bytes -> bytes -> bytes :=
  match a with ECamellia => cam_dec | _ => aes_dec end.
