(* Update.v — logical model of the commands that write to an existing archive path
   (cli/src/command/append.rs, update.rs, delete.rs, commons.rs run_transform_entry),
   as repaired by the fix: commits ff5cb171, d6f70cbe, 82c7cf0b, a048f63a (update), db651618 (append) and
   4cfc8ff5 (collect_items keeps one path per entry name).

   Part 1 (C11): an archive's logical content is the ordered list of its entries
   (solid blocks and part boundaries flattened: they do not change the order in which
   entries are read); the disk is seen through the list of nodes the walker yields
   (cli/src/command/commons.rs collect_items), in walk order.
   Part 2 (C12): a command as a script of effects over a tiny file-system model, with a
   failure injected at the k-th processed item.
   Definitions only; facts are in Proofs/UpdateFacts.v. *)
From PNA Require Import Base Name.

(* ---------------------------------------------------------------- entries and nodes *)
Record entry := mkE {
  e_path : bytes;            (* sanitised entry name *)
  e_kind : N;                (* 0 file, 1 directory, 2 symbolic link, 3 hard link *)
  e_content : bytes;         (* opaque to every command of this area *)
  e_mtime : option N         (* seconds; None = no mTIM chunk *)
}.
Definition archive := list entry.
Definition names (a : archive) : list bytes := map e_path a.

(* what the walker yields for one path: the path as walked (./d/a, d/a, ../x ...), what
   lstat says, the content and the modification time (ns) the entry builder will read *)
Record node := mkN {
  n_path : bytes;
  n_kind : N;                (* 0 file, 1 directory, 2 symbolic link, 3 unsupported kind
                                (FIFO, socket, device), 4 a named root that does not exist *)
  n_content : bytes;
  n_mtime : N                (* nanoseconds *)
}.
Definition node_name (n : node) : bytes := sanitize_name (n_path n).   (* EntryName::from_lossy *)

Fixpoint mem (x : bytes) (l : list bytes) : bool :=
  match l with [] => false | y :: r => bytes_eqb x y || mem x r end.

(* collect_items: a missing root makes the walker fail; otherwise keep_dir || path.is_file(), and of the
   paths that pass the first of every entry name (commit 4cfc8ff5: overlapping file arguments (-r d d/a, ./d/a d/a)
   reach a path more than once; `if seen.insert(EntryName::from_lossy(&path)) { target_items.push(path) }`) *)
Definition missing (n : node) : bool := N.eqb (n_kind n) 4.
Definition wanted (keep_dir : bool) (n : node) : bool := keep_dir || N.eqb (n_kind n) 0.
Fixpoint dedup_seen (seen : list bytes) (l : list node) : list node :=
  match l with
  | [] => []
  | n :: r => if mem (node_name n) seen then dedup_seen seen r
              else n :: dedup_seen (node_name n :: seen) r
  end.
Definition dedup_names (l : list node) : list node := dedup_seen [] l.
Definition collect (keep_dir : bool) (walk : list node) : res (list node) :=
  if existsb missing walk then Err OtherErr else Ok (dedup_names (filter (wanted keep_dir) walk)).
(* collect_items as it was before 4cfc8ff5: every walked path that passes is an item *)
Definition collect_orig (keep_dir : bool) (walk : list node) : res (list node) :=
  if existsb missing walk then Err OtherErr else Ok (filter (wanted keep_dir) walk).

(* create_entry: symlink / file / directory, anything else is Unsupported *)
Definition creatable (n : node) : bool := N.ltb (n_kind n) 3.
Definition ns_per_s : N := 1000000000.
Definition fresh (keep_ts : bool) (n : node) : entry :=
  {| e_path := node_name n; e_kind := n_kind n; e_content := n_content n;
     e_mtime := if keep_ts then Some (n_mtime n / ns_per_s) else None |}.
Definition build (keep_ts : bool) (ns : list node) : res (list entry) :=
  if forallb creatable ns then Ok (map (fresh keep_ts) ns) else Err Unsupported.

(* ---------------------------------------------------------------- create / append *)
Definition create_cmd (keep_dir keep_ts : bool) (walk : list node) : res archive :=
  do items <- collect keep_dir walk; build keep_ts items.

(* create as it was before 4cfc8ff5: a path walked twice is archived twice (C02_create_overlap_unrepaired_refuted) *)
Definition create_cmd_orig (keep_dir keep_ts : bool) (walk : list node) : res archive :=
  do items <- collect_orig keep_dir walk; build keep_ts items.

(* append.rs: seek_to_end of the last part, then the new entries and a new end marker
   overwrite the old end marker *)
Definition append (a : archive) (new : list entry) : archive := a ++ new.
Definition append_cmd (keep_dir keep_ts : bool) (a : archive) (walk : list node) : res archive :=
  do items <- collect keep_dir walk;
  do new <- build keep_ts items;
  Ok (append a new).

Definition append_cmd_orig (keep_dir keep_ts : bool) (a : archive) (walk : list node) : res archive :=
  do items <- collect_orig keep_dir walk;
  do new <- build keep_ts items;
  Ok (append a new).

(* ---------------------------------------------------------------- update *)
(* need_update_condition: 0 none, 1 --newer-mtime, 2 --older-mtime.  The stored time has
   second resolution, the disk time nanoseconds; a missing stored time means "update". *)
Definition cond_holds (cond : N) (e : entry) (n : node) : bool :=
  if N.eqb cond 0 then true
  else match e_mtime e with
       | None => true
       | Some s => if N.eqb cond 1 then N.ltb (s * ns_per_s) (n_mtime n)
                   else N.ltb (n_mtime n) (s * ns_per_s)
       end.

Definition names_entry (e : entry) (n : node) : bool := bytes_eqb (node_name n) (e_path e).

(* the pass over the existing entries (update.rs, the closure given to Strategy::transform):
   result = (entries written as they are, nodes to re-create in archive order,
             targets not met in the archive) *)
Fixpoint update_pass (excl : list bytes) (cond : N) (a : archive) (targets : list node)
         (refreshed : list bytes) : list entry * list node * list node :=
  match a with
  | [] => ([], [], targets)
  | e :: a' =>
    match find (names_entry e) targets with
    | Some n =>
      let targets' := filter (fun m => negb (names_entry e m)) targets in
      if negb (mem (e_path e) excl) && cond_holds cond e n then
        let '(k, j, t) := update_pass excl cond a' targets' (e_path e :: refreshed) in (k, n :: j, t)
      else
        let '(k, j, t) := update_pass excl cond a' targets' refreshed in (e :: k, j, t)
    | None =>
      if mem (e_path e) refreshed then update_pass excl cond a' targets refreshed
      else let '(k, j, t) := update_pass excl cond a' targets refreshed in (e :: k, j, t)
    end
  end.

(* the same pass, seen entry by entry: is the entry written to the output as it is? *)
Fixpoint pass_flags (excl : list bytes) (cond : N) (a : archive) (targets : list node)
         (refreshed : list bytes) : list bool :=
  match a with
  | [] => []
  | e :: a' =>
    match find (names_entry e) targets with
    | Some n =>
      let targets' := filter (fun m => negb (names_entry e m)) targets in
      if negb (mem (e_path e) excl) && cond_holds cond e n then
        false :: pass_flags excl cond a' targets' (e_path e :: refreshed)
      else true :: pass_flags excl cond a' targets' refreshed
    | None =>
      if mem (e_path e) refreshed then false :: pass_flags excl cond a' targets refreshed
      else true :: pass_flags excl cond a' targets refreshed
    end
  end.

(* update.rs after collect_items (commit a048f63a): the first walked path of every entry name is kept
   (let mut seen = HashSet::new(); target_items.retain(|p| seen.insert(EntryName::from_lossy(p)))); since 4cfc8ff5
   collect_items has applied the same rule already and this second pass changes nothing (UpdateFacts.dedup_names_idem) *)
(* the items of create / append and the paths update works on: what the walker yields, filtered, one per entry name *)
Definition update_targets (keep_dir : bool) (walk : list node) : list node :=
  dedup_names (filter (wanted keep_dir) walk).

Definition update_cmd (keep_dir keep_ts : bool) (excl : list bytes) (cond : N)
           (a : archive) (walk : list node) : res archive :=
  do items <- collect keep_dir walk;
  let '(kept, jobs, rest) := update_pass excl cond a (dedup_names items) [] in
  do new <- build keep_ts (jobs ++ rest);
  Ok (kept ++ new).
(* the command as it was before a048f63a: every walked path is a target, a new path named twice is
   archived twice (kept for the record: C11_update_overlap_unrepaired_refuted) *)
Definition update_cmd_orig (keep_dir keep_ts : bool) (excl : list bytes) (cond : N)
           (a : archive) (walk : list node) : res archive :=
  do items <- collect_orig keep_dir walk;
  let '(kept, jobs, rest) := update_pass excl cond a items [] in
  do new <- build keep_ts (jobs ++ rest);
  Ok (kept ++ new).

(* ---------------------------------------------------------------- delete *)
(* delete.rs: globs.matches_any(path) && !exclude.matches_any(path); the glob matcher is an
   external primitive, given as a predicate (a table when the model is run) *)
Definition delete_by (m : bytes -> bool) (a : archive) : archive :=
  filter (fun e => negb (m (e_path e))) a.
Definition delete (matched : list bytes) (a : archive) : archive :=
  delete_by (fun p => mem p matched) a.

(* ---------------------------------------------------------------- histories *)
Inductive op :=
  | OCreate (keep_dir keep_ts : bool) (walk : list node)      (* create --overwrite *)
  | OAppend (keep_dir keep_ts : bool) (walk : list node)
  | OUpdate (keep_dir keep_ts : bool) (excl : list bytes) (cond : N) (walk : list node)
  | ODelete (matched : list bytes)
  | ONop.                                                      (* split / concat of the parts *)

Definition step (a : archive) (o : op) : res archive :=
  match o with
  | OCreate kd kt w => create_cmd kd kt w
  | OAppend kd kt w => append_cmd kd kt a w
  | OUpdate kd kt ex c w => update_cmd kd kt ex c a w
  | ODelete m => Ok (delete m a)
  | ONop => Ok a
  end.

(* a failing command leaves the archive as it was (C12) and the history goes on *)
Definition after (a : archive) (o : op) : archive :=
  match step a o with Ok a' => a' | _ => a end.
Fixpoint run_hist (a : archive) (ops : list op) : list (res archive) :=
  match ops with
  | [] => []
  | o :: r => step a o :: run_hist (after a o) r
  end.
Definition final (a : archive) (ops : list op) : archive := fold_left after ops a.

(* ================================================================= C12: effect scripts *)
(* a file holding an archive: the entries written so far and whether the end marker is there *)
Record afile := mkF { f_entries : list entry; f_end : bool }.
Definition fsys := list (bytes * afile).                      (* path -> file, first match wins *)

Fixpoint file (fs : fsys) (p : bytes) : option afile :=
  match fs with
  | [] => None
  | (q, f) :: r => if bytes_eqb p q then Some f else file r p
  end.
Fixpoint remove (fs : fsys) (p : bytes) : fsys :=
  match fs with
  | [] => []
  | (q, f) :: r => if bytes_eqb p q then remove r p else (q, f) :: remove r p
  end.
Definition put (fs : fsys) (p : bytes) (f : afile) : fsys := (p, f) :: remove fs p.

Inductive eff :=
  | EItem (k : nat)                  (* read / decode / build the k-th processed item: may fail *)
  | ECreate (p : bytes)              (* File::create + Archive::write_header: no entry, no end marker *)
  | EAdd (p : bytes) (e : entry)     (* add_entry at the write position: an end marker there is overwritten *)
  | EFinalize (p : bytes)            (* finalize: end marker *)
  | EMv (src dst : bytes).           (* utils::fs::mv = rename *)

Definition apply (fs : fsys) (x : eff) : fsys :=
  match x with
  | EItem _ => fs
  | ECreate p => put fs p (mkF [] false)
  | EAdd p e => match file fs p with
                | Some f => put fs p (mkF (f_entries f ++ [e]) false)
                | None => fs
                end
  | EFinalize p => match file fs p with
                   | Some f => put fs p (mkF (f_entries f) true)
                   | None => fs
                   end
  | EMv s d => match file fs s with
               | Some f => put (remove fs s) d f
               | None => fs
               end
  end.

(* run a script; `fail k` = the k-th item fails, the command returns at once (the ? operator) *)
Fixpoint run_script (fail : nat -> bool) (s : list eff) (fs : fsys) : fsys * bool :=
  match s with
  | [] => (fs, true)
  | EItem k :: r => if fail k then (fs, false) else run_script fail r fs
  | x :: r => run_script fail r (apply fs x)
  end.
Definition run_failing (s : list eff) (fs : fsys) (k : nat) : fsys :=
  fst (run_script (Nat.eqb k) s fs).
Definition run_ok (s : list eff) (fs : fsys) : fsys := fst (run_script (fun _ => false) s fs).
Definition fails_at (s : list eff) (k : nat) : Prop := In (EItem k) s.

(* run_transform_entry (delete, strip, chmod, chown, xattr, acl, migrate): temp file, every
   entry read (item k) and, unless dropped, written; finalize; mv temp target *)
Fixpoint rewrite_body (tmp : bytes) (tr : entry -> option entry) (a : archive) (k : nat) : list eff :=
  match a with
  | [] => []
  | e :: r => EItem k :: match tr e with Some e' => [EAdd tmp e'] | None => [] end
              ++ rewrite_body tmp tr r (S k)
  end.
Definition rewrite_script (tmp target : bytes) (tr : entry -> option entry) (a : archive) : list eff :=
  ECreate tmp :: rewrite_body tmp tr a 0 ++ [EFinalize tmp; EMv tmp target].
Definition transformed (tr : entry -> option entry) (a : archive) : archive :=
  flat_map (fun e => match tr e with Some e' => [e'] | None => [] end) a.

(* update: temp file, the pass (items 0..n-1 = the existing entries), then the re-created and
   the new entries (items n..), finalize, mv *)
Fixpoint items_from (k : nat) (n : nat) : list eff :=
  match n with O => [] | S n' => EItem k :: items_from (S k) n' end.
Fixpoint pass_body (tmp : bytes) (a : archive) (kept : list bool) (k : nat) : list eff :=
  match a, kept with
  | e :: r, b :: kr => EItem k :: (if b then [EAdd tmp e] else []) ++ pass_body tmp r kr (S k)
  | _, _ => []
  end.
Fixpoint new_body (p : bytes) (new : list entry) (k : nat) : list eff :=
  match new with
  | [] => []
  | e :: r => EItem k :: EAdd p e :: new_body p r (S k)
  end.
Definition update_script (tmp target : bytes) (a : archive) (kept : list bool) (new : list entry) : list eff :=
  ECreate tmp :: pass_body tmp a kept 0 ++ new_body tmp new (length a) ++ [EFinalize tmp; EMv tmp target].

(* append, repaired: every entry is built (items 0..m-1) before the first write *)
Definition adds (p : bytes) (new : list entry) : list eff := map (EAdd p) new.
Definition append_script (target : bytes) (new : list entry) : list eff :=
  items_from 0 (length new) ++ adds target new ++ [EFinalize target].
(* append as it was (D14): each entry written as soon as it is built *)
Definition append_script_orig (target : bytes) (new : list entry) : list eff :=
  new_body target new 0 ++ [EFinalize target].

(* what the check observes on the target path after a failed command *)
Inductive verdict := Same | ValidSuperset | Broken.
Definition entry_eqb (x y : entry) : bool :=
  bytes_eqb (e_path x) (e_path y) && N.eqb (e_kind x) (e_kind y) && bytes_eqb (e_content x) (e_content y)
  && match e_mtime x, e_mtime y with
     | None, None => true | Some s, Some t => N.eqb s t | _, _ => false end.
Fixpoint subseq (a b : archive) : bool :=          (* a is a subsequence of b *)
  match a, b with
  | [], _ => true
  | _ :: _, [] => false
  | x :: a', y :: b' => if entry_eqb x y then subseq a' b' else subseq a b'
  end.
Fixpoint entries_eqb (a b : archive) : bool :=
  match a, b with
  | [], [] => true
  | x :: a', y :: b' => entry_eqb x y && entries_eqb a' b'
  | _, _ => false
  end.
Definition afile_eqb (f g : afile) : bool :=
  Bool.eqb (f_end f) (f_end g) && entries_eqb (f_entries f) (f_entries g).
Definition result_file (before : afile) (fs : fsys) (target : bytes) : verdict :=
  match file fs target with
  | None => Broken
  | Some f => if afile_eqb f before then Same
              else if f_end f && subseq (f_entries before) (f_entries f) then ValidSuperset
              else Broken
  end.
