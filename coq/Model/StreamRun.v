(* StreamRun.v — case interpreter of the stream area: one TSV case -> canonical outcome.
   The formats mirror harness/src/bin/stream.rs.
   Lists of byte strings are comma-separated hex items, the empty byte string is written "-"
   (so that a list holding empty items differs from the empty list). *)
From PNA Require Import Base CodecRun Flatten Cbc Ctr.

(* field splitting in linear time (Base.split_on reverses with the quadratic List.rev; the
   lines of this area are up to tens of kilobytes long) *)
Fixpoint split_on_lin (sep : byte) (l cur : bytes) : list bytes :=
  match l with
  | [] => [rev_append cur []]
  | b :: l' => if byte_eqb b sep then rev_append cur [] :: split_on_lin sep l' []
               else split_on_lin sep l' (b :: cur)
  end.
Definition fields_lin (sep : byte) (l : bytes) : list bytes := split_on_lin sep l [].
Definition list_field_lin (l : bytes) : list bytes := match l with [] => [] | _ => fields_lin comma l end.

Definition dash : bytes := lit "-".
Definition hex_item (b : bytes) : bytes := match b with [] => dash | _ => hex b end.
Definition unhex_item (x : bytes) : option bytes := if bytes_eqb x dash then Some [] else unhex x.
Definition hexlist (f : bytes) : list bytes :=
  match all_some (map unhex_item (list_field_lin f)) with Some l => l | None => [] end.
Definition declist (f : bytes) : list N :=
  match all_some (map undec (list_field_lin f)) with Some l => l | None => [] end.
Definition slash : bytes := lit "/".
Definition commas : bytes := lit ",".

(* ---- renderings ---------------------------------------------------------------------------- *)
(* per write call: count ":" inner writes joined by "/" *)
Definition show_call (c : N * list bytes) : bytes :=
  dec (fst c) ++ lit ":" ++ join slash (map hex_item (snd c)).
Definition show_calls (cs : list (N * list bytes)) (fin : list bytes) : bytes :=
  join commas (map show_call cs) ++ lit ";" ++ join slash (map hex_item fin).
Definition show_err_item (e : ekind) : bytes := lit "!" ++ show_ekind e.

(* ---- read sequences (one read per buffer size, stop after the first error) ------------------ *)
Fixpoint cbcr_reads (D : bytes -> bytes -> bytes) (st : cbcr) (ns : list N) : list bytes :=
  match ns with
  | [] => []
  | n :: r => match cbcr_read D st n with
              | Ok (st', out) => hex_item out :: cbcr_reads D st' r
              | Err e => [show_err_item e]
              | Panic => [lit "!PANIC"]
              end
  end.
Fixpoint ctrr_reads (E : bytes -> bytes -> bytes) (st : ctrr) (ns : list N) : list bytes :=
  match ns with
  | [] => []
  | n :: r => let (st', out) := ctrr_read E st n in hex_item out :: ctrr_reads E st' r
  end.

(* ---- cutting a byte string into chunks with sizes taken cyclically from a list --------------
   (zero sizes give empty chunks; an all-zero or empty list gives the data as one chunk;
   cutting stops as soon as the data is used up) *)
Fixpoint cut_cycle (fuel : nat) (cur cyc : list N) (d : bytes) : list bytes :=
  match d with
  | [] => []
  | _ => match fuel with
         | O => [d]
         | S f => match cur with
                  | [] => cut_cycle f cyc cyc d
                  | s :: r => ftake s d :: cut_cycle f r cyc (fdrop s d)
                  end
         end
  end.
Definition sumN (l : list N) : N := fold_left N.add l 0.
Definition cut_by (sizes : list N) (d : bytes) : list bytes :=
  if N.eqb (sumN sizes) 0 then match d with [] => [] | _ => [d] end
  else cut_cycle ((length d + 1) * (length sizes + 1)) sizes sizes d.

(* the caller's loop: read with the given buffer sizes, cyclically, until a read returns nothing *)
Fixpoint cbcr_read_all (D : bytes -> bytes -> bytes) (fuel : nat) (st : cbcr) (cur cyc : list N) : res bytes :=
  match fuel with
  | O => Err OtherErr
  | S f => match cur with
           | [] => cbcr_read_all D f st cyc cyc
           | n :: r => do (st', out) <- cbcr_read D st n;
                       match out with
                       | [] => Ok []
                       | _ => do rest <- cbcr_read_all D f st' r cyc; Ok (out ++ rest)
                       end
           end
  end.
Fixpoint ctrr_read_all (E : bytes -> bytes -> bytes) (fuel : nat) (st : ctrr) (cur cyc : list N) : res bytes :=
  match fuel with
  | O => Err OtherErr
  | S f => match cur with
           | [] => ctrr_read_all E f st cyc cyc
           | n :: r => let (st', out) := ctrr_read E st n in
                       match out with
                       | [] => Ok []
                       | _ => do rest <- ctrr_read_all E f st' r cyc; Ok (out ++ rest)
                       end
           end
  end.

(* ---- generated contents of the rt / recut cases and their digest ----------------------------
   kind 0 (compressible):   byte i = (seed + i / 97) mod 256
   kind 1 (incompressible): xorshift64, x_0 = (seed mod 2^64) | 1,
                            x' = x ^ (x << 13); x'' = x' ^ (x' >> 7); x_(i+1) = x'' ^ (x'' << 17)  (mod 2^64),
                            byte i = (x_(i+1) >> 24) mod 256
   digest: FNV-1a, 64 bit (h * 0x100000001b3 computed as (h << 40) + 435 * h).
   N.iter keeps the recursion depth logarithmic in the length.                                   *)
Definition mask64 : N := 2 ^ 64 - 1.
Definition xorshift64 (x : N) : N :=
  let x1 := N.lxor x (N.land (N.shiftl x 13) mask64) in
  let x2 := N.lxor x1 (N.shiftr x1 7) in
  N.lxor x2 (N.land (N.shiftl x2 17) mask64).
Definition gen_step (kind seed : N) (st : N * N * N) : N * N * N :=
  let '(i, x, h) := st in
  let x' := if N.eqb kind 0 then x else xorshift64 x in
  let b := if N.eqb kind 0 then (seed + i / 97) mod 256 else N.land (N.shiftr x' 24) 255 in
  let hb := N.lxor h b in
  (i + 1, x', N.land (N.shiftl hb 40 + 435 * hb) mask64).
Definition content_digest (kind n seed : N) : N :=
  let '(_, _, h) := N.iter n (gen_step kind seed) (0, N.lor (N.land seed mask64) 1, 14695981039346656037) in h.

(* entries of an rt / recut case: the main content and `extra` small ones *)
Fixpoint extra_entries (kind n seed : N) (k : nat) (i : N) : list (N * N) :=
  match k with
  | O => []
  | S k' => let l := (n * 7 + 13 * i) mod 50 in (l, content_digest kind l (seed + i)) :: extra_entries kind n seed k' (i + 1)
  end.
(* The model of a library round trip (and of a re-cut followed by decoding) is the identity on
   the written contents: this is what StreamFacts.cbc_roundtrip / ctr_roundtrip / flatten_read_spec
   establish for the stream layer under the primitive laws (D k (E k b) = b; decompress after
   compress is the identity).  The outcome is therefore computed from the case's contents alone. *)
Definition rt_outcome (kind n seed extra : N) : bytes :=
  let extra := if N.ltb 8 extra then 8 else extra in
  lit "OK " ++ cat (map (fun e => dec (fst e) ++ lit ":" ++ dec (snd e))
                        ((n, content_digest kind n seed) :: extra_entries kind n seed (N.to_nat extra) 1)).

(* ---- the interpreter ------------------------------------------------------------------------- *)
Definition flat_n_ok (n : N) : bool := N.eqb n 1 || N.eqb n 3 || N.eqb n 16 || N.eqb n 4096.

Definition run_stream (op : bytes) (args : list bytes) : bytes :=
  let N_ i := match undec (nth i args []) with Some n => n | None => 0 end in
  let H_ i := match unhex_item (nth i args []) with Some b => b | None => [] end in
  let L_ i := hexlist (nth i args []) in
  let D_ i := declist (nth i args []) in
  let is_toy i := bytes_eqb (nth i args []) (lit "toy") in
  if bytes_eqb op (lit "flat_read") then
    lit "OK " ++ join commas (map hex_item (flat_reads (L_ 0%nat) (D_ 1%nat)))
  else if bytes_eqb op (lit "flat_write") then
    if flat_n_ok (N_ 0%nat)
    then lit "OK " ++ join commas (map show_call (flatten_writes (N.to_nat (N_ 0%nat)) [] (L_ 1%nat)))
    else lit "OK none"
  else if bytes_eqb op (lit "cbcw") then
    show_res (fun s => let (s', cs) := cbcw_writes toy_E s (L_ 2%nat) in show_calls cs (cbcw_finish toy_E s'))
             (cbcw_new (H_ 0%nat) (H_ 1%nat))
  else if bytes_eqb op (lit "cbcr") then
    show_res (fun st => join commas (cbcr_reads toy_D st (D_ 3%nat)))
             (cbcr_new (H_ 0%nat) (H_ 1%nat) (L_ 2%nat))
  else if bytes_eqb op (lit "ctrw") then
    show_res (fun s => let (_, cs) := ctrw_writes toy_E s (L_ 2%nat) in show_calls cs [])
             (ctrw_new (H_ 0%nat) (H_ 1%nat))
  else if bytes_eqb op (lit "ctrr") then
    show_res (fun st => join commas (ctrr_reads toy_E st (D_ 3%nat)))
             (ctrr_new (H_ 0%nat) (H_ 1%nat) (L_ 2%nat))
  else if bytes_eqb op (lit "cbc_rt") then
    (* cipher key iv writes cuts bufs *)
    let pt := concat (L_ 3%nat) in
    if is_toy 0%nat then
      show_res hex_item
        (do s <- cbcw_new (H_ 1%nat) (H_ 2%nat);
         let (s', cs) := cbcw_writes toy_E s (L_ 3%nat) in
         let ct := concat (concat (map snd cs)) ++ concat (cbcw_finish toy_E s') in
         do st <- cbcr_new (H_ 1%nat) (H_ 2%nat) (cut_by (D_ 4%nat) ct);
         cbcr_read_all toy_D (2 * (length ct + 2) + 2) st [] (D_ 5%nat))
    else lit "OK " ++ hex_item pt          (* real ciphers: identity, by StreamFacts.cbc_roundtrip *)
  else if bytes_eqb op (lit "ctr_rt") then
    let pt := concat (L_ 3%nat) in
    if is_toy 0%nat then
      show_res hex_item
        (do s <- ctrw_new (H_ 1%nat) (H_ 2%nat);
         let (_, cs) := ctrw_writes toy_E s (L_ 3%nat) in
         let ct := concat (concat (map snd cs)) in
         do st <- ctrr_new (H_ 1%nat) (H_ 2%nat) (cut_by (D_ 4%nat) ct);
         ctrr_read_all toy_E (2 * (length ct + 2) + 2) st [] (D_ 5%nat))
    else lit "OK " ++ hex_item pt
  else if bytes_eqb op (lit "rt") || bytes_eqb op (lit "recut") then
    (* writer codec level cipher mode kdf ckind clen cseed extra (wpart | cuts) rbufs *)
    rt_outcome (N_ 6%nat) (N_ 7%nat) (N_ 8%nat) (N_ 9%nat)
  else bad_case.

Definition run_line (line : bytes) : bytes :=
  match fields_lin tab line with
  | id :: op :: args => id ++ [tab] ++ run_stream op args
  | _ => bad_case
  end.
