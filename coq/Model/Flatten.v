(* Flatten.v — lib/src/io.rs: FlattenWriter<N> and FlattenReader (after fix 74f4ac4c:
   a zero-length read returns Ok(0) without consuming anything).
   Definitions only; facts are in Proofs/StreamFacts.v. *)
From PNA Require Import Base.

(* first n / all but the first n elements, with the count compared in N first
   (an input-controlled N is never turned into a unary nat larger than the list) *)
Definition ftake {A} (n : N) (l : list A) : list A :=
  if N.leb (len l) n then l else firstn (N.to_nat n) l.
Definition fdrop {A} (n : N) (l : list A) : list A :=
  if N.leb (len l) n then [] else skipn (N.to_nat n) l.

(* ---- FlattenWriter<N>::write : for b in buf.chunks(N) { inner.push(b) }; Ok(buf.len()) ---- *)
(* slice::chunks(n), n > 0: pieces of n elements, the last one shorter; nothing for [] *)
Fixpoint chunks_fuel {A} (fuel : nat) (n : nat) (l : list A) : list (list A) :=
  match fuel with
  | O => []
  | S f => match l with
           | [] => []
           | _ => firstn n l :: chunks_fuel f n (skipn n l)
           end
  end.
Definition chunks {A} (n : nat) (l : list A) : list (list A) := chunks_fuel (length l) n l.

(* state = the pieces pushed so far; result = new state, pieces pushed by this call, returned count *)
Definition flatten_write (n : nat) (s : list bytes) (d : bytes) : list bytes * list bytes * N :=
  let ps := chunks n d in (s ++ ps, ps, len d).

Fixpoint flatten_writes (n : nat) (s : list bytes) (ws : list bytes) : list (N * list bytes) :=
  match ws with
  | [] => []
  | d :: r => let '(s', ps, c) := flatten_write n s d in (c, ps) :: flatten_writes n s' r
  end.

(* ---- FlattenReader::read ------------------------------------------------------------------
   Rust state: `index` and the slices, the current one advanced by `<&[u8] as Read>::read`.
   Model state: the slices from `index` on (the head is the partly consumed current slice).
     if buf.is_empty() { return Ok(0) }
     if let Some(c) = inner.get_mut(index) {
         let s = c.read(buf);                       // min(buf.len(), c.len()) bytes, advances c
         if let Ok(0) = s { index += 1; self.read(buf) } else { s }
     } else { Ok(0) }                                                                          *)
Fixpoint flat_read_nz (s : list bytes) (n : N) : list bytes * bytes :=
  match s with
  | [] => ([], [])
  | c :: r => match c with
              | [] => flat_read_nz r n
              | _ => (fdrop n c :: r, ftake n c)
              end
  end.
Definition flat_read (s : list bytes) (n : N) : list bytes * bytes :=
  if N.eqb n 0 then (s, []) else flat_read_nz s n.

(* one read per buffer size *)
Fixpoint flat_reads (s : list bytes) (ns : list N) : list bytes :=
  match ns with
  | [] => []
  | n :: r => let (s', out) := flat_read s n in out :: flat_reads s' r
  end.
