(* Aes.v — AES-256 (FIPS-197, Nk = 8, Nr = 14) as an executable function on byte lists: the block
   cipher behind `aes::Aes256` that lib/src/cipher.rs instantiates in CBC (cbc::Encryptor/Decryptor)
   and CTR (ctr::Ctr128BE) mode.  aes_enc key block / aes_dec key block, key = 32 bytes, block = 16.
   The state is the block in FIPS-197's column-major order (byte r + 4c is row r of column c).
   S-box, inverse S-box and xtime are byte -> byte tables (computed from their definitions when this
   file was generated; pinned below by the FIPS-197 C.3 vector and, in every run of the pipeline
   area, by agreement with the `aes` crate on whole archives).
   The functions are total: on inputs of other lengths they still return something (the xor keeps
   the tail of its first operand, the 16-byte permutations are the identity on other lengths), which
   makes  aes_dec k (aes_enc k b) = b  hold without length premises (Proofs/AesFacts.v).
   Definitions only. *)
From PNA Require Import Base Flatten.

(* xor of two bytes; both operands are < 256, so of_N never fails *)
Definition bx (a b : byte) : byte :=
  match Byte.of_N (N.lxor (Byte.to_N a) (Byte.to_N b)) with Some c => c | None => x00 end.
(* pointwise xor; where the second operand is shorter the first one's tail is kept *)
Fixpoint bxs (s k : bytes) : bytes :=
  match s, k with
  | x :: s', y :: k' => bx x y :: bxs s' k'
  | _, [] => s
  | [], _ => []
  end.

(* SubBytes: S-box of FIPS-197 Figure 7 (multiplicative inverse in GF(2^8), then the affine map) *)
Definition sbox (b : byte) : byte :=
  match b with
  | x00 => x63 | x01 => x7c | x02 => x77 | x03 => x7b | x04 => xf2 | x05 => x6b | x06 => x6f | x07 => xc5
  | x08 => x30 | x09 => x01 | x0a => x67 | x0b => x2b | x0c => xfe | x0d => xd7 | x0e => xab | x0f => x76
  | x10 => xca | x11 => x82 | x12 => xc9 | x13 => x7d | x14 => xfa | x15 => x59 | x16 => x47 | x17 => xf0
  | x18 => xad | x19 => xd4 | x1a => xa2 | x1b => xaf | x1c => x9c | x1d => xa4 | x1e => x72 | x1f => xc0
  | x20 => xb7 | x21 => xfd | x22 => x93 | x23 => x26 | x24 => x36 | x25 => x3f | x26 => xf7 | x27 => xcc
  | x28 => x34 | x29 => xa5 | x2a => xe5 | x2b => xf1 | x2c => x71 | x2d => xd8 | x2e => x31 | x2f => x15
  | x30 => x04 | x31 => xc7 | x32 => x23 | x33 => xc3 | x34 => x18 | x35 => x96 | x36 => x05 | x37 => x9a
  | x38 => x07 | x39 => x12 | x3a => x80 | x3b => xe2 | x3c => xeb | x3d => x27 | x3e => xb2 | x3f => x75
  | x40 => x09 | x41 => x83 | x42 => x2c | x43 => x1a | x44 => x1b | x45 => x6e | x46 => x5a | x47 => xa0
  | x48 => x52 | x49 => x3b | x4a => xd6 | x4b => xb3 | x4c => x29 | x4d => xe3 | x4e => x2f | x4f => x84
  | x50 => x53 | x51 => xd1 | x52 => x00 | x53 => xed | x54 => x20 | x55 => xfc | x56 => xb1 | x57 => x5b
  | x58 => x6a | x59 => xcb | x5a => xbe | x5b => x39 | x5c => x4a | x5d => x4c | x5e => x58 | x5f => xcf
  | x60 => xd0 | x61 => xef | x62 => xaa | x63 => xfb | x64 => x43 | x65 => x4d | x66 => x33 | x67 => x85
  | x68 => x45 | x69 => xf9 | x6a => x02 | x6b => x7f | x6c => x50 | x6d => x3c | x6e => x9f | x6f => xa8
  | x70 => x51 | x71 => xa3 | x72 => x40 | x73 => x8f | x74 => x92 | x75 => x9d | x76 => x38 | x77 => xf5
  | x78 => xbc | x79 => xb6 | x7a => xda | x7b => x21 | x7c => x10 | x7d => xff | x7e => xf3 | x7f => xd2
  | x80 => xcd | x81 => x0c | x82 => x13 | x83 => xec | x84 => x5f | x85 => x97 | x86 => x44 | x87 => x17
  | x88 => xc4 | x89 => xa7 | x8a => x7e | x8b => x3d | x8c => x64 | x8d => x5d | x8e => x19 | x8f => x73
  | x90 => x60 | x91 => x81 | x92 => x4f | x93 => xdc | x94 => x22 | x95 => x2a | x96 => x90 | x97 => x88
  | x98 => x46 | x99 => xee | x9a => xb8 | x9b => x14 | x9c => xde | x9d => x5e | x9e => x0b | x9f => xdb
  | xa0 => xe0 | xa1 => x32 | xa2 => x3a | xa3 => x0a | xa4 => x49 | xa5 => x06 | xa6 => x24 | xa7 => x5c
  | xa8 => xc2 | xa9 => xd3 | xaa => xac | xab => x62 | xac => x91 | xad => x95 | xae => xe4 | xaf => x79
  | xb0 => xe7 | xb1 => xc8 | xb2 => x37 | xb3 => x6d | xb4 => x8d | xb5 => xd5 | xb6 => x4e | xb7 => xa9
  | xb8 => x6c | xb9 => x56 | xba => xf4 | xbb => xea | xbc => x65 | xbd => x7a | xbe => xae | xbf => x08
  | xc0 => xba | xc1 => x78 | xc2 => x25 | xc3 => x2e | xc4 => x1c | xc5 => xa6 | xc6 => xb4 | xc7 => xc6
  | xc8 => xe8 | xc9 => xdd | xca => x74 | xcb => x1f | xcc => x4b | xcd => xbd | xce => x8b | xcf => x8a
  | xd0 => x70 | xd1 => x3e | xd2 => xb5 | xd3 => x66 | xd4 => x48 | xd5 => x03 | xd6 => xf6 | xd7 => x0e
  | xd8 => x61 | xd9 => x35 | xda => x57 | xdb => xb9 | xdc => x86 | xdd => xc1 | xde => x1d | xdf => x9e
  | xe0 => xe1 | xe1 => xf8 | xe2 => x98 | xe3 => x11 | xe4 => x69 | xe5 => xd9 | xe6 => x8e | xe7 => x94
  | xe8 => x9b | xe9 => x1e | xea => x87 | xeb => xe9 | xec => xce | xed => x55 | xee => x28 | xef => xdf
  | xf0 => x8c | xf1 => xa1 | xf2 => x89 | xf3 => x0d | xf4 => xbf | xf5 => xe6 | xf6 => x42 | xf7 => x68
  | xf8 => x41 | xf9 => x99 | xfa => x2d | xfb => x0f | xfc => xb0 | xfd => x54 | xfe => xbb | xff => x16
  end.

(* InvSubBytes: FIPS-197 Figure 14 *)
Definition inv_sbox (b : byte) : byte :=
  match b with
  | x00 => x52 | x01 => x09 | x02 => x6a | x03 => xd5 | x04 => x30 | x05 => x36 | x06 => xa5 | x07 => x38
  | x08 => xbf | x09 => x40 | x0a => xa3 | x0b => x9e | x0c => x81 | x0d => xf3 | x0e => xd7 | x0f => xfb
  | x10 => x7c | x11 => xe3 | x12 => x39 | x13 => x82 | x14 => x9b | x15 => x2f | x16 => xff | x17 => x87
  | x18 => x34 | x19 => x8e | x1a => x43 | x1b => x44 | x1c => xc4 | x1d => xde | x1e => xe9 | x1f => xcb
  | x20 => x54 | x21 => x7b | x22 => x94 | x23 => x32 | x24 => xa6 | x25 => xc2 | x26 => x23 | x27 => x3d
  | x28 => xee | x29 => x4c | x2a => x95 | x2b => x0b | x2c => x42 | x2d => xfa | x2e => xc3 | x2f => x4e
  | x30 => x08 | x31 => x2e | x32 => xa1 | x33 => x66 | x34 => x28 | x35 => xd9 | x36 => x24 | x37 => xb2
  | x38 => x76 | x39 => x5b | x3a => xa2 | x3b => x49 | x3c => x6d | x3d => x8b | x3e => xd1 | x3f => x25
  | x40 => x72 | x41 => xf8 | x42 => xf6 | x43 => x64 | x44 => x86 | x45 => x68 | x46 => x98 | x47 => x16
  | x48 => xd4 | x49 => xa4 | x4a => x5c | x4b => xcc | x4c => x5d | x4d => x65 | x4e => xb6 | x4f => x92
  | x50 => x6c | x51 => x70 | x52 => x48 | x53 => x50 | x54 => xfd | x55 => xed | x56 => xb9 | x57 => xda
  | x58 => x5e | x59 => x15 | x5a => x46 | x5b => x57 | x5c => xa7 | x5d => x8d | x5e => x9d | x5f => x84
  | x60 => x90 | x61 => xd8 | x62 => xab | x63 => x00 | x64 => x8c | x65 => xbc | x66 => xd3 | x67 => x0a
  | x68 => xf7 | x69 => xe4 | x6a => x58 | x6b => x05 | x6c => xb8 | x6d => xb3 | x6e => x45 | x6f => x06
  | x70 => xd0 | x71 => x2c | x72 => x1e | x73 => x8f | x74 => xca | x75 => x3f | x76 => x0f | x77 => x02
  | x78 => xc1 | x79 => xaf | x7a => xbd | x7b => x03 | x7c => x01 | x7d => x13 | x7e => x8a | x7f => x6b
  | x80 => x3a | x81 => x91 | x82 => x11 | x83 => x41 | x84 => x4f | x85 => x67 | x86 => xdc | x87 => xea
  | x88 => x97 | x89 => xf2 | x8a => xcf | x8b => xce | x8c => xf0 | x8d => xb4 | x8e => xe6 | x8f => x73
  | x90 => x96 | x91 => xac | x92 => x74 | x93 => x22 | x94 => xe7 | x95 => xad | x96 => x35 | x97 => x85
  | x98 => xe2 | x99 => xf9 | x9a => x37 | x9b => xe8 | x9c => x1c | x9d => x75 | x9e => xdf | x9f => x6e
  | xa0 => x47 | xa1 => xf1 | xa2 => x1a | xa3 => x71 | xa4 => x1d | xa5 => x29 | xa6 => xc5 | xa7 => x89
  | xa8 => x6f | xa9 => xb7 | xaa => x62 | xab => x0e | xac => xaa | xad => x18 | xae => xbe | xaf => x1b
  | xb0 => xfc | xb1 => x56 | xb2 => x3e | xb3 => x4b | xb4 => xc6 | xb5 => xd2 | xb6 => x79 | xb7 => x20
  | xb8 => x9a | xb9 => xdb | xba => xc0 | xbb => xfe | xbc => x78 | xbd => xcd | xbe => x5a | xbf => xf4
  | xc0 => x1f | xc1 => xdd | xc2 => xa8 | xc3 => x33 | xc4 => x88 | xc5 => x07 | xc6 => xc7 | xc7 => x31
  | xc8 => xb1 | xc9 => x12 | xca => x10 | xcb => x59 | xcc => x27 | xcd => x80 | xce => xec | xcf => x5f
  | xd0 => x60 | xd1 => x51 | xd2 => x7f | xd3 => xa9 | xd4 => x19 | xd5 => xb5 | xd6 => x4a | xd7 => x0d
  | xd8 => x2d | xd9 => xe5 | xda => x7a | xdb => x9f | xdc => x93 | xdd => xc9 | xde => x9c | xdf => xef
  | xe0 => xa0 | xe1 => xe0 | xe2 => x3b | xe3 => x4d | xe4 => xae | xe5 => x2a | xe6 => xf5 | xe7 => xb0
  | xe8 => xc8 | xe9 => xeb | xea => xbb | xeb => x3c | xec => x83 | xed => x53 | xee => x99 | xef => x61
  | xf0 => x17 | xf1 => x2b | xf2 => x04 | xf3 => x7e | xf4 => xba | xf5 => x77 | xf6 => xd6 | xf7 => x26
  | xf8 => xe1 | xf9 => x69 | xfa => x14 | xfb => x63 | xfc => x55 | xfd => x21 | xfe => x0c | xff => x7d
  end.

(* xtime: multiplication by {02} in GF(2^8) modulo x^8+x^4+x^3+x+1 (FIPS-197 4.2.1) *)
Definition xt (b : byte) : byte :=
  match b with
  | x00 => x00 | x01 => x02 | x02 => x04 | x03 => x06 | x04 => x08 | x05 => x0a | x06 => x0c | x07 => x0e
  | x08 => x10 | x09 => x12 | x0a => x14 | x0b => x16 | x0c => x18 | x0d => x1a | x0e => x1c | x0f => x1e
  | x10 => x20 | x11 => x22 | x12 => x24 | x13 => x26 | x14 => x28 | x15 => x2a | x16 => x2c | x17 => x2e
  | x18 => x30 | x19 => x32 | x1a => x34 | x1b => x36 | x1c => x38 | x1d => x3a | x1e => x3c | x1f => x3e
  | x20 => x40 | x21 => x42 | x22 => x44 | x23 => x46 | x24 => x48 | x25 => x4a | x26 => x4c | x27 => x4e
  | x28 => x50 | x29 => x52 | x2a => x54 | x2b => x56 | x2c => x58 | x2d => x5a | x2e => x5c | x2f => x5e
  | x30 => x60 | x31 => x62 | x32 => x64 | x33 => x66 | x34 => x68 | x35 => x6a | x36 => x6c | x37 => x6e
  | x38 => x70 | x39 => x72 | x3a => x74 | x3b => x76 | x3c => x78 | x3d => x7a | x3e => x7c | x3f => x7e
  | x40 => x80 | x41 => x82 | x42 => x84 | x43 => x86 | x44 => x88 | x45 => x8a | x46 => x8c | x47 => x8e
  | x48 => x90 | x49 => x92 | x4a => x94 | x4b => x96 | x4c => x98 | x4d => x9a | x4e => x9c | x4f => x9e
  | x50 => xa0 | x51 => xa2 | x52 => xa4 | x53 => xa6 | x54 => xa8 | x55 => xaa | x56 => xac | x57 => xae
  | x58 => xb0 | x59 => xb2 | x5a => xb4 | x5b => xb6 | x5c => xb8 | x5d => xba | x5e => xbc | x5f => xbe
  | x60 => xc0 | x61 => xc2 | x62 => xc4 | x63 => xc6 | x64 => xc8 | x65 => xca | x66 => xcc | x67 => xce
  | x68 => xd0 | x69 => xd2 | x6a => xd4 | x6b => xd6 | x6c => xd8 | x6d => xda | x6e => xdc | x6f => xde
  | x70 => xe0 | x71 => xe2 | x72 => xe4 | x73 => xe6 | x74 => xe8 | x75 => xea | x76 => xec | x77 => xee
  | x78 => xf0 | x79 => xf2 | x7a => xf4 | x7b => xf6 | x7c => xf8 | x7d => xfa | x7e => xfc | x7f => xfe
  | x80 => x1b | x81 => x19 | x82 => x1f | x83 => x1d | x84 => x13 | x85 => x11 | x86 => x17 | x87 => x15
  | x88 => x0b | x89 => x09 | x8a => x0f | x8b => x0d | x8c => x03 | x8d => x01 | x8e => x07 | x8f => x05
  | x90 => x3b | x91 => x39 | x92 => x3f | x93 => x3d | x94 => x33 | x95 => x31 | x96 => x37 | x97 => x35
  | x98 => x2b | x99 => x29 | x9a => x2f | x9b => x2d | x9c => x23 | x9d => x21 | x9e => x27 | x9f => x25
  | xa0 => x5b | xa1 => x59 | xa2 => x5f | xa3 => x5d | xa4 => x53 | xa5 => x51 | xa6 => x57 | xa7 => x55
  | xa8 => x4b | xa9 => x49 | xaa => x4f | xab => x4d | xac => x43 | xad => x41 | xae => x47 | xaf => x45
  | xb0 => x7b | xb1 => x79 | xb2 => x7f | xb3 => x7d | xb4 => x73 | xb5 => x71 | xb6 => x77 | xb7 => x75
  | xb8 => x6b | xb9 => x69 | xba => x6f | xbb => x6d | xbc => x63 | xbd => x61 | xbe => x67 | xbf => x65
  | xc0 => x9b | xc1 => x99 | xc2 => x9f | xc3 => x9d | xc4 => x93 | xc5 => x91 | xc6 => x97 | xc7 => x95
  | xc8 => x8b | xc9 => x89 | xca => x8f | xcb => x8d | xcc => x83 | xcd => x81 | xce => x87 | xcf => x85
  | xd0 => xbb | xd1 => xb9 | xd2 => xbf | xd3 => xbd | xd4 => xb3 | xd5 => xb1 | xd6 => xb7 | xd7 => xb5
  | xd8 => xab | xd9 => xa9 | xda => xaf | xdb => xad | xdc => xa3 | xdd => xa1 | xde => xa7 | xdf => xa5
  | xe0 => xdb | xe1 => xd9 | xe2 => xdf | xe3 => xdd | xe4 => xd3 | xe5 => xd1 | xe6 => xd7 | xe7 => xd5
  | xe8 => xcb | xe9 => xc9 | xea => xcf | xeb => xcd | xec => xc3 | xed => xc1 | xee => xc7 | xef => xc5
  | xf0 => xfb | xf1 => xf9 | xf2 => xff | xf3 => xfd | xf4 => xf3 | xf5 => xf1 | xf6 => xf7 | xf7 => xf5
  | xf8 => xeb | xf9 => xe9 | xfa => xef | xfb => xed | xfc => xe3 | xfd => xe1 | xfe => xe7 | xff => xe5
  end.

(* ---- the four transformations and their inverses (FIPS-197 5.1, 5.3) ------------------------------- *)
Definition sub_bytes (s : bytes) : bytes := map sbox s.
Definition inv_sub_bytes (s : bytes) : bytes := map inv_sbox s.

(* ShiftRows: row r is rotated left by r columns: out[r + 4c] = in[r + 4((c + r) mod 4)] *)
Definition shift_rows (s : bytes) : bytes :=
  match s with
  | [a0; a1; a2; a3; a4; a5; a6; a7; a8; a9; a10; a11; a12; a13; a14; a15] =>
    [a0; a5; a10; a15; a4; a9; a14; a3; a8; a13; a2; a7; a12; a1; a6; a11]
  | _ => s
  end.
Definition inv_shift_rows (s : bytes) : bytes :=
  match s with
  | [a0; a1; a2; a3; a4; a5; a6; a7; a8; a9; a10; a11; a12; a13; a14; a15] =>
    [a0; a13; a10; a7; a4; a1; a14; a11; a8; a5; a2; a15; a12; a9; a6; a3]
  | _ => s
  end.

(* MixColumns: each column is multiplied by {02 03 01 01 / 01 02 03 01 / 01 01 02 03 / 03 01 01 02} *)
Definition m3 (b : byte) : byte := bx (xt b) b.
Definition mix_col (a b c d : byte) : bytes :=
  [bx (bx (xt a) (m3 b)) (bx c d);
   bx (bx a (xt b)) (bx (m3 c) d);
   bx (bx a b) (bx (xt c) (m3 d));
   bx (bx (m3 a) b) (bx c (xt d))].
Definition mix_columns (s : bytes) : bytes :=
  match s with
  | [a0; a1; a2; a3; a4; a5; a6; a7; a8; a9; a10; a11; a12; a13; a14; a15] =>
    mix_col a0 a1 a2 a3 ++ mix_col a4 a5 a6 a7 ++ mix_col a8 a9 a10 a11 ++ mix_col a12 a13 a14 a15
  | _ => s
  end.
(* InvMixColumns: {0e 0b 0d 09 / 09 0e 0b 0d / 0d 09 0e 0b / 0b 0d 09 0e} *)
Definition m9 (b : byte) : byte := bx (xt (xt (xt b))) b.
Definition mb (b : byte) : byte := bx (xt (xt (xt b))) (bx (xt b) b).
Definition md (b : byte) : byte := bx (xt (xt (xt b))) (bx (xt (xt b)) b).
Definition me (b : byte) : byte := bx (xt (xt (xt b))) (bx (xt (xt b)) (xt b)).
Definition inv_mix_col (a b c d : byte) : bytes :=
  [bx (bx (me a) (mb b)) (bx (md c) (m9 d));
   bx (bx (m9 a) (me b)) (bx (mb c) (md d));
   bx (bx (md a) (m9 b)) (bx (me c) (mb d));
   bx (bx (mb a) (md b)) (bx (m9 c) (me d))].
Definition inv_mix_columns (s : bytes) : bytes :=
  match s with
  | [a0; a1; a2; a3; a4; a5; a6; a7; a8; a9; a10; a11; a12; a13; a14; a15] =>
    inv_mix_col a0 a1 a2 a3 ++ inv_mix_col a4 a5 a6 a7 ++ inv_mix_col a8 a9 a10 a11 ++ inv_mix_col a12 a13 a14 a15
  | _ => s
  end.

(* ---- KeyExpansion for Nk = 8 (FIPS-197 5.2) ---------------------------------------------------------- *)
(* words are 4-byte lists.  From eight consecutive words w[i-8..i-1] (i a multiple of 8) the next eight:
   w[i] = w[i-8] ^ SubWord(RotWord(w[i-1])) ^ Rcon, w[i+4] = w[i-4] ^ SubWord(w[i+3]), the others w[j] = w[j-8] ^ w[j-1] *)
Definition rot_word (w : bytes) : bytes := match w with a :: r => r ++ [a] | [] => [] end.
Definition ks_group (rc : byte) (g : list bytes) : list bytes :=
  match g with
  | [w0; w1; w2; w3; w4; w5; w6; w7] =>
    let n0 := bxs w0 (bxs (sub_bytes (rot_word w7)) [rc]) in
    let n1 := bxs w1 n0 in
    let n2 := bxs w2 n1 in
    let n3 := bxs w3 n2 in
    let n4 := bxs w4 (sub_bytes n3) in
    let n5 := bxs w5 n4 in
    let n6 := bxs w6 n5 in
    let n7 := bxs w7 n6 in
    [n0; n1; n2; n3; n4; n5; n6; n7]
  | _ => g
  end.
Fixpoint ks_groups (rcs : list byte) (g : list bytes) : list bytes :=
  match rcs with
  | [] => []
  | rc :: r => let g' := ks_group rc g in g' ++ ks_groups r g'
  end.
(* w[0..63]; the cipher uses w[0..59] *)
Definition key_words (k : bytes) : list bytes :=
  let g := chunks 4 k in g ++ ks_groups [x01; x02; x04; x08; x10; x20; x40] g.
(* the 15 round keys, 16 bytes each *)
Definition round_keys (k : bytes) : list bytes :=
  firstn 15 (map (@concat byte) (chunks 4 (key_words k))).

(* ---- Cipher and InvCipher ---------------------------------------------------------------------------- *)
(* rounds 1..13 and the final round; InvCipher is written as the inverse rounds applied in the opposite
   order — the same sequence of transformations as FIPS-197 Figure 12, grouped differently:
   Fig. 12 is AddRoundKey(14); [InvShiftRows; InvSubBytes; AddRoundKey(i); InvMixColumns] for i = 13..1;
   InvShiftRows; InvSubBytes; AddRoundKey(0)  (InvShiftRows and InvSubBytes commute) *)
Definition round (s rk : bytes) : bytes := bxs (mix_columns (shift_rows (sub_bytes s))) rk.
Definition final_round (s rk : bytes) : bytes := bxs (shift_rows (sub_bytes s)) rk.
Definition inv_round (s rk : bytes) : bytes := inv_sub_bytes (inv_shift_rows (inv_mix_columns (bxs s rk))).
Definition inv_final_round (s rk : bytes) : bytes := inv_sub_bytes (inv_shift_rows (bxs s rk)).

(* rk0 :: r, with rev r = rk14 :: [rk13 .. rk1] *)
Definition aes_enc (k b : bytes) : bytes :=
  match round_keys k with
  | [] => b
  | rk0 :: r =>
    match rev r with
    | [] => bxs b rk0
    | rkl :: mid => final_round (fold_left round (rev mid) (bxs b rk0)) rkl
    end
  end.
Definition aes_dec (k c : bytes) : bytes :=
  match round_keys k with
  | [] => c
  | rk0 :: r =>
    match rev r with
    | [] => bxs c rk0
    | rkl :: mid => bxs (fold_left inv_round mid (inv_final_round c rkl)) rk0
    end
  end.

(* ---- FIPS-197 Appendix C.3 (AES-256) and A.3 (key expansion, first and last generated words) -------- *)
Definition unhex_or_nil (s : String.string) : bytes := match unhex (lit s) with Some b => b | None => [] end.
Arguments unhex_or_nil s%string.
Example aes256_c3_enc :
  hex (aes_enc (unhex_or_nil "000102030405060708090a0b0c0d0e0f101112131415161718191a1b1c1d1e1f")
               (unhex_or_nil "00112233445566778899aabbccddeeff"))
  = lit "8ea2b7ca516745bfeafc49904b496089".
Proof. vm_compute. reflexivity. Qed.
Example aes256_c3_dec :
  hex (aes_dec (unhex_or_nil "000102030405060708090a0b0c0d0e0f101112131415161718191a1b1c1d1e1f")
               (unhex_or_nil "8ea2b7ca516745bfeafc49904b496089"))
  = lit "00112233445566778899aabbccddeeff".
Proof. vm_compute. reflexivity. Qed.
(* A.3: key 603deb10 15ca71be 2b73aef0 857d7781 1f352c07 3b6108d7 2d9810a3 0914dff4: w8 = 9ba35411, w59 = 706c631e *)
Example aes256_a3_key_expansion :
  let w := key_words (unhex_or_nil "603deb1015ca71be2b73aef0857d77811f352c073b6108d72d9810a30914dff4") in
  (hex (nth 8 w []), hex (nth 12 w []), hex (nth 59 w [])) = (lit "9ba35411", lit "a8b09c1a", lit "706c631e").
Proof. vm_compute. reflexivity. Qed.
