(* Split.v — archive splitting (C04).
   Rust anchors:
     lib/src/chunk.rs            MIN_CHUNK_BYTES_SIZE = 12, ChunkExt::bytes_len, is_stream_chunk,
                                 chunk_data_split
     lib/src/entry.rs            EntryPart::bytes_len, EntryPart::split  (two textually identical
                                 copies: EntryPart<&[u8]> and EntryPart<Vec<u8>>; one function here)
     cli/src/command/commons.rs  split_to_parts, write_split_archive_writer  (after the D6 repair)
     lib/src/archive/write.rs    write_header(_with), add_entry_part, split_to_next_archive, finalize
   A chunk is (type, payload); length field and CRC are determined by these two and are added by
   the serialiser of the archive area.  Sizes are N; `usize` wrap-around is out of reach (it needs
   2^64 bytes of input) except for the two subtractions, which are written out.
   Definitions only; facts are in Proofs/SplitFacts.v. *)
From PNA Require Import Base Codec.
Open Scope N_scope.

Definition chunk := (bytes * bytes)%type.        (* (chunk type, payload) *)
Definition part := list chunk.                   (* EntryPart: a run of chunks of one entry *)

Definition FDAT := lit "FDAT".
Definition SDAT := lit "SDAT".
Definition AHED := lit "AHED".
Definition ANXT := lit "ANXT".
Definition AEND := lit "AEND".

Definition MIN_CHUNK : N := 12.                  (* length 4 + type 4 + crc 4 *)
Definition chunk_len (c : chunk) : N := MIN_CHUNK + len (snd c).       (* ChunkExt::bytes_len *)
Fixpoint bytes_len (p : part) : N :=             (* EntryPart::bytes_len *)
  match p with
  | [] => 0
  | c :: r => chunk_len c + bytes_len r
  end.
Definition is_stream (c : chunk) : bool :=       (* ChunkExt::is_stream_chunk *)
  bytes_eqb (fst c) FDAT || bytes_eqb (fst c) SDAT.

(* ---- EntryPart::split ------------------------------------------------------------ *)
(* The `while let Some(chunk) = remaining.pop_front()` loop; [total] is total_size, the
   result is (first, remaining).  In the cut branch the guards give
   0 < max - total - 12 < len payload, so the conversion to nat is bounded by the payload. *)
Fixpoint split_loop (max total : N) (remaining : part) : part * part :=
  match remaining with
  | [] => ([], [])
  | c :: r =>
    if N.ltb max (total + chunk_len c) then
      if is_stream c && N.ltb (total + MIN_CHUNK) max then
        let idx := N.to_nat (max - total - MIN_CHUNK) in          (* chunk_data_split *)
        ([(fst c, firstn idx (snd c))], (fst c, skipn idx (snd c)) :: r)
      else ([], c :: r)
    else
      let (f, rest) := split_loop max (total + chunk_len c) r in (c :: f, rest)
  end.

Definition split (max : N) (p : part) : part * option part :=
  if N.leb (bytes_len p) max then (p, None)
  else let (f, r) := split_loop max 0 p in (f, Some r).

(* ---- commons.rs split_to_parts --------------------------------------------------- *)
(* Outcome of a loop run on explicit fuel. *)
Inductive outcome (A : Type) :=
  | Fin (r : res A)
  | OutOfFuel.
Arguments Fin {A} r.
Arguments OutOfFuel {A}.

(* `loop { match entry_part.split(split_size) ... }`; [split_size] starts as `first` and is
   `max` from the second round on.  The `if` is the D6 repair: an empty piece cut with the
   whole budget of a part means no later round can do better. *)
Fixpoint split_to_parts_fuel (fuel : nat) (p : part) (split_size max : N) : outcome (list part) :=
  match fuel with
  | O => OutOfFuel
  | S f =>
    match split split_size p with
    | (w, Some rest) =>
      if N.eqb split_size max && N.eqb (bytes_len w) 0 then Fin (Err InvalidInput)
      else match split_to_parts_fuel f rest max max with
           | Fin (Ok ps) => Fin (Ok (w :: ps))
           | o => o
           end
    | (w, None) => Fin (Ok [w])
    end
  end.

(* ---- commons.rs write_split_archive_writer ---------------------------------------- *)
Definition pfile := list chunk.                  (* the chunks of one part file, after the signature *)

Definition ahed_chunk (n : N) : chunk :=
  (AHED, ahed_to_bytes {| a_major := 0; a_minor := 0; a_number := n |}).
Definition anxt_chunk : chunk := (ANXT, []).
Definition aend_chunk : chunk := (AEND, []).

Definition PNA_HEADER_LEN : N := 8.
(* PNA_HEADER + AHED (12 + 8) + ANXT + AEND *)
Definition PART_OVERHEAD : N := PNA_HEADER_LEN + MIN_CHUNK * 3 + 8.     (* = 52 *)
Definition file_size (f : pfile) : N := PNA_HEADER_LEN + bytes_len f.

Definition U32_MAX : N := 4294967295.

Record wstate := mkW {
  ws_done : list pfile;      (* part files already finalised, in order *)
  ws_num : N;                (* archive_number of the part being written *)
  ws_cur : list chunk;       (* entry chunks written to it so far *)
  ws_written : N             (* written_entry_size *)
}.

(* split_to_next_archive (ANXT, AEND) resp. finalize (AEND) *)
Definition close_part (last : bool) (st : wstate) : pfile :=
  ahed_chunk (ws_num st) :: ws_cur st ++ (if last then [aend_chunk] else [anxt_chunk; aend_chunk]).

(* body of `for part in parts`.  `archive_number + 1` is a u32 addition (write.rs:259):
   overflow panics in the debug profile. *)
Definition add_piece (B : N) (st : wstate) (p : part) : res wstate :=
  if N.ltb B (ws_written st + bytes_len p) then
    if N.ltb U32_MAX (ws_num st + 1) then Panic
    else Ok (mkW (ws_done st ++ [close_part false st]) (ws_num st + 1) p (bytes_len p))
  else Ok (mkW (ws_done st) (ws_num st) (ws_cur st ++ p) (ws_written st + bytes_len p)).

Fixpoint add_pieces (B : N) (st : wstate) (ps : list part) : res wstate :=
  match ps with
  | [] => Ok st
  | p :: r => do st' <- add_piece B st p; add_pieces B st' r
  end.

(* body of `for entry in entries`; `max_file_size - written_entry_size` is a usize subtraction *)
Fixpoint write_entries_fuel (fuel : nat) (B : N) (st : wstate) (es : list part) : outcome wstate :=
  match es with
  | [] => Fin (Ok st)
  | e :: r =>
    if N.ltb B (ws_written st) then Fin Panic
    else match split_to_parts_fuel fuel e (B - ws_written st) B with
         | OutOfFuel => OutOfFuel
         | Fin (Ok ps) =>
           match add_pieces B st ps with
           | Ok st' => write_entries_fuel fuel B st' r
           | Err k => Fin (Err k)
           | Panic => Fin Panic
           end
         | Fin (Err k) => Fin (Err k)
         | Fin Panic => Fin Panic
         end
  end.

Definition init_wstate : wstate := mkW [] 0 [] 0.

(* [fuel] bounds the rounds of each split_to_parts call *)
Definition write_split_fuel (fuel : nat) (max : N) (es : list part) : outcome (list pfile) :=
  if N.ltb max PART_OVERHEAD then Fin (Err InvalidInput)                (* checked_sub, D6 repair *)
  else match write_entries_fuel fuel (max - PART_OVERHEAD) init_wstate es with
       | Fin (Ok st) => Fin (Ok (ws_done st ++ [close_part true st]))   (* writer.finalize() *)
       | Fin (Err k) => Fin (Err k)
       | Fin Panic => Fin Panic
       | OutOfFuel => OutOfFuel
       end.

(* enough fuel for every input (SplitFacts.write_split_fuel_adequate): two rounds more than
   the bytes of the largest entry; here simply of all entries together *)
Fixpoint part_units (p : part) : nat :=
  match p with
  | [] => O
  | c :: r => (12 + length (snd c) + part_units r)%nat
  end.
Fixpoint entries_fuel (es : list part) : nat :=
  match es with
  | [] => 2%nat
  | e :: r => (part_units e + entries_fuel r)%nat
  end.

(* The OutOfFuel arm is dead code (write_split_fuel_adequate). *)
Definition write_split (max : N) (es : list part) : res (list pfile) :=
  match write_split_fuel (entries_fuel es) max es with
  | Fin r => r
  | OutOfFuel => Panic
  end.

(* ---- specification vocabulary (executable, used by the oracles' twins in Proofs) -- *)
(* fuse adjacent stream chunks of one type, drop empty stream chunks: two chunk lists with the
   same [merge] carry the same stream bytes in the same place between the same other chunks *)
Fixpoint merge (p : part) : part :=
  match p with
  | [] => []
  | c :: r =>
    if is_stream c then
      match snd c with
      | [] => merge r
      | _ =>
        match merge r with
        | d :: r' => if bytes_eqb (fst d) (fst c) then (fst c, snd c ++ snd d) :: r' else c :: d :: r'
        | [] => [c]
        end
      end
    else c :: merge r
  end.

(* ---- reading a multipart archive back, at chunk level ------------------------------------ *)
(* Rust anchors: lib/src/archive/read.rs next_raw_item / raw_entries (entries are closed by FEND or
   SEND, ANXT sets next_archive, AEND ends the part and keeps the chunks of an open entry in
   self.buf), read_header / read_next_archive (buffer carried over, archive number must be the
   previous + 1), cli commons.rs run_across_archive (follow the parts while the flag is set). *)
Definition FEND := lit "FEND".
Definition SEND := lit "SEND".
Definition ty_is (t : bytes) (c : chunk) : bool := bytes_eqb (fst c) t.
Definition is_end (c : chunk) : bool := ty_is FEND c || ty_is SEND c.

(* `for entry in archive.raw_entries()` on the chunks after AHED: (raw entries, self.buf,
   self.next_archive); chunks after AEND are not looked at *)
Fixpoint read_body (buf : list chunk) (next : bool) (cs : list chunk) : res (list part * list chunk * bool) :=
  match cs with
  | [] => Err UnexpectedEof
  | c :: r =>
    if is_end c then
      match read_body [] next r with
      | Ok (es, b, n) => Ok ((buf ++ [c]) :: es, b, n)
      | Err k => Err k
      | Panic => Panic
      end
    else if ty_is ANXT c then read_body buf true r
    else if ty_is AEND c then Ok ([], buf, next)
    else read_body (buf ++ [c]) next r
  end.

Definition read_part_header (f : pfile) : res (N * list chunk) :=
  match f with
  | [] => Err UnexpectedEof
  | c :: body =>
    if ty_is AHED c then
      match ahed_of_bytes (snd c) with
      | Ok h => Ok (a_number h, body)
      | Err k => Err k
      | Panic => Panic
      end
    else Err InvalidData
  end.

(* [prev] = number of the part read before; a set flag with no further part is NotFound *)
Fixpoint read_chain (prev : option N) (buf : list chunk) (fs : list pfile) : res (list part) :=
  match fs with
  | [] => Err NotFound
  | f :: rest =>
    match read_part_header f with
    | Ok (num, body) =>
      if (match prev with None => true | Some p => N.eqb (p + 1) num end) then
        match read_body buf false body with
        | Ok (es, b, true) =>
          match read_chain (Some num) b rest with
          | Ok es' => Ok (es ++ es')
          | o => o
          end
        | Ok (es, _, false) => Ok es
        | Err k => Err k
        | Panic => Panic
        end
      else Err InvalidData
    | Err k => Err k
    | Panic => Panic
    end
  end.
Definition read_parts (fs : list pfile) : res (list part) := read_chain None [] fs.

(* cut a chunk sequence after each FEND/SEND: (entries, chunks of the open entry) *)
Fixpoint scan (buf : list chunk) (cs : list chunk) : list part * list chunk :=
  match cs with
  | [] => ([], buf)
  | c :: r =>
    if is_end c then let (es, b) := scan [] r in ((buf ++ [c]) :: es, b)
    else scan (buf ++ [c]) r
  end.
