(* ListcmdRun.v — case interpreter of the `listcmd` area (pna list / pna extract vs the library).
   Cases:  plain  <solid> <classify> <nfiles> <matched names> <archive>   -> OK <hex of stdout>
           jsonl  <solid> <nfiles> <matched> <archive>                    -> OK name-hex:kindchar:raw_size,...
           table  <solid> <classify> <nfiles> <matched> <archive>         -> OK kindchar:size|-:hex(name column),...
           plainq / tableq: the same with -q (control characters of the printed name shown as '?')
           tree   <solid> <classify> <nfiles> <matched> <archive>         -> OK depth:hex(label),...   (display order)
           extract <nfiles> <matched> <archive>                           -> OK path-hex:kind:detail,... (sorted by path)
   Archive text: items joined by ';':  E|name-hex|kind|fSIZ or -|content length|target-hex ,  S ,  I|... *)
From PNA Require Import Base CodecRun ListCmd.

Definition bar : byte := x7c.
Definition semi : byte := x3b.
Definition colon : byte := x3a.
Definition dash : bytes := lit "-".

Definition obind {A B} (o : option A) (f : A -> option B) : option B :=
  match o with Some a => f a | None => None end.
Notation "'let?' x := o 'in' k" := (obind o (fun x => k)) (at level 200, x pattern, right associativity).

Definition p_row (f : list bytes) : option row :=
  match f with
  | [n; k; s; c; t] =>
    let? n := unhex n in let? k := undec k in let? c := undec c in let? t := unhex t in
    let? s := (if bytes_eqb s dash then Some None else option_map Some (undec s)) in
    Some {| r_name := n; r_kind := k; r_size := s; r_clen := c; r_target := t |}
  | _ => None
  end.
Fixpoint p_items (l : list bytes) : option (larchive * list row) :=
  match l with
  | [] => Some ([], [])
  | s :: r =>
    let? (a, inner) := p_items r in
    match fields bar s with
    | tag :: f =>
      if bytes_eqb tag (lit "E") then
        match inner with [] => let? e := p_row f in Some (LNormal e :: a, []) | _ => None end
      else if bytes_eqb tag (lit "I") then let? e := p_row f in Some (a, e :: inner)
      else if bytes_eqb tag (lit "S") then Some (LSolid inner :: a, [])
      else None
    | [] => None
    end
  end.
Definition p_archive (s : bytes) : option larchive :=
  match s with
  | [] => Some []
  | _ => match p_items (fields semi s) with Some (a, []) => Some a | _ => None end
  end.
Definition p_names (s : bytes) : option (list bytes) := all_some (map unhex (list_field s)).
Definition p_bool (s : bytes) : bool := bytes_eqb s (lit "1").
Definition mem (n : bytes) (l : list bytes) : bool := existsb (bytes_eqb n) l.

Definition s_size (o : option N) : bytes := match o with Some n => dec n | None => dash end.
Definition s_jsonl (rs : list row) : bytes :=
  join [comma] (map (fun r => hex (r_name r) ++ colon :: kind_char (r_kind r) :: colon ::
                              s_size (r_size r)) rs).
Definition s_table (classify : bool) (rs : list row) : bytes :=
  join [comma] (map (fun r => kind_char (r_kind r) :: colon :: s_size (r_size r) ++ colon :: hex (display classify r)) rs).
Definition s_table_q (classify : bool) (rs : list row) : bytes :=
  join [comma] (map (fun r => kind_char (r_kind r) :: colon :: s_size (r_size r) ++ colon :: hex (display_q classify r)) rs).
Definition s_tree (l : list (N * bytes)) : bytes :=
  join [comma] (map (fun dl => dec (fst dl) ++ colon :: hex (snd dl)) l).
Fixpoint insert_path (x : bytes * (N * bytes)) (l : list (bytes * (N * bytes))) :=
  match l with
  | [] => [x]
  | y :: r => if bytes_leb (fst x) (fst y) then x :: l else y :: insert_path x r
  end.
Definition s_fs (fs : list (bytes * (N * bytes))) : bytes :=
  join [comma] (map (fun pv => hex (fst pv) ++ colon :: dec (fst (snd pv)) ++ colon :: snd (snd pv))
                    (fold_left (fun acc x => insert_path x acc) fs [])).

Definition run_listcmd (op : bytes) (args : list bytes) : bytes :=
  let go (solid classify nfiles matched arch : bytes) (k : bool -> bool -> N -> (bytes -> bool) -> larchive -> bytes) :=
    match undec nfiles, p_names matched, p_archive arch with
    | Some nf, Some ms, Some a => lit "OK " ++ k (p_bool solid) (p_bool classify) nf (fun n => mem n ms) a
    | _, _, _ => bad_case
    end in
  match args with
  | [solid; classify; nfiles; matched; arch] =>
    if bytes_eqb op (lit "plain") then go solid classify nfiles matched arch (fun s c nf sel a => hex (plain_output c (list_rows s nf sel a)))
    else if bytes_eqb op (lit "table") then go solid classify nfiles matched arch (fun s c nf sel a => s_table c (list_rows s nf sel a))
    else if bytes_eqb op (lit "plainq") then go solid classify nfiles matched arch (fun s c nf sel a => hex (plain_output_q c (list_rows s nf sel a)))
    else if bytes_eqb op (lit "tableq") then go solid classify nfiles matched arch (fun s c nf sel a => s_table_q c (list_rows s nf sel a))
    else if bytes_eqb op (lit "tree") then go solid classify nfiles matched arch (fun s c nf sel a => s_tree (tree_output c (list_rows s nf sel a)))
    else bad_case
  | [solid; nfiles; matched; arch] =>
    if bytes_eqb op (lit "jsonl") then go solid (lit "0") nfiles matched arch (fun s _ nf sel a => s_jsonl (list_rows s nf sel a))
    else bad_case
  | [nfiles; matched; arch] =>
    if bytes_eqb op (lit "extract") then go (lit "1") (lit "0") nfiles matched arch (fun _ _ nf sel a => s_fs (extracted nf sel a))
    else bad_case
  | _ => bad_case
  end.

Definition run_line := run_line_with run_listcmd.
