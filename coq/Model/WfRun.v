(* WfRun.v — case interpreter of the wf area (strict recogniser / strict decoder, C14).
   ops:  wf <label> <hex> [expect]            -> "1" | "0 <reason>"      (label / expect: for the harness oracles only)
         wfparts <label> <hex,hex..> [expect] -> "1" | "0 <reason>"
         part <n> <hex>      -> "1" | "0 <reason>"      (one part file on its own)
         strict <hex,hex..>  -> "OK <entry;entry..>" | "NO <reason>"   (entries as ArchiveRun.show_entry)
         agree <hex>         -> "1" if the strict decoder and the library's tolerant reader (Entry.entries)
                                return the same entries on a well-formed archive, "-" if not well-formed, else "0"
   Output formats mirror harness/src/bin/wf.rs (refdec.rs verdict / show_entry). *)
From PNA Require Import Base Crc32 Name Codec Chunk Archive Entry CodecRun ArchiveRun Wf.

Definition show_verdict {A} (r : sres A) : bytes :=
  match r with SOk _ => c_ "1" | SNo w => c_ "0 " ++ show_reason w end.

Definition parts_arg (a : bytes) : option (list bytes) := all_some (map unhex (list_field a)).

Definition run_wf (op : bytes) (args : list bytes) : bytes :=
  let A_ i := nth i args [] in
  let N_ i := match undec (A_ i) with Some n => n | None => 0 end in
  let H_ i := match unhex (A_ i) with Some b => b | None => [] end in
  if bytes_eqb op (c_ "wf") then show_verdict (strict_parts [H_ 1%nat])
  else if bytes_eqb op (c_ "wfparts") then
    match parts_arg (A_ 1%nat) with Some ps => show_verdict (strict_parts ps) | None => bad_case end
  else if bytes_eqb op (c_ "part") then show_verdict (part_body (N_ 0%nat) (H_ 1%nat))
  else if bytes_eqb op (c_ "strict") then
    match parts_arg (A_ 0%nat) with
    | Some ps =>
      match strict_parts ps with
      | SOk es => c_ "OK " ++ jn ";" (map show_entry es)
      | SNo w => c_ "NO " ++ show_reason w
      end
    | None => bad_case
    end
  else if bytes_eqb op (c_ "agree") then
    match strict_parts [H_ 0%nat] with
    | SOk es =>
      match entries read_chunk_stream (H_ 0%nat) with
      | Ok (es', FinOk) => showb (bytes_eqb (jn ";" (map show_entry es)) (jn ";" (map show_entry es')))
      | _ => c_ "0"
      end
    | SNo _ => c_ "-"
    end
  else bad_case.

Definition run_line := run_line_with run_wf.
