(* Props/C17.v — C17: list, extract and the library agree on what an archive contains.
   Only statements, closed by `exact`, pinned by `Check`, audited by `Print Assumptions`.
   `sel` is glob matching on the entry name (both commands call the same matcher on the same string);
   nf is the number of patterns (none: everything is selected).
   C17_list_extract_agree: extract is fed exactly the rows list --solid prints, and the extracted tree
   is a function of those rows only; that the leaves of the tree on disk are those names with the
   library's kinds, sizes and targets is checked on the real `pna extract` for every observation. *)
From PNA Require Import Base ListCmd BaseFacts ListCmdFacts.
Open Scope N_scope.

Theorem C17_list_solid_agrees : forall nf sel a, list_rows true nf sel a = filter (selected nf sel) (lib_entries a).
Proof. exact list_solid_agrees. Qed.
Check C17_list_solid_agrees : forall nf sel a, list_rows true nf sel a = filter (selected nf sel) (lib_entries a).
Print Assumptions C17_list_solid_agrees.

Theorem C17_lib_tagged_all : forall a, map snd (lib_tagged a) = lib_entries a.
Proof. exact lib_tagged_all. Qed.
Check C17_lib_tagged_all : forall a, map snd (lib_tagged a) = lib_entries a.
Print Assumptions C17_lib_tagged_all.

Theorem C17_list_nosolid : forall nf sel a, list_rows false nf sel a
  = filter (selected nf sel) (map snd (filter (fun t => negb (fst t)) (lib_tagged a))).
Proof. exact list_nosolid. Qed.
Check C17_list_nosolid : forall nf sel a, list_rows false nf sel a
  = filter (selected nf sel) (map snd (filter (fun t => negb (fst t)) (lib_tagged a))).
Print Assumptions C17_list_nosolid.

Theorem C17_list_extract_agree : forall nf sel a, map r_name (extract_rows nf sel a) = map r_name (list_rows true nf sel a)
  /\ extracted nf sel a = fold_left extract_one (list_rows true nf sel a) [].
Proof. exact list_extract_agree. Qed.
Check C17_list_extract_agree : forall nf sel a, map r_name (extract_rows nf sel a) = map r_name (list_rows true nf sel a)
  /\ extracted nf sel a = fold_left extract_one (list_rows true nf sel a) [].
Print Assumptions C17_list_extract_agree.

Theorem C17_tree_nodes_spec : forall rs p c k, In (p, c, k) (tree_nodes rs) <->
  exists r pre post, In r rs /\ components (r_name r) = pre ++ c :: post /\
                     p = fold_left pjoin pre [] /\ k = match post with [] => r_kind r | _ => 1 end.
Proof. exact tree_nodes_spec. Qed.
Check C17_tree_nodes_spec : forall rs p c k, In (p, c, k) (tree_nodes rs) <->
  exists r pre post, In r rs /\ components (r_name r) = pre ++ c :: post /\
                     p = fold_left pjoin pre [] /\ k = match post with [] => r_kind r | _ => 1 end.
Print Assumptions C17_tree_nodes_spec.

Theorem C17_example : map r_name (list_rows false 0 (fun _ => false) ex_rows) = [lit "a/b c"] /\
  map r_name (list_rows true 0 (fun _ => false) ex_rows) = [lit "a/b c"; lit "d/l"] /\
  In (lit "d", lit "l", 2) (tree_nodes (list_rows true 0 (fun _ => false) ex_rows)).
Proof. exact ex_nosolid_differs. Qed.
Check C17_example : map r_name (list_rows false 0 (fun _ => false) ex_rows) = [lit "a/b c"] /\
  map r_name (list_rows true 0 (fun _ => false) ex_rows) = [lit "a/b c"; lit "d/l"] /\
  In (lit "d", lit "l", 2) (tree_nodes (list_rows true 0 (fun _ => false) ex_rows)).
Print Assumptions C17_example.

(* -q (hide control characters) is a printer option: the rows it prints are those of list_rows, one output line
   per row whatever bytes the names hold (no control byte, hence no line feed, survives in a printed name) *)
Theorem C17_quiet_one_line_per_row : forall classify solid nf sel a,
  count_lf (plain_output_q classify (list_rows solid nf sel a)) = length (list_rows solid nf sel a).
Proof. exact (fun classify solid nf sel a => plain_q_one_line_per_row classify (list_rows solid nf sel a)). Qed.
Check C17_quiet_one_line_per_row : forall classify solid nf sel a,
  count_lf (plain_output_q classify (list_rows solid nf sel a)) = length (list_rows solid nf sel a).
Print Assumptions C17_quiet_one_line_per_row.

Theorem C17_quiet_prints_graphic : forall s, Forall (fun b => 32 <= b2n b /\ b2n b <> 127) (hide_control s).
Proof. exact hide_control_graphic. Qed.
Check C17_quiet_prints_graphic : forall s, Forall (fun b => 32 <= b2n b /\ b2n b <> 127) (hide_control s).
Print Assumptions C17_quiet_prints_graphic.
