(* Props/C11.v — C11: append and update never lose or duplicate entries.
   Only statements, closed by `exact`, pinned by `Check`, audited by `Print Assumptions`.

   The model (Model/Update.v) is the code after the fix: commits ff5cb171 (non-target entries kept, matched
   target removed from the items still to add), d6f70cbe (a target matches the entry it would be stored as)
   82c7cf0b (stale further copies of a re-created name dropped), a048f63a (update: the walked paths are
   de-duplicated by entry name) and 4cfc8ff5 (collect_items itself keeps the first walked path of every entry name,
   for create, append, stdio -c and update alike: `update_targets kd walk` = the items).  An archive's logical content is the
   ordered list of its entries (solid blocks and part boundaries flattened); the disk is seen through the
   nodes the walker yields.  `wanted kd` is collect_items' filter (keep_dir || is_file), `fresh kt n` the entry
   create_entry builds for node n.  The re-created entries are written after the kept ones (the code sends
   them through the channel that also carries the new ones), which is the order the equations state.
   Outside the model: symbolic links, ctime filters, the byte-level layout (C14/C01 areas). *)
From PNA Require Import Base Name Update BaseFacts UpdateFacts.
Open Scope N_scope.

(* append: all previous entries unchanged, followed by the new ones *)
Theorem C11_append_spec : forall a new, append a new = a ++ new.
Proof. exact append_spec. Qed.
Check C11_append_spec : forall a new, append a new = a ++ new.
Print Assumptions C11_append_spec.

(* the command: the previous entries unchanged, followed by the new ones — one per entry name among the walked paths,
   built from the first walked path of that name, in walk order (C11_items_spec; overlapping file arguments
   `-r t t/a`, `./t/a t/a` no longer archive a path twice: 4cfc8ff5) *)
Theorem C11_append_cmd_spec : forall kd kt a walk a',
  append_cmd kd kt a walk = Ok a' -> a' = a ++ map (fresh kt) (update_targets kd walk).
Proof. exact append_cmd_spec. Qed.
Check C11_append_cmd_spec : forall kd kt a walk a',
  append_cmd kd kt a walk = Ok a' -> a' = a ++ map (fresh kt) (update_targets kd walk).
Print Assumptions C11_append_cmd_spec.

Theorem C11_create_cmd_spec : forall kd kt walk a',
  create_cmd kd kt walk = Ok a' -> a' = map (fresh kt) (update_targets kd walk).
Proof. exact create_cmd_spec. Qed.
Check C11_create_cmd_spec : forall kd kt walk a',
  create_cmd kd kt walk = Ok a' -> a' = map (fresh kt) (update_targets kd walk).
Print Assumptions C11_create_cmd_spec.

(* the items of create / append / update, in full: no two have the same entry name; their names are those of the
   walked paths collect_items lets pass; a path is an item iff it is the first walked path of its name; the list is
   the walk filtered when no name repeats; and, walking left to right, a path is an item iff it passes the filter and
   no earlier path that passes has its name (the two equations determine the list) *)
Theorem C11_items_spec : forall kd walk,
  NoDup (map node_name (update_targets kd walk)) /\
  (forall q, In q (map node_name (update_targets kd walk)) <-> In q (map node_name (filter (wanted kd) walk))) /\
  (forall n, In n (update_targets kd walk) <-> find (named_p (node_name n)) (filter (wanted kd) walk) = Some n) /\
  (NoDup (map node_name (filter (wanted kd) walk)) -> update_targets kd walk = filter (wanted kd) walk).
Proof. exact update_targets_spec. Qed.
Check C11_items_spec : forall kd walk,
  NoDup (map node_name (update_targets kd walk)) /\
  (forall q, In q (map node_name (update_targets kd walk)) <-> In q (map node_name (filter (wanted kd) walk))) /\
  (forall n, In n (update_targets kd walk) <-> find (named_p (node_name n)) (filter (wanted kd) walk) = Some n) /\
  (NoDup (map node_name (filter (wanted kd) walk)) -> update_targets kd walk = filter (wanted kd) walk).
Print Assumptions C11_items_spec.

Theorem C11_items_nil : forall kd, update_targets kd [] = [].
Proof. exact update_targets_nil. Qed.
Check C11_items_nil : forall kd, update_targets kd [] = [].
Print Assumptions C11_items_nil.
Theorem C11_items_snoc : forall kd walk n,
  update_targets kd (walk ++ [n])
  = update_targets kd walk ++ (if wanted kd n && negb (mem (node_name n) (map node_name (filter (wanted kd) walk))) then [n] else []).
Proof. exact update_targets_snoc. Qed.
Check C11_items_snoc : forall kd walk n,
  update_targets kd (walk ++ [n])
  = update_targets kd walk ++ (if wanted kd n && negb (mem (node_name n) (map node_name (filter (wanted kd) walk))) then [n] else []).
Print Assumptions C11_items_snoc.

(* update.rs still applies the rule to what collect_items returns: the second pass is the identity *)
Theorem C11_dedup_idempotent : forall l, dedup_names (dedup_names l) = dedup_names l.
Proof. exact dedup_names_idem. Qed.
Check C11_dedup_idempotent : forall l, dedup_names (dedup_names l) = dedup_names l.
Print Assumptions C11_dedup_idempotent.

(* create never holds a name twice, whatever the walker yields (no premise); every walked path that passes is held
   exactly once, as the entry of the first walked path of its name; the same for what append adds *)
Theorem C11_create_nodup : forall kd kt walk a', create_cmd kd kt walk = Ok a' -> NoDup (names a').
Proof. exact create_nodup. Qed.
Check C11_create_nodup : forall kd kt walk a', create_cmd kd kt walk = Ok a' -> NoDup (names a').
Print Assumptions C11_create_nodup.

Theorem C11_create_exactly_once : forall kd kt walk a' n,
  create_cmd kd kt walk = Ok a' ->
  In n (filter (wanted kd) walk) ->
  exists n', find (fun m => bytes_eqb (node_name m) (node_name n)) (filter (wanted kd) walk) = Some n' /\
    node_name n' = node_name n /\
    filter (fun e => bytes_eqb (e_path e) (node_name n)) a' = [fresh kt n'].
Proof. exact create_exactly_once. Qed.
Check C11_create_exactly_once : forall kd kt walk a' n,
  create_cmd kd kt walk = Ok a' ->
  In n (filter (wanted kd) walk) ->
  exists n', find (fun m => bytes_eqb (node_name m) (node_name n)) (filter (wanted kd) walk) = Some n' /\
    node_name n' = node_name n /\
    filter (fun e => bytes_eqb (e_path e) (node_name n)) a' = [fresh kt n'].
Print Assumptions C11_create_exactly_once.

Theorem C11_append_new_exactly_once : forall kd kt a walk a' n,
  append_cmd kd kt a walk = Ok a' ->
  In n (filter (wanted kd) walk) ->
  exists n' new, a' = a ++ new /\
    find (fun m => bytes_eqb (node_name m) (node_name n)) (filter (wanted kd) walk) = Some n' /\
    node_name n' = node_name n /\
    filter (fun e => bytes_eqb (e_path e) (node_name n)) new = [fresh kt n'].
Proof. exact append_new_exactly_once. Qed.
Check C11_append_new_exactly_once : forall kd kt a walk a' n,
  append_cmd kd kt a walk = Ok a' ->
  In n (filter (wanted kd) walk) ->
  exists n' new, a' = a ++ new /\
    find (fun m => bytes_eqb (node_name m) (node_name n)) (filter (wanted kd) walk) = Some n' /\
    node_name n' = node_name n /\
    filter (fun e => bytes_eqb (e_path e) (node_name n)) new = [fresh kt n'].
Print Assumptions C11_append_new_exactly_once.

(* update, the ordered-list equation (archives without duplicate names):
   the entries that stay ++ the re-created ones in archive order ++ the targets not yet archived *)
Theorem C11_update_spec : forall kd kt excl cond a walk a',
  NoDup (names a) -> update_cmd kd kt excl cond a walk = Ok a' ->
  let targets := update_targets kd walk in
  a' = filter (stays excl cond targets) a
       ++ map (fresh kt) (flat_map (job excl cond targets) a)
       ++ map (fresh kt) (filter (not_in a) targets).
Proof. exact update_spec. Qed.
Check C11_update_spec : forall kd kt excl cond a walk a',
  NoDup (names a) -> update_cmd kd kt excl cond a walk = Ok a' ->
  let targets := update_targets kd walk in
  a' = filter (stays excl cond targets) a
       ++ map (fresh kt) (flat_map (job excl cond targets) a)
       ++ map (fresh kt) (filter (not_in a) targets).
Print Assumptions C11_update_spec.

(* every entry not named for update is still present, unchanged, in the same relative order, and nothing
   else appears among the unnamed paths — for EVERY archive, duplicates or not, any filter, any exclude *)
Theorem C11_update_keeps_others : forall kd kt excl cond a walk a',
  update_cmd kd kt excl cond a walk = Ok a' ->
  filter (unnamed (filter (wanted kd) walk)) a' = filter (unnamed (filter (wanted kd) walk)) a.
Proof. exact update_keeps_others. Qed.
Check C11_update_keeps_others : forall kd kt excl cond a walk a',
  update_cmd kd kt excl cond a walk = Ok a' ->
  filter (unnamed (filter (wanted kd) walk)) a' = filter (unnamed (filter (wanted kd) walk)) a.
Print Assumptions C11_update_keeps_others.

(* every named path that exists on disk is present exactly once, with its current contents — for EVERY
   archive (also one that already holds the path several times) and EVERY walk (also one that yields a path
   several times: -r d d/a, ./d/a d/a — the premise "no overlapping file arguments" of before a048f63a is gone),
   when no filter / exclude holds it back.  The entry is the one built from the first walked path of that name *)
Theorem C11_update_exactly_once : forall kd kt a walk a' n,
  update_cmd kd kt [] 0 a walk = Ok a' ->
  In n (filter (wanted kd) walk) ->
  exists n', find (fun m => bytes_eqb (node_name m) (node_name n)) (filter (wanted kd) walk) = Some n' /\
    node_name n' = node_name n /\
    filter (fun e => bytes_eqb (e_path e) (node_name n)) a' = [fresh kt n'].
Proof. exact update_exactly_once. Qed.
Check C11_update_exactly_once : forall kd kt a walk a' n,
  update_cmd kd kt [] 0 a walk = Ok a' ->
  In n (filter (wanted kd) walk) ->
  exists n', find (fun m => bytes_eqb (node_name m) (node_name n)) (filter (wanted kd) walk) = Some n' /\
    node_name n' = node_name n /\
    filter (fun e => bytes_eqb (e_path e) (node_name n)) a' = [fresh kt n'].
Print Assumptions C11_update_exactly_once.

(* the same in terms of the targets (the first walked path of every entry name), and as a count *)
Theorem C11_update_exactly_once_targets : forall kd kt a walk a' n,
  update_cmd kd kt [] 0 a walk = Ok a' ->
  In n (update_targets kd walk) ->
  filter (fun e => bytes_eqb (e_path e) (node_name n)) a' = [fresh kt n].
Proof. exact update_exactly_once_targets. Qed.
Check C11_update_exactly_once_targets : forall kd kt a walk a' n,
  update_cmd kd kt [] 0 a walk = Ok a' ->
  In n (update_targets kd walk) ->
  filter (fun e => bytes_eqb (e_path e) (node_name n)) a' = [fresh kt n].
Print Assumptions C11_update_exactly_once_targets.

Theorem C11_update_exactly_one : forall kd kt a walk a' n,
  update_cmd kd kt [] 0 a walk = Ok a' -> In n (filter (wanted kd) walk) ->
  length (filter (fun e => bytes_eqb (e_path e) (node_name n)) a') = 1%nat.
Proof. exact update_exactly_one. Qed.
Check C11_update_exactly_one : forall kd kt a walk a' n,
  update_cmd kd kt [] 0 a walk = Ok a' -> In n (filter (wanted kd) walk) ->
  length (filter (fun e => bytes_eqb (e_path e) (node_name n)) a') = 1%nat.
Print Assumptions C11_update_exactly_one.

(* the targets: one per entry name, the names are those the walker yields, each is a walked path; nothing to do
   when the walked paths name distinct entries *)
Theorem C11_update_targets : forall kd walk,
  NoDup (map node_name (update_targets kd walk)) /\
  (forall q, In q (map node_name (update_targets kd walk)) <-> In q (map node_name (filter (wanted kd) walk))) /\
  incl (update_targets kd walk) (filter (wanted kd) walk) /\
  (NoDup (map node_name (filter (wanted kd) walk)) -> update_targets kd walk = filter (wanted kd) walk).
Proof.
  exact (fun kd walk => conj (update_targets_nodup kd walk)
          (conj (fun q => dedup_names_names (filter (wanted kd) walk) q)
          (conj (dedup_names_incl (filter (wanted kd) walk)) (dedup_names_id (filter (wanted kd) walk))))).
Qed.
Check C11_update_targets : forall kd walk,
  NoDup (map node_name (update_targets kd walk)) /\
  (forall q, In q (map node_name (update_targets kd walk)) <-> In q (map node_name (filter (wanted kd) walk))) /\
  incl (update_targets kd walk) (filter (wanted kd) walk) /\
  (NoDup (map node_name (filter (wanted kd) walk)) -> update_targets kd walk = filter (wanted kd) walk).
Print Assumptions C11_update_targets.

(* update keeps names unique, whatever the walker yields *)
Theorem C11_update_nodup : forall kd kt excl cond a walk a',
  NoDup (names a) ->
  update_cmd kd kt excl cond a walk = Ok a' -> NoDup (names a').
Proof. exact update_nodup. Qed.
Check C11_update_nodup : forall kd kt excl cond a walk a',
  NoDup (names a) ->
  update_cmd kd kt excl cond a walk = Ok a' -> NoDup (names a').
Print Assumptions C11_update_nodup.

(* any interleaving of create, append (of names not yet archived), update, delete and re-splitting, failing
   steps included (they leave the archive as it was): no name is ever held twice.  `hist_ok` asks nothing of a create
   step (4cfc8ff5), an update step (a048f63a), a delete or a re-split (C11_hist_ok_create, C11_hist_ok_update); of an
   append step it asks that no walked path has a name the archive holds — nothing about the walked paths among
   themselves any more (C11_hist_ok_append).  That clause cannot go: append.rs seeks to the end and writes, it never
   reads the names (C11_append_existing_name_twice) *)
Theorem C11_history_invariant : forall ops a, NoDup (names a) -> hist_ok a ops -> NoDup (names (final a ops)).
Proof. exact history_invariant. Qed.
Check C11_history_invariant : forall ops a, NoDup (names a) -> hist_ok a ops -> NoDup (names (final a ops)).
Print Assumptions C11_history_invariant.

(* a history without append: no premise on any step *)
Theorem C11_history_invariant_no_append : forall ops a, NoDup (names a) -> no_append ops -> NoDup (names (final a ops)).
Proof. exact history_invariant_no_append. Qed.
Check C11_history_invariant_no_append : forall ops a, NoDup (names a) -> no_append ops -> NoDup (names (final a ops)).
Print Assumptions C11_history_invariant_no_append.

Theorem C11_hist_ok_update : forall a kd kt excl cond walk, op_ok a (OUpdate kd kt excl cond walk) <-> True.
Proof. exact op_ok_update. Qed.
Check C11_hist_ok_update : forall a kd kt excl cond walk, op_ok a (OUpdate kd kt excl cond walk) <-> True.
Print Assumptions C11_hist_ok_update.

Theorem C11_hist_ok_create : forall a kd kt walk, op_ok a (OCreate kd kt walk) <-> True.
Proof. exact op_ok_create. Qed.
Check C11_hist_ok_create : forall a kd kt walk, op_ok a (OCreate kd kt walk) <-> True.
Print Assumptions C11_hist_ok_create.

Theorem C11_hist_ok_append : forall a kd kt walk,
  op_ok a (OAppend kd kt walk) <-> (forall n, In n (filter (wanted kd) walk) -> ~ In (node_name n) (names a)).
Proof. exact op_ok_append. Qed.
Check C11_hist_ok_append : forall a kd kt walk,
  op_ok a (OAppend kd kt walk) <-> (forall n, In n (filter (wanted kd) walk) -> ~ In (node_name n) (names a)).
Print Assumptions C11_hist_ok_append.

Theorem C11_append_existing_name_twice :
  exists a walk a', NoDup (names a) /\ append_cmd false false a walk = Ok a' /\
    names a' = [lit "t/a"; lit "t/a"] /\ ~ NoDup (names a').
Proof. exact append_existing_name_twice. Qed.
Check C11_append_existing_name_twice :
  exists a walk a', NoDup (names a) /\ append_cmd false false a walk = Ok a' /\
    names a' = [lit "t/a"; lit "t/a"] /\ ~ NoDup (names a').
Print Assumptions C11_append_existing_name_twice.

Theorem C11_delete_spec : forall matched a,
  delete matched a = filter (fun e => negb (mem (e_path e) matched)) a.
Proof. exact delete_spec. Qed.
Check C11_delete_spec : forall matched a,
  delete matched a = filter (fun e => negb (mem (e_path e) matched)) a.
Print Assumptions C11_delete_spec.

(* D13, on the pass as it was before the fix: updating one file of three loses the other two and holds the
   updated one twice *)
Theorem C11_update_unrepaired_refuted :
  exists a targets e, In e a /\ ~ In (e_path e) (map node_name targets)
    /\ ~ In (e_path e) (names (update_orig false [] 0 a targets))
    /\ names (update_orig false [] 0 a targets) = [lit "d/a"; lit "d/a"].
Proof. exact update_unrepaired_loses. Qed.
Check C11_update_unrepaired_refuted :
  exists a targets e, In e a /\ ~ In (e_path e) (map node_name targets)
    /\ ~ In (e_path e) (names (update_orig false [] 0 a targets))
    /\ names (update_orig false [] 0 a targets) = [lit "d/a"; lit "d/a"].
Print Assumptions C11_update_unrepaired_refuted.

(* the overlap defect, on the command as it was before a048f63a (update_cmd_orig): archive [t/a], the walker
   yields t/b twice (t/b ./t/b) -> t/b is archived twice *)
Theorem C11_update_overlap_unrepaired_refuted :
  exists a walk a', NoDup (names a) /\ update_cmd_orig false false [] 0 a walk = Ok a' /\
    names a' = [lit "t/a"; lit "t/b"; lit "t/b"] /\ ~ NoDup (names a').
Proof. exact update_overlap_unrepaired. Qed.
Check C11_update_overlap_unrepaired_refuted :
  exists a walk a', NoDup (names a) /\ update_cmd_orig false false [] 0 a walk = Ok a' /\
    names a' = [lit "t/a"; lit "t/b"; lit "t/b"] /\ ~ NoDup (names a').
Print Assumptions C11_update_overlap_unrepaired_refuted.

(* the same defect in create / append, on the commands as they were before 4cfc8ff5 (collect_orig): the walker yields
   t/a twice (t/a ./t/a) -> create archives t/a twice; archive [t/a], walk t/b ./t/b -> append archives t/b twice
   although no walked path has a name the archive holds *)
Theorem C11_create_overlap_unrepaired_refuted :
  exists walk a', create_cmd_orig false false walk = Ok a' /\
    names a' = [lit "t/a"; lit "t/a"] /\ ~ NoDup (names a').
Proof. exact create_overlap_unrepaired. Qed.
Check C11_create_overlap_unrepaired_refuted :
  exists walk a', create_cmd_orig false false walk = Ok a' /\
    names a' = [lit "t/a"; lit "t/a"] /\ ~ NoDup (names a').
Print Assumptions C11_create_overlap_unrepaired_refuted.

Theorem C11_append_overlap_unrepaired_refuted :
  exists a walk a', NoDup (names a) /\ (forall n, In n (filter (wanted false) walk) -> ~ In (node_name n) (names a)) /\
    append_cmd_orig false false a walk = Ok a' /\
    names a' = [lit "t/a"; lit "t/b"; lit "t/b"] /\ ~ NoDup (names a').
Proof. exact append_overlap_unrepaired. Qed.
Check C11_append_overlap_unrepaired_refuted :
  exists a walk a', NoDup (names a) /\ (forall n, In n (filter (wanted false) walk) -> ~ In (node_name n) (names a)) /\
    append_cmd_orig false false a walk = Ok a' /\
    names a' = [lit "t/a"; lit "t/b"; lit "t/b"] /\ ~ NoDup (names a').
Print Assumptions C11_append_overlap_unrepaired_refuted.

Example C11_create_overlap_repaired :
  create_cmd false false ovc_walk = Ok [mkE (lit "t/a") 0 (lit "one") None].
Proof. exact create_overlap_repaired_witness. Qed.
Example C11_append_overlap_repaired :
  append_cmd false false ov_a ov_walk
  = Ok [mkE (lit "t/a") 0 (lit "one") None; mkE (lit "t/b") 0 (lit "two") None].
Proof. exact append_overlap_repaired_witness. Qed.

Example C11_update_overlap_repaired :
  update_cmd false false [] 0 ov_a ov_walk
  = Ok [mkE (lit "t/a") 0 (lit "one") None; mkE (lit "t/b") 0 (lit "two") None].
Proof. exact update_overlap_repaired_witness. Qed.

(* premises are satisfiable: the same input through the repaired command *)
Example C11_premises_met :
  NoDup (names d13_a) /\ In (hd (mkN [] 0 [] 0) d13_targets) (filter (wanted false) d13_targets)
  /\ update_cmd false false [] 0 d13_a d13_targets
     = Ok [mkE (lit "d/b") 0 (lit "two") None; mkE (lit "d/c") 0 (lit "three") None; mkE (lit "d/a") 0 (lit "ONE2") None]
  /\ hist_ok [] [OCreate false false d13_targets; OUpdate false false [] 0 d13_targets; ODelete [lit "d/a"]].
Proof.
  split; [|split; [|split]].
  - repeat constructor; cbn; intuition discriminate.
  - vm_compute. left. reflexivity.
  - vm_compute. reflexivity.
  - cbn. tauto.
Qed.
