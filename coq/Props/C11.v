(* Props/C11.v — placeholder while the harness is brought up; replaced by the full statements. *)
From PNA Require Import Base Name Update.
Theorem C11_append_spec : forall a new, append a new = a ++ new.
Proof. reflexivity. Qed.
Check C11_append_spec : forall a new, append a new = a ++ new.
Print Assumptions C11_append_spec.
